// Generators of the C30 streams: a grammar of PDU values, mutators of their encodings, and the
// LSP-entry lists for NewCSNPs/NewPSNPs around the 15/16 entries-per-TLV and the per-PDU boundaries.
package main

import (
	"bytes"
	"encoding/hex"
	"fmt"
	"strings"

	"github.com/bio-routing/bio-rd/protocols/isis/packet"
	"github.com/bio-routing/bio-rd/protocols/isis/types"

	"verifharness/hx"
)

func rbytes(r *hx.RNG, n int) []byte {
	b := make([]byte, n)
	for i := range b {
		if r.Chance(70) {
			b[i] = byte(r.Intn(4)) // small, colliding domain
		} else {
			b[i] = byte(r.Intn(256))
		}
	}
	return b
}

func ru32(r *hx.RNG) uint32 {
	switch r.Intn(4) {
	case 0:
		return uint32(r.Intn(3))
	case 1:
		return 0xffffffff - uint32(r.Intn(2))
	}
	return uint32(r.U64())
}

func ru16(r *hx.RNG) uint16 {
	switch r.Intn(4) {
	case 0:
		return uint16(r.Intn(3))
	case 1:
		return 0xffff - uint16(r.Intn(2))
	}
	return uint16(r.U64())
}

func rsys(r *hx.RNG) (s types.SystemID) { copy(s[:], rbytes(r, 6)); return }
func rsrc(r *hx.RNG) types.SourceID      { return types.SourceID{SystemID: rsys(r), CircuitID: byte(r.Intn(3))} }
func rlspid(r *hx.RNG) packet.LSPID {
	return packet.LSPID{SystemID: rsys(r), PseudonodeID: byte(r.Intn(3)), LSPNumber: byte(r.Intn(3))}
}
func rentry(r *hx.RNG) *packet.LSPEntry {
	return &packet.LSPEntry{RemainingLifetime: ru16(r), LSPID: rlspid(r), SequenceNumber: ru32(r), LSPChecksum: ru16(r)}
}

// unknownType: a type code readTLV has no case for
func unknownType(r *hx.RNG) uint8 {
	for {
		c := []uint8{0, 2, 3, 8, 10, 22, 134, 135, 222, 229, 232, 236, 242, 255, uint8(r.Intn(256))}
		t := c[r.Intn(len(c))]
		if !hasDecoder(t) {
			return t
		}
	}
}

func genSubs(r *hx.RNG) ([]packet.TLV, int) {
	ts := []packet.TLV{}
	n := 0
	for i := r.Intn(3); i > 0; i-- {
		switch r.Intn(3) {
		case 0:
			ts = append(ts, packet.NewLinkLocalRemoteIdentifiersSubTLV(ru32(r), ru32(r)))
			n += 10
		case 1:
			if r.Bool() {
				ts = append(ts, packet.NewIPv4InterfaceAddressSubTLV(ru32(r)))
			} else {
				ts = append(ts, packet.NewIPv4NeighborAddressSubTLV(ru32(r)))
			}
			n += 6
		default:
			v := rbytes(r, r.Intn(4))
			ts = append(ts, &packet.UnknownTLV{TLVType: uint8(r.Intn(40)), TLVLength: uint8(len(v)), TLVValue: v})
			n += 2 + len(v)
		}
	}
	return ts, n
}

const nKinds = 13

// genTLV builds a TLV of kind k; skew != 0 makes the length field / shape inconsistent with the content
// (not well-formed: outside the round trip theorem, still compared with the model)
func genTLV(r *hx.RNG, k int, skew bool) packet.TLV {
	var t packet.TLV
	switch k {
	case 0:
		areas := []types.AreaID{}
		for i := r.Intn(4); i > 0; i-- {
			areas = append(areas, types.AreaID(rbytes(r, []int{0, 1, 3, 13}[r.Intn(4)])))
		}
		t = packet.NewAreaAddressesTLV(areas)
	case 1:
		l := uint8(2)
		if r.Chance(30) {
			l = uint8(r.Intn(5))
		}
		t = &packet.ChecksumTLV{TLVType: packet.ChecksumTLVType, TLVLength: l, Checksum: ru16(r)}
	case 2:
		t = packet.NewDynamicHostnameTLV(rbytes(r, []int{0, 1, 7, 40, 255}[r.Intn(5)]))
	case 3:
		p := packet.NewProtocolsSupportedTLV(rbytes(r, []int{0, 1, 2, 5}[r.Intn(4)]))
		t = &p
	case 4:
		x := &packet.IPInterfaceAddressesTLV{TLVType: packet.IPInterfaceAddressesTLVType, IPv4Addresses: []uint32{}}
		for i := []int{0, 1, 2, 63}[r.Intn(4)]; i > 0; i-- {
			x.IPv4Addresses = append(x.IPv4Addresses, ru32(r))
		}
		x.TLVLength = uint8(4 * len(x.IPv4Addresses))
		t = x
	case 5:
		x := packet.NewP2PAdjacencyStateTLV(uint8(r.Intn(4)), ru32(r))
		if r.Bool() {
			x.TLVLength = packet.P2PAdjacencyStateTLVLenWithNeighbor
			x.NeighborSystemID = rsys(r)
			x.NeighborExtendedLocalCircuitID = ru32(r)
		}
		t = x
	case 6:
		l := uint8(6)
		if r.Chance(30) {
			l = uint8(r.Intn(10))
		}
		t = &packet.ISNeighborsTLV{TLVType: packet.ISNeighborsTLVType, TLVLength: l, NeighborSNPA: rsys(r)}
	case 7:
		es := []*packet.LSPEntry{}
		for i := []int{0, 1, 2, 14, 15}[r.Intn(5)]; i > 0; i-- {
			es = append(es, rentry(r))
		}
		t = packet.NewLSPEntriesTLV(es)
	case 8:
		v := rbytes(r, []int{0, 1, 4, 30, 255}[r.Intn(5)])
		t = &packet.UnknownTLV{TLVType: unknownType(r), TLVLength: uint8(len(v)), TLVValue: v}
	case 9:
		t = packet.NewPaddingTLV(uint8([]int{0, 1, 9, 255}[r.Intn(4)]))
	case 10:
		x := packet.NewExtendedISReachabilityTLV()
		for i := r.Intn(4); i > 0; i-- {
			n := packet.NewExtendedISReachabilityNeighbor(rsrc(r), ru32(r))
			subs, _ := genSubs(r)
			for _, s := range subs {
				n.AddSubTLV(s)
			}
			x.AddNeighbor(n)
		}
		t = x
	case 11:
		x := packet.NewExtendedIPReachabilityTLV()
		for i := r.Intn(5); i > 0; i-- {
			pl := uint8([]int{0, 1, 8, 9, 24, 31, 32}[r.Intn(7)])
			x.AddExtendedIPReachability(packet.NewExtendedIPReachability(ru32(r), pl, ru32(r)))
		}
		t = x
	default:
		t = packet.NewTrafficEngineeringRouterIDTLV(ru32(r))
	}
	if skew {
		skewTLV(r, t)
	}
	return t
}

// skewTLV makes a TLV inconsistent the way a careless caller could
func skewTLV(r *hx.RNG, t packet.TLV) {
	d := uint8([]int{1, 255, 2, 16, 240}[r.Intn(5)])
	switch v := t.(type) {
	case *packet.AreaAddressesTLV:
		v.TLVLength += d
	case *packet.DynamicHostNameTLV:
		v.TLVLength += d
	case *packet.ProtocolsSupportedTLV:
		v.TLVLength += d
	case *packet.IPInterfaceAddressesTLV:
		v.TLVLength += d
	case *packet.P2PAdjacencyStateTLV:
		if r.Bool() {
			v.TLVLength = uint8(r.Intn(20))
		} else {
			v.TLVLength = 5 // neighbor fields set but not serialized
			v.NeighborSystemID = types.SystemID{1, 2, 3, 4, 5, 6}
		}
	case *packet.LSPEntriesTLV:
		if r.Bool() {
			v.TLVLength += d
		} else { // what NewLSPEntriesTLV does with more than 15 entries
			for len(v.LSPEntries) < 16+r.Intn(3) {
				v.LSPEntries = append(v.LSPEntries, rentry(r))
			}
			v.TLVLength = uint8(len(v.LSPEntries)) * 16
		}
	case *packet.UnknownTLV:
		if r.Bool() {
			v.TLVLength += d
		} else {
			v.TLVType = []uint8{137, 12, 129, 132, 1, 240, 6, 9}[r.Intn(8)]
		}
	case *packet.PaddingTLV:
		if r.Bool() {
			v.TLVLength += d
		} else {
			v.TLVType = []uint8{137, 12, 129, 132, 1, 240, 6, 9}[r.Intn(8)]
		}
	case *packet.ExtendedISReachabilityTLV:
		v.TLVLength += d
	case *packet.ExtendedIPReachabilityTLV:
		if r.Bool() || len(v.ExtendedIPReachabilities) == 0 {
			v.TLVLength += d
		} else { // prefix lengths an IPv4 address cannot have: Serialize slices 4 address bytes [:n], n up to 8
			v.ExtendedIPReachabilities[0].UDSubBitPfxLen = uint8(33 + r.Intn(223))
		}
	case *packet.TrafficEngineeringRouterIDTLV:
		v.TLVLength += d
	case *packet.ChecksumTLV:
		v.TLVType = 13
	case *packet.ISNeighborsTLV:
		v.TLVType = 7
	}
}

// which TLV kinds a PDU of the given kind typically carries (others appear with lower probability)
var typical = map[string][]int{
	"hello": {5, 3, 4, 0, 9},
	"lsp":   {0, 3, 4, 11, 10, 2, 12, 1},
	"csnp":  {7},
	"psnp":  {7},
}

func genTLVs(r *hx.RNG, kind string, skewPct int) []packet.TLV {
	n := []int{0, 1, 2, 3, 5, 8}[r.Intn(6)]
	ts := make([]packet.TLV, 0, n)
	for i := 0; i < n; i++ {
		k := r.Intn(nKinds)
		if r.Chance(65) {
			k = typical[kind][r.Intn(len(typical[kind]))]
		}
		ts = append(ts, genTLV(r, k, r.Chance(skewPct)))
	}
	return ts
}

var pduTypes = map[string]uint8{"hello": packet.P2P_HELLO, "lsp": packet.L2_LS_PDU_TYPE, "csnp": packet.L2_CSNP_TYPE, "psnp": packet.L2_PSNP_TYPE}
var kinds = []string{"hello", "lsp", "csnp", "psnp"}

func genPkt(r *hx.RNG, kind string, skewPct int) *pkt {
	p := &pkt{hdr: packet.ISISHeader{ProtoDiscriminator: 0x83, LengthIndicator: byte(r.Intn(40)), ProtocolIDExtension: 1,
		IDLength: byte(r.Intn(2) * 6), PDUType: pduTypes[kind], Version: 1, MaxAreaAddresses: byte(r.Intn(4))}}
	if r.Chance(10) {
		p.hdr.ProtoDiscriminator = byte(r.Intn(256))
		p.hdr.Version = byte(r.Intn(256))
	}
	ts := genTLVs(r, kind, skewPct)
	switch kind {
	case "hello":
		p.body = &packet.P2PHello{CircuitType: byte(r.Intn(4)), SystemID: rsys(r), HoldingTimer: ru16(r), PDULength: ru16(r), LocalCircuitID: byte(r.Intn(3)), TLVs: ts}
	case "lsp":
		l := &packet.LSPDU{Length: ru16(r), RemainingLifetime: ru16(r), LSPID: rlspid(r), SequenceNumber: ru32(r), Checksum: ru16(r), TypeBlock: byte(r.Intn(4)), TLVs: ts}
		if r.Bool() {
			l.Checksum = 0
			l.UpdateLength()
			l.SetChecksum()
		}
		p.body = l
	case "csnp":
		p.body = &packet.CSNP{PDULength: ru16(r), SourceID: rsrc(r), StartLSPID: rlspid(r), EndLSPID: rlspid(r), TLVs: ts}
	case "psnp":
		p.body = &packet.PSNP{PDULength: ru16(r), SourceID: rsrc(r), TLVs: ts}
	}
	return p
}

// tlvOffsets: offsets (into the wire bytes) of the type byte of every top level TLV
func tlvOffsets(p *pkt, wire []byte) []int {
	var offs []int
	total := 0
	var lens []int
	for _, t := range bodyTLVs(p.body) {
		b := bytes.NewBuffer(nil)
		t.Serialize(b)
		lens = append(lens, b.Len())
		total += b.Len()
	}
	o := len(wire) - total
	for _, l := range lens {
		offs = append(offs, o)
		o += l
	}
	return offs
}

var interestingLens = []byte{0, 1, 2, 3, 4, 5, 6, 8, 15, 16, 17, 32, 127, 128, 240, 254, 255}
var tlvTypes = []byte{1, 2, 6, 8, 9, 12, 22, 129, 132, 134, 135, 137, 240, 0, 255}
var pduTypeBytes = []byte{0x11, 0x14, 0x19, 0x1b, 0x0f, 0x10, 0x18, 0x24, 0x26, 0x12, 0x00, 0xff}

func mutate(r *hx.RNG, all []int, wire []byte, tr *hx.Trace) []byte {
	b := append([]byte{}, wire...)
	var offs []int
	for _, o := range all {
		if o >= 0 && o+1 < len(b) {
			offs = append(offs, o)
		}
	}
	m := r.Intn(9)
	if (m == 2 || m == 3) && len(offs) == 0 {
		m = 1
	}
	tr.Count(fmt.Sprintf("mut_%d", m))
	switch m {
	case 0: // unchanged
	case 1: // truncated
		b = b[:r.Intn(len(b)+1)]
	case 2: // a TLV length
		o := offs[r.Intn(len(offs))]
		if r.Bool() {
			b[o+1] = interestingLens[r.Intn(len(interestingLens))]
		} else {
			b[o+1] += byte(1 + r.Intn(3)*127)
		}
	case 3: // a TLV type
		o := offs[r.Intn(len(offs))]
		b[o] = tlvTypes[r.Intn(len(tlvTypes))]
	case 4: // the PDU type of the header
		if len(b) > 7 {
			b[7] = pduTypeBytes[r.Intn(len(pduTypeBytes))]
		}
	case 5: // some byte
		if len(b) > 0 {
			b[r.Intn(len(b))] = byte(r.Intn(256))
		}
	case 6: // trailing bytes
		b = append(b, rbytes(r, 1+r.Intn(20))...)
	case 7: // a byte inside the TLV area set to an interesting length / type value
		if len(b) > 22 {
			i := 22 + r.Intn(len(b)-22)
			if r.Bool() {
				b[i] = interestingLens[r.Intn(len(interestingLens))]
			} else {
				b[i] = tlvTypes[r.Intn(len(tlvTypes))]
			}
		}
	case 8: // two mutations
		b = mutate(r, all, mutate(r, all, wire, tr), tr)
	}
	return b
}

func safeSerialize(p *pkt) []byte {
	var wire []byte
	if panicked, _ := hx.Guard(func() { wire = serialize(p) }); panicked {
		return append(append([]byte{}, llc...), 0x83, 0, 1, 0, p.hdr.PDUType, 1, 0, 0)
	}
	return wire
}

func entriesToken(es []*packet.LSPEntry) string {
	xs := make([]string, 0, len(es))
	for _, e := range es {
		xs = append(xs, renderEntry(e))
	}
	return join(xs, "|")
}

// genEntries: n LSP entries; more than 12 entries get pairwise distinct sort keys (the 8 bytes of the LSP ID):
// sort.Slice is not stable for longer slices and the order of equal keys is not part of the property
func genEntries(r *hx.RNG, n int) []*packet.LSPEntry {
	es := make([]*packet.LSPEntry, 0, n)
	seen := map[[8]byte]bool{}
	for len(es) < n {
		e := rentry(r)
		if n > 12 {
			e.LSPID.SystemID[4] = byte(r.Intn(256))
			e.LSPID.SystemID[5] = byte(r.Intn(256))
			var k [8]byte
			copy(k[:], e.LSPID.SystemID[:])
			k[6] = e.LSPID.PseudonodeID
			k[7] = e.LSPID.LSPNumber
			if seen[k] {
				continue
			}
			seen[k] = true
		}
		es = append(es, e)
	}
	return es
}

// genCtor: arguments of a TLV constructor around the 255 byte limit of the value
func genCtor(r *hx.RNG) string {
	hexOf := func(n int) string { return hexs(rbytes(r, n)) }
	switch r.Intn(10) {
	case 0:
		n := []int{0, 1, 2, 3, 19, 20}[r.Intn(6)]
		if n == 0 {
			return "T area -"
		}
		var xs []string
		for i := 0; i < n; i++ {
			xs = append(xs, hexOf([]int{0, 1, 3, 13, 12, 100, 254, 255, 256}[r.Intn(9)]))
		}
		return "T area " + strings.Join(xs, "|")
	case 1:
		return "T host " + hexOf([]int{0, 1, 7, 254, 255, 256, 257, 300}[r.Intn(8)])
	case 2:
		return "T proto " + hexOf([]int{0, 1, 2, 255, 256, 258}[r.Intn(6)])
	case 3:
		var xs []string
		for i := []int{0, 1, 2, 63, 64, 65, 128}[r.Intn(7)]; i > 0; i-- {
			xs = append(xs, fmt.Sprint(ru32(r)))
		}
		return "T ipif " + join(xs, "|")
	case 4:
		return "T entries " + entriesToken(genEntries(r, []int{0, 1, 14, 15, 16, 17, 32}[r.Intn(7)]))
	case 5:
		return fmt.Sprintf("T p2padj %d %d", r.Intn(4), ru32(r))
	case 6:
		return fmt.Sprintf("T pad %d", []int{0, 1, 9, 254, 255}[r.Intn(5)])
	case 7:
		return fmt.Sprintf("T terid %d", ru32(r))
	case 8:
		var xs []string
		for i := []int{0, 1, 2, 5, 12, 23, 24}[r.Intn(7)]; i > 0; i-- {
			subs, _ := genSubs(r)
			if r.Chance(10) {
				for k := 0; k < 30; k++ {
					subs = append(subs, packet.NewLinkLocalRemoteIdentifiersSubTLV(ru32(r), ru32(r)))
				}
			}
			xs = append(xs, fmt.Sprintf("%s.%d.0.%s", hexs(srcBytes(rsrc(r))), ru32(r), renderSubs(subs)))
		}
		return "T extis " + join(xs, "|")
	default:
		var xs []string
		for i := []int{0, 1, 2, 28, 29, 30, 52}[r.Intn(7)]; i > 0; i-- {
			xs = append(xs, fmt.Sprintf("%d.%d.%d", ru32(r), []int{0, 1, 8, 9, 24, 31, 32, 33, 63, 64, 200, 255}[r.Intn(12)], ru32(r)))
		}
		return "T extip " + join(xs, "|")
	}
}

var snpCounts = []int{0, 1, 2, 3, 5, 12, 14, 15, 16, 17, 29, 30, 31, 45, 46, 60, 89, 90, 91, 92, 100, 179, 180, 181, 200}
var snpMaxLens = []int{-5, 0, 17, 18, 33, 34, 35, 36, 50, 51, 52, 66, 67, 68, 83, 100, 274, 275, 276, 277, 290, 291, 292, 293, 309, 500, 517, 1492, 1497, 1500, 9000}

func generate(r *runner, rng *hx.RNG, n int, tier string) {
	tr := r.tr
	// sweeps: every truncation of a few valid PDUs of every kind
	sweeps := 1
	if tier == "thorough" {
		sweeps = 6
	}
	for s := 0; s < sweeps; s++ {
		for ki, kind := range kinds {
			g := rng.Fork(uint64(1000000 + s*10 + ki))
			p := genPkt(g, kind, 0)
			wire := safeSerialize(p)
			if len(wire) > 400 {
				wire = wire[:400]
			}
			for cut := 0; cut <= len(wire); cut++ {
				r.do(fmt.Sprintf("t%d%s%d", s, kind[:1], cut), "D "+hexs(wire[:cut]))
			}
			tr.Count("sweep_truncation")
		}
	}
	// the entry count / PDU size grid of NewCSNPs and NewPSNPs
	grid := 0
	for _, cnt := range snpCounts {
		for _, ml := range snpMaxLens {
			grid++
			if tier != "thorough" && grid%5 != int(rng.Fork(77).Intn(5)) {
				continue
			}
			g := rng.Fork(uint64(2000000 + grid))
			st := "C"
			if g.Bool() {
				st = "P"
			}
			r.do(fmt.Sprintf("s%d", grid), fmt.Sprintf("%s %d %s %s", st, ml, hexs(srcBytes(rsrc(g))), entriesToken(genEntries(g, cnt))))
		}
	}
	for i := 0; i < n; i++ {
		g := rng.Fork(uint64(i))
		id := fmt.Sprintf("g%d", i)
		c := g.Intn(100)
		switch {
		case c < 40: // decode stream: a valid PDU of some kind, mutated
			kind := kinds[g.Intn(4)]
			p := genPkt(g, kind, 10)
			wire := safeSerialize(p)
			r.do(id, "D "+hexs(mutate(g, tlvOffsets(p, wire), wire, tr)))
		case c < 45: // raw bytes
			r.do(id, "D "+hexs(rbytes(g, g.Intn(64))))
		case c < 50: // DecodeL2Hello
			b := []byte{byte(g.Intn(4))}
			b = append(b, rbytes(g, 6)...)
			b = append(b, rbytes(g, 4)...)
			b = append(b, byte(g.Intn(128)), 0)
			b = append(b, rbytes(g, 6)...)
			ts := bytes.NewBuffer(nil)
			for _, t := range genTLVs(g, "hello", 10) {
				hx.Guard(func() { t.Serialize(ts) })
			}
			b = append(b, ts.Bytes()...)
			if g.Chance(40) {
				b = b[:g.Intn(len(b)+1)]
			}
			r.do(id, "L "+hexs(b))
		case c < 84: // encode stream
			kind := kinds[g.Intn(4)]
			skew := 0
			if g.Chance(25) {
				skew = 35
			}
			p := genPkt(g, kind, skew)
			if g.Chance(3) {
				p.hdr.PDUType = pduTypeBytes[g.Intn(len(pduTypeBytes))]
			}
			tr.Count("E_" + kind)
			r.do(id, "E "+renderPkt(p))
		case c < 90: // TLV constructors
			r.do(id, genCtor(g))
		case c < 93: // LSP length and checksum
			p := genPkt(g, "lsp", 10)
			r.do(id, "K "+renderBody(p.body))
		default: // NewCSNPs / NewPSNPs
			cnt := snpCounts[g.Intn(len(snpCounts))]
			if g.Chance(30) {
				cnt = g.Intn(120)
			}
			ml := snpMaxLens[g.Intn(len(snpMaxLens))]
			if g.Chance(30) {
				ml = g.Intn(1600)
			}
			st := "C"
			if g.Bool() {
				st = "P"
			}
			r.do(id, fmt.Sprintf("%s %d %s %s", st, ml, hexs(srcBytes(rsrc(g))), entriesToken(genEntries(g, cnt))))
		}
	}
	_ = hex.EncodeToString
	_ = strings.Join
}
