// C04 harness: a real locRIB.LocRIB with recording clients under single-threaded histories of
// path add/remove/replace and client register/unregister/refresh.
//
// Input tokens (one per operation; operation number i = object id of the path object it creates):
//
//	a<p>:<lp>.<nh>             LocRIB.AddPath(pfx p, new path object with value (lp, nh))
//	r<p>:<lp>.<nh>             LocRIB.RemovePath(pfx p, path with value (lp, nh))
//	x<p>:<lp>.<nh>:<lp>.<nh>   LocRIB.ReplacePath(pfx p, old value, new path object)
//	R<c>:B | R<c>:E | R<c>:M<n> | R<c>:G   RegisterWithOptions(client c, BestOnly | EcmpOnly | MaxPaths n); G = Register()
//	U<c>                       Unregister(client c)
//	F<c>                       RefreshClient(client c)
//
// Paths are BGP paths that differ in LOCAL_PREF (100*lp) and next hop (1.1.1.nh) only, so the
// preference is decided by LOCAL_PREF and paths of equal LOCAL_PREF are ECMP candidates.
// The object id travels in Path.LTime (not looked at by Select/Compare/Equal, preserved by Copy).
//
// Observation, one token per operation:  <selection>!<callbacks>
//
//	selection: for a/r/x the route of the operation's prefix afterwards, as the implementation
//	           selected it: <oid>.<oid>.../<ecmp count>, "-/0" when there is no route; "_" otherwise
//	callbacks: per client in ascending id, "c<id>:" + its callbacks in order of delivery (stably
//	           sorted by prefix), joined by ";" ; "-" when nobody was called
//	           +<p>.<oid>@<lp>.<nh>  AddPath    -<p>.<oid>@<lp>.<nh>  RemovePath
//	           d<p>.<oid>@<lp>.<nh>  AddPathInitialDump    E  EndOfRIB
//	           f<p>[<oid>@<lp>.<nh>_...]  RefreshRoute
package main

import (
	"fmt"
	"os"
	"sort"
	"strconv"
	"strings"

	bnet "github.com/bio-routing/bio-rd/net"
	"github.com/bio-routing/bio-rd/protocols/bgp/types"
	"github.com/bio-routing/bio-rd/route"
	"github.com/bio-routing/bio-rd/routingtable"
	"github.com/bio-routing/bio-rd/routingtable/filter"
	"github.com/bio-routing/bio-rd/routingtable/locRIB"

	"verifharness/hx"
)

const nPfx = 3
const nClients = 5

var pfxPool = [nPfx]*bnet.Prefix{
	bnet.NewPfx(bnet.IPv4FromOctets(10, 0, 0, 0), 8).Ptr(),
	bnet.NewPfx(bnet.IPv4FromOctets(10, 1, 0, 0), 16).Ptr(),
	bnet.NewPfx(bnet.IPv4FromOctets(10, 2, 0, 0), 16).Ptr(),
}

func pfxIndex(p *bnet.Prefix) int {
	for i, q := range pfxPool {
		if p != nil && q.Equal(p) {
			return i
		}
	}
	return -1
}

type val struct{ lp, nh int }

func (v val) String() string { return fmt.Sprintf("%d.%d", v.lp, v.nh) }

// mkPath builds a new path object; oid < 0 = untagged (arguments of RemovePath / old of ReplacePath)
func mkPath(oid int, v val) *route.Path {
	a := route.NewBGPPathA()
	a.LocalPref = uint32(100 * v.lp)
	a.NextHop = bnet.IPv4FromOctets(1, 1, 1, byte(v.nh)).Ptr()
	a.Source = bnet.IPv4FromOctets(2, 2, 2, 2).Ptr()
	return &route.Path{
		Type:  route.BGPPathType,
		LTime: uint32(oid + 1),
		BGPPath: &route.BGPPath{
			BGPPathA: a,
			ASPath:   types.NewASPath([]uint32{}),
		},
	}
}

// decode reads object id and value back from a path handed to a client
func decode(p *route.Path) (oid int, v val, ok bool) {
	if p == nil || p.Type != route.BGPPathType || p.BGPPath == nil || p.BGPPath.BGPPathA == nil || p.BGPPath.BGPPathA.NextHop == nil {
		return -1, val{}, false
	}
	a := p.BGPPath.BGPPathA
	return int(p.LTime) - 1, val{int(a.LocalPref) / 100, int(a.NextHop.ToUint32() & 0xff)}, true
}

type opts struct {
	kind byte // B E M G
	n    int
}

func (o opts) String() string {
	if o.kind == 'M' {
		return fmt.Sprintf("M%d", o.n)
	}
	return string(o.kind)
}
func (o opts) client() routingtable.ClientOptions {
	switch o.kind {
	case 'B', 'G':
		return routingtable.ClientOptions{BestOnly: true}
	case 'E':
		return routingtable.ClientOptions{EcmpOnly: true}
	}
	return routingtable.ClientOptions{MaxPaths: uint(o.n)}
}

// limit: the property's "paths the option admits", written independently of GetMaxPaths
func (o opts) limit(ecmp, have int) int {
	n := o.n
	switch o.kind {
	case 'B', 'G':
		n = 1
	case 'E':
		n = ecmp
	}
	if n > have {
		n = have
	}
	return n
}

type op struct {
	kind   byte
	p, c   int
	v, v2  val
	o      opts
}

func parseVal(s string) (val, error) {
	f := strings.Split(s, ".")
	if len(f) != 2 {
		return val{}, fmt.Errorf("bad value %q", s)
	}
	lp, e1 := strconv.Atoi(f[0])
	nh, e2 := strconv.Atoi(f[1])
	if e1 != nil || e2 != nil || lp < 0 || lp > 40 || nh < 0 || nh > 255 {
		return val{}, fmt.Errorf("bad value %q", s)
	}
	return val{lp, nh}, nil
}

func parseOps(in string) ([]op, error) {
	var ops []op
	for _, t := range strings.Fields(in) {
		if len(t) < 2 {
			return nil, fmt.Errorf("bad token %q", t)
		}
		o := op{kind: t[0]}
		f := strings.Split(t[1:], ":")
		n, err := strconv.Atoi(f[0])
		if err != nil || n < 0 {
			return nil, fmt.Errorf("bad token %q", t)
		}
		switch o.kind {
		case 'a', 'r', 'x':
			if n >= nPfx || (o.kind == 'x' && len(f) != 3) || (o.kind != 'x' && len(f) != 2) {
				return nil, fmt.Errorf("bad token %q", t)
			}
			o.p = n
			if o.v, err = parseVal(f[1]); err != nil {
				return nil, err
			}
			if o.kind == 'x' {
				if o.v2, err = parseVal(f[2]); err != nil {
					return nil, err
				}
			}
		case 'R':
			if n >= nClients || len(f) != 2 || len(f[1]) < 1 {
				return nil, fmt.Errorf("bad token %q", t)
			}
			o.c = n
			o.o.kind = f[1][0]
			switch o.o.kind {
			case 'B', 'E', 'G':
			case 'M':
				if o.o.n, err = strconv.Atoi(f[1][1:]); err != nil || o.o.n < 0 || o.o.n > 50 {
					return nil, fmt.Errorf("bad token %q", t)
				}
			default:
				return nil, fmt.Errorf("bad token %q", t)
			}
		case 'U', 'F':
			if n >= nClients || len(f) != 1 {
				return nil, fmt.Errorf("bad token %q", t)
			}
			o.c = n
		default:
			return nil, fmt.Errorf("bad token %q", t)
		}
		ops = append(ops, o)
	}
	return ops, nil
}

func fmtOps(ops []op) string {
	var b []string
	for _, o := range ops {
		switch o.kind {
		case 'a', 'r':
			b = append(b, fmt.Sprintf("%c%d:%s", o.kind, o.p, o.v))
		case 'x':
			b = append(b, fmt.Sprintf("x%d:%s:%s", o.p, o.v, o.v2))
		case 'R':
			b = append(b, fmt.Sprintf("R%d:%s", o.c, o.o))
		default:
			b = append(b, fmt.Sprintf("%c%d", o.kind, o.c))
		}
	}
	return strings.Join(b, " ")
}

// ---- recording client

type event struct {
	kind byte // + - d E f
	p    int
	s    string // rendered
}

type world struct {
	lr       *locRIB.LocRIB
	vals     map[int]val // object id -> value it was created with
	reg      [nClients]bool
	opt      [nClients]opts
	held     [nClients][nPfx]map[int]int // client bookkeeping: object id -> count
	ev       [nClients][]event           // callbacks of the current operation
	cur      op
	sig      string
	detail   string
	opIdx    int
	sawRem   bool
	sawMulti bool
	sawDump  bool
}

func (w *world) fail(sig, format string, a ...interface{}) {
	if w.sig == "" {
		w.sig = sig
		w.detail = fmt.Sprintf("op %d (%s): ", w.opIdx, fmtOps([]op{w.cur})) + fmt.Sprintf(format, a...)
	}
}

type recClient struct {
	id int
	w  *world
}

func (c *recClient) render(p *route.Path) (int, string) {
	oid, v, ok := decode(p)
	if !ok {
		c.w.fail("callback-path-value-corrupt", "client %d got an undecodable path", c.id)
		return -1, "?"
	}
	if orig, known := c.w.vals[oid]; !known || orig != v {
		c.w.fail("callback-path-value-corrupt", "client %d got object %d with value %s", c.id, oid, v)
	}
	return oid, fmt.Sprintf("%d@%s", oid, v)
}

// silence: only registered clients are called (the answer to a client's own refresh request aside)
func (c *recClient) called(kind byte, empty bool) {
	w := c.w
	if w.reg[c.id] {
		return
	}
	if w.cur.kind == 'F' && w.cur.c == c.id && kind == 'f' && empty {
		return
	}
	w.fail("callback-to-unregistered-client", "client %d received %c", c.id, kind)
}

func (c *recClient) AddPath(pfx *bnet.Prefix, p *route.Path) error {
	c.called('+', false)
	pi := pfxIndex(pfx)
	oid, s := c.render(p)
	c.w.ev[c.id] = append(c.w.ev[c.id], event{'+', pi, fmt.Sprintf("+%d.%s", pi, s)})
	if pi >= 0 {
		c.w.held[c.id][pi][oid]++
	}
	return nil
}

func (c *recClient) AddPathInitialDump(pfx *bnet.Prefix, p *route.Path) error {
	c.called('d', false)
	pi := pfxIndex(pfx)
	oid, s := c.render(p)
	c.w.ev[c.id] = append(c.w.ev[c.id], event{'d', pi, fmt.Sprintf("d%d.%s", pi, s)})
	if pi >= 0 {
		c.w.held[c.id][pi][oid]++
		c.w.sawDump = true
	}
	return nil
}

func (c *recClient) RemovePath(pfx *bnet.Prefix, p *route.Path) bool {
	c.called('-', false)
	pi := pfxIndex(pfx)
	oid, s := c.render(p)
	c.w.ev[c.id] = append(c.w.ev[c.id], event{'-', pi, fmt.Sprintf("-%d.%s", pi, s)})
	c.w.sawRem = true
	if pi >= 0 {
		if c.w.held[c.id][pi][oid] <= 0 {
			c.w.fail("remove-of-path-not-held", "client %d told to remove object %d of prefix %d which it does not hold", c.id, oid, pi)
		} else {
			c.w.held[c.id][pi][oid]--
			if c.w.held[c.id][pi][oid] == 0 {
				delete(c.w.held[c.id][pi], oid)
			}
		}
	}
	return true
}

func (c *recClient) EndOfRIB() {
	c.called('E', false)
	c.w.ev[c.id] = append(c.w.ev[c.id], event{'E', 99, "E"})
}

func (c *recClient) RefreshRoute(pfx *bnet.Prefix, ps []*route.Path) {
	c.called('f', len(ps) == 0)
	pi := pfxIndex(pfx)
	var l []string
	var ids []int
	for _, p := range ps {
		oid, s := c.render(p)
		l = append(l, s)
		ids = append(ids, oid)
	}
	c.w.ev[c.id] = append(c.w.ev[c.id], event{'f', pi, fmt.Sprintf("f%d[%s]", pi, strings.Join(l, "_"))})
	// the refresh must carry exactly what the client is entitled to
	if c.w.reg[c.id] && pi >= 0 {
		want := c.w.want(c.id, pi)
		if !sameMultiset(ids, want) {
			c.w.fail("refresh-payload-differs", "client %d prefix %d refreshed with %v, selection admits %v", c.id, pi, ids, want)
		}
	}
}
func (c *recClient) ReplacePath(*bnet.Prefix, *route.Path, *route.Path) {
	c.w.fail("unexpected-callback", "client %d received ReplacePath", c.id)
}
func (c *recClient) Dispose()                        { c.w.fail("unexpected-callback", "client %d received Dispose", c.id) }
func (c *recClient) ReplaceFilterChain(filter.Chain) {}

func sameMultiset(a, b []int) bool {
	if len(a) != len(b) {
		return false
	}
	x := append([]int(nil), a...)
	y := append([]int(nil), b...)
	sort.Ints(x)
	sort.Ints(y)
	for i := range x {
		if x[i] != y[i] {
			return false
		}
	}
	return true
}

// want: the first paths of the Loc-RIB's current selection that client c's option admits
func (w *world) want(c, pi int) []int {
	r := w.lr.Get(pfxPool[pi])
	if r == nil {
		return nil
	}
	ps := r.Paths()
	n := w.opt[c].limit(int(r.ECMPPathCount()), len(ps))
	var ids []int
	for _, p := range ps[:n] {
		oid, _, _ := decode(p)
		ids = append(ids, oid)
	}
	return ids
}

func (w *world) checkHeld() {
	for c := 0; c < nClients; c++ {
		if !w.reg[c] {
			continue
		}
		for pi := 0; pi < nPfx; pi++ {
			want := w.want(c, pi)
			var have []int
			for oid, n := range w.held[c][pi] {
				for k := 0; k < n; k++ {
					have = append(have, oid)
				}
			}
			sort.Ints(have)
			if len(have) >= 2 {
				w.sawMulti = true
			}
			if sameMultiset(have, want) {
				continue
			}
			wc := map[int]int{}
			for _, o := range want {
				wc[o]++
			}
			sig := "client-misses-selected-path"
			for _, o := range have {
				wc[o]--
				if wc[o] < 0 {
					sig = "client-holds-unselected-path"
				}
			}
			w.fail(sig, "client %d (%s) prefix %d holds objects %v, selection admits %v", c, w.opt[c], pi, have, want)
		}
	}
}

func (w *world) selection(pi int) string {
	r := w.lr.Get(pfxPool[pi])
	if r == nil {
		return "-/0"
	}
	var ids []string
	for _, p := range r.Paths() {
		oid, _, _ := decode(p)
		ids = append(ids, strconv.Itoa(oid))
	}
	if len(ids) == 0 {
		return fmt.Sprintf("empty/%d", r.ECMPPathCount())
	}
	return fmt.Sprintf("%s/%d", strings.Join(ids, "."), r.ECMPPathCount())
}

func runCase(ops []op) (obs, sig, detail string, nontrivial bool) {
	w := &world{lr: locRIB.New("c04"), vals: map[int]val{}}
	var cl [nClients]*recClient
	for c := range cl {
		cl[c] = &recClient{id: c, w: w}
		for pi := 0; pi < nPfx; pi++ {
			w.held[c][pi] = map[int]int{}
		}
	}
	var out []string
	for i, o := range ops {
		w.cur, w.opIdx = o, i
		for c := range w.ev {
			w.ev[c] = nil
		}
		selTok := "_"
		switch o.kind {
		case 'a':
			w.vals[i] = o.v
			w.lr.AddPath(pfxPool[o.p], mkPath(i, o.v))
			selTok = w.selection(o.p)
		case 'r':
			w.lr.RemovePath(pfxPool[o.p], mkPath(-1, o.v))
			selTok = w.selection(o.p)
		case 'x':
			w.vals[i] = o.v2
			w.lr.ReplacePath(pfxPool[o.p], mkPath(-1, o.v), mkPath(i, o.v2))
			selTok = w.selection(o.p)
		case 'R':
			// a (re-)registration opens a new account for the client
			for pi := 0; pi < nPfx; pi++ {
				w.held[o.c][pi] = map[int]int{}
			}
			w.reg[o.c], w.opt[o.c] = true, o.o
			if o.o.kind == 'G' {
				w.lr.Register(cl[o.c])
			} else {
				w.lr.RegisterWithOptions(cl[o.c], o.o.client())
			}
			evs := w.ev[o.c]
			if len(evs) == 0 || evs[len(evs)-1].kind != 'E' {
				w.fail("end-of-rib-missing", "initial dump of client %d does not end with EndOfRIB", o.c)
			}
		case 'U':
			w.reg[o.c] = false
			w.lr.Unregister(cl[o.c])
		case 'F':
			w.lr.RefreshClient(cl[o.c])
		}
		w.checkHeld()
		var parts []string
		for c := 0; c < nClients; c++ {
			if len(w.ev[c]) == 0 {
				continue
			}
			evs := w.ev[c]
			sort.SliceStable(evs, func(a, b int) bool { return evs[a].p < evs[b].p })
			var s []string
			for _, e := range evs {
				s = append(s, e.s)
			}
			parts = append(parts, fmt.Sprintf("c%d:%s", c, strings.Join(s, ",")))
		}
		cbTok := "-"
		if len(parts) > 0 {
			cbTok = strings.Join(parts, ";")
		}
		out = append(out, selTok+"!"+cbTok)
	}
	return strings.Join(out, " "), w.sig, w.detail, w.sawRem && w.sawMulti && w.sawDump
}

// ---- generator

func gen(r *hx.RNG, t *hx.Trace) []op {
	n := 10 + r.Intn(51)
	np := 1 + r.Intn(nPfx)
	nc := 1 + r.Intn(nClients)
	hot := 1 + r.Intn(3)
	nhs := 2 + r.Intn(3)
	shadow := make([][]val, nPfx) // generator's guess of what is stored (only steers the choice of values)
	randOpts := func() opts {
		switch c := r.Intn(100); {
		case c < 22:
			return opts{kind: 'B'}
		case c < 30:
			return opts{kind: 'G'}
		case c < 58:
			return opts{kind: 'E'}
		case c < 97:
			return opts{kind: 'M', n: 1 + r.Intn(4)}
		case c < 99:
			return opts{kind: 'M', n: 5 + r.Intn(3)}
		}
		return opts{kind: 'M', n: 0}
	}
	randVal := func() val {
		lp := hot
		if r.Chance(40) {
			lp = 1 + r.Intn(3)
		}
		return val{lp, 1 + r.Intn(nhs)}
	}
	stored := func(p int) val {
		if len(shadow[p]) > 0 && r.Chance(85) {
			return shadow[p][r.Intn(len(shadow[p]))]
		}
		return randVal()
	}
	var ops []op
	emit := func(o op, key string) {
		ops = append(ops, o)
		t.Count(key)
	}
	if r.Chance(55) {
		for k := 1 + r.Intn(3); k > 0 && len(ops) < n; k-- {
			o := op{kind: 'R', c: r.Intn(nc), o: randOpts()}
			emit(o, "op_register_"+string(o.o.kind))
		}
	}
	for len(ops) < n {
		c := r.Intn(100)
		p := r.Intn(np)
		switch {
		case c < 38:
			v := randVal()
			shadow[p] = append(shadow[p], v)
			emit(op{kind: 'a', p: p, v: v}, "op_add")
		case c < 60:
			v := stored(p)
			for i, s := range shadow[p] {
				if s == v {
					shadow[p] = append(shadow[p][:i:i], shadow[p][i+1:]...)
					break
				}
			}
			emit(op{kind: 'r', p: p, v: v}, "op_remove")
		case c < 70:
			v, v2 := stored(p), randVal()
			for i, s := range shadow[p] {
				if s == v {
					shadow[p][i] = v2
					break
				}
			}
			emit(op{kind: 'x', p: p, v: v, v2: v2}, "op_replace")
		case c < 84:
			o := op{kind: 'R', c: r.Intn(nc), o: randOpts()}
			emit(o, "op_register_"+string(o.o.kind))
		case c < 93:
			emit(op{kind: 'U', c: r.Intn(nc)}, "op_unregister")
		default:
			emit(op{kind: 'F', c: r.Intn(nc)}, "op_refresh")
		}
	}
	t.Count(fmt.Sprintf("len_%02d-%02d", n/10*10, n/10*10+9))
	return ops
}

func main() {
	cfg := hx.Parse()
	tr := hx.NewTrace(cfg.Out)
	nviol := 0
	do := func(id string, ops []op) {
		var obs, sig, detail string
		var nt bool
		panicked, v := hx.Guard(func() { obs, sig, detail, nt = runCase(ops) })
		if panicked {
			obs, sig, detail = "PANIC", "panic", fmt.Sprint(v)
		}
		tr.Case(id, nt, fmtOps(ops), obs)
		if sig != "" {
			hx.Violation(id, sig, detail)
			nviol++
		}
	}
	if cfg.Mode == "replay" {
		for _, c := range hx.InputsFrom(cfg.Replay) {
			ops, err := parseOps(c[1])
			if err != nil {
				fmt.Println("HARNESS-ERROR bad replay input:", err)
				os.Exit(2)
			}
			do(c[0], ops)
		}
	} else {
		for _, c := range hx.InputsFrom(hx.CorpusFiles(cfg.Corpus)...) {
			if ops, err := parseOps(c[1]); err == nil {
				do("corpus-"+c[0], ops)
				tr.Count("corpus")
			} else {
				fmt.Println("HARNESS-ERROR bad corpus input:", err)
				os.Exit(2)
			}
		}
		rng := hx.NewRNG(cfg.Seed)
		for i := 0; i < cfg.N; i++ {
			do(fmt.Sprintf("g%d", i), gen(rng.Fork(uint64(i)), tr))
		}
	}
	tr.Close(cfg.Stats, map[string]interface{}{"spec_violations": nviol, "prefixes": nPfx, "clients": nClients})
}
