// C19 harness: malformed UPDATEs never install routes.
// Input tokens:  <optbits> <hex of one UPDATE message as a peer sends it (|m| = header length)>
// Observation:   <decode result: Err | PANIC | canonical tokens> | <Adj-RIB-In content after processUpdate>
//   decode runs on the buffer recvMsg hands to the FSM (the message zero-padded to 4096 bytes);
//   install: 4:<prefix bytes>/<len>#<path id>[n|h] ... 6:... sorted ("-" when both Adj-RIB-Ins are empty;
//   n = path without next hop, h = with), obtained by driving fsmAddressFamily.processUpdate (hook
//   verif_hooks_c20.go) of an IPv4-unicast and an IPv6-unicast family of an established eBGP session.
// Spec oracle (independent of packet.Decode): a reference TLV walk of the raw message decides whether the UPDATE
// is malformed by one of the four clauses of C19; malformed + something installed => SPEC-VIOLATION.
package main

import (
	"fmt"
	"os"
	"runtime/debug"
	"sort"
	"strings"

	bnet "github.com/bio-routing/bio-rd/net"
	"github.com/bio-routing/bio-rd/protocols/bgp/packet"
	"github.com/bio-routing/bio-rd/protocols/bgp/server"
	"github.com/bio-routing/bio-rd/route"
	"github.com/bio-routing/bio-rd/routingtable/filter"
	"github.com/bio-routing/bio-rd/routingtable/vrf"

	"verifharness/bgpx"
	"verifharness/hx"
)

// ---------------------------------------------------------------- reference walk (oracle)

type refNLRI struct {
	plen int // prefix length proper (label bits removed)
}

// walkNLRIs: the region must be filled exactly by NLRI entries. ok=false: lengths do not add up.
func walkNLRIs(b []byte, safi int, addPath bool) (out []refNLRI, ok bool) {
	i := 0
	for i < len(b) {
		if addPath {
			if i+4 > len(b) {
				return nil, false
			}
			i += 4
		}
		if i >= len(b) {
			return nil, false
		}
		pl := int(b[i])
		i++
		nbits := pl
		if safi == 4 {
			for {
				if i+3 > len(b) || nbits < 24 {
					return nil, false
				}
				bos := b[i+2]&1 == 1
				i += 3
				nbits -= 24
				if bos {
					break
				}
			}
		}
		n := (nbits + 7) / 8
		if i+n > len(b) {
			return nil, false
		}
		i += n
		out = append(out, refNLRI{plen: nbits})
	}
	return out, true
}

func addPathFor(k, afi, safi int) bool {
	if afi == 1 && safi == 1 {
		return k&1 != 0
	}
	if afi == 2 && safi == 1 {
		return k&2 != 0
	}
	return false
}

// malformed returns "" for an UPDATE that is well-formed in the sense of C19, else the violated clause:
// lengths-<which> | attr-length | prefix-length | mandatory-attrs.
func malformed(m []byte, k int) (clause string) {
	if len(m) < 23 {
		return "lengths-fields-exceed-message"
	}
	body := m[19:]
	wlen := int(body[0])<<8 | int(body[1])
	if 2+wlen+2 > len(body) {
		return "lengths-fields-exceed-message"
	}
	wd, ok := walkNLRIs(body[2:2+wlen], 1, addPathFor(k, 1, 1))
	if !ok {
		return "lengths-withdrawn-overrun"
	}
	tpal := int(body[2+wlen])<<8 | int(body[3+wlen])
	if 4+wlen+tpal > len(body) {
		return "lengths-fields-exceed-message"
	}
	attrs := body[4+wlen : 4+wlen+tpal]
	nl, nlok := walkNLRIs(body[4+wlen+tpal:], 1, addPathFor(k, 1, 1))
	asnSize := 2
	if k&4 != 0 {
		asnSize = 4
	}
	have := map[int]bool{}
	attrLen := ""
	pfxLen := ""
	mpReachAnnounces := false
	for _, n := range append(wd, nl...) {
		if n.plen > 32 {
			pfxLen = "prefix-length"
		}
	}
	i := 0
	for i < len(attrs) {
		if i+3 > len(attrs) {
			return "lengths-attrs-overrun"
		}
		flags, typ := attrs[i], int(attrs[i+1])
		var L, h int
		if flags&0x10 != 0 {
			if i+4 > len(attrs) {
				return "lengths-attrs-overrun"
			}
			L, h = int(attrs[i+2])<<8|int(attrs[i+3]), 4
		} else {
			L, h = int(attrs[i+2]), 3
		}
		if i+h+L > len(attrs) {
			return "lengths-attrs-overrun"
		}
		v := attrs[i+h : i+h+L]
		i += h + L
		have[typ] = true
		bad := false
		switch typ {
		case 1:
			bad = L < 1 // surplus octets are skipped on purpose by the code base (dumpNBytes)
		case 2:
			j := 0
			for j < L {
				if j+2 > L {
					bad = true
					break
				}
				j += 2 + int(v[j+1])*asnSize
			}
			if j != L {
				bad = true
			}
		case 3, 4, 5:
			bad = L != 4
		case 6:
			bad = L != 0
		case 7:
			bad = L < 6
		case 8, 10:
			bad = L%4 != 0
		case 9, 18:
			bad = L < 4
		case 32:
			bad = L%12 != 0
		case 14:
			if L < 5 {
				bad = true
				break
			}
			afi, safi, nhl := int(v[0])<<8|int(v[1]), int(v[2]), int(v[3])
			if 4+nhl > L {
				bad = true
				break
			}
			if 4+nhl == L { // no reserved octet, no NLRI: accepted as "nothing announced"
				break
			}
			ns, ok := walkNLRIs(v[4+nhl+1:], safi, addPathFor(k, afi, safi))
			if !ok {
				bad = true
				break
			}
			max := 0
			if afi == 1 {
				max = 32
			} else if afi == 2 {
				max = 128
			}
			for _, n := range ns {
				if max > 0 && n.plen > max {
					pfxLen = "prefix-length"
				}
			}
			if len(ns) > 0 && (afi == 1 || afi == 2) && safi == 1 {
				mpReachAnnounces = true
			}
		case 15:
			if L < 3 {
				bad = true
				break
			}
			afi, safi := int(v[0])<<8|int(v[1]), int(v[2])
			ns, ok := walkNLRIs(v[3:], safi, addPathFor(k, afi, safi))
			if !ok {
				bad = true
				break
			}
			max := 0
			if afi == 1 {
				max = 32
			} else if afi == 2 {
				max = 128
			}
			for _, n := range ns {
				if max > 0 && n.plen > max {
					pfxLen = "prefix-length"
				}
			}
		}
		if bad {
			attrLen = "attr-length"
		}
	}
	if !nlok {
		return "lengths-nlri-overrun"
	}
	if attrLen != "" {
		return attrLen
	}
	if pfxLen != "" {
		return pfxLen
	}
	if len(nl) > 0 && !(have[1] && have[2] && have[3]) {
		return "mandatory-attrs"
	}
	if mpReachAnnounces && !(have[1] && have[2]) {
		return "mandatory-attrs"
	}
	return ""
}

// ---------------------------------------------------------------- implementation: decode + install

func pad4096(m []byte) []byte {
	b := make([]byte, 4096)
	copy(b, m)
	return b
}

func family(afi uint16, addPathRX bool) *server.VerifC20Family {
	v := vrf.NewUntrackedVRF("c19", 0)
	return server.VerifC20NewFamily(server.VerifC20Config{
		AFI:       afi,
		AddPathRX: addPathRX,
		LocalASN:  64512,
		PeerASN:   64513,
		RouterID:  0x0a0b0c0d,
		PeerIP:    bnet.IPv4FromOctets(192, 0, 2, 2).Ptr(),
		LocalIP:   bnet.IPv4FromOctets(192, 0, 2, 1).Ptr(),
		VRF:       v,
		RIB:       nil,
		Import:    filter.NewAcceptAllFilterChain(),
	})
}

func dump(tag string, rs []*route.Route) []string {
	var out []string
	for _, r := range rs {
		pfx := r.Prefix()
		addr := pfx.Addr()
		var sb strings.Builder
		for _, c := range addr.Bytes() {
			fmt.Fprintf(&sb, "%02x", c)
		}
		for _, p := range r.Paths() {
			nh := "n"
			if p.BGPPath != nil && p.BGPPath.BGPPathA != nil && p.BGPPath.BGPPathA.NextHop != nil {
				nh = "h"
			}
			id := uint32(0)
			if p.BGPPath != nil {
				id = p.BGPPath.PathIdentifier
			}
			out = append(out, fmt.Sprintf("%s:%s/%d#%d%s", tag, sb.String(), pfx.Len(), id, nh))
		}
	}
	return out
}

func hasDirtyPrefix(u *packet.BGPUpdate) bool {
	dirty := false
	walk := func(n *packet.NLRI) {
		for ; n != nil; n = n.Next {
			if n.Prefix != nil && !n.Prefix.Valid() {
				dirty = true
			}
		}
	}
	walk(u.WithdrawnRoutes)
	walk(u.NLRI)
	for pa := u.PathAttributes; pa != nil; pa = pa.Next {
		switch v := pa.Value.(type) {
		case packet.MultiProtocolReachNLRI:
			walk(v.NLRI)
		case packet.MultiProtocolUnreachNLRI:
			walk(v.NLRI)
		}
	}
	return dirty
}

// install: what the two Adj-RIB-Ins hold after the established session processed the decoded UPDATE
func install(u *packet.BGPUpdate, k int) (string, interface{}) {
	var all []string
	panicked, val := guardStack(func() {
		f4 := family(packet.AFIIPv4, k&1 != 0)
		f6 := family(packet.AFIIPv6, k&2 != 0)
		f4.VerifC20ProcessUpdate(u, 1)
		f6.VerifC20ProcessUpdate(u, 1)
		all = append(all, dump("4", f4.VerifC20DumpRIBIn())...)
		all = append(all, dump("6", f6.VerifC20DumpRIBIn())...)
	})
	if panicked {
		return "PANIC", val
	}
	if len(all) == 0 {
		return "-", nil
	}
	sort.Strings(all)
	return strings.Join(all, ","), nil
}

// guardStack is hx.Guard plus the innermost bio-rd frame of the panic (to tell the panic sites apart)
func guardStack(f func()) (panicked bool, val interface{}) {
	defer func() {
		if r := recover(); r != nil {
			where := ""
			for _, l := range strings.Split(string(debug.Stack()), "\n") {
				l = strings.TrimSpace(l)
				if where == "" && strings.Contains(l, ".go:") && !strings.Contains(l, "verif_hooks") &&
					!strings.Contains(l, "/harness/") && strings.Contains(l, repoDir) && !strings.HasPrefix(l, "runtime") {
					if i := strings.Index(l, " "); i >= 0 {
						l = l[:i]
					}
					parts := strings.Split(l, "/")
					if len(parts) >= 2 {
						l = parts[len(parts)-2] + "/" + parts[len(parts)-1]
					}
					where = l
				}
			}
			panicked, val = true, fmt.Sprintf("%v at %s", r, where)
		}
	}()
	f()
	return false, nil
}

var repoDir = func() string {
	if d := os.Getenv("VERIF_REPO"); d != "" {
		return d
	}
	return "/repo"
}()

var tr *hx.Trace
var nviol int
var sigSeen = map[string]int{}

func do(id string, k int, m []byte) {
	if len(m) > 4096 {
		m = m[:4096]
	}
	obs, msg, _ := bgpx.DecodeObs(pad4096(m), k)
	inst := "-"
	var pv interface{}
	dirty := false
	if msg != nil {
		if u, ok := msg.Body.(*packet.BGPUpdate); ok {
			inst, pv = install(u, k)
			dirty = hasDirtyPrefix(u)
		}
	}
	clause := malformed(m, k)
	nt := clause != "" || inst != "-"
	if dirty && inst != "PANIC" {
		// IPv4 NLRI with host bits set are stored as they are and confuse the routing table below the Adj-RIB-In
		// (not a C19 matter): the content of the tables is not compared for such messages, the oracle still applies
		tr.Case(id, nt, bgpx.FmtInput(k, m), obs+" | DIRTY")
		tr.Count("dirty_prefix_install_not_compared")
	} else {
		tr.Case(id, nt, bgpx.FmtInput(k, m), obs+" | "+inst)
	}
	if clause == "" {
		tr.Count("wellformed")
		if inst != "-" {
			tr.Count("wellformed_installs")
		}
	} else {
		tr.Count("malformed_" + clause)
	}
	if inst == "PANIC" {
		nviol++
		hx.Violation(id, "process-update-panic", strings.ReplaceAll(fmt.Sprint(pv), "\n", " "))
		return
	}
	if clause != "" && inst != "-" {
		nviol++
		sigSeen[clause]++
		hx.Violation(id, "install-from-malformed-"+clause, fmt.Sprintf("malformed UPDATE (%s) installed %s", clause, inst))
	}
}

// fixHeader makes the message what recvMsg would deliver: type UPDATE, header length = |m|
func fixHeader(m []byte) []byte {
	if len(m) < 19 {
		m = append(m, make([]byte, 19-len(m))...)
	}
	if len(m) > 4096 {
		m = m[:4096]
	}
	for i := 0; i < 16; i++ {
		m[i] = 0xff
	}
	m[16], m[17], m[18] = byte(len(m)>>8), byte(len(m)), 2
	return m
}

func gen(r *hx.RNG) (int, []byte, string) {
	k := r.Intn(16)
	g := &bgpx.G{R: r, K: k}
	c := r.Intn(100)
	g.Clean = c < 85
	w := g.Update()
	stream := "valid"
	switch {
	case c < 30:
	case c < 85:
		stream = "mutated"
		for i := 1 + r.Intn(2); i > 0; i-- {
			g.MutateSpot(w)
		}
	default:
		stream = "dirty"
		if r.Bool() {
			g.Mutate(w)
		}
	}
	return k, fixHeader(w.B), stream
}

func main() {
	cfg := hx.Parse()
	tr = hx.NewTrace(cfg.Out)
	if cfg.Mode == "replay" {
		for _, c := range hx.InputsFrom(cfg.Replay) {
			k, b, err := bgpx.ParseInput(c[1])
			if err != nil {
				fmt.Println("HARNESS-ERROR bad replay input:", err)
				os.Exit(2)
			}
			do(c[0], k, b)
		}
		tr.Close(cfg.Stats, nil)
		return
	}
	for _, c := range hx.InputsFrom(hx.CorpusFiles(cfg.Corpus)...) {
		if k, b, err := bgpx.ParseInput(c[1]); err == nil {
			do("corpus-"+c[0], k, b)
			tr.Count("corpus")
		} else {
			fmt.Println("HARNESS-ERROR bad corpus line", c[0], err)
		}
	}
	rng := hx.NewRNG(cfg.Seed)
	if cfg.Mode == "search" {
		rng = hx.NewRNG(cfg.Seed ^ 0xc19c19)
	}
	for i := 0; i < cfg.N; i++ {
		k, m, stream := gen(rng.Fork(uint64(i)))
		do(fmt.Sprintf("g%d", i), k, m)
		tr.Count("stream_" + stream)
	}
	tr.Close(cfg.Stats, map[string]interface{}{"spec_violations": nviol, "violations_by_clause": sigSeen})
}
