// C35 harness: util/dijkstra Topology.SPT on generated digraphs.
//
// Input tokens:   s=<src>,<src>,... n=<id>,<id>,... e=<a>-<b>:<w>,...   (e= alone: no edges)
//                 t := NewTopology(n, e); then t.SPT(src) for every src in turn ON THE SAME Topology
//                 node i is dijkstra.Node{Name: "n<i>"}; duplicates in both lists are allowed
// Observation:    per call (calls separated by the token &&) one token per key of the returned SPT, sorted by id:
//                 <id>:<distance>:<a>-<b>:<w>/<a>-<b>:<w>/...   ("-" for an empty edge list)
//                 or the single token PANIC / TIMEOUT
//
// Spec oracle (independent of the Coq model): Bellman-Ford over the last-entry-wins edge relation;
// every run of the implementation must return exactly the listed nodes, the minimal distance and a
// real path of that weight for reachable nodes (prefix-consistent: a tree), -1 and no edges for
// unreachable nodes. Each case is run several times because Go's map order varies between runs.
package main

import (
	"fmt"
	"math"
	"os"
	"sort"
	"strconv"
	"strings"
	"time"

	"github.com/bio-routing/bio-rd/util/dijkstra"

	"verifharness/hx"
)

type edge struct {
	a, b int
	w    int64
}

type gcase struct {
	srcs  []int // successive SPT calls on one Topology
	nodes []int
	edges []edge
}

func nodeOf(i int) dijkstra.Node { return dijkstra.Node{Name: "n" + strconv.Itoa(i)} }
func idOf(n dijkstra.Node) (int, bool) {
	if !strings.HasPrefix(n.Name, "n") {
		return 0, false
	}
	i, err := strconv.Atoi(n.Name[1:])
	return i, err == nil
}

func (c *gcase) String() string {
	var ns, es []string
	for _, n := range c.nodes {
		ns = append(ns, strconv.Itoa(n))
	}
	for _, e := range c.edges {
		es = append(es, fmt.Sprintf("%d-%d:%d", e.a, e.b, e.w))
	}
	var ss []string
	for _, x := range c.srcs {
		ss = append(ss, strconv.Itoa(x))
	}
	return fmt.Sprintf("s=%s n=%s e=%s", strings.Join(ss, ","), strings.Join(ns, ","), strings.Join(es, ","))
}

func parseCase(in string) (*gcase, error) {
	c := &gcase{}
	for _, t := range strings.Fields(in) {
		switch {
		case strings.HasPrefix(t, "s="):
			for _, x := range strings.Split(t[2:], ",") {
				v, err := strconv.Atoi(x)
				if err != nil {
					return nil, err
				}
				c.srcs = append(c.srcs, v)
			}
		case strings.HasPrefix(t, "n="):
			for _, x := range strings.Split(t[2:], ",") {
				if x == "" {
					continue
				}
				v, err := strconv.Atoi(x)
				if err != nil {
					return nil, err
				}
				c.nodes = append(c.nodes, v)
			}
		case strings.HasPrefix(t, "e="):
			for _, x := range strings.Split(t[2:], ",") {
				if x == "" {
					continue
				}
				ab := strings.SplitN(x, ":", 2)
				if len(ab) != 2 {
					return nil, fmt.Errorf("bad edge %q", x)
				}
				p := strings.SplitN(ab[0], "-", 2)
				if len(p) != 2 {
					return nil, fmt.Errorf("bad edge %q", x)
				}
				a, e1 := strconv.Atoi(p[0])
				b, e2 := strconv.Atoi(p[1])
				w, e3 := strconv.ParseInt(ab[1], 10, 64)
				if e1 != nil || e2 != nil || e3 != nil {
					return nil, fmt.Errorf("bad edge %q", x)
				}
				c.edges = append(c.edges, edge{a, b, w})
			}
		default:
			return nil, fmt.Errorf("bad token %q", t)
		}
	}
	if len(c.srcs) == 0 || len(c.nodes) == 0 {
		return nil, fmt.Errorf("missing s= or n=")
	}
	return c, nil
}

// inDomain: the property's domain (source listed, edges join listed nodes, weights >= 0, no overflow)
func (c *gcase) inDomain() bool {
	listed := map[int]bool{}
	for _, n := range c.nodes {
		listed[n] = true
	}
	for _, x := range c.srcs {
		if !listed[x] {
			return false
		}
	}
	var maxw int64
	for _, e := range c.edges {
		if !listed[e.a] || !listed[e.b] || e.w < 0 {
			return false
		}
		if e.w > maxw {
			maxw = e.w
		}
	}
	return maxw <= (math.MaxInt64>>1)/int64(len(c.nodes)+1)
}

// ---- the implementation under test

type result struct {
	status string // "", PANIC, TIMEOUT
	detail string
	spt    dijkstra.SPT
}

// runImpl: one Topology, the calls of c.srcs one after the other; stops at the first panic / hang
func runImpl(c *gcase) []result {
	var out []result
	var topo *dijkstra.Topology
	for k, src := range c.srcs {
		ch := make(chan result, 1)
		go func() {
			var r result
			panicked, val := hx.Guard(func() {
				if k == 0 {
					ns := make([]dijkstra.Node, len(c.nodes))
					for i, n := range c.nodes {
						ns[i] = nodeOf(n)
					}
					es := make([]dijkstra.Edge, len(c.edges))
					for i, e := range c.edges {
						es[i] = dijkstra.Edge{NodeA: nodeOf(e.a), NodeB: nodeOf(e.b), Distance: e.w}
					}
					topo = dijkstra.NewTopology(ns, es)
				}
				r.spt = topo.SPT(nodeOf(src))
			})
			if panicked {
				r = result{status: "PANIC", detail: fmt.Sprint(val)}
			}
			ch <- r
		}()
		tm := time.NewTimer(10 * time.Second)
		var r result
		select {
		case r = <-ch:
		case <-tm.C:
			r = result{status: "TIMEOUT", detail: "SPT did not return within 10s"}
		}
		tm.Stop()
		out = append(out, r)
		if r.status != "" {
			break
		}
	}
	return out
}

func fmtEdges(es []dijkstra.Edge) string {
	if len(es) == 0 {
		return "-"
	}
	var b []string
	for _, e := range es {
		b = append(b, fmt.Sprintf("%s-%s:%d", strings.TrimPrefix(e.NodeA.Name, "n"), strings.TrimPrefix(e.NodeB.Name, "n"), e.Distance))
	}
	return strings.Join(b, "/")
}

func observe(r result) string {
	if r.status != "" {
		return r.status
	}
	type ent struct {
		id int
		s  string
	}
	var ents []ent
	for n, p := range r.spt {
		id, ok := idOf(n)
		if !ok {
			id = -1
		}
		ents = append(ents, ent{id, fmt.Sprintf("%s:%d:%s", strings.TrimPrefix(n.Name, "n"), p.Distance, fmtEdges(p.Edges))})
	}
	sort.Slice(ents, func(i, j int) bool {
		if ents[i].id != ents[j].id {
			return ents[i].id < ents[j].id
		}
		return ents[i].s < ents[j].s
	})
	var out []string
	for _, e := range ents {
		out = append(out, e.s)
	}
	if len(out) == 0 {
		return "EMPTY"
	}
	return strings.Join(out, " ")
}

// ---- spec oracle

const inf = int64(math.MaxInt64)

type specInfo struct {
	dist    map[int]int64 // inf = unreachable
	hops    map[int]int   // fewest edges among shortest paths (only for the non-triviality rule)
	w       map[[2]int]int64
	unreach int
	reach   int // reachable nodes other than the source
	maxhops int
}

func spec(c *gcase, src int) *specInfo {
	s := &specInfo{dist: map[int]int64{}, hops: map[int]int{}, w: map[[2]int]int64{}}
	for _, e := range c.edges {
		s.w[[2]int{e.a, e.b}] = e.w // the last entry counts
	}
	for _, n := range c.nodes {
		s.dist[n] = inf
	}
	s.dist[src] = 0
	s.hops[src] = 0
	for round := 0; round < len(s.dist)+1; round++ {
		changed := false
		for k, w := range s.w {
			da := s.dist[k[0]]
			if da == inf {
				continue
			}
			if db := s.dist[k[1]]; da+w < db || (da+w == db && s.hops[k[0]]+1 < s.hops[k[1]]) {
				s.dist[k[1]] = da + w
				s.hops[k[1]] = s.hops[k[0]] + 1
				changed = true
			}
		}
		if !changed {
			break
		}
	}
	for n, d := range s.dist {
		if d == inf {
			s.unreach++
		} else if n != src {
			s.reach++
			if s.hops[n] > s.maxhops {
				s.maxhops = s.hops[n]
			}
		}
	}
	return s
}

// judge evaluates the property's statement on one result of the implementation
func judge(src int, s *specInfo, r result) (sig, detail string) {
	switch r.status {
	case "PANIC":
		if s.unreach > 0 {
			return "panic-unreachable-node", r.detail
		}
		return "panic", r.detail
	case "TIMEOUT":
		return "hang", r.detail
	}
	if len(r.spt) != len(s.dist) {
		return "keys", fmt.Sprintf("SPT has %d entries, %d distinct nodes listed", len(r.spt), len(s.dist))
	}
	for n, want := range s.dist {
		p, ok := r.spt[nodeOf(n)]
		if !ok {
			return "keys", fmt.Sprintf("node %d missing from the SPT", n)
		}
		if want == inf {
			if p.Distance != -1 || len(p.Edges) != 0 {
				return "unreachable-not-marked", fmt.Sprintf("node %d unreachable but distance=%d edges=%s", n, p.Distance, fmtEdges(p.Edges))
			}
			continue
		}
		if p.Distance != want {
			return "distance-not-minimal", fmt.Sprintf("node %d distance=%d minimal=%d", n, p.Distance, want)
		}
		// the edge list is a path src -> n along existing edges, of weight p.Distance
		at := nodeOf(src)
		var sum int64
		for i, e := range p.Edges {
			ia, oka := idOf(e.NodeA)
			ib, okb := idOf(e.NodeB)
			w, exists := s.w[[2]int{ia, ib}]
			if !oka || !okb || e.NodeA != at || !exists || w != e.Distance {
				return "path-not-a-path", fmt.Sprintf("node %d edge %d of %s is not an edge of the graph continuing the path", n, i, fmtEdges(p.Edges))
			}
			at = e.NodeB
			sum += e.Distance
		}
		if at != nodeOf(n) || sum != p.Distance {
			return "path-not-a-path", fmt.Sprintf("node %d path %s ends at %s with weight %d, distance=%d", n, fmtEdges(p.Edges), at.Name, sum, p.Distance)
		}
		// tree: the path of n is the path of its predecessor plus one edge
		if k := len(p.Edges); k > 0 {
			pre := r.spt[p.Edges[k-1].NodeA]
			if fmtEdges(pre.Edges) != fmtEdges(p.Edges[:k-1]) {
				return "not-a-tree", fmt.Sprintf("node %d path %s does not extend the path of its predecessor (%s)", n, fmtEdges(p.Edges), fmtEdges(pre.Edges))
			}
		}
	}
	return "", ""
}

// ---- generators

// exhaustive: all digraphs on nodes 0..n-1, each ordered pair (self-loops if loops) absent or weight 0..maxw
func exhaustive(n int, maxw int, loops bool, allSources bool, f func(*gcase)) {
	var pairs [][2]int
	for a := 0; a < n; a++ {
		for b := 0; b < n; b++ {
			if a != b || loops {
				pairs = append(pairs, [2]int{a, b})
			}
		}
	}
	nodes := make([]int, n)
	for i := range nodes {
		nodes[i] = i
	}
	choice := make([]int, len(pairs)) // 0 = absent, k = weight k-1
	for {
		var es []edge
		for i, p := range pairs {
			if choice[i] > 0 {
				es = append(es, edge{p[0], p[1], int64(choice[i] - 1)})
			}
		}
		// one Topology, several calls: every source in turn and the first again / sources 0 and n-1
		var srcs []int
		if allSources {
			for s := 0; s < n; s++ {
				srcs = append(srcs, s)
			}
			srcs = append(srcs, 0)
		} else {
			srcs = []int{0}
			if n > 1 {
				srcs = append(srcs, n-1)
			}
		}
		f(&gcase{srcs: srcs, nodes: nodes, edges: es})
		i := 0
		for i < len(choice) {
			choice[i]++
			if choice[i] <= maxw+1 {
				break
			}
			choice[i] = 0
			i++
		}
		if i == len(choice) {
			return
		}
	}
}

func genRandom(r *hx.RNG, t *hx.Trace) *gcase {
	var n int
	switch k := r.Intn(100); {
	case k < 45:
		n = 4 + r.Intn(2) // the sizes of the property text
	case k < 85:
		n = 6 + r.Intn(5)
	default:
		n = 11 + r.Intn(14)
	}
	t.Count(fmt.Sprintf("nodes_%02d", n))
	// weights: 0..3 mostly; sometimes a wider range or huge values (still without overflow)
	var wgen func() int64
	switch k := r.Intn(100); {
	case k < 70:
		wgen = func() int64 { return int64(r.Intn(4)) }
		t.Count("weights_0-3")
	case k < 90:
		wgen = func() int64 { return int64(r.Intn(50)) }
		t.Count("weights_0-49")
	default:
		shift := uint(56)
		if n > 10 {
			shift = 54
		}
		wgen = func() int64 { return int64(r.Intn(4)) << shift }
		t.Count("weights_huge")
	}
	// density
	dens := []int{8, 15, 25, 40, 70}[r.Intn(5)]
	if n > 10 {
		dens = []int{5, 10, 20}[r.Intn(3)]
	}
	c := &gcase{}
	perm := make([]int, n)
	for i := range perm {
		perm[i] = i
	}
	for i := n - 1; i > 0; i-- {
		j := r.Intn(i + 1)
		perm[i], perm[j] = perm[j], perm[i]
	}
	c.nodes = append(c.nodes, perm...)
	if r.Chance(20) { // a node listed twice
		c.nodes = append(c.nodes, perm[r.Intn(n)])
		t.Count("dup_node")
	}
	// 1-4 calls on the topology; the same source may come again
	for i, k := 0, 1+r.Intn(4); i < k; i++ {
		if i > 0 && r.Chance(25) {
			c.srcs = append(c.srcs, c.srcs[r.Intn(i)])
		} else {
			c.srcs = append(c.srcs, r.Intn(n))
		}
	}
	t.Count(fmt.Sprintf("calls_%d", len(c.srcs)))
	for a := 0; a < n; a++ {
		for b := 0; b < n; b++ {
			if a == b && !r.Chance(30) {
				continue
			}
			if r.Chance(dens) {
				c.edges = append(c.edges, edge{a, b, wgen()})
			}
		}
	}
	for i := len(c.edges) - 1; i > 0; i-- {
		j := r.Intn(i + 1)
		c.edges[i], c.edges[j] = c.edges[j], c.edges[i]
	}
	if len(c.edges) > 0 && r.Chance(30) { // the same edge again with another weight: the last one counts
		k := 1 + r.Intn(3)
		for i := 0; i < k; i++ {
			e := c.edges[r.Intn(len(c.edges))]
			e.w = wgen()
			pos := r.Intn(len(c.edges) + 1)
			c.edges = append(c.edges[:pos], append([]edge{e}, c.edges[pos:]...)...)
		}
		t.Count("dup_edge")
	}
	return c
}

func main() {
	cfg := hx.Parse()
	tr := hx.NewTrace(cfg.Out)
	nviol := 0
	hung := false
	do := func(id string, c *gcase, runs int) {
		if hung {
			return
		}
		if !c.inDomain() {
			fmt.Printf("HARNESS-ERROR case=%s outside the property's domain: %s\n", id, c.String())
			return
		}
		specs := map[int]*specInfo{}
		nt := false
		for _, src := range c.srcs {
			if specs[src] == nil {
				s := spec(c, src)
				specs[src] = s
				nt = nt || (s.reach > 0 && (s.unreach > 0 || s.maxhops >= 2))
				if s.unreach > 0 {
					tr.Count("has_unreachable")
				}
				if s.maxhops >= 2 {
					tr.Count("multi_hop")
				}
			}
		}
		var first []result
		sig, detail := "", ""
		for k := 0; k < runs; k++ {
			rs := runImpl(c)
			if k == 0 {
				first = rs
			}
			stop := false
			for j, r := range rs {
				if sg, d := judge(c.srcs[j], specs[c.srcs[j]], r); sg != "" && sig == "" {
					sig, detail = sg, fmt.Sprintf("call %d of %d (source %d): %s", j+1, len(c.srcs), c.srcs[j], d)
					first = rs // report the failing run
				}
				if r.status != "" {
					stop = true
					if r.status == "TIMEOUT" {
						hung = true
					}
				}
			}
			if stop {
				break
			}
		}
		var obs []string
		for _, r := range first {
			obs = append(obs, observe(r))
		}
		tr.Case(id, nt, c.String(), strings.Join(obs, " && "))
		if sig != "" {
			hx.Violation(id, sig, detail+" input: "+c.String())
			nviol++
		}
	}
	if cfg.Mode == "replay" {
		for _, cl := range hx.InputsFrom(cfg.Replay) {
			c, err := parseCase(cl[1])
			if err != nil {
				fmt.Println("HARNESS-ERROR bad replay input:", err)
				os.Exit(2)
			}
			do(cl[0], c, 5)
		}
	} else {
		for _, cl := range hx.InputsFrom(hx.CorpusFiles(cfg.Corpus)...) {
			if c, err := parseCase(cl[1]); err == nil {
				do("corpus-"+cl[0], c, 5)
				tr.Count("corpus")
			}
		}
		// exhaustive part
		ex := func(tag string, n, maxw int, loops, allSrc bool, runs int) {
			i := 0
			exhaustive(n, maxw, loops, allSrc, func(c *gcase) {
				do(fmt.Sprintf("%s-%d", tag, i), c, runs)
				i++
			})
			tr.Dist["exhaustive_"+tag] = i
		}
		if cfg.Tier == "thorough" {
			ex("x1w3", 1, 3, true, true, 2)
			ex("x2w3", 2, 3, true, true, 2)
			ex("x3w3", 3, 3, false, true, 2)  // 5^6 graphs x 3 sources
			ex("x3w1l", 3, 1, true, false, 2) // 3^9 graphs with self-loops
			ex("x4w1", 4, 1, false, false, 1) // 3^12 graphs, weights 0..1
		} else {
			ex("x1w2", 1, 2, true, true, 2)
			ex("x2w2", 2, 2, true, true, 2)
			ex("x3w2", 3, 2, false, true, 2) // 4^6 graphs x 3 sources
		}
		rng := hx.NewRNG(cfg.Seed)
		for i := 0; i < cfg.N; i++ {
			do(fmt.Sprintf("g%d", i), genRandom(rng.Fork(uint64(i)), tr), 2)
		}
	}
	tr.Close(cfg.Stats, map[string]interface{}{"spec_violations": nviol, "hung": hung})
	if hung {
		os.Exit(0) // leaves the spinning goroutine behind
	}
}
