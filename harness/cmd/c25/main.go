// C25 harness: concurrent stress of the table and session operations with a watchdog (see verifharness/lockstress).
package main

import "verifharness/lockstress"

func main() { lockstress.Main("c25") }
