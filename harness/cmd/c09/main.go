// C09 harness: export eligibility and attribute rewriting of a real AdjRIBOut, one path at a time,
// observed in the table (AdjRIBOut.Dump) and on the wire (packet.PathAttributes + Serialize of the stored
// path with the session's iBGP / RR-client flags, read back by a small TLV reader).
//
// Input tokens:  S:<kind>:<maxpaths>:<role>  C<chain>  P<path> P<path> ...   (each path on a fresh Adj-RIB-Out)
// Observation, one token per path:  <stored | ->#<wire | ->#<stored | ->#<wire | ->   (via AddPath; via RefreshRoute:
// the route is in a Loc-RIB, the session starts with a reject-all chain which is then replaced by the case's chain)
//
//	wire = attributes in wire order joined by ";":  2=<aspath> 1=<origin> 3=<nh> 4=<med> 6 7=<asn>.<addr>
//	       5=<lp> 9=<oid> 10=<ids> 8=<comms> 32=<lcomms> u<code>:<bytes>
package main

import (
	"bytes"
	"encoding/binary"
	"fmt"
	"os"
	"strings"

	"github.com/bio-routing/bio-rd/protocols/bgp/packet"
	"github.com/bio-routing/bio-rd/route"
	"github.com/bio-routing/bio-rd/routingtable/adjRIBOut"
	"github.com/bio-routing/bio-rd/routingtable/locRIB"

	"verifharness/aro"
	"verifharness/hx"
)

type tcase struct {
	sess  aro.Sess
	chain aro.Chain
	paths []aro.PS
}

func (c tcase) input() string {
	t := []string{c.sess.Token(), "C" + c.chain.Token()}
	for _, p := range c.paths {
		t = append(t, "P"+p.Token())
	}
	return strings.Join(t, " ")
}

func parseCase(in string) (tcase, error) {
	var c tcase
	f := strings.Fields(in)
	if len(f) < 2 || !strings.HasPrefix(f[1], "C") {
		return c, fmt.Errorf("short case")
	}
	var err error
	if c.sess, err = aro.ParseSess(f[0]); err != nil {
		return c, err
	}
	if c.chain, err = aro.ParseChain(f[1][1:]); err != nil {
		return c, err
	}
	for _, t := range f[2:] {
		if t[0] != 'P' {
			return c, fmt.Errorf("bad token %q", t)
		}
		p, err := aro.ParsePath(t[1:])
		if err != nil {
			return c, err
		}
		c.paths = append(c.paths, p)
	}
	return c, nil
}

func joinU32(b []byte, sep string) string {
	var it []string
	for i := 0; i+4 <= len(b); i += 4 {
		it = append(it, fmt.Sprint(binary.BigEndian.Uint32(b[i:])))
	}
	return strings.Join(it, sep)
}

// readWire walks the serialized attributes (flags, type, length, value).
func readWire(b []byte) (string, map[int][]byte, error) {
	var out []string
	seen := map[int][]byte{}
	for len(b) > 0 {
		if len(b) < 3 {
			return "", nil, fmt.Errorf("truncated attribute header")
		}
		flags, code := b[0], int(b[1])
		l, h := int(b[2]), 3
		if flags&0x10 != 0 {
			if len(b) < 4 {
				return "", nil, fmt.Errorf("truncated extended length")
			}
			l, h = int(binary.BigEndian.Uint16(b[2:])), 4
		}
		if len(b) < h+l {
			return "", nil, fmt.Errorf("attribute %d longer than the buffer", code)
		}
		v := b[h : h+l]
		b = b[h+l:]
		seen[code] = v
		switch code {
		case 1:
			out = append(out, fmt.Sprintf("1=%d", v[0]))
		case 2:
			var segs []string
			for len(v) >= 2 {
				k := "s"
				if v[0] == 2 {
					k = "q"
				}
				n := int(v[1])
				if len(v) < 2+4*n {
					return "", nil, fmt.Errorf("AS_PATH segment overruns")
				}
				segs = append(segs, k+joinU32(v[2:2+4*n], "."))
				v = v[2+4*n:]
			}
			if len(segs) == 0 {
				out = append(out, "2=e")
			} else {
				out = append(out, "2="+strings.Join(segs, "_"))
			}
		case 3, 4, 5, 9:
			out = append(out, fmt.Sprintf("%d=%s", code, joinU32(v, ".")))
		case 6:
			out = append(out, "6")
		case 7:
			out = append(out, fmt.Sprintf("7=%d.%d", binary.BigEndian.Uint16(v), binary.BigEndian.Uint32(v[2:])))
		case 8, 10:
			out = append(out, fmt.Sprintf("%d=%s", code, joinU32(v, ".")))
		case 32:
			var it []string
			for i := 0; i+12 <= len(v); i += 12 {
				it = append(it, fmt.Sprintf("%d:%d:%d", binary.BigEndian.Uint32(v[i:]), binary.BigEndian.Uint32(v[i+4:]), binary.BigEndian.Uint32(v[i+8:])))
			}
			out = append(out, "32="+strings.Join(it, "."))
		default:
			bs := make([]string, len(v))
			for i, x := range v {
				bs[i] = fmt.Sprint(x)
			}
			out = append(out, fmt.Sprintf("u%d:%s", code, strings.Join(bs, ".")))
		}
	}
	return strings.Join(out, ";"), seen, nil
}

type verdict struct{ sig, detail string }

func hasComm(p aro.PS, c uint32) bool {
	for _, x := range p.Comms {
		if x == c {
			return true
		}
	}
	return false
}

func flat(p []aro.Seg) string {
	var t []string
	for _, s := range p {
		if s.Seq {
			for _, a := range s.ASNs {
				t = append(t, fmt.Sprint(a))
			}
		} else {
			t = append(t, fmt.Sprintf("(%v)", s.ASNs))
		}
	}
	return strings.Join(t, " ")
}

func roleIn(r string, l ...string) bool {
	for _, x := range l {
		if r == x {
			return true
		}
	}
	return false
}

func identityChain(c aro.Chain) bool {
	t := c.Token()
	return t == "0" || t == "->acc"
}

func runCase(c tcase) (obs string, v *verdict, nontrivial bool) {
	fail := func(sig, detail string) {
		if v == nil {
			v = &verdict{sig, detail}
		}
	}
	s := c.sess
	ident := identityChain(c.chain)
	// check evaluates the property's clauses on one stored path (nil: nothing stored) and renders it
	check := func(i int, via string, p aro.PS, sp *route.Path) string {
		if sp == nil {
			return "-#-"
		}
		q, err := aro.Describe(sp)
		if err != nil {
			fail("malformed-stored-path", err.Error())
			return "!#-"
		}
		// ---- the wire
		wire := "-"
		var seen map[int][]byte
		panicked, pv := hx.Guard(func() {
			pa, err := packet.PathAttributes(sp, s.IBGP(), s.Kind == "rr")
			if err != nil {
				wire = "ERR"
				return
			}
			buf := bytes.NewBuffer(nil)
			for x := pa; x != nil; x = x.Next {
				x.Serialize(buf, &packet.EncodeOptions{Use32BitASN: true})
			}
			w, m, err := readWire(buf.Bytes())
			if err != nil {
				wire = "UNREADABLE"
				fail("wire-unreadable", err.Error())
				return
			}
			wire, seen = w, m
		})
		if panicked {
			wire = "PANIC"
			fail("panic-serialize", fmt.Sprintf("path %d (%s): %v", i, p.Token(), pv))
		}
		nontrivial = true

		// ---- spec oracle: the property's clauses on what was stored / written
		where := fmt.Sprintf("path %d (%s) on %s via %s", i, p.Token(), s.Token(), via)
		if !p.Static {
			if hasComm(p, aro.NoAdv) {
				fail("advertised-with-no-advertise", where)
			}
			if !s.IBGP() && hasComm(p, aro.NoExport) {
				fail("advertised-no-export-to-ebgp", where)
			}
			if p.Src == aro.PeerIP {
				fail("advertised-back-to-source", where)
			}
			if s.Kind == "ibgp" && !p.EBGP {
				fail("ibgp-route-to-nonclient-ibgp", where)
			}
			if !s.IBGP() && roleIn(s.Role, "prov", "peer", "rs") && p.OTC != 0 {
				fail("otc-route-to-provider-peer-rs", where)
			}
		}
		if seen == nil {
			return q.Token() + "#" + wire
		}
		if _, ok := seen[5]; ok != s.IBGP() {
			fail("local-pref-on-wire-iff-ibgp", fmt.Sprintf("%s: LOCAL_PREF on wire=%v", where, ok))
		}
		if !s.IBGP() && roleIn(s.Role, "cust", "peer", "rsc") {
			if q.OTC == 0 {
				fail("otc-not-added", where)
			}
			if _, ok := seen[35]; !ok {
				fail("otc-not-on-wire", fmt.Sprintf("%s: stored OTC=%d, no attribute 35 written", where, q.OTC))
			}
		}
		if !ident {
			return q.Token() + "#" + wire // the policy may legitimately rewrite next hop / AS path again
		}
		var in aro.PS
		if p.Static {
			in = aro.PS{}
		} else {
			in = p
		}
		if s.Kind == "ebgp" {
			if q.NH != aro.LocalIP || !bytes.Equal(seen[3], []byte{1, 1, 1, 1}) {
				fail("ebgp-no-next-hop-self", where)
			}
			want := strings.TrimSpace(fmt.Sprintf("%d %s", aro.LocalASN, flat(in.ASPath)))
			if flat(q.ASPath) != want {
				fail("ebgp-local-asn-not-prepended", fmt.Sprintf("%s: AS path %q, want %q", where, flat(q.ASPath), want))
			}
		}
		if s.Kind == "rr" && !p.Static {
			wantOID := p.OID
			if wantOID == 0 {
				wantOID = p.Src
			}
			if q.OID != wantOID || seen[9] == nil || binary.BigEndian.Uint32(seen[9]) != wantOID {
				fail("rr-client-originator-id", where)
			}
			if len(q.CL) == 0 || q.CL[0] != aro.ClusterID || len(q.CL) != len(p.CL)+1 ||
				len(seen[10]) < 4 || binary.BigEndian.Uint32(seen[10]) != aro.ClusterID {
				fail("rr-client-cluster-list", where)
			}
		}
		return q.Token() + "#" + wire
	}
	first := func(a *adjRIBOut.AdjRIBOut) *route.Path {
		d := a.Dump()
		if len(d) == 0 || len(d[0].Paths()) == 0 {
			return nil
		}
		return d[0].Paths()[0]
	}
	drain := aro.Chain{{{Acts: []aro.Act{{Kind: "rej"}}}}}
	var out []string
	for i, p := range c.paths {
		// (1) the route arrives while the policy is in force: AddPath
		a := adjRIBOut.New(nil, s.Attrs(), c.chain.Build())
		if err := a.AddPath(aro.Pfx(0), p.Build()); err != nil {
			fail("addpath-error", err.Error())
		}
		o1 := check(i, "AddPath", p, first(a))
		// (2) the route is there and the policy comes into force: ReplaceFilterChain -> RefreshRoute
		o2 := "-#-"
		if !(p.Static && p.StaticNil) { // the Loc-RIB needs a StaticPath
			lr := locRIB.New("c09")
			b := adjRIBOut.New(lr, s.Attrs(), drain.Build())
			lr.RegisterWithOptions(b, s.ClientOptions())
			lr.AddPath(aro.Pfx(0), p.Build())
			b.ReplaceFilterChain(c.chain.Build())
			o2 = check(i, "RefreshRoute", p, first(b))
		}
		out = append(out, o1+"#"+o2)
	}
	return strings.Join(out, " "), v, nontrivial
}

func gen(r *hx.RNG, t *hx.Trace) tcase {
	var c tcase
	c.sess = aro.GenSess(r, 15)
	c.chain = aro.Chain{{{Acts: []aro.Act{{Kind: "acc"}}}}}
	if r.Chance(30) {
		c.chain = aro.GenChain(r, 2)
	}
	t.Count("sess_" + c.sess.Kind + "_role_" + c.sess.Role)
	n := 2 + r.Intn(5)
	o := aro.DefaultGen
	o.OwnSrc, o.BadComm, o.Static = 12, 18, 8
	for i := 0; i < n; i++ {
		p := aro.GenPath(r, o)
		if !p.Static && r.Chance(35) {
			p.OTC = []uint32{0, 65009}[r.Intn(2)]
		}
		if len(c.paths) > 0 && r.Chance(25) {
			p = aro.Mutate(r, c.paths[r.Intn(len(c.paths))])
		}
		c.paths = append(c.paths, p)
	}
	return c
}

// sweep enumerates the whole (session kind x role x add-path) matrix against a fixed attribute pool.
func sweep(do func(id string, c tcase)) int {
	n := 0
	kinds := []string{"ebgp", "rs", "ibgp", "rr"}
	roles := []string{"-", "prov", "rs", "rsc", "cust", "peer"}
	base := aro.PS{NH: 0x03030303, Src: 0x03030303, LP: 100, BGPID: 0x03030303, ASPath: []aro.Seg{{Seq: true, ASNs: []uint32{65001}}}, ASLen: 1, CLNil: true, CommsNil: true, LCommsNil: true}
	var pool []aro.PS
	for _, ebgp := range []bool{false, true} {
		for _, otc := range []uint32{0, 65009} {
			for _, cm := range [][]uint32{nil, {100}, {aro.NoExport}, {aro.NoAdv}} {
				for _, src := range []uint32{0x03030303, aro.PeerIP} {
					p := base
					p.EBGP, p.OTC, p.Src = ebgp, otc, src
					p.Comms, p.CommsNil = cm, cm == nil
					pool = append(pool, p)
				}
			}
		}
	}
	pool = append(pool, aro.PS{Static: true, NH: 0x05050505}, aro.PS{Static: true, StaticNil: true})
	for _, k := range kinds {
		for _, ro := range roles {
			if (k == "ibgp" || k == "rr") && ro != "-" {
				continue
			}
			for _, mp := range []int{0, 2} {
				c := tcase{sess: aro.Sess{Kind: k, MaxPaths: mp, Role: ro}, chain: aro.Chain{{{Acts: []aro.Act{{Kind: "acc"}}}}}, paths: pool}
				do(fmt.Sprintf("sweep-%s-%s-%d", k, ro, mp), c)
				n++
			}
		}
	}
	return n
}

// sweepCommunities: every community LIST of length 0-4 over {NO_EXPORT, NO_ADVERTISE, NO_EXPORT_SUBCONFED (not
// known to the code: an ordinary community), 100} - all orders, all combinations - for iBGP- and eBGP-learned
// paths against the four session kinds. The community rules are about membership, whatever the order.
func sweepCommunities(do func(id string, c tcase)) int {
	n := 0
	dom := []uint32{aro.NoExport, aro.NoAdv, 0xFFFFFF03, 100}
	var lists [][]uint32
	var rec func(cur []uint32)
	rec = func(cur []uint32) {
		lists = append(lists, append([]uint32{}, cur...))
		if len(cur) == 4 {
			return
		}
		for _, c := range dom {
			rec(append(cur, c))
		}
	}
	rec(nil)
	base := aro.PS{NH: 0x03030303, Src: 0x03030303, LP: 100, BGPID: 0x03030303, ASPath: []aro.Seg{{Seq: true, ASNs: []uint32{65001}}}, ASLen: 1, CLNil: true, LCommsNil: true}
	for _, k := range []string{"ebgp", "rs", "ibgp", "rr"} {
		for _, ebgp := range []bool{false, true} {
			c := tcase{sess: aro.Sess{Kind: k, Role: "-"}, chain: aro.Chain{{{Acts: []aro.Act{{Kind: "acc"}}}}}}
			for _, l := range lists {
				p := base
				p.EBGP = ebgp
				p.Comms = l
				c.paths = append(c.paths, p)
			}
			do(fmt.Sprintf("comms-%s-%v", k, ebgp), c)
			n++
		}
	}
	return n
}

func main() {
	cfg := hx.Parse()
	tr := hx.NewTrace(cfg.Out)
	nviol := 0
	do := func(id string, c tcase) {
		var obs string
		var v *verdict
		var nt bool
		panicked, val := hx.Guard(func() { obs, v, nt = runCase(c) })
		if panicked {
			obs, v = "PANIC", &verdict{"panic", fmt.Sprint(val)}
		}
		tr.Case(id, nt, c.input(), obs)
		if v != nil {
			hx.Violation(id, v.sig, v.detail)
			nviol++
		}
	}
	if cfg.Mode == "replay" {
		for _, c := range hx.InputsFrom(cfg.Replay) {
			tc, err := parseCase(c[1])
			if err != nil {
				fmt.Println("HARNESS-ERROR bad replay input:", err)
				os.Exit(2)
			}
			do(c[0], tc)
		}
	} else {
		for _, c := range hx.InputsFrom(hx.CorpusFiles(cfg.Corpus)...) {
			tc, err := parseCase(c[1])
			if err != nil {
				fmt.Println("HARNESS-ERROR bad corpus case", c[0], err)
				os.Exit(2)
			}
			do("corpus-"+c[0], tc)
			tr.Count("corpus")
		}
		if cfg.Mode == "check" {
			tr.Dist["sweep_cases"] = sweep(do) + sweepCommunities(do)
		}
		rng := hx.NewRNG(cfg.Seed)
		for i := 0; i < cfg.N; i++ {
			do(fmt.Sprintf("g%d", i), gen(rng.Fork(uint64(i)), tr))
		}
	}
	_ = route.BGPPathType
	tr.Close(cfg.Stats, map[string]interface{}{"spec_violations": nviol})
}
