// C01 harness: routingtable.RoutingTable (and locRIB.LocRIB on top of it) against a prefix map.
//
// Input tokens of one case:
//
//	T=rt|lr|lc        target: RoutingTable, LocRIB, LocRIB with one registered client
//	W=4|6             address family (prefix width 32 / 128)
//	P=<bits>,<bits>…  prefix pool; a prefix is its bit string ("_" = /0); ops refer to pool indices
//	a<i>:<p>          AddPath(pool[i], path p)           p = 0..9 (paths are never nil)
//	r<i>:<p>          RemovePath(pool[i], path p)
//	p<i>:<p>          RoutingTable.ReplacePath(pool[i], p)        (rt only)
//	x<i>              RoutingTable.RemovePfx(pool[i])             (rt only)
//	s<i>:<o>:<n>      LocRIB.ReplacePath(pool[i], old o, new n)   (lr/lc only)
//	q<i>              observe Get/LPM/GetLonger(pool[i])
//	d                 observe Dump + route count
//
// Observation tokens (one per q / d token, in order):
//
//	q: G<paths>|L<set>|M<set>     paths: "-" (nil route) | "e" (route without paths) | sorted ids "0.1.1"
//	d: D<set>|C<count>            set: "-" | entries "<i>:<paths>" sorted, joined by ";"  ("?<bits>" if not in pool)
package main

import (
	"fmt"
	"os"
	"sort"
	"strconv"
	"strings"

	bnet "github.com/bio-routing/bio-rd/net"
	"github.com/bio-routing/bio-rd/route"
	"github.com/bio-routing/bio-rd/routingtable"
	"github.com/bio-routing/bio-rd/routingtable/locRIB"

	"verifharness/hx"
)

// ---------------------------------------------------------------- prefixes as bit strings

func bitsToPfx(bits string, w int) *bnet.Prefix {
	if bits == "_" {
		bits = ""
	}
	if i := strings.IndexByte(bits, '/'); i >= 0 { // raw: all 32 address bits + length
		var v uint32
		for k := 0; k < i && k < 32; k++ {
			if bits[k] == '1' {
				v |= 1 << uint(31-k)
			}
		}
		n, _ := strconv.Atoi(bits[i+1:])
		return bnet.NewPfx(bnet.IPv4(v), uint8(n)).Ptr()
	}
	if w == 32 {
		var v uint32
		for i := 0; i < len(bits); i++ {
			if bits[i] == '1' {
				v |= 1 << uint(31-i)
			}
		}
		return bnet.NewPfx(bnet.IPv4(v), uint8(len(bits))).Ptr()
	}
	var hi, lo uint64
	for i := 0; i < len(bits); i++ {
		if bits[i] == '1' {
			if i < 64 {
				hi |= 1 << uint(63-i)
			} else {
				lo |= 1 << uint(127-i)
			}
		}
	}
	return bnet.NewPfx(bnet.IPv6(hi, lo), uint8(len(bits))).Ptr()
}

// pfxToBits reads a prefix back without using any of net.Prefix's arithmetic.
// Host bits that are set are reported with an "h" marker so they can never match a pool entry.
func pfxToBits(p *bnet.Prefix, w int) string {
	a := p.Addr()
	var hi, lo uint64
	if w == 32 {
		if !a.IsIPv4() {
			return "?family"
		}
		hi = uint64(a.ToUint32()) << 32
	} else {
		if a.IsIPv4() {
			return "?family"
		}
		hi, lo = a.Higher(), a.Lower()
	}
	n := int(p.Len())
	if n > w {
		return fmt.Sprintf("?len%d", n)
	}
	var b strings.Builder
	host := false
	for i := 0; i < w; i++ {
		var bit bool
		if i < 64 {
			bit = hi&(1<<uint(63-i)) != 0
		} else {
			bit = lo&(1<<uint(127-i)) != 0
		}
		if i < n {
			if bit {
				b.WriteByte('1')
			} else {
				b.WriteByte('0')
			}
		} else if bit {
			host = true
		}
	}
	s := b.String()
	if s == "" {
		s = "_"
	}
	if host {
		s += "h"
	}
	return s
}

// rawBits prints an IPv4 prefix with all its address bits (raw stream)
func rawBits(p *bnet.Prefix) string {
	a := p.Addr()
	if !a.IsIPv4() {
		return "?family"
	}
	return fmt.Sprintf("%032b/%d", a.ToUint32(), p.Len())
}

func normBits(s string) string {
	if s == "_" {
		return ""
	}
	return s
}

// covers: a is a strict prefix of b (a contains b, a != b)
func covers(a, b string) bool { return len(a) < len(b) && b[:len(a)] == a }

// ---------------------------------------------------------------- paths

const nPaths = 10

var pathPool [nPaths]*route.Path

func init() {
	for i := range pathPool {
		pathPool[i] = &route.Path{
			Type:       route.StaticPathType,
			StaticPath: &route.StaticPath{NextHop: bnet.IPv4FromOctets(192, 0, 2, byte(i+1)).Ptr()},
		}
	}
}

func pathOf(id int) *route.Path {
	if id < 0 {
		return nil
	}
	// a fresh object each time: the table must identify paths by Compare/Equal, not by pointer
	p := *pathPool[id]
	sp := *p.StaticPath
	p.StaticPath = &sp
	return &p
}

func pathID(p *route.Path) int {
	if p == nil || p.StaticPath == nil || p.StaticPath.NextHop == nil {
		return 99
	}
	v := p.StaticPath.NextHop.ToUint32()
	base := uint32(192)<<24 | 0<<16 | 2<<8
	if v&0xffffff00 != base || v&0xff == 0 || int(v&0xff) > nPaths {
		return 98
	}
	return int(v&0xff) - 1
}

func fmtPaths(ids []int) string {
	if len(ids) == 0 {
		return "e"
	}
	s := append([]int(nil), ids...)
	sort.Ints(s)
	out := make([]string, len(s))
	for i, v := range s {
		out[i] = strconv.Itoa(v)
	}
	return strings.Join(out, ".")
}

// ---------------------------------------------------------------- case description

type op struct {
	kind  byte
	i     int // pool index
	p, p2 int // path ids (-1 = nil)
}

type tcase struct {
	target string // rt | lr | lc
	w      int
	pool   []string // normalised bit strings ("" = /0)
	ops    []op
}

func fmtPathID(p int) string {
	if p < 0 {
		return "n"
	}
	return strconv.Itoa(p)
}

func (c *tcase) String() string {
	var b []string
	b = append(b, "T="+c.target)
	if c.w == 32 {
		b = append(b, "W=4")
	} else {
		b = append(b, "W=6")
	}
	ps := make([]string, len(c.pool))
	for i, p := range c.pool {
		if p == "" {
			ps[i] = "_"
		} else {
			ps[i] = p
		}
	}
	b = append(b, "P="+strings.Join(ps, ","))
	for _, o := range c.ops {
		switch o.kind {
		case 'a', 'r', 'p':
			b = append(b, fmt.Sprintf("%c%d:%s", o.kind, o.i, fmtPathID(o.p)))
		case 'x', 'q':
			b = append(b, fmt.Sprintf("%c%d", o.kind, o.i))
		case 's':
			b = append(b, fmt.Sprintf("s%d:%s:%s", o.i, fmtPathID(o.p), fmtPathID(o.p2)))
		case 'd':
			b = append(b, "d")
		}
	}
	return strings.Join(b, " ")
}

func parsePathID(s string) (int, error) {
	v, err := strconv.Atoi(s)
	if err != nil || v < 0 || v >= nPaths {
		return 0, fmt.Errorf("bad path id %q", s)
	}
	return v, nil
}

func parseCase(in string) (*tcase, error) {
	c := &tcase{target: "rt", w: 32}
	for _, t := range strings.Fields(in) {
		switch {
		case strings.HasPrefix(t, "T="):
			c.target = t[2:]
			if c.target != "rt" && c.target != "lr" && c.target != "lc" && c.target != "rn" {
				return nil, fmt.Errorf("bad target %q", t)
			}
		case t == "W=4":
			c.w = 32
		case t == "W=6":
			c.w = 128
		case strings.HasPrefix(t, "P="):
			for _, p := range strings.Split(t[2:], ",") {
				p = normBits(p)
				if c.target == "rn" {
					i := strings.IndexByte(p, '/')
					n := -1
					if i == 32 {
						n, _ = strconv.Atoi(p[i+1:])
					}
					if c.w != 32 || i != 32 || strings.Trim(p[:i], "01") != "" || n < 1 || n > 32 || p != fmt.Sprintf("%s/%d", p[:i], n) {
						return nil, fmt.Errorf("bad raw prefix %q", p)
					}
				} else if len(p) > c.w || strings.Trim(p, "01") != "" {
					return nil, fmt.Errorf("bad prefix %q", p)
				}
				c.pool = append(c.pool, p)
			}
		case t == "d":
			c.ops = append(c.ops, op{kind: 'd'})
		default:
			o := op{kind: t[0]}
			parts := strings.Split(t[1:], ":")
			i, err := strconv.Atoi(parts[0])
			if err != nil || i < 0 || i >= len(c.pool) {
				return nil, fmt.Errorf("bad pool index in %q", t)
			}
			o.i = i
			want := map[byte]int{'a': 2, 'r': 2, 'p': 2, 'x': 1, 'q': 1, 's': 3}[o.kind]
			if want == 0 || len(parts) != want {
				return nil, fmt.Errorf("bad token %q", t)
			}
			if (o.kind == 'p' || o.kind == 'x') && c.target != "rt" && c.target != "rn" {
				return nil, fmt.Errorf("token %q needs T=rt", t)
			}
			if want >= 2 {
				if o.p, err = parsePathID(parts[1]); err != nil {
					return nil, err
				}
			}
			if want == 3 {
				if o.p2, err = parsePathID(parts[2]); err != nil {
					return nil, err
				}
			}
			c.ops = append(c.ops, o)
		}
	}
	if len(c.pool) == 0 {
		return nil, fmt.Errorf("no pool")
	}
	return c, nil
}

// ---------------------------------------------------------------- the table under test

type table interface {
	add(p *bnet.Prefix, pa *route.Path)
	remove(p *bnet.Prefix, pa *route.Path)
	replace(p *bnet.Prefix, pa *route.Path)
	removePfx(p *bnet.Prefix)
	subst(p *bnet.Prefix, o, n *route.Path)
	get(p *bnet.Prefix) *route.Route
	lpm(p *bnet.Prefix) []*route.Route
	longer(p *bnet.Prefix) []*route.Route
	dump() []*route.Route
	count() int64
}

type rtT struct{ t *routingtable.RoutingTable }

func (x rtT) add(p *bnet.Prefix, pa *route.Path)     { x.t.AddPath(p, pa) }
func (x rtT) remove(p *bnet.Prefix, pa *route.Path)  { x.t.RemovePath(p, pa) }
func (x rtT) replace(p *bnet.Prefix, pa *route.Path) { x.t.ReplacePath(p, pa) }
func (x rtT) removePfx(p *bnet.Prefix)               { x.t.RemovePfx(p) }
func (x rtT) subst(p *bnet.Prefix, o, n *route.Path) {
	// what LocRIB.ReplacePath does on its table
	if r := x.t.Get(p); r != nil {
		r.ReplacePath(o, n)
	}
}
func (x rtT) get(p *bnet.Prefix) *route.Route      { return x.t.Get(p) }
func (x rtT) lpm(p *bnet.Prefix) []*route.Route    { return x.t.LPM(p) }
func (x rtT) longer(p *bnet.Prefix) []*route.Route { return x.t.GetLonger(p) }
func (x rtT) dump() []*route.Route                 { return x.t.Dump() }
func (x rtT) count() int64                         { return x.t.GetRouteCount() }

type lrT struct{ t *locRIB.LocRIB }

func (x lrT) add(p *bnet.Prefix, pa *route.Path)     { x.t.AddPath(p, pa) }
func (x lrT) remove(p *bnet.Prefix, pa *route.Path)  { x.t.RemovePath(p, pa) }
func (x lrT) replace(p *bnet.Prefix, pa *route.Path) {}
func (x lrT) removePfx(p *bnet.Prefix)               {}
func (x lrT) subst(p *bnet.Prefix, o, n *route.Path) { x.t.ReplacePath(p, o, n) }
func (x lrT) get(p *bnet.Prefix) *route.Route        { return x.t.Get(p) }
func (x lrT) lpm(p *bnet.Prefix) []*route.Route      { return x.t.LPM(p) }
func (x lrT) longer(p *bnet.Prefix) []*route.Route   { return x.t.GetLonger(p) }
func (x lrT) dump() []*route.Route                   { return x.t.Dump() }
func (x lrT) count() int64 {
	c := int64(x.t.Count())
	if c != x.t.RouteCount() {
		return -1000 - c
	}
	return c
}

// ---------------------------------------------------------------- spec oracle: a plain map

type oracle struct {
	m map[string][]int // bit string -> path ids in insertion order
}

func removeFirst(xs []int, v int) []int {
	for i, x := range xs {
		if x == v {
			return append(append([]int(nil), xs[:i]...), xs[i+1:]...)
		}
	}
	return xs
}

func (o *oracle) apply(c *tcase, e op) (deleted bool) {
	k := c.pool[e.i]
	cur, ok := o.m[k]
	switch e.kind {
	case 'a':
		if e.p >= 0 {
			cur = append(append([]int(nil), cur...), e.p)
		}
		o.m[k] = cur
	case 'r':
		if ok {
			if e.p >= 0 {
				cur = removeFirst(cur, e.p)
			}
			if len(cur) == 0 {
				delete(o.m, k)
				deleted = true
			} else {
				o.m[k] = cur
			}
		}
	case 'p':
		if e.p >= 0 {
			o.m[k] = []int{e.p}
		} else {
			o.m[k] = nil
		}
	case 'x':
		if ok {
			delete(o.m, k)
			deleted = true
		}
	case 's':
		if ok {
			for i, x := range cur {
				if x == e.p {
					n := append([]int(nil), cur...)
					n[i] = e.p2
					o.m[k] = n
					break
				}
			}
		}
	}
	return
}

func (o *oracle) set(c *tcase, keep func(k string) bool) string {
	var out []string
	for k, ps := range o.m {
		if keep(k) {
			out = append(out, fmt.Sprintf("%d:%s", c.index(k), fmtPaths(ps)))
		}
	}
	return joinSet(out)
}

func joinSet(xs []string) string {
	if len(xs) == 0 {
		return "-"
	}
	sort.Strings(xs)
	return strings.Join(xs, ";")
}

func (c *tcase) index(bits string) int {
	for i, p := range c.pool {
		if p == bits {
			return i
		}
	}
	return -1
}

func (c *tcase) fmtRoutes(rs []*route.Route) string {
	var out []string
	for _, r := range rs {
		if r == nil {
			out = append(out, "?nil")
			continue
		}
		b := pfxToBits(r.Prefix(), c.w)
		if c.target == "rn" {
			b = rawBits(r.Prefix())
		}
		var ids []int
		for _, p := range r.Paths() {
			ids = append(ids, pathID(p))
		}
		if i := c.index(normBits(b)); i >= 0 && !strings.HasSuffix(b, "h") && !strings.HasPrefix(b, "?") {
			out = append(out, fmt.Sprintf("%d:%s", i, fmtPaths(ids)))
		} else {
			out = append(out, fmt.Sprintf("?%s:%s", b, fmtPaths(ids)))
		}
	}
	return joinSet(out)
}

// ---------------------------------------------------------------- running one case

type result struct {
	obs    string
	sig    string
	detail string
	nt     bool
}

func runCase(c *tcase) (res result) {
	var t table
	switch c.target {
	case "rt", "rn":
		t = rtT{routingtable.NewRoutingTable()}
	case "lr":
		t = lrT{locRIB.New("c01")}
	default:
		l := locRIB.New("c01")
		l.RegisterWithOptions(routingtable.NewRTMockClient(), routingtable.ClientOptions{MaxPaths: 2})
		t = lrT{l}
	}
	pfx := make([]*bnet.Prefix, len(c.pool))
	for i, b := range c.pool {
		pfx[i] = bitsToPfx(b, c.w)
	}
	or := &oracle{m: map[string][]int{}}
	var out []string
	deletedSome, absentQuery := false, false
	viol := func(sig, format string, a ...interface{}) {
		if c.target == "rn" {
			return // no oracle for non-canonical prefixes
		}
		if res.sig == "" {
			res.sig, res.detail = sig, fmt.Sprintf(format, a...)
		}
	}
	fam := "v4"
	if c.w == 128 {
		fam = "v6"
	}
	for n, e := range c.ops {
		switch e.kind {
		case 'a':
			t.add(bitsToPfx(c.pool[e.i], c.w), pathOf(e.p))
		case 'r':
			t.remove(bitsToPfx(c.pool[e.i], c.w), pathOf(e.p))
		case 'p':
			t.replace(bitsToPfx(c.pool[e.i], c.w), pathOf(e.p))
		case 'x':
			t.removePfx(bitsToPfx(c.pool[e.i], c.w))
		case 's':
			t.subst(bitsToPfx(c.pool[e.i], c.w), pathOf(e.p), pathOf(e.p2))
		}
		if or.apply(c, e) {
			deletedSome = true
		}
		switch e.kind {
		case 'q':
			q := c.pool[e.i]
			g := "-"
			if r := t.get(pfx[e.i]); r != nil {
				var ids []int
				for _, p := range r.Paths() {
					ids = append(ids, pathID(p))
				}
				g = fmtPaths(ids)
				b := pfxToBits(r.Prefix(), c.w)
				if c.target == "rn" {
					b = rawBits(r.Prefix())
				}
				if normBits(b) != q {
					g = "?" + b + ":" + g
				}
			}
			l := c.fmtRoutes(t.lpm(pfx[e.i]))
			m := c.fmtRoutes(t.longer(pfx[e.i]))
			out = append(out, fmt.Sprintf("G%s|L%s|M%s", g, l, m))
			// the property's statement, evaluated on the implementation's answers
			wg := "-"
			stored := false
			if ps, ok := or.m[q]; ok {
				wg = fmtPaths(ps)
				stored = true
			}
			wl := or.set(c, func(k string) bool { return k == q || covers(k, q) })
			wm := or.set(c, func(k string) bool { return k == q || covers(q, k) })
			st := "stored"
			if !stored {
				st = "absent"
				if wl != "-" || wm != "-" {
					absentQuery = true
				}
			}
			if g != wg {
				viol("get-"+st+"-"+fam, "after token %d: Get(%s/%d) = %s, map has %s", n, q, len(q), g, wg)
			}
			if l != wl {
				viol("lpm-"+st+"-"+fam, "after token %d: LPM(%s/%d) = %s, map has %s", n, q, len(q), l, wl)
			}
			if m != wm {
				viol("longer-"+st+"-"+fam, "after token %d: GetLonger(%s/%d) = %s, map has %s", n, q, len(q), m, wm)
			}
		case 'd':
			d := c.fmtRoutes(t.dump())
			cnt := t.count()
			out = append(out, fmt.Sprintf("D%s|C%d", d, cnt))
			wd := or.set(c, func(string) bool { return true })
			if d != wd {
				viol("dump-"+fam, "after token %d: Dump = %s, map has %s", n, d, wd)
			}
			if cnt != int64(len(or.m)) {
				viol("count-"+fam, "after token %d: route count = %d, map has %d prefixes", n, cnt, len(or.m))
			}
		}
	}
	res.obs = strings.Join(out, " ")
	if res.obs == "" {
		res.obs = "none"
	}
	res.nt = deletedSome && absentQuery && c.target != "rn"
	return
}

// ---------------------------------------------------------------- generator

func randBits(r *hx.RNG, n int) string {
	b := make([]byte, n)
	for i := range b {
		if r.Bool() {
			b[i] = '1'
		} else {
			b[i] = '0'
		}
	}
	return string(b)
}

func genPool(r *hx.RNG, w int, t *hx.Trace) []string {
	// stem lengths sit just below the word boundaries of the family
	var stems []int
	if w == 32 {
		stems = []int{0, 0, 1, 6, 7, 8, 15, 22, 23, 28, 29, 30, 30, 31}
	} else {
		stems = []int{0, 0, 1, 29, 30, 31, 32, 46, 61, 62, 62, 63, 63, 64, 94, 95, 96, 124, 125, 126, 126, 127}
	}
	sl := stems[r.Intn(len(stems))]
	stem := randBits(r, sl)
	if r.Chance(30) { // all-zero / all-one stems: no accidental early divergence
		c := byte('0')
		if r.Bool() {
			c = '1'
		}
		stem = strings.Repeat(string(c), sl)
	}
	t.Count(fmt.Sprintf("stem_v%d_%03d", map[int]int{32: 4, 128: 6}[w], sl/8*8))
	want := 6 + r.Intn(5)
	seen := map[string]bool{}
	var pool []string
	addp := func(p string) {
		if len(p) <= w && !seen[p] {
			seen[p] = true
			pool = append(pool, p)
		}
	}
	addp(stem)
	for tries := 0; len(pool) < want && tries < 200; tries++ {
		base := pool[r.Intn(len(pool))]
		switch c := r.Intn(100); {
		case c < 40: // extend by 1..3 bits
			addp(base + randBits(r, 1+r.Intn(3)))
		case c < 55: // sibling
			if len(base) > 0 {
				b := []byte(base)
				b[len(b)-1] ^= 1
				addp(string(b))
			}
		case c < 70: // truncate by 1..2 bits
			k := 1 + r.Intn(2)
			if len(base) >= k {
				addp(base[:len(base)-k])
			}
		case c < 80: // host route below
			x := base + randBits(r, 3)
			if len(x) > w {
				x = x[:w]
			}
			for len(x) < w {
				x += x[len(x)-1:]
			}
			addp(x)
		case c < 86:
			addp("") // default route
		case c < 92: // diverge inside the stem
			if len(base) > 1 {
				k := r.Intn(len(base))
				b := []byte(base[:k+1])
				b[k] ^= 1
				addp(string(b) + randBits(r, r.Intn(3)))
			}
		default: // extend to the next word boundary +-1
			for _, bd := range []int{32, 64, 96, 128} {
				if bd > len(base) && bd-1 <= w {
					n := bd - 1 + r.Intn(3)
					if n > w {
						n = w
					}
					if n > len(base) {
						addp(base + randBits(r, n-len(base)))
					}
					break
				}
			}
		}
	}
	return pool
}

// rawPool turns canonical IPv4 prefixes (length >= 1) into "<32 bits>/<len>" entries, many with host bits set,
// some of them twice with different host bits.
func rawPool(r *hx.RNG, pool []string) []string {
	seen := map[string]bool{}
	var out []string
	add := func(b string) {
		n := len(b)
		host := []byte(strings.Repeat("0", 32-n))
		if n < 32 && r.Chance(50) {
			switch k := r.Intn(10); {
			case k < 3:
				host[0] = '1'
			case k < 6:
				host[len(host)-1] = '1'
			default:
				host = []byte(randBits(r, 32-n))
			}
		}
		e := fmt.Sprintf("%s%s/%d", b, host, n)
		if !seen[e] {
			seen[e] = true
			out = append(out, e)
		}
	}
	for _, b := range pool {
		if b == "" {
			continue
		}
		add(b)
		if r.Chance(25) {
			add(b)
		}
	}
	if len(out) == 0 {
		out = append(out, "00001010000000000000000000000001/8")
	}
	return out
}

func gen(r *hx.RNG, t *hx.Trace) *tcase {
	c := &tcase{}
	switch k := r.Intn(100); {
	case k < 55:
		c.target = "rt"
	case k < 63:
		c.target = "rn"
	case k < 82:
		c.target = "lr"
	default:
		c.target = "lc"
	}
	c.w = 32
	if r.Chance(55) && c.target != "rn" {
		c.w = 128
	}
	t.Count("target_" + c.target)
	c.pool = genPool(r, c.w, t)
	if c.target == "rn" {
		c.pool = rawPool(r, c.pool)
	}
	isRT := c.target == "rt" || c.target == "rn"
	np := len(c.pool)
	nops := 5 + r.Intn(36)
	maxPath := 2 + r.Intn(2)
	or := &oracle{m: map[string][]int{}}
	storedPair := func() (int, int, bool) {
		var ks []string
		for k := range or.m {
			ks = append(ks, k)
		}
		if len(ks) == 0 {
			return 0, 0, false
		}
		sort.Strings(ks)
		k := ks[r.Intn(len(ks))]
		ps := or.m[k]
		p := -1
		if len(ps) > 0 {
			p = ps[r.Intn(len(ps))]
		}
		return c.index(k), p, true
	}
	for i := 0; i < nops; i++ {
		var e op
		k := r.Intn(100)
		switch {
		case k < 45:
			e = op{kind: 'a', i: r.Intn(np), p: r.Intn(maxPath)}
		case k < 72:
			e = op{kind: 'r', i: r.Intn(np), p: r.Intn(maxPath)}
			if i, p, ok := storedPair(); ok && r.Chance(70) {
				e.i = i
				if p >= 0 {
					e.p = p
				}
			}
		case k < 86:
			if isRT {
				e = op{kind: 'p', i: r.Intn(np), p: r.Intn(maxPath)}
			} else {
				e = op{kind: 's', i: r.Intn(np), p: r.Intn(maxPath), p2: r.Intn(maxPath + 1)}
				if i, p, ok := storedPair(); ok && p >= 0 && r.Chance(70) {
					e.i, e.p = i, p
				}
			}
		default:
			if isRT {
				e = op{kind: 'x', i: r.Intn(np)}
				if i, _, ok := storedPair(); ok && r.Chance(70) {
					e.i = i
				}
			} else {
				e = op{kind: 'r', i: r.Intn(np), p: r.Intn(maxPath)}
			}
		}
		c.ops = append(c.ops, e)
		or.apply(c, e)
		t.Count("op_" + string(e.kind))
		if r.Chance(45) {
			for n := 1 + r.Intn(3); n > 0; n-- {
				c.ops = append(c.ops, op{kind: 'q', i: r.Intn(np)})
			}
		}
		if r.Chance(25) {
			c.ops = append(c.ops, op{kind: 'd'})
		}
	}
	for i := 0; i < np; i++ {
		c.ops = append(c.ops, op{kind: 'q', i: i})
	}
	c.ops = append(c.ops, op{kind: 'd'})
	t.Count(fmt.Sprintf("ops_%02d-%02d", nops/10*10, nops/10*10+9))
	return c
}

func main() {
	cfg := hx.Parse()
	tr := hx.NewTrace(cfg.Out)
	nviol := 0
	do := func(id string, c *tcase) {
		var res result
		panicked, val := hx.Guard(func() { res = runCase(c) })
		if panicked {
			res = result{obs: "PANIC", sig: "panic", detail: strings.ReplaceAll(fmt.Sprint(val), "\n", " ")}
			if c.target == "rn" {
				res.sig = "" // outside the property; the model driver reports it as a note
			}
		}
		tr.Case(id, res.nt, c.String(), res.obs)
		if res.sig != "" {
			hx.Violation(id, res.sig, res.detail)
			nviol++
		}
	}
	if cfg.Mode == "replay" {
		for _, in := range hx.InputsFrom(cfg.Replay) {
			c, err := parseCase(in[1])
			if err != nil {
				fmt.Println("HARNESS-ERROR bad replay input:", err)
				os.Exit(2)
			}
			do(in[0], c)
		}
	} else {
		for _, in := range hx.InputsFrom(hx.CorpusFiles(cfg.Corpus)...) {
			c, err := parseCase(in[1])
			if err != nil {
				fmt.Println("HARNESS-ERROR bad corpus input:", in[0], err)
				os.Exit(2)
			}
			do("corpus-"+in[0], c)
			tr.Count("corpus")
		}
		rng := hx.NewRNG(cfg.Seed)
		for i := 0; i < cfg.N; i++ {
			do(fmt.Sprintf("g%d", i), gen(rng.Fork(uint64(i)), tr))
		}
	}
	tr.Close(cfg.Stats, map[string]interface{}{"spec_violations": nviol})
}
