// C20 harness: UPDATE messages are applied NLRI by NLRI.
// Drives fsmAddressFamily.processUpdate (through the verif hook VerifC20...) with decoded
// packet.BGPUpdate values against a real Adj-RIB-In + Loc-RIB.
//
// Input tokens:  fam:<afi>,<addpath>,<ibgp>   then one token per message:
//   U:w=<nlri>;a=<attrs>;n=<nlri>      nlri = <pfx>.<id>+<pfx>.<id>... or _
//   attrs (comma separated, _ = none):  lp=<v> med=<v> nh=<v> as=<list> or=<v> cl=<list>
//       R<afi>.<safi>.<nh>/<nlri>   MP_REACH_NLRI      X<afi>.<safi>/<nlri>   MP_UNREACH_NLRI
//       ig<k> (type-asserted attribute outside the model: ORIGIN, COMMUNITIES, unknown transitive)
//       sk<k> (no assertion: ATOMIC_AGGREGATE, unknown non-transitive)
//       !lp !med !nh !as !or !cl !R !X !ig  the attribute with a value of the wrong Go type
// Observation: one token per message:  T=<adj-rib-in>|C=<loc-rib>   or PANIC (processing stops)
package main

import (
	"fmt"
	"os"
	"sort"
	"strconv"
	"strings"

	bnet "github.com/bio-routing/bio-rd/net"
	"github.com/bio-routing/bio-rd/protocols/bgp/packet"
	"github.com/bio-routing/bio-rd/protocols/bgp/server"
	"github.com/bio-routing/bio-rd/protocols/bgp/types"
	"github.com/bio-routing/bio-rd/route"
	"github.com/bio-routing/bio-rd/routingtable/filter"
	"github.com/bio-routing/bio-rd/routingtable/locRIB"
	"github.com/bio-routing/bio-rd/routingtable/vrf"

	"verifharness/hx"
)

const nPfx = 4
const localASN = 65000

type nl struct {
	pfx int
	id  uint32
}

type attr struct {
	kind string // lp med nh as or cl R X ig sk
	bad  bool
	v    uint32
	l    []uint32
	afi  uint16
	safi uint8
	nh   uint32
	nlri []nl
}

type msg struct {
	w, n  []nl
	attrs []attr
}

type fam struct {
	afi           uint16
	addPath, ibgp bool
}

// ---------------------------------------------------------------- format / parse

func fmtList(l []uint32) string {
	if len(l) == 0 {
		return "_"
	}
	s := make([]string, len(l))
	for i, v := range l {
		s[i] = strconv.FormatUint(uint64(v), 10)
	}
	return strings.Join(s, "-")
}
func parseList(s string) ([]uint32, error) {
	if s == "_" || s == "" {
		return nil, nil
	}
	var out []uint32
	for _, x := range strings.Split(s, "-") {
		v, err := strconv.ParseUint(x, 10, 32)
		if err != nil {
			return nil, err
		}
		out = append(out, uint32(v))
	}
	return out, nil
}
func fmtNL(l []nl) string {
	if len(l) == 0 {
		return "_"
	}
	s := make([]string, len(l))
	for i, x := range l {
		s[i] = fmt.Sprintf("%d.%d", x.pfx, x.id)
	}
	return strings.Join(s, "+")
}
func parseNL(s string) ([]nl, error) {
	if s == "_" || s == "" {
		return nil, nil
	}
	var out []nl
	for _, x := range strings.Split(s, "+") {
		p := strings.Split(x, ".")
		if len(p) != 2 {
			return nil, fmt.Errorf("bad nlri %q", x)
		}
		a, e1 := strconv.Atoi(p[0])
		b, e2 := strconv.ParseUint(p[1], 10, 32)
		if e1 != nil || e2 != nil || a < 0 || a >= nPfx {
			return nil, fmt.Errorf("bad nlri %q", x)
		}
		out = append(out, nl{a, uint32(b)})
	}
	return out, nil
}
func b2i(b bool) int {
	if b {
		return 1
	}
	return 0
}

func (a attr) String() string {
	if a.bad {
		return "!" + a.kind
	}
	switch a.kind {
	case "lp", "med", "nh", "or":
		return fmt.Sprintf("%s=%d", a.kind, a.v)
	case "as", "cl":
		return fmt.Sprintf("%s=%s", a.kind, fmtList(a.l))
	case "R":
		return fmt.Sprintf("R%d.%d.%d/%s", a.afi, a.safi, a.nh, fmtNL(a.nlri))
	case "X":
		return fmt.Sprintf("X%d.%d/%s", a.afi, a.safi, fmtNL(a.nlri))
	default:
		return fmt.Sprintf("%s%d", a.kind, a.v)
	}
}

func (m msg) String() string {
	as := "_"
	if len(m.attrs) > 0 {
		s := make([]string, len(m.attrs))
		for i, a := range m.attrs {
			s[i] = a.String()
		}
		as = strings.Join(s, ",")
	}
	return fmt.Sprintf("U:w=%s;a=%s;n=%s", fmtNL(m.w), as, fmtNL(m.n))
}

func fmtCase(f fam, ms []msg) string {
	s := []string{fmt.Sprintf("fam:%d,%d,%d", f.afi, b2i(f.addPath), b2i(f.ibgp))}
	for _, m := range ms {
		s = append(s, m.String())
	}
	return strings.Join(s, " ")
}

func parseAttr(t string) (attr, error) {
	var a attr
	var err error
	u := func(s string) uint32 {
		v, e := strconv.ParseUint(s, 10, 32)
		if e != nil {
			err = e
		}
		return uint32(v)
	}
	switch {
	case strings.HasPrefix(t, "!"):
		a.kind, a.bad = t[1:], true
	case strings.HasPrefix(t, "lp="), strings.HasPrefix(t, "nh="), strings.HasPrefix(t, "or="):
		a.kind, a.v = t[:2], u(t[3:])
	case strings.HasPrefix(t, "med="):
		a.kind, a.v = "med", u(t[4:])
	case strings.HasPrefix(t, "as="), strings.HasPrefix(t, "cl="):
		a.kind = t[:2]
		a.l, err = parseList(t[3:])
	case strings.HasPrefix(t, "R"), strings.HasPrefix(t, "X"):
		a.kind = t[:1]
		p := strings.SplitN(t[1:], "/", 2)
		if len(p) != 2 {
			return a, fmt.Errorf("bad attr %q", t)
		}
		h := strings.Split(p[0], ".")
		if (a.kind == "R" && len(h) != 3) || (a.kind == "X" && len(h) != 2) {
			return a, fmt.Errorf("bad attr %q", t)
		}
		a.afi, a.safi = uint16(u(h[0])), uint8(u(h[1]))
		if a.kind == "R" {
			a.nh = u(h[2])
		}
		if err == nil {
			a.nlri, err = parseNL(p[1])
		}
	case strings.HasPrefix(t, "ig"), strings.HasPrefix(t, "sk"):
		a.kind, a.v = t[:2], u(t[2:])
	default:
		err = fmt.Errorf("bad attr %q", t)
	}
	return a, err
}

func parseCase(in string) (fam, []msg, error) {
	var f fam
	toks := strings.Fields(in)
	if len(toks) == 0 || !strings.HasPrefix(toks[0], "fam:") {
		return f, nil, fmt.Errorf("missing fam token")
	}
	h := strings.Split(toks[0][4:], ",")
	if len(h) != 3 {
		return f, nil, fmt.Errorf("bad fam token")
	}
	afi, e := strconv.Atoi(h[0])
	if e != nil || (afi != 1 && afi != 2) {
		return f, nil, fmt.Errorf("bad afi")
	}
	f = fam{afi: uint16(afi), addPath: h[1] == "1", ibgp: h[2] == "1"}
	var ms []msg
	for _, t := range toks[1:] {
		if !strings.HasPrefix(t, "U:") {
			return f, nil, fmt.Errorf("bad message token %q", t)
		}
		parts := strings.Split(t[2:], ";")
		if len(parts) != 3 || !strings.HasPrefix(parts[0], "w=") || !strings.HasPrefix(parts[1], "a=") || !strings.HasPrefix(parts[2], "n=") {
			return f, nil, fmt.Errorf("bad message token %q", t)
		}
		var m msg
		var err error
		if m.w, err = parseNL(parts[0][2:]); err != nil {
			return f, nil, err
		}
		if m.n, err = parseNL(parts[2][2:]); err != nil {
			return f, nil, err
		}
		if as := parts[1][2:]; as != "_" {
			for _, at := range strings.Split(as, ",") {
				a, err := parseAttr(at)
				if err != nil {
					return f, nil, err
				}
				m.attrs = append(m.attrs, a)
			}
		}
		ms = append(ms, m)
	}
	return f, ms, nil
}

// ---------------------------------------------------------------- implementation objects

func prefix(afi uint16, i int) *bnet.Prefix {
	if afi == 2 {
		return bnet.NewPfx(bnet.IPv6FromBlocks(0x2001, 0xdb8, uint16(i), 0, 0, 0, 0, 0), 48).Ptr()
	}
	return bnet.NewPfx(bnet.IPv4FromOctets(10, 0, byte(i), 0), 24).Ptr()
}
func pfxIndex(p *bnet.Prefix) int {
	b := p.Addr().Bytes()
	if len(b) == 16 {
		return int(b[5])
	}
	return int(b[2])
}
func nextHop(afi uint16, v uint32) *bnet.IP {
	if afi == 2 {
		return bnet.IPv6FromBlocks(0x2001, 0xdb8, 0, 0, 0, 0, 0, uint16(v)).Ptr()
	}
	return bnet.IPv4FromOctets(1, 1, 1, byte(v)).Ptr()
}

func mkNLRI(afi uint16, l []nl) *packet.NLRI {
	var head, last *packet.NLRI
	for _, x := range l {
		n := &packet.NLRI{PathIdentifier: x.id, Prefix: prefix(afi, x.pfx)}
		if head == nil {
			head = n
		} else {
			last.Next = n
		}
		last = n
	}
	return head
}

func mkASPath(l []uint32) *types.ASPath {
	if len(l) == 0 {
		return &types.ASPath{}
	}
	if len(l) < 3 {
		return &types.ASPath{{Type: types.ASSequence, ASNs: append([]uint32{}, l...)}}
	}
	return &types.ASPath{
		{Type: types.ASSequence, ASNs: append([]uint32{}, l[:len(l)-1]...)},
		{Type: types.ASSequence, ASNs: []uint32{l[len(l)-1]}},
	}
}

func mkAttr(a attr) *packet.PathAttribute {
	pa := &packet.PathAttribute{Transitive: true}
	switch a.kind {
	case "lp":
		pa.TypeCode, pa.Value = packet.LocalPrefAttr, a.v
	case "med":
		pa.TypeCode, pa.Value = packet.MEDAttr, a.v
	case "nh":
		pa.TypeCode, pa.Value = packet.NextHopAttr, nextHop(1, a.v)
	case "as":
		pa.TypeCode, pa.Value = packet.ASPathAttr, mkASPath(a.l)
	case "or":
		pa.TypeCode, pa.Value = packet.OriginatorIDAttr, a.v
	case "cl":
		cl := types.ClusterList(append([]uint32{}, a.l...))
		pa.TypeCode, pa.Value = packet.ClusterListAttr, &cl
	case "R":
		pa.TypeCode = packet.MultiProtocolReachNLRIAttr
		pa.Value = packet.MultiProtocolReachNLRI{AFI: a.afi, SAFI: a.safi, NextHop: nextHop(a.afi, a.nh), NLRI: mkNLRI(a.afi, a.nlri)}
	case "X":
		pa.TypeCode = packet.MultiProtocolUnreachNLRIAttr
		pa.Value = packet.MultiProtocolUnreachNLRI{AFI: a.afi, SAFI: a.safi, NLRI: mkNLRI(a.afi, a.nlri)}
	case "ig":
		switch a.v % 3 {
		case 0:
			pa.TypeCode, pa.Value = packet.OriginAttr, uint8(0)
		case 1:
			pa.TypeCode, pa.Value = packet.CommunitiesAttr, &types.Communities{4242}
		default:
			pa.TypeCode, pa.Value = 99, []byte{1, 2}
		}
	case "sk":
		if a.v%2 == 0 {
			pa.TypeCode = packet.AtomicAggrAttr
		} else {
			pa.TypeCode, pa.Transitive, pa.Value = 98, false, "not even bytes"
		}
	}
	if a.bad {
		pa.Value = "a value of the wrong type"
		if a.kind == "ig" {
			pa.TypeCode = packet.OriginAttr
		}
	}
	return pa
}

func mkUpdate(m msg) *packet.BGPUpdate {
	u := &packet.BGPUpdate{WithdrawnRoutes: mkNLRI(1, m.w), NLRI: mkNLRI(1, m.n)}
	if len(m.w) > 0 {
		u.WithdrawnRoutesLen = uint16(4 * len(m.w))
	}
	var last *packet.PathAttribute
	for _, a := range m.attrs {
		pa := mkAttr(a)
		if last == nil {
			u.PathAttributes = pa
		} else {
			last.Next = pa
		}
		last = pa
	}
	return u
}

func pathStr(p *route.Path) string {
	if p == nil || p.BGPPath == nil || p.BGPPath.BGPPathA == nil {
		return "nil"
	}
	b := p.BGPPath
	var asp, cl []uint32
	if b.ASPath != nil {
		for _, seg := range *b.ASPath {
			asp = append(asp, seg.ASNs...)
		}
	}
	if b.ClusterList != nil {
		cl = append(cl, *b.ClusterList...)
	}
	nh := uint32(0)
	if b.BGPPathA.NextHop != nil {
		bs := b.BGPPathA.NextHop.Bytes()
		nh = uint32(bs[len(bs)-1])
	}
	return fmt.Sprintf("%d.%d.%d.%d.%s.%d.%s.%d.%d", b.PathIdentifier, b.BGPPathA.LocalPref, b.BGPPathA.MED, nh, fmtList(asp),
		b.BGPPathA.OriginatorID, fmtList(cl), b.BGPPathA.OnlyToCustomer, p.HiddenReason)
}

func dumpStr(routes []*route.Route) string {
	var l []string
	for _, r := range routes {
		for _, p := range r.Paths() {
			l = append(l, fmt.Sprintf("%d/%s", pfxIndex(r.Prefix()), pathStr(p)))
		}
	}
	if len(l) == 0 {
		return "-"
	}
	sort.Strings(l)
	return strings.Join(l, ",")
}

// ---------------------------------------------------------------- spec oracle (the property text on the implementation)

type want struct {
	pfx                 int
	id                  uint32
	lp, med, nh, or     uint32
	asp, cl             []uint32
}

func lastAttrs(m msg) (w want, reach, unreach *attr) {
	for i := range m.attrs {
		a := &m.attrs[i]
		switch a.kind {
		case "lp":
			w.lp = a.v
		case "med":
			w.med = a.v
		case "nh":
			w.nh = a.v
		case "or":
			w.or = a.v
		case "as":
			w.asp = a.l
		case "cl":
			w.cl = a.l
		case "R":
			reach = a
		case "X":
			unreach = a
		}
	}
	return
}

type slot struct {
	pfx int
	id  uint32
}

func key(f fam, pfx int, id uint32) slot {
	if f.addPath {
		return slot{pfx, id}
	}
	return slot{pfx, 0}
}

// applyExpected updates the expected Adj-RIB-In content: NLRI by NLRI, each with its own path identifier
func applyExpected(f fam, exp map[slot]want, m msg) {
	base, reach, unreach := lastAttrs(m)
	ann := func(x nl, w want) {
		w.pfx, w.id = x.pfx, x.id
		exp[key(f, x.pfx, x.id)] = w
	}
	if reach != nil && reach.afi == f.afi && reach.safi == packet.SAFIUnicast {
		w := base
		w.nh = reach.nh
		for _, x := range reach.nlri {
			ann(x, w)
		}
	}
	if unreach != nil && unreach.afi == f.afi && unreach.safi == packet.SAFIUnicast {
		for _, x := range unreach.nlri {
			delete(exp, key(f, x.pfx, x.id))
		}
	}
	if f.afi == 1 {
		for _, x := range m.w {
			delete(exp, key(f, x.pfx, x.id))
		}
		for _, x := range m.n {
			ann(x, base)
		}
	}
}

func eqList(a, b []uint32) bool { return fmtList(a) == fmtList(b) }

func checkExpected(f fam, exp map[slot]want, routes []*route.Route) (sig, detail string) {
	seen := map[slot]int{}
	for _, r := range routes {
		for _, p := range r.Paths() {
			i := pfxIndex(r.Prefix())
			id := p.BGPPath.PathIdentifier
			k := key(f, i, id)
			seen[k]++
			w, ok := exp[k]
			if !ok {
				return "adj-rib-in-has-path-no-nlri-announced", fmt.Sprintf("prefix %d path %s", i, pathStr(p))
			}
			if id != w.id {
				return "adj-rib-in-path-has-another-nlris-identifier", fmt.Sprintf("prefix %d stored id %d, announced with id %d", i, id, w.id)
			}
			b := p.BGPPath
			var asp, cl []uint32
			if b.ASPath != nil {
				for _, seg := range *b.ASPath {
					asp = append(asp, seg.ASNs...)
				}
			}
			if b.ClusterList != nil {
				cl = *b.ClusterList
			}
			nh := uint32(0)
			if b.BGPPathA.NextHop != nil {
				bs := b.BGPPathA.NextHop.Bytes()
				nh = uint32(bs[len(bs)-1])
			}
			lpOK := b.BGPPathA.LocalPref == w.lp || (w.lp == 0 && !f.ibgp && b.BGPPathA.LocalPref == 100)
			if !lpOK || b.BGPPathA.MED != w.med || nh != w.nh || b.BGPPathA.OriginatorID != w.or || !eqList(asp, w.asp) || !eqList(cl, w.cl) {
				return "adj-rib-in-path-does-not-carry-the-messages-attributes", fmt.Sprintf("prefix %d id %d stored %s, message had lp=%d med=%d nh=%d as=%s or=%d cl=%s",
					i, id, pathStr(p), w.lp, w.med, w.nh, fmtList(w.asp), w.or, fmtList(w.cl))
			}
		}
	}
	for k, n := range seen {
		if n > 1 {
			return "adj-rib-in-more-than-one-path-per-nlri", fmt.Sprintf("prefix %d id %d: %d paths", k.pfx, k.id, n)
		}
	}
	for k, w := range exp {
		if seen[k] == 0 {
			return "adj-rib-in-misses-announced-nlri", fmt.Sprintf("prefix %d id %d", w.pfx, w.id)
		}
	}
	return "", ""
}

func wellTyped(m msg) bool {
	for _, a := range m.attrs {
		if a.bad {
			return false
		}
	}
	return true
}

// ---------------------------------------------------------------- running a case

func runCase(f fam, ms []msg) (obs string, sig, detail string, nt bool) {
	peerASN := uint32(65001)
	if f.ibgp {
		peerASN = localASN
	}
	rib := locRIB.New("c20")
	fa := server.VerifC20NewFamily(server.VerifC20Config{
		AFI: f.afi, AddPathRX: f.addPath, LocalASN: localASN, PeerASN: peerASN, RouterID: 9,
		PeerIP: bnet.IPv4FromOctets(192, 0, 2, 1).Ptr(), LocalIP: bnet.IPv4FromOctets(192, 0, 2, 2).Ptr(),
		VRF: vrf.NewUntrackedVRF("verif", 0), RIB: rib, Import: filter.NewAcceptAllFilterChain(),
	})
	exp := map[slot]want{}
	var out []string
	for i, m := range ms {
		// non-trivial: several NLRI with different identifiers in one field of one message
		for _, l := range [][]nl{m.w, m.n} {
			if distinctIDs(l) {
				nt = true
			}
		}
		for _, a := range m.attrs {
			if (a.kind == "R" || a.kind == "X") && !a.bad && distinctIDs(a.nlri) {
				nt = true
			}
		}
		u := mkUpdate(m)
		panicked, val := hx.Guard(func() { fa.VerifC20ProcessUpdate(u, 0) })
		if panicked {
			out = append(out, "PANIC")
			if wellTyped(m) && sig == "" {
				sig, detail = "panic-processing-well-formed-update", fmt.Sprintf("message %d (%s): %v", i, m, val)
			}
			break
		}
		if !wellTyped(m) {
			// Go did not panic although a value has the wrong type: the model will say Panic, let the correspondence decide
			out = append(out, "T="+dumpStr(fa.VerifC20DumpRIBIn())+"|C="+dumpStr(rib.Dump()))
			continue
		}
		out = append(out, "T="+dumpStr(fa.VerifC20DumpRIBIn())+"|C="+dumpStr(rib.Dump()))
		applyExpected(f, exp, m)
		if sig == "" {
			if s, d := checkExpected(f, exp, fa.VerifC20DumpRIBIn()); s != "" {
				sig, detail = s, fmt.Sprintf("after message %d (%s): %s", i, m, d)
			}
		}
	}
	return strings.Join(out, " "), sig, detail, nt
}

func distinctIDs(l []nl) bool {
	for i := range l {
		for j := i + 1; j < len(l); j++ {
			if l[i].id != l[j].id {
				return true
			}
		}
	}
	return false
}

// ---------------------------------------------------------------- generator

func genNL(r *hx.RNG, f fam, max int) []nl {
	n := r.Intn(max + 1)
	var l []nl
	for i := 0; i < n; i++ {
		x := nl{pfx: r.Intn(nPfx)}
		if f.addPath {
			x.id = uint32(r.Pick([]int{0, 1, 7, 9}))
		} else if r.Chance(15) {
			x.id = uint32(r.Pick([]int{1, 7}))
		}
		l = append(l, x)
	}
	return l
}

func gen(r *hx.RNG, t *hx.Trace) (fam, []msg) {
	f := fam{afi: uint16(1 + r.Intn(2)), addPath: r.Chance(65), ibgp: r.Bool()}
	t.Count(fmt.Sprintf("fam_afi%d_addpath%d", f.afi, b2i(f.addPath)))
	nm := 1 + r.Intn(4)
	var ms []msg
	for i := 0; i < nm; i++ {
		var m msg
		classic := r.Chance(60)
		if classic {
			m.w = genNL(r, f, 3)
			m.n = genNL(r, f, 5)
		}
		// attributes
		if len(m.n) > 0 || r.Chance(70) {
			m.attrs = append(m.attrs, attr{kind: "ig", v: 0})
			if f.ibgp {
				if r.Chance(70) {
					m.attrs = append(m.attrs, attr{kind: "as", l: [][]uint32{nil, {65002}, {65002, 65003}, {65004, 65002, 65005}}[r.Intn(4)]})
				}
				m.attrs = append(m.attrs, attr{kind: "lp", v: uint32(r.Pick([]int{0, 100, 150}))})
			} else {
				if r.Chance(92) {
					m.attrs = append(m.attrs, attr{kind: "as", l: [][]uint32{{65001}, {65001, 65002}, {65001, 65000}, {65001, 65002, 65003}}[r.Intn(4)]})
				}
				if r.Chance(20) {
					m.attrs = append(m.attrs, attr{kind: "lp", v: 150})
				}
			}
			if len(m.n) > 0 || r.Chance(50) {
				m.attrs = append(m.attrs, attr{kind: "nh", v: uint32(1 + r.Intn(2))})
			}
			if r.Chance(40) {
				m.attrs = append(m.attrs, attr{kind: "med", v: uint32(r.Pick([]int{0, 5}))})
			}
			if r.Chance(15) {
				m.attrs = append(m.attrs, attr{kind: "or", v: uint32(r.Pick([]int{5, 9}))})
			}
			if r.Chance(15) {
				m.attrs = append(m.attrs, attr{kind: "cl", l: [][]uint32{{1}, {2, 1}}[r.Intn(2)]})
			}
			if r.Chance(20) {
				m.attrs = append(m.attrs, attr{kind: "ig", v: uint32(1 + r.Intn(2))})
			}
			if r.Chance(15) {
				m.attrs = append(m.attrs, attr{kind: "sk", v: uint32(r.Intn(2))})
			}
			if r.Chance(5) { // a duplicated attribute: the last one wins
				m.attrs = append(m.attrs, attr{kind: "med", v: 7})
			}
		}
		mpAFI := func() uint16 {
			if r.Chance(85) {
				return f.afi
			}
			return 3 - f.afi
		}
		safi := func() uint8 {
			if r.Chance(92) {
				return 1
			}
			return 128
		}
		if r.Chance(55) {
			a := attr{kind: "R", afi: mpAFI(), safi: safi(), nh: uint32(3 + r.Intn(2)), nlri: genNL(r, f, 5)}
			if r.Chance(8) {
				a.nlri = nil // MP_REACH_NLRI without NLRI
				t.Count("mp_reach_without_nlri")
			}
			m.attrs = append(m.attrs, a)
		}
		if r.Chance(40) {
			m.attrs = append(m.attrs, attr{kind: "X", afi: mpAFI(), safi: safi(), nlri: genNL(r, f, 4)})
		}
		if r.Chance(3) && len(m.attrs) > 0 { // malformed stream: a value of the wrong Go type
			k := r.Intn(len(m.attrs))
			if m.attrs[k].kind != "sk" {
				m.attrs[k].bad = true
				t.Count("ill_typed_attribute")
			}
		}
		// shuffle the attribute order a little: MP attributes may come first
		if len(m.attrs) > 1 && r.Chance(30) {
			k := r.Intn(len(m.attrs))
			m.attrs[0], m.attrs[k] = m.attrs[k], m.attrs[0]
		}
		t.Count(fmt.Sprintf("nlri_per_msg_%d", len(m.w)+len(m.n)))
		ms = append(ms, m)
	}
	t.Count(fmt.Sprintf("msgs_%d", nm))
	return f, ms
}

func main() {
	cfg := hx.Parse()
	tr := hx.NewTrace(cfg.Out)
	nviol := 0
	do := func(id string, f fam, ms []msg) {
		obs, sig, detail, nt := runCase(f, ms)
		tr.Case(id, nt, fmtCase(f, ms), obs)
		if sig != "" {
			hx.Violation(id, sig, detail)
			nviol++
		}
	}
	if cfg.Mode == "replay" {
		for _, c := range hx.InputsFrom(cfg.Replay) {
			f, ms, err := parseCase(c[1])
			if err != nil {
				fmt.Println("HARNESS-ERROR bad replay input:", err)
				os.Exit(2)
			}
			do(c[0], f, ms)
		}
	} else {
		for _, c := range hx.InputsFrom(hx.CorpusFiles(cfg.Corpus)...) {
			if f, ms, err := parseCase(c[1]); err == nil {
				do("corpus-"+c[0], f, ms)
				tr.Count("corpus")
			} else {
				fmt.Println("HARNESS-ERROR bad corpus case", c[0], err)
			}
		}
		rng := hx.NewRNG(cfg.Seed)
		for i := 0; i < cfg.N; i++ {
			f, ms := gen(rng.Fork(uint64(i)), tr)
			do(fmt.Sprintf("g%d", i), f, ms)
		}
	}
	tr.Close(cfg.Stats, map[string]interface{}{"spec_violations": nviol, "prefixes": nPfx})
}
