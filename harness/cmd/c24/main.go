// C24 harness: two FSMs of one BGP peer (outgoing + accepted connection) stepped through the real
// protocols/bgp/server code by the single-threaded scheduler of verif_hooks_c24.go.
//
// Input tokens:   cfg=<routerID>/<localAS>/<peerAS>  then steps
//
//	U  A  O<i>:<bgp identifier in the OPEN>  P<i>  K<i>  T<i>  H<i>        (i = 0 outgoing FSM, 1 accepted)
//
// Observation:    one token for the start state, one per step, one "probe=" token
//
//	<fsm0>|<fsm1>|r<clients of the Loc-RIB>|<enabled steps joined by .>
//	fsm = "-" (no such FSM) or <published state><+ alive / x ended><pending state or -><a|n attached><c|o connection closed>
//	      <w|. blocked in cease()><h|. a Cease event is in flight to it><z|. inside its Cease handler>#<neighbor id>:<messages written>
//	"!" for a step that is not enabled.
//
// Spec oracle (the property's statement evaluated on these observables, with an RFC 4271 6.8 / RFC 6286 reference
// machine that processes every received message atomically): see oracle().
package main

import (
	"fmt"
	"os"
	"sort"
	"strconv"
	"strings"
	"time"

	bnet "github.com/bio-routing/bio-rd/net"
	"github.com/bio-routing/bio-rd/protocols/bgp/server"
	"github.com/bio-routing/bio-rd/routingtable/filter"
	"github.com/bio-routing/bio-rd/routingtable/vrf"

	"verifharness/hx"
)

type step struct {
	kind byte // U A O P K T H
	i    int
	id   uint32
}

type tcase struct {
	rid, las, pas uint32
	steps         []step
}

func (s step) String() string {
	switch s.kind {
	case 'U', 'A':
		return string(s.kind)
	case 'O':
		return fmt.Sprintf("O%d:%d", s.i, s.id)
	}
	return fmt.Sprintf("%c%d", s.kind, s.i)
}

func (s step) label() string {
	if s.kind == 'U' || s.kind == 'A' {
		return string(s.kind)
	}
	return fmt.Sprintf("%c%d", s.kind, s.i)
}

func (c tcase) String() string {
	parts := []string{fmt.Sprintf("cfg=%d/%d/%d", c.rid, c.las, c.pas)}
	for _, s := range c.steps {
		parts = append(parts, s.String())
	}
	return strings.Join(parts, " ")
}

func parseCase(in string) (tcase, error) {
	var c tcase
	f := strings.Fields(in)
	if len(f) == 0 || !strings.HasPrefix(f[0], "cfg=") {
		return c, fmt.Errorf("missing cfg token")
	}
	p := strings.Split(f[0][4:], "/")
	if len(p) != 3 {
		return c, fmt.Errorf("bad cfg token %q", f[0])
	}
	var v [3]uint32
	for k := range p {
		x, err := strconv.ParseUint(p[k], 10, 32)
		if err != nil {
			return c, err
		}
		v[k] = uint32(x)
	}
	c.rid, c.las, c.pas = v[0], v[1], v[2]
	for _, t := range f[1:] {
		s := step{kind: t[0]}
		switch s.kind {
		case 'U', 'A':
			if len(t) != 1 {
				return c, fmt.Errorf("bad step %q", t)
			}
		case 'O':
			q := strings.SplitN(t[1:], ":", 2)
			if len(q) != 2 {
				return c, fmt.Errorf("bad step %q", t)
			}
			i, err := strconv.Atoi(q[0])
			if err != nil || i < 0 || i > 1 {
				return c, fmt.Errorf("bad step %q", t)
			}
			id, err := strconv.ParseUint(q[1], 10, 32)
			if err != nil || id == 0 {
				return c, fmt.Errorf("bad step %q", t)
			}
			s.i, s.id = i, uint32(id)
		case 'P', 'K', 'T', 'H':
			i, err := strconv.Atoi(t[1:])
			if err != nil || i < 0 || i > 1 {
				return c, fmt.Errorf("bad step %q", t)
			}
			s.i = i
		default:
			return c, fmt.Errorf("bad step %q", t)
		}
		c.steps = append(c.steps, s)
	}
	return c, nil
}

// ---- wire messages, built by hand (RFC 4271 4.1-4.5)

func header(l int, typ byte) []byte {
	b := make([]byte, 19, l)
	for i := 0; i < 16; i++ {
		b[i] = 0xff
	}
	b[16], b[17], b[18] = byte(l>>8), byte(l), typ
	return b
}

func openFrame(asn uint32, id uint32) []byte {
	b := header(29, 1)
	return append(b, 4, byte(asn>>8), byte(asn), 0, 90, byte(id>>24), byte(id>>16), byte(id>>8), byte(id), 0)
}

func keepaliveFrame() []byte { return header(19, 4) }

// updateFrame announces 10.<k>.0.0/16 (2-octet AS numbers: no capability is negotiated by openFrame)
func updateFrame(k int, ibgp bool, pas uint32) []byte {
	var attrs []byte
	attrs = append(attrs, 0x40, 1, 1, 0) // ORIGIN IGP
	if ibgp {
		attrs = append(attrs, 0x40, 2, 0)               // empty AS_PATH
		attrs = append(attrs, 0x40, 5, 4, 0, 0, 0, 100) // LOCAL_PREF
	} else {
		attrs = append(attrs, 0x40, 2, 4, 2, 1, byte(pas>>8), byte(pas))
	}
	attrs = append(attrs, 0x40, 3, 4, 192, 0, 2, 2) // NEXT_HOP
	nlri := []byte{16, 10, byte(k)}
	l := 19 + 2 + 2 + len(attrs) + len(nlri)
	b := header(l, 2)
	b = append(b, 0, 0, byte(len(attrs)>>8), byte(len(attrs)))
	b = append(b, attrs...)
	return append(b, nlri...)
}

func msgName(m []byte) string {
	if len(m) < 19 {
		return "?"
	}
	switch m[18] {
	case 1:
		return "O"
	case 2:
		return "U"
	case 3:
		if len(m) >= 21 {
			return fmt.Sprintf("N%d/%d", m[19], m[20])
		}
		return "N?"
	case 4:
		return "K"
	}
	return "?"
}

// wireNames: the messages written on a connection, without UPDATEs (an attached session's update sender
// goroutine writes its End-of-RIB marker whenever it gets to it; UPDATEs are not the subject here)
func wireNames(msgs [][]byte) []string {
	var ms []string
	for _, m := range msgs {
		if n := msgName(m); n != "U" {
			ms = append(ms, n)
		}
	}
	return ms
}

var letter = map[string]string{
	"idle": "I", "connect": "C", "active": "A", "openSent": "S", "openConfirm": "F", "established": "E", "cease": "Z", "": "-",
}

func flag(b bool, y, n string) string {
	if b {
		return y
	}
	return n
}

func fsmToken(o server.VerifC24FSMObs) string {
	if !o.Present {
		return "-"
	}
	ms := wireNames(o.Messages)
	w := "-"
	if len(ms) > 0 {
		w = strings.Join(ms, ".")
	}
	return letter[o.Published] + flag(o.Alive, "+", "x") + letter[o.Pending] + flag(o.Attached, "a", "n") +
		flag(o.Closed, "c", "o") + flag(o.Waiting, "w", ".") + flag(o.HeldCease, "h", ".") + flag(o.Ceasing, "z", ".") +
		fmt.Sprintf("#%d:%s", o.NeighborID, w)
}

// ---- reference machine: RFC 4271 6.8 with RFC 6286, every received message processed atomically

const (
	rNone = iota
	rOpenSent
	rOpenConfirm
	rEstablished
	rClosedCease // closed by collision resolution: Cease NOTIFICATION sent, connection closed
	rRejected    // OPEN rejected (Bad BGP Identifier)
)

type ref struct{ st [2]int }

func (r *ref) step(c tcase, s step) {
	switch s.kind {
	case 'U':
		if r.st[0] == rNone {
			r.st[0] = rOpenSent
		}
	case 'A':
		if r.st[1] == rNone {
			r.st[1] = rOpenSent
		}
	case 'O':
		i, j := s.i, 1-s.i
		if r.st[i] != rOpenSent {
			return
		}
		if c.las == c.pas && c.rid == s.id {
			r.st[i] = rRejected
			return
		}
		switch r.st[j] {
		case rEstablished:
			// "a connection collision with an existing BGP connection that is in the Established state causes
			// closing of the newly created connection"
			r.st[i] = rClosedCease
		case rOpenConfirm:
			// local identifier (then AS number) less than the remote one: close the existing connection,
			// otherwise close the newly created one
			localLess := c.rid < s.id || (c.rid == s.id && c.las < c.pas)
			if localLess {
				r.st[j] = rClosedCease
				r.st[i] = rOpenConfirm
			} else {
				r.st[i] = rClosedCease
			}
		default:
			r.st[i] = rOpenConfirm
		}
	case 'K':
		if r.st[s.i] == rOpenConfirm {
			r.st[s.i] = rEstablished
		}
	}
}

// ---- running a case

type result struct {
	obs     []string
	sig     string
	detail  string
	nt      bool
	slow    bool
	enabled []string // after the last step
}

func runCase(c tcase, choose func(enabled []string, n int) (step, bool)) (res result, full tcase) {
	if choose == nil {
		return runCaseObs(c, nil)
	}
	return runCaseObs(c, func(en []string, n int, _ [2]server.VerifC24FSMObs) (step, bool) { return choose(en, n) })
}

func runCaseObs(c tcase, choose func(enabled []string, n int, o [2]server.VerifC24FSMObs) (step, bool)) (res result, full tcase) {
	v := vrf.NewUntrackedVRF("verif", 0)
	rib4, _ := v.CreateIPv4UnicastLocRIB("inet.0")
	pc := server.PeerConfig{
		AdminEnabled: true,
		HoldTime:     90 * time.Second,
		KeepAlive:    30 * time.Second,
		LocalAddress: bnet.IPv4FromOctets(192, 0, 2, 1).Ptr(),
		PeerAddress:  bnet.IPv4FromOctets(192, 0, 2, 2).Ptr(),
		LocalAS:      c.las,
		PeerAS:       c.pas,
		RouterID:     c.rid,
		VRF:          v,
		IPv4: &server.AddressFamilyConfig{
			ImportFilterChain: filter.NewAcceptAllFilterChain(),
			ExportFilterChain: filter.NewAcceptAllFilterChain(),
		},
	}
	sys, err := server.VerifC24New(pc)
	if err != nil {
		panic(fmt.Sprintf("harness: newPeer failed: %v", err))
	}
	defer sys.Dispose()

	var r ref
	r.st[0] = rNone
	everE := [2]bool{}
	window, ceaseRace := false, false
	opens := 0

	observe := func() (tok string, o [2]server.VerifC24FSMObs, clients uint64, en []string) {
		o[0], o[1] = sys.Observe(0), sys.Observe(1)
		clients = rib4.ClientCount()
		en = sys.Enabled()
		e := "-"
		if len(en) > 0 {
			e = strings.Join(en, ".")
		}
		return fmt.Sprintf("%s|%s|r%d|%s", fsmToken(o[0]), fsmToken(o[1]), clients, e), o, clients, en
	}
	severity := map[string]int{"two-established-at-once": 6, "both-established-in-turn": 5, "survivor-not-rfc-choice": 4,
		"survivor-closed": 3, "loser-not-closed-with-cease": 2, "wedged-in-cease": 1}
	worst := 0
	report := func(clause, detail string) {
		if severity[clause] <= worst {
			return
		}
		worst = severity[clause]
		class := "serialised"
		if window {
			class = "check-before-publication"
		} else if ceaseRace {
			class = "keepalive-before-cease"
		}
		res.sig = clause + "@" + class
		res.detail = detail
	}
	established := func(o server.VerifC24FSMObs) bool {
		return o.Present && ((o.Alive && o.Published == "established") || o.Attached)
	}
	oracle := func(at string, o [2]server.VerifC24FSMObs, clients uint64, en []string) {
		e := [2]bool{established(o[0]), established(o[1])}
		// "at most one of them is ever Established and contributes routes"
		if (e[0] && e[1]) || clients > 1 {
			report("two-established-at-once", fmt.Sprintf("%s: both connections are Established/attached (Loc-RIB clients %d)", at, clients))
		}
		for i := 0; i < 2; i++ {
			everE[i] = everE[i] || e[i]
		}
		if everE[0] && everE[1] {
			report("both-established-in-turn", fmt.Sprintf("%s: both connections have been Established", at))
		}
		for i := 0; i < 2; i++ {
			// "the surviving connection is chosen by comparing BGP identifiers (and AS numbers ...)"
			if e[i] && r.st[i] != rEstablished {
				report("survivor-not-rfc-choice", fmt.Sprintf("%s: connection %d is Established, RFC 4271 6.8 has it in state %d", at, i, r.st[i]))
			}
			// "and the other is closed with a Cease NOTIFICATION" (once the event that says so has been handled)
			if r.st[i] == rClosedCease && o[i].Present && !o[i].HeldCease && !o[i].Ceasing {
				last := ""
				if ms := wireNames(o[i].Messages); len(ms) > 0 {
					last = ms[len(ms)-1]
				}
				if !o[i].Closed || !strings.HasPrefix(last, "N6/") || o[i].Alive || e[i] {
					report("loser-not-closed-with-cease", fmt.Sprintf("%s: connection %d lost the collision: closed=%v last message %q alive=%v", at, i, o[i].Closed, last, o[i].Alive))
				}
			}
			if r.st[i] == rEstablished && o[i].Present && !o[i].Alive {
				report("survivor-closed", fmt.Sprintf("%s: connection %d is the one RFC 4271 6.8 keeps, but its FSM ended", at, i))
			}
		}
		if len(en) == 0 && (o[0].Waiting || o[1].Waiting || o[0].HeldCease || o[1].HeldCease) {
			report("wedged-in-cease", at+": an FSM is blocked in cease() and nothing can happen any more")
		}
	}

	tok, o, clients, en := observe()
	res.obs = append(res.obs, tok)
	oracle("start", o, clients, en)
	for k := 0; ; k++ {
		var s step
		if k < len(c.steps) {
			s = c.steps[k]
		} else if choose != nil {
			var more bool
			if s, more = choose(en, k, o); !more {
				break
			}
			c.steps = append(c.steps, s)
		} else {
			break
		}
		// schedule class of the step about to be taken
		switch s.kind {
		case 'O':
			if oo := o[1-s.i]; oo.Present && oo.Alive && oo.Pending != "" {
				window = true
			}
		case 'K':
			if o[s.i].HeldCease {
				ceaseRace = true
			}
		}
		ok := false
		switch s.kind {
		case 'U':
			ok = sys.Up()
		case 'A':
			ok = sys.Accept()
		case 'O':
			ok = sys.OpenReceived(s.i, openFrame(c.pas, s.id))
		case 'P':
			ok = sys.Publish(s.i)
		case 'K':
			ok = sys.KeepaliveReceived(s.i, keepaliveFrame())
		case 'T':
			ok = sys.CeaseTake(s.i)
		case 'H':
			ok = sys.CeaseHandle(s.i)
		}
		if !ok {
			res.obs = append(res.obs, "!")
			continue
		}
		if s.kind == 'O' {
			opens++
		}
		r.step(c, s)
		tok, o, clients, en = observe()
		res.obs = append(res.obs, tok)
		oracle(fmt.Sprintf("after step %d (%s)", k, s), o, clients, en)
	}
	res.enabled = en
	res.nt = opens >= 2

	// probe: every session that sits in Established gets an UPDATE for its own prefix; which of them are in the Loc-RIB?
	var got []string
	for i := 0; i < 2; i++ {
		sys.Probe(i, updateFrame(i+1, c.las == c.pas, c.pas))
	}
	for i := 0; i < 2; i++ {
		pfx := bnet.NewPfx(bnet.IPv4FromOctets(10, byte(i+1), 0, 0), 16).Ptr()
		if rt := rib4.Get(pfx); rt != nil && len(rt.Paths()) > 0 {
			got = append(got, strconv.Itoa(i))
		}
	}
	sort.Strings(got)
	if len(got) > 1 {
		report("two-established-at-once", "routes of both connections are in the Loc-RIB")
	}
	g := "-"
	if len(got) > 0 {
		g = strings.Join(got, ".")
	}
	res.obs = append(res.obs, "probe="+g)

	if sys.Trouble != "" {
		if sys.Elapsed() > 600*time.Millisecond {
			res.slow = true
		}
		if res.sig == "" || strings.HasPrefix(sys.Trouble, "panic") || strings.HasPrefix(sys.Trouble, "wedged") {
			res.sig, res.detail = "scheduler-trouble", sys.Trouble
			if strings.HasPrefix(sys.Trouble, "panic") {
				res.sig = "panic"
			}
		}
	}
	if sys.Elapsed() > 600*time.Millisecond {
		// a select of the code under test polls its hold timer after one second: the case must be repeated
		res.slow = true
	}
	return res, c
}

// wedges counts cases in which the watchdog of the scheduler fired (10 s each): after a few of them the run stops
// generating cases - the verdict is clear and a run must stay within its time budget.
var wedges int

// stopEnum ends the exhaustive enumeration once the case budget is used up
var stopEnum bool

func giveUp() bool { return wedges >= 3 || stopEnum }

func runStable(c tcase) result {
	var r result
	for try := 0; try < 5; try++ {
		r, _ = runCase(c, nil)
		if r.sig == "scheduler-trouble" && strings.HasPrefix(r.detail, "wedged") {
			wedges++
			return r
		}
		if !r.slow {
			return r
		}
	}
	return r
}

// ---- generation

type idClass struct {
	name          string
	rid, las, pas uint32
	id0, id1      uint32
}

// identifier orderings: local < remote, local > remote, equal identifiers with both AS orderings, iBGP,
// iBGP with the peer announcing OUR identifier (OPEN rejected), different identifiers on the two connections
func classes(r *hx.RNG) []idClass {
	big := func() uint32 { return uint32(2 + r.Intn(1<<30)) }
	as := func() uint32 { return uint32(1 + r.Intn(65000)) }
	var out []idClass
	a, b := big(), big()
	if a == b {
		b++
	}
	lo, hi := a, b
	if lo > hi {
		lo, hi = hi, lo
	}
	x, y := as(), as()
	if x == y {
		y++
	}
	asLo, asHi := x, y
	if asLo > asHi {
		asLo, asHi = asHi, asLo
	}
	out = append(out,
		idClass{"lt", lo, x, y, hi, hi},
		idClass{"gt", hi, x, y, lo, lo},
		idClass{"eq-aslt", a, asLo, asHi, a, a},
		idClass{"eq-asgt", a, asHi, asLo, a, a},
		idClass{"ibgp-lt", lo, x, x, hi, hi},
		idClass{"ibgp-gt", hi, x, x, lo, lo},
		idClass{"ibgp-sameid", a, x, x, a, a},
		idClass{"mixed-0lt-1gt", lo + 1, x, y, hi + 1, lo},
		idClass{"mixed-0gt-1lt", lo + 1, x, y, lo, hi + 1},
		idClass{"adjacent-lt", lo, y, x, lo + 1, lo + 1},
		idClass{"adjacent-gt", lo + 1, y, x, lo, lo},
	)
	return out
}

func (k idClass) stepOf(l string) step {
	s := step{kind: l[0]}
	if len(l) > 1 {
		s.i = int(l[1] - '0')
	}
	if s.kind == 'O' {
		s.id = k.id0
		if s.i == 1 {
			s.id = k.id1
		}
	}
	return s
}

// explore enumerates every sequence of enabled steps (enabledness as the implementation reports it) up to
// maxLen steps with at most maxK KEEPALIVEs per connection; each maximal sequence is one case.
func explore(k idClass, maxLen, maxK int, emit func(tcase, result)) {
	var rec func(prefix []step)
	rec = func(prefix []step) {
		if giveUp() {
			return
		}
		c := tcase{rid: k.rid, las: k.las, pas: k.pas, steps: prefix}
		r := runStable(c)
		var next []string
		if len(prefix) < maxLen {
			for _, l := range r.enabled {
				if l[0] == 'K' {
					n := 0
					for _, s := range prefix {
						if s.kind == 'K' && s.i == int(l[1]-'0') {
							n++
						}
					}
					if n >= maxK {
						continue
					}
				}
				next = append(next, l)
			}
		}
		if len(next) == 0 {
			emit(c, r)
			return
		}
		for _, l := range next {
			rec(append(append([]step(nil), prefix...), k.stepOf(l)))
		}
	}
	rec(nil)
}

// randomCase: a random walk over enabled steps (longer than the exhaustive bound). serial = only steps that keep
// the schedule in the serialised class (an OPEN only when the other FSM has nothing unpublished, no KEEPALIVE for
// an FSM a Cease is in flight to), where the full statement is checked.
func randomCase(r *hx.RNG, k idClass, n int, serial bool) tcase {
	c := tcase{rid: k.rid, las: k.las, pas: k.pas}
	_, full := runCaseObs(c, func(enabled []string, at int, o [2]server.VerifC24FSMObs) (step, bool) {
		if at >= n || giveUp() {
			return step{}, false
		}
		var ok []string
		for _, l := range enabled {
			if serial && l[0] == 'O' {
				if oo := o[1-int(l[1]-'0')]; oo.Present && oo.Alive && oo.Pending != "" {
					continue
				}
			}
			if serial && l[0] == 'K' && o[int(l[1]-'0')].HeldCease {
				continue
			}
			ok = append(ok, l)
		}
		if len(ok) == 0 {
			return step{}, false
		}
		return k.stepOf(ok[r.Intn(len(ok))]), true
	})
	return full
}

func main() {
	cfg := hx.Parse()
	tr := hx.NewTrace(cfg.Out)
	nviol := 0
	seen := map[string]bool{}
	emit := func(id string, c tcase, r result) {
		in := c.String()
		if seen[in] {
			return
		}
		seen[in] = true
		obs := strings.Join(r.obs, " ")
		tr.Case(id, r.nt, in, obs)
		tr.Count(fmt.Sprintf("len_%02d", len(c.steps)))
		if r.sig != "" {
			nviol++
			tr.Count("sig_" + r.sig)
			if tr.Dist["sig_"+r.sig] <= 20 { // enough to identify the signature; the count is in the stats
				hx.Violation(id, r.sig, r.detail+" | "+in)
			}
		}
	}
	do := func(id string, c tcase) {
		var r result
		panicked, val := hx.Guard(func() { r = runStable(c) })
		if panicked {
			r = result{obs: []string{"PANIC"}, sig: "panic", detail: fmt.Sprint(val)}
		}
		emit(id, c, r)
	}
	if cfg.Mode == "replay" {
		for _, c := range hx.InputsFrom(cfg.Replay) {
			tc, err := parseCase(c[1])
			if err != nil {
				fmt.Println("HARNESS-ERROR bad replay input:", err)
				os.Exit(2)
			}
			do(c[0], tc)
		}
		tr.Close(cfg.Stats, map[string]interface{}{"spec_violations": nviol})
		return
	}
	for _, c := range hx.InputsFrom(hx.CorpusFiles(cfg.Corpus)...) {
		if tc, err := parseCase(c[1]); err == nil {
			do("corpus-"+c[0], tc)
			tr.Count("corpus")
		}
	}
	rng := hx.NewRNG(cfg.Seed)
	// exhaustive part: bound by tier; cfg.N bounds the total number of cases
	maxLen, maxK := 20, 1
	if cfg.Tier == "thorough" {
		maxLen, maxK = 24, 2
	}
	if cfg.Mode == "search" {
		maxLen, maxK = 24, 1
	}
	if v := os.Getenv("C24_MAXK"); v != "" {
		maxK, _ = strconv.Atoi(v)
	}
	n := 0
	start := time.Now()
	for _, k := range classes(rng) {
		k := k
		explore(k, maxLen, maxK, func(c tcase, r result) {
			if n >= cfg.N {
				stopEnum = true
				return
			}
			emit(fmt.Sprintf("x-%s-%d", k.name, n), c, r)
			tr.Count("class_" + k.name)
			n++
		})
	}
	exhaustive := n
	stopEnum = false
	// random part: longer walks
	for i := 0; n < cfg.N && !giveUp(); i++ {
		r := rng.Fork(uint64(i))
		ks := classes(r)
		k := ks[r.Intn(len(ks))]
		c := randomCase(r, k, 14+r.Intn(10), r.Chance(60))
		do(fmt.Sprintf("g%d-%s", i, k.name), c)
		n++
	}
	tr.Close(cfg.Stats, map[string]interface{}{
		"spec_violations": nviol, "exhaustive_cases": exhaustive, "max_len": maxLen, "max_keepalives_per_connection": maxK,
		"seconds": time.Since(start).Seconds(),
	})
}
