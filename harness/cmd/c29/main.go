// C29 harness: MergedLocRIB under add/remove/drop histories with duplicates, driven either directly
// or through the real RIS client glue (risclient.serviceLoop on scripted ObserveRIB streams).
//
// Input tokens:  via=direct|ris  then  a<src>:<route> | r<src>:<route> | d<src>
//   via=direct: AddRoute / RemoveRoute / DropAllBySrc are called on the MergedLocRIB with source "src-<n>"
//   via=ris:    source n is a risclient.RISClient (own *grpc.ClientConn) attached to the MergedLocRIB;
//               a/r = a RIBUpdate delivered on the client's current ObserveRIB stream (a new stream is
//               opened when the client has none: reconnect), d = the stream fails (source lost)
// Observation (one token per op):  <id>x<count>,...|-  / uniqueRouteCount / routesWithSingleSource
//   <count> = how many paths of the Loc-RIB route for the pool route's prefix are exactly (Path.Compare,
//   every attribute) the pool route's path - selection-equal paths of other pool routes do not count
//
// Route pool (ids): 0-3 static IPv4 (two prefixes x two next hops); 4-9 BGP routes for ONE prefix that
// differ in exactly one attribute best-path selection ignores (communities, AS path content, large
// communities, unknown attribute, cluster list content): pairwise distinct hashes, Path.Equal to each
// other; 10-11 BGP for the same prefix, selection-distinct; 12-13 static IPv6; 14-15 BGP IPv6
// (selection-equal pair).
package main

import (
	"errors"
	"fmt"
	"os"
	"sort"
	"strconv"
	"strings"
	"time"

	"google.golang.org/grpc"

	risapi "github.com/bio-routing/bio-rd/cmd/ris/api"
	bnet "github.com/bio-routing/bio-rd/net"
	"github.com/bio-routing/bio-rd/risclient"
	"github.com/bio-routing/bio-rd/route"
	routeapi "github.com/bio-routing/bio-rd/route/api"
	"github.com/bio-routing/bio-rd/routingtable/locRIB"
	"github.com/bio-routing/bio-rd/routingtable/mergedlocrib"

	"verifharness/hx"
)

const nRoutes = 16
const nSrcs = 3

func bgpRoute(pfx bnet.Prefix, nh, src bnet.IP, mod func(*routeapi.BGPPath)) *routeapi.Route {
	b := &routeapi.BGPPath{
		NextHop:       nh.ToProto(),
		Source:        src.ToProto(),
		LocalPref:     100,
		AsPath:        []*routeapi.ASPathSegment{{AsSequence: true, Asns: []uint32{65001, 65002, 65003}}},
		Origin:        0,
		Med:           10,
		Ebgp:          true,
		BgpIdentifier: 0x0a000001,
		Communities:   []uint32{65001<<16 | 100},
		ClusterList:   []uint32{1, 2},
	}
	if mod != nil {
		mod(b)
	}
	return &routeapi.Route{Pfx: pfx.ToProto(), Paths: []*routeapi.Path{{Type: routeapi.Path_BGP, BgpPath: b}}}
}

func staticRoute(pfx bnet.Prefix, nh bnet.IP) *routeapi.Route {
	return &routeapi.Route{Pfx: pfx.ToProto(), Paths: []*routeapi.Path{{Type: routeapi.Path_Static,
		StaticPath: &routeapi.StaticPath{NextHop: nh.ToProto()}}}}
}

func buildPool() []*routeapi.Route {
	p4 := func(o byte) bnet.Prefix { return bnet.NewPfx(bnet.IPv4FromOctets(10, o, 0, 0), 16) }
	nh4 := func(o byte) bnet.IP { return bnet.IPv4FromOctets(1, 1, 1, o) }
	bp := p4(2)
	v6 := func(b3 uint16) bnet.Prefix { return bnet.NewPfx(bnet.IPv6FromBlocks(0x2001, 0xdb8, b3, 0, 0, 0, 0, 0), 48) }
	nh6 := func(o uint16) bnet.IP { return bnet.IPv6FromBlocks(0x2001, 0xdb8, 0xffff, 0, 0, 0, 0, o) }
	pool := []*routeapi.Route{
		staticRoute(p4(0), nh4(1)), staticRoute(p4(0), nh4(2)),
		staticRoute(p4(1), nh4(1)), staticRoute(p4(1), nh4(2)),
		// selection-equal, hash-distinct, Compare-distinct
		bgpRoute(bp, nh4(1), nh4(9), nil),
		bgpRoute(bp, nh4(1), nh4(9), func(b *routeapi.BGPPath) { b.Communities = []uint32{65001<<16 | 200} }),
		bgpRoute(bp, nh4(1), nh4(9), func(b *routeapi.BGPPath) { b.AsPath[0].Asns = []uint32{65001, 65009, 65003} }),
		bgpRoute(bp, nh4(1), nh4(9), func(b *routeapi.BGPPath) {
			b.LargeCommunities = []*routeapi.LargeCommunity{{GlobalAdministrator: 65001, DataPart1: 1, DataPart2: 2}}
		}),
		bgpRoute(bp, nh4(1), nh4(9), func(b *routeapi.BGPPath) {
			b.UnknownAttributes = []*routeapi.UnknownPathAttribute{{Optional: true, Transitive: true, TypeCode: 200, Value: []byte{1, 2}}}
		}),
		bgpRoute(bp, nh4(1), nh4(9), func(b *routeapi.BGPPath) { b.ClusterList = []uint32{1, 3} }),
		// selection-distinct
		bgpRoute(bp, nh4(1), nh4(9), func(b *routeapi.BGPPath) { b.LocalPref = 200 }),
		bgpRoute(bp, nh4(2), nh4(8), nil),
		// IPv6
		staticRoute(v6(1), nh6(1)), staticRoute(v6(1), nh6(2)),
		bgpRoute(v6(2), nh6(1), nh6(9), nil),
		bgpRoute(v6(2), nh6(1), nh6(9), func(b *routeapi.BGPPath) { b.Communities = nil }),
	}
	if len(pool) != nRoutes {
		panic("pool size")
	}
	return pool
}

var pool = buildPool()

// the exact path and the prefix of every pool route, as the merged table installs them
var poolPath []*route.Path
var poolPfx []*bnet.Prefix

func init() {
	for _, ar := range pool {
		r := route.RouteFromProtoRoute(ar, false)
		poolPath = append(poolPath, r.Paths()[0])
		poolPfx = append(poolPfx, r.Prefix())
	}
}

// poolSanity: the pool has the shape the rule promises (checked once per run)
func poolSanity() string {
	for i := 0; i < nRoutes; i++ {
		for j := i + 1; j < nRoutes; j++ {
			if *poolPfx[i] == *poolPfx[j] && poolPath[i].Compare(poolPath[j]) {
				return fmt.Sprintf("pool routes %d and %d have Compare-equal paths", i, j)
			}
		}
	}
	for i := 4; i <= 9; i++ {
		for j := i + 1; j <= 9; j++ {
			if !poolPath[i].Equal(poolPath[j]) {
				return fmt.Sprintf("pool routes %d and %d are not selection-equal", i, j)
			}
		}
	}
	if poolPath[4].Equal(poolPath[10]) || poolPath[4].Equal(poolPath[11]) || !poolPath[14].Equal(poolPath[15]) {
		return "selection-distinct / IPv6 pool routes do not have the intended relation"
	}
	return ""
}

type op struct {
	kind byte
	s, r int
}

type hcase struct {
	via string
	ops []op
}

func parseCase(in string) (*hcase, error) {
	c := &hcase{via: "direct"}
	for _, t := range strings.Fields(in) {
		if strings.HasPrefix(t, "via=") {
			c.via = t[4:]
			if c.via != "direct" && c.via != "ris" {
				return nil, fmt.Errorf("bad token %q", t)
			}
			continue
		}
		o := op{kind: t[0]}
		body := t[1:]
		var err error
		switch o.kind {
		case 'd':
			o.s, err = strconv.Atoi(body)
		case 'a', 'r':
			p := strings.SplitN(body, ":", 2)
			if len(p) != 2 {
				return nil, fmt.Errorf("bad token %q", t)
			}
			o.s, err = strconv.Atoi(p[0])
			if err == nil {
				o.r, err = strconv.Atoi(p[1])
			}
			if err == nil && (o.r < 0 || o.r >= nRoutes) {
				err = fmt.Errorf("route id out of the pool in %q", t)
			}
		default:
			err = fmt.Errorf("bad token %q", t)
		}
		if err != nil {
			return nil, err
		}
		c.ops = append(c.ops, o)
	}
	return c, nil
}

func fmtOps(ops []op) string {
	var b []string
	for _, o := range ops {
		if o.kind == 'd' {
			b = append(b, fmt.Sprintf("d%d", o.s))
		} else {
			b = append(b, fmt.Sprintf("%c%d:%d", o.kind, o.s, o.r))
		}
	}
	return strings.Join(b, " ")
}

func (c *hcase) String() string { return "via=" + c.via + " " + fmtOps(c.ops) }

// ---- the two ways of driving the merged table

type driver interface {
	add(s, r int)
	remove(s, r int)
	drop(s int)
	close()
}

// sources are distinct comparable values, as the RIS client passes (pointers there, strings here)
type directDriver struct{ m *mergedlocrib.MergedLocRIB }

func srcVal(s int) interface{}           { return fmt.Sprintf("src-%d", s) }
func (d *directDriver) add(s, r int)     { d.m.AddRoute(srcVal(s), pool[r]) }
func (d *directDriver) remove(s, r int)  { d.m.RemoveRoute(srcVal(s), pool[r]) }
func (d *directDriver) drop(s int)       { d.m.DropAllBySrc(srcVal(s)) }
func (d *directDriver) close()           {}

// fakeStream is a scripted ObserveRIB stream. Recv first reports that the client is waiting (everything
// delivered before has been processed), then blocks for the next update; nil = the stream fails.
type fakeStream struct {
	grpc.ClientStream
	idle chan struct{}
	in   chan *risapi.RIBUpdate
	done chan struct{}
	fail chan struct{} // closed when the service loop panicked
	err  interface{}
}

func (s *fakeStream) Recv() (*risapi.RIBUpdate, error) {
	s.idle <- struct{}{}
	u := <-s.in
	if u == nil {
		return nil, errors.New("transport is closing")
	}
	return u, nil
}

func (s *fakeStream) wait(ch chan struct{}, what string) {
	select {
	case <-ch:
	case <-s.fail:
		panic(fmt.Sprint("RIS client service loop panicked: ", s.err))
	case <-time.After(10 * time.Second):
		panic("timeout: RIS client did not " + what)
	}
}

type risDriver struct {
	clients []*risclient.RISClient
	streams []*fakeStream
}

func newRISDriver(m *mergedlocrib.MergedLocRIB, n int) *risDriver {
	d := &risDriver{streams: make([]*fakeStream, n)}
	for i := 0; i < n; i++ {
		d.clients = append(d.clients, risclient.New(&risclient.Request{Router: "r"}, &grpc.ClientConn{}, m))
	}
	return d
}

// session returns the running stream of client s, connecting it if necessary
func (d *risDriver) session(s int) *fakeStream {
	if st := d.streams[s]; st != nil {
		return st
	}
	st := &fakeStream{idle: make(chan struct{}), in: make(chan *risapi.RIBUpdate), done: make(chan struct{}), fail: make(chan struct{})}
	d.streams[s] = st
	go func() {
		if panicked, val := hx.Guard(func() { risclient.VerifC29ServiceLoop(d.clients[s], st) }); panicked {
			st.err = val
			close(st.fail)
			return
		}
		close(st.done)
	}()
	st.wait(st.idle, "call Recv")
	return st
}
func (d *risDriver) deliver(s int, u *risapi.RIBUpdate) {
	st := d.session(s)
	select {
	case st.in <- u:
	case <-st.fail:
		panic(fmt.Sprint("RIS client service loop panicked: ", st.err))
	}
	st.wait(st.idle, "come back to Recv")
}
func (d *risDriver) add(s, r int)    { d.deliver(s, &risapi.RIBUpdate{Advertisement: true, Route: pool[r]}) }
func (d *risDriver) remove(s, r int) { d.deliver(s, &risapi.RIBUpdate{Advertisement: false, Route: pool[r]}) }
func (d *risDriver) drop(s int) {
	st := d.session(s)
	d.streams[s] = nil
	st.in <- nil
	st.wait(st.done, "leave the service loop")
}
func (d *risDriver) close() {
	for s, st := range d.streams {
		if st != nil {
			d.drop(s)
		}
	}
}

// runCase executes the ops on the implementation; returns observation string, spec-violation (sig, detail)
func runCase(c *hcase) (obs string, sig string, detail string, nontrivial bool) {
	lr := locRIB.New("merged")
	m := mergedlocrib.New(lr)
	var drv driver = &directDriver{m}
	if c.via == "ris" {
		rd := newRISDriver(m, nSrcs+2)
		defer rd.close()
		drv = rd
	}
	adv := map[[2]int]bool{}
	var out []string
	for i, o := range c.ops {
		switch o.kind {
		case 'a':
			if adv[[2]int{o.s, o.r}] {
				nontrivial = true // repeated advertisement
			}
			for k := range adv {
				if k[1] != o.r && *poolPfx[k[1]] == *poolPfx[o.r] && poolPath[k[1]].Equal(poolPath[o.r]) {
					nontrivial = true // a selection-equal other route of the prefix is installed
				}
			}
			drv.add(o.s, o.r)
			adv[[2]int{o.s, o.r}] = true
		case 'r':
			n := 0
			for k := range adv {
				if k[1] == o.r {
					n++
				}
			}
			if n >= 2 {
				nontrivial = true // withdrawal of a route that has several sources
			}
			drv.remove(o.s, o.r)
			delete(adv, [2]int{o.s, o.r})
		case 'd':
			for k := range adv {
				if k[0] == o.s {
					nontrivial = true
					delete(adv, k)
				}
			}
			drv.drop(o.s)
		}
		// observe the Loc-RIB below the merged table
		var present []string
		for id := 0; id < nRoutes; id++ {
			cnt := 0
			if r := lr.Get(poolPfx[id]); r != nil {
				for _, p := range r.Paths() {
					if p.Compare(poolPath[id]) {
						cnt++
					}
				}
			}
			if cnt > 0 {
				present = append(present, fmt.Sprintf("%dx%d", id, cnt))
			}
			// spec oracle (the property's own statement on the implementation)
			should := false
			for k := range adv {
				if k[1] == id {
					should = true
				}
			}
			if sig == "" && (cnt > 0) != should {
				if cnt > 0 {
					sig = "route-present-but-no-source-advertises-it"
				} else {
					sig = "route-absent-although-advertised"
				}
				detail = fmt.Sprintf("via=%s after op %d (%s): route %d present=%d advertised=%v", c.via, i, fmtOps(c.ops[i:i+1]), id, cnt, should)
			}
			if sig == "" && cnt > 1 {
				sig = "route-installed-more-than-once"
				detail = fmt.Sprintf("via=%s after op %d: route %d installed %d times", c.via, i, id, cnt)
			}
		}
		sort.Strings(present)
		ps := "-"
		if len(present) > 0 {
			ps = strings.Join(present, ",")
		}
		mt := m.Metrics()
		out = append(out, fmt.Sprintf("%s/%d/%d", ps, mt.UniqueRouteCount, mt.RoutesWithSingleSourceCount))
	}
	return strings.Join(out, " "), sig, detail, nontrivial
}

// themes: which pool routes a history plays with
var themes = [][]int{
	{0, 1, 2, 3},                   // static, two prefixes
	{4, 5, 6, 7, 8, 9},             // one prefix, selection-equal BGP routes
	{4, 5, 6, 7, 8, 9, 10, 11},     // the same plus selection-distinct ones
	{12, 13, 14, 15},               // IPv6
	{0, 1, 4, 5, 10, 11},           // static and BGP, several prefixes (one address family per Loc-RIB)
}

func gen(r *hx.RNG, t *hx.Trace) *hcase {
	c := &hcase{via: "direct"}
	if r.Chance(40) {
		c.via = "ris"
	}
	t.Count("via_" + c.via)
	n := 3 + r.Intn(22)
	th := r.Intn(len(themes))
	t.Count(fmt.Sprintf("theme_%d", th))
	ids := append([]int(nil), themes[th]...)
	for i := len(ids) - 1; i > 0; i-- {
		j := r.Intn(i + 1)
		ids[i], ids[j] = ids[j], ids[i]
	}
	nr := 2 + r.Intn(4)
	if nr > len(ids) {
		nr = len(ids)
	}
	ids = ids[:nr]
	ns := 1 + r.Intn(nSrcs)
	for i := 0; i < n; i++ {
		k := r.Intn(100)
		switch {
		case k < 55:
			c.ops = append(c.ops, op{'a', r.Intn(ns), ids[r.Intn(nr)]})
			t.Count("op_add")
		case k < 90:
			c.ops = append(c.ops, op{'r', r.Intn(ns), ids[r.Intn(nr)]})
			t.Count("op_remove")
		default:
			c.ops = append(c.ops, op{'d', r.Intn(ns), 0})
			t.Count("op_drop")
		}
	}
	t.Count(fmt.Sprintf("len_%02d-%02d", n/5*5, n/5*5+4))
	return c
}

func main() {
	cfg := hx.Parse()
	tr := hx.NewTrace(cfg.Out)
	nviol := 0
	if msg := poolSanity(); msg != "" {
		fmt.Println("HARNESS-ERROR route pool:", msg)
	}
	do := func(id string, c *hcase) {
		var obs, sig, detail string
		var nt bool
		panicked, val := hx.Guard(func() { obs, sig, detail, nt = runCase(c) })
		if panicked {
			obs, sig, detail = "PANIC", "panic", fmt.Sprint(val)
		}
		tr.Case(id, nt, c.String(), obs)
		if sig != "" {
			hx.Violation(id, sig, detail)
			nviol++
		}
	}
	if cfg.Mode == "replay" {
		for _, cl := range hx.InputsFrom(cfg.Replay) {
			c, err := parseCase(cl[1])
			if err != nil {
				fmt.Println("HARNESS-ERROR bad replay input:", err)
				os.Exit(2)
			}
			do(cl[0], c)
		}
	} else {
		for _, cl := range hx.InputsFrom(hx.CorpusFiles(cfg.Corpus)...) {
			if c, err := parseCase(cl[1]); err == nil {
				// every corpus history is run both ways
				for _, via := range []string{"direct", "ris"} {
					c2 := *c
					c2.via = via
					do("corpus-"+cl[0]+"-"+via, &c2)
				}
				tr.Count("corpus")
			} else {
				fmt.Println("HARNESS-ERROR bad corpus line:", cl[0], err)
			}
		}
		rng := hx.NewRNG(cfg.Seed)
		for i := 0; i < cfg.N; i++ {
			do(fmt.Sprintf("g%d", i), gen(rng.Fork(uint64(i)), tr))
		}
	}
	tr.Close(cfg.Stats, map[string]interface{}{"spec_violations": nviol, "routes": nRoutes, "sources": nSrcs})
}
