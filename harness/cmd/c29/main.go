// C29 harness: MergedLocRIB under add/remove/drop histories with duplicates.
// Input tokens:  a<src>:<route> | r<src>:<route> | d<src>
// Observation (one token per op):  <id>x<count>,...|-  / uniqueRouteCount / routesWithSingleSource
package main

import (
	"fmt"
	"os"
	"sort"
	"strconv"
	"strings"

	bnet "github.com/bio-routing/bio-rd/net"
	"github.com/bio-routing/bio-rd/route"
	routeapi "github.com/bio-routing/bio-rd/route/api"
	"github.com/bio-routing/bio-rd/routingtable/locRIB"
	"github.com/bio-routing/bio-rd/routingtable/mergedlocrib"

	"verifharness/hx"
)

const nRoutes = 6
const nSrcs = 3

// route pool: ids 0..5; 0/1 and 2/3 share a prefix and differ in next hop
func poolPfx(id int) *bnet.Prefix {
	return bnet.NewPfx(bnet.IPv4FromOctets(10, byte(id/2), 0, 0), 16).Ptr()
}
func poolNH(id int) *bnet.IP { return bnet.IPv4FromOctets(1, 1, 1, byte(1+id%2)).Ptr() }
func poolRoute(id int) *routeapi.Route {
	return &routeapi.Route{
		Pfx: poolPfx(id).ToProto(),
		Paths: []*routeapi.Path{{
			Type:       routeapi.Path_Static,
			StaticPath: &routeapi.StaticPath{NextHop: poolNH(id).ToProto()},
		}},
	}
}

type op struct {
	kind byte
	s, r int
}

func parseOps(in string) ([]op, error) {
	var ops []op
	for _, t := range strings.Fields(in) {
		o := op{kind: t[0]}
		body := t[1:]
		var err error
		if o.kind == 'd' {
			o.s, err = strconv.Atoi(body)
		} else {
			p := strings.SplitN(body, ":", 2)
			if len(p) != 2 {
				return nil, fmt.Errorf("bad token %q", t)
			}
			o.s, err = strconv.Atoi(p[0])
			if err == nil {
				o.r, err = strconv.Atoi(p[1])
			}
		}
		if err != nil {
			return nil, err
		}
		ops = append(ops, o)
	}
	return ops, nil
}

func fmtOps(ops []op) string {
	var b []string
	for _, o := range ops {
		if o.kind == 'd' {
			b = append(b, fmt.Sprintf("d%d", o.s))
		} else {
			b = append(b, fmt.Sprintf("%c%d:%d", o.kind, o.s, o.r))
		}
	}
	return strings.Join(b, " ")
}

// sources are distinct comparable values, as the RIS client passes (pointers there, strings here)
func srcVal(s int) interface{} { return fmt.Sprintf("src-%d", s) }

// runCase executes the ops on the implementation; returns observation string, spec-violation (sig, detail)
func runCase(ops []op) (obs string, sig string, detail string, nontrivial bool) {
	lr := locRIB.New("merged")
	m := mergedlocrib.New(lr)
	adv := map[[2]int]bool{}
	var out []string
	for i, o := range ops {
		switch o.kind {
		case 'a':
			if adv[[2]int{o.s, o.r}] {
				nontrivial = true // repeated advertisement
			}
			m.AddRoute(srcVal(o.s), poolRoute(o.r))
			adv[[2]int{o.s, o.r}] = true
		case 'r':
			n := 0
			for k := range adv {
				if k[1] == o.r {
					n++
				}
			}
			if n >= 2 {
				nontrivial = true // withdrawal of a route that has several sources
			}
			m.RemoveRoute(srcVal(o.s), poolRoute(o.r))
			delete(adv, [2]int{o.s, o.r})
		case 'd':
			for k := range adv {
				if k[0] == o.s {
					nontrivial = true
					delete(adv, k)
				}
			}
			m.DropAllBySrc(srcVal(o.s))
		}
		// observe the Loc-RIB below the merged table
		var present []string
		for id := 0; id < nRoutes; id++ {
			cnt := 0
			if r := lr.Get(poolPfx(id)); r != nil {
				want := &route.Path{Type: route.StaticPathType, StaticPath: &route.StaticPath{NextHop: poolNH(id)}}
				for _, p := range r.Paths() {
					if p.Type == route.StaticPathType && p.StaticPath != nil && p.StaticPath.NextHop.Compare(want.StaticPath.NextHop) == 0 {
						cnt++
					}
				}
			}
			if cnt > 0 {
				present = append(present, fmt.Sprintf("%dx%d", id, cnt))
			}
			// spec oracle (the property's own statement on the implementation)
			should := false
			for k := range adv {
				if k[1] == id {
					should = true
				}
			}
			if sig == "" && (cnt > 0) != should {
				if cnt > 0 {
					sig = "route-present-but-no-source-advertises-it"
				} else {
					sig = "route-absent-although-advertised"
				}
				detail = fmt.Sprintf("after op %d (%s): route %d present=%d advertised=%v", i, fmtOps(ops[i:i+1]), id, cnt, should)
			}
			if sig == "" && cnt > 1 {
				sig = "route-installed-more-than-once"
				detail = fmt.Sprintf("after op %d: route %d installed %d times", i, id, cnt)
			}
		}
		sort.Strings(present)
		ps := "-"
		if len(present) > 0 {
			ps = strings.Join(present, ",")
		}
		mt := m.Metrics()
		out = append(out, fmt.Sprintf("%s/%d/%d", ps, mt.UniqueRouteCount, mt.RoutesWithSingleSourceCount))
	}
	return strings.Join(out, " "), sig, detail, nontrivial
}

func gen(r *hx.RNG, t *hx.Trace) []op {
	n := 3 + r.Intn(22)
	nr := 2 + r.Intn(nRoutes-1)
	ns := 1 + r.Intn(nSrcs)
	var ops []op
	for i := 0; i < n; i++ {
		c := r.Intn(100)
		switch {
		case c < 55:
			ops = append(ops, op{'a', r.Intn(ns), r.Intn(nr)})
			t.Count("op_add")
		case c < 90:
			ops = append(ops, op{'r', r.Intn(ns), r.Intn(nr)})
			t.Count("op_remove")
		default:
			ops = append(ops, op{'d', r.Intn(ns), 0})
			t.Count("op_drop")
		}
	}
	t.Count(fmt.Sprintf("len_%02d-%02d", n/5*5, n/5*5+4))
	return ops
}

func main() {
	cfg := hx.Parse()
	tr := hx.NewTrace(cfg.Out)
	nviol := 0
	do := func(id string, ops []op) {
		var obs, sig, detail string
		var nt bool
		panicked, val := hx.Guard(func() { obs, sig, detail, nt = runCase(ops) })
		if panicked {
			obs, sig, detail = "PANIC", "panic", fmt.Sprint(val)
		}
		tr.Case(id, nt, fmtOps(ops), obs)
		if sig != "" {
			hx.Violation(id, sig, detail)
			nviol++
		}
	}
	if cfg.Mode == "replay" {
		for _, c := range hx.InputsFrom(cfg.Replay) {
			ops, err := parseOps(c[1])
			if err != nil {
				fmt.Println("HARNESS-ERROR bad replay input:", err)
				os.Exit(2)
			}
			do(c[0], ops)
		}
	} else {
		for _, c := range hx.InputsFrom(hx.CorpusFiles(cfg.Corpus)...) {
			if ops, err := parseOps(c[1]); err == nil {
				do("corpus-"+c[0], ops)
				tr.Count("corpus")
			}
		}
		rng := hx.NewRNG(cfg.Seed)
		for i := 0; i < cfg.N; i++ {
			do(fmt.Sprintf("g%d", i), gen(rng.Fork(uint64(i)), tr))
		}
	}
	tr.Close(cfg.Stats, map[string]interface{}{"spec_violations": nviol, "routes": nRoutes, "sources": nSrcs})
}
