// C16 harness: packet.Decode on arbitrary byte strings x 16 option combinations.
// Input tokens:  <optbits> <hex|->      Observation: Err | PANIC | canonical tokens of the decoded message
// Spec oracle (the property's own statement on the implementation): no panic, returns within the
// watchdog time; thorough tier: bytes allocated by one Decode call stay below a generous multiple of
// the proven bound 65535 + 3*len.
package main

import (
	"fmt"
	"os"
	"runtime"
	"strings"
	"time"

	"verifharness/bgpx"
	"verifharness/hx"
)

func validHeader(b []byte) bool {
	if len(b) < 20 {
		return false
	}
	for i := 0; i < 16; i++ {
		if b[i] != 0xff {
			return false
		}
	}
	l := int(b[16])<<8 | int(b[17])
	return l >= 19 && l <= 4096 && b[18] >= 1 && b[18] <= 4
}

var tr *hx.Trace
var nviol, npanic, nok, nerr int
var maxAllocRatio float64

// allocation bound proven for the model (C16_alloc_bounded): 65535 + 3*len bytes requested by length-driven
// make() calls. The real process also allocates structs, error values, dedup-cache entries: allow
// 64 bytes of those per input byte plus a constant, on top of 4x the proven bound.
func allocLimit(n int) uint64 { return 4*(65535+3*uint64(n)) + 1024*uint64(n) + (1 << 20) }

func measureAlloc(k int, b []byte) uint64 {
	var m0, m1 runtime.MemStats
	runtime.ReadMemStats(&m0)
	bgpx.DecodeObs(b, k)
	runtime.ReadMemStats(&m1)
	return m1.TotalAlloc - m0.TotalAlloc
}

func do(id string, k int, b []byte, measure bool) {
	type res struct {
		obs string
		pv  interface{}
		ft  []string
	}
	ch := make(chan res, 1)
	go func() {
		obs, m, pv := bgpx.DecodeObs(b, k)
		var ft []string
		if m != nil {
			ft = bgpx.Features(m)
		}
		ch <- res{obs, pv, ft}
	}()
	var r res
	select {
	case r = <-ch:
	case <-time.After(20 * time.Second):
		tr.Case(id, validHeader(b), bgpx.FmtInput(k, b), "TIMEOUT")
		hx.Violation(id, "decode-does-not-return", fmt.Sprintf("packet.Decode still running after 20s on %d bytes", len(b)))
		nviol++
		return
	}
	tr.Case(id, validHeader(b), bgpx.FmtInput(k, b), r.obs)
	switch {
	case r.obs == "PANIC":
		npanic++
		nviol++
		hx.Violation(id, "decode-panic", strings.ReplaceAll(fmt.Sprint(r.pv), "\n", " "))
	case r.obs == "Err":
		nerr++
	case strings.HasPrefix(r.obs, "RENDER-ERROR") || r.obs == "NILMSG":
		fmt.Println("HARNESS-ERROR case=" + id + " " + r.obs)
	default:
		nok++
		for _, f := range r.ft {
			tr.Count(f)
		}
	}
	if measure {
		a := measureAlloc(k, b)
		lim := allocLimit(len(b))
		if ratio := float64(a) / float64(lim); ratio > maxAllocRatio {
			maxAllocRatio = ratio
		}
		if a > lim {
			// confirm (GC bookkeeping, cache growth): take the minimum of three more runs
			min := a
			for i := 0; i < 3; i++ {
				if x := measureAlloc(k, b); x < min {
					min = x
				}
			}
			if min > lim {
				nviol++
				hx.Violation(id, "decode-allocates-beyond-bound", fmt.Sprintf("%d bytes allocated for %d input bytes (limit %d)", min, len(b), lim))
			}
		}
	}
}

func main() {
	cfg := hx.Parse()
	tr = hx.NewTrace(cfg.Out)
	thorough := cfg.Tier == "thorough"
	if cfg.Mode == "replay" {
		for _, c := range hx.InputsFrom(cfg.Replay) {
			k, b, err := bgpx.ParseInput(c[1])
			if err != nil {
				fmt.Println("HARNESS-ERROR bad replay input:", err)
				os.Exit(2)
			}
			do(c[0], k, b, false)
		}
		tr.Close(cfg.Stats, nil)
		return
	}
	for _, c := range hx.InputsFrom(hx.CorpusFiles(cfg.Corpus)...) {
		if k, b, err := bgpx.ParseInput(c[1]); err == nil {
			do("corpus-"+c[0], k, b, false)
			tr.Count("corpus")
		} else {
			fmt.Println("HARNESS-ERROR bad corpus line", c[0], err)
		}
	}
	fz := bgpx.FuzzCorpus()
	rng := hx.NewRNG(cfg.Seed)
	for i, b := range fz {
		ks := []int{0, 4, rng.Fork(uint64(1000000 + i)).Intn(16)}
		if thorough {
			ks = ks[:0]
			for k := 0; k < 16; k++ {
				ks = append(ks, k)
			}
		}
		for _, k := range ks {
			do(fmt.Sprintf("fz%d-%d", i, k), k, b, false)
			tr.Count("stream_repo-fuzz-corpus")
		}
	}
	if cfg.Mode == "search" {
		rng = hx.NewRNG(cfg.Seed ^ 0x5eac4)
	}
	for i := 0; i < cfg.N; i++ {
		r := rng.Fork(uint64(i))
		k, b, stream := bgpx.Case(r, fz)
		do(fmt.Sprintf("g%d", i), k, b, thorough && i%10 == 0)
		tr.Count("stream_" + stream)
		// every 16 option combinations on some inputs; every truncation point on some
		if i%50 == 0 {
			for kk := 0; kk < 16; kk++ {
				if kk != k {
					do(fmt.Sprintf("g%d-o%d", i, kk), kk, b, false)
					tr.Count("stream_all-options")
				}
			}
		}
		if (thorough && i%40 == 1) || i%400 == 1 {
			for j := 0; j < len(b); j++ {
				do(fmt.Sprintf("g%d-t%d", i, j), k, b[:j], false)
				tr.Count("stream_truncate-every-offset")
			}
		}
	}
	// systematic: every kind of length/count field x boundary values x truncation inside the governed region
	perKind := 4
	maxCuts := 40
	if thorough {
		perKind, maxCuts = 60, 1 << 20
	}
	kindSeen := map[string]int{}
	for i, tries := 0, 0; tries < 4000 && i < 14*perKind; tries++ {
		r := rng.Fork(uint64(9000000 + tries))
		g := &bgpx.G{R: r, K: r.Intn(16), Clean: true}
		w := g.Message()
		used := false
		for ri, reg := range w.Regions {
			if kindSeen[reg.Kind] >= perKind || used {
				continue
			}
			if reg.Kind == "nhlen" && tries%2 == 0 && w.B[reg.Off] != 32 {
				continue // every other nhlen sample is a 32-byte (global + link-local) next hop
			}
			kindSeen[reg.Kind]++
			used = true
			i++
			n := 0
			w.FieldTruncations(reg, maxCuts, func(b []byte) {
				do(fmt.Sprintf("s%d-%d-%d", tries, ri, n), g.K, b, false)
				n++
				tr.Count("stream_field-boundary-x-truncation")
			})
			tr.Count("systematic_field_" + reg.Kind)
		}
	}

	// long inputs: far more bytes than the header announces (thorough: allocation measured)
	for i := 0; i < 8; i++ {
		r := rng.Fork(uint64(7000000 + i))
		g := &bgpx.G{R: r, K: r.Intn(16)}
		w := g.Update()
		for j := 0; j < 70000; j++ {
			w.B = append(w.B, byte(r.Pick([]int{0, 0, 0, 8, 1, 255, 24, 32})))
		}
		if i%2 == 0 && len(w.B) > 25 { // make the NLRI length wrap: total attribute length beyond the message
			w.B[19], w.B[20] = 0, 0
			w.B[21], w.B[22] = 0xff, 0xf0
		}
		do(fmt.Sprintf("long%d", i), g.K, w.B, thorough)
		tr.Count("stream_long")
	}
	tr.Close(cfg.Stats, map[string]interface{}{"spec_violations": nviol, "panics": nparse(npanic), "decoded_ok": nok, "decoded_err": nerr,
		"max_alloc_over_limit_ratio": maxAllocRatio})
}

func nparse(n int) int { return n }
