// C07 harness: sessions (1-2, sharing one VRF) are established, install routes under accepting,
// rejecting and rewriting import policies, and are then torn down by every kind of exit event
// (NOTIFICATION, hold timer, keepalive send failure, malformed/unexpected messages, stop, cease);
// Loc-RIB, Adj-RIB-In, VRF refcounts and Loc-RIB client registrations are observed after every event.
package main

import (
	"verifharness/fsmx"
	"verifharness/hx"
)

func main() {
	fsmx.Main(fsmx.Property{
		Name:   "c07",
		Oracle: fsmx.OracleC07,
		NonTriv: func(c fsmx.Case, obs []fsmx.StepObs) bool {
			// a session holding routes in its Adj-RIB-In leaves Established
			had := map[int]bool{}
			for _, o := range obs {
				if o.State == 'E' && len(o.AdjIn) > 0 {
					had[o.Sid] = true
				}
				if o.State != 'E' && had[o.Sid] {
					return true
				}
			}
			return false
		},
		Gen: func(r *hx.RNG, tr *hx.Trace) fsmx.Case { return fsmx.GenCase(r, "c07", tr) },
		// every exit from Established x connection condition (healthy / writes fail / peer closed), with routes
		// installed and a second established session that must keep its routes and refcount shares
		Extra: func(cfg *hx.Cfg, do func(id string, c fsmx.Case)) {
			fsmx.ExitProduct(do, "E", true)
			// pairs of sessions of every kind sharing (or not) local AS and cluster id; one flaps, the other stays
			fsmx.PairProduct(do)
			fsmx.PolicyProduct(do)
		},
	})
}
