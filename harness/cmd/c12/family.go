package main

// K:F  the session's entry points.  S:<ibgp|rs session> C<import chain>|<export chain> then ops
//	i<pfx>=<path>  a route of the session's peer (Adj-RIB-In.AddPath)   o<pfx>=<path>  a route of another source (Loc-RIB)
//	m<chain>  fsmAddressFamily.replaceImportFilterChain    e<chain>  fsmAddressFamily.replaceExportFilterChain
//	D  the session goes down (dispose)   U  it is (re-)established (init)   Z (first op only)  the family starts down
//	observation per op:  <stream>#<view>#<adj-rib-in before>#<loc-rib before>#<loc-rib after>#<adj-rib-out after>
//	stream = calls the Loc-RIB made on a spy registered like the Adj-RIB-Out; view = the Loc-RIB's best paths (for e)

import (
	"fmt"
	"strings"

	"github.com/bio-routing/bio-rd/protocols/bgp/server"
	"github.com/bio-routing/bio-rd/routingtable/locRIB"
	"github.com/bio-routing/bio-rd/routingtable/vrf"

	"verifharness/aro"
	"verifharness/hx"
)

type fam struct {
	f   *server.VerifC12Family
	lr  *locRIB.LocRIB
	spy *aro.Rec
}

func newFam(s aro.Sess, imp, exp aro.Chain, down bool) *fam {
	lr := locRIB.New("c12f")
	peerASN := uint32(65100)
	if s.IBGP() {
		peerASN = aro.LocalASN
	}
	x := &fam{lr: lr, spy: aro.NewRec()}
	x.f = server.VerifC12NewFamily(server.VerifC12Config{
		LocalASN: aro.LocalASN, PeerASN: peerASN, RouterID: aro.LocalIP, PeerIP: aro.IP(aro.PeerIP), LocalIP: aro.IP(aro.LocalIP),
		RouteServerClient: s.Kind == "rs", AddPathRX: true, VRF: vrf.NewUntrackedVRF("c12f", 0), RIB: lr,
		Import: imp.Build(), Export: exp.Build(), Client: aro.NewRec(), StartDown: down,
	})
	lr.RegisterWithOptions(x.spy, s.ClientOptions())
	return x
}

func (x *fam) apply(o op) {
	switch o.kind {
	case 'i':
		if x.f.VerifC12IsUp() {
			x.f.VerifC12AdjRIBIn().AddPath(aro.Pfx(o.pfx), o.path.Build())
		}
	case 'D':
		x.f.VerifC12Down()
	case 'U':
		x.f.VerifC12Up()
	case 'o':
		x.lr.AddPath(aro.Pfx(o.pfx), o.path.Build())
	case 'm':
		x.f.VerifC12ReplaceImport(o.chain.Build())
	case 'e':
		x.f.VerifC12ReplaceExport(o.chain.Build())
	}
}

func runFamily(c tcase) (obs string, v *verdict, nontrivial bool) {
	startDown := len(c.ops) > 0 && c.ops[0].kind == 'Z'
	x := newFam(c.sess, c.chain, c.chain2, startDown)
	imp, exp := c.chain, c.chain2
	lastUp := -1 // index of the op after which the current Adj-RIB-In started to fill
	var out []string
	for i, o := range c.ops {
		rb, ta := "-", "-"
		if x.f.VerifC12IsUp() {
			rb = dumpSorted(x.f.VerifC12AdjRIBIn().Dump(), true)
		}
		lb := dumpSorted(x.lr.Dump(), false)
		view := "-"
		if o.kind == 'e' || o.kind == 'U' {
			view = aro.LocView(x.lr, c.sess)
		}
		wasUp := x.f.VerifC12IsUp()
		x.apply(o)
		if o.kind == 'U' && !wasUp {
			lastUp = i
		}
		stream := aro.JoinOrDash(x.spy.Take(), ",")
		la := dumpSorted(x.lr.Dump(), false)
		if x.f.VerifC12IsUp() {
			ta = dumpSorted(x.f.VerifC12AdjRIBOut().Dump(), false)
		}
		out = append(out, fmt.Sprintf("%s#%s#%s#%s#%s#%s", stream, view, rb, lb, la, ta))
		switch o.kind {
		case 'm':
			imp = o.chain
		case 'e':
			exp = o.chain
		case 'U':
		default:
			continue
		}
		if !x.f.VerifC12IsUp() {
			continue // nothing to look at while down; the next U is checked
		}
		nontrivial = true
		// ---- spec oracle: a session established with the policies now in force, holding the same routes
		y := newFam(c.sess, imp, exp, false)
		for j, p := range c.ops[:i] {
			if p.kind == 'o' || (p.kind == 'i' && j > lastUp) {
				y.apply(p)
			}
		}
		if want := dumpSorted(y.lr.Dump(), false); la != want && v == nil {
			v = &verdict{"session-replace-not-converged:loc-rib", fmt.Sprintf("op %d (%s): Loc-RIB %s, a session established with import %s has %s", i, o.token(), la, imp.Token(), want)}
		}
		if want := dumpSorted(y.f.VerifC12AdjRIBOut().Dump(), false); ta != want && v == nil {
			v = &verdict{"session-replace-not-converged:adj-rib-out", fmt.Sprintf("op %d (%s): Adj-RIB-Out %s, a session established with export %s has %s", i, o.token(), ta, exp.Token(), want)}
		}
	}
	return strings.Join(out, " "), v, nontrivial
}

func genFamily(r *hx.RNG, t *hx.Trace) tcase {
	// a small pool, so that "new export chain = current import chain" (and the like) happens all the time
	pool := []aro.Chain{
		{{{Acts: []aro.Act{{Kind: "acc"}}}}},
		{{{Acts: []aro.Act{{Kind: "rej"}}}}},
		{{{Acts: []aro.Act{{Kind: "lp", V: 200}, {Kind: "acc"}}}}},
		{{{Conds: [][]int{{0}}, Acts: []aro.Act{{Kind: "rej"}}}}},
		aro.GenChain(r, nPfx),
	}
	pick := func() aro.Chain { return pool[r.Intn(len(pool))] }
	c := tcase{kind: 'F', sess: aro.Sess{Kind: []string{"ibgp", "rs"}[r.Intn(2)], Role: "-"}, chain: pick(), chain2: pick()}
	t.Count("F_sess_" + c.sess.Kind)
	o := aro.GenOpts{Extras: true}
	used := map[string]bool{}
	n := 5 + r.Intn(11)
	up := true
	if r.Chance(25) {
		c.ops = append(c.ops, op{kind: 'Z'})
		up = false
	}
	for i := 0; i < n; i++ {
		k := r.Intn(100)
		if k < 25 && !up {
			k = 25 + r.Intn(75) // the peer cannot send routes while the session is down
		}
		switch {
		case k >= 88:
			if up {
				c.ops = append(c.ops, op{kind: 'D'})
				for key := range used { // the Adj-RIB-In is gone
					if key[0] == 'i' {
						delete(used, key)
					}
				}
			} else {
				c.ops = append(c.ops, op{kind: 'U'})
			}
			up = !up
			t.Count("F_updown")
		case k < 25:
			p := aro.GenPath(r, o)
			p.Src, p.BGPID = aro.PeerIP, aro.PeerIP
			p.EBGP = !c.sess.IBGP()
			p.PID, p.OTC, p.Agg = uint32(r.Intn(2)), 0, nil
			pfx := r.Intn(nPfx)
			key := fmt.Sprintf("i%d/%d", pfx, p.PID)
			if used[key] {
				continue
			}
			used[key] = true
			c.ops = append(c.ops, op{kind: 'i', pfx: pfx, path: p})
		case k < 50:
			p := aro.GenPath(r, o)
			src := []uint32{0x03030303, 0x04040404}[r.Intn(2)]
			p.Src, p.BGPID, p.PID, p.EBGP, p.Agg = src, src, 0, true, nil
			pfx := r.Intn(nPfx)
			key := fmt.Sprintf("o%d/%d", pfx, src)
			if used[key] {
				continue
			}
			used[key] = true
			c.ops = append(c.ops, op{kind: 'o', pfx: pfx, path: p})
		case k < 70:
			c.ops = append(c.ops, op{kind: 'm', chain: pick()})
			t.Count("F_replace_import")
		default:
			c.ops = append(c.ops, op{kind: 'e', chain: pick()})
			t.Count("F_replace_export")
		}
	}
	return c
}
