// C12 harness: replacing a policy converges to the new policy's result; a replacement is never skipped
// when the policies differ.  Three kinds of cases (first input token):
//
//	K:E  export side.  S:<sess> C<chain> then ops  a<pfx>=<path> | r<pfx>=<path> (Loc-RIB)  x<chain> (AdjRIBOut.ReplaceFilterChain)
//	     observation per op:  <stream>#<view>#-#<events>#<table>#<used>/<routecount>   (as in harness/cmd/c11)
//	K:I  import side.  S:<sess of the source peer> C<chain> then ops  i<pfx>=<path> (AdjRIBIn.AddPath)
//	     o<pfx>=<path> (a path of another source, straight into the Loc-RIB)  y<chain> (AdjRIBIn.ReplaceFilterChain)
//	     observation per op:  <adj-rib-in before>#<loc-rib before>#<loc-rib after>
//	     tables rendered as "<pfx>=<path>,<path>;..." with the paths of a prefix sorted; hidden Adj-RIB-In paths get "h" in front
//	K:Q  chain equality.  q<chain>|<chain> ...      observation per op:  t | f   (filter.Chain.Equal)
package main

import (
	"fmt"
	"os"
	"sort"
	"strings"
	"time"

	"github.com/bio-routing/bio-rd/route"
	"github.com/bio-routing/bio-rd/routingtable"
	"github.com/bio-routing/bio-rd/routingtable/adjRIBIn"
	"github.com/bio-routing/bio-rd/routingtable/adjRIBOut"
	"github.com/bio-routing/bio-rd/routingtable/filter"
	"github.com/bio-routing/bio-rd/routingtable/locRIB"
	"github.com/bio-routing/bio-rd/routingtable/vrf"

	"verifharness/aro"
	"verifharness/hx"
)

const nPfx = 3

type op struct {
	kind   byte
	pfx    int
	path   aro.PS
	chain  aro.Chain
	chain2 aro.Chain
}

func (o op) token() string {
	switch o.kind {
	case 'x', 'y', 'm', 'e':
		return string(o.kind) + o.chain.Token()
	case 'q':
		return "q" + o.chain.Token() + "|" + o.chain2.Token()
	case 'D', 'U', 'Z':
		return string(o.kind)
	}
	return fmt.Sprintf("%c%d=%s", o.kind, o.pfx, o.path.Token())
}

type tcase struct {
	kind   byte
	sess   aro.Sess
	chain  aro.Chain
	chain2 aro.Chain // K:F: the export chain (chain = import chain)
	ops    []op
}

func (c tcase) input() string {
	t := []string{"K:" + string(c.kind)}
	if c.kind == 'F' {
		t = append(t, c.sess.Token(), "C"+c.chain.Token()+"|"+c.chain2.Token())
	} else if c.kind != 'Q' {
		t = append(t, c.sess.Token(), "C"+c.chain.Token())
	}
	for _, o := range c.ops {
		t = append(t, o.token())
	}
	return strings.Join(t, " ")
}

func parseCase(in string) (tcase, error) {
	var c tcase
	f := strings.Fields(in)
	if len(f) < 1 || !strings.HasPrefix(f[0], "K:") || len(f[0]) != 3 {
		return c, fmt.Errorf("missing kind")
	}
	c.kind = f[0][2]
	rest := f[1:]
	var err error
	if c.kind != 'Q' {
		if len(rest) < 2 || !strings.HasPrefix(rest[1], "C") {
			return c, fmt.Errorf("short case")
		}
		if c.sess, err = aro.ParseSess(rest[0]); err != nil {
			return c, err
		}
		cs := strings.SplitN(rest[1][1:], "|", 2)
		if c.chain, err = aro.ParseChain(cs[0]); err != nil {
			return c, err
		}
		if len(cs) == 2 {
			if c.chain2, err = aro.ParseChain(cs[1]); err != nil {
				return c, err
			}
		}
		rest = rest[2:]
	}
	for _, t := range rest {
		o := op{kind: t[0]}
		switch o.kind {
		case 'x', 'y', 'm', 'e':
			if o.chain, err = aro.ParseChain(t[1:]); err != nil {
				return c, err
			}
		case 'q':
			p := strings.SplitN(t[1:], "|", 2)
			if len(p) != 2 {
				return c, fmt.Errorf("bad op %q", t)
			}
			if o.chain, err = aro.ParseChain(p[0]); err != nil {
				return c, err
			}
			if o.chain2, err = aro.ParseChain(p[1]); err != nil {
				return c, err
			}
		case 'D', 'U', 'Z':
		case 'a', 'r', 'i', 'o':
			p := strings.SplitN(t[1:], "=", 2)
			if len(p) != 2 {
				return c, fmt.Errorf("bad op %q", t)
			}
			if _, err = fmt.Sscanf(p[0], "%d", &o.pfx); err != nil {
				return c, err
			}
			if o.path, err = aro.ParsePath(p[1]); err != nil {
				return c, err
			}
		default:
			return c, fmt.Errorf("bad op %q", t)
		}
		c.ops = append(c.ops, o)
	}
	return c, nil
}

type verdict struct{ sig, detail string }

// ---------------------------------------------------------------- export side

func exportOne(s aro.Sess, ch aro.Chain, pfx int, p *route.Path) (aro.PS, bool) {
	a := adjRIBOut.New(nil, s.Attrs(), ch.Build())
	a.AddPath(aro.Pfx(pfx), p.Copy())
	d := a.Dump()
	if len(d) == 0 || len(d[0].Paths()) == 0 {
		return aro.PS{}, false
	}
	ps, err := aro.Describe(d[0].Paths()[0])
	return ps, err == nil
}

// diffView compares the Adj-RIB-Out with the export view of the Loc-RIB under chain ch; "" when equal
func diffView(s aro.Sess, ch aro.Chain, lr *locRIB.LocRIB, a *adjRIBOut.AdjRIBOut) string {
	addPath := s.MaxPaths > 0
	key := func(p aro.PS) string {
		if addPath {
			p.PID = 0
		}
		return p.Token()
	}
	cnt := map[string]int{}
	for _, r := range a.Dump() {
		for _, p := range r.Paths() {
			d, err := aro.Describe(p)
			if err != nil {
				return "malformed " + err.Error()
			}
			cnt[fmt.Sprintf("%d|%s", aro.PfxID(r.Prefix()), key(d))]++
		}
	}
	for pfx, ps := range aro.FirstN(lr, s) {
		for _, p := range ps {
			if e, ok := exportOne(s, ch, pfx, p); ok {
				cnt[fmt.Sprintf("%d|%s", pfx, key(e))]--
			}
		}
	}
	var bad []string
	for k, n := range cnt {
		if n != 0 {
			bad = append(bad, fmt.Sprintf("%s:%+d", k, n))
		}
	}
	sort.Strings(bad)
	return strings.Join(bad, " ")
}

func siblingKey(p aro.PS) string {
	q := p
	q.OTC, q.PID, q.ASLen, q.Redist = 0, 0, 0, 0
	return q.Token()
}

func runExport(c tcase) (obs string, v *verdict, nontrivial bool) {
	lr := locRIB.New("c12")
	a := adjRIBOut.New(lr, c.sess.Attrs(), c.chain.Build())
	rec := aro.NewRec()
	a.Register(rec)
	spy := aro.NewRec()
	lr.RegisterWithOptions(a, c.sess.ClientOptions())
	lr.RegisterWithOptions(spy, c.sess.ClientOptions())
	fail := func(sig, detail string) {
		if v == nil {
			v = &verdict{sig, detail}
		}
	}
	cur := c.chain
	var out []string
	var added []op
	for i, o := range c.ops {
		view := "-"
		switch o.kind {
		case 'a':
			added = append(added, o)
			lr.AddPath(aro.Pfx(o.pfx), o.path.Build())
		case 'r':
			lr.RemovePath(aro.Pfx(o.pfx), o.path.Build())
		case 'x':
			view = aro.LocView(lr, c.sess)
			pre := diffView(c.sess, cur, lr, a)
			// guard of the theorem: exports (under either policy) of the paths of a prefix are Compare-distinct
			sib := false
			if c.sess.MaxPaths > 0 {
				for _, ch := range []aro.Chain{cur, o.chain} {
					seen := map[string]string{}
					for pfx, ps := range aro.FirstN(lr, c.sess) {
						for _, p := range ps {
							if e, ok := exportOne(c.sess, ch, pfx, p); ok {
								k := fmt.Sprintf("%d|%s", pfx, siblingKey(e))
								e.PID = 0
								if prev, dup := seen[k]; dup && prev != e.Token() {
									sib = true
								}
								seen[k] = e.Token()
							}
						}
					}
				}
			}
			a.ReplaceFilterChain(o.chain.Build())
			cur = o.chain
			// ---- spec oracle: as if the session had been established with the new policy
			if pre == "" && !sib {
				nontrivial = true
				if post := diffView(c.sess, cur, lr, a); post != "" {
					fail("export-replace-not-converged", fmt.Sprintf("op %d (%s) on %s: table minus export view under the new policy: %s", i, o.token(), c.sess.Token(), post))
				}
			}
		}
		stream := aro.JoinOrDash(spy.Take(), ",")
		events := aro.JoinOrDash(rec.Take(), ",")
		out = append(out, fmt.Sprintf("%s#%s#-#%s#%s#%d/%d", stream, view, events, aro.DumpTable(a.Dump()), a.VerifPathIDsInUse(), a.RouteCount()))
	}
	return strings.Join(out, " "), v, nontrivial
}

// ---------------------------------------------------------------- import side

func sourceAttrs(s aro.Sess) routingtable.SessionAttrs {
	sa := routingtable.SessionAttrs{
		RouterID: aro.LocalIP, Type: route.BGPPathType, LocalIP: aro.IP(aro.LocalIP), PeerIP: aro.IP(0x03030303),
		LocalASN: aro.LocalASN, PeerASN: 65001, IBGP: s.IBGP(), AddPathRX: true,
	}
	if s.IBGP() {
		sa.PeerASN = aro.LocalASN
	}
	return sa
}

func dumpSorted(rs []*route.Route, hidden bool) string {
	type ent struct {
		id int
		s  string
	}
	var es []ent
	for _, r := range rs {
		ps := r.Paths()
		if len(ps) == 0 {
			continue
		}
		it := make([]string, len(ps))
		for i, p := range ps {
			it[i] = aro.Render(p)
			if hidden && p.HiddenReason != route.HiddenReasonNone {
				it[i] = "h" + it[i]
			}
		}
		sort.Strings(it)
		es = append(es, ent{aro.PfxID(r.Prefix()), strings.Join(it, ",")})
	}
	if len(es) == 0 {
		return "-"
	}
	sort.Slice(es, func(i, j int) bool { return es[i].id < es[j].id })
	out := make([]string, len(es))
	for i, e := range es {
		out[i] = fmt.Sprintf("%d=%s", e.id, e.s)
	}
	return strings.Join(out, ";")
}

func runImport(c tcase) (obs string, v *verdict, nontrivial bool) {
	build := func(ch aro.Chain) (*adjRIBIn.AdjRIBIn, *locRIB.LocRIB) {
		lr := locRIB.New("c12i")
		r := adjRIBIn.New(ch.Build(), vrf.NewUntrackedVRF("c12", 0), sourceAttrs(c.sess))
		r.Register(lr)
		return r, lr
	}
	rin, lr := build(c.chain)
	fail := func(sig, detail string) {
		if v == nil {
			v = &verdict{sig, detail}
		}
	}
	var out []string
	for i, o := range c.ops {
		rb, lb := dumpSorted(rin.Dump(), true), dumpSorted(lr.Dump(), false)
		switch o.kind {
		case 'i':
			rin.AddPath(aro.Pfx(o.pfx), o.path.Build())
		case 'o':
			lr.AddPath(aro.Pfx(o.pfx), o.path.Build())
		case 'y':
			rin.ReplaceFilterChain(o.chain.Build())
			nontrivial = true
			// ---- spec oracle: a session established with the new policy from the start, fed the same history
			r2, l2 := build(o.chain)
			for _, p := range c.ops[:i] {
				switch p.kind {
				case 'i':
					r2.AddPath(aro.Pfx(p.pfx), p.path.Build())
				case 'o':
					l2.AddPath(aro.Pfx(p.pfx), p.path.Build())
				}
			}
			if got, want := dumpSorted(lr.Dump(), false), dumpSorted(l2.Dump(), false); got != want {
				fail("import-replace-not-converged", fmt.Sprintf("op %d (%s): Loc-RIB %s, established with the new policy %s", i, o.token(), got, want))
			}
		}
		out = append(out, fmt.Sprintf("%s#%s#%s", rb, lb, dumpSorted(lr.Dump(), false)))
	}
	return strings.Join(out, " "), v, nontrivial
}

// ---------------------------------------------------------------- chain equality

var eqPool []aro.PS

func runEqual(c tcase) (obs string, v *verdict, nontrivial bool) {
	var out []string
	for i, o := range c.ops {
		x, y := o.chain.Build(), o.chain2.Build()
		eq := x.Equal(y)
		out = append(out, map[bool]string{true: "t", false: "f"}[eq])
		nontrivial = nontrivial || o.chain.Token() != o.chain2.Token()
		if !eq {
			continue
		}
		// ---- spec oracle: chains the server would not bother to replace must treat every route alike
		for pfx := 0; pfx < nPfx; pfx++ {
			for _, p := range eqPool {
				p1, r1 := x.Process(aro.Pfx(pfx), p.Build())
				p2, r2 := y.Process(aro.Pfx(pfx), p.Build())
				if r1 != r2 || (!r1 && aro.Render(p1) != aro.Render(p2)) {
					if v == nil {
						v = &verdict{"replacement-skipped-although-policies-differ", fmt.Sprintf("op %d: %s Equal %s, but prefix %d path %s: reject %v/%v, %s vs %s", i, o.chain.Token(), o.chain2.Token(), pfx, p.Token(), r1, r2, aro.Render(p1), aro.Render(p2))}
					}
				}
			}
		}
	}
	return strings.Join(out, " "), v, nontrivial
}

// ---------------------------------------------------------------- generators

// tweak returns a chain that differs from c in one place (an action's value, an action, a condition)
func tweak(r *hx.RNG, c aro.Chain) aro.Chain {
	d, _ := aro.ParseChain(c.Token())
	if len(d) == 0 {
		return aro.Chain{{{Acts: []aro.Act{{Kind: "lp", V: 200}}}}}
	}
	f := r.Intn(len(d))
	t := r.Intn(len(d[f]))
	tm := &d[f][t]
	switch r.Intn(4) {
	case 0, 1:
		if len(tm.Acts) > 0 {
			a := &tm.Acts[r.Intn(len(tm.Acts))]
			switch a.Kind {
			case "lp", "med":
				a.V += 100
			case "nh":
				a.V ^= 0x01000000
			case "pp":
				if r.Bool() {
					a.V--
				} else {
					a.Times++
				}
			default:
				*a = aro.Act{Kind: "med", V: 9}
			}
		}
	case 2:
		tm.Acts = append([]aro.Act{aro.GenAct(r)}, tm.Acts...)
	case 3:
		if len(tm.Conds) == 0 {
			tm.Conds = [][]int{{r.Intn(nPfx)}}
		} else {
			tm.Conds = nil
		}
	}
	return d
}

func genExport(r *hx.RNG, t *hx.Trace) tcase {
	c := tcase{kind: 'E', sess: aro.GenSess(r, 40), chain: aro.GenChain(r, nPfx)}
	t.Count("E_sess_" + c.sess.Kind)
	o := aro.DefaultGen
	o.Static = 8
	if r.Chance(60) {
		o.OwnSrc, o.BadComm = 0, 0
	}
	type ent struct {
		pfx int
		p   aro.PS
	}
	compareKey := func(p aro.PS) string {
		q := p
		q.OTC, q.ASLen, q.Redist = 0, 0, 0
		return q.Token()
	}
	var inLoc []ent
	var pool []aro.PS
	cur := c.chain
	n := 5 + r.Intn(12)
	for i := 0; i < n; i++ {
		k := r.Intn(100)
		switch {
		case k < 45 || len(inLoc) == 0:
			var p aro.PS
			if len(pool) > 0 && r.Chance(35) {
				p = aro.Mutate(r, pool[r.Intn(len(pool))])
			} else {
				p = aro.GenPath(r, o)
			}
			if p.Static && p.StaticNil {
				p.StaticNil, p.NH = false, 0x05050505
			}
			if c.sess.Kind == "ibgp" && !p.Static && r.Chance(60) {
				p.EBGP = true
			}
			pool = append(pool, p)
			e := ent{r.Intn(nPfx), p}
			dup := false
			for _, x := range inLoc {
				if x.pfx == e.pfx && compareKey(x.p) == compareKey(e.p) {
					dup = true
				}
			}
			if dup {
				continue
			}
			inLoc = append(inLoc, e)
			c.ops = append(c.ops, op{kind: 'a', pfx: e.pfx, path: e.p})
		case k < 58:
			j := r.Intn(len(inLoc))
			e := inLoc[j]
			inLoc = append(inLoc[:j], inLoc[j+1:]...)
			c.ops = append(c.ops, op{kind: 'r', pfx: e.pfx, path: e.p})
		default:
			nw := aro.GenChain(r, nPfx)
			if r.Chance(50) {
				nw = tweak(r, cur)
			}
			cur = nw
			c.ops = append(c.ops, op{kind: 'x', chain: nw})
			t.Count("E_replace")
		}
	}
	return c
}

func genImport(r *hx.RNG, t *hx.Trace) tcase {
	c := tcase{kind: 'I', sess: aro.Sess{Kind: []string{"ebgp", "ibgp"}[r.Intn(2)], Role: "-"}, chain: aro.GenChain(r, nPfx)}
	t.Count("I_sess_" + c.sess.Kind)
	o := aro.GenOpts{Extras: true}
	cur := c.chain
	n := 4 + r.Intn(10)
	used := map[string]bool{}
	for i := 0; i < n; i++ {
		k := r.Intn(100)
		switch {
		case k < 50:
			p := aro.GenPath(r, o)
			p.Src, p.BGPID = 0x03030303, 0x03030303
			p.EBGP = !c.sess.IBGP()
			p.PID = uint32(r.Intn(3))
			p.OTC = 0
			pfx := r.Intn(nPfx)
			key := fmt.Sprintf("%d/%d", pfx, p.PID)
			if used[key] {
				continue // an implicit replacement inside the Adj-RIB-In is not the subject here
			}
			used[key] = true
			c.ops = append(c.ops, op{kind: 'i', pfx: pfx, path: p})
		case k < 65:
			p := aro.GenPath(r, o)
			p.Src, p.BGPID, p.PID = 0x04040404, 0x04040404, 0
			pfx := r.Intn(nPfx)
			key := fmt.Sprintf("o%d", pfx)
			if used[key] {
				continue
			}
			used[key] = true
			c.ops = append(c.ops, op{kind: 'o', pfx: pfx, path: p})
		default:
			nw := aro.GenChain(r, nPfx)
			if r.Chance(55) {
				nw = tweak(r, cur)
			}
			cur = nw
			c.ops = append(c.ops, op{kind: 'y', chain: nw})
			t.Count("I_replace")
		}
	}
	return c
}

func genEqual(r *hx.RNG, t *hx.Trace) tcase {
	c := tcase{kind: 'Q'}
	for i := 0; i < 6; i++ {
		x := aro.GenChain(r, nPfx)
		var y aro.Chain
		switch r.Intn(3) {
		case 0:
			y, _ = aro.ParseChain(x.Token()) // the same policy, built anew
		case 1:
			y = tweak(r, x)
		default:
			y = aro.GenChain(r, nPfx)
		}
		c.ops = append(c.ops, op{kind: 'q', chain: x, chain2: y})
	}
	t.Count("Q")
	return c
}

func main() {
	cfg := hx.Parse()
	tr := hx.NewTrace(cfg.Out)
	pr := hx.NewRNG(99)
	for i := 0; i < 40; i++ {
		eqPool = append(eqPool, aro.GenPath(pr, aro.DefaultGen))
	}
	nviol := 0
	do := func(id string, c tcase) {
		var obs string
		var v *verdict
		var nt bool
		done := make(chan struct{})
		var panicked bool
		var pval interface{}
		go func() {
			panicked, pval = hx.Guard(func() {
				switch c.kind {
				case 'E':
					obs, v, nt = runExport(c)
				case 'I':
					obs, v, nt = runImport(c)
				case 'F':
					obs, v, nt = runFamily(c)
				default:
					obs, v, nt = runEqual(c)
				}
			})
			close(done)
		}()
		select {
		case <-done:
		case <-time.After(20 * time.Second):
			obs, v = "HANG", &verdict{"hang", "case did not finish within 20s"}
		}
		if panicked {
			obs, v = "PANIC", &verdict{"panic", fmt.Sprint(pval)}
		}
		tr.Case(id, nt, c.input(), obs)
		if v != nil {
			hx.Violation(id, v.sig, v.detail)
			nviol++
		}
	}
	if cfg.Mode == "replay" {
		for _, c := range hx.InputsFrom(cfg.Replay) {
			tc, err := parseCase(c[1])
			if err != nil {
				fmt.Println("HARNESS-ERROR bad replay input:", err)
				os.Exit(2)
			}
			do(c[0], tc)
		}
	} else {
		for _, c := range hx.InputsFrom(hx.CorpusFiles(cfg.Corpus)...) {
			tc, err := parseCase(c[1])
			if err != nil {
				fmt.Println("HARNESS-ERROR bad corpus case", c[0], err)
				os.Exit(2)
			}
			do("corpus-"+c[0], tc)
			tr.Count("corpus")
		}
		rng := hx.NewRNG(cfg.Seed)
		for i := 0; i < cfg.N; i++ {
			r := rng.Fork(uint64(i))
			switch i % 6 {
			case 0, 1:
				do(fmt.Sprintf("g%d", i), genExport(r, tr))
			case 2:
				do(fmt.Sprintf("g%d", i), genImport(r, tr))
			case 3, 4:
				do(fmt.Sprintf("g%d", i), genFamily(r, tr))
			default:
				do(fmt.Sprintf("g%d", i), genEqual(r, tr))
			}
		}
	}
	_ = filter.Chain{}
	tr.Close(cfg.Stats, map[string]interface{}{"spec_violations": nviol, "prefixes": nPfx})
}
