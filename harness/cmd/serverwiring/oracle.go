package main

// The property clauses, evaluated on the real objects after every event. Nothing here looks at a model: expectations
// come from the configuration and the history alone (which peers exist, which sessions are up, which chains are in
// force, what the remote ends announced).

import (
	"fmt"
	"sort"
	"strings"
	"time"

	bnet "github.com/bio-routing/bio-rd/net"
	"github.com/bio-routing/bio-rd/route"
	"github.com/bio-routing/bio-rd/routingtable"
	"github.com/bio-routing/bio-rd/routingtable/adjRIBOut"

	"verifharness/usx"
)

func pkey(p *route.Path) string {
	if p == nil || p.BGPPath == nil || p.BGPPath.BGPPathA == nil {
		return "non-bgp"
	}
	b, a := p.BGPPath, p.BGPPath.BGPPathA
	nh, src := "-", "-"
	if a.NextHop != nil {
		nh = a.NextHop.String()
	}
	if a.Source != nil {
		src = a.Source.String()
	}
	as := "-"
	if b.ASPath != nil {
		as = b.ASPath.String()
	}
	cl := ""
	if b.ClusterList != nil {
		for _, c := range *b.ClusterList {
			cl += fmt.Sprintf("%d ", c)
		}
	}
	return fmt.Sprintf("as=[%s] nh=%s lp=%d orig=%d cl=[%s] src=%s ebgp=%v otc=%d", as, nh, a.LocalPref, a.OriginatorID, strings.TrimSpace(cl), src, a.EBGP, a.OnlyToCustomer)
}

type entry struct {
	pfx  *bnet.Prefix
	path *route.Path
}

func entries(routes []*route.Route) map[string]entry {
	out := map[string]entry{}
	for _, r := range routes {
		for _, p := range r.Paths() {
			out[r.Prefix().String()+" "+pkey(p)] = entry{r.Prefix(), p}
		}
	}
	return out
}

func sortedKeys(m map[string]entry) []string {
	ks := make([]string, 0, len(m))
	for k := range m {
		ks = append(ks, k)
	}
	sort.Strings(ks)
	return ks
}

func fingerprint(t routingtable.AdjRIBOut) string {
	if t == nil {
		return "nil"
	}
	return fmt.Sprintf("%d:%s", t.RouteCount(), strings.Join(sortedKeys(entries(t.Dump())), ";"))
}

func (w *world) peerBySource(vi int, src *bnet.IP) *peerRT {
	if src == nil {
		return nil
	}
	for _, pr := range w.peers {
		if pr.spec.VRF == vi && pr.addr.Equal(*src) {
			return pr
		}
	}
	return nil
}

func rewriting(sp peerSpec) bool { return sp.Kind != 'i' }

type viols struct{ l []violation }

func (v *viols) add(prop, sig, f string, a ...interface{}) {
	v.l = append(v.l, violation{prop, sig, fmt.Sprintf(f, a...)})
}

// refView: what a table built from scratch for the configured session holds when it registers with the Loc-RIB now
func (w *world) refView(pr *peerRT, afi int, chain string) map[string]entry {
	rib := w.rib(pr.spec.VRF, afi)
	ref := adjRIBOut.New(rib, w.expectedSA(pr), effChain(chain))
	rib.RegisterWithOptions(ref, apOpts(pr.spec))
	rib.Unregister(ref)
	return entries(ref.Dump())
}

func (w *world) evalAll(wire bool) []violation {
	v := &viols{}
	w.evalN++

	// the peer manager knows exactly the configured peers
	n := 0
	for _, pr := range w.peers {
		if pr.present {
			n++
		}
	}
	if got := serverPeerCount(w); got != n {
		v.add("C07", "peer-manager-out-of-step", "server knows %d peers, %d are configured", got, n)
	}

	for vi := range w.vrfs {
		for _, afi := range []int{4, 6} {
			w.evalLocRIB(v, vi, afi)
		}
		w.evalContrib(v, vi)
	}

	for _, pr := range w.peers {
		if !pr.up || pr.sess == nil {
			continue
		}
		for _, afi := range []int{4, 6} {
			if fs := pr.sess.fam[afi]; fs != nil {
				w.evalRibOut(v, pr, fs)
			}
		}
		if wire {
			w.evalWire(v, pr)
		}
	}

	for _, fs := range w.gone {
		if fp := fingerprint(fs.ribOut); fp != fs.goneFP {
			v.add("C04", "delivery-after-session-gone", "peer %d afi %d: the Adj-RIB-Out of the session that is gone changed from {%s} to {%s}", fs.peer, fs.afi, fs.goneFP, fp)
			v.add("C07", "adjribout-of-gone-session-still-fed", "peer %d afi %d: the Adj-RIB-Out of the session that is gone changed from {%s} to {%s}", fs.peer, fs.afi, fs.goneFP, fp)
		}
		if fs.sender != nil {
			if !fs.sndChecked {
				// the stand-in closes the channel right after it took the Destroy of fsmAddressFamily.dispose
				fs.sndChecked = true
				fs.sndLeaked = !waitFor(func() bool {
					select {
					case <-fs.sender.Destroyed():
						return true
					default:
						return false
					}
				}, settle)
			}
			if fs.sndLeaked {
				v.add("C07", "update-sender-of-gone-session-still-running", "peer %d afi %d", fs.peer, fs.afi)
				v.add("C10", "update-sender-of-gone-session-still-running", "peer %d afi %d: the sender of an earlier establishment still writes to the peer's connection", fs.peer, fs.afi)
			}
		}
	}
	return v.l
}

func (w *world) evalLocRIB(v *viols, vi, afi int) {
	rib := w.rib(vi, afi)
	want := uint64(1 + len(w.upPeers(vi, afi)))
	if got := rib.ClientCount(); got > want {
		v.add("C07", "adjribout-still-registered", "vrf %d afi %d: Loc-RIB has %d clients, %d sessions are up (+1 observer)", vi, afi, got, want-1)
	} else if got < want {
		v.add("C08", "adjribout-not-registered", "vrf %d afi %d: Loc-RIB has %d clients, %d sessions are up (+1 observer)", vi, afi, got, want-1)
	}
	have := map[[2]int]bool{}
	for _, r := range rib.Dump() {
		idx := pfxIdx(r.Prefix())
		for _, p := range r.Paths() {
			if p.BGPPath == nil || p.BGPPath.BGPPathA == nil {
				continue
			}
			pr := w.peerBySource(vi, p.BGPPath.BGPPathA.Source)
			if pr == nil {
				continue // injected by the harness
			}
			if !pr.up || pr.sess == nil || pr.sess.fam[afi] == nil {
				v.add("C07", "route-of-gone-session-in-locrib", "vrf %d: %s %s learned from peer %d whose session is gone", vi, r.Prefix(), pkey(p), pr.k)
				continue
			}
			have[[2]int{pr.k, idx}] = true
			rec, ok := pr.sess.fam[afi].ann[idx]
			if !ok {
				continue
			}
			if rec.mustHide {
				v.add("C06", "loop-path-installed:"+rec.hideWhy, "vrf %d: %s %s from peer %d (variant %s) is in the Loc-RIB", vi, r.Prefix(), pkey(p), pr.k, rec.variant)
				continue
			}
			if _, rej := effChain(pr.imp).Process(r.Prefix(), p); rej && pr.impReplaced {
				v.add("C12", "locrib-has-path-the-import-policy-in-force-rejects", "vrf %d: %s from peer %d, import chain %s", vi, r.Prefix(), pr.k, pr.imp)
			}
		}
	}
	for _, pr := range w.upPeers(vi, afi) {
		if !pr.impReplaced {
			continue
		}
		fs := pr.sess.fam[afi]
		if fs == nil {
			continue
		}
		for idx, rec := range fs.ann {
			if rec.variant != "n" || have[[2]int{pr.k, idx}] {
				continue
			}
			probe := w.injPath(afi, 0)
			if _, rej := effChain(pr.imp).Process(pfxOf(afi, idx), probe); !rej {
				v.add("C12", "locrib-lacks-path-the-import-policy-in-force-accepts", "vrf %d: %s from peer %d, import chain %s", vi, pfxOf(afi, idx), pr.k, pr.imp)
			}
		}
	}
}

func (w *world) evalContrib(v *viols, vi int) {
	vr := w.vrfs[vi]
	for j, asn := range localAS {
		want := false
		for _, pr := range w.peers {
			if pr.up && pr.spec.VRF == vi && pr.spec.LAS == j {
				want = true
			}
		}
		got := vr.IsContributingASN(asn)
		if got && !want {
			v.add("C07", "asn-contribution-not-withdrawn", "vrf %d: ASN %d still contributes, no session with that local ASN is up", vi, asn)
		}
		if !got && want {
			v.add("C07", "asn-contribution-of-live-session-withdrawn", "vrf %d: ASN %d does not contribute although a session with that local ASN is up", vi, asn)
		}
	}
	for _, cid := range []uint32{w.rid, explicitCluster, 0} {
		want := false
		for _, pr := range w.peers {
			if pr.up && pr.spec.VRF == vi && pr.spec.rr() && w.clusterOf(pr.spec) == cid {
				want = true
			}
		}
		got := vr.IsContributingClusterID(cid)
		if got && !want {
			v.add("C07", "cluster-contribution-not-withdrawn", "vrf %d: cluster id %d still contributes, no route reflector client session with it is up", vi, cid)
		}
		if !got && want {
			v.add("C07", "cluster-contribution-of-live-session-missing", "vrf %d: cluster id %d does not contribute although a route reflector client session with it is up", vi, cid)
		}
	}
}

func (w *world) evalRibOut(v *viols, pr *peerRT, fs *famSess) {
	real := entries(fs.ribOut.Dump())
	ref := w.refView(pr, fs.afi, pr.exp)
	refAll := ref
	if pr.exp != "A" {
		refAll = w.refView(pr, fs.afi, "A")
	}
	// known C08 finding stale-after-withdraw-on-rewriting-session: an entry this establishment exported and the
	// Loc-RIB withdrew afterwards stays in the table of a session that rewrites attributes. withdrawnOK collects
	// exactly those: exported at an earlier quiescent point, and gone from what the Loc-RIB offers at a later one.
	for k := range fs.prevOffer {
		if _, still := refAll[k]; !still && fs.everExported[k] {
			fs.withdrawnOK[k] = true
		}
	}
	fs.prevOffer = map[string]bool{}
	for k := range refAll {
		fs.prevOffer[k] = true
	}
	for k := range ref {
		fs.everExported[k] = true
		if _, ok := fs.firstExp[k]; !ok {
			fs.firstExp[k] = w.evNo
		}
	}
	fs.stale = map[string]bool{}
	var extra, missing []string
	for _, k := range sortedKeys(real) {
		if _, ok := ref[k]; ok {
			continue
		}
		if rewriting(pr.spec) {
			// (the prefix a busy disposal announces comes and goes within one event)
			_, still := refAll[k]
			first, exported := fs.firstExp[k]
			byHistory := exported && w.wdAt[wdKey(pr.spec.VRF, fs.afi, real[k].pfx, real[k].path.BGPPath.BGPPathA.Source)] >= first
			// (a best-only table is also handed, and has taken away again, whatever is best in between while
			// another path of the prefix is withdrawn or replaced)
			if !pr.spec.AP && !still && w.wdAt[wdKey(pr.spec.VRF, fs.afi, real[k].pfx, nil)] > fs.estabEv {
				byHistory = true
			}
			if idx := pfxIdx(real[k].pfx); fs.withdrawnOK[k] || byHistory || (idx >= 12 && idx < 16 && !still) {
				fs.stale[k] = true
				continue
			}
		}
		extra = append(extra, k)
	}
	for _, k := range sortedKeys(ref) {
		if _, ok := real[k]; !ok {
			missing = append(missing, k)
		}
	}
	if len(extra)+len(missing) > 0 {
		d := fmt.Sprintf("peer %d (%s) afi %d export chain %s: Adj-RIB-Out has beyond the export view {%s}, lacks {%s}", pr.k, pr.spec.token(), fs.afi, pr.exp,
			strings.Join(extra, "; "), strings.Join(missing, "; "))
		v.add("C08", "adjribout-differs-from-export-view", "%s", d)
		if pr.expReplaced {
			v.add("C12", "adjribout-differs-from-fresh-session-under-current-export-policy", "%s", d)
		}
	}
	if pr.spec.rr() {
		cid := w.clusterOf(pr.spec)
		for _, k := range sortedKeys(real) {
			p := real[k].path
			if p.BGPPath.BGPPathA.EBGP {
				continue
			}
			if cl := p.BGPPath.ClusterList; cl == nil || len(*cl) == 0 || (*cl)[0] != cid {
				v.add("C09", "reflected-route-cluster-list-head", "peer %d afi %d: %s, the session's cluster id is %d", pr.k, fs.afi, k, cid)
			}
		}
	}
	if pr.provider {
		for _, k := range sortedKeys(real) {
			if idx := pfxIdx(real[k].pfx); idx >= 20 && idx < 24 {
				v.add("C09", "otc-route-in-adjribout-towards-provider", "peer %d afi %d: %s", pr.k, fs.afi, k)
			}
		}
	}
	if pr.spec.AP {
		ids := map[string]string{}
		for _, k := range sortedKeys(real) {
			e := real[k]
			ik := fmt.Sprintf("%s#%d", e.pfx, e.path.BGPPath.PathIdentifier)
			if o, dup := ids[ik]; dup && o != k {
				v.add("C11", "path-id-not-unique", "peer %d afi %d: %s names {%s} and {%s}", pr.k, fs.afi, ik, o, k)
			}
			ids[ik] = k
		}
	}
}

type wireEntry struct {
	attrs map[uint8][]byte
}

// evalWire replays what the remote end of the current connection received and compares it with the Adj-RIB-Outs
func (w *world) evalWire(v *viols, pr *peerRT) {
	sp := pr.spec
	view := map[string]wireEntry{}
	for i, b := range pr.sess.conn.written() {
		if msgType(b) != 2 {
			continue
		}
		u, err := usx.DecodeUpdate(b, usx.Cfg{Fam: "v4", AddPath: sp.AP, ASN4: true})
		afi := 4
		if err != nil && strings.Contains(err.Error(), "afi/safi") {
			u, err = usx.DecodeUpdate(b, usx.Cfg{Fam: "v6", AddPath: sp.AP, ASN4: true})
			afi = 6
		}
		if err != nil {
			v.add("C10", "undecodable-update-on-the-wire", "peer %d message #%d: %v", pr.k, i, err)
			continue
		}
		if u.EoR {
			continue
		}
		if !sp.has(afi) {
			v.add("C10", "update-for-family-not-configured", "peer %d message #%d afi %d", pr.k, i, afi)
			continue
		}
		for _, n := range u.Withdrawn {
			delete(view, fmt.Sprintf("%d %s#%d", afi, n.P.Net(), n.PID))
		}
		for _, n := range u.Announced {
			view[fmt.Sprintf("%d %s#%d", afi, n.P.Net(), n.PID)] = wireEntry{attrs: u.Attrs}
		}
	}
	tables := map[string]string{}
	for _, afi := range []int{4, 6} {
		fs := pr.sess.fam[afi]
		if fs == nil {
			continue
		}
		real := entries(fs.ribOut.Dump())
		for _, k := range sortedKeys(real) {
			e := real[k]
			id := uint32(0)
			if sp.AP {
				id = e.path.BGPPath.PathIdentifier
			}
			wk := fmt.Sprintf("%d %s#%d", afi, e.pfx, id)
			we, ok := view[wk]
			if !ok {
				if fs.stale[k] {
					continue
				}
				v.add("C10", "peer-view-lacks-route-of-adjribout", "peer %d: %s {%s}", pr.k, wk, k)
				continue
			}
			tables[wk] = k
			want := usx.ExpectedAttrs(usx.Cfg{ASN4: true, IBGP: sp.ibgp(), RR: sp.rr()}, e.path)
			for _, tc := range []uint8{2, 9, 10} {
				if string(we.attrs[tc]) != string(want[tc]) {
					if sp.AP {
						v.add("C11", "path-id-names-a-different-path-at-the-peer", "peer %d: %s attribute %d on the wire %v, in the Adj-RIB-Out %v {%s}", pr.k, wk, tc, we.attrs[tc], want[tc], k)
					}
					v.add("C10", "peer-view-attributes-differ-from-adjribout", "peer %d: %s attribute %d on the wire %v, in the Adj-RIB-Out %v {%s}", pr.k, wk, tc, we.attrs[tc], want[tc], k)
					break
				}
			}
			if sp.rr() && !e.path.BGPPath.BGPPathA.EBGP {
				cid := w.clusterOf(sp)
				if cl := we.attrs[10]; len(cl) < 4 || uint32(cl[0])<<24|uint32(cl[1])<<16|uint32(cl[2])<<8|uint32(cl[3]) != cid {
					v.add("C09", "reflected-route-cluster-list-head-on-the-wire", "peer %d: %s CLUSTER_LIST %v, the session's cluster id is %d", pr.k, wk, cl, cid)
				}
			}
		}
	}
	var ks []string
	for k := range view {
		ks = append(ks, k)
	}
	sort.Strings(ks)
	if pr.provider {
		for _, k := range ks {
			for _, afi := range []int{4, 6} {
				for idx := 20; idx < 24; idx++ {
					if strings.HasPrefix(k, fmt.Sprintf("%d %s#", afi, pfxOf(afi, idx))) {
						v.add("C09", "otc-route-advertised-to-provider", "peer %d: the remote end of the current connection (role provider) holds %s, a route that carries OTC", pr.k, k)
					}
				}
			}
		}
	}
	for _, k := range ks {
		if _, ok := tables[k]; !ok {
			v.add("C10", "peer-view-has-route-not-in-adjribout", "peer %d: the replay of the UPDATEs of the current connection holds %s, the Adj-RIB-Out does not", pr.k, k)
			if sp.AP {
				v.add("C11", "path-id-at-the-peer-unknown-to-adjribout", "peer %d: %s", pr.k, k)
			}
		}
	}
}

// check evaluates all clauses; a failing clause is re-evaluated until it holds or the settle time is over (lag of
// goroutines that are about to end is not a violation). Once a case has a confirmed violation it is no longer waited for.
func (w *world) check(wire bool, where string) {
	vs := w.evalAll(wire)
	if len(vs) > 0 && len(w.viol) == 0 {
		deadline := time.Now().Add(settle)
		for len(vs) > 0 && time.Now().Before(deadline) {
			time.Sleep(2 * time.Millisecond)
			vs = w.evalAll(wire)
		}
	}
	for _, x := range vs {
		key := x.prop + "|" + x.sig
		if w.seen[key] {
			continue
		}
		w.seen[key] = true
		x.detail = where + ": " + x.detail
		w.viol = append(w.viol, x)
	}
}
