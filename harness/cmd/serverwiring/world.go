package main

// One case = one real bgpServer with its VRFs, peers, FSM goroutines and in-memory connections, driven through the
// server's public API and the remote ends of the connections.

import (
	"fmt"
	"net"
	"runtime"
	"sort"
	"strings"
	"sync/atomic"
	"time"

	bnet "github.com/bio-routing/bio-rd/net"
	"github.com/bio-routing/bio-rd/protocols/bgp/server"
	"github.com/bio-routing/bio-rd/protocols/bgp/types"
	"github.com/bio-routing/bio-rd/route"
	"github.com/bio-routing/bio-rd/routingtable"
	"github.com/bio-routing/bio-rd/routingtable/filter"
	"github.com/bio-routing/bio-rd/routingtable/filter/actions"
	"github.com/bio-routing/bio-rd/routingtable/locRIB"
	"github.com/bio-routing/bio-rd/routingtable/vrf"
)

var (
	watchdog = 15 * time.Second // anything that can block is given up after this
	settle   = 2 * time.Second  // a failing clause is re-evaluated for this long before it is reported
)

var localAS = []uint32{65000, 65010}

const explicitCluster = uint32(0x0c0c0c01)

func routerID(rid int) uint32 { return 0x0a000001 + uint32(rid) }

func (p peerSpec) v6transport() bool { return p.Fam == '6' }

func localIP(sp peerSpec) bnet.IP {
	if sp.v6transport() {
		return bnet.IPv6FromBlocks(0x2001, 0xdb8, 0xffff, 0, 0, 0, 0, 1)
	}
	return bnet.IPv4FromOctets(192, 0, 2, 1)
}

func peerIP(k int, sp peerSpec) bnet.IP {
	if sp.v6transport() {
		return bnet.IPv6FromBlocks(0x2001, 0xdb8, 0xffff, 0, 0, 0, 0, uint16(0x10+k))
	}
	return bnet.IPv4FromOctets(192, 0, 2, uint8(10+k))
}

func peerASN(k int, sp peerSpec) uint32 {
	if sp.ibgp() {
		return localAS[sp.LAS]
	}
	return 65100 + uint32(k)
}

func peerBGPID(k int) uint32 { return 0x0b000010 + uint32(k) }

func pfxOf(afi, idx int) *bnet.Prefix {
	if afi == 4 {
		return bnet.NewPfx(bnet.IPv4FromOctets(10, uint8(idx), 0, 0), 16).Ptr()
	}
	return bnet.NewPfx(bnet.IPv6FromBlocks(0x2001, 0xdb8, uint16(idx), 0, 0, 0, 0, 0), 48).Ptr()
}

func pfxBytes(afi, idx int) ([]byte, int) {
	if afi == 4 {
		return []byte{10, byte(idx), 0, 0}, 16
	}
	return []byte{0x20, 0x01, 0x0d, 0xb8, byte(idx >> 8), byte(idx), 0, 0, 0, 0, 0, 0, 0, 0, 0, 0}, 48
}

// pfxIdx: index of a pool prefix (-1: not from the pool)
func pfxIdx(p *bnet.Prefix) int {
	for _, afi := range []int{4, 6} {
		for i := 0; i < 64; i++ {
			if pfxOf(afi, i).Equal(p) {
				return i
			}
		}
	}
	return -1
}

func mkChain(s string) filter.Chain {
	switch s {
	case "A":
		return filter.NewAcceptAllFilterChain()
	case "D":
		return filter.NewDrainFilterChain()
	case "H":
		cond := filter.NewTermConditionWithRouteFilters(
			filter.NewRouteFilter(bnet.NewPfx(bnet.IPv4FromOctets(10, 0, 0, 0), 15).Ptr(), filter.NewInRangeMatcher(15, 32)),
			filter.NewRouteFilter(bnet.NewPfx(bnet.IPv6FromBlocks(0x2001, 0xdb8, 0, 0, 0, 0, 0, 0), 47).Ptr(), filter.NewInRangeMatcher(47, 128)),
		)
		return filter.Chain{filter.NewFilter("H", []*filter.Term{
			filter.NewTerm("some", []*filter.TermCondition{cond}, []actions.Action{&actions.RejectAction{}}),
			filter.NewTerm("rest", []*filter.TermCondition{}, []actions.Action{&actions.AcceptAction{}}),
		})}
	}
	return filter.Chain{}
}

// effChain: the chain in force for a configured chain (an empty chain stands for "nothing passes")
func effChain(s string) filter.Chain {
	if s == "E" {
		return filter.NewDrainFilterChain()
	}
	return mkChain(s)
}

// ---------------------------------------------------------------- blocking Loc-RIB client

type blocker struct {
	armed   atomic.Bool
	entered chan struct{}
	release chan struct{}
}

func (b *blocker) arm() {
	b.entered, b.release = make(chan struct{}), make(chan struct{})
	b.armed.Store(true)
}
func (b *blocker) hit() {
	if b.armed.CompareAndSwap(true, false) {
		close(b.entered)
		<-b.release
	}
}
func (b *blocker) AddPath(*bnet.Prefix, *route.Path) error            { b.hit(); return nil }
func (b *blocker) AddPathInitialDump(*bnet.Prefix, *route.Path) error { return nil }
func (b *blocker) EndOfRIB()                                          {}
func (b *blocker) RemovePath(*bnet.Prefix, *route.Path) bool          { return true }
func (b *blocker) ReplacePath(*bnet.Prefix, *route.Path, *route.Path) {}
func (b *blocker) RefreshRoute(*bnet.Prefix, []*route.Path)           {}
func (b *blocker) Dispose()                                           {}

// ---------------------------------------------------------------- run-time state

type annRec struct {
	variant  string
	mustHide bool
	hideWhy  string
}

// famSess: one address family of one establishment
type famSess struct {
	peer         int
	afi          int
	ribOut       routingtable.AdjRIBOut
	sender       *server.VerifWiringSender
	everExported map[string]bool
	prevOffer    map[string]bool
	withdrawnOK  map[string]bool
	stale        map[string]bool
	sndChecked   bool
	sndLeaked    bool
	firstExp     map[string]int
	estabEv      int
	ann          map[int]annRec
	gone         bool
	goneFP       string
	reportedC04  bool
	reportedSnd  bool
}

type session struct {
	fam  map[int]*famSess
	conn *fconn
}

type peerRT struct {
	k           int
	spec        peerSpec
	present     bool
	up          bool
	imp, exp    string
	impReplaced bool
	expReplaced bool
	h           *server.VerifWiringPeer
	fsm         *server.VerifWiringFSM // carries (carried) the latest session
	sess        *session
	watched     []*server.VerifWiringFSM
	addr        *bnet.IP
	provider    bool // the OPEN of the current establishment announced role provider (and roles are configured)
}

type ribKey struct{ vrf, afi int }

type violation struct{ prop, sig, detail string }

type world struct {
	tc     tcase
	id     string
	srv    server.BGPServer
	lm     *fakeLM
	rid    uint32
	vrfs   []*vrf.VRF
	blk    map[ribKey]*blocker
	peers  []*peerRT
	gone   []*famSess
	inj    map[[3]int]*route.Path
	viol   []violation
	seen   map[string]bool
	herr   string
	notes  []string
	connN  int
	evalN  int
	zombie map[*server.VerifWiringFSM]bool
	evNo   int
	wdAt   map[string]int // (vrf, afi, prefix, source) -> number of the last event that made the Loc-RIB withdraw that path
}

func wdKey(vi, afi int, pfx *bnet.Prefix, src *bnet.IP) string {
	return fmt.Sprintf("%d|%d|%s|%s", vi, afi, pfx, src)
}

// withdrawn: the history says the Loc-RIB lost (or replaced) the path of that source for that prefix in this event
func (w *world) withdrawn(vi, afi, idx int, src *bnet.IP) {
	if w.wdAt == nil {
		w.wdAt = map[string]int{}
	}
	w.wdAt[wdKey(vi, afi, pfxOf(afi, idx), src)] = w.evNo
	w.wdAt[wdKey(vi, afi, pfxOf(afi, idx), nil)] = w.evNo
}

func (w *world) withdrawnAllOf(pr *peerRT) {
	if pr.sess == nil {
		return
	}
	for afi, fs := range pr.sess.fam {
		for idx := range fs.ann {
			w.withdrawn(pr.spec.VRF, afi, idx, pr.addr)
		}
	}
}

func waitFor(cond func() bool, d time.Duration) bool {
	deadline := time.Now().Add(d)
	for i := 0; ; i++ {
		if cond() {
			return true
		}
		if time.Now().After(deadline) {
			return cond()
		}
		if i < 200 {
			runtime.Gosched()
		} else if i < 2000 {
			time.Sleep(50 * time.Microsecond)
		} else {
			time.Sleep(time.Millisecond)
		}
	}
}

func (w *world) rib(vi, afi int) *locRIB.LocRIB {
	if afi == 4 {
		return w.vrfs[vi].IPv4UnicastRIB()
	}
	return w.vrfs[vi].IPv6UnicastRIB()
}

func newWorld(id string, tc tcase) *world {
	w := &world{tc: tc, id: id, rid: routerID(tc.RID), blk: map[ribKey]*blocker{}, inj: map[[3]int]*route.Path{},
		seen: map[string]bool{}, zombie: map[*server.VerifWiringFSM]bool{}}
	for vi := 0; vi < tc.NV; vi++ {
		name := vrf.DefaultVRFName
		if vi > 0 {
			name = fmt.Sprintf("vrf%d", vi)
		}
		v := vrf.NewUntrackedVRF(name, uint64(vi))
		v.CreateIPv4UnicastLocRIB("inet.0")
		v.CreateIPv6UnicastLocRIB("inet6.0")
		w.vrfs = append(w.vrfs, v)
		for _, afi := range []int{4, 6} {
			b := &blocker{}
			w.blk[ribKey{vi, afi}] = b
			w.rib(vi, afi).RegisterWithOptions(b, routingtable.ClientOptions{BestOnly: true})
		}
	}
	w.srv = server.NewBGPServer(server.BGPServerConfig{RouterID: w.rid, DefaultVRF: w.vrfs[0]})
	w.lm = newFakeLM()
	w.srv.SetListenerManager(w.lm)
	w.srv.Start()
	for k, sp := range tc.Peers {
		w.peers = append(w.peers, &peerRT{k: k, spec: sp, imp: "A", exp: "A", addr: peerIP(k, sp).Dedup()})
	}
	return w
}

func (w *world) fail(prop, sig, detail string) {
	key := prop + "|" + sig
	if w.seen[key] {
		return
	}
	w.seen[key] = true
	w.viol = append(w.viol, violation{prop, sig, detail})
}

func (w *world) harnessErr(f string, a ...interface{}) {
	if w.herr == "" {
		w.herr = fmt.Sprintf(f, a...)
	}
}

func afiNum(afi int) uint16 {
	if afi == 4 {
		return 1
	}
	return 2
}

func (w *world) clusterOf(sp peerSpec) uint32 {
	switch sp.Kind {
	case 'r':
		return w.rid
	case 'c':
		return explicitCluster
	}
	return 0
}

func apOpts(sp peerSpec) routingtable.ClientOptions {
	if sp.AP {
		return routingtable.ClientOptions{MaxPaths: 3}
	}
	return routingtable.ClientOptions{BestOnly: true}
}

func (w *world) peerConfig(pr *peerRT) server.PeerConfig {
	sp := pr.spec
	c := server.PeerConfig{
		AdminEnabled: true,
		KeepAlive:    30 * time.Second,
		HoldTime:     90 * time.Second,
		LocalAddress: localIP(sp).Ptr(),
		PeerAddress:  peerIP(pr.k, sp).Ptr(),
		LocalAS:      localAS[sp.LAS],
		PeerAS:       peerASN(pr.k, sp),
		Passive:      sp.Passive,
		RouterID:     w.rid,
		VRF:          w.vrfs[sp.VRF],
	}
	if sp.Role {
		c.PeerRole = server.PeerConfigRoleCustomer
	}
	if sp.rr() {
		c.RouteReflectorClient = true
		if sp.Kind == 'c' {
			c.RouteReflectorClusterID = explicitCluster
		}
	}
	af := func() *server.AddressFamilyConfig {
		return &server.AddressFamilyConfig{ImportFilterChain: mkChain(pr.imp), ExportFilterChain: mkChain(pr.exp), AddPathSend: apOpts(sp)}
	}
	if sp.has(4) {
		c.IPv4 = af()
	}
	if sp.has(6) {
		c.IPv6 = af()
	}
	return c
}

// expectedSA: the session attributes the configuration calls for (not read from the peer object)
func (w *world) expectedSA(pr *peerRT) routingtable.SessionAttrs {
	sp := pr.spec
	return routingtable.SessionAttrs{
		RouterID:               w.rid,
		PeerIP:                 peerIP(pr.k, sp).Dedup(),
		LocalIP:                localIP(sp).Dedup(),
		Type:                   route.BGPPathType,
		IBGP:                   sp.ibgp(),
		LocalASN:               localAS[sp.LAS],
		PeerASN:                peerASN(pr.k, sp),
		RouteReflectorClient:   sp.rr(),
		ClusterID:              w.clusterOf(sp),
		AddPathTX:              sp.AP,
		DefaultLocalPreference: 100,
		PeerRoleEnabled:        sp.Role,
		PeerRoleLocal:          roleLocal(sp),
		PeerRoleAdvByPeer:      pr.provider,
	}
}

// roleLocal: RFC 9234 role value we announce (customer = 3; 255 = none, as the server translates "off")
func roleLocal(sp peerSpec) uint8 {
	if sp.Role {
		return 3
	}
	return 255
}

func (w *world) upPeers(vi, afi int) []*peerRT {
	var out []*peerRT
	for _, pr := range w.peers {
		if pr.up && pr.spec.VRF == vi && pr.spec.has(afi) {
			out = append(out, pr)
		}
	}
	return out
}

// ---------------------------------------------------------------- events

func (w *world) watchNew(pr *peerRT) []*server.VerifWiringFSM {
	var fresh []*server.VerifWiringFSM
	for _, f := range pr.h.FSMs() {
		known := false
		for _, x := range pr.watched {
			if x == f {
				known = true
			}
		}
		if !known {
			f.Watch()
			pr.watched = append(pr.watched, f)
			fresh = append(fresh, f)
		}
	}
	return fresh
}

func (w *world) evAdd(e event) string {
	pr := w.peers[e.P]
	if pr.present {
		return "already"
	}
	pr.imp, pr.exp = "A", "A"
	if len(e.S) == 2 {
		pr.imp, pr.exp = e.S[:1], e.S[1:]
	}
	pr.impReplaced, pr.expReplaced = false, false
	if err := w.srv.AddPeer(w.peerConfig(pr)); err != nil {
		w.harnessErr("AddPeer(%d): %v", pr.k, err)
		return "error"
	}
	pr.h = server.VerifWiringPeerOf(w.srv, w.vrfs[pr.spec.VRF], pr.addr)
	if pr.h == nil {
		w.fail("C07", "added-peer-unknown-to-server", fmt.Sprintf("peer %d", pr.k))
		return "unknown"
	}
	pr.present, pr.up, pr.fsm, pr.sess, pr.watched = true, false, nil, nil, nil
	w.watchNew(pr)
	return "ok"
}

func (w *world) newConn(pr *peerRT) *fconn {
	w.connN++
	return newConn(fmt.Sprintf("p%d#%d", pr.k, w.connN), net.IP(localIP(pr.spec).Bytes()), net.IP(peerIP(pr.k, pr.spec).Bytes()))
}

func (w *world) openBytes(pr *peerRT, provider bool) []byte {
	sp := pr.spec
	return msgOpen(peerASN(pr.k, sp), 90, peerBGPID(pr.k), sp.has(6), sp.AP && sp.has(4), sp.AP && sp.has(6), provider)
}

// handshake: OPEN + KEEPALIVE from the remote end, wait for Established with attached RIBs, take the senders
func (w *world) handshake(pr *peerRT, f *server.VerifWiringFSM, c *fconn, provider bool) string {
	c.send(w.openBytes(pr, provider))
	c.send(msgKeepalive())
	ok := waitFor(func() bool {
		st, ribs := f.State()
		return (st == "established" && ribs) || c.isClosed()
	}, watchdog)
	st, ribs := f.State()
	if !ok || c.isClosed() || st != "established" || !ribs {
		w.harnessErr("peer %d: session did not reach Established (state %s, closed %v)", pr.k, st, c.isClosed())
		return "not-established"
	}
	if !waitFor(c.consumed, watchdog) {
		w.harnessErr("peer %d: receiver did not come back for more", pr.k)
		return "stuck"
	}
	s := &session{fam: map[int]*famSess{}, conn: c}
	for _, afi := range []int{4, 6} {
		if !pr.spec.has(afi) {
			continue
		}
		snap, okf := f.Family(afiNum(afi))
		if !okf || !snap.Initialized || snap.AdjRIBOut == nil {
			w.fail("C08", "established-family-without-adjribout", fmt.Sprintf("peer %d afi %d", pr.k, afi))
			continue
		}
		fs := &famSess{peer: pr.k, afi: afi, ribOut: snap.AdjRIBOut, everExported: map[string]bool{}, prevOffer: map[string]bool{}, withdrawnOK: map[string]bool{}, firstExp: map[string]int{}, stale: map[string]bool{}, ann: map[int]annRec{}}
		fs.sender = f.TakeSender(afiNum(afi))
		fs.estabEv = w.evNo
		s.fam[afi] = fs
	}
	pr.up, pr.fsm, pr.sess, pr.provider = true, f, s, provider && pr.spec.Role
	return "up"
}

func (w *world) evConn(e event) string {
	pr := w.peers[e.P]
	c := w.newConn(pr)
	if !pr.present {
		if !w.lm.offer(c, w.vrfs[pr.spec.VRF], watchdog) {
			w.harnessErr("accept channel not served")
			return "stuck"
		}
		if !waitFor(c.isClosed, watchdog) {
			w.fail("C07", "connection-of-unknown-peer-not-closed", fmt.Sprintf("peer %d", pr.k))
			return "open"
		}
		return "refused"
	}
	if pr.up {
		return "skip-up"
	}
	if !w.lm.offer(c, w.vrfs[pr.spec.VRF], watchdog) {
		w.harnessErr("accept channel not served")
		return "stuck"
	}
	var fresh []*server.VerifWiringFSM
	if !waitFor(func() bool { fresh = append(fresh, w.watchNew(pr)...); return len(fresh) > 0 || c.isClosed() }, watchdog) || len(fresh) != 1 {
		w.harnessErr("peer %d: no FSM for the inbound connection (%d new, closed %v)", pr.k, len(fresh), c.isClosed())
		return "no-fsm"
	}
	return w.handshake(pr, fresh[0], c, e.S == "p")
}

func (w *world) evReconn(e event) string {
	pr := w.peers[e.P]
	if !pr.present || pr.up || pr.fsm == nil {
		return "skip"
	}
	if st, _ := pr.fsm.State(); st != "idle" {
		return "skip-" + st
	}
	select {
	case <-pr.fsm.Ended():
		return "skip-ended"
	default:
	}
	if !pr.fsm.Admin(server.ManualStart, watchdog) {
		w.harnessErr("peer %d: idle FSM does not take ManualStart", pr.k)
		return "stuck"
	}
	c := w.newConn(pr)
	if !pr.fsm.Connect(c, watchdog) {
		w.harnessErr("peer %d: FSM in Connect does not take the connection", pr.k)
		return "stuck"
	}
	return w.handshake(pr, pr.fsm, c, e.S == "p")
}

// sessionGone: the harness' expectation flips to "down"; the tables of the establishment are remembered
func (w *world) sessionGone(pr *peerRT) {
	w.withdrawnAllOf(pr)
	if pr.sess != nil {
		for _, afi := range []int{4, 6} {
			if fs := pr.sess.fam[afi]; fs != nil {
				fs.gone = true
				fs.goneFP = fingerprint(fs.ribOut)
				w.gone = append(w.gone, fs)
			}
		}
	}
	pr.up = false
}

func (w *world) loopASN(j int) uint32 { return localAS[j] }

func (w *world) evUpd(e event) string {
	pr := w.peers[e.P]
	if !pr.up || !pr.spec.has(e.F) {
		return "skip"
	}
	sp := pr.spec
	fs := pr.sess.fam[e.F]
	if fs == nil {
		return "skip"
	}
	pb, pl := pfxBytes(e.F, e.A)
	u := updSpec{v6: e.F == 6, pfx: pb, plen: pl, localPref: sp.ibgp()}
	w.withdrawn(sp.VRF, e.F, e.A, pr.addr)
	if e.Op == "wd" {
		u.withdraw = true
		delete(fs.ann, e.A)
	} else {
		if !sp.ibgp() {
			u.asPath = append(u.asPath, peerASN(pr.k, sp))
		}
		u.asPath = append(u.asPath, 64600+uint32(pr.k))
		rec := annRec{variant: e.S}
		vi := sp.VRF
		anyUp := func(pred func(q *peerRT) bool) bool {
			for _, q := range w.peers {
				if q.up && q.spec.VRF == vi && pred(q) {
					return true
				}
			}
			return false
		}
		switch e.S {
		case "a0", "a1":
			j := int(e.S[1] - '0')
			u.asPath = append(u.asPath, w.loopASN(j), 64999)
			if anyUp(func(q *peerRT) bool { return q.spec.LAS == j }) {
				rec.mustHide, rec.hideWhy = true, "asn"
			}
		case "c":
			u.cluster = []uint32{0x0d0d0d0d, explicitCluster}
			if anyUp(func(q *peerRT) bool { return q.spec.Kind == 'c' }) {
				rec.mustHide, rec.hideWhy = true, "cluster"
			}
		case "r":
			u.cluster = []uint32{w.rid}
			if anyUp(func(q *peerRT) bool { return q.spec.Kind == 'r' }) {
				rec.mustHide, rec.hideWhy = true, "default-cluster"
			}
		case "o":
			u.origID = w.rid
			rec.mustHide, rec.hideWhy = true, "originator"
		}
		if e.F == 6 {
			u.nextHop = peerIP(pr.k, peerSpec{Fam: '6'}).Bytes()
		} else {
			u.nextHop = []byte{192, 0, 2, byte(10 + pr.k)}
		}
		fs.ann[e.A] = rec
	}
	c := pr.sess.conn
	c.send(msgUpdate(u))
	c.send(msgKeepalive())
	if !waitFor(c.consumed, watchdog) {
		w.harnessErr("peer %d: UPDATE not consumed", pr.k)
		return "stuck"
	}
	if c.isClosed() {
		w.harnessErr("peer %d: session went down on a well-formed UPDATE %s", pr.k, e.token())
		return "down"
	}
	return "ok"
}

func (w *world) evFlap(e event) string {
	pr := w.peers[e.P]
	if !pr.up {
		return "skip"
	}
	c := pr.sess.conn
	switch e.S {
	case "g":
		c.send(msgGarbage())
	case "o":
		c.send(w.openBytes(pr, false))
	case "h":
		okh := false
		for try := 0; try < 8 && !okh; try++ {
			pr.fsm.ExpireHold()
			okh = waitFor(c.isClosed, 1500*time.Millisecond)
		}
	default:
		c.send(msgNotification(6, 0))
	}
	if !waitFor(c.isClosed, watchdog) {
		w.harnessErr("peer %d: session did not go down on flap %q", pr.k, e.S)
		return "stuck"
	}
	// (the FSM publishes its next state after the handler returned; a connection arriving in between is refused as a collision)
	if !waitFor(func() bool { st, _ := pr.fsm.State(); return st != "established" }, watchdog) {
		w.fail("C07", "state-still-established-after-session-teardown", fmt.Sprintf("peer %d flap %q", pr.k, e.S))
	}
	w.sessionGone(pr)
	return "down"
}

func (w *world) evPolicy(e event) string {
	pr := w.peers[e.P]
	var err error
	if e.Op == "imp" {
		err = w.srv.ReplaceImportFilterChain(w.vrfs[pr.spec.VRF], pr.addr, mkChain(e.S))
	} else {
		err = w.srv.ReplaceExportFilterChain(w.vrfs[pr.spec.VRF], pr.addr, mkChain(e.S))
	}
	if !pr.present {
		if err == nil {
			w.fail("C07", "policy-replacement-accepted-for-unknown-peer", fmt.Sprintf("peer %d", pr.k))
		}
		return "refused"
	}
	if err != nil {
		w.harnessErr("replace %s on peer %d: %v", e.Op, pr.k, err)
		return "error"
	}
	if e.Op == "imp" {
		w.withdrawnAllOf(pr)
		pr.imp, pr.impReplaced = e.S, true
	} else {
		pr.exp, pr.expReplaced = e.S, true
	}
	return "ok"
}

func (w *world) evDispose(e event) string {
	pr := w.peers[e.P]
	v := w.vrfs[pr.spec.VRF]
	if !pr.present {
		w.srv.DisposePeer(v, pr.addr)
		return "noop"
	}
	fsms := append([]*server.VerifWiringFSM{}, pr.watched...)
	fsms = append(fsms, w.watchNew(pr)...)
	mode := e.S
	if !pr.up {
		mode = "i"
	}
	done := make(chan struct{})
	dispose := func() {
		go func() {
			w.srv.DisposePeer(v, pr.addr)
			close(done)
		}()
	}
	returned := func() bool {
		select {
		case <-done:
			return true
		default:
			return false
		}
	}
	res := "idle"
	switch mode {
	case "k": // the FSM goroutine is blocked writing a KEEPALIVE to its own (stalled) connection
		c := pr.sess.conn
		c.setGate(true)
		busy := pr.fsm.FireKeepalive() && waitFor(func() bool { return c.writersBlocked() > 0 }, watchdog)
		dispose()
		if busy {
			waitFor(func() bool { return returned() || pr.h.StopInProgress() }, watchdog)
			res = "busy-write"
		}
		c.setGate(false)
	case "l": // the FSM goroutine is held inside an UPDATE by a slow Loc-RIB client
		afi := 4
		if !pr.spec.has(4) {
			afi = 6
		}
		b := w.blk[ribKey{pr.spec.VRF, afi}]
		b.arm()
		pb, pl := pfxBytes(afi, 12+pr.k)
		u := updSpec{v6: afi == 6, pfx: pb, plen: pl, localPref: pr.spec.ibgp(), asPath: []uint32{64600 + uint32(pr.k)}}
		if !pr.spec.ibgp() {
			u.asPath = []uint32{peerASN(pr.k, pr.spec), 64600 + uint32(pr.k)}
		}
		if afi == 6 {
			u.nextHop = peerIP(pr.k, peerSpec{Fam: '6'}).Bytes()
		} else {
			u.nextHop = []byte{192, 0, 2, byte(10 + pr.k)}
		}
		c := pr.sess.conn
		c.send(msgUpdate(u))
		c.send(msgKeepalive())
		entered := false
		waitFor(func() bool {
			select {
			case <-b.entered:
				entered = true
				return true
			default:
			}
			return c.consumed()
		}, watchdog)
		dispose()
		if entered {
			waitFor(func() bool { return returned() || pr.h.StopInProgress() }, watchdog)
			close(b.release)
			res = "busy-update"
		} else {
			b.armed.Store(false)
		}
	default:
		dispose()
	}
	if !waitFor(returned, watchdog) {
		w.fail("C07", "dispose-does-not-return", fmt.Sprintf("peer %d mode %s", pr.k, res))
		w.harnessErr("DisposePeer hangs")
		return "hang"
	}
	// expectation: the peer is gone, its session (if any) is gone, all of its FSMs end
	for _, f := range fsms {
		f := f
		if w.zombie[f] {
			continue
		}
		ended := waitFor(func() bool {
			select {
			case <-f.Ended():
				return true
			default:
				return false
			}
		}, watchdog/3)
		if !ended {
			st, _ := f.State()
			w.zombie[f] = true
			w.fail("C07", "fsm-of-disposed-peer-still-running", fmt.Sprintf("peer %d fsm#%d state %s after dispose(%s)", pr.k, f.Index, st, res))
		}
	}
	if pr.up {
		w.sessionGone(pr)
	}
	pr.present, pr.up = false, false
	return res
}

func (w *world) injPath(afi, j int) *route.Path {
	var src bnet.IP
	if afi == 4 {
		src = bnet.IPv4FromOctets(198, 51, 100, uint8(1+j))
	} else {
		src = bnet.IPv6FromBlocks(0x2001, 0xdb8, 0xeeee, 0, 0, 0, 0, uint16(1+j))
	}
	otc := uint32(0)
	if j >= 4 && j < 8 {
		otc = 64800 // routes 4.. carry OTC (RFC 9234): never to be sent to a provider
	}
	return &route.Path{Type: route.BGPPathType, BGPPath: &route.BGPPath{
		ASPath:    types.NewASPath([]uint32{64700 + uint32(j), 64800}),
		ASPathLen: 2,
		BGPPathA:  &route.BGPPathA{Source: src.Dedup(), NextHop: src.Dedup(), BGPIdentifier: 0x0e000001 + uint32(j), LocalPref: 100, EBGP: true, OnlyToCustomer: otc},
	}}
}

func (w *world) evLoc(e event) string {
	key := [3]int{e.P, e.A, e.F}
	rib := w.rib(e.P, e.F)
	pfx := pfxOf(e.F, 16+e.A)
	if e.Op == "loc" {
		if w.inj[key] != nil {
			return "skip"
		}
		p := w.injPath(e.F, e.A)
		w.inj[key] = p
		rib.AddPath(pfx, p.Copy())
		return "ok"
	}
	p := w.inj[key]
	if p == nil {
		return "skip"
	}
	delete(w.inj, key)
	w.withdrawn(e.P, e.F, 16+e.A, p.BGPPath.BGPPathA.Source)
	rib.RemovePath(pfx, p.Copy())
	return "ok"
}

// drain: every update sender that was not destroyed takes the steps its ticker goroutine would take
func (w *world) drainSenders() {
	var all []*famSess
	all = append(all, w.gone...)
	for _, pr := range w.peers {
		if pr.up && pr.sess != nil {
			for _, fs := range pr.sess.fam {
				all = append(all, fs)
			}
		}
	}
	sort.Slice(all, func(i, j int) bool {
		if all[i].peer != all[j].peer {
			return all[i].peer < all[j].peer
		}
		return all[i].afi < all[j].afi
	})
	for _, fs := range all {
		if fs.sender == nil {
			continue
		}
		select {
		case <-fs.sender.Destroyed():
			continue
		default:
		}
		us := fs.sender.US
		for _, k := range us.Keys() {
			if b := us.Dequeue(k); b != nil {
				us.EmitAll(b)
			}
		}
	}
}

func (w *world) step(e event) string {
	switch e.Op {
	case "add":
		return w.evAdd(e)
	case "conn":
		return w.evConn(e)
	case "reconn":
		return w.evReconn(e)
	case "upd", "wd":
		return w.evUpd(e)
	case "flap":
		return w.evFlap(e)
	case "imp", "exp":
		return w.evPolicy(e)
	case "disp":
		return w.evDispose(e)
	case "loc", "unloc":
		return w.evLoc(e)
	case "drain":
		w.drainSenders()
		return "ok"
	}
	return "?"
}

// run executes the history; returns the observation string
func (w *world) run() string {
	var obs []string
	for i, e := range w.tc.Ev {
		w.evNo = i + 1
		r := w.step(e)
		obs = append(obs, r)
		if w.herr != "" {
			obs = append(obs, fmt.Sprintf("harness-error@%d", i))
			return strings.Join(obs, ",")
		}
		w.check(e.Op == "drain", fmt.Sprintf("after #%d %s", i, e.token()))
	}
	// epilogue: everything is disposed; a fresh route in every Loc-RIB must reach nobody
	for _, pr := range w.peers {
		if pr.present {
			w.evDispose(event{Op: "disp", P: pr.k, S: "i"})
		}
	}
	w.check(false, "after final disposal")
	for vi := range w.vrfs {
		for _, afi := range []int{4, 6} {
			w.rib(vi, afi).AddPath(pfxOf(afi, 24), w.injPath(afi, 9))
		}
	}
	w.drainSenders()
	w.check(false, "after probe routes")
	obs = append(obs, fmt.Sprintf("viol=%d", len(w.viol)))
	return strings.Join(obs, ",")
}
