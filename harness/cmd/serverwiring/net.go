package main

// In-memory plumbing of the server-wiring stage: a listener manager whose accept channel the harness feeds,
// connections the harness plays the remote end of (inbound byte queue, recorded and gateable writes), and hand-made
// wire messages (RFC 4271 / 4760 / 7911 / 4456; independent of bio-rd's packet encoder).

import (
	"encoding/binary"
	"io"
	"net"
	"sync"
	"time"

	"github.com/bio-routing/bio-rd/net/tcp"
	"github.com/bio-routing/bio-rd/routingtable/vrf"
)

// ---------------------------------------------------------------- listener manager

type fakeLM struct{ ch chan tcp.ConnWithVRF }

func newFakeLM() *fakeLM                                      { return &fakeLM{ch: make(chan tcp.ConnWithVRF)} }
func (l *fakeLM) ListenAddrsPerVRF(v *vrf.VRF) []string       { return nil }
func (l *fakeLM) GetListeners(v *vrf.VRF) []tcp.ListenerI     { return nil }
func (l *fakeLM) CreateListenersIfNotExists(v *vrf.VRF) error { return nil }
func (l *fakeLM) AcceptCh() chan tcp.ConnWithVRF              { return l.ch }
func (l *fakeLM) offer(c net.Conn, v *vrf.VRF, d time.Duration) bool {
	t := time.NewTimer(d)
	defer t.Stop()
	select {
	case l.ch <- tcp.ConnWithVRF{Conn: c, VRF: v}:
		return true
	case <-t.C:
		return false
	}
}

// ---------------------------------------------------------------- connection

type fconn struct {
	mu             sync.Mutex
	cond           *sync.Cond
	in             []byte
	readers        int
	closed         bool // closed by the server
	gated          bool
	blockedWriters int
	out            [][]byte
	laddr, raddr   net.Addr
	tag            string
}

func newConn(tag string, local, remote net.IP) *fconn {
	c := &fconn{tag: tag, laddr: &net.TCPAddr{IP: local, Port: 179}, raddr: &net.TCPAddr{IP: remote, Port: 31337}}
	c.cond = sync.NewCond(&c.mu)
	return c
}

func (c *fconn) Read(b []byte) (int, error) {
	c.mu.Lock()
	defer c.mu.Unlock()
	for len(c.in) == 0 && !c.closed {
		c.readers++
		c.cond.Broadcast()
		c.cond.Wait()
		c.readers--
	}
	if len(c.in) == 0 {
		return 0, io.EOF
	}
	n := copy(b, c.in)
	c.in = c.in[n:]
	return n, nil
}

func (c *fconn) Write(b []byte) (int, error) {
	c.mu.Lock()
	defer c.mu.Unlock()
	for c.gated && !c.closed {
		c.blockedWriters++
		c.cond.Broadcast()
		c.cond.Wait()
		c.blockedWriters--
	}
	if c.closed {
		return 0, net.ErrClosed
	}
	c.out = append(c.out, append([]byte(nil), b...))
	return len(b), nil
}

func (c *fconn) Close() error {
	c.mu.Lock()
	c.closed = true
	c.cond.Broadcast()
	c.mu.Unlock()
	return nil
}

func (c *fconn) LocalAddr() net.Addr                { return c.laddr }
func (c *fconn) RemoteAddr() net.Addr               { return c.raddr }
func (c *fconn) SetDeadline(t time.Time) error      { return nil }
func (c *fconn) SetReadDeadline(t time.Time) error  { return nil }
func (c *fconn) SetWriteDeadline(t time.Time) error { return nil }

// ---- the remote end

func (c *fconn) send(b []byte) {
	c.mu.Lock()
	c.in = append(c.in, b...)
	c.cond.Broadcast()
	c.mu.Unlock()
}

func (c *fconn) isClosed() bool {
	c.mu.Lock()
	defer c.mu.Unlock()
	return c.closed
}

// consumed: everything sent so far was read AND the reader came back for more, i.e. the receiver goroutine has handed
// the last message to the FSM goroutine over the unbuffered msgRecvCh: all earlier messages are fully processed.
func (c *fconn) consumed() bool {
	c.mu.Lock()
	defer c.mu.Unlock()
	return c.closed || (len(c.in) == 0 && c.readers > 0)
}

func (c *fconn) setGate(g bool) {
	c.mu.Lock()
	c.gated = g
	c.cond.Broadcast()
	c.mu.Unlock()
}

func (c *fconn) writersBlocked() int {
	c.mu.Lock()
	defer c.mu.Unlock()
	return c.blockedWriters
}

func (c *fconn) written() [][]byte {
	c.mu.Lock()
	defer c.mu.Unlock()
	return append([][]byte(nil), c.out...)
}

// ---------------------------------------------------------------- wire messages

func be16(b []byte, v uint16) []byte { return append(b, byte(v>>8), byte(v)) }
func be32(b []byte, v uint32) []byte { return append(b, byte(v>>24), byte(v>>16), byte(v>>8), byte(v)) }

func frame(typ byte, body []byte) []byte {
	b := make([]byte, 0, 19+len(body))
	for i := 0; i < 16; i++ {
		b = append(b, 0xff)
	}
	b = be16(b, uint16(19+len(body)))
	b = append(b, typ)
	return append(b, body...)
}

func msgKeepalive() []byte { return frame(4, nil) }

func msgNotification(code, sub byte) []byte { return frame(3, []byte{code, sub}) }

// msgGarbage: a header whose marker is damaged
func msgGarbage() []byte {
	b := msgKeepalive()
	b[3] = 0
	return b
}

// msgOpen: version 4, 2-octet AS, hold time, identifier, capabilities: 4-octet AS, MP IPv6 (if v6), add-path receive per family
func msgOpen(asn uint32, hold uint16, id uint32, v6 bool, ap4, ap6 bool, provider bool) []byte {
	var caps []byte
	if provider {
		caps = append(caps, 9, 1, 0) // RFC 9234 role capability: provider
	}
	if v6 {
		caps = append(caps, 1, 4, 0, 2, 0, 1)
	}
	caps = append(caps, 65, 4)
	caps = be32(caps, asn)
	var ap []byte
	if ap4 {
		ap = append(ap, 0, 1, 1, 1)
	}
	if ap6 {
		ap = append(ap, 0, 2, 1, 1)
	}
	if len(ap) > 0 {
		caps = append(caps, 69, byte(len(ap)))
		caps = append(caps, ap...)
	}
	a16 := uint16(23456)
	if asn < 65536 {
		a16 = uint16(asn)
	}
	body := []byte{4}
	body = be16(body, a16)
	body = be16(body, hold)
	body = be32(body, id)
	body = append(body, byte(2+len(caps)), 2, byte(len(caps)))
	body = append(body, caps...)
	return frame(1, body)
}

func nlriBytes(ip []byte, l int) []byte {
	return append([]byte{byte(l)}, ip[:(l+7)/8]...)
}

// updSpec is one UPDATE of the remote end
type updSpec struct {
	v6        bool
	withdraw  bool
	pfx       []byte // address bytes
	plen      int
	asPath    []uint32
	nextHop   []byte
	localPref bool
	origID    uint32
	cluster   []uint32
}

func msgUpdate(u updSpec) []byte {
	var wd, attrs, nlri []byte
	n := nlriBytes(u.pfx, u.plen)
	if u.withdraw {
		if !u.v6 {
			wd = n
		} else {
			v := []byte{0, 2, 1}
			v = append(v, n...)
			attrs = append(attrs, 0x80, 15, byte(len(v)))
			attrs = append(attrs, v...)
		}
	} else {
		attrs = append(attrs, 0x40, 1, 1, 0)
		ap := []byte{2, byte(len(u.asPath))}
		for _, a := range u.asPath {
			ap = be32(ap, a)
		}
		if len(u.asPath) == 0 {
			ap = nil
		}
		attrs = append(attrs, 0x40, 2, byte(len(ap)))
		attrs = append(attrs, ap...)
		if !u.v6 {
			attrs = append(attrs, 0x40, 3, 4)
			attrs = append(attrs, u.nextHop[:4]...)
		}
		if u.localPref {
			attrs = append(attrs, 0x40, 5, 4)
			attrs = be32(attrs, 100)
		}
		if u.origID != 0 {
			attrs = append(attrs, 0x80, 9, 4)
			attrs = be32(attrs, u.origID)
		}
		if len(u.cluster) > 0 {
			attrs = append(attrs, 0x80, 10, byte(4*len(u.cluster)))
			for _, c := range u.cluster {
				attrs = be32(attrs, c)
			}
		}
		if u.v6 {
			v := []byte{0, 2, 1, 16}
			v = append(v, u.nextHop[:16]...)
			v = append(v, 0)
			v = append(v, n...)
			attrs = append(attrs, 0x80, 14, byte(len(v)))
			attrs = append(attrs, v...)
		} else {
			nlri = n
		}
	}
	var body []byte
	body = be16(body, uint16(len(wd)))
	body = append(body, wd...)
	body = be16(body, uint16(len(attrs)))
	body = append(body, attrs...)
	body = append(body, nlri...)
	return frame(2, body)
}

func msgType(b []byte) byte {
	if len(b) < 19 {
		return 0
	}
	return b[18]
}

var _ = binary.BigEndian
