// serverwiring: shared cross-property stage (C04 C06 C07 C08 C09 C10 C11 C12). Drives the real bgpServer through
// generated server-level histories and evaluates the property clauses on the real objects after every event.
// Output: SPEC-VIOLATION prop=Cnn case=<id> sig=<signature> <detail> (one line per violated clause and case).
package main

import (
	"fmt"
	"os"
	"runtime/debug"
	"sort"
	"strings"
	"sync"
	"time"

	"github.com/bio-routing/bio-rd/protocols/bgp/server"

	"verifharness/hx"
	"verifharness/usx"
)

func serverPeerCount(w *world) int { return server.VerifWiringPeerCount(w.srv) }

type result struct {
	id    string
	input string
	obs   string
	viol  []violation
	herr  string
	tmpl  string
	nt    bool
	dur   time.Duration
}

func runCase(id string, tc tcase) (res result) {
	res = result{id: id, input: tc.input(), tmpl: tc.Tmpl}
	t0 := time.Now()
	defer func() {
		res.dur = time.Since(t0)
		if r := recover(); r != nil {
			res.herr = fmt.Sprintf("panic on the harness goroutine: %v | %s", r, strings.ReplaceAll(string(debug.Stack()), "\n", " | "))
		}
	}()
	w := newWorld(id, tc)
	res.obs = w.run()
	res.viol = w.viol
	res.herr = w.herr
	ups := 0
	for _, o := range strings.Split(res.obs, ",") {
		if o == "up" {
			ups++
		}
	}
	res.nt = ups > 0
	return res
}

func main() {
	cfg := hx.Parse()
	usx.Quiet()
	tr := hx.NewTrace(cfg.Out)

	type job struct {
		id string
		tc tcase
	}
	var jobs []job
	bad := 0
	load := func(files []string, prefix string) {
		for _, in := range hx.InputsFrom(files...) {
			tc, err := parseCase(in[1])
			if err != nil {
				fmt.Printf("HARNESS-ERROR prop=* unparsable case %s: %v\n", in[0], err)
				bad++
				continue
			}
			tc.Tmpl = "corpus"
			jobs = append(jobs, job{prefix + in[0], tc})
		}
	}
	if cfg.Mode == "replay" {
		load([]string{cfg.Replay}, "")
	} else {
		load(hx.CorpusFiles(cfg.Corpus), "corpus-")
		rng := hx.NewRNG(cfg.Seed)
		if cfg.Mode == "search" {
			rng = hx.NewRNG(cfg.Seed*7919 + 13)
		}
		for i := 0; i < cfg.N; i++ {
			jobs = append(jobs, job{fmt.Sprintf("g%d", i), genCase(rng.Fork(uint64(i)), i, cfg.Tier)})
		}
	}

	results := make([]result, len(jobs))
	var mu sync.Mutex
	next, violCases := 0, 0
	var wg sync.WaitGroup
	workers := 4
	for k := 0; k < workers; k++ {
		wg.Add(1)
		go func() {
			defer wg.Done()
			for {
				mu.Lock()
				i := next
				stop := violCases >= 10 // a broken tree: a handful of witnesses is enough, each costs watchdog time
				next++
				mu.Unlock()
				if i >= len(jobs) || stop {
					return
				}
				r := runCase(jobs[i].id, jobs[i].tc)
				mu.Lock()
				results[i] = r
				if len(r.viol) > 0 || r.herr != "" {
					violCases++
				}
				mu.Unlock()
			}
		}()
	}
	wg.Wait()

	exit := 0
	nviol, nerr, ran := 0, 0, 0
	var slow time.Duration
	for _, r := range results {
		if r.id == "" {
			continue
		}
		ran++
		tr.Case(r.id, r.nt, r.input, r.obs)
		tr.Count("template:" + r.tmpl)
		for _, o := range strings.Split(r.obs, ",") {
			if strings.HasPrefix(o, "busy-") {
				tr.Count("dispose:" + o)
			}
		}
		if r.dur > slow {
			slow = r.dur
		}
		sort.SliceStable(r.viol, func(i, j int) bool { return r.viol[i].prop < r.viol[j].prop })
		for _, v := range r.viol {
			fmt.Printf("SPEC-VIOLATION prop=%s case=%s sig=%s %s | input: %s\n", v.prop, r.id, v.sig, v.detail, r.input)
			nviol++
			exit = 1
		}
		if r.herr != "" {
			fmt.Printf("HARNESS-ERROR prop=* case=%s %s | input: %s\n", r.id, r.herr, r.input)
			nerr++
			exit = 1
		}
	}
	tr.Close(cfg.Stats, map[string]interface{}{"violations": nviol, "harness_errors": nerr, "ran": ran, "slowest_case_ms": slow.Milliseconds()})
	if bad > 0 {
		exit = 1
	}
	os.Exit(exit)
}
