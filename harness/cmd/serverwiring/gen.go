package main

// Case descriptions (server-level histories), their token form and the generator.

import (
	"fmt"
	"strconv"
	"strings"

	"verifharness/hx"
)

// peerSpec: kind e (eBGP) | i (iBGP) | r (iBGP route reflector client, no explicit cluster id) | c (ditto, explicit
// cluster id); fam 4 | 6 | d(ual); ap: add-path send configured and negotiated; passive; las: local AS index; vrf.
type peerSpec struct {
	Kind    byte
	Fam     byte
	AP      bool
	Passive bool
	LAS     int
	VRF     int
	Role    bool // eBGP only: RFC 9234 role configured (we are the customer); the remote end may announce role provider
}

func (p peerSpec) token() string {
	ap, pa := 0, "a"
	if p.AP {
		ap = 1
	}
	if p.Passive {
		pa = "p"
	}
	ro := 0
	if p.Role {
		ro = 1
	}
	return fmt.Sprintf("%c%c%d%s%dv%d%d", p.Kind, p.Fam, ap, pa, p.LAS, p.VRF, ro)
}

func parsePeer(s string) (peerSpec, error) {
	if len(s) != 8 || s[5] != 'v' {
		return peerSpec{}, fmt.Errorf("bad peer %q", s)
	}
	p := peerSpec{Kind: s[0], Fam: s[1], AP: s[2] == '1', Passive: s[3] == 'p', LAS: int(s[4] - '0'), VRF: int(s[6] - '0'), Role: s[7] == '1'}
	if p.Role && p.Kind != 'e' {
		return peerSpec{}, fmt.Errorf("role on an iBGP peer %q", s)
	}
	if !strings.ContainsRune("eirc", rune(p.Kind)) || !strings.ContainsRune("46d", rune(p.Fam)) || p.LAS < 0 || p.LAS > 1 || p.VRF < 0 || p.VRF > 1 {
		return peerSpec{}, fmt.Errorf("bad peer %q", s)
	}
	return p, nil
}

func (p peerSpec) has(afi int) bool {
	return p.Fam == 'd' || (afi == 4 && p.Fam == '4') || (afi == 6 && p.Fam == '6')
}
func (p peerSpec) ibgp() bool { return p.Kind != 'e' }
func (p peerSpec) rr() bool   { return p.Kind == 'r' || p.Kind == 'c' }

// event: Op add conn reconn upd wd flap imp exp disp drain loc unloc; P peer (VRF for loc/unloc); A prefix index /
// injected route number; F family 4|6; S variant (upd: n a0 a1 c r o; flap: n g o h; imp/exp: E A D H; disp: i k l;
// conn/reconn: p = the remote end announces role provider; loc/unloc: t = the injected route carries OTC)
type event struct {
	Op string
	P  int
	A  int
	F  int
	S  string
}

func (e event) token() string {
	s := e.S
	if s == "" {
		s = "-"
	}
	return fmt.Sprintf("%s/%d/%d/%d/%s", e.Op, e.P, e.A, e.F, s)
}

func parseEvent(s string) (event, error) {
	f := strings.Split(s, "/")
	if len(f) != 5 {
		return event{}, fmt.Errorf("bad event %q", s)
	}
	var e event
	var err error
	e.Op = f[0]
	if e.P, err = strconv.Atoi(f[1]); err != nil {
		return e, err
	}
	if e.A, err = strconv.Atoi(f[2]); err != nil {
		return e, err
	}
	if e.F, err = strconv.Atoi(f[3]); err != nil {
		return e, err
	}
	if f[4] != "-" {
		e.S = f[4]
	}
	return e, nil
}

type tcase struct {
	RID   int
	NV    int
	Peers []peerSpec
	Ev    []event
	Tmpl  string
}

func (c tcase) input() string {
	var ps, es []string
	for _, p := range c.Peers {
		ps = append(ps, p.token())
	}
	for _, e := range c.Ev {
		es = append(es, e.token())
	}
	return fmt.Sprintf("rid=%d;nv=%d;peers=%s;ev=%s", c.RID, c.NV, strings.Join(ps, "+"), strings.Join(es, ","))
}

func parseCase(s string) (tcase, error) {
	var c tcase
	for _, part := range strings.Split(strings.TrimSpace(s), ";") {
		kv := strings.SplitN(part, "=", 2)
		if len(kv) != 2 {
			return c, fmt.Errorf("bad case part %q", part)
		}
		switch kv[0] {
		case "rid":
			c.RID, _ = strconv.Atoi(kv[1])
		case "nv":
			c.NV, _ = strconv.Atoi(kv[1])
		case "peers":
			for _, t := range strings.Split(kv[1], "+") {
				p, err := parsePeer(t)
				if err != nil {
					return c, err
				}
				c.Peers = append(c.Peers, p)
			}
		case "ev":
			if kv[1] == "" {
				continue
			}
			for _, t := range strings.Split(kv[1], ",") {
				e, err := parseEvent(t)
				if err != nil {
					return c, err
				}
				c.Ev = append(c.Ev, e)
			}
		}
	}
	if c.NV < 1 || c.NV > 2 || len(c.Peers) < 1 || len(c.Peers) > 3 {
		return c, fmt.Errorf("bad case %q", s)
	}
	for _, p := range c.Peers {
		if p.VRF >= c.NV {
			return c, fmt.Errorf("peer in unknown VRF")
		}
	}
	for _, e := range c.Ev {
		switch e.Op {
		case "loc", "unloc":
			if e.P < 0 || e.P >= c.NV {
				return c, fmt.Errorf("bad vrf in %s", e.token())
			}
		case "drain":
		default:
			if e.P < 0 || e.P >= len(c.Peers) {
				return c, fmt.Errorf("bad peer in %s", e.token())
			}
		}
	}
	return c, nil
}

// ---------------------------------------------------------------- generator

// genState is the generator's own view of where a history stands (what the property text lets one expect)
type genState struct {
	c       *tcase
	r       *hx.RNG
	present []bool
	up      []bool
	idleFSM []bool // has an inbound FSM that fell back to Idle (re-establishment on the same FSM is possible)
	ann     []map[int]bool
	loc     map[[3]int]bool
}

func newGenState(c *tcase, r *hx.RNG) *genState {
	g := &genState{c: c, r: r, loc: map[[3]int]bool{}}
	n := len(c.Peers)
	g.present, g.up, g.idleFSM = make([]bool, n), make([]bool, n), make([]bool, n)
	g.ann = make([]map[int]bool, n)
	for i := range g.ann {
		g.ann[i] = map[int]bool{}
	}
	return g
}

func (g *genState) push(e event) {
	c := g.c
	c.Ev = append(c.Ev, e)
	switch e.Op {
	case "add":
		g.present[e.P] = true
	case "conn", "reconn":
		if g.present[e.P] {
			g.up[e.P] = true
			g.idleFSM[e.P] = false
		}
	case "flap":
		if g.up[e.P] {
			g.up[e.P] = false
			g.idleFSM[e.P] = true
			g.ann[e.P] = map[int]bool{}
		}
	case "disp":
		g.present[e.P], g.up[e.P], g.idleFSM[e.P] = false, false, false
		g.ann[e.P] = map[int]bool{}
	case "upd":
		g.ann[e.P][e.A*10+e.F] = true
	case "wd":
		delete(g.ann[e.P], e.A*10+e.F)
	case "loc":
		g.loc[[3]int{e.P, e.A, e.F}] = true
	case "unloc":
		delete(g.loc, [3]int{e.P, e.A, e.F})
	}
}

func (g *genState) famOf(p int) int {
	sp := g.c.Peers[p]
	switch sp.Fam {
	case '4':
		return 4
	case '6':
		return 6
	}
	if g.r.Bool() {
		return 4
	}
	return 6
}

// pfxFor: add-path peers announce private prefixes only (the known C08 finding addpath-prefix-wiped-by-unexportable-arrival
// needs an add-path peer's own path next to other paths of the prefix)
func (g *genState) pfxFor(p int) int {
	if g.c.Peers[p].AP || g.r.Chance(20) {
		return 8 + p
	}
	return g.r.Intn(4)
}

func (g *genState) variant(p int) string {
	sp := g.c.Peers[p]
	x := g.r.Intn(100)
	switch {
	case x < 55:
		return "n"
	case x < 70:
		return "a0"
	case x < 80:
		return "a1"
	case x < 88:
		if sp.ibgp() {
			return "r"
		}
		return "a" + strconv.Itoa(sp.LAS)
	case x < 95:
		if sp.ibgp() {
			return "c"
		}
		return "n"
	default:
		if sp.ibgp() {
			return "o"
		}
		return "n"
	}
}

func (g *genState) roleOpen(p int) string {
	if g.c.Peers[p].Role && g.r.Chance(60) {
		return "p"
	}
	return ""
}

func (g *genState) chain() string { return []string{"E", "A", "D", "H", "A", "E"}[g.r.Intn(6)] }

func (g *genState) upd(p int) event {
	return event{Op: "upd", P: p, A: g.pfxFor(p), F: g.famOf(p), S: g.variant(p)}
}

func (g *genState) dispMode(p int) string {
	if !g.up[p] {
		return "i"
	}
	return []string{"i", "k", "l", "k", "l"}[g.r.Intn(5)]
}

func (g *genState) flapMode(tier string) string {
	x := g.r.Intn(40)
	switch {
	case x == 0 || (tier == "thorough" && x < 4):
		return "h"
	case x < 24:
		return "n"
	case x < 32:
		return "g"
	default:
		return "o"
	}
}

func (g *genState) randomEvent(tier string) {
	n := len(g.c.Peers)
	type cand struct {
		w int
		f func()
	}
	var cs []cand
	add := func(w int, f func()) { cs = append(cs, cand{w, f}) }
	for p := 0; p < n; p++ {
		p := p
		switch {
		case !g.present[p]:
			add(6, func() { g.push(event{Op: "add", P: p}) })
			add(1, func() { g.push(event{Op: []string{"imp", "exp", "conn", "disp"}[g.r.Intn(4)], P: p, S: "A"}) })
		case !g.up[p]:
			add(8, func() { g.push(event{Op: "conn", P: p, S: g.roleOpen(p)}) })
			if g.idleFSM[p] {
				add(10, func() { g.push(event{Op: "reconn", P: p, S: g.roleOpen(p)}) })
			}
		default:
			add(10, func() { g.push(g.upd(p)) })
			if len(g.ann[p]) > 0 {
				add(4, func() {
					for k := range g.ann[p] {
						g.push(event{Op: "wd", P: p, A: k / 10, F: k % 10})
						return
					}
				})
			}
			add(4, func() { g.push(event{Op: "flap", P: p, S: g.flapMode(tier)}) })
		}
		if g.present[p] {
			add(3, func() { g.push(event{Op: "imp", P: p, S: g.chain()}) })
			add(4, func() { g.push(event{Op: "exp", P: p, S: g.chain()}) })
			add(3, func() { g.push(event{Op: "disp", P: p, S: g.dispMode(p)}) })
		}
	}
	add(5, func() { g.push(event{Op: "drain"}) })
	add(3, func() {
		e := event{Op: "loc", P: g.r.Intn(g.c.NV), A: g.r.Intn(3), F: []int{4, 6}[g.r.Intn(2)]}
		if g.r.Chance(30) {
			e.S, e.A = "t", 4+g.r.Intn(2)
		}
		if g.loc[[3]int{e.P, e.A, e.F}] {
			e.Op = "unloc"
		}
		g.push(e)
	})
	tot := 0
	for _, c := range cs {
		tot += c.w
	}
	x := g.r.Intn(tot)
	for _, c := range cs {
		if x < c.w {
			c.f()
			return
		}
		x -= c.w
	}
}

func randPeer(r *hx.RNG, nv int) peerSpec {
	p := randPeer0(r, nv)
	p.Role = p.Kind == 'e' && r.Chance(35)
	return p
}

func randPeer0(r *hx.RNG, nv int) peerSpec {
	return peerSpec{
		Kind:    "eeirc"[r.Intn(5)],
		Fam:     "446d"[r.Intn(4)],
		AP:      r.Chance(25),
		Passive: !r.Chance(20),
		LAS:     []int{0, 0, 0, 1}[r.Intn(4)],
		VRF:     r.Intn(nv),
	}
}

var templates = []string{"v6-flap", "dispose-busy", "empty-export", "rr-default", "random", "dispose-other", "late-import", "random", "v6-flap", "random"}

// genCase builds case number i of a run
func genCase(r *hx.RNG, i int, tier string) tcase {
	c := tcase{RID: r.Intn(2), NV: 1}
	if r.Chance(30) {
		c.NV = 2
	}
	np := 2 + r.Intn(2)
	for k := 0; k < np; k++ {
		c.Peers = append(c.Peers, randPeer(r, c.NV))
	}
	c.Tmpl = templates[i%len(templates)]
	g := newGenState(&c, r)
	addAll := func() {
		for p := range c.Peers {
			if c.Peers[p].Kind != 'e' {
				c.Peers[p].Role = false
			}
			g.push(event{Op: "add", P: p})
		}
	}
	connAll := func() {
		for p := range c.Peers {
			g.push(event{Op: "conn", P: p, S: g.roleOpen(p)})
		}
	}
	fixRoles := func() {
		for p := range c.Peers {
			if c.Peers[p].Kind != 'e' {
				c.Peers[p].Role = false
			}
		}
	}
	same := func(p, q int) {
		c.Peers[q].VRF = c.Peers[p].VRF
		c.Peers[q].LAS = c.Peers[p].LAS
	}
	switch c.Tmpl {
	case "dispose-busy":
		addAll()
		connAll()
		g.push(g.upd(0))
		g.push(g.upd(1))
		if r.Bool() {
			g.push(event{Op: "drain"})
		}
		g.push(event{Op: "disp", P: 0, S: []string{"k", "l"}[r.Intn(2)]})
		g.push(event{Op: "loc", P: c.Peers[0].VRF, A: r.Intn(3), F: g.famOf(0)})
		g.push(event{Op: "drain"})
	case "empty-export":
		same(0, 1)
		if !c.Peers[0].has(4) || !c.Peers[1].has(4) {
			c.Peers[0].Fam, c.Peers[1].Fam = "4d"[r.Intn(2)], "4d"[r.Intn(2)]
		}
		c.Peers[0].Passive = true
		addAll()
		g.push(event{Op: "conn", P: 1})
		g.push(event{Op: "upd", P: 1, A: g.pfxFor(1), F: 4, S: "n"})
		g.push(event{Op: "loc", P: c.Peers[0].VRF, A: r.Intn(3), F: 4})
		g.push(event{Op: "exp", P: 0, S: "E"})
		g.push(event{Op: "conn", P: 0})
		g.push(event{Op: "drain"})
	case "rr-default":
		same(0, 1)
		c.Peers[0].Kind = 'r'
		c.Peers[1].Kind = "iirc"[r.Intn(4)]
		fixRoles()
		if c.Peers[0].Fam != c.Peers[1].Fam {
			c.Peers[1].Fam = 'd'
		}
		addAll()
		connAll()
		f := g.famOf(0)
		g.push(event{Op: "upd", P: 1, A: g.pfxFor(1), F: f, S: "n"})
		g.push(event{Op: "drain"})
		g.push(event{Op: "upd", P: 1, A: g.pfxFor(1), F: f, S: "r"})
	case "v6-flap":
		same(0, 1)
		c.Peers[0].Fam = '6'
		c.Peers[0].Passive = true
		c.Peers[0].AP = i%20 < 10 // (the first two of a run with add-path: path ids of a left-over table show on the wire)
		if r.Chance(40) {
			c.Peers[0].Kind, c.Peers[0].Role = 'e', true
		}
		if c.Peers[1].Fam == '4' {
			c.Peers[1].Fam = "6d"[r.Intn(2)]
		}
		c.Peers[1].AP = false
		fixRoles()
		addAll()
		g.push(event{Op: "conn", P: 0})
		g.push(event{Op: "conn", P: 1, S: g.roleOpen(1)})
		g.push(event{Op: "upd", P: 0, A: g.pfxFor(0), F: 6, S: "n"})
		g.push(event{Op: "upd", P: 1, A: 2, F: 6, S: "n"})
		g.push(event{Op: "upd", P: 1, A: 3, F: 6, S: "n"})
		g.push(event{Op: "drain"})
		g.push(event{Op: "wd", P: 1, A: 2, F: 6})
		g.push(event{Op: "loc", P: c.Peers[0].VRF, A: 4, F: 6, S: "t"})
		g.push(event{Op: "drain"})
		g.push(event{Op: "flap", P: 0, S: []string{"n", "g", "o"}[r.Intn(3)]})
		g.push(event{Op: "reconn", P: 0, S: "p"})
		g.push(event{Op: "upd", P: 1, A: r.Intn(2), F: 6, S: "n"})
		g.push(event{Op: "loc", P: c.Peers[0].VRF, A: 5, F: 6, S: "t"})
		g.push(event{Op: "drain"})
		g.push(event{Op: "exp", P: 0, S: "H"})
		g.push(event{Op: "drain"})
	case "dispose-other":
		same(0, 1)
		c.Peers[0].Fam = "46"[r.Intn(2)]
		c.Peers[1].Fam = c.Peers[0].Fam
		addAll()
		connAll()
		g.push(event{Op: "disp", P: 1, S: g.dispMode(1)})
		g.push(event{Op: "upd", P: 0, A: g.pfxFor(0), F: g.famOf(0), S: "a" + strconv.Itoa(c.Peers[0].LAS)})
	case "late-import":
		c.Peers[0].Passive = true
		addAll()
		g.push(event{Op: "imp", P: 0, S: "E"})
		g.push(event{Op: "conn", P: 0})
		g.push(g.upd(0))
		g.push(event{Op: "imp", P: 0, S: "A"})
		g.push(g.upd(0))
	default:
		for p := range c.Peers {
			if r.Chance(85) {
				g.push(event{Op: "add", P: p})
			}
		}
	}
	extra := 6 + r.Intn(12)
	if c.Tmpl == "random" {
		extra += 6
	}
	for k := 0; k < extra; k++ {
		g.randomEvent(tier)
	}
	return c
}
