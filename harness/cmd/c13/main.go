// C13 harness: isolation of stored routes. A real LocRIB with two real AdjRIBOuts (A, B) as clients and
// a real AdjRIBIn (R) holding the same routes; around EVERY operation all path objects and all BGPPathA
// blocks reachable from any table are rendered (deep, value level) and must read the same afterwards;
// operations that are purely export-side (filter replacement, re-advertisement on one session) must
// leave the other tables as they were.
//
// Input tokens:  S:<sessA>  S:<sessB>  C<chainA>  C<chainB>  then ops
//
//	n<pfx>=<path>:<0|1>   new path object (number = count of n ops so far), deduplicated if 1, LocRIB.AddPath
//	w<k>                  LocRIB.RemovePath of object k
//	x<A|B><chain>         ReplaceFilterChain on that session
//	d<A|B><k>             AdjRIBOut.AddPath(pfx of k, object k) on that session (advertise it again)
//	N<0|1><0|1>           (first op only) whether A's / B's peer negotiated 4-octet ASNs (default: both did)
//
// Behind each Adj-RIB-Out sits a REAL UpdateSender (hook verif_hooks_c10.go, bound to a discarding writer) as
// fsmAddressFamily.init registers it; after every op both senders are flushed (Dequeue + EmitAll per queued path),
// so AddPath / RemovePath / packing / serialization of the last export-side consumer lie inside the snapshots.
//
// Observation, one token per op:  <stream>#<view>#<tableA>#<tableB>#<pathclasses>/<blockclasses>
//
//	stream = calls the LocRIB made on spies registered like A and B: "A+<pfx>.<k>,B-<pfx>.<k>"
//	view   = for x: "<pfx>=<k>.<k>;..." the Loc-RIB's first-n objects for that session
//	classes = pointer-equality classes over (objects 0..n-1, entries of A, entries of B), numbered by first occurrence
package main

import (
	"fmt"
	"io"
	"os"
	"sort"
	"strconv"
	"strings"
	"time"

	"github.com/bio-routing/bio-rd/protocols/bgp/server"
	"github.com/bio-routing/bio-rd/route"
	"github.com/bio-routing/bio-rd/routingtable"
	"github.com/bio-routing/bio-rd/routingtable/adjRIBIn"
	"github.com/bio-routing/bio-rd/routingtable/adjRIBOut"
	"github.com/bio-routing/bio-rd/routingtable/filter"
	"github.com/bio-routing/bio-rd/routingtable/locRIB"
	"github.com/bio-routing/bio-rd/routingtable/vrf"

	bnet "github.com/bio-routing/bio-rd/net"

	"verifharness/aro"
	"verifharness/hx"
)

const nPfx = 3

type op struct {
	kind  byte
	pfx   int
	path  aro.PS
	dedup bool
	who   byte // 'A' | 'B'
	k     int
	chain aro.Chain
}

func (o op) token() string {
	switch o.kind {
	case 'n':
		return fmt.Sprintf("n%d=%s:%s", o.pfx, o.path.Token(), map[bool]string{true: "1", false: "0"}[o.dedup])
	case 'w':
		return fmt.Sprintf("w%d", o.k)
	case 'N':
		return fmt.Sprintf("N%d%d", o.pfx, o.k)
	case 'x':
		return fmt.Sprintf("x%c%s", o.who, o.chain.Token())
	}
	return fmt.Sprintf("d%c%d", o.who, o.k)
}

type tcase struct {
	sess  [2]aro.Sess
	chain [2]aro.Chain
	ops   []op
}

func (c tcase) input() string {
	t := []string{c.sess[0].Token(), c.sess[1].Token(), "C" + c.chain[0].Token(), "C" + c.chain[1].Token()}
	for _, o := range c.ops {
		t = append(t, o.token())
	}
	return strings.Join(t, " ")
}

func parseCase(in string) (tcase, error) {
	var c tcase
	f := strings.Fields(in)
	if len(f) < 4 {
		return c, fmt.Errorf("short case")
	}
	var err error
	for i := 0; i < 2; i++ {
		if c.sess[i], err = aro.ParseSess(f[i]); err != nil {
			return c, err
		}
		if !strings.HasPrefix(f[2+i], "C") {
			return c, fmt.Errorf("missing chain")
		}
		if c.chain[i], err = aro.ParseChain(f[2+i][1:]); err != nil {
			return c, err
		}
	}
	for _, t := range f[4:] {
		o := op{kind: t[0]}
		switch o.kind {
		case 'n':
			p := strings.SplitN(t[1:], "=", 2)
			if len(p) != 2 || len(p[1]) < 3 {
				return c, fmt.Errorf("bad op %q", t)
			}
			if o.pfx, err = strconv.Atoi(p[0]); err != nil {
				return c, err
			}
			o.dedup = strings.HasSuffix(p[1], ":1")
			if o.path, err = aro.ParsePath(p[1][:len(p[1])-2]); err != nil {
				return c, err
			}
		case 'w':
			if o.k, err = strconv.Atoi(t[1:]); err != nil {
				return c, err
			}
		case 'N':
			if len(t) != 3 {
				return c, fmt.Errorf("bad op %q", t)
			}
			o.pfx, o.k = int(t[1]-'0'), int(t[2]-'0')
		case 'x':
			o.who = t[1]
			if o.chain, err = aro.ParseChain(t[2:]); err != nil {
				return c, err
			}
		case 'd':
			o.who = t[1]
			if o.k, err = strconv.Atoi(t[2:]); err != nil {
				return c, err
			}
		default:
			return c, fmt.Errorf("bad op %q", t)
		}
		c.ops = append(c.ops, o)
	}
	return c, nil
}

type verdict struct{ sig, detail string }

// spy records the calls with the identity of the object handed over
type spy struct {
	name string
	ids  map[*route.Path]int
	ev   *[]string
}

func (s *spy) AddPath(pfx *bnet.Prefix, p *route.Path) error {
	*s.ev = append(*s.ev, fmt.Sprintf("%s+%d.%d", s.name, aro.PfxID(pfx), s.id(p)))
	return nil
}
func (s *spy) id(p *route.Path) int {
	if k, ok := s.ids[p]; ok {
		return k
	}
	return -1
}
func (s *spy) AddPathInitialDump(pfx *bnet.Prefix, p *route.Path) error { return s.AddPath(pfx, p) }
func (s *spy) EndOfRIB()                                                 {}
func (s *spy) RemovePath(pfx *bnet.Prefix, p *route.Path) bool {
	*s.ev = append(*s.ev, fmt.Sprintf("%s-%d.%d", s.name, aro.PfxID(pfx), s.id(p)))
	return true
}
func (s *spy) ReplacePath(*bnet.Prefix, *route.Path, *route.Path) {}
func (s *spy) RefreshRoute(*bnet.Prefix, []*route.Path)          {}
func (s *spy) Dispose()                                          {}

func renderBlock(a *route.BGPPathA) string {
	if a == nil {
		return "nil"
	}
	agg := "-"
	if a.Aggregator != nil {
		agg = fmt.Sprintf("%d.%d", a.Aggregator.ASN, a.Aggregator.Address)
	}
	nh, src := "nil", "nil"
	if a.NextHop != nil {
		nh = fmt.Sprint(a.NextHop.ToUint32())
	}
	if a.Source != nil {
		src = fmt.Sprint(a.Source.ToUint32())
	}
	return fmt.Sprintf("%s/%s/%d/%d/%d/%d/%s/%v/%v/%d/%d", nh, src, a.LocalPref, a.MED, a.BGPIdentifier, a.OriginatorID, agg, a.EBGP, a.AtomicAggregate, a.Origin, a.OnlyToCustomer)
}

type snapshot struct {
	paths  map[*route.Path]string
	blocks map[*route.BGPPathA]string
	owner  map[interface{}]string
	tables map[string]string
}

func sortedRoutes(rs []*route.Route) []*route.Route {
	out := append([]*route.Route{}, rs...)
	sort.Slice(out, func(i, j int) bool { return aro.PfxID(out[i].Prefix()) < aro.PfxID(out[j].Prefix()) })
	return out
}

func takeSnapshot(tables map[string][]*route.Route) snapshot {
	s := snapshot{map[*route.Path]string{}, map[*route.BGPPathA]string{}, map[interface{}]string{}, map[string]string{}}
	for _, name := range []string{"locrib", "adjribin", "ribout-A", "ribout-B"} {
		rs := tables[name]
		s.tables[name] = aro.DumpTable(rs)
		for _, r := range rs {
			for _, p := range r.Paths() {
				s.paths[p] = aro.Render(p)
				if _, ok := s.owner[p]; !ok {
					s.owner[p] = name
				}
				if p.BGPPath != nil && p.BGPPath.BGPPathA != nil {
					s.blocks[p.BGPPath.BGPPathA] = renderBlock(p.BGPPath.BGPPathA)
					if _, ok := s.owner[p.BGPPath.BGPPathA]; !ok {
						s.owner[p.BGPPath.BGPPathA] = name
					}
				}
			}
		}
	}
	return s
}

func runCase(c tcase) (obs string, v *verdict, nontrivial bool) {
	lr := locRIB.New("c13")
	var a [2]*adjRIBOut.AdjRIBOut
	var ev []string
	ids := map[*route.Path]int{}
	asn4 := [2]bool{true, true}
	if len(c.ops) > 0 && c.ops[0].kind == 'N' {
		asn4 = [2]bool{c.ops[0].pfx == 1, c.ops[0].k == 1}
	}
	var snd [2]*server.VerifUS
	for i := 0; i < 2; i++ {
		a[i] = adjRIBOut.New(lr, c.sess[i].Attrs(), c.chain[i].Build())
		snd[i] = server.VerifUSNew(server.VerifUSOptions{AddPathTX: c.sess[i].MaxPaths > 0, IBGP: c.sess[i].IBGP(),
			RRClient: c.sess[i].Kind == "rr", ASN4: asn4[i]}, io.Discard)
		a[i].Register(snd[i].VerifUSSender())
		lr.RegisterWithOptions(a[i], c.sess[i].ClientOptions())
		lr.RegisterWithOptions(&spy{name: string(rune('A' + i)), ids: ids, ev: &ev}, c.sess[i].ClientOptions())
	}
	rin := adjRIBIn.New(filter.NewAcceptAllFilterChain(), vrf.NewUntrackedVRF("c13", 0), routingtable.SessionAttrs{
		Type: route.BGPPathType, PeerIP: aro.IP(0x03030303), LocalIP: aro.IP(aro.LocalIP), LocalASN: aro.LocalASN, PeerASN: 65001, AddPathRX: true})

	fail := func(sig, detail string) {
		if v == nil {
			v = &verdict{sig, detail}
		}
	}
	var objs []*route.Path
	var objPfx []int
	var out []string
	allTables := func() map[string][]*route.Route {
		return map[string][]*route.Route{"locrib": lr.Dump(), "adjribin": rin.Dump(), "ribout-A": a[0].Dump(), "ribout-B": a[1].Dump()}
	}
	for i, o := range c.ops {
		before := takeSnapshot(allTables())
		view := "-"
		exportOnly := -1
		switch o.kind {
		case 'n':
			p := o.path.Build()
			if o.dedup && p.BGPPath != nil {
				p.BGPPath = p.BGPPath.Dedup()
			}
			ids[p] = len(objs)
			objs = append(objs, p)
			objPfx = append(objPfx, o.pfx)
			if !o.path.Static {
				q := o.path.Build()
				q.BGPPath.PathIdentifier = uint32(len(objs))
				q.BGPPath = q.BGPPath.Dedup()
				rin.AddPath(aro.Pfx(o.pfx), q)
			}
			lr.AddPath(aro.Pfx(o.pfx), p)
		case 'w':
			if o.k < len(objs) {
				lr.RemovePath(aro.Pfx(objPfx[o.k]), objs[o.k])
			}
		case 'x':
			w := int(o.who - 'A')
			exportOnly = w
			var parts []string
			m := aro.FirstN(lr, c.sess[w])
			var pf []int
			for id := range m {
				pf = append(pf, id)
			}
			sort.Ints(pf)
			for _, id := range pf {
				it := make([]string, len(m[id]))
				for j, p := range m[id] {
					k, ok := ids[p]
					if !ok {
						k = -1
					}
					it[j] = strconv.Itoa(k)
				}
				parts = append(parts, fmt.Sprintf("%d=%s", id, strings.Join(it, ".")))
			}
			view = aro.JoinOrDash(parts, ";")
			a[w].ReplaceFilterChain(o.chain.Build())
			nontrivial = true
		case 'd':
			w := int(o.who - 'A')
			exportOnly = w
			if o.k < len(objs) {
				a[w].AddPath(aro.Pfx(objPfx[o.k]), objs[o.k])
				nontrivial = true
			}
		}
		// the update senders pack and write what was queued
		for i := 0; i < 2; i++ {
			for _, key := range snd[i].Keys() {
				if b := snd[i].Dequeue(key); b != nil {
					snd[i].EmitAll(b)
				}
			}
		}
		stream := aro.JoinOrDash(ev, ",")
		ev = nil

		// ---- spec oracle: nothing that was stored anywhere reads differently now
		for p, was := range before.paths {
			if now := aro.Render(p); now != was {
				fail("export-op-mutated-stored-route:"+before.owner[p], fmt.Sprintf("op %d (%s): a path object of %s read %s before and %s after", i, o.token(), before.owner[p], was, now))
			}
		}
		for b, was := range before.blocks {
			if now := renderBlock(b); now != was {
				fail("export-op-mutated-shared-attribute-block:"+before.owner[b], fmt.Sprintf("op %d (%s): a BGPPathA block of %s read %s before and %s after", i, o.token(), before.owner[b], was, now))
			}
		}
		after := allTables()
		if exportOnly >= 0 {
			own := "ribout-" + string(rune('A'+exportOnly))
			for name, rs := range after {
				if name != own && aro.DumpTable(rs) != before.tables[name] {
					fail("export-op-changed-other-table:"+name, fmt.Sprintf("op %d (%s): %s was %s, is %s", i, o.token(), name, before.tables[name], aro.DumpTable(rs)))
				}
			}
		}

		// ---- observation for the model: values and sharing
		pc, bc := map[*route.Path]int{}, map[*route.BGPPathA]int{}
		var pcs, bcs []string
		visit := func(p *route.Path) {
			if _, ok := pc[p]; !ok {
				pc[p] = len(pc)
			}
			pcs = append(pcs, strconv.Itoa(pc[p]))
			if p.BGPPath == nil || p.BGPPath.BGPPathA == nil {
				bcs = append(bcs, "-")
				return
			}
			b := p.BGPPath.BGPPathA
			if _, ok := bc[b]; !ok {
				bc[b] = len(bc)
			}
			bcs = append(bcs, strconv.Itoa(bc[b]))
		}
		for _, p := range objs {
			visit(p)
		}
		for w := 0; w < 2; w++ {
			for _, r := range sortedRoutes(after["ribout-"+string(rune('A'+w))]) {
				for _, p := range r.Paths() {
					visit(p)
				}
			}
		}
		out = append(out, fmt.Sprintf("%s#%s#%s#%s#%s/%s", stream, view, aro.DumpTable(after["ribout-A"]), aro.DumpTable(after["ribout-B"]),
			aro.JoinOrDash(pcs, "."), aro.JoinOrDash(bcs, ".")))
	}
	return strings.Join(out, " "), v, nontrivial
}

func gen(r *hx.RNG, t *hx.Trace) tcase {
	var c tcase
	for i := 0; i < 2; i++ {
		c.sess[i] = aro.GenSess(r, 35)
		c.chain[i] = aro.Chain{{{Acts: []aro.Act{{Kind: "acc"}}}}}
		if r.Chance(50) {
			c.chain[i] = aro.GenChain(r, nPfx)
		}
		t.Count("sess_" + c.sess[i].Kind)
	}
	c.ops = append(c.ops, op{kind: 'N', pfx: r.Intn(2), k: r.Intn(2)})
	o := aro.DefaultGen
	o.Static = 10
	n := 4 + r.Intn(12)
	var pool []aro.PS
	type ent struct {
		pfx int
		p   aro.PS
		k   int
	}
	var inLoc []ent
	nobj := 0
	compareKey := func(p aro.PS) string {
		q := p
		q.OTC, q.ASLen, q.Redist = 0, 0, 0
		return q.Token()
	}
	for i := 0; i < n; i++ {
		k := r.Intn(100)
		switch {
		case k < 45 || nobj == 0:
			var p aro.PS
			if len(pool) > 0 && r.Chance(40) {
				p = aro.Mutate(r, pool[r.Intn(len(pool))])
			} else {
				p = aro.GenPath(r, o)
			}
			if p.Static && p.StaticNil {
				p.StaticNil, p.NH = false, 0x05050505
			}
			if !p.Static && r.Chance(45) { // 4-octet ASNs in the first and in later segments, in sequences and sets
				for si := range p.ASPath {
					for ai := range p.ASPath[si].ASNs {
						if r.Chance(50) {
							p.ASPath[si].ASNs[ai] = 4200000000 + uint32(r.Intn(3))
						}
					}
				}
			}
			p.Agg = nil // an AGGREGATOR is a pointer inside BGPPathA: such blocks are only ever shared by copies of one object
			pool = append(pool, p)
			e := ent{r.Intn(nPfx), p, nobj}
			dup := false
			for _, x := range inLoc {
				if x.pfx == e.pfx && compareKey(x.p) == compareKey(e.p) {
					dup = true
				}
			}
			if dup {
				continue
			}
			inLoc = append(inLoc, e)
			nobj++
			c.ops = append(c.ops, op{kind: 'n', pfx: e.pfx, path: e.p, dedup: r.Chance(70)})
			t.Count("op_new")
		case k < 58 && len(inLoc) > 0:
			j := r.Intn(len(inLoc))
			e := inLoc[j]
			inLoc = append(inLoc[:j], inLoc[j+1:]...)
			c.ops = append(c.ops, op{kind: 'w', k: e.k})
			t.Count("op_withdraw")
		case k < 85:
			c.ops = append(c.ops, op{kind: 'x', who: byte('A' + r.Intn(2)), chain: aro.GenChain(r, nPfx)})
			t.Count("op_replace_chain")
		case len(inLoc) > 0:
			e := inLoc[r.Intn(len(inLoc))]
			c.ops = append(c.ops, op{kind: 'd', who: byte('A' + r.Intn(2)), k: e.k})
			t.Count("op_readvertise")
		}
	}
	return c
}

func main() {
	cfg := hx.Parse()
	tr := hx.NewTrace(cfg.Out)
	nviol := 0
	do := func(id string, c tcase) {
		var obs string
		var v *verdict
		var nt bool
		done := make(chan struct{})
		var panicked bool
		var pval interface{}
		go func() {
			panicked, pval = hx.Guard(func() { obs, v, nt = runCase(c) })
			close(done)
		}()
		select {
		case <-done:
		case <-time.After(20 * time.Second):
			obs, v = "HANG", &verdict{"hang", "case did not finish within 20s"}
		}
		if panicked {
			obs, v = "PANIC", &verdict{"panic", fmt.Sprint(pval)}
		}
		tr.Case(id, nt, c.input(), obs)
		if v != nil {
			hx.Violation(id, v.sig, v.detail)
			nviol++
		}
	}
	if cfg.Mode == "replay" {
		for _, c := range hx.InputsFrom(cfg.Replay) {
			tc, err := parseCase(c[1])
			if err != nil {
				fmt.Println("HARNESS-ERROR bad replay input:", err)
				os.Exit(2)
			}
			do(c[0], tc)
		}
	} else {
		for _, c := range hx.InputsFrom(hx.CorpusFiles(cfg.Corpus)...) {
			tc, err := parseCase(c[1])
			if err != nil {
				fmt.Println("HARNESS-ERROR bad corpus case", c[0], err)
				os.Exit(2)
			}
			do("corpus-"+c[0], tc)
			tr.Count("corpus")
		}
		rng := hx.NewRNG(cfg.Seed)
		for i := 0; i < cfg.N; i++ {
			do(fmt.Sprintf("g%d", i), gen(rng.Fork(uint64(i)), tr))
		}
	}
	tr.Close(cfg.Stats, map[string]interface{}{"spec_violations": nviol, "prefixes": nPfx})
}
