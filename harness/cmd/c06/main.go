// C06 harness: ineligible paths never reach the Loc-RIB or any other client (driver in verifharness/adjribin).
package main

import "verifharness/adjribin"

func main() { adjribin.Main(6) }
