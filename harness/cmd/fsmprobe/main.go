// scratch probe (not part of any check): prints the observations of cases given as arguments
package main

import (
	"fmt"
	"os"
	"strings"

	"verifharness/fsmx"
)

func main() {
	for _, a := range os.Args[1:] {
		c, err := fsmx.ParseCase(a)
		if err != nil {
			fmt.Println("ERR", err)
			continue
		}
		obs, ok := fsmx.RunCaseStable(c)
		fmt.Println("CASE", c.String(), "stable:", ok)
		for i, o := range obs {
			fmt.Printf("  %-40s %s\n", c.Evs[i].String(), o.Token())
		}
		_ = strings.Join
	}
}
