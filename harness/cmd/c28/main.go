// C28 harness: well-formed BMP histories (initiation, peer up, route monitoring pre/post policy with
// and without add-path, peer down, termination, loss of the connection and reconnects) over 3 peers and
// 2 VRFs against one Router; observers registered on the VRFs' Loc-RIBs as the RIS server does.
//
// Input tokens:  cfg=...  then one token per action:
//
//	f:<hex frame>            a BMP message arrives
//	o:<id>:<rd hex>:<4|6>    observer <id> registers on the Loc-RIB of that VRF / family
//	loss                     the connection is lost (cleanup), the router reconnects
//
// Observation:   A|<state digest>|<observer digests>   after every action
//
//	O:.. U:..                results of the (abstract) BGP layer, see bmpx.Ann
//
// Spec oracle = the property text evaluated on the implementation: after every action each VRF table
// holds exactly the routes announced and not withdrawn by the peers that are up; nothing of a peer
// that went down, of a terminated or lost session remains; every registered observer has been told
// exactly the table's content, and Dispose when the connection was lost.
package main

import (
	"encoding/hex"
	"fmt"
	"io"
	"os"
	"sort"
	"strconv"
	"strings"

	"github.com/bio-routing/bio-rd/protocols/bgp/server"
	biolog "github.com/bio-routing/bio-rd/util/log"
	"github.com/sirupsen/logrus"

	"verifharness/bmpx"
	"verifharness/hx"
)

func quiet() {
	l := logrus.New()
	l.Out = io.Discard
	l.SetLevel(logrus.PanicLevel)
	biolog.SetLogger(biolog.NewLogrusWrapper(l))
}

// ---------------------------------------------------------------- generated histories

// what the generator knows about an action, for the oracle
type meaning struct {
	kind     string // up down ann term loss obs other
	peer     int
	post     bool
	withdraw []bmpx.NLRI
	announce []bmpx.NLRI
	hidden   string // why the pseudo session's Adj-RIB-In hides the announced paths ("": it does not)
	obsID    int
	obsRD    uint64
	obsV6    bool
}

type action struct {
	tok string
	m   meaning
}

type history struct {
	cfg  bmpx.Cfg
	pool []bmpx.Peer
	acts []action
}

func frameTok(b []byte) string { return "f:" + hex.EncodeToString(b) }

func one(f func(c *bmpx.Conv)) []byte {
	c := &bmpx.Conv{}
	f(c)
	return c.B
}

func gen(r *hx.RNG, tr *hx.Trace) history {
	h := history{pool: bmpx.PeerPool(r)}
	switch r.Intn(12) {
	case 0:
		h.cfg.IgnorePre = true
	case 1:
		h.cfg.IgnorePost = true
	case 2:
		// ignored ASNs are matched by address only inside the router: keep the ignored peer's address
		// unique across VRFs (see notes/C28.md)
		i := r.Intn(len(h.pool))
		uniq := true
		for j, q := range h.pool {
			if j != i && q.Addr == h.pool[i].Addr {
				uniq = false
			}
		}
		if uniq {
			h.cfg.IgnoreASNs = []uint32{h.pool[i].AS}
		}
	}
	up := map[int]bool{}
	nobs := 0
	add := func(tok string, m meaning) { h.acts = append(h.acts, action{tok, m}) }
	add(frameTok(bmpx.Initiation([]bmpx.TLV{{Type: 1, Info: []byte("sim")}, {Type: 2, Info: []byte(fmt.Sprintf("r%d", r.Intn(9)))}})), meaning{kind: "other"})
	n := 4 + r.Intn(20)
	for i := 0; i < n; i++ {
		pi := r.Intn(len(h.pool))
		p := h.pool[pi]
		k := r.Intn(100)
		switch {
		case k < 18 && !up[pi]:
			add(frameTok(one(func(c *bmpx.Conv) { c.PeerUp(p, r.Chance(30), nil) })), meaning{kind: "up", peer: pi})
			up[pi] = true
			tr.Count("op_peerup")
		case k < 70:
			if !up[pi] && !r.Chance(6) {
				// route monitoring for a peer that is not up is rare (and must be ignored)
				i--
				if len(up) == 0 {
					add(frameTok(one(func(c *bmpx.Conv) { c.PeerUp(p, false, nil) })), meaning{kind: "up", peer: pi})
					up[pi] = true
				}
				continue
			}
			var wd, an []bmpx.NLRI
			cnt := 1 + r.Intn(3)
			seen := map[string]bool{}
			for j := 0; j < cnt; j++ {
				v6 := r.Chance(30)
				var x bmpx.NLRI
				if v6 {
					x = bmpx.Pfx6(r.Intn(3), bmpx.PathID(p, true, r))
				} else {
					x = bmpx.Pfx4(r.Intn(4), bmpx.PathID(p, false, r))
				}
				key := fmt.Sprintf("%v/%x/%d", x.V6, x.Addr, x.Len)
				if seen[key] {
					continue // a prefix appears once per UPDATE
				}
				seen[key] = true
				if r.Chance(35) {
					wd = append(wd, x)
				} else {
					an = append(an, x)
				}
			}
			post := r.Chance(40)
			variant := bmpx.PickVariant(r)
			upd := bmpx.UpdateForV(p, wd, an, variant)
			add(frameTok(one(func(c *bmpx.Conv) { c.RouteMon(p, post, upd) })),
				meaning{kind: "ann", peer: pi, post: post, withdraw: wd, announce: an,
					hidden: bmpx.HiddenKind(upd, p.AS != p.LocalAS, bmpx.RouterID)})
			tr.Count("op_routemon")
			if len(an) > 0 {
				tr.Count("attrs_" + variant)
			}
		case k < 80:
			if !up[pi] && !r.Chance(10) {
				i--
				if len(up) == 0 {
					continue
				}
				continue
			}
			reason := byte(r.Pick([]int{1, 2, 3, 4, 5}))
			var data []byte
			switch reason {
			case 1, 3:
				data = bmpx.BGPMsg(3, []byte{6, 2})
			case 2:
				data = []byte{0, 1}
			}
			add(frameTok(bmpx.PeerDown(p.PPH(0), reason, data)), meaning{kind: "down", peer: pi})
			up[pi] = false
			tr.Count("op_peerdown")
		case k < 90:
			rd := []uint64{0, 65000<<32 | 1}[r.Intn(2)]
			v6 := r.Chance(35)
			fam := "4"
			if v6 {
				fam = "6"
			}
			add(fmt.Sprintf("o:%d:%x:%s", nobs, rd, fam), meaning{kind: "obs", obsID: nobs, obsRD: rd, obsV6: v6})
			nobs++
			tr.Count("op_observe")
		case k < 93:
			add(frameTok(bmpx.Stats(p.PPH(0), 1, []bmpx.TLV{{Type: 0, Info: []byte{0, 0, 0, 1}}})), meaning{kind: "other"})
			tr.Count("op_stats")
		case k < 96:
			add(frameTok(bmpx.Termination([]bmpx.TLV{{Type: 1, Info: []byte{0, byte(r.Intn(5))}}})), meaning{kind: "term"})
			add("loss", meaning{kind: "loss"})
			for j := range up {
				up[j] = false
			}
			tr.Count("op_termination")
		default:
			add("loss", meaning{kind: "loss"})
			for j := range up {
				up[j] = false
			}
			tr.Count("op_connloss")
		}
	}
	if r.Chance(50) {
		add("loss", meaning{kind: "loss"})
	}
	return h
}

// ---------------------------------------------------------------- running a history

type observer struct {
	id int
	rd uint64
	v6 bool
	o  *server.VerifBMPObserver // nil: the VRF did not exist
}

func viewTok(o *server.VerifBMPObserver) string {
	if o == nil {
		return ""
	}
	var out []string
	for k, cnt := range o.View {
		for i := 0; i < cnt; i++ {
			out = append(out, fmt.Sprintf("%s~%s~%d", bmpx.SrcTok(k.Source), bmpx.PfxTok(k.Prefix), k.PathID))
		}
	}
	sort.Strings(out)
	return strings.Join(out, ",")
}

func dumpTok(v *server.VerifBMP, rd uint64, v6 bool) (string, bool) {
	ps, ok := v.Dump(rd, v6)
	var out []string
	for _, p := range ps {
		out = append(out, fmt.Sprintf("%s~%s~%d", bmpx.SrcTok(p.Source), bmpx.PfxTok(p.Prefix), p.PathID))
	}
	sort.Strings(out)
	return strings.Join(out, ","), ok
}

func nlriKey(n bmpx.NLRI) string {
	l := 4
	if n.V6 {
		l = 16
	}
	return fmt.Sprintf("%s/%d~%d", hexNum(n.Addr[:l]), n.Len, n.ID)
}

func hexNum(b []byte) string {
	s := strings.TrimLeft(hex.EncodeToString(b), "0")
	if s == "" {
		return "0"
	}
	return s
}

func peerSrc(p bmpx.Peer) string {
	if p.V6 {
		return "6." + hexNum(p.Addr[:])
	}
	return "4." + hexNum(p.Addr[12:])
}

// oracle state: per peer index its announced routes (while up)
type oracle struct {
	h       history
	up      map[int]bool
	ignored map[int]bool
	routes  map[int]map[string]bool // peer -> "<fam>|<pfx>~<id>"
	tags    map[string]string       // "<src>~<pfx>~<id>|<rd>|<fam>" -> hidden kind of the last announcement
}

func (o *oracle) apply(m meaning) {
	switch m.kind {
	case "up":
		p := o.h.pool[m.peer]
		for _, a := range o.h.cfg.IgnoreASNs {
			if a == p.AS {
				o.ignored[m.peer] = true
				return
			}
		}
		// a second peer up for a peer that is up is not generated
		o.up[m.peer] = true
		o.routes[m.peer] = map[string]bool{}
	case "down":
		delete(o.ignored, m.peer)
		o.up[m.peer] = false
		delete(o.routes, m.peer)
	case "term", "loss":
		o.up = map[int]bool{}
		o.routes = map[int]map[string]bool{}
		if m.kind == "loss" {
			// ignoredPeers survives the connection inside the router; a new session starts with peer ups anyway
		}
	case "ann":
		if !o.up[m.peer] || o.ignored[m.peer] {
			return
		}
		if (o.h.cfg.IgnorePre && !m.post) || (o.h.cfg.IgnorePost && m.post) {
			return
		}
		p := o.h.pool[m.peer]
		key := func(n bmpx.NLRI) string {
			fam := "4"
			ap := p.AP4
			if n.V6 {
				fam, ap = "6", p.AP6
			}
			if !ap {
				n.ID = 0
			}
			return fam + "|" + nlriKey(n)
		}
		// IPv4 and IPv6 parts: reach (announce) is applied before unreach (withdraw) for MP families,
		// withdrawn routes before NLRI for plain IPv4; a prefix appears once per UPDATE, so the order is immaterial
		for _, n := range m.withdraw {
			delete(o.routes[m.peer], key(n))
		}
		for _, n := range m.announce {
			o.routes[m.peer][key(n)] = true
			k := key(n)
			o.tags[fmt.Sprintf("%s~%s|%x|%s", peerSrc(p), k[2:], p.RD, k[:1])] = m.hidden
		}
	}
}

// shadowed: every missing route belongs to an up peer whose address is that of a currently ignored
// peer (IgnorePeerASNs) of another VRF
func (o *oracle) shadowed(rd uint64, miss []string) bool {
	for _, m := range miss {
		src := strings.SplitN(m, "~", 2)[0]
		found := false
		for pi, p := range o.h.pool {
			if p.RD != rd || !o.up[pi] || peerSrc(p) != src {
				continue
			}
			for j := range o.ignored {
				q := o.h.pool[j]
				if q.RD != p.RD && q.Addr == p.Addr && q.V6 == p.V6 {
					found = true
				}
			}
		}
		if !found {
			return false
		}
	}
	return len(miss) > 0
}

// hiddenKind: every missing route was last announced with attributes the pseudo session's Adj-RIB-In
// hides, all for the same reason
func (o *oracle) hiddenKind(rd uint64, v6 bool, miss []string) string {
	fam := "4"
	if v6 {
		fam = "6"
	}
	kind := ""
	for _, m := range miss {
		k := o.tags[fmt.Sprintf("%s|%x|%s", m, rd, fam)]
		if k == "" || (kind != "" && k != kind) {
			return ""
		}
		kind = k
	}
	return kind
}

// expected table content of (rd, family)
func (o *oracle) expect(rd uint64, v6 bool) string {
	fam := "4|"
	if v6 {
		fam = "6|"
	}
	var out []string
	for pi, rs := range o.routes {
		p := o.h.pool[pi]
		if p.RD != rd || !o.up[pi] {
			continue
		}
		for k := range rs {
			if strings.HasPrefix(k, fam) {
				out = append(out, peerSrc(p)+"~"+k[2:])
			}
		}
	}
	sort.Strings(out)
	return strings.Join(out, ",")
}

func runCase(h history) (obs string, sig, detail string, nt bool) {
	s := bmpx.NewSession(h.cfg)
	orc := &oracle{h: h, up: map[int]bool{}, ignored: map[int]bool{}, routes: map[int]map[string]bool{}, tags: map[string]string{}}
	var observers []observer
	var toks []string
	viol := func(sg, d string) {
		if sig == "" {
			sig, detail = sg, d
		}
	}
	installed, flushed := false, false
	for ai, a := range h.acts {
		switch {
		case strings.HasPrefix(a.tok, "f:"):
			b, _ := hex.DecodeString(a.tok[2:])
			s.V.Feed(b)
			if r := s.Pump(false, nil); strings.HasPrefix(r, "PANIC") {
				toks = append(toks, "A|PANIC")
				viol("panic", fmt.Sprintf("action %d (%s): %s", ai, a.m.kind, r))
				return strings.Join(append(toks, s.Ann.Toks...), " "), sig, detail, true
			}
		case a.tok == "loss":
			s.V.Cleanup()
			s.V.Reconnect()
		default:
			var o *server.VerifBMPObserver
			o = s.V.Observe(a.m.obsRD, a.m.obsV6)
			observers = append(observers, observer{a.m.obsID, a.m.obsRD, a.m.obsV6, o})
		}
		// routes present before the oracle forgets them?
		if a.m.kind == "down" || a.m.kind == "term" || a.m.kind == "loss" {
			for pi, rs := range orc.routes {
				if len(rs) > 0 && (a.m.kind != "down" || pi == a.m.peer) {
					flushed = true
				}
			}
		}
		orc.apply(a.m)
		// ---- the property on the implementation
		for _, rd := range []uint64{0, 65000<<32 | 1} {
			for _, v6 := range []bool{false, true} {
				got, exists := dumpTok(s.V, rd, v6)
				want := orc.expect(rd, v6)
				if want != "" {
					installed = true
				}
				if got != want {
					sg := "table-differs"
					gs, ws := strings.Split(got, ","), strings.Split(want, ",")
					miss, extra := diff(ws, gs), diff(gs, ws)
					switch {
					case len(extra) > 0 && (a.m.kind == "down" || a.m.kind == "term" || a.m.kind == "loss"):
						sg = "routes-remain-after-" + a.m.kind
					case len(extra) > 0:
						sg = "route-not-announced-by-an-up-peer-in-table"
					case len(miss) > 0:
						sg = "announced-route-missing-from-table"
						if orc.shadowed(rd, miss) {
							sg = "route-missing:address-shared-with-ignored-peer-of-other-vrf"
						} else if hk := orc.hiddenKind(rd, v6, miss); hk != "" {
							sg = "route-missing:hidden-" + hk
						}
					}
					viol(sg, fmt.Sprintf("after action %d (%s peer %d): VRF %x family v6=%v exists=%v: table [%s], announced and not withdrawn by up peers [%s]", ai, a.m.kind, a.m.peer, rd, v6, exists, got, want))
				}
				if a.m.kind == "loss" && exists {
					viol("vrf-remains-after-connection-loss", fmt.Sprintf("after action %d: VRF %x still registered", ai, rd))
				}
			}
		}
		if a.m.kind == "loss" && len(s.V.Neighbors()) > 0 {
			viol("neighbors-remain-after-connection-loss", fmt.Sprintf("after action %d: %d neighbors", ai, len(s.V.Neighbors())))
		}
		if a.m.kind == "term" && len(s.V.Neighbors()) > 0 {
			viol("neighbors-remain-after-termination", fmt.Sprintf("after action %d: %d neighbors", ai, len(s.V.Neighbors())))
		}
		var ots []string
		for _, ob := range observers {
			disp := 0
			if ob.o != nil {
				if ob.o.Disposed > 0 {
					disp = 1
				}
				if disp == 0 {
					// a live observer has been told exactly what its table holds
					got, _ := dumpTok(s.V, ob.rd, ob.v6)
					if vt := viewTok(ob.o); vt != got {
						viol("observer-view-differs-from-table", fmt.Sprintf("after action %d (%s): observer %d of VRF %x v6=%v was told [%s], table holds [%s]", ai, a.m.kind, ob.id, ob.rd, ob.v6, vt, got))
					}
				}
				if a.m.kind == "loss" && disp == 0 {
					viol("observer-not-told-dispose", fmt.Sprintf("after action %d: observer %d of VRF %x got no Dispose", ai, ob.id, ob.rd))
				}
			}
			ots = append(ots, fmt.Sprintf("%d=%s/%d", ob.id, viewTok(ob.o), disp))
		}
		toks = append(toks, fmt.Sprintf("A|%s|%s", bmpx.Digest(s.V), strings.Join(ots, ";")))
	}
	toks = append(toks, s.Ann.Toks...)
	if s.Ann.InnerPanic != "" {
		viol("panic", "update processing panics for "+s.Ann.InnerPanic)
	}
	return strings.Join(toks, " "), sig, detail, installed && flushed
}

func diff(a, b []string) []string {
	m := map[string]int{}
	for _, x := range b {
		m[x]++
	}
	var out []string
	for _, x := range a {
		if x == "" {
			continue
		}
		if m[x] > 0 {
			m[x]--
		} else {
			out = append(out, x)
		}
	}
	return out
}

// ---------------------------------------------------------------- replay: meanings are re-derived from the tokens

func parseHistory(in string) (history, error) {
	toks := strings.Fields(in)
	if len(toks) == 0 {
		return history{}, fmt.Errorf("empty input")
	}
	cfg, err := bmpx.ParseCfg(toks[0])
	if err != nil {
		return history{}, err
	}
	h := history{cfg: cfg}
	for _, t := range toks[1:] {
		m, err := h.meaningOf(t)
		if err != nil {
			return h, err
		}
		h.acts = append(h.acts, action{t, m})
	}
	return h, nil
}

// meaningOf reads an action token back with the harness' own reference parser of what it generates
// (frames built by bmpx: fixed layouts), registering peers in the pool as they appear.
func (h *history) meaningOf(t string) (meaning, error) {
	if t == "loss" {
		return meaning{kind: "loss"}, nil
	}
	if strings.HasPrefix(t, "o:") {
		p := strings.Split(t, ":")
		if len(p) != 4 {
			return meaning{}, fmt.Errorf("bad token %q", t)
		}
		id, err := strconv.Atoi(p[1])
		if err != nil {
			return meaning{}, err
		}
		rd, err := strconv.ParseUint(p[2], 16, 64)
		if err != nil {
			return meaning{}, err
		}
		return meaning{kind: "obs", obsID: id, obsRD: rd, obsV6: p[3] == "6"}, nil
	}
	if !strings.HasPrefix(t, "f:") {
		return meaning{}, fmt.Errorf("bad token %q", t)
	}
	b, err := hex.DecodeString(t[2:])
	if err != nil || len(b) < 6 {
		return meaning{}, fmt.Errorf("bad frame %q", t)
	}
	switch b[5] {
	case 5:
		return meaning{kind: "term"}, nil
	case 0, 2, 3:
		if len(b) < 48 {
			return meaning{kind: "other"}, nil
		}
		pi := h.peerOf(b[6:48])
		switch b[5] {
		case 2:
			return meaning{kind: "down", peer: pi}, nil
		case 3:
			h.learnCaps(pi, b[48:])
			return meaning{kind: "up", peer: pi}, nil
		}
		p := h.pool[pi]
		wd, an, ok := bmpx.ParseUpdate(b[48:], p.AP4, p.AP6)
		if !ok {
			return meaning{kind: "other"}, nil
		}
		return meaning{kind: "ann", peer: pi, post: b[7]&0x40 != 0, withdraw: wd, announce: an,
			hidden: bmpx.HiddenKind(b[48:], h.ebgp(pi), bmpx.RouterID)}, nil
	}
	return meaning{kind: "other"}, nil
}

// ebgp: the session of the peer is external (local AS as learned from the sent OPEN of its peer up)
func (h *history) ebgp(pi int) bool { return h.pool[pi].LocalAS != h.pool[pi].AS }

func (h *history) peerOf(pph []byte) int {
	var p bmpx.Peer
	p.V6 = pph[1]&0x80 != 0
	p.ASN4 = pph[1]&0x20 == 0
	for i := 0; i < 8; i++ {
		p.RD = p.RD<<8 | uint64(pph[2+i])
	}
	copy(p.Addr[:], pph[10:26])
	p.AS = uint32(pph[26])<<24 | uint32(pph[27])<<16 | uint32(pph[28])<<8 | uint32(pph[29])
	for i, q := range h.pool {
		if q.RD == p.RD && q.Addr == p.Addr {
			return i
		}
	}
	h.pool = append(h.pool, p)
	return len(h.pool) - 1
}

// learnCaps reads the add-path capabilities out of the two OPENs of a peer up generated by bmpx
func (h *history) learnCaps(pi int, rest []byte) {
	if len(rest) < 20+29 {
		return
	}
	sent := rest[20:]
	sl := int(sent[16])<<8 | int(sent[17])
	if sl < 29 || len(sent) < sl+29 {
		return
	}
	rcvd := sent[sl:]
	rl := int(rcvd[16])<<8 | int(rcvd[17])
	if rl < 29 || len(rcvd) < rl {
		return
	}
	srx := bmpx.AddPathTuples(sent[:sl])
	rtx := bmpx.AddPathTuples(rcvd[:rl])
	has := func(ts [][3]int, afi int, modes ...int) bool {
		for _, t := range ts {
			if t[0] == afi && t[1] == 1 {
				for _, m := range modes {
					if t[2] == m {
						return true
					}
				}
			}
		}
		return false
	}
	h.pool[pi].AP4 = has(srx, 1, 1, 3) && has(rtx, 1, 2, 3)
	h.pool[pi].AP6 = has(srx, 2, 1, 3) && has(rtx, 2, 2, 3)
	las := uint32(sent[20])<<8 | uint32(sent[21])
	if a4, ok := bmpx.ASN4Of(sent[:sl]); ok && las == 23456 {
		las = a4
	}
	h.pool[pi].LocalAS = las
}

func main() {
	quiet()
	cfg := hx.Parse()
	tr := hx.NewTrace(cfg.Out)
	nviol := 0
	do := func(id string, h history) {
		var toks []string
		toks = append(toks, h.cfg.Token())
		for _, a := range h.acts {
			toks = append(toks, a.tok)
		}
		var obs, sig, detail string
		var nt bool
		if pk, val := hx.Guard(func() { obs, sig, detail, nt = runCase(h) }); pk {
			obs, sig, detail = "PANIC", "panic", fmt.Sprint(val)
		}
		tr.Case(id, nt, strings.Join(toks, " "), obs)
		if sig != "" {
			hx.Violation(id, sig, detail)
			nviol++
		}
	}
	if cfg.Mode == "replay" {
		for _, c := range hx.InputsFrom(cfg.Replay) {
			h, err := parseHistory(c[1])
			if err != nil {
				fmt.Println("HARNESS-ERROR bad replay input:", err)
				os.Exit(2)
			}
			do(c[0], h)
		}
	} else {
		for _, c := range hx.InputsFrom(hx.CorpusFiles(cfg.Corpus)...) {
			if h, err := parseHistory(c[1]); err == nil {
				do("corpus-"+c[0], h)
				tr.Count("corpus")
			}
		}
		rng := hx.NewRNG(cfg.Seed)
		for i := 0; i < cfg.N; i++ {
			do(fmt.Sprintf("g%d", i), gen(rng.Fork(uint64(i)), tr))
		}
	}
	tr.Close(cfg.Stats, map[string]interface{}{"spec_violations": nviol})
}
