// C18 harness: packing of one queue entry of the BGP update sender into UPDATE messages.
//
// Input tokens:   <cfg> <shape> pid=<n> <runs>
//
//	cfg    f/ap/a4/ib/rr            e.g. v6/1/1/0/0   (family v4|v4mp|v6, add-path, 4-octet ASN, iBGP, RR client)
//	shape  s=..,m=..,...            sizes of the path's attributes (usx.Shape)
//	runs   len*count,len*count,...  the queued prefixes in queue order; the i-th prefix of a length has index i
//
//	real=k0.k1...  (optional 5th token) run the REAL sender goroutine (UpdateSender.Start) against a connection whose
//	               Write blocks until released: k0 prefixes are queued before the goroutine starts, k1 while it is
//	               blocked in its first Write, k2 in the second ...; what is left when it has nothing more to write
//	               is queued while it is stopped, then it is started again
//
// Observation:    budget=<B> split=<n1.n2..|-> wire=<L:n:h/...|-> attrs=<ok|..> pid=<ok|bad>
//
//	with real=:  q<a>-<b> (prefixes a..b-1 of the queue order queued)  B (goroutine blocked in a Write)
//	             m<L:n:h> (that Write completed)  ...  attrs=.. pid=..
//
//	split  prefixes per UPDATE as _getUpdateInformation packed them
//	wire   per UPDATE written: total length, number of NLRI, hash of the NLRI in wire order
package main

import (
	"fmt"
	"os"
	"strconv"
	"strings"
	"sync"
	"sync/atomic"

	"github.com/bio-routing/bio-rd/protocols/bgp/server"
	"github.com/bio-routing/bio-rd/route"

	"verifharness/hx"
	"verifharness/usx"
)

type run struct {
	l uint8
	n int
}

type tcase struct {
	cfg  usx.Cfg
	sh   usx.Shape
	pid  uint32
	runs []run
	real []int // chunk sizes for the real sender goroutine stream (nil: hook-driven)
}

func (t tcase) String() string {
	rs := make([]string, len(t.runs))
	for i, r := range t.runs {
		rs[i] = fmt.Sprintf("%d*%d", r.l, r.n)
	}
	s := fmt.Sprintf("%s %s pid=%d %s", t.cfg, t.sh, t.pid, strings.Join(rs, ","))
	if t.real != nil {
		ks := make([]string, len(t.real))
		for i, k := range t.real {
			ks[i] = strconv.Itoa(k)
		}
		s += " real=" + strings.Join(ks, ".")
	}
	return s
}

func parseCase(in string) (tcase, error) {
	var t tcase
	f := strings.Fields(in)
	if len(f) == 5 && strings.HasPrefix(f[4], "real=") {
		t.real = []int{}
		for _, k := range strings.Split(f[4][5:], ".") {
			n, err := strconv.Atoi(k)
			if err != nil || n < 0 {
				return t, fmt.Errorf("bad real token %q", f[4])
			}
			t.real = append(t.real, n)
		}
		f = f[:4]
	}
	if len(f) != 4 {
		return t, fmt.Errorf("want 4 tokens, got %d", len(f))
	}
	var err error
	if t.cfg, err = usx.ParseCfg(f[0]); err != nil {
		return t, err
	}
	if t.sh, err = usx.ParseShape(f[1]); err != nil {
		return t, err
	}
	if !strings.HasPrefix(f[2], "pid=") {
		return t, fmt.Errorf("bad pid token %q", f[2])
	}
	pid, err := strconv.ParseUint(f[2][4:], 10, 32)
	if err != nil {
		return t, err
	}
	t.pid = uint32(pid)
	maxLen := 32
	if t.cfg.V6() {
		maxLen = 128
	}
	for _, r := range strings.Split(f[3], ",") {
		p := strings.SplitN(r, "*", 2)
		if len(p) != 2 {
			return t, fmt.Errorf("bad run %q", r)
		}
		l, err1 := strconv.Atoi(p[0])
		n, err2 := strconv.Atoi(p[1])
		if err1 != nil || err2 != nil || l < 0 || l > maxLen || n < 0 || n > 100000 {
			return t, fmt.Errorf("bad run %q", r)
		}
		t.runs = append(t.runs, run{uint8(l), n})
	}
	return t, nil
}

// prefixes of a case in queue order
func (t tcase) prefixes() []usx.Pfx {
	next := map[uint8]uint64{}
	var out []usx.Pfx
	for _, r := range t.runs {
		for i := 0; i < r.n; i++ {
			idx := next[r.l]
			if idx >= usx.MaxIdx(t.cfg.V6(), r.l) {
				break // no more distinct prefixes of this length
			}
			next[r.l] = idx + 1
			out = append(out, usx.Pfx{V6: t.cfg.V6(), Len: r.l, Idx: idx})
		}
	}
	return out
}

// the harness' own, deliberately generous, estimate of the encoded attributes
func attrEstimate(sh usx.Shape) int {
	e := 80
	for _, n := range sh.Segs {
		e += 2 + 4*n
	}
	e += 4 + 4*sh.Comms + 4 + 12*sh.Lcomms + 4 + 4*sh.Clist
	for _, u := range sh.Unk {
		e += 4 + u
	}
	return e
}

const hmod = 1000000007

func nlriHash(ns []usx.NLRI) uint64 {
	var h uint64
	for j, n := range ns {
		h = (h + uint64(j+1)*((n.P.Idx*131+uint64(n.P.Len)+1)%hmod)) % hmod
	}
	return h
}

// judge evaluates the property's statement on the written messages (nsplit < 0: number of packed UPDATEs unknown)
func judge(t tcase, p *route.Path, pfxs []usx.Pfx, chunks [][]byte, nsplit int, oracle bool) (sig, detail, wireS, attrs, pidok string) {
	fail := func(s, d string) {
		if sig == "" && oracle {
			sig, detail = s, d
		}
	}
	want := usx.ExpectedAttrs(t.cfg, p)
	seen := map[usx.Pfx]int{}
	attrs, pidok = "ok", "ok"
	var wire []string
	for i, ch := range chunks {
		u, err := usx.DecodeUpdate(ch, t.cfg)
		if err != nil {
			wire = append(wire, fmt.Sprintf("%d:ERR:0", len(ch)))
			fail("undecodable-update", fmt.Sprintf("message %d: %v", i, err))
			continue
		}
		if u.Len > 4096 {
			fail("message-longer-than-4096", fmt.Sprintf("message %d has %d bytes", i, u.Len))
		}
		if len(u.Withdrawn) > 0 {
			fail("announcement-withdraws", fmt.Sprintf("message %d withdraws %d routes", i, len(u.Withdrawn)))
		}
		wire = append(wire, fmt.Sprintf("%d:%d:%d", u.Len, len(u.Announced), nlriHash(u.Announced)))
		if d := usx.AttrsEqual(u.Attrs, want); d != "" {
			attrs = strings.ReplaceAll(d, " ", "-")
			fail("attributes-differ", fmt.Sprintf("message %d: %s", i, d))
		}
		if u.TagOf() != 7 {
			attrs = "next-hop"
			fail("attributes-differ", fmt.Sprintf("message %d: next hop %v", i, u.NextHop))
		}
		for _, n := range u.Announced {
			seen[n.P]++
			wantPid := uint32(0)
			if t.cfg.AddPath {
				wantPid = t.pid
			}
			if n.PID != wantPid {
				pidok = "bad"
				fail("path-id-differs", fmt.Sprintf("message %d: path id %d, want %d", i, n.PID, wantPid))
			}
		}
	}
	if nsplit >= 0 && len(chunks) < nsplit {
		fail("update-refused-too-long", fmt.Sprintf("%d of %d packed UPDATEs were not written", nsplit-len(chunks), nsplit))
	}
	for _, x := range pfxs {
		switch c := seen[x]; {
		case c == 0:
			fail("prefix-not-announced", fmt.Sprintf("prefix %s of %d queued", x, len(pfxs)))
		case c > 1:
			fail("prefix-announced-twice", fmt.Sprintf("prefix %s announced %d times", x, c))
		}
		delete(seen, x)
	}
	if len(seen) > 0 {
		fail("unqueued-prefix-announced", fmt.Sprintf("%d prefixes", len(seen)))
	}
	wireS = "-"
	if len(wire) > 0 {
		wireS = strings.Join(wire, "/")
	}
	return
}

// runReal: the same property on the real sender goroutine
func runReal(t tcase) (obs, sig, detail string, nt bool) {
	g := usx.NewGate()
	us := server.VerifUSNew(t.cfg.Options(), g)
	real := usx.NewReal(us, g)
	p := usx.BuildPath(t.cfg, t.sh, 7, t.pid)
	pfxs := t.prefixes()
	var ev []string
	next, ci, blockedAdds := 0, 0, false
	queue := func() {
		k := len(pfxs) - next
		if ci < len(t.real) && t.real[ci] < k {
			k = t.real[ci]
		}
		ci++
		if k > 0 {
			ev = append(ev, fmt.Sprintf("q%d-%d", next, next+k))
			for _, x := range pfxs[next : next+k] {
				us.AddPath(x.Net(), p)
			}
			next += k
		}
	}
	var chunks [][]byte
	stalled := ""
	queue()
	for stalled == "" {
		if len(us.Keys()) == 0 {
			if next >= len(pfxs) {
				break
			}
			queue()
			continue
		}
		if real.Rounds > 500 {
			stalled = "queue not drained after 500 rounds"
			break
		}
		real.Start()
		for {
			m, err := real.Next()
			if err != nil {
				real.Abandon()
				stalled = err.Error()
				break
			}
			if m == nil {
				break
			}
			ev = append(ev, "B")
			if next < len(pfxs) {
				blockedAdds = true
			}
			queue()
			g.Release()
			for _, ch := range g.Take() {
				chunks = append(chunks, ch)
				if u, err := usx.DecodeUpdate(ch, t.cfg); err == nil {
					ev = append(ev, fmt.Sprintf("m%d:%d:%d", u.Len, len(u.Announced), nlriHash(u.Announced)))
				} else {
					ev = append(ev, fmt.Sprintf("m%d:ERR:0", len(ch)))
				}
			}
		}
	}
	oracle := attrEstimate(t.sh) <= 3900
	wire, attrs, pidok := "", "", ""
	sig, detail, wire, attrs, pidok = judge(t, p, pfxs, chunks, -1, oracle)
	_ = wire
	if stalled != "" {
		ev = append(ev, "STALLED")
		if oracle {
			sig, detail = "sender-stalled", stalled
		}
	}
	obs = strings.Join(ev, " ") + fmt.Sprintf(" attrs=%s pid=%s", attrs, pidok)
	return obs, sig, detail, oracle && blockedAdds
}

func runCase(t tcase) (obs, sig, detail string, nt bool) {
	if t.real != nil {
		return runReal(t)
	}
	cap := &usx.Capture{}
	us := server.VerifUSNew(t.cfg.Options(), cap)
	p := usx.BuildPath(t.cfg, t.sh, 7, t.pid)
	pfxs := t.prefixes()
	for _, x := range pfxs {
		us.AddPath(x.Net(), p)
	}
	budget := us.Budget(p)
	keys := us.Keys()
	if len(pfxs) > 0 && len(keys) != 1 {
		return fmt.Sprintf("keys=%d", len(keys)), "one-path-queued-under-several-keys", fmt.Sprintf("%d keys", len(keys)), false
	}
	var split []string
	nsplit := 0
	if len(keys) == 1 {
		b := us.Dequeue(keys[0])
		for _, s := range b.Split() {
			split = append(split, strconv.Itoa(len(s)))
		}
		nsplit = len(b.Split())
		for us.EmitOne(b) {
		}
	}
	chunks := cap.Take()

	oracle := attrEstimate(t.sh) <= 3900 // a single NLRI certainly fits next to the attributes
	sig, detail, wireS, attrs, pidok := judge(t, p, pfxs, chunks, nsplit, oracle)
	j := func(xs []string, sep string) string {
		if len(xs) == 0 {
			return "-"
		}
		return strings.Join(xs, sep)
	}
	obs = fmt.Sprintf("budget=%d split=%s wire=%s attrs=%s pid=%s", budget, j(split, "."), wireS, attrs, pidok)
	return obs, sig, detail, oracle && nsplit >= 2
}

// ---------------------------------------------------------------- generator

func genShape(r *hx.RNG, c usx.Cfg, tr *hx.Trace) usx.Shape {
	var sh usx.Shape
	class := r.Intn(10)
	seg := func(max int) int { return 1 + r.Intn(max) }
	switch {
	case class < 3: // everyday path
		tr.Count("shape_small")
		sh.Segs = []int{seg(6)}
		sh.Comms = r.Intn(4)
	case class < 6: // every attribute the estimate under-counts
		tr.Count("shape_undercount")
		for i, n := 0, 1+r.Intn(6); i < n; i++ {
			sh.Segs = append(sh.Segs, seg(70))
		}
		sh.Med, sh.Atomic, sh.Aggr = r.Chance(80), r.Chance(80), r.Chance(80)
		sh.Comms = r.Pick([]int{0, 1, 63, 64, 65, 100})
		sh.Lcomms = r.Pick([]int{0, 1, 21, 22, 23})
	default: // attributes steered towards the budget boundary
		tr.Count("shape_large")
		for i, n := 0, r.Intn(4); i < n; i++ {
			sh.Segs = append(sh.Segs, seg(255))
		}
		sh.Comms = r.Intn(300)
		sh.Lcomms = r.Intn(80)
		for i, n := 0, r.Intn(3); i < n; i++ {
			sh.Unk = append(sh.Unk, r.Intn(250))
		}
	}
	if r.Chance(30) {
		sh.Med = true
	}
	if r.Chance(20) {
		sh.Atomic = true
	}
	if r.Chance(20) {
		sh.Aggr = true
	}
	sh.Orig = r.Chance(30)
	sh.Otc = r.Chance(15)
	if c.RR || r.Chance(10) {
		sh.Clist = r.Intn(6)
	}
	for attrEstimate(sh) > 3900 { // keep room for at least one NLRI
		switch {
		case sh.Comms > 0:
			sh.Comms /= 2
		case sh.Lcomms > 0:
			sh.Lcomms /= 2
		case len(sh.Segs) > 0:
			sh.Segs = sh.Segs[1:]
		default:
			sh.Unk = nil
		}
	}
	return sh
}

func genCase(r *hx.RNG, tr *hx.Trace) tcase {
	var t tcase
	t.cfg.Fam = []string{"v4", "v4mp", "v6"}[r.Intn(3)]
	t.cfg.AddPath, t.cfg.ASN4, t.cfg.IBGP = r.Bool(), r.Chance(70), r.Bool()
	t.cfg.RR = t.cfg.IBGP && r.Chance(40)
	tr.Count("fam_" + t.cfg.Fam)
	if t.cfg.AddPath {
		tr.Count("addpath")
		t.pid = uint32(1 + r.Intn(1000))
	} else if r.Chance(20) {
		t.pid = uint32(r.Intn(5)) // a foreign path id on a session without add-path
	}
	t.sh = genShape(r, t.cfg, tr)
	var lens []int
	if t.cfg.V6() {
		lens = []int{48, 48, 64, 64, 128, 32, 56, 16, 17, 24, 40, 127, 33, 96}
	} else {
		lens = []int{24, 24, 24, 32, 32, 16, 17, 22, 23, 25, 8, 9, 20, 30}
	}
	total := 1 + r.Intn(3000)
	if r.Chance(10) {
		total = 1 + r.Intn(20)
	}
	nruns := 1 + r.Intn(5)
	if r.Chance(30) {
		nruns = 1
	}
	left := total
	for i := 0; i < nruns && left > 0; i++ {
		n := left
		if i < nruns-1 {
			n = 1 + r.Intn(left)
		}
		t.runs = append(t.runs, run{uint8(r.Pick(lens)), n})
		left -= n
	}
	tr.Count(fmt.Sprintf("pfx_%04d-%04d", total/500*500, total/500*500+499))
	return t
}

func main() {
	cfg := hx.Parse()
	usx.Quiet()
	tr := hx.NewTrace(cfg.Out)
	nviol := 0
	type job struct {
		id string
		t  tcase
	}
	type result struct {
		obs, sig, detail string
		nt               bool
	}
	var jobs []job
	if cfg.Mode == "replay" {
		for _, c := range hx.InputsFrom(cfg.Replay) {
			t, err := parseCase(c[1])
			if err != nil {
				fmt.Println("HARNESS-ERROR bad replay input:", err)
				os.Exit(2)
			}
			jobs = append(jobs, job{c[0], t})
		}
	} else {
		for _, c := range hx.InputsFrom(hx.CorpusFiles(cfg.Corpus)...) {
			t, err := parseCase(c[1])
			if err != nil {
				fmt.Println("HARNESS-ERROR bad corpus input:", c[0], err)
				os.Exit(2)
			}
			jobs = append(jobs, job{"corpus-" + c[0], t})
			tr.Count("corpus")
		}
		rng := hx.NewRNG(cfg.Seed)
		for i := 0; i < cfg.N; i++ {
			r := rng.Fork(uint64(i))
			t := genCase(r, tr)
			if i%4 == 3 { // every fourth case goes to the real sender goroutine
				tr.Count("stream_real")
				total := 0
				for _, ru := range t.runs {
					total += ru.n
				}
				t.real = []int{1 + r.Intn(total)}
				for k, n := 0, r.Intn(6); k < n; k++ {
					if r.Bool() {
						t.real = append(t.real, r.Intn(40))
					} else {
						t.real = append(t.real, r.Intn(1+total/2))
					}
				}
			}
			jobs = append(jobs, job{fmt.Sprintf("g%d", i), t})
		}
	}
	// the cases are independent: run them on a few workers, report in order
	results := make([]result, len(jobs))
	var wg sync.WaitGroup
	next := int64(-1)
	for w := 0; w < 4; w++ {
		wg.Add(1)
		go func() {
			defer wg.Done()
			for {
				i := int(atomic.AddInt64(&next, 1))
				if i >= len(jobs) {
					return
				}
				var r result
				panicked, val := hx.Guard(func() { r.obs, r.sig, r.detail, r.nt = runCase(jobs[i].t) })
				if panicked {
					r = result{obs: "PANIC", sig: "panic", detail: fmt.Sprint(val)}
				}
				results[i] = r
			}
		}()
	}
	wg.Wait()
	for i, j := range jobs {
		r := results[i]
		tr.Case(j.id, r.nt, j.t.String(), r.obs)
		if r.sig != "" {
			hx.Violation(j.id, r.sig, r.detail)
			nviol++
		}
	}
	tr.Close(cfg.Stats, map[string]interface{}{"spec_violations": nviol})
}
