// isisspeaker harness: the real IS-IS server as a wire-level speaker. Frames (byte strings) are fed
// to the receiver routine of a real Server through the recording ethernet double, the real hello
// sender / LSDB routines / LSP updater / adjacency checkers run on the injected clock, and every
// frame the server writes is captured. Run from props/C32.py's extra stage; the OCaml driver replays
// the same inputs through the extracted Model/ISISSpeaker.v.
//
// Input:  [v=46|64 the interface also carries an IPv6 address, after / before the IPv4 one]
//
//	mode=single h=<hello interval> <token>...     one server (system A), neighbor frames from outside
//	  U / D        link up / down            T        one second (routines in the model's order:
//	  F:<hex>      frame from MAC b          G:<hex>  frame from MAC c (never a hello)
//	                                                  adjacency checkers, lifetime decrement,
//	                                                  [5 s] LSP sender, PSNP sender, [h s] hello, [10 s] CSNP sender)
//	mode=pair h=<hello interval> k=<seconds> [x=<second>:<hex> ...]
//	               two real servers A and B back to back: every frame A writes is B's input and
//	               vice versa (delivered at the end of the second it was written in); x = extra
//	               frame injected into A from B's MAC at the given second
//
// Observation per token (single) / per second (pair):   <state>|<frames>
//
//	state  = n=<mac>:<U|I|D>:<timeout>:<changed>,...;db=<id hex>:<seq>:<life>:S<ifs>:N<ifs>,...;c=<counter>
//	frames = the frames written, LLC prefix added, grouped by PDU type (LSP, PSNP, hello, CSNP) and
//	         sorted within a type; a PSNP is given as P:<pdu len>:<source>:<entries sorted> because
//	         the order of its entries is the iteration order of a Go map
package main

import (
	"bytes"
	"encoding/hex"
	"fmt"
	"os"
	"sort"
	"strconv"
	"strings"
	"time"

	bnet "github.com/bio-routing/bio-rd/net"
	"github.com/bio-routing/bio-rd/net/ethernet"
	"github.com/bio-routing/bio-rd/protocols/device"
	"github.com/bio-routing/bio-rd/protocols/isis/packet"
	"github.com/bio-routing/bio-rd/protocols/isis/server"
	"github.com/bio-routing/bio-rd/protocols/isis/types"

	"verifharness/hx"
	"verifharness/isisx"
)

var (
	sysA = types.SystemID{12, 12, 12, 13, 13, 13}
	sysB = types.SystemID{222, 173, 190, 239, 255, 1}
	macA = ethernet.MACAddr{0, 0, 0, 0, 0, 1}
	macB = ethernet.MACAddr{0xde, 0xad, 0xbe, 0xef, 0x12, 0x34}
	macC = ethernet.MACAddr{0xde, 0xad, 0xbe, 0xef, 0x12, 0x35}
	llc  = []byte{0xfe, 0xfe, 0x03}
)

const (
	idxA = 7
	idxB = 100
	hold = 16
)

type node struct {
	label string
	s     *server.Server
	fac   *isisx.Factory
	devs  *isisx.Devs
	sys   types.SystemID
	idx   uint64
	addr  *bnet.Prefix
	peer  ethernet.MACAddr // the MAC the neighbor's frames come from
	taken map[*isisx.Eth]int
	addrs []*bnet.Prefix // what the device server reports for the interface
}

// addrSet: "4" one IPv4 address, "46" / "64" an IPv6 address after / before it
var addrSet = "4"

func newNode(clk *isisx.Clock, label string, sys types.SystemID, idx uint64, lastOctet byte, helloInt int, peer ethernet.MACAddr) (*node, error) {
	clk.SetLabel(label)
	n := &node{label: label, sys: sys, idx: idx, peer: peer, fac: &isisx.Factory{}, devs: isisx.NewDevs(), taken: map[*isisx.Eth]int{}}
	n.addr = bnet.NewPfx(bnet.IPv4FromOctets(169, 254, 100, lastOctet), 31).Ptr()
	n.addrs = []*bnet.Prefix{n.addr}
	switch addrSet {
	case "46": // an IPv6 address alongside the IPv4 one: IS-IS for IPv4 has to see the IPv4 view only
		n.addrs = []*bnet.Prefix{n.addr, bnet.NewPfx(bnet.IPv6FromBlocks(0xfe80, 0, 0, 0, 0, 0, 0, uint16(1+lastOctet)), 64).Ptr()}
	case "64":
		n.addrs = []*bnet.Prefix{bnet.NewPfx(bnet.IPv6FromBlocks(0x2001, 0xdb8, 0, 0, 0, 0, 0, uint16(1+lastOctet)), 64).Ptr(), n.addr}
	}
	s, err := server.New([]*types.NET{{AreaID: types.AreaID{0x49, 0}, SystemID: sys}}, n.devs, 3600)
	if err != nil {
		return nil, err
	}
	n.s = s
	s.SetEthernetInterfaceFactory(n.fac)
	s.SetHostnameFunc(func() (string, error) { return "v" + label, nil })
	s.Start()
	s.AddInterface(&server.InterfaceConfig{Name: "eth0", PointToPoint: true,
		Level2: &server.InterfaceLevelConfig{HelloInterval: uint16(helloInt), HoldingTimer: hold, Metric: 10}})
	// the device server reports the interface (down) when IS-IS subscribes
	n.devs.Update("eth0", &isisx.Dev{Index: idx, Oper: device.IfOperDown, Addrs: n.addrs})
	return n, nil
}

func (n *node) link(clk *isisx.Clock, up bool) {
	clk.SetLabel(n.label)
	st := uint8(device.IfOperDown)
	if up {
		st = device.IfOperUp
	}
	n.devs.Update("eth0", &isisx.Dev{Index: n.idx, Oper: st, Addrs: n.addrs})
}

func (n *node) eth() *isisx.Eth {
	st := n.s.VerifIfaState("eth0")
	if e, ok := st.Eth.(*isisx.Eth); ok && e != nil && st.OperUp {
		return e
	}
	return nil
}

// frames written since the last call, in order
func (n *node) take() [][]byte {
	var out [][]byte
	for _, h := range n.fac.All() {
		out = append(out, h.TakeSent()...)
	}
	return out
}

func (n *node) inject(clk *isisx.Clock, src ethernet.MACAddr, frame []byte) string {
	clk.SetLabel(n.label)
	if e := n.eth(); e != nil {
		if e.Inject(src, frame) {
			return isisx.Quiesce()
		}
	}
	return ""
}

func macName(m ethernet.MACAddr) string {
	switch m {
	case macA:
		return "a"
	case macB:
		return "b"
	case macC:
		return "c"
	}
	return "?"
}

func (n *node) state() string {
	var ns []string
	for _, v := range n.s.VerifNeighbors() {
		st := map[uint8]string{packet.P2PAdjStateUp: "U", packet.P2PAdjStateInit: "I", packet.P2PAdjStateDown: "D"}[v.State]
		ns = append(ns, fmt.Sprintf("%s:%s:%d:%d", macName(v.Address), st,
			int64(v.Timeout.Sub(isisx.Epoch)/time.Second), int64(v.LastStateChange.Sub(isisx.Epoch)/time.Second)))
	}
	sort.Strings(ns)
	var db []string
	for _, e := range n.s.VerifLSDB() {
		id := append(append([]byte{}, e.LSPID.SystemID[:]...), e.LSPID.PseudonodeID, e.LSPID.LSPNumber)
		db = append(db, fmt.Sprintf("%s:%d:%d:S%s:N%s", hex.EncodeToString(id), e.SequenceNumber, e.RemainingLifetime, ifs(e.SRM), ifs(e.SSN)))
	}
	sort.Strings(db)
	return fmt.Sprintf("n=%s;db=%s;c=%d", strings.Join(ns, ","), strings.Join(db, ","), n.s.VerifSequenceNumberL2())
}

func ifs(names []string) string {
	if len(names) == 0 {
		return "-"
	}
	var d []string
	for _, x := range names {
		d = append(d, strings.TrimPrefix(x, "eth"))
	}
	sort.Strings(d)
	return strings.Join(d, "")
}

// canonical text of the frames of one step (see the header comment)
func canon(frames [][]byte) string {
	groups := map[byte][]string{}
	for _, f := range frames {
		w := append(append([]byte{}, llc...), f...)
		ty := byte(0)
		if len(w) > 7 {
			ty = w[7]
		}
		txt := hex.EncodeToString(w)
		if ty == packet.L2_PSNP_TYPE {
			if p, err := packet.Decode(bytes.NewBuffer(w)); err == nil {
				if ps, ok := p.Body.(*packet.PSNP); ok {
					var es []string
					for _, e := range ps.GetLSPEntries() {
						id := append(append([]byte{}, e.LSPID.SystemID[:]...), e.LSPID.PseudonodeID, e.LSPID.LSPNumber)
						es = append(es, fmt.Sprintf("%d.%s.%d.%d", e.RemainingLifetime, hex.EncodeToString(id), e.SequenceNumber, e.LSPChecksum))
					}
					sort.Strings(es)
					src := ps.SourceID.Serialize()
					txt = fmt.Sprintf("P:%d:%s:%s", ps.PDULength, hex.EncodeToString(src), strings.Join(es, "+"))
				}
			}
		}
		groups[ty] = append(groups[ty], txt)
	}
	var out []string
	for _, ty := range []byte{packet.L2_LS_PDU_TYPE, packet.L2_PSNP_TYPE, packet.P2P_HELLO, packet.L2_CSNP_TYPE} {
		g := groups[ty]
		sort.Strings(g)
		out = append(out, g...)
		delete(groups, ty)
	}
	for ty, g := range groups {
		for _, x := range g {
			out = append(out, fmt.Sprintf("?%d:%s", ty, x))
		}
	}
	if len(out) == 0 {
		return "-"
	}
	return strings.Join(out, ",")
}

type failer func(sig, detail string)

// ------------------------------------------------------------------ spec oracle on what a node sent

func idHex(l packet.LSPID) string {
	return hex.EncodeToString(append(append([]byte{}, l.SystemID[:]...), l.PseudonodeID, l.LSPNumber))
}

// extended IS reachability neighbors (type 22 has no decoder: it comes back as an unknown TLV)
func extISNeighbors(tlvs []packet.TLV) ([]string, bool) {
	var out []string
	found := false
	for _, t := range tlvs {
		if t.Type() != packet.ExtendedISReachabilityType {
			continue
		}
		found = true
		buf := bytes.NewBuffer(nil)
		t.Serialize(buf)
		v := buf.Bytes()[2:]
		for len(v) >= 11 {
			out = append(out, hex.EncodeToString(v[:7]))
			sub := int(v[10])
			if 11+sub > len(v) {
				return out, false
			}
			v = v[11+sub:]
		}
		if len(v) != 0 {
			return out, false
		}
	}
	sort.Strings(out)
	return out, found
}

type snapshot struct {
	nbrs []server.VerifNeighbor
	db   []server.VerifLSDBEntry
	cnt  uint32
}

func (n *node) snap() snapshot {
	return snapshot{n.s.VerifNeighbors(), n.s.VerifLSDB(), n.s.VerifSequenceNumberL2()}
}

// checkSent evaluates the property texts on the frames a node wrote in one phase, given the state
// right before the phase.
func (n *node) checkSent(before snapshot, frames [][]byte, phase string, fail failer, where string) {
	var wantPSNP, wantLSP, wantCSNP []string
	for _, e := range before.db {
		for _, i := range e.SSN {
			if i == "eth0" {
				wantPSNP = append(wantPSNP, fmt.Sprintf("%s.%d", idHex(e.LSPID), e.SequenceNumber))
			}
		}
		for _, i := range e.SRM {
			if i == "eth0" {
				wantLSP = append(wantLSP, fmt.Sprintf("%s.%d", idHex(e.LSPID), e.SequenceNumber))
			}
		}
		wantCSNP = append(wantCSNP, fmt.Sprintf("%s.%d", idHex(e.LSPID), e.SequenceNumber))
	}
	var gotPSNP, gotLSP, gotCSNP []string
	nCSNP := 0
	for _, f := range frames {
		w := append(append([]byte{}, llc...), f...)
		p, err := packet.Decode(bytes.NewBuffer(w))
		if err != nil {
			fail("sent-frame-does-not-decode", fmt.Sprintf("%s: %s wrote a frame its own decoder rejects (%v): %s", where, n.label, err, hex.EncodeToString(w)))
			continue
		}
		switch b := p.Body.(type) {
		case *packet.P2PHello:
			// three-way TLV = neighbor state
			t := b.GetP2PAdjTLV()
			if t == nil || b.SystemID != n.sys || b.CircuitType != 2 {
				fail("hello-malformed", where+": hello without three-way TLV / wrong system id / wrong circuit type")
				continue
			}
			var nb *server.VerifNeighbor
			if len(before.nbrs) == 1 && before.nbrs[0].State != packet.P2PAdjStateDown {
				nb = &before.nbrs[0]
			}
			if nb == nil {
				if t.AdjacencyState != packet.DOWN_STATE || t.TLVLength != 5 {
					fail("hello-threeway-not-down", fmt.Sprintf("%s: no (non-Down) neighbor but the three-way TLV says state %d len %d", where, t.AdjacencyState, t.TLVLength))
				}
			} else if t.AdjacencyState != nb.State || t.TLVLength != 15 || t.NeighborSystemID != nb.SystemID {
				fail("hello-threeway-differs-from-adjacency", fmt.Sprintf("%s: neighbor %v in state %d, the hello's three-way TLV says state %d neighbor %v (len %d)", where, nb.SystemID, nb.State, t.AdjacencyState, t.NeighborSystemID, t.TLVLength))
			}
		case *packet.LSPDU:
			gotLSP = append(gotLSP, fmt.Sprintf("%s.%d", idHex(b.LSPID), b.SequenceNumber))
			if b.LSPID.SystemID == n.sys && b.LSPID.PseudonodeID == 0 && b.LSPID.LSPNumber == 0 {
				// the own LSP lists exactly the Up adjacencies
				var ups []string
				for _, v := range before.nbrs {
					if v.State == packet.P2PAdjStateUp {
						ups = append(ups, hex.EncodeToString(append(append([]byte{}, v.SystemID[:]...), 0)))
					}
				}
				sort.Strings(ups)
				got, ok := extISNeighbors(b.TLVs)
				if !ok {
					fail("own-lsp-extis-unparsable", where+": the extended IS reachability TLV of the own LSP cannot be parsed back")
				}
				stale := false
				for _, e := range before.db {
					if e.LSPID == b.LSPID && e.SequenceNumber != b.SequenceNumber {
						stale = true
					}
				}
				if !stale && strings.Join(got, ",") != strings.Join(ups, ",") && phase != "stale-ok" {
					fail("own-lsp-differs-from-up-adjacencies", fmt.Sprintf("%s: own LSP (seq %d) lists %v, Up adjacencies are %v", where, b.SequenceNumber, got, ups))
				}
			}
		case *packet.PSNP:
			for _, e := range b.GetLSPEntries() {
				gotPSNP = append(gotPSNP, fmt.Sprintf("%s.%d", idHex(e.LSPID), e.SequenceNumber))
			}
		case *packet.CSNP:
			nCSNP++
			prev := ""
			for _, e := range b.GetLSPEntries() {
				gotCSNP = append(gotCSNP, fmt.Sprintf("%s.%d", idHex(e.LSPID), e.SequenceNumber))
				if idHex(e.LSPID) <= prev {
					fail("csnp-entries-not-ascending", where+": CSNP entries are not in ascending LSP id order")
				}
				prev = idHex(e.LSPID)
			}
		}
	}
	cmp := func(kind string, got, want []string, sent bool) {
		sort.Strings(got)
		sort.Strings(want)
		if !sent {
			want = nil
		}
		if strings.Join(got, ",") != strings.Join(want, ",") {
			fail(kind+"-differ-from-flags", fmt.Sprintf("%s: %s sent %v, the database flags call for %v", where, n.label, got, want))
		}
	}
	linkUp := n.eth() != nil
	switch phase {
	case "lsp":
		cmp("flooded-lsps", gotLSP, wantLSP, linkUp)
	case "psnp":
		cmp("psnp-entries", gotPSNP, wantPSNP, linkUp)
	case "csnp":
		hasUp := false
		for _, v := range before.nbrs {
			if v.State == packet.P2PAdjStateUp {
				hasUp = true
			}
		}
		cmp("csnp-entries", gotCSNP, wantCSNP, hasUp && linkUp)
	}
}

// one second of a node's life, routines in the model's order
func (n *node) second(clk *isisx.Clock, helloInt int, fail failer, where string) (frames [][]byte, blocked string) {
	clk.SetLabel(n.label)
	now := clk.Sec()
	deliver := func(pick func(t *isisx.Tk) bool, phase string) {
		before := n.snap()
		for _, t := range clk.Tickers() {
			if t.Label == n.label && pick(t) && t.TryTick(clk.Now()) {
				if q := isisx.Quiesce(); q != "" {
					blocked = q
				}
			}
		}
		fr := n.take()
		if phase != "" {
			n.checkSent(before, fr, phase, fail, where+" ("+phase+" phase)")
		} else if len(fr) > 0 {
			fail("unexpected-transmission", fmt.Sprintf("%s: %d frame(s) written during a routine that sends nothing", where, len(fr)))
		}
		frames = append(frames, fr...)
	}
	base := -1
	for _, t := range clk.Tickers() {
		if t.Label == n.label {
			base = t.Seq // the first four tickers of a node are the LSDB routines' (Start)
			break
		}
	}
	hd := time.Duration(helloInt) * time.Second
	deliver(func(t *isisx.Tk) bool { return t.D == time.Second && t.Seq != base }, "")
	deliver(func(t *isisx.Tk) bool { return t.Seq == base }, "")
	if now%5 == 0 {
		deliver(func(t *isisx.Tk) bool { return t.Seq == base+1 }, "lsp")
		deliver(func(t *isisx.Tk) bool { return t.Seq == base+2 }, "psnp")
	}
	if now%int64(helloInt) == 0 {
		deliver(func(t *isisx.Tk) bool { return t.D == hd && (t.Seq < base || t.Seq > base+3) }, "hello")
	}
	if now%10 == 0 {
		deliver(func(t *isisx.Tk) bool { return t.Seq == base+3 }, "csnp")
	}
	return
}

// ------------------------------------------------------------------ cases

func runSingle(toks []string, helloInt int, res *isisx.Result) {
	fail := func(sig, detail string) {
		if res.Sig == "" {
			res.Sig, res.Detail = sig, detail
		}
	}
	clk := isisx.NewClock()
	server.SetClock(clk)
	a, err := newNode(clk, "A", sysA, idxA, 0, helloInt, macB)
	if err != nil {
		res.Obs, res.Sig, res.Detail = "SETUP-FAILED", "setup", err.Error()
		return
	}
	if q := isisx.Quiesce(); q != "" {
		res.Obs, res.Sig, res.Detail, res.Abnormal = "blocked:setup", "blocked", q, true
		return
	}
	a.take()
	var obs []string
	for k, t := range toks {
		where := fmt.Sprintf("token %d (%s)", k, t[:1])
		var frames [][]byte
		blocked := ""
		before := a.state()
		switch t[0] {
		case 'U', 'D':
			oc, val := isisx.Watchdog(func() { a.link(clk, t[0] == 'U') })
			if oc != "ok" {
				fail("link-event-"+oc, fmt.Sprintf("%s: %v", where, val))
				res.Abnormal = true
			}
			blocked = isisx.Quiesce()
			frames = a.take()
		case 'T':
			clk.Advance(time.Second)
			frames, blocked = a.second(clk, helloInt, fail, where)
		case 'F', 'G':
			raw, err := hex.DecodeString(t[2:])
			if err != nil {
				res.Obs, res.Sig, res.Detail = "BAD-INPUT", "bad-input", err.Error()
				return
			}
			src := macB
			if t[0] == 'G' {
				src = macC
			}
			blocked = a.inject(clk, src, raw)
			frames = a.take()
			if _, derr := packet.Decode(bytes.NewBuffer(raw)); derr != nil {
				res.NT = true
				if after := a.state(); after != before {
					fail("garbage-changed-state", fmt.Sprintf("%s: the frame does not decode (%v) but the state changed from %s to %s", where, derr, before, after))
				}
			}
			if len(frames) > 0 {
				fail("reception-triggered-transmission", where+": frames were written while processing a received frame")
			}
		}
		if blocked != "" || res.Abnormal {
			obs = append(obs, "blocked")
			fail("blocked", where+": a server goroutine stays busy: "+blocked)
			res.Abnormal = true
			break
		}
		obs = append(obs, a.state()+"|"+canon(frames))
	}
	res.Obs = strings.Join(obs, " ")
	if res.Obs == "" {
		res.Obs = "-"
	}
	if !res.Abnormal {
		oc, _ := isisx.Watchdog(func() { a.s.VerifShutdown() })
		if oc != "ok" || isisx.Quiesce() != "" {
			res.Abnormal = true
		}
	}
}

func runPair(args map[string]string, extra map[int][]byte, helloInt int, res *isisx.Result) {
	fail := func(sig, detail string) {
		if res.Sig == "" {
			res.Sig, res.Detail = sig, detail
		}
	}
	secs, _ := strconv.Atoi(args["k"])
	clk := isisx.NewClock()
	server.SetClock(clk)
	a, err := newNode(clk, "A", sysA, idxA, 0, helloInt, macB)
	if err != nil {
		res.Obs, res.Sig, res.Detail = "SETUP-FAILED", "setup", err.Error()
		return
	}
	b, err := newNode(clk, "B", sysB, idxB, 1, helloInt, macA)
	if err != nil {
		res.Obs, res.Sig, res.Detail = "SETUP-FAILED", "setup", err.Error()
		return
	}
	a.link(clk, true)
	b.link(clk, true)
	if q := isisx.Quiesce(); q != "" {
		res.Obs, res.Sig, res.Detail, res.Abnormal = "blocked:setup", "blocked", q, true
		return
	}
	a.take()
	b.take()
	res.NT = true
	var obs []string
	upAt, syncAt := -1, -1
	for sec := 1; sec <= secs && !res.Abnormal; sec++ {
		where := fmt.Sprintf("second %d", sec)
		clk.Advance(time.Second)
		fa, q1 := a.second(clk, helloInt, fail, where+" A")
		fb, q2 := b.second(clk, helloInt, fail, where+" B")
		// what was written during this second arrives at the other side now
		q3 := ""
		for _, f := range fa {
			if q := b.inject(clk, macA, append(append([]byte{}, llc...), f...)); q != "" {
				q3 = q
			}
		}
		for _, f := range fb {
			if q := a.inject(clk, macB, append(append([]byte{}, llc...), f...)); q != "" {
				q3 = q
			}
		}
		if x, ok := extra[sec]; ok {
			if q := a.inject(clk, macB, x); q != "" {
				q3 = q
			}
		}
		if q1+q2+q3 != "" {
			fail("blocked", where+": a server goroutine stays busy: "+q1+q2+q3)
			res.Abnormal = true
			break
		}
		if len(a.take())+len(b.take()) > 0 {
			fail("reception-triggered-transmission", where+": frames were written while processing received frames")
		}
		obs = append(obs, "A{"+a.state()+"|"+canon(fa)+"}B{"+b.state()+"|"+canon(fb)+"}")
		// convergence: adjacency Up on both sides, then both databases hold both LSPs with equal sequence numbers
		bothUp := strings.Contains(a.state(), "n=b:U:") && strings.Contains(b.state(), "n=a:U:")
		if bothUp && upAt < 0 {
			upAt = sec
		}
		dbOf := func(n *node) string {
			var p []string
			for _, e := range n.s.VerifLSDB() {
				p = append(p, fmt.Sprintf("%s.%d", idHex(e.LSPID), e.SequenceNumber))
			}
			return strings.Join(p, ",")
		}
		if bothUp && dbOf(a) == dbOf(b) && len(a.s.VerifLSDB()) == 2 && syncAt < 0 {
			syncAt = sec
		}
	}
	if !res.Abnormal && len(extra) == 0 {
		if upAt < 0 && secs >= 3*helloInt {
			fail("pair-adjacency-not-up", fmt.Sprintf("two servers back to back exchanged hellos for %d s (hello interval %d s) and the adjacency is not Up on both sides", secs, helloInt))
		} else if syncAt < 0 && secs >= 3*helloInt+25 {
			fail("pair-lsdb-not-synchronised", fmt.Sprintf("adjacency Up since second %d, but after %d s the two databases do not hold the same two LSPs", upAt, secs))
		}
	}
	res.Obs = strings.Join(obs, " ")
	if res.Obs == "" {
		res.Obs = "-"
	}
	if !res.Abnormal {
		oc, _ := isisx.Watchdog(func() { a.s.VerifShutdown(); b.s.VerifShutdown() })
		if oc != "ok" || isisx.Quiesce() != "" {
			res.Abnormal = true
		}
	}
}

func runCase(id, input string) (res isisx.Result) {
	res = isisx.Result{ID: id, Input: input}
	f := strings.Fields(input)
	args := map[string]string{}
	var toks []string
	extra := map[int][]byte{}
	for _, t := range f {
		if i := strings.Index(t, "="); i > 0 && i < 5 && t[1] != ':' {
			if t[:i] == "x" {
				p := strings.SplitN(t[i+1:], ":", 2)
				sec, err1 := strconv.Atoi(p[0])
				raw, err2 := hex.DecodeString(p[len(p)-1])
				if len(p) != 2 || err1 != nil || err2 != nil {
					res.Obs, res.Sig, res.Detail = "BAD-INPUT", "bad-input", "bad x= argument"
					return
				}
				extra[sec] = raw
			} else {
				args[t[:i]] = t[i+1:]
			}
		} else {
			toks = append(toks, t)
		}
	}
	addrSet = "4"
	if v, ok := args["v"]; ok && (v == "46" || v == "64") {
		addrSet = v
	}
	h, err := strconv.Atoi(args["h"])
	if err != nil || (h != 3 && h != 4) {
		res.Obs, res.Sig, res.Detail = "BAD-INPUT", "bad-input", "hello interval must be 3 or 4"
		return
	}
	switch args["mode"] {
	case "single":
		runSingle(toks, h, &res)
	case "pair":
		runPair(args, extra, h, &res)
	default:
		res.Obs, res.Sig, res.Detail = "BAD-INPUT", "bad-input", "mode"
	}
	return
}

func main() {
	isisx.Silence()
	if isisx.IsWorker() {
		isisx.ServeWorker(runCase)
		return
	}
	cfg := hx.Parse()
	tr := hx.NewTrace(cfg.Out)
	var cases [][2]string
	if cfg.Mode == "replay" {
		for _, c := range hx.InputsFrom(cfg.Replay) {
			cases = append(cases, c)
		}
	} else {
		for _, c := range hx.InputsFrom(hx.CorpusFiles(cfg.Corpus)...) {
			cases = append(cases, [2]string{"corpus-" + c[0], c[1]})
			tr.Count("corpus")
		}
		rng := hx.NewRNG(cfg.Seed)
		if cfg.Mode == "search" {
			rng = hx.NewRNG(cfg.Seed ^ 0x5bd1e995)
		}
		for i := 0; i < cfg.N; i++ {
			cases = append(cases, [2]string{fmt.Sprintf("w%d", i), gen(rng.Fork(uint64(i)), tr)})
		}
	}
	nviol := 0
	sigs := map[string]int{}
	isisx.Isolate(cases, os.Args[1:], 300, func(r isisx.Result) bool {
		tr.Case(r.ID, r.NT, r.Input, r.Obs)
		if r.Sig != "" {
			sigs[r.Sig]++
			if sigs[r.Sig] <= 3 {
				hx.Violation(r.ID, "speaker-"+r.Sig, r.Detail)
			}
			nviol++
		}
		return true
	})
	tr.Close(cfg.Stats, map[string]interface{}{"spec_violations": nviol, "violation_signatures": sigs})
}
