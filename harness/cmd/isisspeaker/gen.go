// Generators of the speaker stream: byte strings of hellos, LSPs, CSNPs, PSNPs as a neighbor would
// send them (built with the packet package's serializers or byte by byte), mutated copies, PDUs of
// types the server does not handle, and plain garbage.
package main

import (
	"bytes"
	"encoding/hex"
	"fmt"
	"strings"

	"github.com/bio-routing/bio-rd/protocols/isis/packet"
	"github.com/bio-routing/bio-rd/protocols/isis/types"

	"verifharness/hx"
)

var sysC = types.SystemID{1, 2, 3, 4, 5, 6}

var idPool = []packet.LSPID{
	{SystemID: sysB}, {SystemID: sysB, LSPNumber: 1}, {SystemID: sysB, PseudonodeID: 1},
	{SystemID: sysC}, {SystemID: sysC, LSPNumber: 2}, {SystemID: sysA}, {SystemID: sysA, LSPNumber: 1},
}

func header(ty, li byte) []byte { return []byte{0xfe, 0xfe, 0x03, 131, li, 1, 0, ty, 1, 0, 0} }

// hello of the neighbor B; kind as in the C31 harness: m lists A, s other system, c other circuit,
// n no neighbor fields, x no three-way TLV, a no area TLV, p IPv6 missing, i foreign address, l level 1 only
func helloFrame(kind byte, holdT int, state byte) []byte {
	ct := byte(2)
	if kind == 'l' {
		ct = 1
	}
	var tlvs []byte
	if kind != 'x' {
		sys := sysA
		circ := uint32(idxA)
		if kind == 's' {
			sys = sysC
		}
		if kind == 'c' {
			circ = idxA + 1
		}
		if kind == 'n' {
			tlvs = append(tlvs, 240, 5, state, 0, 0, 0, idxB)
		} else {
			tlvs = append(tlvs, 240, 15, state, 0, 0, 0, idxB)
			tlvs = append(tlvs, sys[:]...)
			tlvs = append(tlvs, byte(circ>>24), byte(circ>>16), byte(circ>>8), byte(circ))
		}
	}
	if kind == 'p' {
		tlvs = append(tlvs, 129, 1, 204)
	} else {
		tlvs = append(tlvs, 129, 2, 204, 142)
	}
	if kind == 'i' {
		tlvs = append(tlvs, 132, 4, 10, 9, 9, 9)
	} else {
		tlvs = append(tlvs, 132, 4, 169, 254, 100, 1)
	}
	if kind != 'a' {
		tlvs = append(tlvs, 1, 3, 2, 0x49, 0)
	}
	f := append(header(17, 20), ct)
	f = append(f, sysB[:]...)
	l := 20 + len(tlvs)
	f = append(f, byte(holdT>>8), byte(holdT), byte(l>>8), byte(l), 1)
	return append(f, tlvs...)
}

func lspFrame(r *hx.RNG) []byte {
	l := &packet.LSPDU{RemainingLifetime: uint16(2 + r.Intn(30)), LSPID: idPool[r.Intn(len(idPool))],
		SequenceNumber: uint32(1 + r.Intn(4)), Checksum: uint16(0x1000 + r.Intn(3))}
	if r.Chance(10) {
		l.RemainingLifetime = 1200
	}
	if r.Chance(50) {
		l.TLVs = append(l.TLVs, packet.NewAreaAddressesTLV([]types.AreaID{{0x49, 0}}))
	}
	if r.Chance(30) {
		l.TLVs = append(l.TLVs, packet.NewDynamicHostnameTLV([]byte("peer")))
	}
	if r.Chance(20) {
		l.TLVs = append(l.TLVs, packet.NewPaddingTLV(uint8(r.Intn(5))))
	}
	l.UpdateLength()
	buf := bytes.NewBuffer(nil)
	l.Serialize(buf)
	return append(header(packet.L2_LS_PDU_TYPE, packet.LSPDUMinLen), buf.Bytes()...)
}

func entries(r *hx.RNG, max int) []*packet.LSPEntry {
	n := r.Intn(max + 1)
	var es []*packet.LSPEntry
	for i := 0; i < n; i++ {
		es = append(es, &packet.LSPEntry{RemainingLifetime: uint16(1 + r.Intn(40)), LSPID: idPool[r.Intn(len(idPool))],
			SequenceNumber: uint32(1 + r.Intn(4)), LSPChecksum: uint16(0x1000 + r.Intn(3))})
	}
	return es
}

func tlvsOf(r *hx.RNG, es []*packet.LSPEntry) []packet.TLV {
	var ts []packet.TLV
	for len(es) > 0 {
		k := 1 + r.Intn(len(es))
		ts = append(ts, packet.NewLSPEntriesTLV(es[:k]))
		es = es[k:]
	}
	return ts
}

func csnpFrame(r *hx.RNG) []byte {
	c := &packet.CSNP{SourceID: types.SourceID{SystemID: sysB}, StartLSPID: packet.LSPID{},
		EndLSPID: packet.LSPID{SystemID: types.SystemID{255, 255, 255, 255, 255, 255}, PseudonodeID: 255, LSPNumber: 255}}
	if r.Chance(35) {
		c.StartLSPID = idPool[r.Intn(len(idPool))]
	}
	if r.Chance(35) {
		c.EndLSPID = idPool[r.Intn(len(idPool))]
	}
	c.TLVs = tlvsOf(r, entries(r, 4))
	c.PDULength = packet.CSNPMinLen
	for _, t := range c.TLVs {
		c.PDULength += uint16(t.Length()) + 2
	}
	buf := bytes.NewBuffer(nil)
	c.Serialize(buf)
	return append(header(packet.L2_CSNP_TYPE, packet.CSNPMinLen), buf.Bytes()...)
}

func psnpFrame(r *hx.RNG) []byte {
	p := &packet.PSNP{SourceID: types.SourceID{SystemID: sysB}}
	p.TLVs = tlvsOf(r, entries(r, 3))
	p.PDULength = packet.PSNPMinLen
	for _, t := range p.TLVs {
		p.PDULength += uint16(t.Length()) + 2
	}
	buf := bytes.NewBuffer(nil)
	p.Serialize(buf)
	return append(header(packet.L2_PSNP_TYPE, packet.PSNPMinLen), buf.Bytes()...)
}

func mutate(r *hx.RNG, f []byte) []byte {
	g := append([]byte{}, f...)
	switch r.Intn(5) {
	case 0: // truncate
		if len(g) > 4 {
			g = g[:3+r.Intn(len(g)-3)]
		}
	case 1: // flip a byte behind the header
		if len(g) > 12 {
			g[11+r.Intn(len(g)-11)] ^= byte(1 << uint(r.Intn(8)))
		}
	case 2: // trailing bytes
		for i := r.Intn(4) + 1; i > 0; i-- {
			g = append(g, byte(r.Intn(256)))
		}
	case 3: // a PDU type the decoder has no case for (LAN hellos, level 1 PDUs, nonsense)
		if len(g) > 7 {
			g[7] = []byte{15, 16, 18, 24, 26, 0, 255}[r.Intn(7)]
		}
	default: // random bytes
		g = make([]byte, r.Intn(40))
		for i := range g {
			g[i] = byte(r.Intn(256))
		}
	}
	return g
}

func frameTok(src byte, f []byte) string { return fmt.Sprintf("%c:%s", src, hex.EncodeToString(f)) }

func gen(r *hx.RNG, tr *hx.Trace) string {
	s := gen0(r, tr)
	if r.Chance(50) { // interface with an IPv6 address besides its IPv4 address
		v := []string{"46", "64"}[r.Intn(2)]
		tr.Count("addrs_" + v)
		return "v=" + v + " " + s
	}
	return s
}

func gen0(r *hx.RNG, tr *hx.Trace) string {
	h := 3 + r.Intn(2)
	if r.Chance(6) {
		tr.Count("pair")
		s := fmt.Sprintf("mode=pair h=%d k=%d", h, 12+r.Intn(40))
		if r.Chance(30) {
			s += fmt.Sprintf(" x=%d:%s", 8+r.Intn(20), hex.EncodeToString(mutate(r, lspFrame(r))))
		}
		return s
	}
	if r.Chance(5) {
		// bulk: more LSPs than fit into one LSP entries TLV (15), acknowledged by a PSNP and described by a CSNP
		tr.Count("bulk")
		toks := []string{"mode=single", fmt.Sprintf("h=%d", h), "U", frameTok('F', helloFrame('m', 16, 1)), frameTok('F', helloFrame('m', 16, 0))}
		n := 14 + r.Intn(6)
		for i := 0; i < n; i++ {
			l := &packet.LSPDU{RemainingLifetime: 1200, LSPID: packet.LSPID{SystemID: sysC, PseudonodeID: uint8(i / 8), LSPNumber: uint8(i % 8)},
				SequenceNumber: uint32(1 + r.Intn(3)), Checksum: uint16(0x2000 + i)}
			l.UpdateLength()
			buf := bytes.NewBuffer(nil)
			l.Serialize(buf)
			toks = append(toks, frameTok('F', append(header(packet.L2_LS_PDU_TYPE, packet.LSPDUMinLen), buf.Bytes()...)))
		}
		for i := 0; i < 10; i++ {
			toks = append(toks, "T")
			if i == 6 {
				toks = append(toks, frameTok('F', helloFrame('m', 16, 0)))
			}
		}
		return strings.Join(toks, " ")
	}
	tr.Count("single")
	toks := []string{"mode=single", fmt.Sprintf("h=%d", h), "U"}
	n := 6 + r.Intn(30)
	for i := 0; i < n; i++ {
		c := r.Intn(100)
		switch {
		case c < 30:
			kind := "mmmmmmmscn"[r.Intn(10)]
			if r.Chance(10) {
				kind = "xapil"[r.Intn(5)]
			}
			toks = append(toks, frameTok('F', helloFrame(byte(kind), []int{2, 5, 9, 16}[r.Intn(4)], byte(r.Intn(3)))))
			tr.Count("hello_" + string(kind))
		case c < 58:
			rep := 1
			if r.Chance(35) {
				rep = 2 + r.Intn(5)
			}
			for j := 0; j < rep; j++ {
				toks = append(toks, "T")
			}
			tr.Count("tick")
		case c < 70:
			toks = append(toks, frameTok('F', lspFrame(r)))
			tr.Count("lsp")
		case c < 77:
			toks = append(toks, frameTok('F', csnpFrame(r)))
			tr.Count("csnp")
		case c < 84:
			toks = append(toks, frameTok('F', psnpFrame(r)))
			tr.Count("psnp")
		case c < 92:
			var f []byte
			switch r.Intn(4) {
			case 0:
				f = helloFrame('m', 9, 0)
			case 1:
				f = lspFrame(r)
			case 2:
				f = csnpFrame(r)
			default:
				f = psnpFrame(r)
			}
			toks = append(toks, frameTok('F', mutate(r, f)))
			tr.Count("mutated")
		case c < 96:
			f := [][]byte{lspFrame(r), csnpFrame(r), psnpFrame(r)}[r.Intn(3)]
			toks = append(toks, frameTok('G', f)) // from a MAC without adjacency
			tr.Count("from_stranger")
		case c < 98:
			toks = append(toks, "D")
			tr.Count("link_down")
		default:
			toks = append(toks, "U")
			tr.Count("link_up")
		}
	}
	return strings.Join(toks, " ")
}
