// C26 harness: the same workloads under the Go race detector (build with -race; see verifharness/lockstress).
package main

import "verifharness/lockstress"

func main() { lockstress.Main("c26") }
