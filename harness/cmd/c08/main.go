// C08 harness: a real AdjRIBOut as client of a real LocRIB (recording client behind it) under Loc-RIB
// histories; after every change the Adj-RIB-Out is compared with the export view of the Loc-RIB.
//
// Input tokens:  S:<kind>:<maxpaths>:<role>  C<chain>  then ops
//
//	a<pfx>=<path> / r<pfx>=<path>   LocRIB.AddPath / LocRIB.RemovePath (the Adj-RIB-Out hears about it as a client)
//
// Observation, one token per op:  <stream>#<view>#<events>#<table>#<routecount>
//
//	stream = calls the LocRIB made on a spy client registered with the same options ("+p=path,-p=path")
//	view   = the Loc-RIB's first-n paths per prefix after the op (what the session is entitled to)
//	events = calls the Adj-RIB-Out made on its client;  table = AdjRIBOut.Dump
package main

import (
	"fmt"
	"os"

	"strconv"
	"strings"
	"time"

	"github.com/bio-routing/bio-rd/route"
	"github.com/bio-routing/bio-rd/routingtable/adjRIBOut"
	"github.com/bio-routing/bio-rd/routingtable/locRIB"

	"verifharness/aro"
	"verifharness/hx"
)

const nPfx = 3

type op struct {
	kind  byte
	pfx   int
	path  aro.PS
	chain aro.Chain
	n     uint32
}

func (o op) token() string {
	switch o.kind {
	case 'x':
		return "x" + o.chain.Token()
	case 'L':
		return "L" + strconv.FormatUint(uint64(o.n), 10)
	}
	return fmt.Sprintf("%c%d=%s", o.kind, o.pfx, o.path.Token())
}

type tcase struct {
	sess  aro.Sess
	chain aro.Chain
	ops   []op
}

func (c tcase) input() string {
	t := []string{c.sess.Token(), "C" + c.chain.Token()}
	for _, o := range c.ops {
		t = append(t, o.token())
	}
	return strings.Join(t, " ")
}

func parseCase(in string) (tcase, error) {
	var c tcase
	f := strings.Fields(in)
	if len(f) < 2 {
		return c, fmt.Errorf("short case")
	}
	var err error
	if c.sess, err = aro.ParseSess(f[0]); err != nil {
		return c, err
	}
	if !strings.HasPrefix(f[1], "C") {
		return c, fmt.Errorf("missing chain")
	}
	if c.chain, err = aro.ParseChain(f[1][1:]); err != nil {
		return c, err
	}
	for _, t := range f[2:] {
		o := op{kind: t[0]}
		switch o.kind {
		case 'x':
			if o.chain, err = aro.ParseChain(t[1:]); err != nil {
				return c, err
			}
		case 'L':
			v, e := strconv.ParseUint(t[1:], 10, 32)
			if e != nil {
				return c, e
			}
			o.n = uint32(v)
		case 'a', 'r', 'A', 'R':
			p := strings.SplitN(t[1:], "=", 2)
			if len(p) != 2 {
				return c, fmt.Errorf("bad op %q", t)
			}
			if o.pfx, err = strconv.Atoi(p[0]); err != nil {
				return c, err
			}
			if o.path, err = aro.ParsePath(p[1]); err != nil {
				return c, err
			}
		default:
			return c, fmt.Errorf("bad op %q", t)
		}
		c.ops = append(c.ops, o)
	}
	return c, nil
}

type verdict struct{ sig, detail string }

// export computes what the session exports for one Loc-RIB path: a fresh Adj-RIB-Out of the same
// session and policy is given just this path (the rules themselves are C09's subject).
func export(c tcase, pfx int, p *route.Path) (aro.PS, bool) {
	a := adjRIBOut.New(nil, c.sess.Attrs(), c.chain.Build())
	a.AddPath(aro.Pfx(pfx), p.Copy())
	d := a.Dump()
	if len(d) == 0 || len(d[0].Paths()) == 0 {
		return aro.PS{}, false
	}
	ps, err := aro.Describe(d[0].Paths()[0])
	return ps, err == nil
}

func exportable(s aro.Sess, p aro.PS) bool {
	if p.Static {
		return true
	}
	if p.Src == aro.PeerIP {
		return false
	}
	for _, c := range p.Comms {
		if c == aro.NoAdv || (c == aro.NoExport && !s.IBGP()) {
			return false
		}
	}
	return true
}

// siblingKey: equal for paths that Path.Compare cannot tell apart once the path id is ignored
func siblingKey(p aro.PS) string {
	q := p
	q.OTC, q.PID, q.ASLen, q.Redist = 0, 0, 0, 0
	return q.Token()
}

func runCase(c tcase) (obs string, v *verdict, nontrivial bool) {
	lr := locRIB.New("c08")
	a := adjRIBOut.New(lr, c.sess.Attrs(), c.chain.Build())
	rec := aro.NewRec()
	a.Register(rec)
	spy := aro.NewRec()
	lr.RegisterWithOptions(a, c.sess.ClientOptions())
	lr.RegisterWithOptions(spy, c.sess.ClientOptions())

	addPath := c.sess.MaxPaths > 0
	n := 1
	if addPath {
		n = c.sess.MaxPaths
	}
	fail := func(sig, detail string) {
		if v == nil {
			v = &verdict{sig, detail}
		}
	}
	unexportableSeen := map[int]bool{}
	sibs := map[int]map[string]map[string]bool{} // pfx -> siblingKey -> set of AnnKeys
	hasSiblings := func(pfx int) bool {
		for _, m := range sibs[pfx] {
			if len(m) > 1 {
				return true
			}
		}
		return false
	}
	var out []string
	for i, o := range c.ops {
		switch o.kind {
		case 'a':
			if !exportable(c.sess, o.path) {
				unexportableSeen[o.pfx] = true
			}
			// siblings are judged on the policy's output (it may erase the difference between two paths), exported or not
			if fp, reject := c.chain.Build().Process(aro.Pfx(o.pfx), o.path.Build()); !reject && !o.path.Static {
				e, err := aro.Describe(fp)
				if err != nil {
					fail("malformed-policy-output", err.Error())
					continue
				}
				if sibs[o.pfx] == nil {
					sibs[o.pfx] = map[string]map[string]bool{}
				}
				k := siblingKey(e)
				if sibs[o.pfx][k] == nil {
					sibs[o.pfx][k] = map[string]bool{}
				}
				sibs[o.pfx][k][e.AnnKey()] = true
			}
			lr.AddPath(aro.Pfx(o.pfx), o.path.Build())
		case 'r':
			lr.RemovePath(aro.Pfx(o.pfx), o.path.Build())
		}
		streamEv := spy.Take()
		for _, e := range streamEv {
			if e[0] == '-' {
				nontrivial = true
			}
		}
		events := aro.JoinOrDash(rec.Take(), ",")
		dump := a.Dump()
		out = append(out, fmt.Sprintf("%s#%s#%s#%s#%d", aro.JoinOrDash(streamEv, ","), aro.LocView(lr, c.sess), events, aro.DumpTable(dump), a.RouteCount()))

		// ---- spec oracle: Adj-RIB-Out = export view of the Loc-RIB, prefix by prefix
		actual := map[int][]aro.PS{}
		for _, r := range dump {
			for _, p := range r.Paths() {
				d, err := aro.Describe(p)
				if err != nil {
					fail("malformed-path-in-table", err.Error())
					continue
				}
				actual[aro.PfxID(r.Prefix())] = append(actual[aro.PfxID(r.Prefix())], d)
			}
		}
		expected := map[int][]aro.PS{}
		for _, r := range lr.Dump() {
			ps := r.Paths()
			for j := 0; j < n && j < len(ps); j++ {
				if e, ok := export(c, aro.PfxID(r.Prefix()), ps[j]); ok {
					expected[aro.PfxID(r.Prefix())] = append(expected[aro.PfxID(r.Prefix())], e)
				}
			}
		}
		key := func(p aro.PS) string {
			if addPath {
				p.PID = 0
			}
			return p.Token()
		}
		for pfx := 0; pfx < nPfx; pfx++ {
			cnt := map[string]int{}
			for _, p := range actual[pfx] {
				cnt[key(p)]++
			}
			for _, p := range expected[pfx] {
				cnt[key(p)]--
			}
			var extra, missing []string
			extraRedist := false
			for _, p := range actual[pfx] {
				if cnt[key(p)] > 0 {
					extra = append(extra, key(p))
					if p.Redist != 0 {
						extraRedist = true
					}
				}
			}
			for _, p := range expected[pfx] {
				if cnt[key(p)] < 0 {
					missing = append(missing, key(p))
				}
			}
			if len(extra) == 0 && len(missing) == 0 {
				continue
			}
			where := fmt.Sprintf("after op %d (%s) prefix %d on %s: extra=%v missing=%v", i, o.token(), pfx, c.sess.Token(), extra, missing)
			rewriting := c.sess.Kind == "ebgp" || c.sess.Kind == "rr"
			switch {
			case len(extra) > 0 && (rewriting || extraRedist):
				fail("stale-after-withdraw-on-rewriting-session", where)
			case addPath && unexportableSeen[pfx]:
				fail("addpath-prefix-wiped-by-unexportable-arrival", where)
			case addPath && hasSiblings(pfx):
				fail("addpath-withdraw-hits-compare-equal-sibling", where)
			case len(extra) > 0:
				fail("ribout-holds-path-outside-export-view", where)
			default:
				fail("ribout-lacks-path-of-export-view", where)
			}
		}
	}
	return strings.Join(out, " "), v, nontrivial
}

// ---------------------------------------------------------------- generator

func gen(r *hx.RNG, t *hx.Trace) tcase {
	var c tcase
	c.sess = aro.GenSess(r, 45)
	c.chain = aro.GenChain(r, nPfx)
	if r.Chance(45) {
		c.chain = aro.Chain{{{Acts: []aro.Act{{Kind: "acc"}}}}}
	}
	t.Count("sess_" + c.sess.Kind)
	if c.sess.MaxPaths > 0 {
		t.Count("addpath")
	}
	o := aro.DefaultGen
	o.Static = 12
	if r.Chance(50) {
		o.OwnSrc, o.BadComm = 0, 0 // histories without non-exportable arrivals
	}
	n := 4 + r.Intn(16)
	var pool []aro.PS
	type ent struct {
		pfx int
		p   aro.PS
	}
	var inLoc []ent
	// what LocRIB.RemovePath (Path.Compare: no OTC, no ASPathLen) can tell apart; two objects it cannot
	// tell apart would make "the path we withdraw" ambiguous inside the Loc-RIB itself
	compareKey := func(p aro.PS) string {
		q := p
		q.OTC, q.ASLen, q.Redist = 0, 0, 0
		return q.Token()
	}
	present := func(e ent) bool {
		for _, x := range inLoc {
			if x.pfx == e.pfx && compareKey(x.p) == compareKey(e.p) {
				return true
			}
		}
		return false
	}
	for i := 0; i < n; i++ {
		if r.Chance(62) || len(inLoc) == 0 {
			var p aro.PS
			if len(pool) > 0 && r.Chance(40) {
				p = aro.Mutate(r, pool[r.Intn(len(pool))])
			} else {
				p = aro.GenPath(r, o)
			}
			if len(pool) > 0 && r.Chance(25) {
				p = pool[r.Intn(len(pool))]
			}
			if p.Static && p.StaticNil {
				p.StaticNil, p.NH = false, 0x05050505
			}
			if c.sess.Kind == "ibgp" && !p.Static && r.Chance(60) {
				p.EBGP = true
			}
			pool = append(pool, p)
			e := ent{r.Intn(nPfx), p}
			if present(e) {
				continue // the Loc-RIB would hold two indistinguishable objects
			}
			inLoc = append(inLoc, e)
			c.ops = append(c.ops, op{kind: 'a', pfx: e.pfx, path: e.p})
			t.Count("op_add")
		} else {
			j := r.Intn(len(inLoc))
			e := inLoc[j]
			inLoc = append(inLoc[:j], inLoc[j+1:]...)
			c.ops = append(c.ops, op{kind: 'r', pfx: e.pfx, path: e.p})
			t.Count("op_remove")
		}
	}
	return c
}

func main() {
	cfg := hx.Parse()
	tr := hx.NewTrace(cfg.Out)
	nviol := 0
	do := func(id string, c tcase) {
		var obs string
		var v *verdict
		var nt bool
		done := make(chan struct{})
		var panicked bool
		var pval interface{}
		go func() {
			panicked, pval = hx.Guard(func() { obs, v, nt = runCase(c) })
			close(done)
		}()
		select {
		case <-done:
		case <-time.After(20 * time.Second):
			obs, v = "HANG", &verdict{"hang", "case did not finish within 20s"}
		}
		if panicked {
			obs, v = "PANIC", &verdict{"panic", fmt.Sprint(pval)}
		}
		tr.Case(id, nt, c.input(), obs)
		if v != nil {
			hx.Violation(id, v.sig, v.detail)
			nviol++
		}
	}
	if cfg.Mode == "replay" {
		for _, c := range hx.InputsFrom(cfg.Replay) {
			tc, err := parseCase(c[1])
			if err != nil {
				fmt.Println("HARNESS-ERROR bad replay input:", err)
				os.Exit(2)
			}
			do(c[0], tc)
		}
	} else {
		for _, c := range hx.InputsFrom(hx.CorpusFiles(cfg.Corpus)...) {
			tc, err := parseCase(c[1])
			if err != nil {
				fmt.Println("HARNESS-ERROR bad corpus case", c[0], err)
				os.Exit(2)
			}
			do("corpus-"+c[0], tc)
			tr.Count("corpus")
		}
		rng := hx.NewRNG(cfg.Seed)
		for i := 0; i < cfg.N; i++ {
			do(fmt.Sprintf("g%d", i), gen(rng.Fork(uint64(i)), tr))
		}
	}
	_ = strconv.Itoa
	tr.Close(cfg.Stats, map[string]interface{}{"spec_violations": nviol, "prefixes": nPfx})
}
