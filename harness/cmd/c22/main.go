// C22 harness: OPENs from the bounded domain of the property (version, 2-octet AS incl. AS_TRANS,
// 4-octet AS capability right/wrong/missing/repeated, identifier 0 / ours / other, hold times 0..5,
// 90, 65535, add-path / multiprotocol / role / unknown capabilities in any order) x configurations
// (iBGP/eBGP, 2/4-octet local AS, hold times, families, add-path, IPv4 MP, roles x strict), two or
// three connections over the same FSM; plus a deterministic role matrix (6 local roles x strict x
// {none, 0..5, two different}).
package main

import (
	"fmt"

	"verifharness/fsmx"
	"verifharness/hx"
)

func roleMatrix(cfg *hx.Cfg, do func(id string, c fsmx.Case)) {
	fsmx.CapabilityProduct(do)
	fsmx.AddPathTupleProduct(do)
	for role := 0; role <= 5; role++ {
		for strict := 0; strict <= 1; strict++ {
			caps := []string{"a65002", "a65002+r0", "a65002+r1", "a65002+r2", "a65002+r3", "a65002+r4", "a65002+r5", "a65002+r3+r3", "a65002+r0+r3", "r3+a65002+r3+r0"}
			for k, cp := range caps {
				in := fmt.Sprintf("s65001/65002/10/90/4/0000/0/%d%d/0.0/A/i 0.e1 0.up 0.m:O,4,65002,90,7,%s 0.m:K", role, strict, cp)
				c, err := fsmx.ParseCase(in)
				if err != nil {
					fmt.Println("HARNESS-ERROR role matrix:", err)
					return
				}
				do(fmt.Sprintf("role%d%d-%d", role, strict, k), c)
			}
		}
	}
	// hold times 0..5 and the extremes against configured 0, 3, 90
	for _, ch := range []int{0, 3, 90} {
		for _, ph := range []int{0, 1, 2, 3, 4, 5, 89, 90, 91, 65535} {
			in := fmt.Sprintf("s65001/65002/10/%d/4/0000/0/00/0.0/A/i 0.e1 0.up 0.m:O,4,65002,%d,7,a65002 0.m:K 0.hp0 0.ka", ch, ph)
			c, _ := fsmx.ParseCase(in)
			do(fmt.Sprintf("hold%d-%d", ch, ph), c)
		}
	}
}

func main() {
	fsmx.Main(fsmx.Property{
		Name:   "c22",
		Oracle: fsmx.OracleC22,
		NonTriv: func(c fsmx.Case, obs []fsmx.StepObs) bool {
			// an OPEN is processed in OpenSent
			prev := byte(0)
			for i, o := range obs {
				if c.Evs[i].Kind == "m" && c.Evs[i].M.Kind == 'O' && prev == 'S' {
					return true
				}
				prev = o.State
			}
			return false
		},
		Gen:   func(r *hx.RNG, tr *hx.Trace) fsmx.Case { return fsmx.GenCase(r, "c22", tr) },
		Extra: roleMatrix,
	})
}
