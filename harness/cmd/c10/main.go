// C10 harness: a controlled scheduler drives the atomic steps of the BGP update sender
// (AddPath / RemovePath / one sender iteration split into Dequeue and EmitOne / EndOfRIB) in generated
// interleavings; the bytes captured in place of the peer connection are decoded by the reference decoder
// in harness/usx and replayed into the peer's view.
//
// Input tokens:
//
//	<cfg>  rib|direct|realrib|real    session kind; rib = a real adjRIBOut.AdjRIBOut sits in front of the sender;
//	                                  real* = the REAL sender goroutine runs (UpdateSender.Start) against a connection
//	                                  whose Write of an announcement blocks until the harness releases it; the ops are
//	                                  grouped by `|`: group 0 runs before the goroutine is started, every further group
//	                                  while the goroutine is blocked in its next Write (or, when it has nothing to write
//	                                  and has been stopped, before it is started again); no d/e/f/O/X tokens
//	P<tag>=<shape>                    the paths of the case (tag = next hop octet*10 + ATOMIC_AGGREGATE)
//	a<x>:<tag>[/<steps>]              route change: path <tag> for prefix <x>; <steps> (letters d<i> e f) are
//	                                  sender steps performed after the first call the change makes downstream
//	r<x>:<tag>[/<steps>]              route change: withdraw path <tag> of prefix <x>
//	q<x>:<tag>[/<steps>]              the same, the withdrawn path carries another (foreign) path identifier
//	                                  (direct mode without add-path only)
//	b<tag>:<n>                        route changes: path <tag> for the n prefixes 100..100+n-1
//	d<i>  e  f                        Dequeue (i-th pending key) / EmitOne / EmitOne until the batch is written
//	O                                 EndOfRIB
//	X<p>                              drain: finish the batch, then flush the pending keys in their p-th permutation
//
// Observation: one token per atomic step that reached the sender, `<label>[=<wire events>]`, then
// V=<peer's view> T=<Adj-RIB-Out>:
//
//	A<x>:<tag>:<pid>  R<x>:<tag>:<pid>  D<tag>:<pid>  E  O<tag>:<pid>.<tag>:<pid>...
//	B<tag>:<pid>      (real*) the goroutine is blocked in the Write of a message of this key: it has dequeued the
//	                  key if no batch was in flight
//	wire events: w<x>:<pid>  n<tag>:<pid>:<len>:<x.x.x | #count:hash>  o
package main

import (
	"fmt"
	"os"
	"sort"
	"strconv"
	"strings"

	bnet "github.com/bio-routing/bio-rd/net"
	"github.com/bio-routing/bio-rd/protocols/bgp/server"
	"github.com/bio-routing/bio-rd/route"
	"github.com/bio-routing/bio-rd/routingtable"
	"github.com/bio-routing/bio-rd/routingtable/adjRIBOut"
	"github.com/bio-routing/bio-rd/routingtable/filter"
	"github.com/bio-routing/bio-rd/routingtable/locRIB"

	"verifharness/hx"
	"verifharness/usx"
)

const knownSig = "withdrawal-overtakes-in-flight-announcement"

type key struct {
	x   int
	pid uint32
}

type world struct {
	cfg      usx.Cfg
	ribMode  bool
	shapes   map[int]usx.Shape
	cap      interface{ Take() [][]byte }
	real     *usx.Real
	realMode bool
	// real mode: the harness' own book-keeping of what is queued / in flight, only used to tell the known
	// finding from other differences
	shQueued     map[int]map[int]int // tag -> prefix -> how often queued
	shFlight     map[int]int
	shFlightP    uint32
	shPid        map[int]uint32 // path identifier of the path last queued with a tag
	actedBlocked bool
	stalled      error
	us           *server.VerifUS
	aro          *adjRIBOut.AdjRIBOut
	table        map[key]int // direct mode: what the client was told, keyed like the wire
	pfxIdx       map[string]int
	batch        *server.VerifUSBatch
	events       []string
	decoded      []*usx.Update
	steps        string // sender steps to perform after the next downstream call
	// classification of a final difference
	overtaken  map[key]bool
	hitPending bool
}

func (w *world) plen() uint8 {
	if w.cfg.V6() {
		return 48
	}
	return 24
}

func (w *world) pfx(x int) usx.Pfx { return usx.Pfx{V6: w.cfg.V6(), Len: w.plen(), Idx: uint64(x)} }

func (w *world) net(x int) *bnet.Prefix {
	n := w.pfx(x).Net()
	w.pfxIdx[n.String()] = x
	return n
}

func (w *world) wpid(pid uint32) uint32 {
	if w.cfg.AddPath {
		return pid
	}
	return 0
}

// the path identifier the harness gives a path it hands to the sender directly
func (w *world) directPid(tag int) uint32 {
	if w.cfg.AddPath {
		return uint32(tag)
	}
	return uint32(tag % 3) // a foreign identifier (learned over an add-path RX session)
}

func (w *world) path(tag int, pid uint32) *route.Path {
	sh := w.shapes[tag]
	return usx.BuildPath(w.cfg, sh, tag/10, pid)
}

func tagOfPath(p *route.Path) int {
	nh := p.BGPPath.BGPPathA.NextHop.Bytes()
	t := int(nh[len(nh)-1]) * 10
	if p.BGPPath.BGPPathA.AtomicAggregate {
		t++
	}
	return t
}

func tagOfUpdate(u *usx.Update) int {
	t := u.TagOf() * 10
	if _, ok := u.Attrs[6]; ok {
		t++
	}
	return t
}

const hmod = 1000000007

func (w *world) wireEvents() string {
	var ev []string
	for _, ch := range w.cap.Take() {
		u, err := usx.DecodeUpdate(ch, w.cfg)
		if err != nil {
			ev = append(ev, "ERR:"+strings.ReplaceAll(err.Error(), " ", "_"))
			continue
		}
		if u.EoR {
			ev = append(ev, "o")
			continue
		}
		for _, n := range u.Withdrawn {
			ev = append(ev, fmt.Sprintf("w%d:%d", n.P.Idx, n.PID))
		}
		if len(u.Announced) > 0 {
			var xs string
			if len(u.Announced) <= 12 {
				s := make([]string, len(u.Announced))
				for i, n := range u.Announced {
					s[i] = strconv.FormatUint(n.P.Idx, 10)
				}
				xs = strings.Join(s, ".")
			} else {
				var h uint64
				for j, n := range u.Announced {
					h = (h + uint64(j+1)*(n.P.Idx+1)) % hmod
				}
				xs = fmt.Sprintf("#%d:%d", len(u.Announced), h)
			}
			ev = append(ev, fmt.Sprintf("n%d:%d:%d:%s", tagOfUpdate(u), u.Announced[0].PID, u.Len, xs))
			w.decoded = append(w.decoded, u)
		} else if len(u.Withdrawn) > 0 {
			w.decoded = append(w.decoded, u)
		}
	}
	return strings.Join(ev, ",")
}

func (w *world) log(label string) {
	if ev := w.wireEvents(); ev != "" {
		label += "=" + ev
	}
	w.events = append(w.events, label)
}

// ---- the sender's client interface, as the Adj-RIB-Out (or the harness in its place) uses it

type shim struct{ w *world }

func (s shim) AddPath(pfx *bnet.Prefix, p *route.Path) error {
	w := s.w
	x := w.pfxIdx[pfx.String()]
	err := w.us.AddPath(pfx, p)
	if w.realMode {
		t := tagOfPath(p)
		if w.shQueued[t] == nil {
			w.shQueued[t] = map[int]int{}
		}
		w.shQueued[t][x]++
		w.shPid[t] = p.BGPPath.PathIdentifier
	}
	w.log(fmt.Sprintf("A%d:%d:%d", x, tagOfPath(p), p.BGPPath.PathIdentifier))
	w.interposed()
	return err
}

func (s shim) RemovePath(pfx *bnet.Prefix, p *route.Path) bool {
	w := s.w
	x := w.pfxIdx[pfx.String()]
	k := key{x, w.wpid(p.BGPPath.PathIdentifier)}
	if w.batch != nil && w.batch.Remaining() > 0 && w.wpid(w.batch.Path.BGPPath.PathIdentifier) == k.pid {
		sp := w.batch.Split()
		for _, m := range sp[len(sp)-w.batch.Remaining():] {
			for _, q := range m {
				if w.pfxIdx[q.String()] == x {
					w.overtaken[k] = true
				}
			}
		}
	}
	if w.realMode {
		if w.shFlight[x] > 0 && w.shFlightP == k.pid {
			w.overtaken[k] = true
		}
		for tag, set := range w.shQueued {
			if w.wpid(w.pidOfTag(tag)) == k.pid && set[x] > 0 {
				w.hitPending = true
				delete(set, x)
			}
		}
	}
	for _, kk := range w.us.Keys() {
		pp, pfxs := w.us.Pending(kk)
		if w.wpid(pp.BGPPath.PathIdentifier) != k.pid {
			continue
		}
		for _, q := range pfxs {
			if w.pfxIdx[q.String()] == x {
				w.hitPending = true
			}
		}
	}
	if w.overtaken[k] {
		w.hitPending = true
	}
	ok := w.us.RemovePath(pfx, p)
	w.log(fmt.Sprintf("R%d:%d:%d", x, tagOfPath(p), p.BGPPath.PathIdentifier))
	w.interposed()
	return ok
}

func (s shim) AddPathInitialDump(pfx *bnet.Prefix, p *route.Path) error { return s.AddPath(pfx, p) }
func (s shim) EndOfRIB()                                                {}
func (s shim) ReplacePath(*bnet.Prefix, *route.Path, *route.Path)       {}
func (s shim) RefreshRoute(*bnet.Prefix, []*route.Path)                 {}
func (s shim) Dispose()                                                 {}

func (w *world) interposed() {
	st := w.steps
	w.steps = ""
	w.senderSteps(st)
}

// ---- sender steps

func (w *world) dequeue(i int) {
	if w.batch != nil && w.batch.Remaining() > 0 {
		return // the sender goroutine is still writing its batch
	}
	keys := w.us.Keys()
	if len(keys) == 0 {
		return
	}
	k := keys[i%len(keys)]
	p, _ := w.us.Pending(k)
	w.batch = w.us.Dequeue(k)
	w.log(fmt.Sprintf("D%d:%d", tagOfPath(p), p.BGPPath.PathIdentifier))
}

func (w *world) emitOne() bool {
	if w.batch == nil || w.batch.Remaining() == 0 {
		return false
	}
	w.us.EmitOne(w.batch)
	w.log("E")
	return true
}

func (w *world) finish() {
	for w.emitOne() {
	}
}

func (w *world) senderSteps(s string) {
	for i := 0; i < len(s); i++ {
		switch s[i] {
		case 'd':
			j := i + 1
			for j < len(s) && s[j] >= '0' && s[j] <= '9' {
				j++
			}
			n, _ := strconv.Atoi(s[i+1 : j])
			w.dequeue(n)
			i = j - 1
		case 'e':
			w.emitOne()
		case 'f':
			w.finish()
		}
	}
}

func (w *world) endOfRIB() {
	// which entries are pending, to name the order _flush visits them in
	pid := map[int]uint32{}
	for _, k := range w.us.Keys() {
		p, _ := w.us.Pending(k)
		pid[tagOfPath(p)] = p.BGPPath.PathIdentifier
	}
	w.us.EndOfRIB()
	mark := len(w.decoded)
	ev := w.wireEvents()
	var order []string
	last := -1
	for _, u := range w.decoded[mark:] {
		if len(u.Announced) == 0 {
			continue
		}
		if t := tagOfUpdate(u); t != last {
			order = append(order, fmt.Sprintf("%d:%d", t, pid[t]))
			last = t
		}
	}
	label := "O" + strings.Join(order, ".")
	if ev != "" {
		label += "=" + ev
	}
	w.events = append(w.events, label)
}

func permutation(n, p int) []int {
	idx := make([]int, n)
	for i := range idx {
		idx[i] = i
	}
	var out []int
	for n > 0 {
		f := 1
		for i := 2; i < n; i++ {
			f *= i
		}
		j := (p / f) % n
		p %= f
		out = append(out, idx[j])
		idx = append(idx[:j], idx[j+1:]...)
		n--
	}
	return out
}

func (w *world) drain(p int) {
	w.finish()
	keys := w.us.Keys()
	for _, i := range permutation(len(keys), p) {
		pp, _ := w.us.Pending(keys[i])
		w.batch = w.us.Dequeue(keys[i])
		w.log(fmt.Sprintf("D%d:%d", tagOfPath(pp), pp.BGPPath.PathIdentifier))
		w.finish()
	}
	// whatever a step above may have queued meanwhile (nothing in this harness)
	for _, k := range w.us.Keys() {
		pp, _ := w.us.Pending(k)
		w.batch = w.us.Dequeue(k)
		w.log(fmt.Sprintf("D%d:%d", tagOfPath(pp), pp.BGPPath.PathIdentifier))
		w.finish()
	}
}

func (w *world) pidOfTag(tag int) uint32 { return w.shPid[tag] }

// realRun drives the real sender goroutine over the op groups
func (w *world) realRun(groups [][]string) (stalled error, err error) {
	gi := 0
	runGroup := func() error {
		if gi < len(groups) {
			g := groups[gi]
			gi++
			return w.execOps(g)
		}
		return nil
	}
	if err := runGroup(); err != nil {
		return nil, err
	}
	for {
		if len(w.us.Keys()) == 0 {
			if gi >= len(groups) {
				return nil, nil
			}
			if err := runGroup(); err != nil {
				return nil, err
			}
			continue
		}
		if w.real.Rounds > 500 {
			return fmt.Errorf("queue not drained after %d rounds of the sender goroutine", w.real.Rounds), nil
		}
		w.real.Start()
		for {
			m, serr := w.real.Next()
			if serr != nil {
				w.real.Abandon()
				return serr, nil
			}
			if m == nil {
				break
			}
			u, derr := usx.DecodeUpdate(m, w.cfg)
			if derr != nil || len(u.Announced) == 0 {
				w.events = append(w.events, "B?")
			} else {
				tag := tagOfUpdate(u)
				if len(w.shFlight) == 0 { // a new batch: everything queued under the key is in flight now
					w.shFlight, w.shFlightP = w.shQueued[tag], w.wpid(w.pidOfTag(tag))
					if w.shFlight == nil {
						w.shFlight = map[int]int{}
					}
					delete(w.shQueued, tag)
				}
				w.events = append(w.events, fmt.Sprintf("B%d:%d", tag, w.pidOfTag(tag)))
			}
			if gi < len(groups) {
				w.actedBlocked = true
			}
			if err := runGroup(); err != nil {
				w.real.Abandon()
				return nil, err
			}
			w.real.G.Release()
			w.log("E")
			if u != nil {
				for _, n := range u.Announced {
					if x := int(n.P.Idx); w.shFlight[x] > 1 {
						w.shFlight[x]--
					} else {
						delete(w.shFlight, x)
					}
				}
			}
		}
	}
}

// ---- route changes

func (w *world) add(x, tag int) {
	if w.ribMode {
		if w.cfg.AddPath {
			// a well-behaved Loc-RIB does not add a path twice (what the Adj-RIB-Out does then is not C10's business)
			if r := w.aro.Get(w.net(x)); r != nil {
				for _, p := range r.Paths() {
					if tagOfPath(p) == tag {
						return
					}
				}
			}
		}
		w.aro.AddPath(w.net(x), w.path(tag, 0))
		return
	}
	// what adjRIBOut.addPath does towards its clients
	pid := w.directPid(tag)
	if !w.cfg.AddPath {
		if old, ok := w.table[key{x, 0}]; ok {
			shim{w}.RemovePath(w.net(x), w.path(old, w.directPid(old)))
		}
	}
	w.table[key{x, w.wpid(pid)}] = tag
	shim{w}.AddPath(w.net(x), w.path(tag, pid))
}

func (w *world) remove(x, tag int, otherPid bool) {
	if w.ribMode {
		if !w.cfg.AddPath {
			// a well-behaved Loc-RIB withdraws the path it gave the Adj-RIB-Out
			r := w.aro.Get(w.net(x))
			if r == nil || len(r.Paths()) == 0 {
				return
			}
			tag = tagOfPath(r.Paths()[0])
		}
		w.aro.RemovePath(w.net(x), w.path(tag, 0))
		return
	}
	pid := w.directPid(tag)
	k := key{x, w.wpid(pid)}
	if cur, ok := w.table[k]; ok && w.cfg.AddPath && cur != tag {
		return // cannot happen on an add-path session: the identifier belongs to one path
	}
	if cur, ok := w.table[k]; ok {
		tag = cur // the Adj-RIB-Out withdraws the path it holds
		pid = w.directPid(cur)
	}
	delete(w.table, k)
	if otherPid && !w.cfg.AddPath {
		pid = (pid + 1) % 3
	}
	shim{w}.RemovePath(w.net(x), w.path(tag, pid))
}

// ---- a case

type tcase struct {
	cfg      usx.Cfg
	ribMode  bool
	realMode bool
	shapes   map[int]usx.Shape
	tags     []int
	ops      []string
}

func (t tcase) String() string {
	mode := "direct"
	if t.ribMode {
		mode = "rib"
	}
	if t.realMode {
		mode = map[bool]string{false: "real", true: "realrib"}[t.ribMode]
	}
	s := []string{t.cfg.String(), mode}
	for _, tag := range t.tags {
		s = append(s, fmt.Sprintf("P%d=%s", tag, t.shapes[tag]))
	}
	return strings.Join(append(s, t.ops...), " ")
}

func parseCase(in string) (tcase, error) {
	t := tcase{shapes: map[int]usx.Shape{}}
	f := strings.Fields(in)
	if len(f) < 2 {
		return t, fmt.Errorf("short case")
	}
	var err error
	if t.cfg, err = usx.ParseCfg(f[0]); err != nil {
		return t, err
	}
	switch f[1] {
	case "rib":
		t.ribMode = true
	case "direct":
	case "real":
		t.realMode = true
	case "realrib":
		t.realMode, t.ribMode = true, true
	default:
		return t, fmt.Errorf("bad mode %q", f[1])
	}
	for _, tok := range f[2:] {
		if tok[0] == 'P' {
			p := strings.SplitN(tok[1:], "=", 2)
			if len(p) != 2 {
				return t, fmt.Errorf("bad path token %q", tok)
			}
			tag, err := strconv.Atoi(p[0])
			if err != nil {
				return t, err
			}
			sh, err := usx.ParseShape(p[1])
			if err != nil {
				return t, err
			}
			if sh.Atomic != (tag%10 == 1) || tag < 10 || tag > 2500 {
				return t, fmt.Errorf("tag %d does not fit its shape", tag)
			}
			t.shapes[tag] = sh
			t.tags = append(t.tags, tag)
			continue
		}
		t.ops = append(t.ops, tok)
	}
	return t, nil
}

func two(s string) (int, int, string, error) {
	steps := ""
	if i := strings.IndexByte(s, '/'); i >= 0 {
		s, steps = s[:i], s[i+1:]
	}
	p := strings.SplitN(s, ":", 2)
	if len(p) != 2 {
		return 0, 0, "", fmt.Errorf("bad op %q", s)
	}
	a, err1 := strconv.Atoi(p[0])
	b, err2 := strconv.Atoi(p[1])
	if err1 != nil || err2 != nil || a < 0 || b < 0 {
		return 0, 0, "", fmt.Errorf("bad op %q", s)
	}
	return a, b, steps, nil
}

func (w *world) execOps(ops []string) error {
	for _, op := range ops {
		if w.realMode && (strings.ContainsAny(op[:1], "defOX") || strings.Contains(op, "/")) {
			return fmt.Errorf("op %q is not for the real sender goroutine", op)
		}
		switch op[0] {
		case 'a', 'r', 'q':
			x, tag, steps, e := two(op[1:])
			if e != nil {
				return e
			}
			if _, ok := w.shapes[tag]; !ok || x > 5000 {
				return fmt.Errorf("bad op %q", op)
			}
			w.steps = steps
			if op[0] == 'a' {
				w.add(x, tag)
			} else {
				w.remove(x, tag, op[0] == 'q')
			}
			w.steps = ""
		case 'b':
			tag, n, _, e := two(op[1:])
			if e != nil {
				return e
			}
			if _, ok := w.shapes[tag]; !ok || n > 4000 {
				return fmt.Errorf("bad op %q", op)
			}
			for i := 0; i < n; i++ {
				w.add(100+i, tag)
			}
		case 'd', 'e', 'f':
			w.senderSteps(op)
		case 'O':
			w.endOfRIB()
		case 'X':
			p, e := strconv.Atoi(op[1:])
			if e != nil {
				return e
			}
			w.drain(p)
		default:
			return fmt.Errorf("bad op %q", op)
		}
	}
	return nil
}

func exec(t tcase) (*world, error) {
	w := &world{cfg: t.cfg, ribMode: t.ribMode, realMode: t.realMode, shapes: t.shapes, table: map[key]int{},
		pfxIdx: map[string]int{}, overtaken: map[key]bool{}, shQueued: map[int]map[int]int{}, shPid: map[int]uint32{}}
	if t.realMode {
		g := usx.NewGate()
		w.cap = g
		w.us = server.VerifUSNew(t.cfg.Options(), g)
		w.real = usx.NewReal(w.us, g)
	} else {
		c := &usx.Capture{}
		w.cap = c
		w.us = server.VerifUSNew(t.cfg.Options(), c)
	}
	if t.ribMode {
		if !t.cfg.IBGP || t.cfg.RR {
			return nil, fmt.Errorf("rib mode is for iBGP sessions to non-clients")
		}
		w.aro = adjRIBOut.New(locRIB.New("inet.0"), routingtable.SessionAttrs{
			RouterID: 1, PeerIP: bnet.IPv4FromOctets(169, 254, 100, 100).Ptr(), LocalIP: bnet.IPv4FromOctets(169, 254, 100, 1).Ptr(),
			Type: route.BGPPathType, IBGP: true, LocalASN: 65000, PeerASN: 65000, AddPathTX: t.cfg.AddPath,
		}, filter.NewAcceptAllFilterChain())
		w.aro.Register(shim{w})
	}
	if !t.realMode {
		return w, w.execOps(t.ops)
	}
	groups := [][]string{nil}
	for _, op := range t.ops {
		if op == "|" {
			groups = append(groups, nil)
			continue
		}
		groups[len(groups)-1] = append(groups[len(groups)-1], op)
	}
	var err error
	w.stalled, err = w.realRun(groups)
	return w, err
}

func countPending(t tcase) int {
	w, err := exec(t)
	if err != nil {
		return 0
	}
	return len(w.us.Keys())
}

func runCase(t tcase) (obs, sig, detail string, nt bool, err error) {
	w, err := exec(t)
	if err != nil {
		return "", "", "", false, err
	}

	// the peer's view: replay of everything it received
	view := map[key]int{}
	for _, u := range w.decoded {
		for _, n := range u.Withdrawn {
			delete(view, key{int(n.P.Idx), n.PID})
		}
		for _, n := range u.Announced {
			view[key{int(n.P.Idx), n.PID}] = tagOfUpdate(u)
		}
	}
	// the session's Adj-RIB-Out
	table := w.table
	if t.ribMode {
		table = map[key]int{}
		for _, r := range w.aro.Dump() {
			x := w.pfxIdx[r.Prefix().String()]
			for _, p := range r.Paths() {
				table[key{x, w.wpid(p.BGPPath.PathIdentifier)}] = tagOfPath(p)
			}
		}
	}
	render := func(m map[key]int) string {
		var ks []key
		for k := range m {
			ks = append(ks, k)
		}
		sort.Slice(ks, func(i, j int) bool { return ks[i].x < ks[j].x || ks[i].x == ks[j].x && ks[i].pid < ks[j].pid })
		if len(ks) == 0 {
			return "-"
		}
		var h uint64
		s := make([]string, len(ks))
		for i, k := range ks {
			s[i] = fmt.Sprintf("%d:%d:%d", k.x, k.pid, m[k])
			h = (h*31 + uint64(k.x)*7 + uint64(k.pid)*3 + uint64(m[k])) % hmod
		}
		if len(ks) > 16 {
			return fmt.Sprintf("#%d:%d", len(ks), h)
		}
		return strings.Join(s, ",")
	}
	obs = strings.Join(compress(w.events), " ") + " V=" + render(view) + " T=" + render(table)

	quiet := len(w.us.Keys()) == 0 && (w.batch == nil || w.batch.Remaining() == 0)
	if w.stalled != nil {
		quiet = false
		sig, detail = "sender-stalled", w.stalled.Error()
		obs += " STALLED"
	}
	if quiet {
		diff := func(k key, what string) {
			s := what
			if w.overtaken[k] {
				s = knownSig
			}
			if sig == "" || (sig == knownSig && s != knownSig) {
				sig = s
				detail = fmt.Sprintf("prefix %d path id %d: peer has %v, Adj-RIB-Out has %v", k.x, k.pid, view[k], table[k])
			}
		}
		for k, v := range view {
			if tv, ok := table[k]; !ok {
				diff(k, "peer-keeps-withdrawn-route")
			} else if tv != v {
				diff(k, "peer-has-other-attributes")
			}
		}
		for k := range table {
			if _, ok := view[k]; !ok {
				diff(k, "peer-lacks-route")
			}
		}
	}
	return obs, sig, detail, quiet && (w.hitPending || w.actedBlocked), nil
}

// compress turns runs A<x>:<t>:<p> A<x+1>:<t>:<p> ... into A<x>-<y>:<t>:<p>
func compress(ev []string) []string {
	var out []string
	lastX, lastRest, first := -2, "", -1
	flush := func() {
		if first >= 0 {
			if lastX > first {
				out = append(out, fmt.Sprintf("A%d-%d:%s", first, lastX, lastRest))
			} else {
				out = append(out, fmt.Sprintf("A%d:%s", first, lastRest))
			}
			first = -1
		}
	}
	for _, e := range ev {
		if e[0] == 'A' && !strings.Contains(e, "=") {
			p := strings.SplitN(e[1:], ":", 2)
			x, _ := strconv.Atoi(p[0])
			if first >= 0 && x == lastX+1 && p[1] == lastRest {
				lastX = x
				continue
			}
			flush()
			first, lastX, lastRest = x, x, p[1]
			continue
		}
		flush()
		out = append(out, e)
	}
	flush()
	return out
}

// ---------------------------------------------------------------- generator

func genShape(r *hx.RNG, tag int) usx.Shape {
	sh := usx.Shape{Segs: []int{1 + r.Intn(4)}, Med: r.Bool(), Atomic: tag%10 == 1, Comms: r.Intn(3)}
	if r.Chance(20) {
		sh.Aggr = true
	}
	return sh
}

func genCase(r *hx.RNG, tr *hx.Trace) tcase {
	t := tcase{shapes: map[int]usx.Shape{}}
	t.ribMode = r.Chance(45)
	if t.ribMode {
		t.cfg = usx.Cfg{Fam: []string{"v4", "v6"}[r.Intn(2)], AddPath: r.Chance(40), ASN4: true, IBGP: true}
		tr.Count("mode_rib")
	} else {
		t.cfg = usx.Cfg{Fam: []string{"v4", "v4mp", "v6"}[r.Intn(3)], AddPath: r.Chance(40), ASN4: r.Chance(70), IBGP: r.Bool()}
		t.cfg.RR = t.cfg.IBGP && r.Chance(30)
		tr.Count("mode_direct")
	}
	if t.cfg.AddPath {
		tr.Count("addpath")
	}
	// 3-4 paths; 30 and 31 differ in ATOMIC_AGGREGATE only
	t.tags = []int{10, 20, 30, 31}
	if r.Chance(30) || (t.ribMode && t.cfg.AddPath) {
		// (the Adj-RIB-Out's path id manager hashes without ATOMIC_AGGREGATE: the pair would share a path id)
		t.tags = t.tags[:3]
	}
	for _, tag := range t.tags {
		t.shapes[tag] = genShape(r, tag)
	}
	if len(t.tags) == 4 {
		s := t.shapes[30]
		s.Atomic = true
		t.shapes[31] = s
	}
	nx := 2 + r.Intn(3)
	steps := func() string {
		if !r.Chance(35) {
			return ""
		}
		return "/" + []string{"d0", "d1", "e", "d0e", "f", "d1f", "ed0"}[r.Intn(7)]
	}
	n := 3 + r.Intn(12)
	bulk := 0
	for i := 0; i < n; i++ {
		c := r.Intn(100)
		tag := t.tags[r.Intn(len(t.tags))]
		x := r.Intn(nx)
		if bulk > 0 && r.Chance(40) {
			x = 100 + r.Pick([]int{0, 1, bulk / 2, bulk - 1, bulk - 2})
		}
		switch {
		case c < 34:
			t.ops = append(t.ops, fmt.Sprintf("a%d:%d%s", x, tag, steps()))
			tr.Count("op_add")
		case c < 60:
			kind := "r"
			if !t.ribMode && !t.cfg.AddPath && r.Chance(30) {
				kind = "q"
			}
			t.ops = append(t.ops, fmt.Sprintf("%s%d:%d%s", kind, x, tag, steps()))
			tr.Count("op_remove")
		case c < 75:
			t.ops = append(t.ops, fmt.Sprintf("d%d", r.Intn(4)))
			tr.Count("op_dequeue")
		case c < 88:
			t.ops = append(t.ops, "e")
			tr.Count("op_emit")
		case c < 92:
			t.ops = append(t.ops, "f")
		case c < 95:
			t.ops = append(t.ops, "O")
			tr.Count("op_eor")
		default:
			if bulk == 0 {
				bulk = 900 + r.Intn(1400)
				t.ops = append(t.ops, fmt.Sprintf("b%d:%d", tag, bulk))
				tr.Count("op_bulk")
			}
		}
	}
	return t
}

// genReal: a history for the real sender goroutine: groups of route changes, the first before the goroutine
// starts, the others while it is blocked in its successive Writes
func genReal(r *hx.RNG, tr *hx.Trace) tcase {
	t := genCase(r, tr)
	t.realMode = true
	t.ops = nil
	tr.Count("stream_real")
	nx := 2 + r.Intn(3)
	bulk := 0
	op := func() string {
		tag := t.tags[r.Intn(len(t.tags))]
		x := r.Intn(nx)
		if bulk > 0 && r.Chance(40) {
			x = 100 + r.Pick([]int{0, 1, bulk / 2, bulk - 1, bulk - 2})
		}
		c := r.Intn(100)
		switch {
		case c < 55:
			return fmt.Sprintf("a%d:%d", x, tag)
		case c < 92:
			kind := "r"
			if !t.ribMode && !t.cfg.AddPath && r.Chance(30) {
				kind = "q"
			}
			return fmt.Sprintf("%s%d:%d", kind, x, tag)
		default:
			if bulk == 0 {
				bulk = 900 + r.Intn(1400)
				return fmt.Sprintf("b%d:%d", tag, bulk)
			}
			return fmt.Sprintf("a%d:%d", x, tag)
		}
	}
	ngroups := 2 + r.Intn(6)
	for g := 0; g < ngroups; g++ {
		if g > 0 {
			t.ops = append(t.ops, "|")
		}
		n := r.Intn(4)
		if g == 0 {
			n = 1 + r.Intn(3)
		}
		for i := 0; i < n; i++ {
			t.ops = append(t.ops, op())
		}
	}
	if r.Chance(35) {
		// a prefix queued for the very path the goroutine is writing at that moment
		tag := t.tags[r.Intn(len(t.tags))]
		t.ops = append([]string{fmt.Sprintf("a0:%d", tag), "|", fmt.Sprintf("a1:%d", tag), "|"}, t.ops...)
	}
	return t
}

func fact(n int) int {
	f := 1
	for i := 2; i <= n; i++ {
		f *= i
	}
	return f
}

func main() {
	cfg := hx.Parse()
	usx.Quiet()
	tr := hx.NewTrace(cfg.Out)
	nviol := 0
	do := func(id string, t tcase) {
		var obs, sig, detail string
		var nt bool
		var err error
		panicked, val := hx.Guard(func() { obs, sig, detail, nt, err = runCase(t) })
		if panicked {
			obs, sig, detail = "PANIC", "panic", fmt.Sprint(val)
		}
		if err != nil {
			fmt.Println("HARNESS-ERROR case", id, err)
			os.Exit(2)
		}
		tr.Case(id, nt, t.String(), obs)
		if sig != "" {
			hx.Violation(id, sig, detail)
			nviol++
		}
	}
	if cfg.Mode == "replay" {
		for _, c := range hx.InputsFrom(cfg.Replay) {
			t, err := parseCase(c[1])
			if err != nil {
				fmt.Println("HARNESS-ERROR bad replay input:", err)
				os.Exit(2)
			}
			do(c[0], t)
		}
	} else {
		for _, c := range hx.InputsFrom(hx.CorpusFiles(cfg.Corpus)...) {
			t, err := parseCase(c[1])
			if err != nil {
				fmt.Println("HARNESS-ERROR bad corpus input:", c[0], err)
				os.Exit(2)
			}
			do("corpus-"+c[0], t)
			tr.Count("corpus")
		}
		rng := hx.NewRNG(cfg.Seed)
		for i, n := 0, 0; n < cfg.N; i++ {
			r := rng.Fork(uint64(i))
			if i%4 == 3 { // every fourth history goes to the real sender goroutine
				do(fmt.Sprintf("g%d.r", i), genReal(r, tr))
				n++
				continue
			}
			t := genCase(r, tr)
			// how many keys are pending when changes stop? all their flush orders when there are <= 3
			probe := &tcase{cfg: t.cfg, ribMode: t.ribMode, shapes: t.shapes, tags: t.tags, ops: append(append([]string{}, t.ops...), "f")}
			pending := 0
			hx.Guard(func() { pending = countPending(*probe) })
			orders := 1
			if pending <= 3 {
				orders = fact(pending)
				tr.Count(fmt.Sprintf("pending_%d_all_orders", pending))
			} else {
				tr.Count("pending_4+_random_order")
			}
			for p := 0; p < orders && n < cfg.N; p++ {
				c := t
				perm := p
				if pending > 3 {
					perm = r.Intn(fact(5))
				}
				c.ops = append(append([]string{}, t.ops...), fmt.Sprintf("X%d", perm))
				do(fmt.Sprintf("g%d.%d", i, p), c)
				n++
			}
		}
	}
	tr.Close(cfg.Stats, map[string]interface{}{"spec_violations": nviol})
}
