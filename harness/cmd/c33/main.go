// C33 harness: link up/down sequences on an IS-IS server with an active and/or a passive interface.
//
// Input tokens:  ifs=<a|p|ap>  then events  <U|D|N|L|T|M|K><i>[t|r]   (i = interface index in ifs;
//
//	U = oper state up, the other letters are the six non-up oper states: D down, N not present,
//	L lower layer down, T testing, M dormant, K unknown; suffix t: the hello ticker of the interface
//	fires WHILE DeviceUpdate processes the event (it holds the interface lock), suffix r: a neighbor's
//	hello frame arrives on the interface while the event is processed).
//
// Observation, one token per event:
//
//	<outcome>/<state of if0>[/<state of if1>]/t<k>/h<n>/a<0|1>/g<0|1>
//	t<k>    = hellos written between the start of the update and the moment everything had settled after it
//	outcome = ok | panic:<kind> | blocked:<where>          (of the DeviceUpdate call)
//	state   = k<devknown>u<operup>i<initialized>d<doneclosed>e<has handle>c<handle closed>n<#handles>s<subscribed with the device server>
//	h<n>    = hellos sent by all interfaces during the following 5 s of server time (one tick of every
//	          periodic routine: lifetime decrement, LSP/PSNP/CSNP senders, hello senders)
//	a<b>    = a neighbor's hellos injected on the first interface's current handle formed an Up adjacency
//	g<b>    = the own LSP is in the LSDB after the pending regeneration ran
//
// The case ends at the first event whose outcome is not ok. A panic on a goroutine of the server
// kills the worker process; the parent records CRASH:<kind>.
package main

import (
	"fmt"
	"os"
	"strings"
	"time"

	bnet "github.com/bio-routing/bio-rd/net"
	"github.com/bio-routing/bio-rd/net/ethernet"
	"github.com/bio-routing/bio-rd/protocols/device"
	"github.com/bio-routing/bio-rd/protocols/isis/packet"
	"github.com/bio-routing/bio-rd/protocols/isis/server"
	"github.com/bio-routing/bio-rd/protocols/isis/types"

	"verifharness/hx"
	"verifharness/isisx"
)

const helloInterval = 5 // seconds; equals the PSNP/LSP transmission interval so one step fires all

var (
	ownSysID  = types.SystemID{12, 12, 12, 13, 13, 13}
	nbrMAC    = ethernet.MACAddr{0xde, 0xad, 0xbe, 0xef, 0x12, 0x34}
	operState = map[byte]uint8{'U': device.IfOperUp, 'D': device.IfOperDown, 'N': device.IfOperNotPresent,
		'L': device.IfOperLowerLayerDown, 'T': device.IfOperTesting, 'M': device.IfOperDormant, 'K': device.IfOperUnknown}
)

type ifDesc struct {
	name    string
	passive bool
	index   uint64
	addrs   []*bnet.Prefix
}

func ifaces(kind string) []ifDesc {
	var r []ifDesc
	for i, c := range kind {
		d := ifDesc{name: fmt.Sprintf("eth%d", i), passive: c == 'p', index: uint64(7 + i)}
		d.addrs = []*bnet.Prefix{bnet.NewPfx(bnet.IPv4FromOctets(169, 254, byte(100+i), 0), 31).Ptr()}
		r = append(r, d)
	}
	return r
}

// hello of the neighbor on the link of interface i, three-way TLV listing us (state Up)
func nbrHello(i int, circuit uint32) []byte {
	return []byte{
		0, 0, 0, // LLC
		131, 20, 1, 0, 17, 1, 0, 0, // header, type 17 = P2P hello
		2,                          // level 2 only
		222, 173, 190, 239, 255, 1, // system ID
		0, 16, // holding timer
		0, 52, // PDU length
		1,       // local circuit ID
		240, 15, // P2P adjacency state TLV
		0,            // adjacency state up
		0, 0, 0, 100, // extended local circuit id
		12, 12, 12, 13, 13, 13, // neighbor system ID = us
		byte(circuit >> 24), byte(circuit >> 16), byte(circuit >> 8), byte(circuit), // neighbor extended local circuit id = our ifindex
		129, 2, 204, 142, // protocols supported: IPv4, IPv6
		132, 4, 169, 254, byte(100 + i), 1, // IP interface address
		1, 3, 2, 0x49, 0, // area addresses
	}
}

type event struct {
	st     byte
	ifi    int
	during byte // 0, 't' (hello tick while the update runs), 'r' (frame received while it runs)
}

func parse(in string) (kind string, evs []event, err error) {
	f := strings.Fields(in)
	if len(f) == 0 || !strings.HasPrefix(f[0], "ifs=") {
		return "", nil, fmt.Errorf("missing ifs=")
	}
	kind = f[0][4:]
	if kind != "a" && kind != "p" && kind != "ap" && kind != "pa" && kind != "aa" {
		return "", nil, fmt.Errorf("bad ifs")
	}
	for _, t := range f[1:] {
		if len(t) != 2 && !(len(t) == 3 && (t[2] == 't' || t[2] == 'r')) {
			return "", nil, fmt.Errorf("bad event %q", t)
		}
		if _, ok := operState[t[0]]; !ok {
			return "", nil, fmt.Errorf("bad event %q", t)
		}
		i := int(t[1] - '0')
		if i < 0 || i >= len(kind) {
			return "", nil, fmt.Errorf("bad interface in %q", t)
		}
		ev := event{st: t[0], ifi: i}
		if len(t) == 3 {
			ev.during = t[2]
		}
		evs = append(evs, ev)
	}
	return kind, evs, nil
}

func b(x bool) int {
	if x {
		return 1
	}
	return 0
}

func runCase(id, input string) (res isisx.Result) {
	res = isisx.Result{ID: id, Input: input}
	kind, evs, err := parse(input)
	if err != nil {
		res.Obs, res.Sig, res.Detail = "BAD-INPUT", "bad-input", err.Error()
		return
	}
	ifs := ifaces(kind)
	clk := isisx.NewClock()
	server.SetClock(clk)
	devs := isisx.NewDevs()
	fac := &isisx.Factory{}
	s, err := server.New([]*types.NET{{AreaID: types.AreaID{0x49, 0}, SystemID: ownSysID}}, devs, 3600)
	if err != nil {
		res.Obs, res.Sig, res.Detail = "SETUP-FAILED", "setup", err.Error()
		return
	}
	s.SetEthernetInterfaceFactory(fac)
	s.SetHostnameFunc(func() (string, error) { return "verif", nil })
	s.Start() // as cmd/bio-rd does: start, then add the configured interfaces
	for _, d := range ifs {
		s.AddInterface(&server.InterfaceConfig{Name: d.name, Passive: d.passive, PointToPoint: true,
			Level2: &server.InterfaceLevelConfig{HelloInterval: helloInterval, HoldingTimer: 3 * helloInterval, Metric: 10}})
	}
	if q := isisx.Quiesce(); q != "" {
		res.Obs, res.Sig, res.Detail, res.Abnormal = "blocked:setup", "blocked", q, true
		return
	}

	lastUp := make([]bool, len(ifs))   // harness' own record: last event on the interface was Up
	everDown := make([]bool, len(ifs)) // the interface went up and down before
	wasUp := make([]bool, len(ifs))
	var obs []string
	fail := func(sig, detail string) {
		if res.Sig == "" {
			res.Sig, res.Detail = sig, detail
		}
	}

	for k, ev := range evs {
		d := ifs[ev.ifi]
		up := ev.st == 'U'
		if up && everDown[ev.ifi] {
			res.NT = true // a link comes back up
		}
		for _, h := range fac.All() {
			h.TakeSent()
		}
		dev := &isisx.Dev{Index: d.index, Oper: operState[ev.st], Addrs: d.addrs}
		duringBusy := ""
		switch ev.during {
		case 't':
			res.NT = true
			dev.During = func() { // runs inside DeviceUpdate, under the interface lock
				for _, t := range clk.Tickers() {
					if t.Label == d.name && t.D == helloInterval*time.Second { // this interface's hello ticker(s)
						t.TryTick(clk.Now())
					}
				}
				duringBusy = isisx.Settle()
			}
		case 'r':
			res.NT = true
			dev.During = func() {
				// (not VerifIfaState: it would call GetOperState of this very device again)
				if e, ok := s.GetEthernetInterface(d.name).(*isisx.Eth); ok && e != nil {
					e.Inject(nbrMAC, nbrHello(ev.ifi, uint32(d.index)))
				}
				duringBusy = isisx.Settle()
			}
		}
		clk.SetLabel(d.name) // the hello ticker an interface creates when it starts carries its name
		oc, val := isisx.Watchdog(func() { devs.Update(d.name, dev) })
		if up {
			wasUp[ev.ifi] = true
		} else if wasUp[ev.ifi] {
			everDown[ev.ifi] = true
		}
		lastUp[ev.ifi] = up
		evname := fmt.Sprintf("event %d (%c on %s interface %s)", k, ev.st, map[bool]string{true: "passive", false: "active"}[d.passive], d.name)
		switch oc {
		case "panic":
			kindp := isisx.PanicKind(val)
			obs = append(obs, "panic:"+kindp)
			fail("panic-"+kindp+"-"+map[bool]string{true: "passive", false: "active"}[d.passive],
				fmt.Sprintf("%s: DeviceUpdate panicked: %v", evname, val))
			res.Abnormal = true
		case "blocked":
			if ev.during != 0 {
				obs = append(obs, "blocked:during-update")
				fail("blocked-during-update", evname+": DeviceUpdate did not return after "+
					map[byte]string{'t': "the hello ticker fired", 'r': "a frame arrived"}[ev.during]+" while it was running")
			} else {
				obs = append(obs, "blocked:device-update")
				fail("blocked-device-update", evname+": DeviceUpdate did not return")
			}
			res.Abnormal = true
		}
		if duringBusy != "" && oc == "ok" {
			fail("busy-during-update", evname+": a server goroutine kept running: "+duringBusy)
		}
		if oc != "ok" {
			break
		}
		if q := isisx.Quiesce(); q != "" {
			obs = append(obs, "blocked:after-update")
			fail("blocked-after-update", evname+": server goroutine stays busy: "+q)
			res.Abnormal = true
			break
		}

		// interface state
		parts := []string{"ok"}
		for _, x := range ifs {
			st := s.VerifIfaState(x.name)
			closed, n := 0, 0
			for _, h := range fac.All() {
				if h.Name == x.name {
					n++
				}
			}
			if e, ok := st.Eth.(*isisx.Eth); ok && e != nil {
				closed = b(e.Closes() > 0)
				if e.Closes() > 1 {
					fail("handle-closed-twice", evname+": ethernet handle closed more than once")
				}
			}
			parts = append(parts, fmt.Sprintf("k%du%di%dd%de%dc%dn%ds%d", b(st.DevKnown), b(st.OperUp), b(st.Initialized),
				b(st.DoneClosed), b(st.HasEth), closed, n, b(devs.Subscribed(x.name) == 1)))
			if devs.Subscribed(x.name) != 1 {
				fail("interface-not-subscribed", fmt.Sprintf("%s: interface %s has %d subscriptions with the device server: it will not hear the next link event", evname, x.name, devs.Subscribed(x.name)))
			}
		}

		// hellos written while the update ran (a tick during the update)
		during := 0
		for _, h := range fac.All() {
			for _, p := range h.TakeSent() {
				if len(p) > 4 && p[4] == packet.P2P_HELLO {
					during++
				}
			}
		}
		parts = append(parts, fmt.Sprintf("t%d", during))

		// 5 seconds of server life: one tick of every periodic routine
		clk.Advance(helloInterval * time.Second)
		blocked := ""
		for _, t := range clk.Tickers() {
			if t.Seq == 3 && k%2 == 1 {
				continue // CSNP interval is 10 s
			}
			if t.D == time.Second && t.Seq != 0 {
				continue // adjacency checkers are not this property's subject
			}
			if t.TryTick(clk.Now()) {
				if q := isisx.Quiesce(); q != "" {
					blocked = q
					break
				}
			}
		}
		if blocked != "" {
			obs = append(obs, strings.Join(parts, "/")+"/blocked:tick")
			fail("blocked-after-tick", evname+": server goroutine stays busy after a tick: "+blocked)
			res.Abnormal = true
			break
		}
		hellos := 0
		hellosOn := make([]int, len(ifs))
		for _, h := range fac.All() {
			for _, p := range h.TakeSent() {
				if len(p) > 4 && p[4] == packet.P2P_HELLO {
					hellos++
					for i, x := range ifs {
						if x.name == h.Name {
							hellosOn[i]++
						}
					}
				}
			}
		}
		parts = append(parts, fmt.Sprintf("h%d", hellos))

		// can an adjacency form on the first interface?
		adj := false
		st0 := s.VerifIfaState(ifs[0].name)
		if e, ok := st0.Eth.(*isisx.Eth); ok && e != nil {
			for r := 0; r < 2; r++ {
				if e.Inject(nbrMAC, nbrHello(0, uint32(ifs[0].index))) {
					if q := isisx.Quiesce(); q != "" {
						blocked = q
					}
				}
			}
			for _, a := range s.GetAdjacencies() {
				if a.InterfaceName == ifs[0].name && a.Address == nbrMAC && a.Status == packet.P2PAdjStateUp {
					adj = true
				}
			}
		}
		parts = append(parts, fmt.Sprintf("a%d", b(adj)))
		if q := isisx.Quiesce(); q != "" || blocked != "" {
			obs = append(obs, strings.Join(parts, "/")+"/blocked:probe")
			fail("blocked-after-probe", evname+": server goroutine stays busy after the adjacency probe: "+q+blocked)
			res.Abnormal = true
			break
		}
		own := false
		for _, e := range s.VerifLSDB() {
			if e.LSPID.SystemID == ownSysID {
				own = true
			}
		}
		parts = append(parts, fmt.Sprintf("g%d", b(own)))
		obs = append(obs, strings.Join(parts, "/"))

		// ---- spec oracle: the property's statement on the implementation's behaviour
		for i, x := range ifs {
			if x.passive {
				if hellosOn[i] > 0 {
					fail("passive-interface-sends-hellos", evname+": passive interface "+x.name+" sent a hello")
				}
				continue
			}
			if lastUp[i] && hellosOn[i] == 0 {
				sig := "no-hello-after-up"
				if everDown[i] {
					sig = "no-hello-after-link-came-back"
				}
				fail(sig, fmt.Sprintf("%s: active interface %s is up but sent no hello within a hello interval", evname, x.name))
			}
			if !lastUp[i] && hellosOn[i] > 0 {
				fail("hello-on-down-interface", fmt.Sprintf("%s: interface %s is down but sent a hello", evname, x.name))
			}
		}
		if !ifs[0].passive && lastUp[0] && !adj {
			sig := "no-adjacency-after-up"
			if everDown[0] {
				sig = "no-adjacency-after-link-came-back"
			}
			fail(sig, evname+": neighbor hellos listing us on up interface "+ifs[0].name+" did not form an Up adjacency")
		}
		if !own {
			fail("own-lsp-missing", evname+": the local LSP is not in the LSDB")
		}
	}
	res.Obs = strings.Join(obs, " ")
	if res.Obs == "" {
		res.Obs = "-"
	}
	if !res.Abnormal {
		oc, _ := isisx.Watchdog(func() { s.VerifShutdown() })
		if oc != "ok" || isisx.Quiesce() != "" {
			res.Abnormal = true // do not reuse this process, but the case itself is fine
		}
	}
	return
}

// all sequences over the given alphabet with length 0..maxLen
func sweep(kind string, alphabet []string, maxLen int) []string {
	var out []string
	var rec func(prefix []string)
	rec = func(prefix []string) {
		out = append(out, strings.TrimSpace("ifs="+kind+" "+strings.Join(prefix, " ")))
		if len(prefix) == maxLen {
			return
		}
		for _, a := range alphabet {
			rec(append(append([]string(nil), prefix...), a))
		}
	}
	rec(nil)
	return out
}

func main() {
	isisx.Silence()
	if isisx.IsWorker() {
		isisx.ServeWorker(runCase)
		return
	}
	cfg := hx.Parse()
	tr := hx.NewTrace(cfg.Out)
	var cases [][2]string
	add := func(id, in string) { cases = append(cases, [2]string{id, in}) }
	if cfg.Mode == "replay" {
		for _, c := range hx.InputsFrom(cfg.Replay) {
			add(c[0], c[1])
		}
	} else {
		for _, c := range hx.InputsFrom(hx.CorpusFiles(cfg.Corpus)...) {
			add("corpus-"+c[0], c[1])
			tr.Count("corpus")
		}
		// exhaustive part: every U/D sequence up to length 6 on one active and on one passive interface
		n := 0
		for _, kind := range []string{"a", "p"} {
			for _, in := range sweep(kind, []string{"U0", "D0"}, 6) {
				add(fmt.Sprintf("s%s%d", kind, n), in)
				n++
				tr.Count("sweep_single_" + kind)
			}
		}
		// a hello tick / a frame arriving WHILE an update is processed, at every position: all sequences up to
		// length 4 (thorough: 5) over {U,D} x {plain, tick during}, and over {U,D} x {plain, frame during}
		LD := 4
		if cfg.Tier == "thorough" {
			LD = 5
		}
		for _, alpha := range [][]string{{"U0", "D0", "U0t", "D0t"}, {"U0", "D0", "U0r", "D0r"}} {
			for _, in := range sweep("a", alpha, LD) {
				if strings.ContainsAny(in[5:], "tr") {
					add(fmt.Sprintf("sd%d", n), in)
					n++
					tr.Count("sweep_during_a")
				}
			}
		}
		for _, in := range sweep("p", []string{"U0", "D0", "U0t", "D0r"}, 3) {
			if strings.ContainsAny(in[5:], "tr") {
				add(fmt.Sprintf("sd%d", n), in)
				n++
				tr.Count("sweep_during_p")
			}
		}
		// both kinds of interface on one server: all sequences up to length L over {U,D} x {if0,if1}
		L := 4
		if cfg.Tier == "thorough" {
			L = 6
		}
		for _, kind := range []string{"ap"} {
			for _, in := range sweep(kind, []string{"U0", "D0", "U1", "D1"}, L) {
				add(fmt.Sprintf("s%s%d", kind, n), in)
				n++
				tr.Count("sweep_two_" + kind)
			}
		}
		// random: longer sequences, all seven oper states, all interface combinations
		rng := hx.NewRNG(cfg.Seed)
		if cfg.Mode == "search" {
			rng = hx.NewRNG(cfg.Seed ^ 0x5bd1e995)
		}
		kinds := []string{"a", "p", "ap", "pa", "aa"}
		for i := 0; i < cfg.N; i++ {
			r := rng.Fork(uint64(i))
			kind := kinds[r.Intn(len(kinds))]
			ln := 1 + r.Intn(12)
			toks := []string{"ifs=" + kind}
			for j := 0; j < ln; j++ {
				st := "UD"[r.Intn(2)]
				if r.Chance(25) {
					st = "NLTMK"[r.Intn(5)]
				}
				suffix := ""
				if r.Chance(20) {
					suffix = []string{"t", "r"}[r.Intn(2)]
				}
				toks = append(toks, fmt.Sprintf("%c%d%s", st, r.Intn(len(kind)), suffix))
			}
			add(fmt.Sprintf("g%d", i), strings.Join(toks, " "))
			tr.Count("random_" + kind)
		}
	}
	nviol := 0
	isisx.Isolate(cases, os.Args[1:], 400, func(r isisx.Result) bool {
		tr.Case(r.ID, r.NT, r.Input, r.Obs)
		if r.Sig != "" {
			hx.Violation(r.ID, r.Sig, r.Detail)
			nviol++
		}
		return nviol < 12 || cfg.Mode == "replay" // a tree that fails this often is decided
	})
	tr.Close(cfg.Stats, map[string]interface{}{"spec_violations": nviol})
}
