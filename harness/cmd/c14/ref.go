// C14 harness, part 2: independent reference interpreter of the documented policy semantics
// (the spec oracle). Works on the harness AST and path values only; shares no code with
// routingtable/filter. Matchers are decided bit by bit.
package main

func width(a hIP) int {
	if a.v4 {
		return 32
	}
	return 128
}

// bit k (0-based, from the most significant) of the address
func bitAt(a hIP, k int) bool {
	if a.v4 {
		if k >= 32 {
			return false
		}
		return (a.lo>>(31-uint(k)))&1 == 1
	}
	if k < 64 {
		return (a.hi>>(63-uint(k)))&1 == 1
	}
	if k >= 128 {
		return false
	}
	return (a.lo>>(127-uint(k)))&1 == 1
}

func agree(n int, a, b hIP) bool {
	if a.v4 != b.v4 {
		return false
	}
	for k := 0; k < n; k++ {
		if bitAt(a, k) != bitAt(b, k) {
			return false
		}
	}
	return true
}

func refMatch(m hMatcher, pat, p hPfx) bool {
	if !agree(pat.ln, pat.ip, p.ip) {
		return false
	}
	switch m.kind {
	case 0:
		return p.ln == pat.ln
	case 1:
		return p.ln >= pat.ln
	case 2:
		return p.ln > pat.ln
	}
	return p.ln >= pat.ln && p.ln >= m.min && p.ln <= m.max
}

func ipWF(a hIP) bool {
	if a.v4 {
		return a.hi == 0 && a.lo < 1<<32
	}
	return true
}

// words in range, length within the family's width, no host bits
func pfxWF(p hPfx) bool {
	if !ipWF(p.ip) || p.ln > width(p.ip) {
		return false
	}
	for k := p.ln; k < width(p.ip); k++ {
		if bitAt(p.ip, k) {
			return false
		}
	}
	return true
}

func chainWF(pool []hPfx, c hChain) bool {
	for _, f := range c {
		for _, t := range f {
			for _, cd := range t.from {
				for _, l := range cd.pls {
					for _, q := range l.allowed {
						if !pfxWF(q) {
							return false
						}
					}
				}
				for _, r := range cd.rfs {
					if !pfxWF(pool[r.pat]) {
						return false
					}
				}
			}
		}
	}
	return true
}

func pathWF(p hPath) bool { return !p.hasBGP || p.hasA }

type refStats struct {
	condApplied int // terms with conditions that applied
	rewrites    int // rewriting actions that changed something
	terminated  int
}

func refCond(pool []hPfx, cd hCond, p hPfx, a *hPath) bool {
	if len(cd.pls) > 0 {
		ok := false
		for _, l := range cd.pls {
			for _, q := range l.allowed {
				if refMatch(l.m, q, p) {
					ok = true
				}
			}
		}
		if !ok {
			return false
		}
	}
	if len(cd.rfs) > 0 {
		ok := false
		for _, r := range cd.rfs {
			if refMatch(r.m, pool[r.pat], p) {
				ok = true
			}
		}
		if !ok {
			return false
		}
	}
	if len(cd.cfs) > 0 {
		ok := false
		if a.hasBGP && !a.cNil {
			for _, f := range cd.cfs {
				for _, x := range a.comms {
					if x == f {
						ok = true
					}
				}
			}
		}
		if !ok {
			return false
		}
	}
	if len(cd.lcfs) > 0 {
		ok := false
		if a.hasBGP && !a.lcNil {
			for _, f := range cd.lcfs {
				for _, x := range a.lcomms {
					if x == f {
						ok = true
					}
				}
			}
		}
		if !ok {
			return false
		}
	}
	if len(cd.protos) > 0 {
		ok := false
		for _, t := range cd.protos {
			if t == a.typ {
				ok = true
			}
		}
		if !ok {
			return false
		}
	}
	return true
}

func copyPath(p hPath) hPath {
	q := p
	if p.nh != nil {
		x := *p.nh
		q.nh = &x
	}
	if p.stNH != nil {
		x := *p.stNH
		q.stNH = &x
	}
	q.as = make([]hSeg, len(p.as))
	for i, s := range p.as {
		q.as[i] = hSeg{ty: s.ty, asns: append([]uint32{}, s.asns...)}
	}
	q.comms = append([]uint32{}, p.comms...)
	q.lcomms = append([][3]uint32{}, p.lcomms...)
	return q
}

// one ASN in front of the AS path: into the leading segment unless that is an AS_SET or full
func pushASN(as []hSeg, asn uint32) []hSeg {
	if len(as) == 0 || as[0].ty == 1 || len(as[0].asns) == 255 {
		return append([]hSeg{{ty: 2, asns: []uint32{asn}}}, as...)
	}
	as[0].asns = append([]uint32{asn}, as[0].asns...)
	return as
}

func pathLen(as []hSeg) uint16 {
	var n uint16
	for _, s := range as {
		if s.ty == 1 {
			n++
		} else {
			n += uint16(len(s.asns))
		}
	}
	return n
}

// verdict: 0 continue, 1 accepted, 2 rejected
func refAct(x hAct, a *hPath, st *refStats) int {
	switch x.kind {
	case 0:
		return 1
	case 1:
		return 2
	case 2:
		if a.hasBGP && a.hasA {
			a.lp = x.v
			st.rewrites++
		}
	case 3:
		if a.hasBGP && a.hasA {
			a.med = x.v
			st.rewrites++
		}
	case 4:
		ip := x.ip
		if a.typ == 2 {
			if a.hasBGP && a.hasA {
				a.nh = &ip
				st.rewrites++
			}
		} else if a.typ == 1 {
			if !a.stNil {
				a.stNH = &ip
				st.rewrites++
			}
		}
	case 5:
		if a.hasBGP && x.times > 0 {
			if a.asNil {
				a.asNil = false
				a.as = nil
			}
			for i := 0; i < int(x.times); i++ {
				a.as = pushASN(a.as, x.v)
			}
			a.asLen = pathLen(a.as)
			st.rewrites++
		}
	}
	return 0
}

// refChain: the documented semantics. Returns the rewritten path and whether it was rejected.
func refChain(pool []hPfx, c hChain, p hPfx, in hPath, st *refStats) (hPath, bool) {
	a := copyPath(in)
	for _, f := range c {
		for _, t := range f {
			applies := len(t.from) == 0
			for _, cd := range t.from {
				if refCond(pool, cd, p, &a) {
					applies = true
				}
			}
			if !applies {
				continue
			}
			if len(t.from) > 0 {
				st.condApplied++
			}
			for _, x := range t.then {
				if v := refAct(x, &a, st); v != 0 {
					st.terminated++
					return a, v == 2
				}
			}
		}
	}
	return a, false
}
