// C14 harness, part 5: the configuration front end. A generated policy configuration
// (statements, terms, route filters, then-actions; one BGP group with one neighbor) is rendered
// as YAML, loaded through the real loader (config.GetConfig) and the chains the loader attaches
// to the neighbor are compared with
//   * the chains built through the constructors from the harness' own translation
//     (cfgToChains: the documented meaning of the configuration)    sig=config-chain-differs:<what>
//   * the reference interpreter (as for every chain)                sig=process-vs-reference:...
//   * the extracted Coq translation Model.PolicyConfig.load_cfg (by the OCaml driver).
//
// Token grammar of a config case input:
//   pool <n> PFX*n  cfg <ns> STMT*  gi <k> <name>*  ge <k> <name>*  ni <k> <name>*  ne <k> <name>*
//   in <k> (PFX PATH)*k
//   STMT  := st <name> <nt> CTERM*        CTERM := ct <nrf> CRF* THEN
//   CRF   := crf <poolidx> <ok 0|1> <MATCHER|bad>
//   THEN  := th <rej 0|1> <lp|-> <med|-> <asn:count|-> <IP|bad|-> <acc 0|1>
// Observation: LOADERR, or eq=.. OUT(import chain) OUT(export chain) per input as for chain cases.
package main

import (
	"fmt"
	"os"
	"path/filepath"
	"strconv"
	"strings"

	"github.com/bio-routing/bio-rd/cmd/bio-rd/config"
	"github.com/bio-routing/bio-rd/routingtable/filter"

	"verifharness/hx"
)

type cRF struct {
	pat  int
	ok   bool
	mOK  bool
	m    hMatcher
}

type cThen struct {
	reject bool
	lp     *uint32
	med    *uint32
	pp     *[2]uint32 // asn, count
	nhSet  bool
	nhOK   bool
	nh     hIP
	accept bool
}

type cTerm struct {
	rfs  []cRF
	then cThen
}

type cStmt struct {
	name  int
	terms []cTerm
}

type cCfg struct {
	stmts          []cStmt
	gi, ge, ni, ne []int
}

type cCase struct {
	pool   []hPfx
	cfg    cCfg
	inputs []hInput
}

// ---------------------------------------------------------------- encoding

func optU32(p *uint32) string {
	if p == nil {
		return "-"
	}
	return strconv.FormatUint(uint64(*p), 10)
}

func fmtNames(tag string, l []int) []string {
	out := []string{tag, strconv.Itoa(len(l))}
	for _, n := range l {
		out = append(out, strconv.Itoa(n))
	}
	return out
}

func fmtCCase(c *cCase) string {
	out := []string{"pool", strconv.Itoa(len(c.pool))}
	for _, p := range c.pool {
		out = append(out, fmtPfx(p))
	}
	out = append(out, "cfg", strconv.Itoa(len(c.cfg.stmts)))
	for _, s := range c.cfg.stmts {
		out = append(out, "st", strconv.Itoa(s.name), strconv.Itoa(len(s.terms)))
		for _, t := range s.terms {
			out = append(out, "ct", strconv.Itoa(len(t.rfs)))
			for _, r := range t.rfs {
				m := "bad"
				if r.mOK {
					m = fmtMatcher(r.m)
				}
				out = append(out, "crf", strconv.Itoa(r.pat), string(b2c(r.ok)), m)
			}
			th := t.then
			pp, nh := "-", "-"
			if th.pp != nil {
				pp = fmt.Sprintf("%d:%d", th.pp[0], th.pp[1])
			}
			if th.nhSet {
				nh = "bad"
				if th.nhOK {
					nh = fmtIP(th.nh)
				}
			}
			out = append(out, "th", string(b2c(th.reject)), optU32(th.lp), optU32(th.med), pp, nh, string(b2c(th.accept)))
		}
	}
	out = append(out, fmtNames("gi", c.cfg.gi)...)
	out = append(out, fmtNames("ge", c.cfg.ge)...)
	out = append(out, fmtNames("ni", c.cfg.ni)...)
	out = append(out, fmtNames("ne", c.cfg.ne)...)
	out = append(out, "in", strconv.Itoa(len(c.inputs)))
	for _, in := range c.inputs {
		out = append(out, fmtPfx(in.pfx))
		out = append(out, fmtPath(in.path)...)
	}
	return strings.Join(out, " ")
}

func pBit(s string) bool {
	switch s {
	case "0":
		return false
	case "1":
		return true
	}
	panic(parseErr("bad flag " + s))
}

func pOptU32(s string) *uint32 {
	if s == "-" {
		return nil
	}
	v := uint32(pU(s, 32))
	return &v
}

func parseNames(p *toks, tag string) []int {
	p.expect(tag)
	n := p.num()
	out := []int{}
	for i := 0; i < n; i++ {
		out = append(out, p.num())
	}
	return out
}

func isCfgCase(input string) bool { return strings.Contains(input, " cfg ") }

func parseCCase(input string) (c *cCase, err error) {
	defer func() {
		if r := recover(); r != nil {
			if pe, ok := r.(parseErr); ok {
				c, err = nil, fmt.Errorf("%s", string(pe))
				return
			}
			panic(r)
		}
	}()
	p := &toks{t: strings.Fields(input)}
	c = &cCase{}
	p.expect("pool")
	n := p.num()
	for i := 0; i < n; i++ {
		c.pool = append(c.pool, parsePfx(p.next()))
	}
	p.expect("cfg")
	ns := p.num()
	for i := 0; i < ns; i++ {
		p.expect("st")
		s := cStmt{name: p.num()}
		nt := p.num()
		for j := 0; j < nt; j++ {
			p.expect("ct")
			t := cTerm{}
			nr := p.num()
			for k := 0; k < nr; k++ {
				p.expect("crf")
				r := cRF{pat: p.num()}
				if r.pat >= len(c.pool) {
					panic(parseErr("pool index out of range"))
				}
				r.ok = pBit(p.next())
				if m := p.next(); m != "bad" {
					r.mOK, r.m = true, parseMatcher(m)
				}
				t.rfs = append(t.rfs, r)
			}
			p.expect("th")
			t.then.reject = pBit(p.next())
			t.then.lp = pOptU32(p.next())
			t.then.med = pOptU32(p.next())
			if s := p.next(); s != "-" {
				f := strings.Split(s, ":")
				if len(f) != 2 {
					panic(parseErr("bad prepend " + s))
				}
				t.then.pp = &[2]uint32{uint32(pU(f[0], 32)), uint32(pU(f[1], 16))}
			}
			if s := p.next(); s != "-" {
				t.then.nhSet = true
				if s != "bad" {
					t.then.nhOK, t.then.nh = true, parseIP(s)
				}
			}
			t.then.accept = pBit(p.next())
			s.terms = append(s.terms, t)
		}
		c.cfg.stmts = append(c.cfg.stmts, s)
	}
	c.cfg.gi = parseNames(p, "gi")
	c.cfg.ge = parseNames(p, "ge")
	c.cfg.ni = parseNames(p, "ni")
	c.cfg.ne = parseNames(p, "ne")
	p.expect("in")
	k := p.num()
	for i := 0; i < k; i++ {
		pf := parsePfx(p.next())
		c.inputs = append(c.inputs, hInput{pfx: pf, path: parsePath(p)})
	}
	return c, nil
}

// ---------------------------------------------------------------- YAML

func ipText(a hIP) string {
	if a.v4 {
		return fmt.Sprintf("%d.%d.%d.%d", byte(a.lo>>24), byte(a.lo>>16), byte(a.lo>>8), byte(a.lo))
	}
	return fmt.Sprintf("%x:%x:%x:%x:%x:%x:%x:%x", uint16(a.hi>>48), uint16(a.hi>>32), uint16(a.hi>>16), uint16(a.hi),
		uint16(a.lo>>48), uint16(a.lo>>32), uint16(a.lo>>16), uint16(a.lo))
}

func nameList(l []int) string {
	s := make([]string, len(l))
	for i, n := range l {
		s[i] = fmt.Sprintf("%q", fmt.Sprintf("P%d", n))
	}
	return "[" + strings.Join(s, ", ") + "]"
}

func renderYAML(c *cCase) string {
	var b strings.Builder
	b.WriteString("routing_options:\n  autonomous_system: 65100\n  router_id: 192.0.2.1\n")
	b.WriteString("policy_options:\n  policy_statements:\n")
	if len(c.cfg.stmts) == 0 {
		b.WriteString("    []\n")
	}
	for _, s := range c.cfg.stmts {
		fmt.Fprintf(&b, "    - name: \"P%d\"\n      terms:\n", s.name)
		if len(s.terms) == 0 {
			b.WriteString("        []\n")
		}
		for j, t := range s.terms {
			fmt.Fprintf(&b, "        - name: \"T%d\"\n", j)
			if len(t.rfs) > 0 {
				b.WriteString("          from:\n            route_filters:\n")
				for _, r := range t.rfs {
					pfx := "not-a-prefix"
					if r.ok {
						pfx = fmt.Sprintf("%s/%d", ipText(c.pool[r.pat].ip), c.pool[r.pat].ln)
					}
					fmt.Fprintf(&b, "              - prefix: %q\n", pfx)
					switch {
					case !r.mOK:
						b.WriteString("                matcher: \"bogus\"\n")
					case r.m.kind == 3:
						fmt.Fprintf(&b, "                matcher: \"range\"\n                len_min: %d\n                len_max: %d\n", r.m.min, r.m.max)
					default:
						fmt.Fprintf(&b, "                matcher: %q\n", []string{"exact", "orlonger", "longer"}[r.m.kind])
					}
				}
			}
			th := t.then
			b.WriteString("          then:\n")
			// the order of the keys in the file is deliberately not the order of evaluation
			if th.accept {
				b.WriteString("            accept: true\n")
			}
			if th.nhSet {
				a := "no.such.address"
				if th.nhOK {
					a = ipText(th.nh)
				}
				fmt.Fprintf(&b, "            next_hop:\n              address: %q\n", a)
			}
			if th.pp != nil {
				fmt.Fprintf(&b, "            as_path_prepend:\n              asn: %d\n              count: %d\n", th.pp[0], th.pp[1])
			}
			if th.med != nil {
				fmt.Fprintf(&b, "            med: %d\n", *th.med)
			}
			if th.lp != nil {
				fmt.Fprintf(&b, "            local_pref: %d\n", *th.lp)
			}
			if th.reject {
				b.WriteString("            reject: true\n")
			}
			if !th.accept && !th.nhSet && th.pp == nil && th.med == nil && th.lp == nil && !th.reject {
				b.WriteString("            accept: false\n")
			}
		}
	}
	b.WriteString("protocols:\n  bgp:\n    groups:\n      - name: \"G\"\n        local_address: 192.0.2.1\n")
	if len(c.cfg.gi) > 0 {
		fmt.Fprintf(&b, "        import: %s\n", nameList(c.cfg.gi))
	}
	if len(c.cfg.ge) > 0 {
		fmt.Fprintf(&b, "        export: %s\n", nameList(c.cfg.ge))
	}
	b.WriteString("        neighbors:\n          - peer_address: 192.0.2.2\n            peer_as: 65200\n")
	if len(c.cfg.ni) > 0 {
		fmt.Fprintf(&b, "            import: %s\n", nameList(c.cfg.ni))
	}
	if len(c.cfg.ne) > 0 {
		fmt.Fprintf(&b, "            export: %s\n", nameList(c.cfg.ne))
	}
	return b.String()
}

// ---------------------------------------------------------------- documented meaning (harness side)

// cfgToChains: what the configuration means, as chains of the harness AST. ok=false: the loader
// must refuse the configuration.
func cfgToChains(c *cCfg) (imp, exp hChain, ok bool) {
	type named struct {
		name int
		f    hFilter
	}
	var fs []named
	for _, s := range c.stmts {
		f := hFilter{}
		for _, t := range s.terms {
			tm := hTerm{}
			if len(t.rfs) > 0 {
				cd := hCond{}
				for _, r := range t.rfs {
					if !r.ok || !r.mOK {
						return nil, nil, false
					}
					cd.rfs = append(cd.rfs, hRF{pat: r.pat, m: r.m})
				}
				tm.from = []hCond{cd}
			}
			th := t.then
			if th.reject {
				tm.then = append(tm.then, hAct{kind: 1})
			}
			if th.lp != nil {
				tm.then = append(tm.then, hAct{kind: 2, v: *th.lp})
			}
			if th.med != nil {
				tm.then = append(tm.then, hAct{kind: 3, v: *th.med})
			}
			if th.pp != nil {
				tm.then = append(tm.then, hAct{kind: 5, v: th.pp[0], times: uint16(th.pp[1])})
			}
			if th.nhSet {
				if !th.nhOK {
					return nil, nil, false
				}
				tm.then = append(tm.then, hAct{kind: 4, ip: th.nh})
			}
			if th.accept {
				tm.then = append(tm.then, hAct{kind: 0})
			}
			f = append(f, tm)
		}
		fs = append(fs, named{s.name, f})
	}
	build := func(names []int) (hChain, bool) {
		ch := hChain{}
		for _, n := range names {
			found := false
			for _, x := range fs {
				if x.name == n {
					ch = append(ch, x.f)
					found = true
					break
				}
			}
			if !found {
				return nil, false
			}
		}
		return ch, true
	}
	gi, ok1 := build(c.gi)
	ge, ok2 := build(c.ge)
	ni, ok3 := build(c.ni)
	ne, ok4 := build(c.ne)
	if !(ok1 && ok2 && ok3 && ok4) {
		return nil, nil, false
	}
	imp, exp = gi, ge
	if len(c.ni) > 0 {
		imp = ni
	}
	if len(c.ne) > 0 {
		exp = ne
	}
	return imp, exp, true
}

// ---------------------------------------------------------------- running

var cfgDir string

func loadReal(c *cCase) (imp, exp filter.Chain, err error) {
	if cfgDir == "" {
		cfgDir, err = os.MkdirTemp("", "c14cfg")
		if err != nil {
			return nil, nil, err
		}
	}
	path := filepath.Join(cfgDir, "bio-rd.yml")
	if err = os.WriteFile(path, []byte(renderYAML(c)), 0o600); err != nil {
		return nil, nil, err
	}
	cf, err := config.GetConfig(path)
	if err != nil {
		return nil, nil, err
	}
	if cf.Protocols == nil || cf.Protocols.BGP == nil || len(cf.Protocols.BGP.Groups) != 1 || len(cf.Protocols.BGP.Groups[0].Neighbors) != 1 {
		return nil, nil, fmt.Errorf("harness: unexpected shape of the loaded configuration")
	}
	nb := cf.Protocols.BGP.Groups[0].Neighbors[0]
	return nb.ImportFilterChain, nb.ExportFilterChain, nil
}

func runCCase(c *cCase) (obs string, v *verdicts, nontrivial bool) {
	v = &verdicts{}
	wantI, wantE, wantOK := cfgToChains(&c.cfg)
	var I, E filter.Chain
	var err error
	if p, val := hx.Guard(func() { I, E, err = loadReal(c) }); p {
		v.add("panic:config-load", fmt.Sprint(val))
		return "PANIC", v, false
	}
	if err != nil {
		if strings.HasPrefix(err.Error(), "harness:") || strings.Contains(err.Error(), "unable to read file") {
			v.add("panic:harness", err.Error())
			return "PANIC", v, false
		}
		if wantOK {
			v.add("config-load:valid-configuration-refused", err.Error())
		}
		return "LOADERR", v, !wantOK
	}
	if !wantOK {
		v.add("config-load:invalid-configuration-accepted", "the loader accepted a configuration with an undefined policy, bad prefix, matcher or next hop")
		return "LOADED-INVALID", v, true
	}
	pool := buildPool(c.pool)
	I2, E2 := buildChain(pool, wantI), buildChain(pool, wantE)
	var eqCD, eqDC, eq2 bool
	if p, val := hx.Guard(func() { eqCD = I.Equal(E); eqDC = E.Equal(I); eq2 = I2.Equal(E2) }); p {
		v.add("panic:equal", fmt.Sprint(val))
		return "PANIC", v, false
	}
	if eqCD != eq2 {
		v.add("config-chain-differs:equal", fmt.Sprintf("import.Equal(export)=%v for the loaded chains, %v for the constructor-built ones", eqCD, eq2))
	}
	out := []string{"eq=" + string([]byte{b2c(eqCD), b2c(eqDC)})}
	wfI, wfE := chainWF(c.pool, wantI), chainWF(c.pool, wantE)
	st := &refStats{}
	for i, in := range c.inputs {
		pfx := toPfx(in.pfx)
		oi, oe := runImpl(I, pfx, in.path), runImpl(E, pfx, in.path)
		oi2, oe2 := runImpl(I2, pfx, in.path), runImpl(E2, pfx, in.path)
		out = append(out, oi.String(), oe.String())
		if oi.String() != oi2.String() {
			v.add("config-chain-differs:import", fmt.Sprintf("input %d (%s): loaded chain gives %s, constructor-built chain gives %s", i, fmtPfx(in.pfx), oi.String(), oi2.String()))
		}
		if oe.String() != oe2.String() {
			v.add("config-chain-differs:export", fmt.Sprintf("input %d (%s): loaded chain gives %s, constructor-built chain gives %s", i, fmtPfx(in.pfx), oe.String(), oe2.String()))
		}
		checkOne(v, "import", c.pool, wantI, wfI, in, i, oi, st)
		checkOne(v, "export", c.pool, wantE, wfE, in, i, oe, &refStats{})
		if (eqCD || eqDC) && oi.String() != oe.String() {
			v.add("equal-unsound:config", fmt.Sprintf("import.Equal(export) but input %d differs", i))
		}
	}
	nontrivial = st.condApplied > 0 && (st.rewrites > 0 || st.terminated > 0)
	return strings.Join(out, " "), v, nontrivial
}

// ---------------------------------------------------------------- generator

func genCCase(r *hx.RNG, t *hx.Trace) *cCase {
	c := &cCase{}
	ns := 1 + r.Intn(4)
	for i := 0; i < ns; i++ {
		s := cStmt{name: r.Intn(4)}
		for j, nt := 0, r.Intn(4); j < nt; j++ {
			tm := cTerm{}
			nr := r.Intn(4)
			if r.Chance(25) {
				nr = 0
			}
			for k := 0; k < nr; k++ {
				pat := genPattern(r, t)
				c.pool = append(c.pool, pat)
				rf := cRF{pat: len(c.pool) - 1, ok: true, mOK: true, m: genMatcher(r, pat)}
				if r.Intn(1000) < 4 {
					rf.ok = false
					t.Count("cfg_bad_prefix")
				}
				if r.Intn(1000) < 4 {
					rf.mOK = false
					t.Count("cfg_bad_matcher")
				}
				tm.rfs = append(tm.rfs, rf)
			}
			th := &tm.then
			th.reject = r.Chance(18)
			th.accept = r.Chance(35)
			if r.Chance(35) {
				x := lpPool[r.Intn(len(lpPool))]
				th.lp = &x
			}
			if r.Chance(30) {
				x := medPool[r.Intn(len(medPool))]
				th.med = &x
			}
			if r.Chance(25) {
				th.pp = &[2]uint32{asnPool[r.Intn(len(asnPool))], uint32(genTimes(r, t))}
			}
			if r.Chance(25) {
				th.nhSet, th.nhOK, th.nh = true, true, nhPool[r.Intn(len(nhPool))]
				if r.Intn(1000) < 8 {
					th.nhOK = false
					t.Count("cfg_bad_next_hop")
				}
			}
			s.terms = append(s.terms, tm)
		}
		c.cfg.stmts = append(c.cfg.stmts, s)
	}
	if len(c.pool) == 0 {
		c.pool = append(c.pool, genPattern(r, t))
	}
	names := func(p int) []int {
		if !r.Chance(p) {
			return []int{}
		}
		l := []int{}
		for i, n := 0, 1+r.Intn(3); i < n; i++ {
			if r.Intn(1000) < 12 {
				l = append(l, 4+r.Intn(2)) // never defined
				t.Count("cfg_undefined_policy")
			} else {
				l = append(l, c.cfg.stmts[r.Intn(len(c.cfg.stmts))].name)
			}
		}
		return l
	}
	c.cfg.gi, c.cfg.ge, c.cfg.ni, c.cfg.ne = names(70), names(75), names(55), names(35)
	wi, we, ok := cfgToChains(&c.cfg)
	lv := leaves{}
	if ok {
		lv = collect(c.pool, wi, we)
	} else {
		t.Count("cfg_invalid")
	}
	for i, n := 0, 4+r.Intn(4); i < n; i++ {
		c.inputs = append(c.inputs, hInput{pfx: genPrefix(r, t, lv), path: genPath(r, t, lv)})
	}
	t.Count("cfg_case")
	return c
}
