// C14 harness, part 1: the policy AST shared by generator, builder, reference interpreter and
// trace encoding.
//
// Token grammar of a case input (space separated):
//   pool <n> PFX*n   C CHAIN   D CHAIN   leaf=<tag>   in <k> (PFX PATH)*k
//   CHAIN  := ch <nf> FILTER*          FILTER := f <nt> TERM*
//   TERM   := t <nc> <na> COND* ACT*
//   COND   := c <npl> <nrf> <ncf> <nlcf> <npr> PL* RF* CF* LCF* PR*
//   PL     := pl MATCHER <n> PFX*n     RF := rf <poolidx> MATCHER
//   MATCHER:= ex | ol | lg | rg:<min>:<max>
//   CF     := <uint32>   LCF := <a>.<b>.<c>   PR := <uint8>
//   ACT    := acc | rej | lp:<v> | med:<v> | nh:IP | pp:<asn>:<times>
//   IP     := 4:<hex lower> | 6:<hex higher>:<hex lower>       PFX := IP/<len>
//   PATH   := p <type> BGP STATIC
//   BGP    := nobgp | b A as ASP l<aspathlen> COMMS LCOMMS
//   A      := noA | A,<lp>,<med>,<IP or ->
//   ASP    := nil | <nseg> SEG*     SEG := s<type>:<asn>,<asn>...
//   COMMS  := cnil | c:<c>,<c>...   LCOMMS := lcnil | lc:<a.b.c>,...
//   STATIC := snil | s- | s:IP
// Observation: eq=<C.Equal(D)><D.Equal(C)> then per input OUT(C) OUT(D);
//   OUT := PANIC | <reject><fresh><inputsame><restsame>|<PATH tokens joined by ';'>
package main

import (
	"fmt"
	"strconv"
	"strings"
)

type hIP struct {
	v4     bool
	hi, lo uint64
}

type hPfx struct {
	ip hIP
	ln int
}

type hMatcher struct {
	kind     int // 0 exact 1 orlonger 2 longer 3 range
	min, max int
}

type hPL struct {
	m       hMatcher
	allowed []hPfx
}

type hRF struct {
	pat int // pool index (pointer identity)
	m   hMatcher
}

type hCond struct {
	pls    []hPL
	rfs    []hRF
	cfs    []uint32
	lcfs   [][3]uint32
	protos []uint8
}

type hAct struct {
	kind  int // 0 accept 1 reject 2 localpref 3 med 4 nexthop 5 prepend
	v     uint32
	ip    hIP
	times uint16
}

type hTerm struct {
	from []hCond
	then []hAct
}

type hFilter []hTerm
type hChain []hFilter

type hSeg struct {
	ty   uint8
	asns []uint32
}

type hPath struct {
	typ    uint8
	hasBGP bool
	hasA   bool
	lp     uint32
	med    uint32
	nh     *hIP
	asNil  bool
	as     []hSeg
	asLen  uint16
	cNil   bool
	comms  []uint32
	lcNil  bool
	lcomms [][3]uint32
	stNil  bool
	stNH   *hIP
}

type hInput struct {
	pfx  hPfx
	path hPath
}

type hCase struct {
	pool   []hPfx
	c, d   hChain
	leaf   string
	inputs []hInput
}

// ---------------------------------------------------------------- formatting

func fmtIP(a hIP) string {
	if a.v4 {
		return fmt.Sprintf("4:%x", a.lo)
	}
	return fmt.Sprintf("6:%x:%x", a.hi, a.lo)
}

func fmtPfx(p hPfx) string { return fmt.Sprintf("%s/%d", fmtIP(p.ip), p.ln) }

func fmtMatcher(m hMatcher) string {
	switch m.kind {
	case 0:
		return "ex"
	case 1:
		return "ol"
	case 2:
		return "lg"
	}
	return fmt.Sprintf("rg:%d:%d", m.min, m.max)
}

func fmtAct(a hAct) string {
	switch a.kind {
	case 0:
		return "acc"
	case 1:
		return "rej"
	case 2:
		return fmt.Sprintf("lp:%d", a.v)
	case 3:
		return fmt.Sprintf("med:%d", a.v)
	case 4:
		return "nh:" + fmtIP(a.ip)
	}
	return fmt.Sprintf("pp:%d:%d", a.v, a.times)
}

func fmtChain(c hChain) []string {
	out := []string{"ch", strconv.Itoa(len(c))}
	for _, f := range c {
		out = append(out, "f", strconv.Itoa(len(f)))
		for _, t := range f {
			out = append(out, "t", strconv.Itoa(len(t.from)), strconv.Itoa(len(t.then)))
			for _, cd := range t.from {
				out = append(out, "c", strconv.Itoa(len(cd.pls)), strconv.Itoa(len(cd.rfs)), strconv.Itoa(len(cd.cfs)),
					strconv.Itoa(len(cd.lcfs)), strconv.Itoa(len(cd.protos)))
				for _, l := range cd.pls {
					out = append(out, "pl", fmtMatcher(l.m), strconv.Itoa(len(l.allowed)))
					for _, q := range l.allowed {
						out = append(out, fmtPfx(q))
					}
				}
				for _, r := range cd.rfs {
					out = append(out, "rf", strconv.Itoa(r.pat), fmtMatcher(r.m))
				}
				for _, x := range cd.cfs {
					out = append(out, strconv.FormatUint(uint64(x), 10))
				}
				for _, x := range cd.lcfs {
					out = append(out, fmt.Sprintf("%d.%d.%d", x[0], x[1], x[2]))
				}
				for _, x := range cd.protos {
					out = append(out, strconv.Itoa(int(x)))
				}
			}
			for _, a := range t.then {
				out = append(out, fmtAct(a))
			}
		}
	}
	return out
}

func joinU32(xs []uint32) string {
	s := make([]string, len(xs))
	for i, x := range xs {
		s[i] = strconv.FormatUint(uint64(x), 10)
	}
	return strings.Join(s, ",")
}

func fmtPath(p hPath) []string {
	out := []string{"p", strconv.Itoa(int(p.typ))}
	if !p.hasBGP {
		out = append(out, "nobgp")
	} else {
		out = append(out, "b")
		if !p.hasA {
			out = append(out, "noA")
		} else {
			nh := "-"
			if p.nh != nil {
				nh = fmtIP(*p.nh)
			}
			out = append(out, fmt.Sprintf("A,%d,%d,%s", p.lp, p.med, nh))
		}
		out = append(out, "as")
		if p.asNil {
			out = append(out, "nil")
		} else {
			out = append(out, strconv.Itoa(len(p.as)))
			for _, s := range p.as {
				out = append(out, fmt.Sprintf("s%d:%s", s.ty, joinU32(s.asns)))
			}
		}
		out = append(out, fmt.Sprintf("l%d", p.asLen))
		if p.cNil {
			out = append(out, "cnil")
		} else {
			out = append(out, "c:"+joinU32(p.comms))
		}
		if p.lcNil {
			out = append(out, "lcnil")
		} else {
			s := make([]string, len(p.lcomms))
			for i, x := range p.lcomms {
				s[i] = fmt.Sprintf("%d.%d.%d", x[0], x[1], x[2])
			}
			out = append(out, "lc:"+strings.Join(s, ","))
		}
	}
	switch {
	case p.stNil:
		out = append(out, "snil")
	case p.stNH == nil:
		out = append(out, "s-")
	default:
		out = append(out, "s:"+fmtIP(*p.stNH))
	}
	return out
}

func fmtCase(c *hCase) string {
	out := []string{"pool", strconv.Itoa(len(c.pool))}
	for _, p := range c.pool {
		out = append(out, fmtPfx(p))
	}
	out = append(out, "C")
	out = append(out, fmtChain(c.c)...)
	out = append(out, "D")
	out = append(out, fmtChain(c.d)...)
	out = append(out, "leaf="+c.leaf)
	out = append(out, "in", strconv.Itoa(len(c.inputs)))
	for _, in := range c.inputs {
		out = append(out, fmtPfx(in.pfx))
		out = append(out, fmtPath(in.path)...)
	}
	return strings.Join(out, " ")
}

// ---------------------------------------------------------------- parsing

type toks struct {
	t []string
	i int
}

type parseErr string

func (p *toks) next() string {
	if p.i >= len(p.t) {
		panic(parseErr("unexpected end of input"))
	}
	s := p.t[p.i]
	p.i++
	return s
}

func (p *toks) expect(s string) {
	if g := p.next(); g != s {
		panic(parseErr(fmt.Sprintf("expected %q got %q at %d", s, g, p.i-1)))
	}
}

func (p *toks) num() int {
	s := p.next()
	n, err := strconv.Atoi(s)
	if err != nil || n < 0 {
		panic(parseErr("bad number " + s))
	}
	return n
}

func pU(s string, bits int) uint64 {
	n, err := strconv.ParseUint(s, 10, bits)
	if err != nil {
		panic(parseErr("bad uint " + s))
	}
	return n
}

func pHex(s string) uint64 {
	n, err := strconv.ParseUint(s, 16, 64)
	if err != nil {
		panic(parseErr("bad hex " + s))
	}
	return n
}

func parseIP(s string) hIP {
	f := strings.Split(s, ":")
	switch {
	case len(f) == 2 && f[0] == "4":
		lo := pHex(f[1])
		if lo >= 1<<32 {
			panic(parseErr("legacy address out of range " + s))
		}
		return hIP{v4: true, lo: lo}
	case len(f) == 3 && f[0] == "6":
		return hIP{hi: pHex(f[1]), lo: pHex(f[2])}
	}
	panic(parseErr("bad ip " + s))
}

func parsePfx(s string) hPfx {
	i := strings.LastIndex(s, "/")
	if i < 0 {
		panic(parseErr("bad prefix " + s))
	}
	return hPfx{ip: parseIP(s[:i]), ln: int(pU(s[i+1:], 8))}
}

func parseMatcher(s string) hMatcher {
	switch s {
	case "ex":
		return hMatcher{kind: 0}
	case "ol":
		return hMatcher{kind: 1}
	case "lg":
		return hMatcher{kind: 2}
	}
	f := strings.Split(s, ":")
	if len(f) == 3 && f[0] == "rg" {
		return hMatcher{kind: 3, min: int(pU(f[1], 8)), max: int(pU(f[2], 8))}
	}
	panic(parseErr("bad matcher " + s))
}

func parseLC(s string) [3]uint32 {
	f := strings.Split(s, ".")
	if len(f) != 3 {
		panic(parseErr("bad large community " + s))
	}
	return [3]uint32{uint32(pU(f[0], 32)), uint32(pU(f[1], 32)), uint32(pU(f[2], 32))}
}

func parseAct(s string) hAct {
	switch {
	case s == "acc":
		return hAct{kind: 0}
	case s == "rej":
		return hAct{kind: 1}
	case strings.HasPrefix(s, "lp:"):
		return hAct{kind: 2, v: uint32(pU(s[3:], 32))}
	case strings.HasPrefix(s, "med:"):
		return hAct{kind: 3, v: uint32(pU(s[4:], 32))}
	case strings.HasPrefix(s, "nh:"):
		return hAct{kind: 4, ip: parseIP(s[3:])}
	case strings.HasPrefix(s, "pp:"):
		f := strings.Split(s[3:], ":")
		if len(f) == 2 {
			return hAct{kind: 5, v: uint32(pU(f[0], 32)), times: uint16(pU(f[1], 16))}
		}
	}
	panic(parseErr("bad action " + s))
}

func parseChain(p *toks) hChain {
	p.expect("ch")
	c := make(hChain, p.num())
	for i := range c {
		p.expect("f")
		c[i] = make(hFilter, p.num())
		for j := range c[i] {
			p.expect("t")
			nc, na := p.num(), p.num()
			t := hTerm{from: make([]hCond, nc), then: make([]hAct, na)}
			for k := range t.from {
				p.expect("c")
				npl, nrf, ncf, nlcf, npr := p.num(), p.num(), p.num(), p.num(), p.num()
				cd := hCond{}
				for x := 0; x < npl; x++ {
					p.expect("pl")
					l := hPL{m: parseMatcher(p.next())}
					n := p.num()
					for y := 0; y < n; y++ {
						l.allowed = append(l.allowed, parsePfx(p.next()))
					}
					cd.pls = append(cd.pls, l)
				}
				for x := 0; x < nrf; x++ {
					p.expect("rf")
					idx := p.num()
					cd.rfs = append(cd.rfs, hRF{pat: idx, m: parseMatcher(p.next())})
				}
				for x := 0; x < ncf; x++ {
					cd.cfs = append(cd.cfs, uint32(pU(p.next(), 32)))
				}
				for x := 0; x < nlcf; x++ {
					cd.lcfs = append(cd.lcfs, parseLC(p.next()))
				}
				for x := 0; x < npr; x++ {
					cd.protos = append(cd.protos, uint8(pU(p.next(), 8)))
				}
				t.from[k] = cd
			}
			for k := range t.then {
				t.then[k] = parseAct(p.next())
			}
			c[i][j] = t
		}
	}
	return c
}

func splitU32(s string) []uint32 {
	if s == "" {
		return []uint32{}
	}
	f := strings.Split(s, ",")
	out := make([]uint32, len(f))
	for i, x := range f {
		out[i] = uint32(pU(x, 32))
	}
	return out
}

func parsePath(p *toks) hPath {
	p.expect("p")
	pa := hPath{typ: uint8(pU(p.next(), 8)), asNil: true, cNil: true, lcNil: true, stNil: true}
	switch b := p.next(); b {
	case "nobgp":
	case "b":
		pa.hasBGP = true
		a := p.next()
		if a != "noA" {
			f := strings.Split(a, ",")
			if len(f) != 4 || f[0] != "A" {
				panic(parseErr("bad A " + a))
			}
			pa.hasA = true
			pa.lp = uint32(pU(f[1], 32))
			pa.med = uint32(pU(f[2], 32))
			if f[3] != "-" {
				ip := parseIP(f[3])
				pa.nh = &ip
			}
		}
		p.expect("as")
		if n := p.next(); n != "nil" {
			k, err := strconv.Atoi(n)
			if err != nil {
				panic(parseErr("bad segment count " + n))
			}
			pa.asNil = false
			pa.as = make([]hSeg, k)
			for i := range pa.as {
				s := p.next()
				j := strings.Index(s, ":")
				if len(s) < 2 || s[0] != 's' || j < 0 {
					panic(parseErr("bad segment " + s))
				}
				pa.as[i] = hSeg{ty: uint8(pU(s[1:j], 8)), asns: splitU32(s[j+1:])}
			}
		}
		l := p.next()
		if len(l) < 2 || l[0] != 'l' {
			panic(parseErr("bad aspathlen " + l))
		}
		pa.asLen = uint16(pU(l[1:], 16))
		if c := p.next(); c != "cnil" {
			if !strings.HasPrefix(c, "c:") {
				panic(parseErr("bad communities " + c))
			}
			pa.cNil = false
			pa.comms = splitU32(c[2:])
		}
		if c := p.next(); c != "lcnil" {
			if !strings.HasPrefix(c, "lc:") {
				panic(parseErr("bad large communities " + c))
			}
			pa.lcNil = false
			pa.lcomms = [][3]uint32{}
			if c[3:] != "" {
				for _, x := range strings.Split(c[3:], ",") {
					pa.lcomms = append(pa.lcomms, parseLC(x))
				}
			}
		}
	default:
		panic(parseErr("bad bgp part " + b))
	}
	switch s := p.next(); {
	case s == "snil":
	case s == "s-":
		pa.stNil = false
	case strings.HasPrefix(s, "s:"):
		pa.stNil = false
		ip := parseIP(s[2:])
		pa.stNH = &ip
	default:
		panic(parseErr("bad static part " + s))
	}
	return pa
}

func parseCase(input string) (c *hCase, err error) {
	defer func() {
		if r := recover(); r != nil {
			if pe, ok := r.(parseErr); ok {
				c, err = nil, fmt.Errorf("%s", string(pe))
				return
			}
			panic(r)
		}
	}()
	p := &toks{t: strings.Fields(input)}
	c = &hCase{}
	p.expect("pool")
	n := p.num()
	for i := 0; i < n; i++ {
		c.pool = append(c.pool, parsePfx(p.next()))
	}
	p.expect("C")
	c.c = parseChain(p)
	p.expect("D")
	c.d = parseChain(p)
	l := p.next()
	if !strings.HasPrefix(l, "leaf=") {
		panic(parseErr("expected leaf=... got " + l))
	}
	c.leaf = l[5:]
	p.expect("in")
	k := p.num()
	for i := 0; i < k; i++ {
		pf := parsePfx(p.next())
		c.inputs = append(c.inputs, hInput{pfx: pf, path: parsePath(p)})
	}
	for _, ch := range []hChain{c.c, c.d} {
		for _, f := range ch {
			for _, t := range f {
				for _, cd := range t.from {
					for _, r := range cd.rfs {
						if r.pat >= len(c.pool) {
							panic(parseErr("pool index out of range"))
						}
					}
				}
			}
		}
	}
	return c, nil
}
