// C14 harness: policy chains from a bounded grammar are built through the public constructors of
// routingtable/filter and applied to generated prefixes and paths; the same cases are replayed
// through the extracted Coq model by ocaml/c14/c14_run.ml.
//
// Spec oracle (the property's own statement, evaluated on the implementation's outputs):
//   * on well-formed inputs (valid prefixes/patterns, BGP part with BGPPathA) Chain.Process must
//     not panic and (verdict, rewritten path) must equal the independent reference interpreter
//     of ref.go                                      sig=process-vs-reference:<what> | panic:<class>
//   * the input path is unchanged, the result is a fresh object, attributes no action touches
//     are preserved              sig=input-mutated | result-aliases-input | untouched-attribute-changed
//   * if C.Equal(D) (either direction) then C and D produce identical outcomes on every input of
//     the case                                                       sig=equal-unsound:<leaf>
package main

import (
	"fmt"
	"os"
	"strings"

	"verifharness/hx"
)

func firstDiff(a, b hPath) string {
	x, y := fmtPath(a), fmtPath(b)
	names := func(tok string) string {
		switch {
		case strings.HasPrefix(tok, "A,") || tok == "noA":
			return "bgp-attrs(local-pref/med/next-hop)"
		case strings.HasPrefix(tok, "s") && len(tok) > 1 && tok[1] >= '0' && tok[1] <= '9':
			return "as-path"
		case strings.HasPrefix(tok, "l") && !strings.HasPrefix(tok, "lc"):
			return "as-path-len"
		case strings.HasPrefix(tok, "c:") || tok == "cnil":
			return "communities"
		case strings.HasPrefix(tok, "lc"):
			return "large-communities"
		case strings.HasPrefix(tok, "s:") || tok == "s-" || tok == "snil":
			return "static-next-hop"
		}
		return "as-path"
	}
	for i := 0; i < len(x) && i < len(y); i++ {
		if x[i] != y[i] {
			if i == 1 {
				return "type"
			}
			return names(x[i])
		}
	}
	if len(x) != len(y) {
		return "as-path"
	}
	return ""
}

func panicClass(c hChain, h hPath) string {
	hasCF, hasPP := false, false
	for _, f := range c {
		for _, t := range f {
			for _, cd := range t.from {
				if len(cd.cfs) > 0 {
					hasCF = true
				}
			}
			for _, a := range t.then {
				if a.kind == 5 {
					hasPP = true
				}
			}
		}
	}
	switch {
	case h.hasBGP && h.cNil && hasCF:
		return "community-filter-on-nil-communities"
	case h.hasBGP && h.asNil && hasPP:
		return "prepend-on-nil-as-path"
	}
	return "other"
}

type verdicts struct {
	sigs    []string
	details []string
}

func (v *verdicts) add(sig, detail string) {
	for _, s := range v.sigs {
		if s == sig {
			return
		}
	}
	v.sigs = append(v.sigs, sig)
	v.details = append(v.details, detail)
}

func checkOne(v *verdicts, which string, pool []hPfx, ch hChain, wfChain bool, in hInput, i int, o outcome, st *refStats) {
	wf := wfChain && pfxWF(in.pfx) && pathWF(in.path)
	if o.panicked {
		if pathWF(in.path) {
			v.add("panic:"+panicClass(ch, in.path), fmt.Sprintf("chain %s input %d: %s", which, i, o.panicVal))
		}
		return
	}
	if !o.inputSame {
		v.add("input-mutated", fmt.Sprintf("chain %s input %d: Process changed the caller's path", which, i))
	}
	if !o.fresh {
		v.add("result-aliases-input", fmt.Sprintf("chain %s input %d: result shares objects with the input path", which, i))
	}
	if !o.restSame {
		v.add("untouched-attribute-changed", fmt.Sprintf("chain %s input %d", which, i))
	}
	if !wf {
		return
	}
	want, wantRej := refChain(pool, ch, in.pfx, in.path, st)
	if wantRej != o.reject {
		v.add("process-vs-reference:verdict", fmt.Sprintf("chain %s input %d (%s): reject=%v, reference says %v", which, i, fmtPfx(in.pfx), o.reject, wantRej))
		return
	}
	if d := firstDiff(o.path, want); d != "" {
		v.add("process-vs-reference:"+d, fmt.Sprintf("chain %s input %d (%s): got %s want %s", which, i, fmtPfx(in.pfx), renderPath(o.path), renderPath(want)))
	}
}

func runCase(c *hCase) (obs string, v *verdicts, nontrivial bool) {
	v = &verdicts{}
	pool := buildPool(c.pool)
	C := buildChain(pool, c.c)
	D := buildChain(pool, c.d)
	var eqCD, eqDC bool
	if p, val := hx.Guard(func() { eqCD = C.Equal(D); eqDC = D.Equal(C) }); p {
		v.add("panic:equal", fmt.Sprint(val))
		return "PANIC", v, false
	}
	out := []string{"eq=" + string([]byte{b2c(eqCD), b2c(eqDC)})}
	wfC, wfD := chainWF(c.pool, c.c), chainWF(c.pool, c.d)
	st := &refStats{}
	for i, in := range c.inputs {
		pfx := toPfx(in.pfx)
		oc := runImpl(C, pfx, in.path)
		od := runImpl(D, pfx, in.path)
		out = append(out, oc.String(), od.String())
		checkOne(v, "C", c.pool, c.c, wfC, in, i, oc, st)
		checkOne(v, "D", c.pool, c.d, wfD, in, i, od, &refStats{})
		if (eqCD || eqDC) && oc.String() != od.String() {
			v.add("equal-unsound:"+c.leaf, fmt.Sprintf("Equal=%v/%v but input %d (%s %s): C gives %s, D gives %s", eqCD, eqDC, i,
				fmtPfx(in.pfx), renderPath(in.path), oc.String(), od.String()))
		}
	}
	if eqCD != eqDC {
		v.add("equal-asymmetric:"+c.leaf, fmt.Sprintf("C.Equal(D)=%v D.Equal(C)=%v", eqCD, eqDC))
	}
	nontrivial = st.condApplied > 0 && (st.rewrites > 0 || st.terminated > 0)
	return strings.Join(out, " "), v, nontrivial
}

type anyCase struct {
	c  *hCase
	cc *cCase
}

func (a anyCase) format() string {
	if a.cc != nil {
		return fmtCCase(a.cc)
	}
	return fmtCase(a.c)
}

func (a anyCase) run() (string, *verdicts, bool) {
	if a.cc != nil {
		return runCCase(a.cc)
	}
	return runCase(a.c)
}

func parseAny(input string) (anyCase, error) {
	if isCfgCase(input) {
		cc, err := parseCCase(input)
		return anyCase{cc: cc}, err
	}
	c, err := parseCase(input)
	return anyCase{c: c}, err
}

func main() {
	cfg := hx.Parse()
	tr := hx.NewTrace(cfg.Out)
	nviol := 0
	do := func(id string, c anyCase) {
		var obs string
		var v *verdicts
		var nt bool
		panicked, val := hx.Guard(func() { obs, v, nt = c.run() })
		if panicked {
			obs, v = "PANIC", &verdicts{sigs: []string{"panic:harness"}, details: []string{fmt.Sprint(val)}}
		}
		tr.Case(id, nt, c.format(), obs)
		for i, s := range v.sigs {
			hx.Violation(id, s, v.details[i])
			nviol++
		}
	}
	if cfg.Mode == "replay" {
		for _, in := range hx.InputsFrom(cfg.Replay) {
			c, err := parseAny(in[1])
			if err != nil {
				fmt.Println("HARNESS-ERROR bad replay input:", err)
				os.Exit(2)
			}
			do(in[0], c)
		}
	} else {
		for _, in := range hx.InputsFrom(hx.CorpusFiles(cfg.Corpus)...) {
			c, err := parseAny(in[1])
			if err != nil {
				fmt.Println("HARNESS-ERROR bad corpus case", in[0], err)
				os.Exit(2)
			}
			do("corpus-"+in[0], c)
			tr.Count("corpus")
		}
		rng := hx.NewRNG(cfg.Seed)
		for i := 0; i < cfg.N; i++ {
			r := rng.Fork(uint64(i))
			if i%4 == 3 { // every fourth case goes through the configuration loader
				do(fmt.Sprintf("g%d", i), anyCase{cc: genCCase(r, tr)})
			} else {
				do(fmt.Sprintf("g%d", i), anyCase{c: genCase(r, tr)})
			}
		}
	}
	if cfgDir != "" {
		os.RemoveAll(cfgDir)
	}
	tr.Close(cfg.Stats, map[string]interface{}{"spec_violations": nviol})
}
