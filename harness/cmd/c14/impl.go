// C14 harness, part 3: building the real filter.Chain / route.Path from the harness AST through
// the public constructors (+ the verif hook for community filters) and observing Chain.Process.
package main

import (
	"fmt"
	"strings"

	bnet "github.com/bio-routing/bio-rd/net"
	"github.com/bio-routing/bio-rd/protocols/bgp/types"
	"github.com/bio-routing/bio-rd/route"
	"github.com/bio-routing/bio-rd/routingtable/filter"
	"github.com/bio-routing/bio-rd/routingtable/filter/actions"

	"verifharness/hx"
)

func toIP(a hIP) bnet.IP {
	if a.v4 {
		return bnet.IPv4(uint32(a.lo))
	}
	return bnet.IPv6(a.hi, a.lo)
}

func fromIP(a *bnet.IP) *hIP {
	if a == nil {
		return nil
	}
	return &hIP{v4: a.IsIPv4(), hi: a.Higher(), lo: a.Lower()}
}

func toPfx(p hPfx) *bnet.Prefix { return bnet.NewPfx(toIP(p.ip), uint8(p.ln)).Ptr() }

func buildPool(pool []hPfx) []*bnet.Prefix {
	out := make([]*bnet.Prefix, len(pool))
	for i, p := range pool {
		out[i] = toPfx(p) // one pointer per pool entry
	}
	return out
}

func buildMatcher(m hMatcher) filter.PrefixMatcher {
	switch m.kind {
	case 0:
		return filter.NewExactMatcher()
	case 1:
		return filter.NewOrLongerMatcher()
	case 2:
		return filter.NewLongerMatcher()
	}
	return filter.NewInRangeMatcher(uint8(m.min), uint8(m.max))
}

func buildCond(pool []*bnet.Prefix, cd hCond) *filter.TermCondition {
	var pls []*filter.PrefixList
	for _, l := range cd.pls {
		pf := make([]*bnet.Prefix, len(l.allowed))
		for i, q := range l.allowed {
			pf[i] = toPfx(q)
		}
		if l.m.kind == 0 && len(pf)%2 == 0 {
			pls = append(pls, filter.NewPrefixList(pf...))
		} else {
			pls = append(pls, filter.NewPrefixListWithMatcher(buildMatcher(l.m), pf...))
		}
	}
	var rfs []*filter.RouteFilter
	for _, r := range cd.rfs {
		rfs = append(rfs, filter.NewRouteFilter(pool[r.pat], buildMatcher(r.m)))
	}
	other := len(cd.cfs) > 0 || len(cd.lcfs) > 0
	switch {
	case !other && len(cd.protos) == 0 && len(pls) == 0:
		return filter.NewTermConditionWithRouteFilters(rfs...)
	case !other && len(cd.protos) == 0 && len(rfs) == 0:
		return filter.NewTermConditionWithPrefixLists(pls...)
	case !other && len(cd.protos) == 0:
		return filter.NewTermCondition(pls, rfs)
	case !other && len(pls) == 0 && len(rfs) == 0:
		return filter.NewTermConditionWithProtocols(cd.protos...)
	}
	var cfs []*filter.CommunityFilter
	for _, c := range cd.cfs {
		cfs = append(cfs, filter.VerifNewCommunityFilter(c))
	}
	var lcfs []*filter.LargeCommunityFilter
	for _, c := range cd.lcfs {
		lcfs = append(lcfs, filter.VerifNewLargeCommunityFilter(types.LargeCommunity{GlobalAdministrator: c[0], DataPart1: c[1], DataPart2: c[2]}))
	}
	return filter.VerifNewTermCondition(pls, rfs, cfs, lcfs, cd.protos)
}

func buildAct(a hAct) actions.Action {
	switch a.kind {
	case 0:
		return actions.NewAcceptAction()
	case 1:
		return actions.NewRejectAction()
	case 2:
		return actions.NewSetLocalPrefAction(a.v)
	case 3:
		return actions.NewSetMEDAction(a.v)
	case 4:
		ip := toIP(a.ip)
		return actions.NewSetNextHopAction(&ip)
	}
	return actions.NewASPathPrependAction(a.v, a.times)
}

func buildChain(pool []*bnet.Prefix, c hChain) filter.Chain {
	ch := filter.Chain{}
	for i, f := range c {
		terms := []*filter.Term{}
		for j, t := range f {
			from := []*filter.TermCondition{}
			for _, cd := range t.from {
				from = append(from, buildCond(pool, cd))
			}
			then := []actions.Action{}
			for _, a := range t.then {
				then = append(then, buildAct(a))
			}
			terms = append(terms, filter.NewTerm(fmt.Sprintf("t%d", j), from, then))
		}
		ch = append(ch, filter.NewFilter(fmt.Sprintf("f%d", i), terms))
	}
	return ch
}

// toPath builds a route.Path; the attributes no action may touch get fixed non-zero values
func toPath(h hPath) *route.Path {
	p := &route.Path{Type: h.typ, RedistributedFrom: 3, HiddenReason: 0, LTime: 1234567}
	if h.hasBGP {
		b := &route.BGPPath{PathIdentifier: 77, BMPPostPolicy: true}
		if h.hasA {
			src := bnet.IPv4FromOctets(192, 0, 2, 1)
			a := &route.BGPPathA{LocalPref: h.lp, MED: h.med, Source: &src, BGPIdentifier: 11, OriginatorID: 12,
				Aggregator: &types.Aggregator{ASN: 13, Address: 14}, EBGP: true, AtomicAggregate: true, Origin: 2, OnlyToCustomer: 15}
			if h.nh != nil {
				ip := toIP(*h.nh)
				a.NextHop = &ip
			}
			b.BGPPathA = a
		}
		if !h.asNil {
			asp := make(types.ASPath, len(h.as))
			for i, s := range h.as {
				asp[i] = types.ASPathSegment{Type: s.ty, ASNs: append([]uint32{}, s.asns...)}
			}
			b.ASPath = &asp
		}
		b.ASPathLen = h.asLen
		if !h.cNil {
			c := make(types.Communities, len(h.comms))
			copy(c, h.comms)
			b.Communities = &c
		}
		if !h.lcNil {
			lc := make(types.LargeCommunities, len(h.lcomms))
			for i, x := range h.lcomms {
				lc[i] = types.LargeCommunity{GlobalAdministrator: x[0], DataPart1: x[1], DataPart2: x[2]}
			}
			b.LargeCommunities = &lc
		}
		cl := types.ClusterList{21, 22}
		b.ClusterList = &cl
		b.UnknownAttributes = []types.UnknownPathAttribute{{Optional: true, Transitive: true, TypeCode: 99, Value: []byte{1, 2, 3}}}
		p.BGPPath = b
	}
	if !h.stNil {
		s := &route.StaticPath{}
		if h.stNH != nil {
			ip := toIP(*h.stNH)
			s.NextHop = &ip
		}
		p.StaticPath = s
	}
	return p
}

func fromPath(p *route.Path) hPath {
	h := hPath{typ: p.Type, asNil: true, cNil: true, lcNil: true, stNil: true}
	if b := p.BGPPath; b != nil {
		h.hasBGP = true
		if a := b.BGPPathA; a != nil {
			h.hasA = true
			h.lp, h.med, h.nh = a.LocalPref, a.MED, fromIP(a.NextHop)
		}
		if b.ASPath != nil {
			h.asNil = false
			h.as = make([]hSeg, len(*b.ASPath))
			for i, s := range *b.ASPath {
				h.as[i] = hSeg{ty: s.Type, asns: append([]uint32{}, s.ASNs...)}
			}
		}
		h.asLen = b.ASPathLen
		if b.Communities != nil {
			h.cNil = false
			h.comms = append([]uint32{}, (*b.Communities)...)
		}
		if b.LargeCommunities != nil {
			h.lcNil = false
			h.lcomms = [][3]uint32{}
			for _, x := range *b.LargeCommunities {
				h.lcomms = append(h.lcomms, [3]uint32{x.GlobalAdministrator, x.DataPart1, x.DataPart2})
			}
		}
	}
	if s := p.StaticPath; s != nil {
		h.stNil = false
		h.stNH = fromIP(s.NextHop)
	}
	return h
}

// restString renders every attribute the policy actions must not touch
func restString(p *route.Path) string {
	var sb strings.Builder
	fmt.Fprintf(&sb, "rf=%d hr=%d lt=%d fib=%v", p.RedistributedFrom, p.HiddenReason, p.LTime, p.FIBPath)
	if b := p.BGPPath; b != nil {
		fmt.Fprintf(&sb, " pid=%d bmp=%v", b.PathIdentifier, b.BMPPostPolicy)
		if a := b.BGPPathA; a != nil {
			src := "-"
			if a.Source != nil {
				src = a.Source.String()
			}
			agg := "-"
			if a.Aggregator != nil {
				agg = fmt.Sprintf("%d/%d", a.Aggregator.ASN, a.Aggregator.Address)
			}
			fmt.Fprintf(&sb, " src=%s id=%d oid=%d agg=%s ebgp=%v aa=%v or=%d otc=%d", src, a.BGPIdentifier, a.OriginatorID, agg,
				a.EBGP, a.AtomicAggregate, a.Origin, a.OnlyToCustomer)
		}
		if b.ClusterList != nil {
			fmt.Fprintf(&sb, " cl=%v", *b.ClusterList)
		}
		for _, u := range b.UnknownAttributes {
			fmt.Fprintf(&sb, " ua=%v/%v/%v/%d/%v", u.Optional, u.Transitive, u.Partial, u.TypeCode, u.Value)
		}
	}
	return sb.String()
}

func renderPath(h hPath) string { return strings.Join(fmtPath(h), ";") }

func b2c(b bool) byte {
	if b {
		return '1'
	}
	return '0'
}

type outcome struct {
	panicked  bool
	panicVal  string
	reject    bool
	fresh     bool
	inputSame bool
	restSame  bool
	path      hPath
}

func (o outcome) String() string {
	if o.panicked {
		return "PANIC"
	}
	return string([]byte{b2c(o.reject), b2c(o.fresh), b2c(o.inputSame), b2c(o.restSame)}) + "|" + renderPath(o.path)
}

// runImpl applies the real chain to a freshly built path
func runImpl(ch filter.Chain, pfx *bnet.Prefix, h hPath) outcome {
	in := toPath(h)
	before := renderPath(fromPath(in)) + " " + restString(in)
	var out *route.Path
	var rej bool
	panicked, val := hx.Guard(func() { out, rej = ch.Process(pfx, in) })
	if panicked {
		return outcome{panicked: true, panicVal: fmt.Sprint(val)}
	}
	o := outcome{reject: rej}
	if out == nil {
		return outcome{panicked: true, panicVal: "Process returned a nil path"}
	}
	o.fresh = out != in &&
		(in.BGPPath == nil || out.BGPPath != in.BGPPath) &&
		(in.BGPPath == nil || in.BGPPath.BGPPathA == nil || out.BGPPath == nil || out.BGPPath.BGPPathA != in.BGPPath.BGPPathA) &&
		(in.StaticPath == nil || out.StaticPath != in.StaticPath)
	o.inputSame = renderPath(fromPath(in))+" "+restString(in) == before
	o.restSame = restString(out) == restString(in)
	o.path = fromPath(out)
	return o
}
