// C14 harness, part 4: generators (bounded grammar of chains, prefixes near matcher and word
// boundaries, paths with/without BGP part / communities / AS path) and single-leaf mutations.
package main

import (
	"fmt"

	"verifharness/hx"
)

var v4Bases = []uint32{0x0a000000, 0x0a800000, 0xc0a80000, 0xac10ffff, 0xffffffff, 0x00000000, 0x0a0000ff}
var v6Bases = [][2]uint64{
	{0x20010db800000000, 0}, {0x20010db800000000, 0x8000000000000000}, {0x20010db8ffffffff, 0xffffffffffffffff},
	{0, 0}, {0xffffffffffffffff, 0xffffffffffffffff}, {0x20010db800000001, 0}, {0x20010db800000000, 0x0a000000},
	{0, 0x0a000000},
}
var v4Lens = []int{0, 1, 7, 8, 9, 15, 16, 17, 23, 24, 25, 30, 31, 32}
var v6Lens = []int{0, 1, 8, 16, 31, 32, 33, 47, 48, 49, 56, 63, 64, 65, 95, 96, 97, 104, 120, 127, 128}
var commPool = []uint32{65001, 65002, 4259840001}
var lcommPool = [][3]uint32{{1, 2, 3}, {1, 2, 4}, {65000, 0, 1}}
var protoPool = []uint8{1, 2, 3}
var asnPool = []uint32{65000, 65001, 4200000000}
var nhPool = []hIP{{v4: true, lo: 0x0a000001}, {v4: true, lo: 0xc0a80001}, {hi: 0x20010db800000000, lo: 1}}
var lpPool = []uint32{0, 100, 200}
var medPool = []uint32{0, 7, 50}

func maskTo(a hIP, ln int) hIP {
	if a.v4 {
		if ln >= 32 {
			return a
		}
		a.lo &= ^uint64(0) << (32 - uint(ln)) & 0xffffffff
		return a
	}
	switch {
	case ln >= 128:
	case ln > 64:
		a.lo &= ^uint64(0) << (128 - uint(ln))
	case ln == 64:
		a.lo = 0
	case ln == 0:
		a.hi, a.lo = 0, 0
	default:
		a.hi &= ^uint64(0) << (64 - uint(ln))
		a.lo = 0
	}
	return a
}

func flipBit(a hIP, k int) hIP {
	if a.v4 {
		if k < 32 {
			a.lo ^= 1 << (31 - uint(k))
		}
		return a
	}
	if k < 64 {
		a.hi ^= 1 << (63 - uint(k))
	} else if k < 128 {
		a.lo ^= 1 << (127 - uint(k))
	}
	return a
}

func genBaseIP(r *hx.RNG, v4 bool) hIP {
	if v4 {
		return hIP{v4: true, lo: uint64(v4Bases[r.Intn(len(v4Bases))])}
	}
	b := v6Bases[r.Intn(len(v6Bases))]
	return hIP{hi: b[0], lo: b[1]}
}

func genLen(r *hx.RNG, v4 bool) int {
	if v4 {
		return v4Lens[r.Intn(len(v4Lens))]
	}
	return v6Lens[r.Intn(len(v6Lens))]
}

// genPattern: mostly canonical prefixes; a few with host bits or an over-long length (these are
// outside the spec's domain and only exercise the model/implementation tie)
func genPattern(r *hx.RNG, t *hx.Trace) hPfx {
	v4 := r.Chance(45)
	ip := genBaseIP(r, v4)
	ln := genLen(r, v4)
	switch c := r.Intn(1000); {
	case c < 970:
		return hPfx{ip: maskTo(ip, ln), ln: ln}
	case c < 993:
		t.Count("pattern_hostbits")
		return hPfx{ip: ip, ln: ln}
	default:
		t.Count("pattern_overlong")
		return hPfx{ip: maskTo(ip, ln), ln: width(ip) + 1 + r.Intn(8)}
	}
}

func genMatcher(r *hx.RNG, pat hPfx) hMatcher {
	k := r.Intn(4)
	if k < 3 {
		return hMatcher{kind: k}
	}
	w := width(pat.ip)
	mins := []int{pat.ln, pat.ln + 1, pat.ln - 1, 0, pat.ln + 8}
	mn := mins[r.Intn(len(mins))]
	if mn < 0 {
		mn = 0
	}
	maxs := []int{mn, mn + 1, mn + 8, w, w - 1, 255, pat.ln}
	mx := maxs[r.Intn(len(maxs))]
	if mx < 0 {
		mx = 0
	}
	if mx > 255 {
		mx = 255
	}
	if mn > 255 {
		mn = 255
	}
	return hMatcher{kind: 3, min: mn, max: mx}
}

func genTimes(r *hx.RNG, t *hx.Trace) uint16 {
	switch c := r.Intn(3000); {
	case c == 0:
		t.Count("prepend_65535")
		return 65535
	case c < 40:
		t.Count("prepend_long")
		return []uint16{254, 255, 256, 300, 511}[r.Intn(5)]
	default:
		return uint16(r.Intn(4))
	}
}

func genAct(r *hx.RNG, t *hx.Trace) hAct {
	switch k := r.Intn(12); {
	case k < 2:
		return hAct{kind: 0}
	case k < 4:
		return hAct{kind: 1}
	case k < 6:
		return hAct{kind: 2, v: lpPool[r.Intn(len(lpPool))]}
	case k < 8:
		return hAct{kind: 3, v: medPool[r.Intn(len(medPool))]}
	case k < 10:
		return hAct{kind: 4, ip: nhPool[r.Intn(len(nhPool))]}
	default:
		return hAct{kind: 5, v: asnPool[r.Intn(len(asnPool))], times: genTimes(r, t)}
	}
}

func genCond(r *hx.RNG, t *hx.Trace, pool []hPfx) hCond {
	cd := hCond{}
	if r.Chance(30) {
		for i, n := 0, 1+r.Intn(2); i < n; i++ {
			l := hPL{}
			for j, m := 0, 1+r.Intn(2); j < m; j++ {
				if r.Chance(60) {
					l.allowed = append(l.allowed, pool[r.Intn(len(pool))])
				} else {
					l.allowed = append(l.allowed, genPattern(r, t))
				}
			}
			l.m = genMatcher(r, l.allowed[0])
			if r.Chance(40) {
				l.m = hMatcher{kind: 0}
			}
			cd.pls = append(cd.pls, l)
		}
	}
	if r.Chance(65) {
		for i, n := 0, 1+r.Intn(3); i < n; i++ {
			idx := r.Intn(len(pool))
			cd.rfs = append(cd.rfs, hRF{pat: idx, m: genMatcher(r, pool[idx])})
		}
	}
	if r.Chance(22) {
		for i, n := 0, 1+r.Intn(2); i < n; i++ {
			cd.cfs = append(cd.cfs, commPool[r.Intn(len(commPool))])
		}
	}
	if r.Chance(18) {
		for i, n := 0, 1+r.Intn(2); i < n; i++ {
			cd.lcfs = append(cd.lcfs, lcommPool[r.Intn(len(lcommPool))])
		}
	}
	if r.Chance(22) {
		for i, n := 0, 1+r.Intn(2); i < n; i++ {
			cd.protos = append(cd.protos, protoPool[r.Intn(len(protoPool))])
		}
	}
	return cd
}

func genChain(r *hx.RNG, t *hx.Trace, pool []hPfx) hChain {
	nf := 1 + r.Intn(3)
	if r.Chance(2) {
		nf = 0
	}
	c := make(hChain, nf)
	for i := range c {
		nt := 1 + r.Intn(3)
		if r.Chance(2) {
			nt = 0
		}
		c[i] = make(hFilter, nt)
		for j := range c[i] {
			tm := hTerm{}
			nc := r.Intn(3)
			if r.Chance(50) {
				nc = 1
			}
			for k := 0; k < nc; k++ {
				tm.from = append(tm.from, genCond(r, t, pool))
			}
			for k, na := 0, r.Intn(4); k < na; k++ {
				tm.then = append(tm.then, genAct(r, t))
			}
			// terms that terminate are mostly conditional, otherwise later terms are dead
			if nc == 0 && r.Chance(70) {
				var keep []hAct
				for _, a := range tm.then {
					if a.kind > 1 {
						keep = append(keep, a)
					}
				}
				tm.then = keep
			}
			c[i][j] = tm
		}
	}
	return c
}

func cloneChain(c hChain) hChain {
	d := make(hChain, len(c))
	for i, f := range c {
		d[i] = make(hFilter, len(f))
		for j, t := range f {
			nt := hTerm{from: make([]hCond, len(t.from)), then: append([]hAct{}, t.then...)}
			for k, cd := range t.from {
				nc := hCond{rfs: append([]hRF{}, cd.rfs...), cfs: append([]uint32{}, cd.cfs...),
					lcfs: append([][3]uint32{}, cd.lcfs...), protos: append([]uint8{}, cd.protos...)}
				for _, l := range cd.pls {
					nc.pls = append(nc.pls, hPL{m: l.m, allowed: append([]hPfx{}, l.allowed...)})
				}
				nt.from[k] = nc
			}
			d[i][j] = nt
		}
	}
	return d
}

func otherOf[T comparable](r *hx.RNG, pool []T, cur T) T {
	for i := 0; i < 8; i++ {
		if x := pool[r.Intn(len(pool))]; x != cur {
			return x
		}
	}
	return cur
}

func mutMatcher(r *hx.RNG, m hMatcher) (hMatcher, string) {
	if m.kind == 3 && r.Chance(60) {
		if r.Bool() {
			if m.min < 255 {
				m.min++
			} else {
				m.min--
			}
			return m, "matcher-range-min"
		}
		if m.max > 0 {
			m.max--
		} else {
			m.max++
		}
		return m, "matcher-range-max"
	}
	k := (m.kind + 1 + r.Intn(3)) % 4
	if k == 3 {
		return hMatcher{kind: 3, min: 0, max: 255}, "matcher-kind"
	}
	return hMatcher{kind: k}, "matcher-kind"
}

// mutate returns a copy of c that differs in exactly one leaf, and the leaf's tag
func mutate(r *hx.RNG, t *hx.Trace, pool []hPfx, c hChain) (hChain, string) {
	d := cloneChain(c)
	type site func() string
	var sites []site
	for i := range d {
		i := i
		if len(d) > 1 {
			sites = append(sites, func() string { d = append(d[:i:i], d[i+1:]...); return "filter-drop" })
		}
		for j := range d[i] {
			j := j
			tm := &d[i][j]
			if len(d[i]) > 1 {
				sites = append(sites, func() string { d[i] = append(d[i][:j:j], d[i][j+1:]...); return "term-drop" })
			}
			for k := range tm.then {
				k := k
				a := &tm.then[k]
				switch a.kind {
				case 0:
					sites = append(sites, func() string { a.kind = 1; return "accept-vs-reject" })
				case 1:
					sites = append(sites, func() string { a.kind = 0; return "accept-vs-reject" })
				case 2:
					sites = append(sites, func() string { a.v = otherOf(r, lpPool, a.v); return "local-pref" })
					sites = append(sites, func() string { a.kind = 3; return "action-kind" })
				case 3:
					sites = append(sites, func() string { a.v = otherOf(r, medPool, a.v); return "med" })
					sites = append(sites, func() string { a.kind = 2; return "action-kind" })
				case 4:
					sites = append(sites, func() string { a.ip = otherOf(r, nhPool, a.ip); return "next-hop" })
				case 5:
					sites = append(sites, func() string { a.v = otherOf(r, asnPool, a.v); return "prepend-asn" })
					sites = append(sites, func() string { a.times++; return "prepend-times" })
				}
				sites = append(sites, func() string { tm.then = append(tm.then[:k:k], tm.then[k+1:]...); return "action-drop" })
			}
			sites = append(sites, func() string { tm.then = append(tm.then, genAct(r, t)); return "action-add" })
			for k := range tm.from {
				k := k
				cd := &tm.from[k]
				sites = append(sites, func() string { tm.from = append(tm.from[:k:k], tm.from[k+1:]...); return "condition-drop" })
				for x := range cd.pls {
					x := x
					l := &cd.pls[x]
					sites = append(sites, func() string { var s string; l.m, s = mutMatcher(r, l.m); return "prefix-list-" + s })
					sites = append(sites, func() string {
						y := r.Intn(len(l.allowed))
						q := l.allowed[y]
						if q.ln > 0 && r.Bool() {
							q.ip = flipBit(q.ip, r.Intn(q.ln))
						} else if q.ln < width(q.ip) {
							q.ln++
						} else {
							q.ln--
							q.ip = maskTo(q.ip, q.ln)
						}
						l.allowed[y] = q
						return "prefix-list-prefix"
					})
					sites = append(sites, func() string { cd.pls = append(cd.pls[:x:x], cd.pls[x+1:]...); return "prefix-list-drop" })
				}
				for x := range cd.rfs {
					x := x
					f := &cd.rfs[x]
					sites = append(sites, func() string { var s string; f.m, s = mutMatcher(r, f.m); return "route-filter-" + s })
					sites = append(sites, func() string {
						if len(pool) > 1 {
							f.pat = (f.pat + 1 + r.Intn(len(pool)-1)) % len(pool)
						}
						return "route-filter-pattern"
					})
					sites = append(sites, func() string { cd.rfs = append(cd.rfs[:x:x], cd.rfs[x+1:]...); return "route-filter-drop" })
				}
				for x := range cd.cfs {
					x := x
					sites = append(sites, func() string { cd.cfs[x] = otherOf(r, commPool, cd.cfs[x]); return "community-filter" })
					sites = append(sites, func() string { cd.cfs = append(cd.cfs[:x:x], cd.cfs[x+1:]...); return "community-filter-drop" })
				}
				for x := range cd.lcfs {
					x := x
					sites = append(sites, func() string { cd.lcfs[x] = otherOf(r, lcommPool, cd.lcfs[x]); return "large-community-filter" })
					sites = append(sites, func() string { cd.lcfs = append(cd.lcfs[:x:x], cd.lcfs[x+1:]...); return "large-community-filter-drop" })
				}
				for x := range cd.protos {
					x := x
					sites = append(sites, func() string { cd.protos[x] = otherOf(r, protoPool, cd.protos[x]); return "protocol" })
					sites = append(sites, func() string { cd.protos = append(cd.protos[:x:x], cd.protos[x+1:]...); return "protocol-drop" })
				}
				sites = append(sites, func() string { cd.protos = append(cd.protos, protoPool[r.Intn(len(protoPool))]); return "protocol-add" })
				sites = append(sites, func() string { cd.cfs = append(cd.cfs, commPool[r.Intn(len(commPool))]); return "community-filter-add" })
				sites = append(sites, func() string {
					cd.pls = append(cd.pls, hPL{m: hMatcher{kind: r.Intn(3)}, allowed: []hPfx{pool[r.Intn(len(pool))]}})
					return "prefix-list-add"
				})
			}
		}
	}
	if len(sites) == 0 {
		return d, "same"
	}
	return d, sites[r.Intn(len(sites))]()
}

// leaves collects the prefixes / communities / protocols the chains mention, to aim the inputs
type leaves struct {
	pats   []hPfx
	comms  []uint32
	lcomms [][3]uint32
	protos []uint8
}

func collect(pool []hPfx, cs ...hChain) leaves {
	var l leaves
	for _, c := range cs {
		for _, f := range c {
			for _, t := range f {
				for _, cd := range t.from {
					for _, pl := range cd.pls {
						l.pats = append(l.pats, pl.allowed...)
					}
					for _, rf := range cd.rfs {
						l.pats = append(l.pats, pool[rf.pat])
					}
					l.comms = append(l.comms, cd.cfs...)
					l.lcomms = append(l.lcomms, cd.lcfs...)
					l.protos = append(l.protos, cd.protos...)
				}
			}
		}
	}
	return l
}

func genPrefix(r *hx.RNG, t *hx.Trace, lv leaves) hPfx {
	if len(lv.pats) == 0 || r.Chance(12) {
		t.Count("pfx_random")
		return genPattern(r, t)
	}
	pat := lv.pats[r.Intn(len(lv.pats))]
	w := width(pat.ip)
	p := pat
	switch c := r.Intn(100); {
	case c < 15:
		t.Count("pfx_same")
	case c < 50:
		t.Count("pfx_longer")
		ds := []int{1, 1, 2, 7, 8, 9, 16, w - pat.ln}
		p.ln = pat.ln + ds[r.Intn(len(ds))]
		if p.ln > w {
			p.ln = w
		}
		if r.Chance(60) { // random bits below the pattern
			x := genBaseIP(r, pat.ip.v4)
			for k := pat.ln; k < p.ln; k++ {
				if bitAt(x, k) != bitAt(p.ip, k) {
					p.ip = flipBit(p.ip, k)
				}
			}
		}
	case c < 60:
		t.Count("pfx_shorter")
		if pat.ln > 0 {
			p.ln = pat.ln - 1 - r.Intn(minInt(pat.ln, 8))
			if p.ln < 0 {
				p.ln = 0
			}
		}
		p.ip = maskTo(p.ip, p.ln)
	case c < 80:
		t.Count("pfx_flip_inside")
		if pat.ln > 0 {
			ks := []int{pat.ln - 1, 0, r.Intn(pat.ln), minInt(pat.ln-1, 32), minInt(pat.ln-1, 63), minInt(pat.ln-1, 64)}
			p.ip = flipBit(p.ip, ks[r.Intn(len(ks))])
		}
		if r.Bool() && p.ln < w {
			p.ln += 1 + r.Intn(minInt(w-p.ln, 8))
		}
	case c < 90:
		t.Count("pfx_flip_just_outside")
		if pat.ln < w {
			p.ln = pat.ln + 1 + r.Intn(minInt(w-pat.ln, 4))
			p.ip = flipBit(p.ip, pat.ln)
		}
	default:
		t.Count("pfx_cross_family")
		if pat.ip.v4 {
			p.ip = hIP{hi: []uint64{0, 0x20010db800000000}[r.Intn(2)], lo: pat.ip.lo}
			p.ln = []int{pat.ln, pat.ln + 96, 128, pat.ln + 1}[r.Intn(4)]
		} else {
			p.ip = hIP{v4: true, lo: pat.ip.lo & 0xffffffff}
			p.ln = []int{minInt(pat.ln, 32), 32, minInt(pat.ln+1, 32), 24}[r.Intn(4)]
		}
		if p.ln > width(p.ip) {
			p.ln = width(p.ip)
		}
		p.ip = maskTo(p.ip, p.ln)
		return p
	}
	if r.Chance(96) {
		p.ip = maskTo(p.ip, p.ln)
	} else {
		t.Count("pfx_hostbits")
	}
	return p
}

func minInt(a, b int) int {
	if a < b {
		return a
	}
	return b
}

func genASPath(r *hx.RNG, t *hx.Trace) (bool, []hSeg) {
	switch c := r.Intn(100); {
	case c < 12:
		t.Count("aspath_nil")
		return true, nil
	case c < 22:
		t.Count("aspath_empty")
		return false, []hSeg{}
	case c < 24:
		t.Count("aspath_full_segment")
		n := []int{254, 255, 253}[r.Intn(3)]
		asns := make([]uint32, n)
		for i := range asns {
			asns[i] = uint32(64512 + i)
		}
		segs := []hSeg{{ty: 2, asns: asns}}
		if r.Bool() {
			segs = append(segs, hSeg{ty: 1, asns: []uint32{1, 2}})
		}
		return false, segs
	case c < 25:
		t.Count("aspath_255_segments")
		n := []int{254, 255, 256}[r.Intn(3)]
		segs := make([]hSeg, n)
		for i := range segs {
			segs[i] = hSeg{ty: 2, asns: []uint32{uint32(i + 1)}}
		}
		return false, segs
	}
	n := 1 + r.Intn(3)
	segs := make([]hSeg, n)
	for i := range segs {
		ty := uint8(2)
		switch c := r.Intn(10); {
		case c < 3:
			ty = 1
		case c == 3:
			ty = 3
		}
		asns := make([]uint32, r.Intn(4))
		for j := range asns {
			asns[j] = asnPool[r.Intn(len(asnPool))] + uint32(r.Intn(2))
		}
		segs[i] = hSeg{ty: ty, asns: asns}
	}
	return false, segs
}

func genPath(r *hx.RNG, t *hx.Trace, lv leaves) hPath {
	p := hPath{asNil: true, cNil: true, lcNil: true, stNil: true}
	kind := r.Intn(100)
	switch {
	case kind < 62:
		p.typ, p.hasBGP = 2, true
		t.Count("path_bgp")
	case kind < 78:
		p.typ, p.stNil = 1, false
		t.Count("path_static")
		if r.Chance(85) {
			ip := nhPool[r.Intn(len(nhPool))]
			p.stNH = &ip
		}
	case kind < 84:
		p.typ = uint8(3 + r.Intn(3))
		t.Count("path_other_type")
	case kind < 88:
		p.typ = 2 // BGP type without BGP part
		t.Count("path_bgp_type_nil_bgppath")
	case kind < 92:
		p.typ, p.stNil = 1, true // static type without static part
		t.Count("path_static_type_nil_staticpath")
	case kind < 96:
		p.typ, p.hasBGP, p.stNil = 1, true, false // static type carrying a BGP part too
		ip := nhPool[0]
		p.stNH = &ip
		t.Count("path_static_with_bgp_part")
	default:
		p.typ, p.hasBGP = uint8(3+r.Intn(2)), true
		t.Count("path_other_type_with_bgp_part")
	}
	if len(lv.protos) > 0 && r.Chance(25) && !p.hasBGP && p.stNil {
		p.typ = lv.protos[r.Intn(len(lv.protos))]
	}
	if !p.hasBGP {
		return p
	}
	p.hasA = true
	if r.Chance(3) {
		p.hasA = false
		t.Count("path_nil_bgppatha")
	}
	p.lp, p.med = lpPool[r.Intn(len(lpPool))], medPool[r.Intn(len(medPool))]
	if r.Chance(75) {
		ip := nhPool[r.Intn(len(nhPool))]
		p.nh = &ip
	}
	p.asNil, p.as = genASPath(r, t)
	p.asLen = pathLen(p.as)
	if r.Chance(6) {
		p.asLen = uint16(r.Intn(9))
	}
	switch c := r.Intn(100); {
	case c < 25:
		t.Count("communities_nil")
	case c < 35:
		p.cNil, p.comms = false, []uint32{}
		t.Count("communities_empty")
	default:
		p.cNil = false
		src := commPool
		if len(lv.comms) > 0 && r.Chance(60) {
			src = lv.comms
		}
		for i, n := 0, 1+r.Intn(3); i < n; i++ {
			p.comms = append(p.comms, src[r.Intn(len(src))])
		}
	}
	switch c := r.Intn(100); {
	case c < 40:
	case c < 50:
		p.lcNil, p.lcomms = false, [][3]uint32{}
	default:
		p.lcNil = false
		src := lcommPool
		if len(lv.lcomms) > 0 && r.Chance(60) {
			src = lv.lcomms
		}
		for i, n := 0, 1+r.Intn(2); i < n; i++ {
			p.lcomms = append(p.lcomms, src[r.Intn(len(src))])
		}
	}
	return p
}

func genCase(r *hx.RNG, t *hx.Trace) *hCase {
	c := &hCase{}
	for i, n := 0, 2+r.Intn(4); i < n; i++ {
		if i > 0 && r.Chance(20) {
			c.pool = append(c.pool, c.pool[r.Intn(len(c.pool))]) // same value, different pointer
		} else {
			c.pool = append(c.pool, genPattern(r, t))
		}
	}
	c.c = genChain(r, t, c.pool)
	switch k := r.Intn(100); {
	case k < 30:
		c.d, c.leaf = cloneChain(c.c), "same"
	case k < 92:
		c.d, c.leaf = mutate(r, t, c.pool, c.c)
	default:
		c.d, c.leaf = genChain(r, t, c.pool), "random"
	}
	t.Count("pair_" + c.leaf)
	lv := collect(c.pool, c.c, c.d)
	for i, n := 0, 4+r.Intn(5); i < n; i++ {
		c.inputs = append(c.inputs, hInput{pfx: genPrefix(r, t, lv), path: genPath(r, t, lv)})
	}
	t.Count(fmt.Sprintf("filters_%d", len(c.c)))
	return c
}
