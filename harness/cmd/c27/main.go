// C27 harness: byte streams against one BMP router session (Router.serve on an in-memory connection).
//
// Input tokens:   cfg=<ignored ASNs|->/<ignorePre><ignorePost>  s=<hex byte stream>
// Observation:    F|<state digest>            after every message handed to processMsg
//
//	END|<end|PANIC:..>|<frames>|<state digest>   when serve returns (after cleanup)
//	S|<counters>|<end|PANIC..>  Router.serve itself on a fresh router, same stream
//	O:<open>=..  U:<opts>:<bgp>=..   results of the (abstract) BGP layer, see bmpx.Ann
//
// Every case runs in a worker process with a bounded address space and under a watchdog, so that a
// hostile allocation or a wedged session is an observation (FATAL / WEDGED), not the end of the run.
// Spec oracle (the property's own statement on the implementation): no panic, no fatal error, no
// wedge, bytes allocated while serving within a generous multiple of the proven linear bound.
package main

import (
	"bufio"
	"encoding/hex"
	"fmt"
	"io"
	"os"
	"os/exec"
	"runtime"
	"runtime/debug"
	"strings"
	"syscall"
	"time"

	"github.com/bio-routing/bio-rd/protocols/bgp/server"
	biolog "github.com/bio-routing/bio-rd/util/log"
	"github.com/sirupsen/logrus"

	"verifharness/bmpx"
	"verifharness/hx"
)

const (
	workerEnv   = "C27_WORKER"
	caseTimeout = 8 * time.Second
	// proven (Properties/C27.v, C27_alloc_proportional): BMP-layer allocation <= 8*L + 5800*(frames+1);
	// the measured figure also contains everything the BGP layer, the RIBs and logging allocate
	allocPerByte  = 8
	allocPerFrame = 5800
	allocSlack    = 48
	allocFloor    = 1 << 20
	maxViolations = 12
)

func quiet() {
	l := logrus.New()
	l.Out = io.Discard
	l.SetLevel(logrus.PanicLevel)
	biolog.SetLogger(biolog.NewLogrusWrapper(l))
}

// ---------------------------------------------------------------- worker

type result struct {
	obs    string
	frames int
	sig    string
	detail string
	alloc  uint64
}

func panicClass(stack string) string {
	for _, m := range []string{"fsm_address_family.go", "bgp/packet", "routingtable/adjRIBIn", "routingtable/locRIB", "/route/", "fsm_established.go"} {
		if strings.Contains(stack, m) {
			return "bgp-layer"
		}
	}
	return "bmp-layer"
}

func runCase(c bmpx.Cfg, stream []byte) (res result) {
	var toks []string
	s := bmpx.NewSession(c)
	s.V.Feed(stream)
	var end string
	var stack string
	func() {
		defer func() {
			if r := recover(); r != nil {
				end = "PANIC:harness:" + fmt.Sprint(r)
			}
		}()
		end = s.Pump(true, func() { toks = append(toks, "F|"+bmpx.Digest(s.V)) })
	}()
	toks = append(toks, fmt.Sprintf("END|%s|%d|%s", end, s.Frames, bmpx.Digest(s.V)))
	res.frames = s.Frames

	// second pass: Router.serve itself, measured
	v := server.VerifBMPNew(c.Router())
	var ms0, ms1 runtime.MemStats
	sres := "end"
	runtime.ReadMemStats(&ms0)
	func() {
		defer func() {
			if r := recover(); r != nil {
				stack = string(debug.Stack())
				sres = "PANIC"
			}
		}()
		v.Serve(stream)
	}()
	runtime.ReadMemStats(&ms1)
	res.alloc = ms1.TotalAlloc - ms0.TotalAlloc
	cs := strings.SplitN(bmpx.Digest(v), "|", 2)[0]
	toks = append(toks, fmt.Sprintf("S|%s|%s", cs, sres))
	toks = append(toks, s.Ann.Toks...)
	res.obs = strings.Join(toks, " ")

	switch {
	case strings.HasPrefix(end, "PANIC") || sres == "PANIC":
		cl := panicClass(stack)
		res.sig = "panic-" + cl
		res.detail = end
	case s.Ann.InnerPanic != "":
		res.sig = "panic-bgp-layer"
		res.detail = "update processing panics for " + s.Ann.InnerPanic
	case len(s.V.Neighbors()) != 0 || len(s.V.VRFs()) != 0:
		res.sig = "state-left-after-session-end"
		res.detail = bmpx.Digest(s.V)
	default:
		bound := uint64(allocPerByte*len(stream) + allocPerFrame*(s.Frames+1))
		if res.alloc > allocSlack*bound+allocFloor {
			res.sig = "alloc-disproportionate"
			res.detail = fmt.Sprintf("allocated %d bytes for %d bytes received in %d messages (proven BMP-layer bound %d)", res.alloc, len(stream), s.Frames, bound)
		}
	}
	return res
}

func worker() {
	quiet()
	// bound the address space: a hostile allocation must fail here, not exhaust the sandbox
	lim := syscall.Rlimit{Cur: 3 << 29, Max: 3 << 29} // 1.5 GiB
	syscall.Setrlimit(syscall.RLIMIT_AS, &lim)
	debug.SetGCPercent(100)
	in := bufio.NewReaderSize(os.Stdin, 1<<20)
	out := bufio.NewWriter(os.Stdout)
	for {
		line, err := in.ReadString('\n')
		if err != nil {
			return
		}
		p := strings.Fields(line)
		if len(p) != 2 {
			fmt.Fprintf(out, "BAD\n")
			out.Flush()
			continue
		}
		c, err1 := bmpx.ParseCfg(p[0])
		stream, err2 := hex.DecodeString(strings.TrimPrefix(p[1], "s="))
		if err1 != nil || err2 != nil {
			fmt.Fprintf(out, "BAD\n")
			out.Flush()
			continue
		}
		r := runCase(c, stream)
		fmt.Fprintf(out, "R\x1f%s\x1f%d\x1f%s\x1f%s\x1f%d\n", r.obs, r.frames, r.sig, strings.ReplaceAll(r.detail, "\n", " "), r.alloc)
		out.Flush()
	}
}

// ---------------------------------------------------------------- supervisor

type sup struct {
	cmd *exec.Cmd
	in  io.WriteCloser
	out *bufio.Reader
}

func (s *sup) start() error {
	s.cmd = exec.Command(os.Args[0])
	s.cmd.Env = append(os.Environ(), workerEnv+"=1", "GOTRACEBACK=none")
	s.cmd.Stderr = io.Discard
	in, err := s.cmd.StdinPipe()
	if err != nil {
		return err
	}
	o, err := s.cmd.StdoutPipe()
	if err != nil {
		return err
	}
	s.in, s.out = in, bufio.NewReaderSize(o, 1<<20)
	return s.cmd.Start()
}

func (s *sup) stop() {
	if s.cmd != nil && s.cmd.Process != nil {
		s.in.Close()
		s.cmd.Process.Kill()
		s.cmd.Wait()
	}
	s.cmd = nil
}

// run returns the worker's answer, or obs "FATAL"/"WEDGED" when it died / did not answer in time.
func (s *sup) run(input string) result {
	if s.cmd == nil {
		if err := s.start(); err != nil {
			fmt.Println("HARNESS-ERROR cannot start worker:", err)
			os.Exit(2)
		}
	}
	type ans struct {
		line string
		err  error
	}
	ch := make(chan ans, 1)
	go func() {
		if _, err := io.WriteString(s.in, input+"\n"); err != nil {
			ch <- ans{"", err}
			return
		}
		l, err := s.out.ReadString('\n')
		ch <- ans{l, err}
	}()
	select {
	case a := <-ch:
		if a.err != nil || !strings.HasPrefix(a.line, "R\x1f") {
			s.stop()
			return result{obs: "FATAL", sig: "fatal-crash", detail: "the process serving the stream died (fatal runtime error, e.g. out of memory)"}
		}
		f := strings.Split(strings.TrimSuffix(a.line, "\n"), "\x1f")
		var r result
		r.obs, r.sig, r.detail = f[1], f[3], f[4]
		fmt.Sscan(f[2], &r.frames)
		fmt.Sscan(f[5], &r.alloc)
		return r
	case <-time.After(caseTimeout):
		s.stop()
		return result{obs: "WEDGED", sig: "wedged", detail: fmt.Sprintf("no answer within %v", caseTimeout)}
	}
}

// ---------------------------------------------------------------- generator

func info(n int, r *hx.RNG) []byte {
	b := make([]byte, n)
	for i := range b {
		b[i] = byte('a' + r.Intn(26))
	}
	return b
}

func hostileBGP(r *hx.RNG, p bmpx.Peer) ([]byte, string) {
	switch r.Intn(17) {
	case 14:
		// NLRI without NEXT_HOP: the attribute is retyped to an unknown optional one
		b := bmpx.UpdateForV(p, nil, []bmpx.NLRI{bmpx.Pfx4(r.Intn(4), bmpx.PathID(p, false, r))}, "plain")
		for _, o := range bmpx.AttrLenOffsets(b) {
			if b[o-1] == 3 {
				b[o-2], b[o-1] = 0xc0, 200
			}
		}
		return b, "rm_missing_nexthop"
	case 15, 16:
		// IPv6 prefix with host bits set
		x := bmpx.Pfx6(r.Intn(3), bmpx.PathID(p, true, r))
		x.Len = 44
		x.Addr[5] |= 0x0f
		return bmpx.UpdateForV(p, nil, []bmpx.NLRI{x}, bmpx.PickVariant(r)), "rm_hostbits6"
	case 11, 12, 13:
		// one path attribute's length off by a little (the value then overlaps its neighbours)
		var an []bmpx.NLRI
		if r.Bool() {
			an = append(an, bmpx.Pfx4(r.Intn(4), bmpx.PathID(p, false, r)))
		}
		if r.Bool() || len(an) == 0 {
			an = append(an, bmpx.Pfx6(r.Intn(3), bmpx.PathID(p, true, r)))
		}
		b := bmpx.UpdateForV(p, nil, an, bmpx.PickVariant(r))
		if offs := bmpx.AttrLenOffsets(b); len(offs) > 0 {
			o := offs[r.Intn(len(offs))]
			b[o] = byte(int(b[o]) + r.Pick([]int{1, -1, 2, 4, -4}))
		}
		return b, "rm_attrlen"
	case 0:
		return nil, "rm_empty"
	case 1:
		_, o := p.Opens(false)
		return o, "rm_open"
	case 2:
		return bmpx.BGPMsg(3, []byte{6, 0}), "rm_notification"
	case 3:
		return bmpx.BGPMsg(4, nil), "rm_keepalive"
	case 4:
		return bmpx.BGPMsg(5, []byte{0, 1, 0, 1}), "rm_routerefresh"
	case 5:
		return bmpx.BGPMsg(byte(r.Pick([]int{0, 6, 7, 255})), nil), "rm_badtype"
	case 6:
		b := bmpx.BGPMsg(2, []byte{0, 0, 0, 0})
		return b[:r.Intn(len(b))], "rm_truncated"
	case 7:
		b := bmpx.BGPMsg(2, []byte{0, 0, 0, 0})
		b[r.Intn(16)] = 0
		return b, "rm_badmarker"
	case 8:
		b := bmpx.UpdateFor(p, nil, []bmpx.NLRI{bmpx.Pfx4(0, 0)})
		b[16], b[17] = byte(r.Intn(2)), byte(r.Intn(256))
		return b, "rm_badlen"
	case 9:
		return bmpx.BGPMsg(2, []byte{0, 0, 0, 0}), "rm_endofrib"
	default:
		b := bmpx.UpdateFor(p, nil, []bmpx.NLRI{bmpx.Pfx4(1, 0)})
		return b[:19+r.Intn(len(b)-19)], "rm_cut_update"
	}
}

func genConv(r *hx.RNG, tr *hx.Trace) (*bmpx.Conv, bmpx.Cfg) {
	var cfg bmpx.Cfg
	pool := bmpx.PeerPool(r)
	switch r.Intn(10) {
	case 0:
		cfg.IgnorePre = true
	case 1:
		cfg.IgnorePost = true
	case 2, 3:
		cfg.IgnoreASNs = []uint32{pool[r.Intn(len(pool))].AS}
	}
	c := &bmpx.Conv{}
	up := map[int]bool{}
	if r.Chance(85) {
		c.Initiation([]bmpx.TLV{{Type: 1, Info: info(r.Intn(8), r)}, {Type: 2, Info: info(1+r.Intn(6), r)}})
	}
	n := 2 + r.Intn(9)
	for i := 0; i < n; i++ {
		pi := r.Intn(len(pool))
		p := pool[pi]
		k := r.Intn(100)
		switch {
		case k < 22:
			if up[pi] && r.Chance(70) {
				k = 30 // prefer route monitoring for a peer that is up
			} else {
				var inf []byte
				if r.Chance(20) {
					inf = info(r.Intn(12), r)
				}
				q := p
				switch r.Intn(12) {
				case 0:
					q.AS++ // OPEN disagrees with the per peer header (below: header keeps p.AS)
					sent, rcvd := q.Opens(false)
					c.PeerUpRaw(p, sent, rcvd, inf)
					tr.Count("op_peerup_as_mismatch")
					continue
				case 1:
					q.AS = 23456 // AS_TRANS without / with a disagreeing ASN4 capability
					q.ASN4 = r.Bool()
					sent, rcvd := q.Opens(false)
					c.PeerUpRaw(p, sent, rcvd, inf)
					tr.Count("op_peerup_astrans")
					continue
				}
				c.PeerUp(p, r.Chance(30), inf)
				up[pi] = true
				tr.Count("op_peerup")
				continue
			}
			fallthrough
		case k < 62:
			var wd, an []bmpx.NLRI
			for j := 0; j < 1+r.Intn(2); j++ {
				v6 := r.Chance(30)
				id := bmpx.PathID(p, v6, r)
				var x bmpx.NLRI
				if v6 {
					x = bmpx.Pfx6(r.Intn(3), id)
				} else {
					x = bmpx.Pfx4(r.Intn(4), id)
				}
				if r.Chance(35) {
					wd = append(wd, x)
				} else {
					an = append(an, x)
				}
			}
			c.RouteMon(p, r.Chance(40), bmpx.UpdateForV(p, wd, an, bmpx.PickVariant(r)))
			tr.Count("op_routemon")
		case k < 70:
			b, what := hostileBGP(r, p)
			c.RouteMon(p, r.Bool(), b)
			tr.Count("op_" + what)
		case k < 76:
			ts := []bmpx.TLV{{Type: 0, Info: []byte{0, 0, 0, byte(r.Intn(9))}}, {Type: 7, Info: info(8, r)}}
			cnt := uint32(len(ts))
			if r.Chance(35) {
				// a count whose product with the element size (4: TLV header, 8: pointer) is congruent to the
				// bytes that really follow, modulo 2^32
				ts = nil
				j := r.Intn(3)
				for x := 0; x < j; x++ {
					ts = append(ts, bmpx.TLV{Type: x})
				}
				if r.Bool() {
					cnt = uint32((1+r.Intn(3))<<30 + j)
				} else {
					cnt = uint32((1+r.Intn(7))<<29 + j/2)
				}
				tr.Count("op_stats_wrapcount")
			}
			c.Stats(p, cnt, ts)
			tr.Count("op_stats")
		case k < 80:
			c.Mirror(p, []bmpx.TLV{{Type: 0, Info: bmpx.BGPMsg(4, nil)}, {Type: 1, Info: []byte{0, byte(r.Intn(2))}}})
			tr.Count("op_mirror")
		case k < 90:
			reason := byte(r.Pick([]int{1, 2, 3, 4, 5, 0, 6}))
			var data []byte
			switch reason {
			case 1, 3:
				data = bmpx.BGPMsg(3, []byte{6, 2})
			case 2:
				data = []byte{0, 1}
			}
			if r.Chance(15) {
				data = nil
			}
			c.PeerDown(p, reason, data)
			up[pi] = false
			tr.Count("op_peerdown")
		case k < 94:
			c.Initiation([]bmpx.TLV{{Type: 2, Info: info(1+r.Intn(4), r)}, {Type: 0, Info: info(r.Intn(5), r)}})
			tr.Count("op_init")
		case k < 97:
			// big frame around the receive buffer boundaries
			sz := r.Pick([]int{4080, 4081, 4082, 4083, 4090, 8170, 8178, 8179, 8180, 9000, 12300})
			c.Initiation([]bmpx.TLV{{Type: 0, Info: info(sz, r)}, {Type: 2, Info: info(3, r)}})
			tr.Count("op_bigframe")
		default:
			var ts []bmpx.TLV
			if r.Chance(50) {
				ts = append(ts, bmpx.TLV{Type: 0, Info: info(r.Intn(6), r)})
			}
			if r.Chance(85) {
				ts = append(ts, bmpx.TLV{Type: 1, Info: make([]byte, r.Pick([]int{2, 2, 2, 0, 1, 3}))})
			}
			c.Termination(ts)
			tr.Count("op_termination")
		}
	}
	return c, cfg
}

func put(b []byte, off, width int, v uint64) {
	for i := 0; i < width; i++ {
		if off+i < len(b) {
			b[off+i] = byte(v >> (8 * uint(width-1-i)))
		}
	}
}
func get(b []byte, off, width int) uint64 {
	var v uint64
	for i := 0; i < width; i++ {
		if off+i < len(b) {
			v = v<<8 | uint64(b[off+i])
		}
	}
	return v
}

// wrap32 / wrap16: the arithmetic-wrap family of a 32 / 16 bit length or count field: values whose
// product with an element size (4: TLV header, 8: pointer, 2, 1) or whose sum with a header size is
// congruent to 0..near modulo 2^32 / 2^16, next to the powers of two and their neighbours.
func wrap32(r *hx.RNG, near int) int {
	if near < 0 {
		near = 0
	}
	small := r.Intn(near/4 + 2)
	switch r.Intn(9) {
	case 0:
		return (1+r.Intn(3))<<30 + small // 4*v = 4*small (mod 2^32)
	case 1:
		return (1+r.Intn(7))<<29 + small // 8*v = 8*small (mod 2^32)
	case 2:
		return (1+r.Intn(3))<<30 + 1
	case 3:
		return r.Pick([]int{1 << 31, 1<<31 - 1, 1<<31 + 1, 1<<31 + small})
	case 4:
		return r.Pick([]int{1<<30 - 1, 1 << 30, 1<<30 + 1, 1<<29 - 1, 1 << 29, 1<<29 + 1, 1<<28 + small})
	case 5:
		return 1<<32 - 1 - r.Intn(50) // v + header size wraps
	case 6:
		return (1+r.Intn(15))<<28 + small // 16*v
	case 7:
		return r.Pick([]int{1 << 16, 1<<16 + 1, 1 << 24, 1<<24 + small, 0x10000 * (1 + r.Intn(0xffff))})
	default:
		return 0xffffffff
	}
}

func wrap16(r *hx.RNG, near int) int {
	if near < 0 {
		near = 0
	}
	small := r.Intn(near/4 + 2)
	switch r.Intn(6) {
	case 0:
		return ((1+r.Intn(3))<<14 + small) & 0xffff // 4*v = 4*small (mod 2^16)
	case 1:
		return ((1+r.Intn(7))<<13 + small) & 0xffff
	case 2:
		return r.Pick([]int{1 << 15, 1<<15 - 1, 1<<15 + 1})
	case 3:
		return 0xffff - r.Intn(8) // v + 4 wraps
	case 4:
		return r.Pick([]int{1<<14 - 1, 1 << 14, 1<<14 + 1, 1 << 13, 1 << 12})
	default:
		return 0xffff
	}
}

func mutate(c *bmpx.Conv, r *hx.RNG, tr *hx.Trace) {
	if len(c.Spots) == 0 {
		return
	}
	s := c.Spots[r.Intn(len(c.Spots))]
	cur := get(c.B, s.Off, s.Width)
	var v uint64
	near := len(c.B) - s.Off - s.Width // at most this many bytes follow the field
	if near > 64 {
		near = 64
	}
	if r.Chance(45) {
		switch s.Kind {
		case "msglen", "count":
			put(c.B, s.Off, s.Width, uint64(wrap32(r, near)))
			tr.Count("mutwrap_" + s.Kind)
			return
		case "tlvlen", "bgplen":
			put(c.B, s.Off, s.Width, uint64(wrap16(r, near)))
			tr.Count("mutwrap_" + s.Kind)
			return
		case "optlen":
			put(c.B, s.Off, s.Width, uint64(r.Pick([]int{0x40, 0x41, 0x7f, 0x80, 0x81, 0xc0, 0xfe, 0xff})))
			tr.Count("mutwrap_" + s.Kind)
			return
		}
	}
	switch s.Kind {
	case "msglen":
		v = uint64(r.Pick([]int{0, 1, 2, 3, 4, 5, 6, int(cur) - 1, int(cur) + 1, int(cur) + 7, 47, 48, 49, 4095, 4096, 4097, 8192, 65536, 1 << 24, 1 << 31, 1<<31 + 5, 0xffffffff}))
	case "version":
		v = uint64(r.Pick([]int{0, 1, 2, 4, 255}))
	case "msgtype":
		v = uint64(r.Pick([]int{0, 1, 2, 3, 4, 5, 6, 7, 8, 255}))
	case "tlvlen":
		v = uint64(r.Pick([]int{0, 1, 2, int(cur) + 1, int(cur) - 1, 255, 4096, 65535}))
	case "tlvtype":
		v = uint64(r.Pick([]int{0, 1, 2, 3, 65535}))
	case "count":
		v = uint64(r.Pick([]int{0, 1, int(cur) + 1, int(cur) - 1, 1 << 20, 1 << 30, 1 << 31, 0xffffffff}))
	case "optlen":
		v = uint64(r.Pick([]int{0, 1, int(cur) - 1, int(cur) + 1, 255}))
	case "openas":
		v = uint64(r.Pick([]int{0, 23456, 65535, int(cur) + 1}))
	case "openid":
		v = uint64(r.Pick([]int{0, 1, 0xffffffff}))
	case "pphas":
		v = uint64(r.Pick([]int{int(cur) + 1, 0, 23456, 0xffffffff}))
	case "pphflags":
		v = cur ^ uint64(r.Pick([]int{0x80, 0x40, 0x20, 0x10, 0xff}))
	case "pphaddr":
		b := c.B[s.Off : s.Off+16]
		if s.Off+16 <= len(c.B) {
			b[r.Pick([]int{0, 11, 12, 15})] ^= byte(1 + r.Intn(255))
		}
		tr.Count("mut_" + s.Kind)
		return
	case "pphrd":
		v = uint64(r.Pick([]int{0, 1, 65000<<32 | 1, 65000<<32 | 2}))
	case "reason":
		v = uint64(r.Pick([]int{0, 1, 2, 3, 4, 5, 255}))
	case "bgplen":
		v = uint64(r.Pick([]int{0, 18, 19, int(cur) - 1, int(cur) + 1, 4096, 4097, 65535}))
	case "bgptype":
		v = uint64(r.Pick([]int{0, 1, 3, 4, 5, 6, 255}))
	}
	put(c.B, s.Off, s.Width, v)
	tr.Count("mut_" + s.Kind)
}

func gen(r *hx.RNG, tr *hx.Trace) (bmpx.Cfg, []byte) {
	if r.Chance(6) {
		// raw random bytes, sometimes behind a plausible common header
		n := r.Intn(120)
		b := make([]byte, n)
		for i := range b {
			b[i] = byte(r.Intn(256))
		}
		if n >= 6 && r.Chance(60) {
			b[0] = 3
			put(b, 1, 4, uint64(r.Pick([]int{6, n, n / 2, 48, 49, 60})))
			b[5] = byte(r.Intn(8))
		}
		tr.Count("kind_random")
		return bmpx.Cfg{}, b
	}
	c, cfg := genConv(r, tr)
	switch k := r.Intn(100); {
	case k < 35:
		tr.Count("kind_valid")
	case k < 85:
		for i := 0; i < 1+r.Intn(2); i++ {
			mutate(c, r, tr)
		}
		tr.Count("kind_mutated")
	default:
		if len(c.B) > 0 {
			c.B = c.B[:r.Intn(len(c.B))]
		}
		tr.Count("kind_truncated")
	}
	return cfg, c.B
}

// every truncation of one short conversation
func truncations() (bmpx.Cfg, [][]byte) {
	r := hx.NewRNG(4242)
	pool := bmpx.PeerPool(r)
	p := pool[0]
	p.AP4 = true
	c := &bmpx.Conv{}
	c.Initiation([]bmpx.TLV{{Type: 2, Info: []byte("r1")}})
	c.PeerUp(p, false, []byte("x"))
	c.RouteMon(p, false, bmpx.UpdateFor(p, nil, []bmpx.NLRI{bmpx.Pfx4(0, 1)}))
	c.Stats(p, 1, []bmpx.TLV{{Type: 0, Info: []byte{0, 0, 0, 1}}})
	c.PeerDown(p, 2, []byte{0, 1})
	c.Termination([]bmpx.TLV{{Type: 1, Info: []byte{0, 1}}})
	var out [][]byte
	for i := 0; i <= len(c.B); i++ {
		out = append(out, append([]byte(nil), c.B[:i]...))
	}
	return bmpx.Cfg{}, out
}

func main() {
	if os.Getenv(workerEnv) == "1" {
		worker()
		return
	}
	cfg := hx.Parse()
	tr := hx.NewTrace(cfg.Out)
	s := &sup{}
	defer s.stop()
	nviol := 0
	var maxRatio float64
	do := func(id string, c bmpx.Cfg, stream []byte) {
		if nviol >= maxViolations {
			// enough failing inputs for a verdict; every fatal one costs a worker restart
			tr.Count("skipped_after_violations")
			return
		}
		input := c.Token() + " s=" + hex.EncodeToString(stream)
		r := s.run(input)
		nt := r.frames >= 1 || strings.Contains(r.obs, "END|end|0|")
		tr.Case(id, nt, input, r.obs)
		if r.sig != "" {
			hx.Violation(id, r.sig, r.detail)
			nviol++
		}
		if len(stream) > 0 {
			if q := float64(r.alloc) / float64(len(stream)); q > maxRatio {
				maxRatio = q
			}
		}
	}
	parse := func(in string) (bmpx.Cfg, []byte, error) {
		p := strings.Fields(in)
		if len(p) != 2 {
			return bmpx.Cfg{}, nil, fmt.Errorf("want 2 input tokens")
		}
		c, err := bmpx.ParseCfg(p[0])
		if err != nil {
			return c, nil, err
		}
		b, err := hex.DecodeString(strings.TrimPrefix(p[1], "s="))
		return c, b, err
	}
	if cfg.Mode == "replay" {
		for _, c := range hx.InputsFrom(cfg.Replay) {
			cc, b, err := parse(c[1])
			if err != nil {
				fmt.Println("HARNESS-ERROR bad replay input:", err)
				os.Exit(2)
			}
			do(c[0], cc, b)
		}
	} else {
		for _, c := range hx.InputsFrom(hx.CorpusFiles(cfg.Corpus)...) {
			if cc, b, err := parse(c[1]); err == nil {
				do("corpus-"+c[0], cc, b)
				tr.Count("corpus")
			}
		}
		if cfg.Mode == "check" {
			tc, ts := truncations()
			step := 1
			if cfg.Tier == "quick" {
				step = 3
			}
			for i := 0; i < len(ts); i += step {
				do(fmt.Sprintf("t%d", i), tc, ts[i])
				tr.Count("kind_truncation_sweep")
			}
		}
		rng := hx.NewRNG(cfg.Seed)
		for i := 0; i < cfg.N; i++ {
			c, b := gen(rng.Fork(uint64(i)), tr)
			do(fmt.Sprintf("g%d", i), c, b)
		}
	}
	tr.Close(cfg.Stats, map[string]interface{}{"spec_violations": nviol, "max_alloc_bytes_per_input_byte": maxRatio,
		"alloc_bound": fmt.Sprintf("measured <= %d*(%d*L + %d*(frames+1)) + %d", allocSlack, allocPerByte, allocPerFrame, allocFloor)})
}
