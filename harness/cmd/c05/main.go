// C05 harness: the Loc-RIB mirrors the accepted paths of an Adj-RIB-In (driver in verifharness/adjribin).
package main

import "verifharness/adjribin"

func main() { adjribin.Main(5) }
