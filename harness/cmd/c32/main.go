// C32 harness: the level 2 LSDB of a real IS-IS server under received LSPs, CSNPs, PSNPs, aging
// ticks, LSP/PSNP transmission runs and regenerations of the local LSP. The ticker driven LSDB
// routines are not started: their bodies are run synchronously through the verif hook, so every
// history is a deterministic schedule of them.
//
// Input tokens:
//
//	cfg=<k0><k1><k2>   three interfaces: n active with an Up neighbor, e active without neighbor, p passive
//	L<i>:<id>:<seq>:<lt>         LSP <id> with sequence number and remaining lifetime received on interface i
//	C<i>:<lo>-<hi>:<entries>     CSNP on i covering ids lo..hi (a = lowest possible, z = highest possible id),
//	                             entries = <id>.<seq>.<lt> joined by ',' or '-'
//	P<i>:<entries>               PSNP on i
//	T<k>   k aging ticks (decrementRemainingLifetimes)          S   the LSP updater serves a pending request
//	X<k>   k times (aging tick, then the updater runs)          R   regenerate the local LSP unconditionally
//	Q      one run of the LSP sender (sendLSPDUs)               A   one run of the PSNP sender (sendPSNPss)
//
//	B      one run of the CSNP sender (sendCSNPss)
//
// LSP ids are three digits <system><pseudonode><LSP number>: system id byte 1..3, pseudonode 0..1,
// LSP number (fragment) 0..2. The server's own system is 2: 200 is the LSP the server originates,
// 201 another fragment and 210 a pseudonode LSP carrying its system id. Entries of one SNP may be
// spread over several LSP entries TLVs: groups are separated by '|'.
// Observation per token:  <db>/c<own sequence counter>/p<update pending>[/<what was sent>]
//
//	db = <id>:<seq>:<lt>:S<interfaces with SRM>:N<interfaces with SSN> joined by ',' (sorted) or '-'
//	sent (Q): <i>><id>.<seq> ...   sent (A): <i>><id>.<seq>+<id>.<seq>... one group per PSNP
//	sent (B): <i>>[<lo>-<hi>]<id>.<seq>+... one group per CSNP
package main

import (
	"fmt"
	"os"
	"sort"
	"strconv"
	"strings"

	bnet "github.com/bio-routing/bio-rd/net"
	"github.com/bio-routing/bio-rd/net/ethernet"
	"github.com/bio-routing/bio-rd/protocols/device"
	"github.com/bio-routing/bio-rd/protocols/isis/packet"
	"github.com/bio-routing/bio-rd/protocols/isis/server"
	"github.com/bio-routing/bio-rd/protocols/isis/types"

	"verifharness/hx"
	"verifharness/isisx"
)

const (
	ownID      = 200
	ownSysByte = 2
	maxSeq     = 0xFFFFFFFF
)

// the ids the generator draws from: siblings that differ only in the LSP number or only in the pseudonode id
var idPool = []int{100, 101, 102, 110, 200, 201, 210, 300, 301, 311}

func validID(id int) bool {
	return id/100 >= 1 && id/100 <= 3 && (id/10)%10 <= 1 && id%10 <= 2
}

func lspID(id int) packet.LSPID {
	return packet.LSPID{SystemID: types.SystemID{0, 0, 0, 0, 0, byte(id / 100)}, PseudonodeID: uint8((id / 10) % 10), LSPNumber: uint8(id % 10)}
}

func idOf(l packet.LSPID) int {
	if l.SystemID[0]|l.SystemID[1]|l.SystemID[2]|l.SystemID[3]|l.SystemID[4] != 0 || l.SystemID[5] > 9 ||
		l.PseudonodeID > 9 || l.LSPNumber > 9 {
		return -1
	}
	return int(l.SystemID[5])*100 + int(l.PseudonodeID)*10 + int(l.LSPNumber)
}

type entry struct{ id, seq, lt int }

type event struct {
	op      byte
	ifi     int
	e       entry     // L
	lo, hi  int       // C: -1 = lowest, 999 = highest
	entries []entry   // C, P (all TLVs)
	groups  [][]entry // C, P: the entries per LSP entries TLV
	k       int       // T, X
}

func parseEntries(s string) ([]entry, error) {
	if s == "-" {
		return nil, nil
	}
	var out []entry
	for _, t := range strings.Split(s, ",") {
		p := strings.Split(t, ".")
		if len(p) != 3 {
			return nil, fmt.Errorf("bad entry %q", t)
		}
		id, e1 := strconv.Atoi(p[0])
		seq, e2 := strconv.ParseUint(p[1], 10, 32)
		lt, e3 := strconv.Atoi(p[2])
		if e1 != nil || e2 != nil || e3 != nil || !validID(id) || lt < 0 || lt > 65535 {
			return nil, fmt.Errorf("bad entry %q", t)
		}
		out = append(out, entry{id, int(seq), lt})
	}
	return out, nil
}

// entries spread over several TLVs: groups separated by '|'
func parseGroups(s string) (all []entry, groups [][]entry, err error) {
	if s == "-" {
		return nil, nil, nil
	}
	for _, g := range strings.Split(s, "|") {
		es, err := parseEntries(g)
		if err != nil {
			return nil, nil, err
		}
		groups = append(groups, es)
		all = append(all, es...)
	}
	return all, groups, nil
}

func parse(in string) (cfg string, evs []event, err error) {
	f := strings.Fields(in)
	if len(f) == 0 || !strings.HasPrefix(f[0], "cfg=") || len(f[0]) != 7 {
		return "", nil, fmt.Errorf("missing cfg=")
	}
	cfg = f[0][4:]
	for _, c := range cfg {
		if !strings.ContainsRune("nep", c) {
			return "", nil, fmt.Errorf("bad cfg")
		}
	}
	ifOK := func(s string) (int, error) {
		i, err := strconv.Atoi(s)
		if err != nil || i < 0 || i > 2 || cfg[i] != 'n' {
			return 0, fmt.Errorf("PDUs can only arrive on an interface with an Up neighbor: %q", s)
		}
		return i, nil
	}
	for _, t := range f[1:] {
		ev := event{op: t[0]}
		body := t[1:]
		switch t[0] {
		case 'L':
			p := strings.Split(body, ":")
			if len(p) != 4 {
				return "", nil, fmt.Errorf("bad token %q", t)
			}
			if ev.ifi, err = ifOK(p[0]); err != nil {
				return "", nil, err
			}
			es, err := parseEntries(p[1] + "." + p[2] + "." + p[3])
			if err != nil {
				return "", nil, err
			}
			ev.e = es[0]
		case 'C':
			p := strings.Split(body, ":")
			if len(p) != 3 {
				return "", nil, fmt.Errorf("bad token %q", t)
			}
			if ev.ifi, err = ifOK(p[0]); err != nil {
				return "", nil, err
			}
			r := strings.Split(p[1], "-")
			if len(r) != 2 {
				return "", nil, fmt.Errorf("bad range in %q", t)
			}
			bound := func(s string) (int, error) {
				if s == "a" {
					return -1, nil
				}
				if s == "z" {
					return 999, nil
				}
				v, err := strconv.Atoi(s)
				if err != nil || !validID(v) {
					return 0, fmt.Errorf("bad bound %q", s)
				}
				return v, nil
			}
			if ev.lo, err = bound(r[0]); err != nil {
				return "", nil, err
			}
			if ev.hi, err = bound(r[1]); err != nil {
				return "", nil, err
			}
			if ev.entries, ev.groups, err = parseGroups(p[2]); err != nil {
				return "", nil, err
			}
		case 'P':
			p := strings.Split(body, ":")
			if len(p) != 2 {
				return "", nil, fmt.Errorf("bad token %q", t)
			}
			if ev.ifi, err = ifOK(p[0]); err != nil {
				return "", nil, err
			}
			if ev.entries, ev.groups, err = parseGroups(p[1]); err != nil {
				return "", nil, err
			}
		case 'T', 'X':
			ev.k, err = strconv.Atoi(body)
			if err != nil || ev.k < 1 || ev.k > 5000 {
				return "", nil, fmt.Errorf("bad token %q", t)
			}
		case 'S', 'R', 'Q', 'A', 'B':
			if body != "" {
				return "", nil, fmt.Errorf("bad token %q", t)
			}
		default:
			return "", nil, fmt.Errorf("bad token %q", t)
		}
		evs = append(evs, ev)
	}
	return cfg, evs, nil
}

func toLSPEntries(es []entry) []*packet.LSPEntry {
	var out []*packet.LSPEntry
	for _, e := range es {
		out = append(out, &packet.LSPEntry{RemainingLifetime: uint16(e.lt), LSPID: lspID(e.id), SequenceNumber: uint32(e.seq), LSPChecksum: 0x1234})
	}
	return out
}

func boundID(b int) packet.LSPID {
	if b < 0 {
		return packet.LSPID{}
	}
	if b >= 999 {
		return packet.LSPID{SystemID: types.SystemID{0xff, 0xff, 0xff, 0xff, 0xff, 0xff}, PseudonodeID: 0xff, LSPNumber: 0xff}
	}
	return lspID(b)
}

type dbEntry struct {
	seq, lt  int
	srm, ssn string // interface digits, sorted
}

func ifDigits(names []string) string {
	var d []string
	for _, n := range names {
		d = append(d, strings.TrimPrefix(n, "eth"))
	}
	sort.Strings(d)
	if len(d) == 0 {
		return "-"
	}
	return strings.Join(d, "")
}

func snapshot(s *server.Server) map[int]dbEntry {
	m := map[int]dbEntry{}
	for _, e := range s.VerifLSDB() {
		id := idOf(e.LSPID)
		m[id] = dbEntry{int(e.SequenceNumber), int(e.RemainingLifetime), ifDigits(e.SRM), ifDigits(e.SSN)}
	}
	return m
}

func fmtDB(m map[int]dbEntry) string {
	var ids []int
	for id := range m {
		ids = append(ids, id)
	}
	sort.Ints(ids)
	var p []string
	for _, id := range ids {
		e := m[id]
		p = append(p, fmt.Sprintf("%d:%d:%d:S%s:N%s", id, e.seq, e.lt, e.srm, e.ssn))
	}
	if len(p) == 0 {
		return "-"
	}
	return strings.Join(p, ",")
}

// ---- set helpers on interface digit strings
func has(set string, i int) bool { return strings.ContainsRune(set, rune('0'+i)) }
func add(set string, i int) string {
	if has(set, i) {
		return set
	}
	b := []byte(strings.ReplaceAll(set, "-", "") + string(rune('0'+i)))
	sort.Slice(b, func(x, y int) bool { return b[x] < b[y] })
	return string(b)
}
func del(set string, i int) string {
	r := strings.ReplaceAll(strings.ReplaceAll(set, "-", ""), string(rune('0'+i)), "")
	if r == "" {
		return "-"
	}
	return r
}

func runCase(id, input string) (res isisx.Result) {
	res = isisx.Result{ID: id, Input: input}
	cfg, evs, err := parse(input)
	if err != nil {
		res.Obs, res.Sig, res.Detail = "BAD-INPUT", "bad-input", err.Error()
		return
	}
	clk := isisx.NewClock()
	server.SetClock(clk)
	devs := isisx.NewDevs()
	fac := &isisx.Factory{}
	ownSys := types.SystemID{0, 0, 0, 0, 0, ownSysByte}
	s, err := server.New([]*types.NET{{AreaID: types.AreaID{0x49, 0}, SystemID: ownSys}}, devs, 3600)
	if err != nil {
		res.Obs, res.Sig, res.Detail = "SETUP-FAILED", "setup", err.Error()
		return
	}
	s.SetEthernetInterfaceFactory(fac)
	s.SetHostnameFunc(func() (string, error) { return "verif", nil })
	for i, k := range cfg {
		name := fmt.Sprintf("eth%d", i)
		s.AddInterface(&server.InterfaceConfig{Name: name, Passive: k == 'p', PointToPoint: true,
			Level2: &server.InterfaceLevelConfig{HelloInterval: 7, HoldingTimer: 21, Metric: 10}})
		devs.Update(name, &isisx.Dev{Index: uint64(10 + i), Oper: device.IfOperUp,
			Addrs: []*bnet.Prefix{bnet.NewPfx(bnet.IPv4FromOctets(169, 254, byte(100+i), 0), 31).Ptr()}})
		if k == 'n' {
			mac := ethernet.MACAddr{0xde, 0xad, 0xbe, 0xef, 0, byte(i)}
			hello := []byte{0, 0, 0, 131, 20, 1, 0, 17, 1, 0, 0, 2, 9, 9, 9, 9, 9, byte(i), 0x0e, 0x10, 0, 52, 1,
				240, 15, 0, 0, 0, 0, 100, 0, 0, 0, 0, 0, ownSysByte, 0, 0, 0, byte(10 + i),
				129, 2, 204, 142, 132, 4, 169, 254, byte(100 + i), 1, 1, 3, 2, 0x49, 0}
			for r := 0; r < 2; r++ {
				if err := s.VerifProcessPkt(name, mac, hello); err != nil {
					res.Obs, res.Sig, res.Detail = "SETUP-FAILED", "setup", "neighbor hello rejected: "+err.Error()
					return
				}
			}
		}
	}
	// what Start() does first, then the updater serves the request the link-ups/adjacencies queued
	s.VerifUpdateL2LSP()
	s.VerifRunPendingLSPUpdate()
	if q := isisx.Quiesce(); q != "" {
		res.Obs, res.Sig, res.Detail, res.Abnormal = "blocked:setup", "blocked", q, true
		return
	}
	for _, h := range fac.All() {
		h.TakeSent()
	}

	fail := func(sig, detail string) {
		if res.Sig == "" {
			res.Sig, res.Detail = sig, detail
		}
	}
	srmOK := func(i int, seq int) bool { return cfg[i] == 'n' && seq != 0 }
	var obs []string
	maxOwnCopy := -1 // highest sequence number of a received copy of the own LSP (id 2)
	starved := 0

	for k, ev := range evs {
		evname := fmt.Sprintf("event %d (%c)", k, ev.op)
		before := snapshot(s)
		cntBefore := int(s.VerifSequenceNumberL2())
		extra := ""
		oc, val := isisx.Watchdog(func() {
			switch ev.op {
			case 'L':
				s.VerifProcessLSP(fmt.Sprintf("eth%d", ev.ifi), &packet.LSPDU{RemainingLifetime: uint16(ev.e.lt), LSPID: lspID(ev.e.id),
					SequenceNumber: uint32(ev.e.seq), Checksum: 0x1234, Length: packet.LSPDUMinLen})
			case 'C':
				c := &packet.CSNP{SourceID: types.SourceID{SystemID: types.SystemID{9, 9, 9, 9, 9, byte(ev.ifi)}},
					StartLSPID: boundID(ev.lo), EndLSPID: boundID(ev.hi)}
				for _, g := range ev.groups {
					c.TLVs = append(c.TLVs, packet.NewLSPEntriesTLV(toLSPEntries(g)))
				}
				s.VerifProcessCSNP(fmt.Sprintf("eth%d", ev.ifi), c)
			case 'P':
				p := &packet.PSNP{SourceID: types.SourceID{SystemID: types.SystemID{9, 9, 9, 9, 9, byte(ev.ifi)}}}
				for _, g := range ev.groups {
					p.TLVs = append(p.TLVs, packet.NewLSPEntriesTLV(toLSPEntries(g)))
				}
				s.VerifProcessPSNP(fmt.Sprintf("eth%d", ev.ifi), p)
			case 'T':
				for j := 0; j < ev.k; j++ {
					s.VerifDecrementRemainingLifetimes()
				}
			case 'X':
				for j := 0; j < ev.k; j++ {
					s.VerifDecrementRemainingLifetimes()
					s.VerifRunPendingLSPUpdate()
				}
			case 'S':
				s.VerifRunPendingLSPUpdate()
			case 'R':
				s.VerifUpdateL2LSP()
			case 'Q':
				s.VerifSendLSPDUs()
			case 'A':
				s.VerifSendPSNPs()
			case 'B':
				s.VerifSendCSNPs()
			}
		})
		if oc != "ok" {
			obs = append(obs, oc)
			fail("lsdb-"+oc+"-"+string(ev.op), fmt.Sprintf("%s: %s %v", evname, oc, val))
			res.Abnormal = true
			break
		}
		// transmissions
		if ev.op == 'Q' || ev.op == 'A' || ev.op == 'B' {
			var sent []string
			for _, h := range fac.All() {
				i := strings.TrimPrefix(h.Name, "eth")
				for _, p := range h.TakeSent() {
					if len(p) < 8 {
						continue
					}
					b := p[8:]
					switch p[4] {
					case packet.L2_LS_PDU_TYPE:
						if len(b) >= 16 {
							var l packet.LSPID
							copy(l.SystemID[:], b[4:10])
							l.PseudonodeID, l.LSPNumber = b[10], b[11]
							seq := uint32(b[12])<<24 | uint32(b[13])<<16 | uint32(b[14])<<8 | uint32(b[15])
							sent = append(sent, fmt.Sprintf("%s>%d.%d", i, idOf(l), seq))
						}
					case packet.L2_CSNP_TYPE:
						if len(b) < 25 {
							continue
						}
						var lo, hi packet.LSPID
						copy(lo.SystemID[:], b[9:15])
						lo.PseudonodeID, lo.LSPNumber = b[15], b[16]
						copy(hi.SystemID[:], b[17:23])
						hi.PseudonodeID, hi.LSPNumber = b[23], b[24]
						rng := fmt.Sprintf("%d-%d", idOf(lo), idOf(hi))
						if lo == (packet.LSPID{}) {
							rng = "a-" + strings.SplitN(rng, "-", 2)[1]
						}
						if hi == boundID(999) {
							rng = strings.SplitN(rng, "-", 2)[0] + "-z"
						}
						var es []string
						t := b[25:]
						for len(t) >= 2 {
							typ, ln := t[0], int(t[1])
							v := t[2:]
							if ln > len(v) {
								break
							}
							if typ == 9 {
								for o := 0; o+16 <= ln; o += 16 {
									var l packet.LSPID
									copy(l.SystemID[:], v[o+2:o+8])
									l.PseudonodeID, l.LSPNumber = v[o+8], v[o+9]
									seq := uint32(v[o+10])<<24 | uint32(v[o+11])<<16 | uint32(v[o+12])<<8 | uint32(v[o+13])
									es = append(es, fmt.Sprintf("%d.%d", idOf(l), seq))
								}
							}
							t = v[ln:]
						}
						// entries stay in wire order: a CSNP lists its entries in ascending LSP id order
						sent = append(sent, i+">["+rng+"]"+strings.Join(es, "+"))
					case packet.L2_PSNP_TYPE:
						var es []string
						t := b[9:]
						for len(t) >= 2 {
							typ, ln := t[0], int(t[1])
							v := t[2:]
							if ln > len(v) {
								break
							}
							if typ == 9 {
								for o := 0; o+16 <= ln; o += 16 {
									var l packet.LSPID
									copy(l.SystemID[:], v[o+2:o+8])
									l.PseudonodeID, l.LSPNumber = v[o+8], v[o+9]
									seq := uint32(v[o+10])<<24 | uint32(v[o+11])<<16 | uint32(v[o+12])<<8 | uint32(v[o+13])
									es = append(es, fmt.Sprintf("%d.%d", idOf(l), seq))
								}
							}
							t = v[ln:]
						}
						sort.Strings(es)
						sent = append(sent, i+">"+strings.Join(es, "+"))
					}
				}
			}
			sort.Strings(sent)
			extra = "/" + strings.Join(sent, ";")
			if len(sent) == 0 {
				extra = "/none"
			}
		}
		after := snapshot(s)
		cnt := int(s.VerifSequenceNumberL2())
		pend := 0
		if s.VerifLSPUpdatePending() {
			pend = 1
		}
		obs = append(obs, fmt.Sprintf("%s/c%d/p%d%s", fmtDB(after), cnt, pend, extra))

		// ------------------------------------------------ spec oracle (ISO 10589 7.3.15/7.3.16 + the property text)
		expectFlags := func(what string, lid int, wantSRM, wantSSN string) {
			a, ok := after[lid]
			if !ok {
				fail("entry-missing-after-"+what, fmt.Sprintf("%s: LSP %d is not in the database", evname, lid))
				return
			}
			if a.srm != wantSRM {
				fail("srm-after-"+what, fmt.Sprintf("%s: LSP %d has SRM on {%s}, the update process requires {%s}", evname, lid, a.srm, wantSRM))
			}
			if a.ssn != wantSSN {
				fail("ssn-after-"+what, fmt.Sprintf("%s: LSP %d has SSN on {%s}, the update process requires {%s}", evname, lid, a.ssn, wantSSN))
			}
		}
		allIDs := func(ms ...map[int]dbEntry) []int {
			seen := map[int]bool{}
			var out []int
			for _, m := range ms {
				for k := range m {
					if !seen[k] {
						seen[k] = true
						out = append(out, k)
					}
				}
			}
			sort.Ints(out)
			return out
		}
		unchangedExcept := func(ids map[int]bool) {
			for _, lid := range allIDs(before, after) {
				if ids[lid] {
					continue
				}
				b, okb := before[lid]
				a, oka := after[lid]
				if okb != oka || b != a {
					fail("unrelated-entry-changed-"+string(ev.op), fmt.Sprintf("%s: LSP %d changed from %v(%v) to %v(%v)", evname, lid, b, okb, a, oka))
				}
			}
		}
		snpEntry := func(what string, cur map[int]dbEntry, e entry, i int) {
			// cur: expected database so far (entries of one SNP are processed in order)
			c, ok := cur[e.id]
			switch {
			case !ok:
				cur[e.id] = dbEntry{0, e.lt, "-", add("-", i)}
			case c.seq == e.seq:
				c.srm = del(c.srm, i)
				cur[e.id] = c
			case c.seq > e.seq:
				c.ssn = del(c.ssn, i)
				if srmOK(i, c.seq) {
					c.srm = add(c.srm, i)
				}
				cur[e.id] = c
			default:
				c.srm = del(c.srm, i)
				c.ssn = add(c.ssn, i)
				cur[e.id] = c
			}
		}
		switch ev.op {
		case 'L':
			res.NT = res.NT || len(before) > 1
			b, existed := before[ev.e.id]
			own := ev.e.id == ownID
			if own && ev.e.seq > maxOwnCopy {
				maxOwnCopy = ev.e.seq
			}
			switch {
			case own && (!existed || ev.e.seq > b.seq):
				// 7.3.16.1: a newer copy of the own LSP is not installed; a newer own LSP is originated
				if a, ok := after[ev.e.id]; ok && a.seq == ev.e.seq {
					// storing it is tolerated by this oracle only if a regeneration above it follows (checked at origination)
					_ = a
				}
				if pend == 0 && !(after[ownID].seq > ev.e.seq) {
					fail("own-lsp-newer-copy-no-regeneration", fmt.Sprintf("%s: a copy of the own LSP with sequence number %d arrived (database had %d) and no regeneration is requested", evname, ev.e.seq, b.seq))
				}
			case !existed || ev.e.seq > b.seq:
				want := "-"
				for j := range cfg {
					if j != ev.ifi && srmOK(j, ev.e.seq) {
						want = add(want, j)
					}
				}
				expectFlags("newer-lsp", ev.e.id, want, add("-", ev.ifi))
				if a := after[ev.e.id]; a.seq != ev.e.seq || a.lt != ev.e.lt {
					fail("newer-lsp-not-installed", fmt.Sprintf("%s: LSP %d seq %d lifetime %d received, database has seq %d lifetime %d", evname, ev.e.id, ev.e.seq, ev.e.lt, a.seq, a.lt))
				}
			case ev.e.seq == b.seq:
				expectFlags("same-lsp", ev.e.id, del(b.srm, ev.ifi), add(b.ssn, ev.ifi))
				if a := after[ev.e.id]; a.seq != b.seq || a.lt != b.lt {
					fail("same-lsp-changed-copy", fmt.Sprintf("%s: LSP %d changed", evname, ev.e.id))
				}
			default:
				want := b.srm
				if srmOK(ev.ifi, b.seq) {
					want = add(want, ev.ifi)
				}
				expectFlags("older-lsp", ev.e.id, want, del(b.ssn, ev.ifi))
				if a := after[ev.e.id]; a.seq != b.seq || a.lt != b.lt {
					fail("highest-seq-not-kept", fmt.Sprintf("%s: LSP %d seq %d was replaced by seq %d", evname, ev.e.id, b.seq, a.seq))
				}
			}
			unchangedExcept(map[int]bool{ev.e.id: true})
		case 'C', 'P':
			res.NT = true
			cur := map[int]dbEntry{}
			for k, v := range before {
				cur[k] = v
			}
			what := "csnp"
			if ev.op == 'P' {
				what = "psnp"
			}
			for _, e := range ev.entries {
				snpEntry(what, cur, e, ev.ifi)
			}
			// 7.3.15.2 c): LSPs within the CSNP's range (an order on the FULL 8 byte LSP id: system id,
			// pseudonode id, LSP number) that the CSNP does not mention (again by full id) get SRM
			flagged := map[int]bool{}
			if ev.op == 'C' {
				for lid, c := range cur {
					if c.seq == 0 || c.lt == 0 || lid < ev.lo || lid > ev.hi {
						continue
					}
					listed := false
					for _, e := range ev.entries {
						if e.id == lid {
							listed = true
						}
					}
					if !listed && srmOK(ev.ifi, c.seq) {
						if !has(c.srm, ev.ifi) {
							flagged[lid] = true
						}
						c.srm = add(c.srm, ev.ifi)
						cur[lid] = c
					}
				}
			}
			for _, lid := range allIDs(cur, after) {
				w, okw := cur[lid]
				a, oka := after[lid]
				if okw && oka && w.srm != a.srm && ev.op == 'C' {
					if flagged[lid] && !has(a.srm, ev.ifi) {
						fail("csnp-unmentioned-lsp-not-flagged", fmt.Sprintf("%s: LSP %d lies in the CSNP's range %d..%d, is not mentioned and did not get SRM on %d (has {%s})", evname, lid, ev.lo, ev.hi, ev.ifi, a.srm))
					} else if has(a.srm, ev.ifi) && !has(w.srm, ev.ifi) && (lid < ev.lo || lid > ev.hi) {
						fail("csnp-srm-outside-range", fmt.Sprintf("%s: LSP %d lies outside the CSNP's range %d..%d and got SRM on %d", evname, lid, ev.lo, ev.hi, ev.ifi))
					}
				}
				if okw != oka {
					fail("entry-set-after-"+what, fmt.Sprintf("%s: LSP %d present=%v, expected present=%v", evname, lid, oka, okw))
				} else if okw && (w.seq != a.seq || w.lt != a.lt) {
					fail("copy-changed-by-"+what, fmt.Sprintf("%s: LSP %d is %d/%d, expected %d/%d", evname, lid, a.seq, a.lt, w.seq, w.lt))
				} else if okw && w.srm != a.srm {
					fail("srm-after-"+what, fmt.Sprintf("%s: LSP %d has SRM on {%s}, the update process requires {%s}", evname, lid, a.srm, w.srm))
				} else if okw && w.ssn != a.ssn {
					fail("ssn-after-"+what, fmt.Sprintf("%s: LSP %d has SSN on {%s}, the update process requires {%s}", evname, lid, a.ssn, w.ssn))
				}
			}
		case 'T', 'X':
			for lid, b := range before {
				a, ok := after[lid]
				if lid == ownID && ev.op == 'X' {
					continue
				}
				if b.lt > ev.k {
					if !ok || a.seq != b.seq || a.lt != b.lt-ev.k {
						fail("lsp-lost-before-aging-out", fmt.Sprintf("%s: LSP %d (seq %d, lifetime %d) after %d ticks: present=%v seq %d lifetime %d", evname, lid, b.seq, b.lt, ev.k, ok, a.seq, a.lt))
					}
				} else if ok && !(lid == ownID) {
					fail("lsp-kept-after-aging-out", fmt.Sprintf("%s: LSP %d had lifetime %d and is still present after %d ticks", evname, lid, b.lt, ev.k))
				}
			}
		case 'Q', 'A', 'B':
			res.NT = true
			var want []string
			if ev.op == 'B' {
				// a complete SNP describes the whole database, on every circuit with an Up neighbor
				var es []string
				for lid, b := range before {
					es = append(es, fmt.Sprintf("%d.%d", lid, b.seq))
				}
				sort.Strings(es)
				for i := range cfg {
					if cfg[i] == 'n' {
						want = append(want, fmt.Sprintf("%d>[a-z]%s", i, strings.Join(es, "+")))
					}
				}
				if fmtDB(before) != fmtDB(after) {
					fail("csnp-sender-changed-database", evname+": sendCSNPss changed the database")
				}
				for _, g := range strings.Split(strings.TrimPrefix(extra, "/"), ";") {
					if k := strings.Index(g, "]"); k >= 0 {
						prev := -1
						for _, e := range strings.Split(g[k+1:], "+") {
							id, _ := strconv.Atoi(strings.SplitN(e, ".", 2)[0])
							if e != "" && id <= prev {
								fail("csnp-entries-not-ascending", fmt.Sprintf("%s: CSNP %s lists LSP %d after LSP %d", evname, g, id, prev))
							}
							prev = id
						}
					}
				}
			} else if ev.op == 'Q' {
				for lid, b := range before {
					for i := range cfg {
						if has(b.srm, i) && cfg[i] != 'p' {
							want = append(want, fmt.Sprintf("%d>%d.%d", i, lid, b.seq))
						}
					}
				}
				if fmtDB(before) != fmtDB(after) {
					fail("lsp-sender-changed-database", evname+": sendLSPDUs changed the database")
				}
			} else {
				for i := range cfg {
					var es []string
					for lid, b := range before {
						if has(b.ssn, i) {
							es = append(es, fmt.Sprintf("%d.%d", lid, b.seq))
						}
					}
					sort.Strings(es)
					if len(es) > 0 && cfg[i] != 'p' {
						want = append(want, fmt.Sprintf("%d>%s", i, strings.Join(es, "+")))
					}
				}
				for lid, a := range after {
					if a.ssn != "-" {
						fail("ssn-not-cleared-after-psnp", fmt.Sprintf("%s: LSP %d keeps SSN on {%s} after the PSNP run", evname, lid, a.ssn))
					}
					if b := before[lid]; b.seq != a.seq || b.lt != a.lt || b.srm != a.srm {
						fail("psnp-sender-changed-database", evname+": sendPSNPss changed more than SSN flags")
					}
				}
			}
			sort.Strings(want)
			w := strings.Join(want, ";")
			if w == "" {
				w = "none"
			}
			if "/"+w != extra {
				fail("transmission-differs-from-flags-"+string(ev.op), fmt.Sprintf("%s: sent %s, the flags call for %s", evname, extra[1:], w))
			}
		}
		// origination: whenever the own LSP was (re)generated, its number exceeds every received copy of it
		if ob, oa := before[ownID], after[ownID]; strings.ContainsRune("RSX", rune(ev.op)) && (oa.seq != ob.seq || cnt != cntBefore) {
			if _, ok := after[ownID]; !ok || oa.seq != cnt {
				fail("own-lsp-not-installed-after-origination", fmt.Sprintf("%s: counter %d, database %v", evname, cnt, oa))
			} else if maxOwnCopy >= 0 && cnt > cntBefore && oa.seq <= maxOwnCopy {
				// (cnt < cntBefore: the 32 bit counter wrapped, which ISO 10589 handles by waiting, not by a number)
				fail("own-seq-not-above-received-copy", fmt.Sprintf("%s: the own LSP was originated with sequence number %d although a copy with %d had been received", evname, oa.seq, maxOwnCopy))
			}
		}
		if cnt < cntBefore && strings.ContainsRune("RSX", rune(ev.op)) {
			maxOwnCopy = -1 // the 32 bit sequence number space was exhausted and restarted: older copies no longer count
		}
		// the next origination uses counter+1: the counter may never be below a received copy of the own LSP
		if maxOwnCopy >= 0 && cnt < maxOwnCopy {
			fail("sequence-counter-below-received-own-copy", fmt.Sprintf("%s: the local sequence counter is %d although a copy of the own LSP with %d was received: the next LSP would not supersede it", evname, cnt, maxOwnCopy))
		}
		// the local LSP is refreshed before it expires (whenever the updater is given a chance after each tick)
		if pend == 1 && ev.op == 'T' {
			starved += ev.k // aging ticks during which the updater was not run although asked to
		} else if pend == 0 {
			starved = 0
		}
		if a, ok := after[ownID]; !ok {
			if starved < 290 {
				fail("own-lsp-missing", evname+": the own LSP is not in the database")
			}
		} else if ev.op == 'X' && a.lt < 299 && a.seq == cnt {
			fail("own-lsp-not-refreshed", fmt.Sprintf("%s: own LSP lifetime %d although the updater ran after every tick", evname, a.lt))
		}
	}
	res.Obs = strings.Join(obs, " ")
	if res.Obs == "" {
		res.Obs = "-"
	}
	if !res.Abnormal {
		oc, _ := isisx.Watchdog(func() { s.VerifShutdown() })
		if oc != "ok" || isisx.Quiesce() != "" {
			res.Abnormal = true
		}
	}
	return
}

func pick(r *hx.RNG) int { return idPool[r.Intn(len(idPool))] }

func genEntries(r *hx.RNG, maxN int) string {
	n := r.Intn(maxN + 1)
	if n == 0 {
		return "-"
	}
	var p []string
	for j := 0; j < n; j++ {
		p = append(p, fmt.Sprintf("%d.%d.%d", pick(r), 1+r.Intn(4), 1+r.Intn(6)))
	}
	out := p[0]
	for _, x := range p[1:] {
		if r.Chance(25) {
			out += "|" + x // next LSP entries TLV
		} else {
			out += "," + x
		}
	}
	return out
}

func gen(r *hx.RNG, tr *hx.Trace) string {
	cfgs := []string{"nnn", "nne", "nnp", "nen", "npn", "nep", "nee", "npp"}
	cfg := cfgs[r.Intn(len(cfgs))]
	var rx []int
	for i, c := range cfg {
		if c == 'n' {
			rx = append(rx, i)
		}
	}
	toks := []string{"cfg=" + cfg}
	n := 4 + r.Intn(16)
	for i := 0; i < n; i++ {
		ifi := rx[r.Intn(len(rx))]
		c := r.Intn(100)
		switch {
		case c < 38:
			seq := 1 + r.Intn(4)
			if r.Chance(4) {
				seq = []int{0, maxSeq - 1, maxSeq}[r.Intn(3)]
			}
			lt := 1 + r.Intn(6)
			if r.Chance(10) {
				lt = 1200
			}
			toks = append(toks, fmt.Sprintf("L%d:%d:%d:%d", ifi, pick(r), seq, lt))
			tr.Count("lsp")
		case c < 52:
			lo, hi := "a", "z"
			if r.Chance(40) {
				x, y := pick(r), pick(r)
				if x > y {
					x, y = y, x
				}
				lo, hi = strconv.Itoa(x), strconv.Itoa(y)
				if r.Chance(30) {
					lo = "a"
				} else if r.Chance(30) {
					hi = "z"
				}
			}
			toks = append(toks, fmt.Sprintf("C%d:%s-%s:%s", ifi, lo, hi, genEntries(r, 4)))
			tr.Count("csnp")
		case c < 64:
			toks = append(toks, fmt.Sprintf("P%d:%s", ifi, genEntries(r, 3)))
			tr.Count("psnp")
		case c < 76:
			toks = append(toks, fmt.Sprintf("T%d", 1+r.Intn(3)))
			tr.Count("tick")
		case c < 80:
			toks = append(toks, fmt.Sprintf("X%d", []int{1, 2, 1499, 1500, 1501, 1502, 1503, 1810}[r.Intn(8)]))
			tr.Count("tick_serviced")
		case c < 89:
			toks = append(toks, "S")
			tr.Count("service")
		case c < 92:
			toks = append(toks, "R")
			tr.Count("regen")
		case c < 95:
			toks = append(toks, "Q")
			tr.Count("send_lsps")
		case c < 98:
			toks = append(toks, "A")
			tr.Count("send_psnps")
		default:
			toks = append(toks, "B")
			tr.Count("send_csnps")
		}
	}
	return strings.Join(toks, " ")
}

func main() {
	isisx.Silence()
	if isisx.IsWorker() {
		isisx.ServeWorker(runCase)
		return
	}
	cfg := hx.Parse()
	tr := hx.NewTrace(cfg.Out)
	var cases [][2]string
	if cfg.Mode == "replay" {
		for _, c := range hx.InputsFrom(cfg.Replay) {
			cases = append(cases, c)
		}
	} else {
		for _, c := range hx.InputsFrom(hx.CorpusFiles(cfg.Corpus)...) {
			cases = append(cases, [2]string{"corpus-" + c[0], c[1]})
			tr.Count("corpus")
		}
		rng := hx.NewRNG(cfg.Seed)
		if cfg.Mode == "search" {
			rng = hx.NewRNG(cfg.Seed ^ 0x5bd1e995)
		}
		for i := 0; i < cfg.N; i++ {
			cases = append(cases, [2]string{fmt.Sprintf("g%d", i), gen(rng.Fork(uint64(i)), tr)})
		}
	}
	nviol := 0
	sigs := map[string]int{}
	isisx.Isolate(cases, os.Args[1:], 500, func(r isisx.Result) bool {
		tr.Case(r.ID, r.NT, r.Input, r.Obs)
		if r.Sig != "" {
			sigs[r.Sig]++
			if sigs[r.Sig] <= 3 {
				hx.Violation(r.ID, r.Sig, r.Detail)
			}
			nviol++
		}
		return true
	})
	tr.Close(cfg.Stats, map[string]interface{}{"spec_violations": nviol, "violation_signatures": sigs})
}
