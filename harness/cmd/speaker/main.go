// Speaker harness (additional stage of C08, see props/C08.py, notes/Pipeline.md "Speaker"): several REAL session
// state machines (server.FSM, stepped through the hook verif_hooks_fsm.go) brought to Established on one VRF and
// one Loc-RIB, fed with BYTES and observed through the BYTES they write:
//
//	peer k --bytes--> recvMsg -> establishedState.msgReceived -> packet.Decode -> fsmAddressFamily.processUpdate
//	       -> adjRIBIn (import policy) -> locRIB.LocRIB -> adjRIBOut of every other session (export rules + policy)
//	       -> UpdateSender (packing) -> packet.SerializeUpdate --bytes--> the connection of peer j
//
// Everything between the two byte strings is the production wiring (fsmAddressFamily.init/dispose). Two things are
// interposed by the hook verif_hooks_c08.go: a forwarding recorder between each Adj-RIB-In and the Loc-RIB (the route
// after every Loc-RIB operation, as in harness/cmd/pipeline), and the update sender's ticker goroutine is retired
// right after the session came up so that the sender's iterations are taken one at a time (C10 hook).
//
// The spec oracle works from the INPUT BYTES alone: an independent reference decoder (harness/usx) turns every
// frame fed to a session into announcements / withdrawals (or "malformed": the session must go down); from these the
// expected Loc-RIB (union of the eligible, import-rewritten announcements of the sessions that are up), the expected
// selection (RFC 4271 9.1.2.2), each session's export and hence the peer's view (replay of the reference-decoded
// OUTPUT bytes) are computed as in harness/cmd/pipeline.
//
// Input tokens:
//
//	K:<kind>:<maxpaths>:<role>:<addpathrx>:<polcode>.<polarg>:<chain>   one per session (kind/role/chain: harness/aro)
//	U<k>                 bring session k to Established: ManualStart, TCP connection, OPEN, KEEPALIVE
//	D<k>                 ManualStop
//	R<k>:<hex>           the peer of session k sends these bytes (one frame)
//	Q<k>:<pfx>:<j>       sender(): locked half of one iteration, for the j-th pending entry holding pfx
//	E<k>                 sender(): one Write of the unlocked half
//	X<k>                 drain; afterwards the oracle judges the peer's view
//
// Observation: one token per event:  <locrib records>|<session 0>|<session 1>|...   (as harness/cmd/pipeline; prefixes
// are indices into pfxTab; every message written carries '#' + the hex of its attribute section (announcements) or of
// the whole frame (withdrawals, End-of-RIB))
package main

import (
	"bytes"
	"encoding/binary"
	"encoding/hex"
	"fmt"
	"os"
	"sort"
	"strconv"
	"strings"
	"time"

	bnet "github.com/bio-routing/bio-rd/net"
	"github.com/bio-routing/bio-rd/protocols/bgp/packet"
	"github.com/bio-routing/bio-rd/protocols/bgp/server"
	"github.com/bio-routing/bio-rd/route"
	"github.com/bio-routing/bio-rd/routingtable"
	"github.com/bio-routing/bio-rd/routingtable/adjRIBOut"
	"github.com/bio-routing/bio-rd/routingtable/filter"
	"github.com/bio-routing/bio-rd/routingtable/filter/actions"
	"github.com/bio-routing/bio-rd/routingtable/locRIB"
	"github.com/bio-routing/bio-rd/routingtable/vrf"

	"verifharness/aro"
	"verifharness/fsmx"
	"verifharness/hx"
	"verifharness/usx"
)

// the prefixes of the stream: small addresses, so that the RIB models' prefix id (address * 64 + length,
// Model/Speaker.v: pfx_id) stays small; 1 contains 2
var pfxTab = []struct {
	addr uint32
	l    uint8
}{{4, 30}, {8, 30}, {8, 31}, {1, 32}}

const nPfx = 4

var pfxObjs []*bnet.Prefix

func pfxNet(i int) *bnet.Prefix {
	if pfxObjs == nil {
		for _, e := range pfxTab {
			pfxObjs = append(pfxObjs, bnet.NewPfx(bnet.IPv4(e.addr), e.l).Dedup())
		}
	}
	return pfxObjs[i]
}

func pfxIdxOf(addr uint32, l uint8) int {
	for i, e := range pfxTab {
		if e.addr == addr && e.l == l {
			return i
		}
	}
	return 1000 + int(addr)*64 + int(l) // not a prefix of the stream: 1000 + the RIB models' prefix id
}

func pfxIdx(p *bnet.Prefix) int { return pfxIdxOf(p.Addr().ToUint32(), p.Len()) }

// ---------------------------------------------------------------- configuration

type sessCfg struct {
	S         aro.Sess // sending half: kind, maxpaths (0 = best only), the peer's role
	AddPathRX bool
	PolCode   uint32
	PolArg    uint32
	Chain     aro.Chain
}

func (c sessCfg) token() string {
	return fmt.Sprintf("K:%s:%d:%s:%d:%d.%d:%s", c.S.Kind, c.S.MaxPaths, c.S.Role, b2i(c.AddPathRX), c.PolCode, c.PolArg, c.Chain.Token())
}

func b2i(b bool) int {
	if b {
		return 1
	}
	return 0
}

func peerIP(k int) uint32 { return 0x0a0a0a01 + uint32(k) }

// the BGP identifiers of the neighbours DEcrease with the session number while their addresses increase: steps f)
// and g) of the decision process pull in opposite directions
func peerBGPID(k int) uint32 { return 0x0b0b0b10 - uint32(k) }
func peerASN(c sessCfg, k int) uint32 {
	if c.S.IBGP() {
		return aro.LocalASN
	}
	return 65101 + uint32(k)
}

const defLP = 100

func (c sessCfg) attrs(k int) routingtable.SessionAttrs {
	sa := c.S.Attrs()
	sa.PeerIP = aro.IP(peerIP(k))
	sa.PeerASN = peerASN(c, k)
	sa.AddPathRX = c.AddPathRX
	sa.DefaultLocalPreference = defLP
	return sa
}

// local role (wire code) matching the remote role of the session token (RFC 9234)
var localRoleFor = map[string]uint8{"prov": 3, "rs": 2, "rsc": 1, "cust": 0, "peer": 4}
var remoteRoleCode = map[string]uint32{"prov": 0, "rs": 1, "rsc": 2, "cust": 3, "peer": 4}

func (c sessCfg) peerConfig(k int, v *vrf.VRF) server.PeerConfig {
	pc := server.PeerConfig{
		AdminEnabled:            true,
		HoldTime:                90 * time.Second,
		KeepAlive:               30 * time.Second,
		LocalAddress:            aro.IP(aro.LocalIP),
		PeerAddress:             aro.IP(peerIP(k)),
		LocalAS:                 aro.LocalASN,
		PeerAS:                  peerASN(c, k),
		RouterID:                aro.LocalIP,
		RouteServerClient:       c.S.Kind == "rs",
		RouteReflectorClient:    c.S.Kind == "rr",
		RouteReflectorClusterID: aro.ClusterID,
		VRF:                     v,
		IPv4: &server.AddressFamilyConfig{
			ImportFilterChain: mkImportChain(c.PolCode, c.PolArg),
			ExportFilterChain: c.Chain.Build(),
			AddPathRecv:       c.AddPathRX,
			AddPathSend:       c.S.ClientOptions(),
		},
	}
	if c.S.Role != "-" {
		pc.PeerRole = localRoleFor[c.S.Role] + 1
	}
	return pc
}

// the OPEN of the neighbour: 4-octet AS, IPv4 unicast, add-path both ways, its role
func (c sessCfg) openBytes(k int) []byte {
	caps := []fsmx.Cap{{Kind: 'a', V: peerASN(c, k)}, {Kind: 'm', A: 1, S: 1}, {Kind: 'p', A: 1, S: 1, V: 3}}
	if c.S.Role != "-" {
		caps = append(caps, fsmx.Cap{Kind: 'r', V: remoteRoleCode[c.S.Role]})
	}
	return fsmx.OpenBytes(4, int(peerASN(c, k)), 90, peerBGPID(k), caps)
}

type attrs struct {
	ID, LP, MED, NH uint32
	ASP             []uint32
	Orig            uint32
	CL              []uint32
	OTC             uint32
}

func fmtList(l []uint32) string {
	if len(l) == 0 {
		return "_"
	}
	s := make([]string, len(l))
	for i, v := range l {
		s[i] = strconv.FormatUint(uint64(v), 10)
	}
	return strings.Join(s, "-")
}

func parseList(s string) ([]uint32, error) {
	if s == "_" || s == "" {
		return nil, nil
	}
	var out []uint32
	for _, x := range strings.Split(s, "-") {
		v, err := strconv.ParseUint(x, 10, 32)
		if err != nil {
			return nil, err
		}
		out = append(out, uint32(v))
	}
	return out, nil
}

func (a attrs) String() string {
	return fmt.Sprintf("%d.%d.%d.%d.%s.%d.%s.%d", a.ID, a.LP, a.MED, a.NH, fmtList(a.ASP), a.Orig, fmtList(a.CL), a.OTC)
}

func parseAttrs(s string) (attrs, error) {
	f := strings.Split(s, ".")
	if len(f) != 8 {
		return attrs{}, fmt.Errorf("bad attrs %q", s)
	}
	var a attrs
	var err error
	num := func(x string) uint32 {
		v, e := strconv.ParseUint(x, 10, 32)
		if e != nil && err == nil {
			err = e
		}
		return uint32(v)
	}
	a.ID, a.LP, a.MED, a.NH = num(f[0]), num(f[1]), num(f[2]), num(f[3])
	if a.ASP, err = parseList(f[4]); err != nil {
		return a, err
	}
	a.Orig = num(f[5])
	if a.CL, err = parseList(f[6]); err != nil {
		return a, err
	}
	a.OTC = num(f[7])
	return a, err
}

// the route.Path value of a received path (Model/Pipeline.v: lift)
func (a attrs) ps(c sessCfg, k int) aro.PS {
	p := aro.PS{NH: a.NH, Src: peerIP(k), LP: a.LP, MED: a.MED, BGPID: peerBGPID(k), OID: a.Orig, EBGP: !c.S.IBGP(),
		OTC: a.OTC, ASLen: uint16(len(a.ASP)), CL: append([]uint32{}, a.CL...), CLNil: len(a.CL) == 0,
		CommsNil: true, LCommsNil: true, PID: a.ID}
	if len(a.ASP) > 0 {
		p.ASPath = []aro.Seg{{Seq: true, ASNs: append([]uint32{}, a.ASP...)}}
	}
	return p
}

// canonical rendering of an Adj-RIB-In path: id.lp.med.nh.aspath.orig.clist.otc.hid
func inPathStr(p *route.Path) string {
	if p == nil || p.BGPPath == nil || p.BGPPath.BGPPathA == nil {
		return "nil"
	}
	b := p.BGPPath
	var asp []uint32
	if b.ASPath != nil {
		for _, seg := range *b.ASPath {
			asp = append(asp, seg.ASNs...)
		}
	}
	var cl []uint32
	if b.ClusterList != nil {
		cl = append(cl, *b.ClusterList...)
	}
	nh := uint32(0)
	if b.BGPPathA.NextHop != nil {
		nh = b.BGPPathA.NextHop.ToUint32()
	}
	return fmt.Sprintf("%d.%d.%d.%d.%s.%d.%s.%d.%d", b.PathIdentifier, b.BGPPathA.LocalPref, b.BGPPathA.MED, nh, fmtList(asp),
		b.BGPPathA.OriginatorID, fmtList(cl), b.BGPPathA.OnlyToCustomer, p.HiddenReason)
}

// mkImportChain builds the filter chain for a policy code (sample_policy in coq/Model/AdjRIBIn.v)
func mkImportChain(code, arg uint32) filter.Chain {
	acc := actions.NewAcceptAction()
	var odd []*filter.RouteFilter
	for i := 1; i < nPfx; i += 2 {
		odd = append(odd, filter.NewRouteFilter(pfxNet(i), filter.NewExactMatcher()))
	}
	rejectOdd := filter.NewTerm("reject-odd", []*filter.TermCondition{filter.NewTermConditionWithRouteFilters(odd...)},
		[]actions.Action{actions.NewRejectAction()})
	one := func(terms ...*filter.Term) filter.Chain { return filter.Chain{filter.NewFilter("f", terms)} }
	switch code {
	case 0:
		return filter.NewAcceptAllFilterChain()
	case 1:
		return filter.NewDrainFilterChain()
	case 2:
		return one(rejectOdd, filter.NewTerm("accept", nil, []actions.Action{acc}))
	case 3:
		return one(filter.NewTerm("lp", nil, []actions.Action{actions.NewSetLocalPrefAction(arg), acc}))
	case 4:
		return one(filter.NewTerm("med", nil, []actions.Action{actions.NewSetMEDAction(arg), acc}))
	case 5:
		return one(filter.NewTerm("prepend", nil, []actions.Action{actions.NewASPathPrependAction(arg, 1), acc}))
	case 6:
		return one(filter.NewTerm("nh", nil, []actions.Action{actions.NewSetNextHopAction(aro.IP(arg)), acc}))
	default:
		return filter.Chain{
			filter.NewFilter("f1", []*filter.Term{rejectOdd}),
			filter.NewFilter("f2", []*filter.Term{filter.NewTerm("lp", nil, []actions.Action{actions.NewSetLocalPrefAction(arg), acc})}),
		}
	}
}

// ---------------------------------------------------------------- events

type event struct {
	kind  byte // U D R Q E X
	k     int
	pfx   int
	id    uint32 // Q: index
	bytes []byte // R
}

func (e event) token() string {
	switch e.kind {
	case 'R':
		return fmt.Sprintf("R%d:%s", e.k, hex.EncodeToString(e.bytes))
	case 'Q':
		return fmt.Sprintf("%c%d:%d:%d", e.kind, e.k, e.pfx, e.id)
	}
	return fmt.Sprintf("%c%d", e.kind, e.k)
}

type tcase struct {
	cfgs []sessCfg
	evs  []event
}

func (c tcase) input() string {
	var t []string
	for _, s := range c.cfgs {
		t = append(t, s.token())
	}
	for _, e := range c.evs {
		t = append(t, e.token())
	}
	return strings.Join(t, " ")
}

func parseCase(in string) (tcase, error) {
	var c tcase
	for _, t := range strings.Fields(in) {
		if strings.HasPrefix(t, "K:") {
			f := strings.SplitN(t, ":", 7)
			if len(f) != 7 {
				return c, fmt.Errorf("bad session token %q", t)
			}
			mp, err := strconv.Atoi(f[2])
			if err != nil {
				return c, err
			}
			pc := strings.SplitN(f[5], ".", 2)
			if len(pc) != 2 {
				return c, fmt.Errorf("bad policy in %q", t)
			}
			code, e1 := strconv.ParseUint(pc[0], 10, 32)
			arg, e2 := strconv.ParseUint(pc[1], 10, 32)
			if e1 != nil || e2 != nil {
				return c, fmt.Errorf("bad policy in %q", t)
			}
			ch, err := aro.ParseChain(f[6])
			if err != nil {
				return c, err
			}
			c.cfgs = append(c.cfgs, sessCfg{S: aro.Sess{Kind: f[1], MaxPaths: mp, Role: f[3]}, AddPathRX: f[4] == "1",
				PolCode: uint32(code), PolArg: uint32(arg), Chain: ch})
			continue
		}
		e := event{kind: t[0]}
		f := strings.Split(t[1:], ":")
		var err error
		if e.k, err = strconv.Atoi(f[0]); err != nil {
			return c, fmt.Errorf("bad event %q", t)
		}
		switch e.kind {
		case 'U', 'D', 'E', 'X':
			if len(f) != 1 {
				return c, fmt.Errorf("bad event %q", t)
			}
		case 'R':
			if len(f) != 2 {
				return c, fmt.Errorf("bad event %q", t)
			}
			if e.bytes, err = hex.DecodeString(f[1]); err != nil {
				return c, err
			}
		case 'Q':
			if len(f) != 3 {
				return c, fmt.Errorf("bad event %q", t)
			}
			if e.pfx, err = strconv.Atoi(f[1]); err != nil {
				return c, err
			}
			v, err := strconv.ParseUint(f[2], 10, 32)
			if err != nil {
				return c, err
			}
			e.id = uint32(v)
		default:
			return c, fmt.Errorf("bad event %q", t)
		}
		c.evs = append(c.evs, e)
	}
	if len(c.cfgs) == 0 {
		return c, fmt.Errorf("no sessions")
	}
	return c, nil
}

// ---------------------------------------------------------------- wire rendering

func joinU32(b []byte, sep string) string {
	var it []string
	for i := 0; i+4 <= len(b); i += 4 {
		it = append(it, fmt.Sprint(binary.BigEndian.Uint32(b[i:])))
	}
	return strings.Join(it, sep)
}

// attrStr renders one attribute value (type code, value bytes) like ocaml print_wattr
func attrStr(code int, v []byte) string {
	switch code {
	case 1:
		if len(v) < 1 {
			return "1=?"
		}
		return fmt.Sprintf("1=%d", v[0])
	case 2:
		var segs []string
		for len(v) >= 2 {
			k := "s"
			if v[0] == 2 {
				k = "q"
			}
			n := int(v[1])
			if len(v) < 2+4*n {
				return "2=?"
			}
			segs = append(segs, k+joinU32(v[2:2+4*n], "."))
			v = v[2+4*n:]
		}
		if len(segs) == 0 {
			return "2=e"
		}
		return "2=" + strings.Join(segs, "_")
	case 3, 4, 5, 9, 8, 10:
		return fmt.Sprintf("%d=%s", code, joinU32(v, "."))
	case 6:
		return "6"
	case 7:
		if len(v) < 6 {
			return "7=?"
		}
		if len(v) >= 8 {
			return fmt.Sprintf("7=%d.%d", binary.BigEndian.Uint32(v), binary.BigEndian.Uint32(v[4:]))
		}
		return fmt.Sprintf("7=%d.%d", binary.BigEndian.Uint16(v), binary.BigEndian.Uint32(v[2:]))
	case 32:
		var it []string
		for i := 0; i+12 <= len(v); i += 12 {
			it = append(it, fmt.Sprintf("%d:%d:%d", binary.BigEndian.Uint32(v[i:]), binary.BigEndian.Uint32(v[i+4:]), binary.BigEndian.Uint32(v[i+8:])))
		}
		return "32=" + strings.Join(it, ".")
	}
	bs := make([]string, len(v))
	for i, x := range v {
		bs[i] = fmt.Sprint(x)
	}
	return fmt.Sprintf("u%d:%s", code, strings.Join(bs, "."))
}

// the attributes of a decoded UPDATE, sorted
func updAttrs(u *usx.Update) string {
	var out []string
	for tc, v := range u.Attrs {
		out = append(out, attrStr(int(tc), v))
	}
	if len(u.NextHop) > 0 {
		out = append(out, attrStr(3, u.NextHop))
	}
	sort.Strings(out)
	return strings.Join(out, ";")
}

// the attributes an UPDATE for path p must carry on this session, sorted (encoder = packet.PathAttributes, C09/C16/C17)
func pathAttrs(p *route.Path, s aro.Sess) (string, error) {
	pa, err := packet.PathAttributes(p, s.IBGP(), s.Kind == "rr")
	if err != nil {
		return "", err
	}
	buf := bytes.NewBuffer(nil)
	for x := pa; x != nil; x = x.Next {
		x.Serialize(buf, &packet.EncodeOptions{Use32BitASN: true})
	}
	b := buf.Bytes()
	var out []string
	for len(b) > 0 {
		if len(b) < 3 {
			return "", fmt.Errorf("truncated attribute")
		}
		flags, code := b[0], int(b[1])
		l, h := int(b[2]), 3
		if flags&0x10 != 0 {
			if len(b) < 4 {
				return "", fmt.Errorf("truncated attribute")
			}
			l, h = int(binary.BigEndian.Uint16(b[2:])), 4
		}
		if len(b) < h+l {
			return "", fmt.Errorf("attribute overruns")
		}
		out = append(out, attrStr(code, b[h:h+l]))
		b = b[h+l:]
	}
	sort.Strings(out)
	return strings.Join(out, ";"), nil
}

func pfxOfWire(x usx.Pfx) int {
	if x.V6 || x.Len > 32 {
		return 999
	}
	var a uint32
	if x.Len > 0 {
		a = uint32(x.Idx << (32 - uint(x.Len)))
	}
	return pfxIdxOf(a, x.Len)
}

// ---------------------------------------------------------------- the world

type ann struct {
	pfx      int
	raw      attrs
	eligible bool
	norm     attrs
}

type slot struct {
	pfx int
	id  uint32
}

type sess struct {
	k     int
	cfg   sessCfg
	sa    routingtable.SessionAttrs
	up    bool
	vp    *server.VerifFSMPeer
	fsm   *server.VerifFSM
	in    routingtable.AdjRIBIn // the real Adj-RIB-In of the current (or last) Established period
	shim  *locShim
	us    *server.VerifUS
	ucfg  usx.Cfg
	batch *server.VerifUSBatch
	peer  map[string]string // "pfx/pid" -> attributes
	wire  []string          // messages written during the current event

	// oracle bookkeeping
	anns        map[slot]*ann
	tainted     map[int]bool                       // prefixes withdrawn while their announcement was in flight
	unexport    map[int]bool                       // a path this session must not be told (its own) entered the Loc-RIB
	sibs        map[int]map[string]map[string]bool // pfx -> siblingKey -> AnnKeys of this session's policy outputs
	dups        map[int]map[string]map[string]bool // pfx -> AnnKey of the policy output -> the Loc-RIB paths it came from
	drainedOnce bool
}

type world struct {
	c     tcase
	vrf   *vrf.VRF
	rib   *locRIB.LocRIB
	ss    []*sess
	clock int
	lrec  []string
	asns  map[uint32]int
	cids  map[uint32]int
	v     *verdict
	stats map[string]int
	nt    bool
	slow  bool // a step was not delivered (the FSM's own 1-second poll fired): the case must be repeated
	blind bool // a known codec finding made the speaker process what the reference rejects: no expectation afterwards
}

type verdict struct{ sig, detail string }

func (w *world) fail(sig, detail string) {
	known := map[string]bool{"stale-after-withdraw-on-rewriting-session": true, "addpath-prefix-wiped-by-unexportable-arrival": true,
		"addpath-withdraw-hits-compare-equal-sibling": true, "withdrawal-overtakes-in-flight-announcement": true,
		"addpath-duplicate-export-withdrawn-while-copy-remains": true, "install-from-malformed-lengths-attrs-overrun": true}
	w.stats["sig_"+sig]++
	// an unlisted signature is never hidden behind a known one
	if w.v == nil || (known[w.v.sig] && !known[sig]) {
		w.v = &verdict{sig, detail}
	}
}

// locShim forwards the Adj-RIB-In's calls to the Loc-RIB and records the route after each of them
type locShim struct {
	w *world
	k int
}

func (s *locShim) note(pfx *bnet.Prefix) {
	w := s.w
	t := w.clock
	w.clock++
	r := w.rib.Get(pfx)
	rec := fmt.Sprintf("%d:%d:0:-", t, pfxIdx(pfx))
	if r != nil && len(r.Paths()) > 0 {
		it := make([]string, len(r.Paths()))
		for i, p := range r.Paths() {
			it[i] = aro.Render(p)
		}
		rec = fmt.Sprintf("%d:%d:%d:%s", t, pfxIdx(pfx), r.ECMPPathCount(), strings.Join(it, ","))
	}
	w.lrec = append(w.lrec, rec)
}

func (s *locShim) AddPath(pfx *bnet.Prefix, p *route.Path) error {
	s.w.pathEntersLocRIB(s.k, pfx, p)
	err := s.w.rib.AddPath(pfx, p)
	s.note(pfx)
	return err
}
func (s *locShim) AddPathInitialDump(pfx *bnet.Prefix, p *route.Path) error {
	s.w.pathEntersLocRIB(s.k, pfx, p)
	err := s.w.rib.AddPathInitialDump(pfx, p)
	s.note(pfx)
	return err
}
func (s *locShim) RemovePath(pfx *bnet.Prefix, p *route.Path) bool {
	r := s.w.rib.RemovePath(pfx, p)
	s.note(pfx)
	return r
}
func (s *locShim) ReplacePath(pfx *bnet.Prefix, o, n *route.Path) {
	s.w.rib.ReplacePath(pfx, o, n)
	s.note(pfx)
}
func (s *locShim) EndOfRIB()                                { s.w.rib.EndOfRIB() }
func (s *locShim) RefreshRoute(*bnet.Prefix, []*route.Path) {}
func (s *locShim) Dispose()                                 {}

func siblingKey(p aro.PS) string {
	q := p
	q.OTC, q.PID, q.ASLen, q.Redist = 0, 0, 0, 0
	return q.Token()
}

// bookkeeping for the classification of the known Adj-RIB-Out findings (as harness/cmd/c08 does)
func (w *world) pathEntersLocRIB(from int, pfx *bnet.Prefix, p *route.Path) {
	for _, s := range w.ss {
		if s.up {
			w.pathEntersLocRIBFor(s, from, pfx, p)
		}
	}
}

func (s *sess) hasSiblings(pfx int) bool {
	for _, m := range s.sibs[pfx] {
		if len(m) > 1 {
			return true
		}
	}
	return false
}

// inShim is the Adj-RIB-In the family holds: the real one, except that the Loc-RIB is registered behind the recorder
type inShim struct {
	routingtable.AdjRIBIn
	s *sess
}

func (i *inShim) Register(routingtable.RouteTableClient)   { i.AdjRIBIn.Register(i.s.shim) }
func (i *inShim) Unregister(routingtable.RouteTableClient) { i.AdjRIBIn.Unregister(i.s.shim) }

func newWorld(c tcase) *world {
	w := &world{c: c, vrf: vrf.NewUntrackedVRF("verif", 0), asns: map[uint32]int{}, cids: map[uint32]int{}, stats: map[string]int{}}
	w.rib, _ = w.vrf.CreateIPv4UnicastLocRIB("inet.0")
	for k, cfg := range c.cfgs {
		s := &sess{k: k, cfg: cfg, sa: cfg.attrs(k)}
		vp, err := server.VerifFSMNewPeer(cfg.peerConfig(k, w.vrf))
		if err != nil {
			panic(fmt.Sprintf("harness: newPeer failed: %v", err))
		}
		vp.VerifWrapAdjRIBIn(func(in routingtable.AdjRIBIn, sa routingtable.SessionAttrs) routingtable.AdjRIBIn {
			s.in = in
			s.shim = &locShim{w: w, k: s.k}
			return &inShim{AdjRIBIn: in, s: s}
		})
		s.vp = vp
		s.fsm = vp.NewFSM("idle")
		w.ss = append(w.ss, s)
	}
	return w
}

func (w *world) dispose() {
	for _, s := range w.ss {
		s.fsm.Step(server.VerifFSMEvent{Kind: "admin", Code: 100})
		s.fsm.Dispose()
	}
}

func (w *world) stepFSM(s *sess, ev server.VerifFSMEvent) server.VerifFSMStepResult {
	r := s.fsm.Step(ev)
	if r.Panic != "" {
		w.fail("speaker-panic", fmt.Sprintf("session %d: %s", s.k, r.Panic))
	}
	if r.Wedged != "" {
		w.fail("speaker-hang", fmt.Sprintf("session %d: %s", s.k, r.Wedged))
	}
	return r
}

func saDiff(a, b routingtable.SessionAttrs) string {
	var d []string
	chk := func(n string, x, y interface{}) {
		if fmt.Sprint(x) != fmt.Sprint(y) {
			d = append(d, fmt.Sprintf("%s: %v, expected %v", n, x, y))
		}
	}
	chk("RouterID", a.RouterID, b.RouterID)
	chk("PeerIP", a.PeerIP, b.PeerIP)
	chk("LocalIP", a.LocalIP, b.LocalIP)
	chk("IBGP", a.IBGP, b.IBGP)
	chk("LocalASN", a.LocalASN, b.LocalASN)
	chk("PeerASN", a.PeerASN, b.PeerASN)
	chk("RouteServerClient", a.RouteServerClient, b.RouteServerClient)
	chk("RouteReflectorClient", a.RouteReflectorClient, b.RouteReflectorClient)
	chk("ClusterID", a.ClusterID, b.ClusterID)
	chk("AddPathRX", a.AddPathRX, b.AddPathRX)
	chk("AddPathTX", a.AddPathTX, b.AddPathTX)
	chk("PeerRoleEnabled", a.PeerRoleEnabled, b.PeerRoleEnabled)
	chk("PeerRoleAdvByPeer", a.PeerRoleAdvByPeer, b.PeerRoleAdvByPeer)
	if b.PeerRoleEnabled {
		chk("PeerRoleRemote", a.PeerRoleRemote, b.PeerRoleRemote)
	}
	return strings.Join(d, "; ")
}

// ---------------------------------------------------------------- the operations

// sessUp: the neighbour's side of session establishment; fsmAddressFamily.init runs when the KEEPALIVE arrives
func (w *world) sessUp(s *sess) {
	if s.up {
		return
	}
	w.stepFSM(s, server.VerifFSMEvent{Kind: "admin", Code: 1})
	w.stepFSM(s, server.VerifFSMEvent{Kind: "tcp-up"})
	w.stepFSM(s, server.VerifFSMEvent{Kind: "msg", Bytes: s.cfg.openBytes(s.k)})
	if s.fsm.StateName() != "openConfirm" {
		w.slow = true
		return
	}
	// the oracle's bookkeeping of what init is about to do
	w.asns[s.sa.LocalASN]++
	if s.sa.RouteReflectorClient {
		w.cids[s.sa.ClusterID]++
	}
	s.ucfg = usx.Cfg{Fam: "v4", AddPath: s.cfg.S.MaxPaths > 0, ASN4: true, IBGP: s.cfg.S.IBGP(), RR: s.cfg.S.Kind == "rr"}
	s.batch = nil
	s.peer = map[string]string{}
	s.anns = map[slot]*ann{}
	s.tainted = map[int]bool{}
	s.unexport = map[int]bool{}
	s.sibs = map[int]map[string]map[string]bool{}
	s.dups = map[int]map[string]map[string]bool{}
	s.up = true
	w.clock++ // RegisterWithOptions is a Loc-RIB operation
	// what is in the Loc-RIB already may be something this session must not be told / siblings under its policy
	for _, r := range w.rib.Dump() {
		for _, p := range r.Paths() {
			ps, err := aro.Describe(p)
			if err != nil {
				continue
			}
			from := -1
			if ps.Src == peerIP(s.k) {
				from = s.k
			}
			w.pathEntersLocRIBFor(s, from, r.Prefix(), p)
		}
	}
	w.stepFSM(s, server.VerifFSMEvent{Kind: "msg", Bytes: fsmx.KeepaliveBytes()})
	if s.fsm.StateName() != "established" {
		w.slow = true
		return
	}
	s.us = s.fsm.VerifTakeSender(packet.AFIIPv4)
	if s.us == nil {
		panic("harness: no update sender on an established session")
	}
	if real, ok := s.fsm.VerifSessionAttrs(packet.AFIIPv4); ok {
		if d := saDiff(real, s.sa); d != "" {
			w.fail("speaker-session-attributes-differ", fmt.Sprintf("session %d (%s): %s", s.k, s.cfg.token(), d))
		}
	}
	if o, ok := s.fsm.VerifAddPathTX(packet.AFIIPv4); ok && o != s.cfg.S.ClientOptions() {
		w.fail("speaker-session-attributes-differ", fmt.Sprintf("session %d: add-path TX options %+v", s.k, o))
	}
}

func (w *world) pathEntersLocRIBFor(s *sess, from int, pfx *bnet.Prefix, p *route.Path) {
	id := pfxIdx(pfx)
	if s.k == from {
		s.unexport[id] = true
	}
	fp, reject := s.cfg.Chain.Build().Process(pfx, p.Copy())
	if reject {
		return
	}
	e, err := aro.Describe(fp)
	if err != nil {
		return
	}
	if s.sibs[id] == nil {
		s.sibs[id] = map[string]map[string]bool{}
	}
	sk := siblingKey(e)
	if s.sibs[id][sk] == nil {
		s.sibs[id][sk] = map[string]bool{}
	}
	s.sibs[id][sk][e.AnnKey()] = true
	if s.dups[id] == nil {
		s.dups[id] = map[string]map[string]bool{}
	}
	if s.dups[id][e.AnnKey()] == nil {
		s.dups[id][e.AnnKey()] = map[string]bool{}
	}
	s.dups[id][e.AnnKey()][aro.Render(p)] = true
}

// two different Loc-RIB paths of the prefix that this session exports as one and the same announcement
func (s *sess) hasDuplicateExports(pfx int) bool {
	for _, m := range s.dups[pfx] {
		if len(m) > 1 {
			return true
		}
	}
	return false
}

// wentDown: the oracle's bookkeeping after the session left Established (fsmAddressFamily.dispose has run)
func (w *world) wentDown(s *sess) {
	w.asns[s.sa.LocalASN]--
	if s.sa.RouteReflectorClient {
		w.cids[s.sa.ClusterID]--
	}
	w.clock++ // Unregister is a Loc-RIB operation
	s.anns = map[slot]*ann{}
	s.up = false
	s.batch = nil
}

func (w *world) sessDown(s *sess) {
	if !s.up {
		return
	}
	w.stepFSM(s, server.VerifFSMEvent{Kind: "admin", Code: 2})
	if s.fsm.StateName() == "established" {
		w.slow = true
		return
	}
	w.wentDown(s)
}

// ---------------------------------------------------------------- the reference reading of the input bytes

type refNLRI struct {
	pfx int
	id  uint32
}

// refClass: what RFC 4271 makes of one frame sent to an Established session: "update" (with its content),
// "keepalive", "down" (NOTIFICATION, OPEN, unknown type, malformed UPDATE: the session ends)
func refRead(b []byte, addPathRX bool) (class string, wd []refNLRI, at attrs, ann []refNLRI, covered bool, why string) {
	if len(b) < 19 {
		return "down", nil, at, nil, true, "short"
	}
	switch b[18] {
	case 4:
		if len(b) == 19 {
			return "keepalive", nil, at, nil, true, ""
		}
		return "down", nil, at, nil, true, "keepalive with a body"
	case 2:
	default:
		return "down", nil, at, nil, true, fmt.Sprintf("message type %d", b[18])
	}
	u, err := usx.DecodeUpdate(b, usx.Cfg{Fam: "v4", AddPath: addPathRX, ASN4: true})
	if err != nil {
		return "down", nil, at, nil, true, err.Error()
	}
	covered = true
	conv := func(l []usx.NLRI) (out []refNLRI) {
		for _, n := range l {
			i := pfxOfWire(n.P)
			if i >= nPfx {
				covered = false
			}
			out = append(out, refNLRI{i, n.PID})
		}
		return
	}
	wd, ann = conv(u.Withdrawn), conv(u.Announced)
	u32 := func(code uint8) uint32 {
		v, ok := u.Attrs[code]
		if !ok {
			return 0
		}
		if len(v) != 4 {
			covered = false
			return 0
		}
		return binary.BigEndian.Uint32(v)
	}
	at.LP, at.MED, at.Orig = u32(5), u32(4), u32(9)
	if len(u.NextHop) == 4 {
		at.NH = binary.BigEndian.Uint32(u.NextHop)
	} else if len(ann) > 0 {
		covered = false
	}
	if v, ok := u.Attrs[1]; ok && (len(v) != 1 || v[0] != 0) {
		covered = false
	}
	if v, ok := u.Attrs[2]; ok {
		segs := 0
		for len(v) >= 2 {
			n := int(v[1])
			if len(v) < 2+4*n || v[0] != 2 {
				covered = false
				break
			}
			for i := 0; i < n; i++ {
				at.ASP = append(at.ASP, binary.BigEndian.Uint32(v[2+4*i:]))
			}
			v = v[2+4*n:]
			segs++
		}
		if segs > 1 {
			covered = false
		}
	}
	if v, ok := u.Attrs[10]; ok {
		for i := 0; i+4 <= len(v); i += 4 {
			at.CL = append(at.CL, binary.BigEndian.Uint32(v[i:]))
		}
		if len(v) == 0 || len(v)%4 != 0 {
			covered = false
		}
	}
	for code := range u.Attrs {
		switch code {
		case 1, 2, 4, 5, 9, 10:
		default:
			covered = false
		}
	}
	if len(ann) > 0 {
		// RFC 4271 6.3: ORIGIN, AS_PATH and NEXT_HOP are mandatory in an UPDATE that carries NLRI
		_, o := u.Attrs[1]
		_, p := u.Attrs[2]
		if !o || !p || len(u.NextHop) == 0 {
			return "down", nil, at, nil, true, "mandatory attribute missing"
		}
	}
	return "update", wd, at, ann, covered, ""
}

// recv: the peer of session s sends one frame
func (w *world) recv(s *sess, b []byte) (withdrawn bool) {
	if !s.up {
		return false
	}
	class, wd, at, anl, covered, why := refRead(b, s.cfg.AddPathRX)
	// C19's known finding: the last attribute runs past the Total Path Attribute Length (the reference: "attribute <type> length <n>")
	attrsOverrun := strings.HasPrefix(why, "attribute ")
	w.stats["recv_"+class]++
	if !covered {
		// outside what the RIB models (and this oracle's path values) represent: nothing is expected afterwards
		w.blind = true
		w.stats["recv_uncovered"]++
	}
	if class == "update" {
		for _, n := range wd {
			if _, ok := s.anns[s.slotOf(n.pfx, n.id)]; ok {
				withdrawn = true
			}
			delete(s.anns, s.slotOf(n.pfx, n.id))
		}
		for _, n := range anl {
			a := at
			a.ID = n.id
			s.anns[s.slotOf(n.pfx, n.id)] = &ann{pfx: n.pfx, raw: a, eligible: !w.ineligible(s, a), norm: s.normalize(a)}
		}
	}
	if class == "down" && len(s.anns) > 0 {
		withdrawn = true
	}
	r := w.stepFSM(s, server.VerifFSMEvent{Kind: "msg", Bytes: b})
	if !r.Delivered {
		if r.FrameErr {
			w.fail("speaker-frame-not-read", fmt.Sprintf("session %d: recvMsg refused %x", s.k, b))
		} else {
			w.slow = true
		}
		return
	}
	stillUp := s.fsm.StateName() == "established"
	switch {
	case class == "down" && stillUp:
		if attrsOverrun {
			w.fail("install-from-malformed-lengths-attrs-overrun", fmt.Sprintf("session %d processed %x", s.k, b))
		} else {
			w.fail("speaker-session-survives-malformed-message", fmt.Sprintf("session %d stayed Established after %x", s.k, b))
		}
		w.blind = true
	case class != "down" && !stillUp:
		w.fail("speaker-session-ends-on-wellformed-message", fmt.Sprintf("session %d left Established after %x", s.k, b))
		w.blind = true
	}
	if !stillUp {
		w.wentDown(s)
	}
	return
}

func (s *sess) slotOf(pfx int, id uint32) slot {
	if s.cfg.AddPathRX {
		return slot{pfx, id}
	}
	return slot{pfx, 0}
}

// the five clauses of C06, from the property text, on this session's attributes and the VRF as it is now
func (w *world) ineligible(s *sess, a attrs) bool {
	for _, asn := range a.ASP {
		if w.asns[asn] > 0 {
			return true
		}
	}
	if a.Orig == s.sa.RouterID {
		return true
	}
	for _, cid := range a.CL {
		if w.cids[cid] > 0 {
			return true
		}
	}
	if s.sa.PeerRoleEnabled && s.sa.PeerRoleAdvByPeer && a.OTC != 0 {
		if s.sa.PeerRoleRemote == 3 || s.sa.PeerRoleRemote == 2 {
			return true
		}
		if s.sa.PeerRoleRemote == 4 && a.OTC != s.sa.PeerASN {
			return true
		}
	}
	if !s.sa.IBGP && len(a.ASP) == 0 {
		return true
	}
	return false
}

func (s *sess) normalize(a attrs) attrs {
	n := a
	if s.sa.PeerRoleEnabled && s.sa.PeerRoleAdvByPeer && a.OTC == 0 &&
		(s.sa.PeerRoleRemote == 0 || s.sa.PeerRoleRemote == 4 || s.sa.PeerRoleRemote == 1) {
		n.OTC = s.sa.PeerASN
	}
	if !s.sa.IBGP && n.LP == 0 {
		n.LP = defLP
	}
	return n
}

// canonical order of pending entries: path id, attributes, first prefix
type pend struct {
	key   string
	pid   uint32
	attrs string
	pfxs  []int
}

func (s *sess) pending() []pend {
	var out []pend
	for _, k := range s.us.Keys() {
		p, pfxs := s.us.Pending(k)
		if p == nil {
			continue
		}
		a, err := pathAttrs(p, s.cfg.S)
		if err != nil {
			a = "ERR"
		}
		e := pend{key: k, pid: p.BGPPath.PathIdentifier, attrs: a}
		for _, x := range pfxs {
			e.pfxs = append(e.pfxs, pfxIdx(x))
		}
		// the order in which prefixes joined an entry follows the caller's iteration order (trie order in
		// AdjRIBIn.Unregister): a set
		sort.Ints(e.pfxs)
		out = append(out, e)
	}
	// (the path identifier last: the numbers an add-path session allocates depend on the order in which
	// AdjRIBIn.Unregister walks its trie, see ocaml/speaker/speaker_run.ml)
	sort.Slice(out, func(i, j int) bool {
		if out[i].attrs != out[j].attrs {
			return out[i].attrs < out[j].attrs
		}
		if fmt.Sprint(out[i].pfxs) != fmt.Sprint(out[j].pfxs) {
			return fmt.Sprint(out[i].pfxs) < fmt.Sprint(out[j].pfxs)
		}
		return out[i].pid < out[j].pid
	})
	return out
}

func (s *sess) emitOne() {
	if s.batch == nil {
		return
	}
	s.us.EmitOne(s.batch)
	if s.batch.Remaining() == 0 {
		s.batch = nil
	}
}

func (s *sess) dequeue(key string) {
	if s.batch != nil {
		return
	}
	b := s.us.Dequeue(key)
	if b != nil && b.Remaining() > 0 {
		s.batch = b
	}
}

func (s *sess) drain() {
	for s.batch != nil {
		s.emitOne()
	}
	for {
		p := s.pending()
		if len(p) == 0 {
			return
		}
		s.dequeue(p[0].key)
		for s.batch != nil {
			s.emitOne()
		}
	}
}

// frames splits what was written to a connection into messages
func frames(b []byte) (out [][]byte, ok bool) {
	for len(b) > 0 {
		if len(b) < 19 {
			return out, false
		}
		l := int(binary.BigEndian.Uint16(b[16:18]))
		if l < 19 || l > len(b) {
			return out, false
		}
		out = append(out, b[:l])
		b = b[l:]
	}
	return out, true
}

// the attribute section of an UPDATE frame
func attrSection(f []byte) []byte {
	wl := int(binary.BigEndian.Uint16(f[19:]))
	al := int(binary.BigEndian.Uint16(f[21+wl:]))
	return f[23+wl : 23+wl+al]
}

// collect what was written during the event: update the peer's view, render the messages
func (w *world) collect(s *sess, flatten bool) {
	s.wire = nil
	var buf []byte
	for _, cn := range s.fsm.Conns() {
		buf = append(buf, cn.TakeWritten()...)
	}
	fs, ok := frames(buf)
	if !ok {
		w.fail("speaker-writes-garbage", fmt.Sprintf("session %d: %x", s.k, buf))
	}
	for _, ch := range fs {
		if ch[18] != 2 {
			w.stats[fmt.Sprintf("sent_type_%d", ch[18])]++
			continue
		}
		u, err := usx.DecodeUpdate(ch, s.ucfg)
		if err != nil {
			w.fail("speaker-undecodable-update", fmt.Sprintf("session %d: %v (%x)", s.k, err, ch))
			s.wire = append(s.wire, "BAD")
			continue
		}
		if u.EoR {
			s.wire = append(s.wire, "E#"+hex.EncodeToString(ch))
			continue
		}
		for _, n := range u.Withdrawn {
			p := pfxOfWire(n.P)
			delete(s.peer, fmt.Sprintf("%d/%d", p, n.PID))
			s.wire = append(s.wire, fmt.Sprintf("W%d!%d#%s", n.PID, p, hex.EncodeToString(ch)))
			if s.batch != nil {
				for _, m := range s.batch.Split()[len(s.batch.Split())-s.batch.Remaining():] {
					for _, x := range m {
						if pfxIdx(x) == p {
							s.tainted[p] = true
						}
					}
				}
			}
		}
		if len(u.Announced) > 0 {
			a := updAttrs(u)
			var ps []string
			pid := u.Announced[0].PID
			for _, n := range u.Announced {
				s.peer[fmt.Sprintf("%d/%d", pfxOfWire(n.P), n.PID)] = a
				ps = append(ps, strconv.Itoa(pfxOfWire(n.P)))
			}
			sort.Strings(ps) // NLRI order within one UPDATE = queueing order, see pending()
			hx := hex.EncodeToString(attrSection(ch))
			if flatten {
				// the registration's dump may be cut into UPDATEs differently if the sender's ticker fires meanwhile
				for _, p := range ps {
					s.wire = append(s.wire, fmt.Sprintf("A%d!%s!%s#%s", pid, p, a, hx))
				}
			} else {
				s.wire = append(s.wire, fmt.Sprintf("A%d!%s!%s#%s", pid, strings.Join(ps, "."), a, hx))
			}
		}
	}
}

func (s *sess) isDrained() bool {
	return s.up && s.batch == nil && len(s.us.Keys()) == 0
}

func (s *sess) obs() string {
	if s.in == nil {
		return "u0~-~-~-~-~?"
	}
	var in []string
	for _, r := range s.in.Dump() {
		for _, p := range r.Paths() {
			in = append(in, fmt.Sprintf("%d/%s", pfxIdx(r.Prefix()), inPathStr(p)))
		}
	}
	sort.Strings(in)
	var pe []string
	for _, e := range s.pending() {
		ps := make([]string, len(e.pfxs))
		for i, x := range e.pfxs {
			ps[i] = strconv.Itoa(x)
		}
		pe = append(pe, fmt.Sprintf("%d!%s!%s", e.pid, strings.Join(ps, "."), e.attrs))
	}
	view := "?"
	if s.isDrained() {
		var v []string
		for k, a := range s.peer {
			v = append(v, k+"!"+a)
		}
		sort.Strings(v)
		view = aro.JoinOrDash(v, ",")
	}
	if !s.up {
		// a disposed session: its objects are garbage; only the Adj-RIB-In content (kept by the object) is still compared
		return fmt.Sprintf("u0~%s~-~-~%s~?", aro.JoinOrDash(in, ","), aro.JoinOrDash(s.wire, ","))
	}
	return fmt.Sprintf("u1~%s~%s~%s~%s~%s", aro.JoinOrDash(in, ","), dumpTable(s.fsm.AdjRIBOutDump(packet.AFIIPv4, packet.SAFIUnicast)), aro.JoinOrDash(pe, ","),
		aro.JoinOrDash(s.wire, ","), view)
}

func dumpTable(routes []*route.Route) string {
	type ent struct {
		id int
		s  string
	}
	var es []ent
	for _, r := range routes {
		ps := r.Paths()
		if len(ps) == 0 {
			continue
		}
		it := make([]string, len(ps))
		for i, p := range ps {
			it[i] = aro.Render(p)
		}
		es = append(es, ent{pfxIdx(r.Prefix()), strings.Join(it, ",")})
	}
	if len(es) == 0 {
		return "-"
	}
	sort.Slice(es, func(i, j int) bool { return es[i].id < es[j].id })
	out := make([]string, len(es))
	for i, e := range es {
		out[i] = fmt.Sprintf("%d=%s", e.id, e.s)
	}
	return strings.Join(out, ";")
}

// ---------------------------------------------------------------- the spec oracle

// RFC 4271 9.1.2.2 (+ RFC 4456) order on path values, written from the RFCs: negative = a preferred
func rfcCmp(a, b aro.PS) int {
	lt := func(x, y uint64) int {
		if x < y {
			return -1
		}
		if x > y {
			return 1
		}
		return 0
	}
	if a.LP != b.LP { // higher LOCAL_PREF
		return -lt(uint64(a.LP), uint64(b.LP))
	}
	if a.ASLen != b.ASLen { // shorter AS_PATH
		return lt(uint64(a.ASLen), uint64(b.ASLen))
	}
	if a.Origin != b.Origin {
		return lt(uint64(a.Origin), uint64(b.Origin))
	}
	if a.MED != b.MED {
		return lt(uint64(a.MED), uint64(b.MED))
	}
	if a.EBGP != b.EBGP { // eBGP over iBGP
		if a.EBGP {
			return -1
		}
		return 1
	}
	ida, idb := a.BGPID, b.BGPID
	if a.OID != 0 {
		ida = a.OID
	}
	if b.OID != 0 {
		idb = b.OID
	}
	if ida != idb {
		return lt(uint64(ida), uint64(idb))
	}
	if len(a.CL) != len(b.CL) {
		return lt(uint64(len(a.CL)), uint64(len(b.CL)))
	}
	if a.Src != b.Src { // lowest peer address
		return lt(uint64(a.Src), uint64(b.Src))
	}
	return 0
}

// the candidates of a prefix: union over the sessions that are up of their eligible announcements, rewritten
func (w *world) candidates(pfx int) []aro.PS {
	var out []aro.PS
	for _, s := range w.ss {
		if !s.up {
			continue
		}
		var keys []slot
		for k := range s.anns {
			keys = append(keys, k)
		}
		sort.Slice(keys, func(i, j int) bool { return keys[i].id < keys[j].id })
		for _, k := range keys {
			a := s.anns[k]
			if a.pfx != pfx || !a.eligible {
				continue
			}
			p, reject := mkImportChain(s.cfg.PolCode, s.cfg.PolArg).Process(pfxNet(pfx), a.norm.ps(s.cfg, s.k).Build())
			if reject {
				continue
			}
			d, err := aro.Describe(p)
			if err != nil {
				w.fail("speaker-malformed-import-output", err.Error())
				continue
			}
			out = append(out, d)
		}
	}
	return out
}

// what session s exports for one selected path: a fresh Adj-RIB-Out of the same session given just this path
func (s *sess) export(pfx int, p aro.PS) (aro.PS, string, bool) {
	a := adjRIBOut.New(nil, s.sa, s.cfg.Chain.Build())
	a.AddPath(pfxNet(pfx), p.Build())
	d := a.Dump()
	if len(d) == 0 || len(d[0].Paths()) == 0 {
		return aro.PS{}, "", false
	}
	sp := d[0].Paths()[0]
	ps, err := aro.Describe(sp)
	if err != nil {
		return aro.PS{}, "", false
	}
	at, err := pathAttrs(sp, s.cfg.S)
	if err != nil {
		return aro.PS{}, "", false
	}
	return ps, at, true
}

func multisetDiff(actual, expected []string) (extra, missing []string) {
	cnt := map[string]int{}
	for _, x := range actual {
		cnt[x]++
	}
	for _, x := range expected {
		cnt[x]--
	}
	for _, x := range actual {
		if cnt[x] > 0 {
			extra = append(extra, x)
			cnt[x]--
		}
	}
	for _, x := range expected {
		if cnt[x] < 0 {
			missing = append(missing, x)
			cnt[x]++
		}
	}
	return
}

func noID(p *route.Path) string {
	d, err := aro.Describe(p)
	if err != nil {
		return aro.Render(p)
	}
	d.BGPID = 0
	return d.Token()
}

func dedup(l []string) []string {
	seen := map[string]bool{}
	var out []string
	for _, x := range l {
		if !seen[x] {
			seen[x] = true
			out = append(out, x)
		}
	}
	return out
}

// judge: Loc-RIB = union of contributions; for the drained session s: Adj-RIB-Out and peer view = export of selection
func (w *world) judge(s *sess, when string) {
	n := 1
	if s.cfg.S.MaxPaths > 0 {
		n = s.cfg.S.MaxPaths
	}
	addPath := s.cfg.S.MaxPaths > 0
	rewriting := s.cfg.S.Kind == "ebgp" || s.cfg.S.Kind == "rr"
	for pfx := 0; pfx < nPfx; pfx++ {
		cands := w.candidates(pfx)
		// ---- Loc-RIB content (C05/C06/C07 end to end)
		var have, want []string
		if r := w.rib.Get(pfxNet(pfx)); r != nil {
			for _, p := range r.Paths() {
				have = append(have, noID(p))
			}
		}
		for _, c := range cands {
			c.BGPID = 0
			want = append(want, c.Token())
		}
		if ex, mi := multisetDiff(have, want); len(ex)+len(mi) > 0 {
			w.fail("speaker-locrib-is-not-union-of-contributions", fmt.Sprintf("%s prefix %d: extra=%v missing=%v", when, pfx, ex, mi))
			continue
		}
		// ---- selection (C02/C03), first 1/N (C04)
		// bio-rd breaks a remaining tie by the higher next hop (not in the RFC, pinned by its tests); follow it
		sort.SliceStable(cands, func(i, j int) bool {
			if c := rfcCmp(cands[i], cands[j]); c != 0 {
				return c < 0
			}
			return cands[i].NH > cands[j].NH
		})
		// would the outcome be another one if the neighbours' BGP identifiers were not looked at (step f)?
		stepF := false
		{
			alt := append([]aro.PS{}, cands...)
			sort.SliceStable(alt, func(i, j int) bool {
				a, b := alt[i], alt[j]
				a.BGPID, b.BGPID = 0, 0
				if c := rfcCmp(a, b); c != 0 {
					return c < 0
				}
				return a.NH > b.NH
			})
			for i := 0; i < len(alt) && i < n; i++ {
				if alt[i].Token() != cands[i].Token() {
					stepF = true
				}
			}
		}
		if len(cands) > n {
			if rfcCmp(cands[n-1], cands[n]) == 0 && cands[n-1].NH == cands[n].NH {
				// the decision process cannot tell the last admitted path from the first excluded one: no unique expectation
				w.stats["ambiguous_cut"]++
				continue
			}
			cands = cands[:n]
		}
		// ---- export (C08/C09)
		var expTab, expWire []string
		for _, c := range cands {
			if e, at, ok := s.export(pfx, c); ok {
				if addPath {
					e.PID = 0
				}
				e.BGPID = 0 // the advertising speaker's identifier is bookkeeping of the decision process, not part of the announcement
				expTab = append(expTab, e.Token())
				expWire = append(expWire, at)
			}
		}
		var actTab, actWire []string
		for _, r := range s.fsm.AdjRIBOutDump(packet.AFIIPv4, packet.SAFIUnicast) {
			if pfxIdx(r.Prefix()) != pfx {
				continue
			}
			for _, p := range r.Paths() {
				d, err := aro.Describe(p)
				if err != nil {
					w.fail("speaker-malformed-path-in-ribout", err.Error())
					continue
				}
				if addPath {
					d.PID = 0
				}
				d.BGPID = 0
				actTab = append(actTab, d.Token())
			}
		}
		for k, a := range s.peer {
			if strings.HasPrefix(k, strconv.Itoa(pfx)+"/") {
				actWire = append(actWire, a)
			}
		}
		sort.Strings(actWire)
		classify := func(level string, extra, missing []string) {
			where := fmt.Sprintf("%s session %d (%s) prefix %d %s: extra=%v missing=%v", when, s.k, s.cfg.S.Token(), pfx, level, extra, missing)
			switch {
			case level == "peer" && s.tainted[pfx]:
				w.fail("withdrawal-overtakes-in-flight-announcement", where)
			case len(extra) > 0 && rewriting:
				w.fail("stale-after-withdraw-on-rewriting-session", where)
			case addPath && s.unexport[pfx]:
				w.fail("addpath-prefix-wiped-by-unexportable-arrival", where)
			case addPath && s.hasSiblings(pfx):
				w.fail("addpath-withdraw-hits-compare-equal-sibling", where)
			case level == "peer" && addPath && len(extra) == 0 && s.hasDuplicateExports(pfx):
				w.fail("addpath-duplicate-export-withdrawn-while-copy-remains", where)
			case stepF:
				// (after the known Adj-RIB-Out findings, whose symptoms do not depend on how the tie was broken)
				w.fail("best-path-ignores-the-neighbours-bgp-identifier", where)
			case len(extra) > 0:
				w.fail("speaker-"+level+"-holds-route-outside-export-of-selection", where)
			default:
				w.fail("speaker-"+level+"-lacks-route-of-export-of-selection", where)
			}
		}
		if ex, mi := multisetDiff(actTab, expTab); len(ex)+len(mi) > 0 {
			classify("ribout", ex, mi)
		}
		// two selected paths that export identically are one announcement to the peer (same attributes, same path id)
		if ex, mi := multisetDiff(dedup(actWire), dedup(expWire)); len(ex)+len(mi) > 0 {
			classify("peer", ex, mi)
		}
		w.stats["judged"]++
		if len(expWire) > 0 {
			w.stats["judged_nonempty"]++
		}
	}
}

// ---------------------------------------------------------------- running a case

func runCase(c tcase) (obs string, v *verdict, nt bool, stats map[string]int, slow bool) {
	w := newWorld(c)
	defer w.dispose()
	t0 := time.Now()
	var out []string
	withdrawn := false
	for i, e := range c.evs {
		if e.k < 0 || e.k >= len(w.ss) {
			out = append(out, "BADSESSION")
			continue
		}
		s := w.ss[e.k]
		w.lrec = nil
		switch e.kind {
		case 'U':
			w.sessUp(s)
		case 'D':
			if s.up && len(s.anns) > 0 {
				withdrawn = true
			}
			w.sessDown(s)
		case 'R':
			if w.recv(s, e.bytes) {
				withdrawn = true
			}
		case 'Q':
			if s.up {
				var cand []pend
				for _, p := range s.pending() {
					for _, x := range p.pfxs {
						if x == e.pfx {
							cand = append(cand, p)
							break
						}
					}
				}
				if int(e.id) < len(cand) {
					s.dequeue(cand[e.id].key)
				}
			}
		case 'E':
			if s.up {
				s.emitOne()
			}
		case 'X':
			if s.up {
				s.drain()
			}
		}
		if w.slow {
			return "", nil, false, nil, true
		}
		for _, x := range w.ss {
			w.collect(x, e.kind == 'U' && x == s)
		}
		if e.kind == 'U' {
			// EndOfRIB flushes the queue in Go map order: the messages of the registration are a multiset
			sort.Strings(s.wire)
		}
		so := make([]string, len(w.ss))
		for j, x := range w.ss {
			so[j] = x.obs()
		}
		out = append(out, aro.JoinOrDash(w.lrec, ";")+"|"+strings.Join(so, "|"))
		if e.kind == 'X' && s.isDrained() && !w.blind {
			w.judge(s, fmt.Sprintf("after event %d (%s)", i, e.token()))
		}
	}
	// the stepping hook assumes that a state's own 1-second poll does not fire while the case is stepped
	return strings.Join(out, " "), w.v, withdrawn, w.stats, time.Since(t0) > 600*time.Millisecond
}

// ---------------------------------------------------------------- generator

var sessKinds = []string{"ebgp", "ibgp", "ibgp", "rs", "rr"}
var roles = []string{"-", "-", "-", "prov", "rs", "rsc", "cust", "peer"}

func genAttrs(r *hx.RNG, c sessCfg, k int, others []uint32) attrs {
	a := attrs{}
	if c.AddPathRX {
		a.ID = uint32(r.Intn(3))
	} else if r.Chance(10) {
		a.ID = uint32(r.Intn(2))
	}
	a.LP = []uint32{0, 0, 100, 200}[r.Intn(4)]
	a.MED = []uint32{0, 0, 5}[r.Intn(3)]
	a.NH = []uint32{0x0c000001, 0x0c000002, 0x0c000003}[r.Intn(3)]
	first := peerASN(c, k)
	switch r.Intn(10) {
	case 0:
		if c.S.IBGP() {
			a.ASP = nil
		} else if r.Chance(30) {
			a.ASP = nil // empty AS_PATH on eBGP: ineligible
		} else {
			a.ASP = []uint32{first}
		}
	case 1:
		a.ASP = []uint32{first, aro.LocalASN} // our own ASN: ineligible
	case 2, 3:
		a.ASP = []uint32{first, 64999}
	case 4:
		a.ASP = []uint32{first, 64999, 64998}
	default:
		a.ASP = []uint32{first}
	}
	if c.S.IBGP() && len(a.ASP) > 0 && a.ASP[0] == aro.LocalASN {
		a.ASP = a.ASP[1:] // iBGP: the neighbour does not prepend
	}
	if c.S.IBGP() {
		switch r.Intn(8) {
		case 0:
			a.Orig = aro.LocalIP // our router id: ineligible
		case 1, 2:
			a.Orig = 7
		}
		switch r.Intn(8) {
		case 0:
			a.CL = []uint32{aro.ClusterID} // ineligible while a route reflector client session is up
		case 1:
			a.CL = []uint32{5}
		case 2:
			a.CL = []uint32{5, 6}
		}
	}
	if c.S.Role != "-" || r.Chance(10) {
		a.OTC = []uint32{0, 0, first, 777}[r.Intn(4)]
	}
	return a
}

// ---- the neighbour's serialiser (RFC 4271 4.3, RFC 7911; 4-octet AS numbers), independent of bio-rd's packet package

type gnlri struct {
	pfx int
	id  uint32
}

func encNLRI(addPath bool, l []gnlri) []byte {
	var b []byte
	for _, n := range l {
		if addPath {
			b = binary.BigEndian.AppendUint32(b, n.id)
		}
		e := pfxTab[n.pfx]
		b = append(b, e.l)
		var a [4]byte
		binary.BigEndian.PutUint32(a[:], e.addr)
		b = append(b, a[:(int(e.l)+7)/8]...)
	}
	return b
}

func encAttr(flags, code byte, v []byte) []byte {
	return append([]byte{flags, code, byte(len(v))}, v...)
}

func u32b(v uint32) []byte { return binary.BigEndian.AppendUint32(nil, v) }

func encAttrs(a attrs) []byte {
	b := encAttr(0x40, 1, []byte{0})
	var asp []byte
	if len(a.ASP) > 0 {
		asp = []byte{2, byte(len(a.ASP))}
		for _, x := range a.ASP {
			asp = append(asp, u32b(x)...)
		}
	}
	b = append(b, encAttr(0x40, 2, asp)...)
	b = append(b, encAttr(0x40, 3, u32b(a.NH))...)
	if a.MED != 0 {
		b = append(b, encAttr(0x80, 4, u32b(a.MED))...)
	}
	if a.LP != 0 {
		b = append(b, encAttr(0x40, 5, u32b(a.LP))...)
	}
	if a.Orig != 0 {
		b = append(b, encAttr(0x80, 9, u32b(a.Orig))...)
	}
	if len(a.CL) > 0 {
		var cl []byte
		for _, x := range a.CL {
			cl = append(cl, u32b(x)...)
		}
		b = append(b, encAttr(0x80, 10, cl)...)
	}
	return b
}

func frame(typ byte, body []byte) []byte {
	b := bytes.Repeat([]byte{0xff}, 16)
	b = binary.BigEndian.AppendUint16(b, uint16(19+len(body)))
	b = append(b, typ)
	return append(b, body...)
}

func encUpdate(wd, attrs, nlri []byte) []byte {
	body := binary.BigEndian.AppendUint16(nil, uint16(len(wd)))
	body = append(body, wd...)
	body = binary.BigEndian.AppendUint16(body, uint16(len(attrs)))
	body = append(body, attrs...)
	return frame(2, append(body, nlri...))
}

// damage: one of the malformations whose RFC reading is "the session ends"
func damage(r *hx.RNG, t *hx.Trace, addPath bool, wd, at, nl []byte) []byte {
	setLen := func(f []byte) []byte {
		binary.BigEndian.PutUint16(f[16:], uint16(len(f)))
		return f
	}
	switch r.Intn(6) {
	case 0: // Total Path Attribute Length beyond the message
		t.Count("bad_total_attr_len")
		f := encUpdate(wd, at, nl)
		binary.BigEndian.PutUint16(f[21+len(wd):], uint16(len(at)+len(nl)+1+r.Intn(3)))
		return f
	case 1: // Withdrawn Routes Length beyond the message
		t.Count("bad_withdrawn_len")
		f := encUpdate(wd, at, nl)
		binary.BigEndian.PutUint16(f[19:], uint16(len(f)))
		return f
	case 2: // an NLRI with a prefix length of 33
		t.Count("bad_prefix_length")
		bad := []byte{33, 0, 0, 0, 8, 0}
		if addPath {
			bad = append([]byte{0, 0, 0, 1}, bad...)
		}
		if len(at) == 0 {
			at = encAttrs(attrs{NH: 0x0c000001, ASP: []uint32{64999}})
		}
		return encUpdate(wd, at, append(append([]byte{}, nl...), bad...))
	case 3: // the last NLRI is cut short
		t.Count("bad_truncated_nlri")
		if len(nl) > 1 {
			return setLen(encUpdate(wd, at, nl[:len(nl)-1]))
		}
		if len(at) == 0 {
			at = encAttrs(attrs{NH: 0x0c000001, ASP: []uint32{64999}})
		}
		if addPath {
			return encUpdate(wd, at, []byte{0, 0, 0, 1, 24, 1})
		}
		return encUpdate(wd, at, []byte{24, 1})
	case 4: // an attribute longer than the attribute section
		t.Count("bad_attr_length")
		if len(at) > 3 {
			a := append([]byte{}, at...)
			a[2] = byte(len(at)) // ORIGIN claims the whole section and more
			return encUpdate(wd, a, nl)
		}
		return encUpdate(wd, []byte{0x40, 1, 5, 0}, nl)
	default: // the marker is damaged
		t.Count("bad_marker")
		f := encUpdate(wd, at, nl)
		f[3] = 0x7f
		return f
	}
}

func gen(r *hx.RNG, t *hx.Trace) tcase {
	var c tcase
	n := 2 + r.Intn(3)
	calm := r.Chance(50) // only sessions inside the guards of C08 (no rewriting, no add-path TX to announcing peers ...)
	for k := 0; k < n; k++ {
		s := sessCfg{S: aro.Sess{Kind: sessKinds[r.Intn(len(sessKinds))], Role: "-"}}
		if calm {
			s.S.Kind = []string{"ibgp", "ibgp", "rs"}[r.Intn(3)]
		}
		if !s.S.IBGP() && !calm {
			s.S.Role = roles[r.Intn(len(roles))]
		}
		if r.Chance(35) {
			s.S.MaxPaths = 2 + r.Intn(2)
		}
		s.AddPathRX = r.Chance(40)
		switch r.Intn(10) {
		case 0:
			s.PolCode, s.PolArg = 3, []uint32{50, 150, 300}[r.Intn(3)]
		case 1:
			s.PolCode, s.PolArg = 4, []uint32{3, 9}[r.Intn(2)]
		case 2:
			s.PolCode, s.PolArg = 5, 64997
		case 3:
			s.PolCode, s.PolArg = 6, 0x0d000001
		case 6:
			if r.Chance(30) {
				s.PolCode = 1
			}
		}
		// export policies without prefix conditions (the prefix ids of this stream are not those of harness/aro)
		s.Chain = aro.GenChain(r, nPfx)
		for i := range s.Chain {
			for j := range s.Chain[i] {
				s.Chain[i][j].Conds = nil
			}
		}
		if r.Chance(50) || len(s.Chain) == 0 {
			// (an empty chain in a peer configuration means "reject all", peer.go: filterOrDefault)
			s.Chain = aro.Chain{{{Acts: []aro.Act{{Kind: "acc"}}}}}
		}
		c.cfgs = append(c.cfgs, s)
		t.Count("sess_" + s.S.Kind)
		if s.S.MaxPaths > 0 {
			t.Count("addpath_tx")
		}
	}
	up := make([]bool, n)
	type held struct {
		k, pfx int
		id     uint32
	}
	var live []held
	add := func(e event) {
		c.evs = append(c.evs, e)
		t.Count("ev_" + string(e.kind))
	}
	dropLive := func(k int) {
		var l2 []held
		for _, h := range live {
			if h.k != k {
				l2 = append(l2, h)
			}
		}
		live = l2
	}
	// most sessions come up first
	for k := 0; k < n; k++ {
		if r.Chance(75) {
			add(event{kind: 'U', k: k})
			up[k] = true
		}
	}
	steps := 8 + r.Intn(22)
	for i := 0; i < steps; i++ {
		k := r.Intn(n)
		switch x := r.Intn(100); {
		case x < 5:
			if up[k] {
				add(event{kind: 'D', k: k})
				up[k] = false
				dropLive(k)
			} else {
				add(event{kind: 'U', k: k})
				up[k] = true
			}
		case x < 9 && !up[k]:
			add(event{kind: 'U', k: k})
			up[k] = true
		case x < 64:
			if !up[k] {
				continue
			}
			cfg := c.cfgs[k]
			// one UPDATE: some withdrawals, attributes, some announcements
			var wd, ann []gnlri
			var at attrs
			if r.Chance(30) {
				for m := 1 + r.Intn(2); m > 0; m-- {
					if len(live) > 0 && r.Chance(80) {
						var mine []int
						for j, h := range live {
							if h.k == k {
								mine = append(mine, j)
							}
						}
						if len(mine) > 0 {
							j := mine[r.Intn(len(mine))]
							wd = append(wd, gnlri{live[j].pfx, live[j].id})
							live = append(live[:j], live[j+1:]...)
							continue
						}
					}
					wd = append(wd, gnlri{r.Intn(nPfx), uint32(r.Intn(2))})
				}
			}
			if len(wd) == 0 || r.Chance(60) {
				at = genAttrs(r, cfg, k, nil)
				at.OTC = 0 // ONLY_TO_CUSTOMER is not put on the wire
				for m := 1 + r.Intn(3)*r.Intn(2); m > 0; m-- {
					g := gnlri{pfx: r.Intn(nPfx)}
					if cfg.AddPathRX {
						g.id = uint32(r.Intn(3))
					}
					ann = append(ann, g)
					live = append(live, held{k, g.pfx, g.id})
				}
			}
			if !cfg.AddPathRX {
				for i := range wd {
					wd[i].id = 0
				}
			}
			wb, nb := encNLRI(cfg.AddPathRX, wd), encNLRI(cfg.AddPathRX, ann)
			var ab []byte
			if len(ann) > 0 {
				ab = encAttrs(at)
			}
			if r.Chance(4) {
				add(event{kind: 'R', k: k, bytes: damage(r, t, cfg.AddPathRX, wb, ab, nb)})
				up[k] = false
				dropLive(k)
				break
			}
			t.Count(fmt.Sprintf("upd_wd%d_ann%d", len(wd), len(ann)))
			add(event{kind: 'R', k: k, bytes: encUpdate(wb, ab, nb)})
		case x < 70:
			if !up[k] {
				continue
			}
			switch r.Intn(5) {
			case 0, 1:
				t.Count("keepalive")
				add(event{kind: 'R', k: k, bytes: frame(4, nil)})
			case 2:
				t.Count("notification")
				add(event{kind: 'R', k: k, bytes: frame(3, []byte{6, byte(r.Intn(9))})})
				up[k] = false
				dropLive(k)
			case 3:
				t.Count("open_in_established")
				add(event{kind: 'R', k: k, bytes: c.cfgs[k].openBytes(k)})
				up[k] = false
				dropLive(k)
			default:
				t.Count("unknown_type")
				add(event{kind: 'R', k: k, bytes: frame(byte(5+r.Intn(3)), nil)})
				up[k] = false
				dropLive(k)
			}
		case x < 80:
			if up[k] {
				add(event{kind: 'Q', k: k, pfx: r.Intn(nPfx), id: uint32(r.Intn(2) * r.Intn(2))})
				if r.Chance(80) {
					add(event{kind: 'E', k: k})
				}
			}
		case x < 84:
			if up[k] {
				add(event{kind: 'E', k: k})
			}
		default:
			if up[k] {
				add(event{kind: 'X', k: k})
			}
		}
	}
	for k := 0; k < n; k++ {
		if up[k] {
			add(event{kind: 'X', k: k})
		}
	}
	return c
}

func main() {
	cfg := hx.Parse()
	usx.Quiet()
	tr := hx.NewTrace(cfg.Out)
	nviol := 0
	nslow := 0
	agg := map[string]int{}
	do := func(id string, c tcase) {
		var obs string
		var v *verdict
		var nt bool
		var st map[string]int
		var panicked bool
		var pval interface{}
		for try := 0; ; try++ {
			slow := false
			done := make(chan struct{})
			go func() {
				panicked, pval = hx.Guard(func() { obs, v, nt, st, slow = runCase(c) })
				close(done)
			}()
			select {
			case <-done:
			case <-time.After(60 * time.Second):
				obs, v = "HANG", &verdict{"speaker-hang", "case did not finish within 60s"}
			}
			if !slow || panicked || obs == "HANG" {
				break
			}
			// too slow for the stepping hook's timing assumption (machine under load): repeat
			if try >= 40 {
				fmt.Println("HARNESS-ERROR case", id, "could not be stepped within the hook's time limit in 40 attempts")
				os.Exit(2)
			}
			nslow++
			d := time.Duration(100*(try+1)) * time.Millisecond
			if d > 2*time.Second {
				d = 2 * time.Second
			}
			time.Sleep(d)
		}
		if panicked {
			obs, v = "PANIC", &verdict{"speaker-panic", strings.ReplaceAll(fmt.Sprint(pval), "\n", " ")}
		}
		for k, n := range st {
			agg[k] += n
		}
		tr.Case(id, nt, c.input(), obs)
		if v != nil {
			hx.Violation(id, v.sig, v.detail)
			nviol++
		}
	}
	if cfg.Mode == "replay" {
		for _, c := range hx.InputsFrom(cfg.Replay) {
			tc, err := parseCase(c[1])
			if err != nil {
				fmt.Println("HARNESS-ERROR bad replay input:", err)
				os.Exit(2)
			}
			do(c[0], tc)
		}
	} else {
		for _, c := range hx.InputsFrom(hx.CorpusFiles(cfg.Corpus)...) {
			tc, err := parseCase(c[1])
			if err != nil {
				fmt.Println("HARNESS-ERROR bad corpus case", c[0], err)
				os.Exit(2)
			}
			do("corpus-"+c[0], tc)
			tr.Count("corpus")
		}
		rng := hx.NewRNG(cfg.Seed)
		for i := 0; i < cfg.N; i++ {
			do(fmt.Sprintf("g%d", i), gen(rng.Fork(uint64(i)), tr))
		}
	}
	for k, n := range agg {
		tr.Dist[k] = n
	}
	tr.Close(cfg.Stats, map[string]interface{}{"spec_violations": nviol, "prefixes": nPfx, "repeated_slow": nslow})
}
