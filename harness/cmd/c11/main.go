// C11 harness: add-path identifiers of a real AdjRIBOut (client of a real LocRIB, recording client
// behind it) under add/remove/replace histories whose paths share or differ in single attributes.
//
// Input tokens:  S:<kind>:<maxpaths>:<role>  C<chain>  then ops
//
//	a<pfx>=<path> / r<pfx>=<path>   LocRIB.AddPath / LocRIB.RemovePath (the Adj-RIB-Out hears about it as a client)
//	A<pfx>=<path> / R<pfx>=<path>   AdjRIBOut.AddPath / RemovePath called directly
//	x<chain>                        AdjRIBOut.ReplaceFilterChain
//	L<n>                            hook: position the id cursor (pathIDManager.last = n)
//
// Observation, one token per op:  <stream>#<view>#<ret>#<events>#<table>#<used>/<routecount>
//
//	stream = calls the LocRIB made on a spy client registered with the same options ("+p=path,-p=path")
//	view   = for x: the Loc-RIB's first-n paths per prefix (what RefreshClient hands over)
//	ret    = ok|err (A), t|f (R), - otherwise
//	events = calls the Adj-RIB-Out made on its client;  table = AdjRIBOut.Dump
package main

import (
	"fmt"
	"os"
	"sort"
	"strconv"
	"strings"
	"time"

	"github.com/bio-routing/bio-rd/route"
	"github.com/bio-routing/bio-rd/routingtable/adjRIBOut"
	"github.com/bio-routing/bio-rd/routingtable/locRIB"

	"verifharness/aro"
	"verifharness/hx"
)

const nPfx = 3

type op struct {
	kind  byte
	pfx   int
	path  aro.PS
	chain aro.Chain
	n     uint32
}

func (o op) token() string {
	switch o.kind {
	case 'x':
		return "x" + o.chain.Token()
	case 'L':
		return "L" + strconv.FormatUint(uint64(o.n), 10)
	}
	return fmt.Sprintf("%c%d=%s", o.kind, o.pfx, o.path.Token())
}

type hpair struct {
	attr   string
	p1, p2 aro.PS
}

type tcase struct {
	sess  aro.Sess
	chain aro.Chain
	ops   []op
	hash  []hpair // a HASH case: pairs of paths for the injectivity of the path id hash
}

func (c tcase) input() string {
	if c.hash != nil {
		t := []string{"HASH"}
		for _, h := range c.hash {
			t = append(t, fmt.Sprintf("h%s=%s|%s", h.attr, h.p1.Token(), h.p2.Token()))
		}
		return strings.Join(t, " ")
	}
	t := []string{c.sess.Token(), "C" + c.chain.Token()}
	for _, o := range c.ops {
		t = append(t, o.token())
	}
	return strings.Join(t, " ")
}

func parseCase(in string) (tcase, error) {
	var c tcase
	f := strings.Fields(in)
	if len(f) >= 1 && f[0] == "HASH" {
		c.hash = []hpair{}
		for _, t := range f[1:] {
			eq := strings.Index(t, "=")
			bar := strings.Index(t, "|")
			if t[0] != 'h' || eq < 0 || bar < eq {
				return c, fmt.Errorf("bad hash pair %q", t)
			}
			p1, e1 := aro.ParsePath(t[eq+1 : bar])
			p2, e2 := aro.ParsePath(t[bar+1:])
			if e1 != nil || e2 != nil {
				return c, fmt.Errorf("bad hash pair %q", t)
			}
			c.hash = append(c.hash, hpair{t[1:eq], p1, p2})
		}
		return c, nil
	}
	if len(f) < 2 {
		return c, fmt.Errorf("short case")
	}
	var err error
	if c.sess, err = aro.ParseSess(f[0]); err != nil {
		return c, err
	}
	if !strings.HasPrefix(f[1], "C") {
		return c, fmt.Errorf("missing chain")
	}
	if c.chain, err = aro.ParseChain(f[1][1:]); err != nil {
		return c, err
	}
	for _, t := range f[2:] {
		o := op{kind: t[0]}
		switch o.kind {
		case 'x':
			if o.chain, err = aro.ParseChain(t[1:]); err != nil {
				return c, err
			}
		case 'L':
			v, e := strconv.ParseUint(t[1:], 10, 32)
			if e != nil {
				return c, e
			}
			o.n = uint32(v)
		case 'a', 'r', 'A', 'R':
			p := strings.SplitN(t[1:], "=", 2)
			if len(p) != 2 {
				return c, fmt.Errorf("bad op %q", t)
			}
			if o.pfx, err = strconv.Atoi(p[0]); err != nil {
				return c, err
			}
			if o.path, err = aro.ParsePath(p[1]); err != nil {
				return c, err
			}
		default:
			return c, fmt.Errorf("bad op %q", t)
		}
		c.ops = append(c.ops, o)
	}
	return c, nil
}

type verdict struct{ sig, detail string }

// locView renders what LocRIB.RefreshClient hands to a client with the session's options.
func locView(lr *locRIB.LocRIB, s aro.Sess) string {
	type ent struct {
		id int
		s  string
	}
	var es []ent
	for _, r := range lr.Dump() {
		ps := r.Paths()
		n := 1
		if s.MaxPaths > 0 {
			n = s.MaxPaths
		}
		if n > len(ps) {
			n = len(ps)
		}
		if n == 0 {
			continue
		}
		it := make([]string, n)
		for i := 0; i < n; i++ {
			it[i] = aro.Render(ps[i])
		}
		es = append(es, ent{aro.PfxID(r.Prefix()), strings.Join(it, ",")})
	}
	if len(es) == 0 {
		return "-"
	}
	sort.Slice(es, func(i, j int) bool { return es[i].id < es[j].id })
	out := make([]string, len(es))
	for i, e := range es {
		out[i] = fmt.Sprintf("%d=%s", e.id, e.s)
	}
	return strings.Join(out, ";")
}

// runHash: the identifier is allocated per BGPPath.ComputeHash; paths that differ in anything a peer can
// see must hash differently (and the update sender's ComputeHashWithPathID likewise, OTC aside, which that
// function does not cover). Observation per pair: <ComputeHash equal?><ComputeHashWithPathID equal?>
func runHash(c tcase) (obs string, v *verdict, nontrivial bool) {
	var out []string
	for i, h := range c.hash {
		a, b := h.p1.Build(), h.p2.Build()
		e1 := a.BGPPath.ComputeHash() == b.BGPPath.ComputeHash()
		e2 := a.BGPPath.ComputeHashWithPathID() == b.BGPPath.ComputeHashWithPathID()
		out = append(out, map[bool]string{true: "1", false: "0"}[e1]+map[bool]string{true: "1", false: "0"}[e2])
		differ := h.p1.AnnKey() != h.p2.AnnKey()
		nontrivial = nontrivial || differ
		if differ && e1 && v == nil {
			v = &verdict{"hash-collision:" + h.attr, fmt.Sprintf("pair %d: ComputeHash equal for %s and %s", i, h.p1.Token(), h.p2.Token())}
		}
		if differ && e2 && h.attr != "otc" && v == nil {
			v = &verdict{"hash-with-path-id-collision:" + h.attr, fmt.Sprintf("pair %d: ComputeHashWithPathID equal for %s and %s", i, h.p1.Token(), h.p2.Token())}
		}
	}
	return strings.Join(out, " "), v, nontrivial
}

func genHash(r *hx.RNG, t *hx.Trace) tcase {
	c := tcase{hash: []hpair{}}
	p := aro.RichPath(r)
	for _, atom := range aro.Atoms {
		c.hash = append(c.hash, hpair{atom, p, aro.MutateAtom(r, p, atom)})
	}
	// pairs the hash does not (and need not) tell apart: absent vs empty list, split AS_SEQUENCE
	q := p
	q.Comms, q.CommsNil = []uint32{}, false
	q2 := q
	q2.CommsNil = true
	c.hash = append(c.hash, hpair{"same-nil-empty", q, q2})
	s1, s2 := p, p
	s1.ASPath = []aro.Seg{{Seq: true, ASNs: []uint32{65001, 65002}}}
	s2.ASPath = []aro.Seg{{Seq: true, ASNs: []uint32{65001}}, {Seq: true, ASNs: []uint32{65002}}}
	c.hash = append(c.hash, hpair{"same-seq-split", s1, s2})
	// and a random pair
	c.hash = append(c.hash, hpair{"random", aro.GenPath(r, aro.GenOpts{Extras: true}), aro.GenPath(r, aro.GenOpts{Extras: true})})
	t.Count("hash_case")
	return c
}

func isRich(p aro.PS) bool {
	return !p.Static && len(p.ASPath) == 2 && len(p.ASPath[0].ASNs) > 0 && len(p.ASPath[1].ASNs) > 0 && len(p.Unk) == 2 &&
		len(p.Unk[0].Val) > 0 && p.Agg != nil && len(p.CL) == 2 && len(p.Comms) == 2 && len(p.LComms) == 2
}

func runCase(c tcase) (obs string, v *verdict, nontrivial bool) {
	if c.hash != nil {
		return runHash(c)
	}
	lr := locRIB.New("c11")
	a := adjRIBOut.New(lr, c.sess.Attrs(), c.chain.Build())
	rec := aro.NewRec()
	a.Register(rec)
	spy := aro.NewRec()
	lr.RegisterWithOptions(a, c.sess.ClientOptions())
	lr.RegisterWithOptions(spy, c.sess.ClientOptions())

	addPath := c.sess.MaxPaths > 0
	announced := map[string]uint32{} // pfx|annkey -> id of the latest announcement
	fail := func(sig, detail string) {
		if v == nil {
			v = &verdict{sig, detail}
		}
	}
	var out []string
	releases, shared := 0, false
	for i, o := range c.ops {
		ret, view := "-", "-"
		switch o.kind {
		case 'a':
			lr.AddPath(aro.Pfx(o.pfx), o.path.Build())
		case 'r':
			lr.RemovePath(aro.Pfx(o.pfx), o.path.Build())
		case 'A':
			ret = "ok"
			if err := a.AddPath(aro.Pfx(o.pfx), o.path.Build()); err != nil {
				ret = "err"
				fail("spurious-out-of-path-ids", fmt.Sprintf("op %d (%s): AddPath failed: %v", i, o.token(), err))
			}
		case 'R':
			ret = "f"
			if a.RemovePath(aro.Pfx(o.pfx), o.path.Build()) {
				ret = "t"
			}
		case 'x':
			view = locView(lr, c.sess)
			a.ReplaceFilterChain(o.chain.Build())
		case 'L':
			a.VerifSetLastPathID(o.n)
		}
		stream := aro.JoinOrDash(spy.Take(), ",")
		calls := rec.TakeCalls()
		events := aro.JoinOrDash(rec.Take(), ",")
		dump := a.Dump()
		used := a.VerifPathIDsInUse()
		out = append(out, fmt.Sprintf("%s#%s#%s#%s#%s#%d/%d", stream, view, ret, events, aro.DumpTable(dump), used, a.RouteCount()))

		if !addPath {
			continue
		}
		// ---- spec oracle: the property's statement on the implementation's observables
		// (b) a withdrawal carries the identifier its path was announced with
		for _, ev := range calls {
			if ev.Err != nil {
				fail("malformed-path-at-client", ev.Err.Error())
				continue
			}
			key := fmt.Sprintf("%d|%s", ev.Pfx, ev.PS.AnnKey())
			if ev.Add {
				announced[key] = ev.PS.PID
				continue
			}
			releases++
			id, ok := announced[key]
			if !ok {
				fail("withdraw-of-unannounced-path", fmt.Sprintf("op %d (%s): withdrawal %d=%s was never announced", i, o.token(), ev.Pfx, ev.PS.Token()))
			} else if id != ev.PS.PID {
				fail("withdraw-id-mismatch", fmt.Sprintf("op %d (%s): withdrawal carries id %d, the path was announced with id %d", i, o.token(), ev.PS.PID, id))
			}
		}
		// (a) two different paths advertised for one prefix carry different identifiers
		ids := map[uint32]bool{}
		idPfx := map[uint32]int{}
		for _, r := range dump {
			ps := r.Paths()
			byID := map[uint32]string{}
			for _, p := range ps {
				d, err := aro.Describe(p)
				if err != nil {
					fail("malformed-path-in-table", err.Error())
					continue
				}
				ids[d.PID] = true
				if prev, ok := idPfx[d.PID]; ok && prev != aro.PfxID(r.Prefix()) {
					shared = true
				}
				idPfx[d.PID] = aro.PfxID(r.Prefix())
				k := d.AnnKey()
				if prev, ok := byID[d.PID]; ok && prev != k {
					fail("ids-not-unique", fmt.Sprintf("op %d (%s): prefix %d holds two different paths with id %d: %s and %s", i, o.token(), aro.PfxID(r.Prefix()), d.PID, prev, k))
				}
				byID[d.PID] = k
			}
		}
		// (c) the in-use counter is the number of identifiers in use (so exhaustion is never reported early)
		if int(used) != len(ids) {
			fail("used-counter-drift", fmt.Sprintf("op %d (%s): used=%d but %d identifiers are in use", i, o.token(), used, len(ids)))
		}
	}
	nontrivial = addPath && (shared || releases > 0)
	return strings.Join(out, " "), v, nontrivial
}

// ---------------------------------------------------------------- generator

func gen(r *hx.RNG, t *hx.Trace) tcase {
	var c tcase
	c.sess = aro.GenSess(r, 85)
	if r.Chance(70) {
		// sessions that do not rewrite let LocRIB-driven withdrawals find their entry
		c.sess.Kind = []string{"ibgp", "rs", "rr"}[r.Intn(3)]
		if c.sess.Kind != "rs" {
			c.sess.Role = "-"
		}
	}
	c.chain = aro.GenChain(r, nPfx)
	if r.Chance(50) {
		c.chain = aro.Chain{{{Acts: []aro.Act{{Kind: "acc"}}}}}
	}
	t.Count("sess_" + c.sess.Kind)
	if c.sess.MaxPaths > 0 {
		t.Count("addpath")
	}
	n := 4 + r.Intn(18)
	var pool []aro.PS
	newPath := func() aro.PS {
		var p aro.PS
		if len(pool) > 0 && r.Chance(45) {
			p = pool[r.Intn(len(pool))]
			if isRich(p) {
				p = aro.MutateAtom(r, p, aro.Atoms[r.Intn(len(aro.Atoms))]) // one atom of one attribute
			} else {
				p = aro.Mutate(r, p)
			}
		} else if r.Chance(30) {
			p = aro.RichPath(r)
			if c.sess.Kind == "ibgp" {
				p.EBGP = true
			}
		} else {
			p = aro.GenPath(r, aro.DefaultGen)
			if c.sess.IBGP() && c.sess.Kind == "ibgp" && !p.Static {
				p.EBGP = p.EBGP || r.Chance(70) // iBGP-learned paths are not exported to a non-client
			}
		}
		pool = append(pool, p)
		return p
	}
	type ent struct {
		pfx int
		p   aro.PS
	}
	var inLoc, direct []ent
	for i := 0; i < n; i++ {
		k := r.Intn(100)
		switch {
		case k < 30:
			p := newPath()
			if len(pool) > 1 && r.Chance(35) {
				p = pool[r.Intn(len(pool))] // the same path for another (or the same) prefix
			}
			if p.Static && p.StaticNil {
				p.StaticNil, p.NH = false, 0x05050505 // the Loc-RIB's selection dereferences StaticPath
			}
			e := ent{r.Intn(nPfx), p}
			inLoc = append(inLoc, e)
			c.ops = append(c.ops, op{kind: 'a', pfx: e.pfx, path: e.p})
			t.Count("op_loc_add")
		case k < 48 && len(inLoc) > 0:
			j := r.Intn(len(inLoc))
			e := inLoc[j]
			inLoc = append(inLoc[:j], inLoc[j+1:]...)
			c.ops = append(c.ops, op{kind: 'r', pfx: e.pfx, path: e.p})
			t.Count("op_loc_remove")
		case k < 68:
			p := newPath()
			if len(pool) > 1 && r.Chance(40) {
				p = pool[r.Intn(len(pool))]
			}
			e := ent{r.Intn(nPfx), p}
			direct = append(direct, e)
			c.ops = append(c.ops, op{kind: 'A', pfx: e.pfx, path: e.p})
			t.Count("op_direct_add")
		case k < 86 && len(direct) > 0:
			j := r.Intn(len(direct))
			e := direct[j]
			if r.Chance(80) {
				direct = append(direct[:j], direct[j+1:]...)
			}
			if r.Chance(10) {
				e.p = aro.Mutate(r, e.p)
			}
			c.ops = append(c.ops, op{kind: 'R', pfx: e.pfx, path: e.p})
			t.Count("op_direct_remove")
		case k < 93:
			c.ops = append(c.ops, op{kind: 'x', chain: aro.GenChain(r, nPfx)})
			t.Count("op_replace_chain")
		case k < 97:
			c.ops = append(c.ops, op{kind: 'L', n: []uint32{4294967294, 4294967295, 4294967293, 0, 1}[r.Intn(5)]})
			t.Count("op_set_cursor")
		default:
			p := newPath()
			c.ops = append(c.ops, op{kind: 'R', pfx: r.Intn(nPfx), path: p})
			t.Count("op_direct_remove_absent")
		}
	}
	return c
}

func main() {
	cfg := hx.Parse()
	tr := hx.NewTrace(cfg.Out)
	nviol := 0
	do := func(id string, c tcase) {
		var obs string
		var v *verdict
		var nt bool
		done := make(chan struct{})
		var panicked bool
		var pval interface{}
		go func() {
			panicked, pval = hx.Guard(func() { obs, v, nt = runCase(c) })
			close(done)
		}()
		select {
		case <-done:
		case <-time.After(20 * time.Second):
			obs, v = "HANG", &verdict{"hang", "case did not finish within 20s"}
		}
		if panicked {
			obs, v = "PANIC", &verdict{"panic", fmt.Sprint(pval)}
		}
		tr.Case(id, nt, c.input(), obs)
		if v != nil {
			hx.Violation(id, v.sig, v.detail)
			nviol++
		}
	}
	if cfg.Mode == "replay" {
		for _, c := range hx.InputsFrom(cfg.Replay) {
			tc, err := parseCase(c[1])
			if err != nil {
				fmt.Println("HARNESS-ERROR bad replay input:", err)
				os.Exit(2)
			}
			do(c[0], tc)
		}
	} else {
		for _, c := range hx.InputsFrom(hx.CorpusFiles(cfg.Corpus)...) {
			tc, err := parseCase(c[1])
			if err != nil {
				fmt.Println("HARNESS-ERROR bad corpus case", c[0], err)
				os.Exit(2)
			}
			do("corpus-"+c[0], tc)
			tr.Count("corpus")
		}
		rng := hx.NewRNG(cfg.Seed)
		for i := 0; i < cfg.N; i++ {
			if i%8 == 7 {
				do(fmt.Sprintf("g%d", i), genHash(rng.Fork(uint64(i)), tr))
				continue
			}
			do(fmt.Sprintf("g%d", i), gen(rng.Fork(uint64(i)), tr))
		}
	}
	_ = route.BGPPathType
	tr.Close(cfg.Stats, map[string]interface{}{"spec_violations": nviol, "prefixes": nPfx})
}
