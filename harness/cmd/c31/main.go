// C31 harness: point-to-point hellos from one or two neighbors on one active interface, interleaved
// with clock advances; the real neighbor manager, neighbors and their adjacency-checker goroutines.
//
// Input tokens:
//
//	H<n>:<hold>:<k><s>  hello frame from neighbor n (0|1) with holding time <hold> s; three-way TLV
//	                    adjacency state s (0 up,1 init,2 down - ignored by the code) and kind k:
//	                      m lists me (my system id and my circuit = ifindex)
//	                      s other system id, my circuit       c my system id, other circuit
//	                      n TLV without neighbor fields (length 5)
//	                      x no three-way TLV   a no area TLV   p IPv6 missing in protocols supported
//	                      i interface address outside our subnet        (x a p i: rejected with an error)
//	                      l like m but circuit type "level 1 only" (ignored: no L1 on the interface)
//	T<d>                advance the clock by d >= 1 seconds, then every adjacency checker gets one tick
//	R                   run the LSP regeneration if one is pending (what the LSP updater routine does)
//	G                   regenerate the local LSP unconditionally
//
// Observation per event:  [e<0|1>/]<neighbors>/p<pending>/l<lsp neighbors>
//
//	neighbors = n:<U|I|D>:<timeout>:<last change> joined by ',' (seconds since start) or '-'
//	lsp neighbors = neighbor numbers in the own LSP's extended IS reachability TLV joined by '.', or '-'
package main

import (
	"fmt"
	"os"
	"sort"
	"strconv"
	"strings"
	"sync"
	"time"

	bnet "github.com/bio-routing/bio-rd/net"
	"github.com/bio-routing/bio-rd/net/ethernet"
	"github.com/bio-routing/bio-rd/protocols/device"
	"github.com/bio-routing/bio-rd/protocols/isis/packet"
	"github.com/bio-routing/bio-rd/protocols/isis/server"
	"github.com/bio-routing/bio-rd/protocols/isis/types"

	"verifharness/hx"
	"verifharness/isisx"
)

const (
	ifIndex     = 7
	removeAfter = 120 // seconds a Down adjacency is kept (neighborDownTimeoutS)
)

var (
	ownSysID = types.SystemID{12, 12, 12, 13, 13, 13}
	nbrMAC   = []ethernet.MACAddr{{0xde, 0xad, 0xbe, 0xef, 0x12, 0x34}, {0xde, 0xad, 0xbe, 0xef, 0x12, 0x35}}
	nbrSys   = []types.SystemID{{0xde, 0xad, 0xbe, 0xef, 0xff, 0x01}, {0xde, 0xad, 0xbe, 0xef, 0xff, 0x02}}
)

type event struct {
	op    byte // H T R G
	n     int
	hold  int
	kind  byte
	state byte
	d     int
}

func parse(in string) ([]event, error) {
	var evs []event
	for _, t := range strings.Fields(in) {
		if t == "live" {
			continue
		}
		switch t[0] {
		case 'H', 'B':
			p := strings.Split(t[1:], ":")
			if len(p) != 3 || len(p[2]) != 2 {
				return nil, fmt.Errorf("bad hello %q", t)
			}
			n, e1 := strconv.Atoi(p[0])
			h, e2 := strconv.Atoi(p[1])
			if e1 != nil || e2 != nil || n < 0 || n > 1 || h < 0 || h > 65535 ||
				!strings.ContainsRune("mscnxapil", rune(p[2][0])) || p[2][1] < '0' || p[2][1] > '2' {
				return nil, fmt.Errorf("bad hello %q", t)
			}
			evs = append(evs, event{op: t[0], n: n, hold: h, kind: p[2][0], state: p[2][1] - '0'})
		case 'T':
			d, err := strconv.Atoi(t[1:])
			if err != nil || d < 1 || d > 100000 {
				return nil, fmt.Errorf("bad tick %q", t)
			}
			evs = append(evs, event{op: 'T', d: d})
		case 'R', 'G':
			if len(t) != 1 {
				return nil, fmt.Errorf("bad token %q", t)
			}
			evs = append(evs, event{op: t[0]})
		default:
			return nil, fmt.Errorf("bad token %q", t)
		}
	}
	return evs, nil
}

func helloFrame(ev event) []byte {
	ct := byte(2)
	if ev.kind == 'l' {
		ct = 1
	}
	var tlvs []byte
	if ev.kind != 'x' {
		sys := ownSysID
		circ := uint32(ifIndex)
		if ev.kind == 's' {
			sys = types.SystemID{12, 12, 12, 13, 13, 14}
		}
		if ev.kind == 'c' {
			circ = ifIndex + 1
		}
		if ev.kind == 'n' {
			tlvs = append(tlvs, 240, 5, ev.state, 0, 0, 0, 100)
		} else {
			tlvs = append(tlvs, 240, 15, ev.state, 0, 0, 0, 100)
			tlvs = append(tlvs, sys[:]...)
			tlvs = append(tlvs, byte(circ>>24), byte(circ>>16), byte(circ>>8), byte(circ))
		}
	}
	if ev.kind == 'p' {
		tlvs = append(tlvs, 129, 1, 204)
	} else {
		tlvs = append(tlvs, 129, 2, 204, 142)
	}
	if ev.kind == 'i' {
		tlvs = append(tlvs, 132, 4, 10, 9, 9, 9)
	} else {
		tlvs = append(tlvs, 132, 4, 169, 254, 100, 1)
	}
	if ev.kind != 'a' {
		tlvs = append(tlvs, 1, 3, 2, 0x49, 0)
	}
	f := []byte{0, 0, 0, 131, 20, 1, 0, 17, 1, 0, 0, ct}
	f = append(f, nbrSys[ev.n][:]...)
	l := 20 + len(tlvs)
	f = append(f, byte(ev.hold>>8), byte(ev.hold), byte(l>>8), byte(l), 1)
	return append(f, tlvs...)
}

type nbrObs struct {
	present          bool
	state            uint8
	timeout, changed int64
}

func stLetter(s uint8) string {
	switch s {
	case packet.P2PAdjStateUp:
		return "U"
	case packet.P2PAdjStateInit:
		return "I"
	case packet.P2PAdjStateDown:
		return "D"
	}
	return fmt.Sprintf("?%d", s)
}

// spec-side memory per neighbor: what the property's text refers to
type nbrSpec struct {
	heard           bool  // a valid hello was received since the neighbor last disappeared / ever
	lastLists       bool  // the last valid hello listed us
	expiry          int64 // time of last valid hello + its holding time
	tickAfterExpiry int64 // first checker tick after expiry (or after a hello that took it Down); -1 none
	hellos          int   // valid hellos since (re)creation
}

func runCase(id, input string) (res isisx.Result) {
	res = isisx.Result{ID: id, Input: input}
	evs, err := parse(input)
	if err != nil {
		res.Obs, res.Sig, res.Detail = "BAD-INPUT", "bad-input", err.Error()
		return
	}
	clk := isisx.NewClock()
	server.SetClock(clk)
	devs := isisx.NewDevs()
	fac := &isisx.Factory{}
	s, err := server.New([]*types.NET{{AreaID: types.AreaID{0x49, 0}, SystemID: ownSysID}}, devs, 3600)
	if err != nil {
		res.Obs, res.Sig, res.Detail = "SETUP-FAILED", "setup", err.Error()
		return
	}
	s.SetEthernetInterfaceFactory(fac)
	// generateLocalLSP asks for the host name after it has collected the adjacencies: the place where
	// something can happen WHILE the LSP is being built
	var duringBuild func()
	var duringMu sync.Mutex
	s.SetHostnameFunc(func() (string, error) {
		duringMu.Lock()
		h := duringBuild
		duringBuild = nil
		duringMu.Unlock()
		if h != nil {
			h()
		}
		return "verif", nil
	})
	live := strings.HasPrefix(input, "live")
	if live {
		s.Start() // real LSP updater routine (and LSDB routines, parked on tickers that never fire here)
	}
	s.AddInterface(&server.InterfaceConfig{Name: "eth0", PointToPoint: true,
		Level2: &server.InterfaceLevelConfig{HelloInterval: 7, HoldingTimer: 21, Metric: 10}})
	devs.Update("eth0", &isisx.Dev{Index: ifIndex, Oper: device.IfOperUp,
		Addrs: []*bnet.Prefix{bnet.NewPfx(bnet.IPv4FromOctets(169, 254, 100, 0), 31).Ptr()}})
	// the link-up requested an LSP generation; the LSDB routines are not started in this harness
	// (R events play the LSP updater), so the request stays pending until the first R
	if q := isisx.Quiesce(); q != "" {
		res.Obs, res.Sig, res.Detail, res.Abnormal = "blocked:setup", "blocked", q, true
		return
	}

	fail := func(sig, detail string) {
		if res.Sig == "" {
			res.Sig, res.Detail = sig, detail
		}
	}
	sec := func(t time.Time) int64 { return int64(t.Sub(isisx.Epoch) / time.Second) }
	spec := [2]nbrSpec{{tickAfterExpiry: -1}, {tickAfterExpiry: -1}}
	var obs []string

	observe := func() ([2]nbrObs, bool, []int, bool) {
		var o [2]nbrObs
		for _, v := range s.VerifNeighbors() {
			for i := range nbrMAC {
				if v.Address == nbrMAC[i] {
					o[i] = nbrObs{true, v.State, sec(v.Timeout), sec(v.LastStateChange)}
				}
			}
		}
		var lsp []int
		have := false
		for _, e := range s.VerifLSDB() {
			if e.LSPID.SystemID != ownSysID {
				continue
			}
			have = true
			for _, tlv := range e.LSPDU.TLVs {
				if t, ok := tlv.(*packet.ExtendedISReachabilityTLV); ok {
					for _, nb := range t.Neighbors {
						k := -1
						for i := range nbrSys {
							if nb.NeighborID.SystemID == nbrSys[i] {
								k = i
							}
						}
						lsp = append(lsp, k)
					}
				}
			}
		}
		sort.Ints(lsp)
		return o, s.VerifLSPUpdatePending(), lsp, have
	}
	format := func(o [2]nbrObs, pending bool, lsp []int) string {
		var ns []string
		for i, x := range o {
			if x.present {
				ns = append(ns, fmt.Sprintf("%d:%s:%d:%d", i, stLetter(x.state), x.timeout, x.changed))
			}
		}
		n := "-"
		if len(ns) > 0 {
			n = strings.Join(ns, ",")
		}
		l := "-"
		if len(lsp) > 0 {
			var p []string
			for _, k := range lsp {
				p = append(p, strconv.Itoa(k))
			}
			l = strings.Join(p, ".")
		}
		pe := 0
		if pending {
			pe = 1
		}
		return fmt.Sprintf("%s/p%d/l%s", n, pe, l)
	}

	for k, ev := range evs {
		evname := fmt.Sprintf("event %d", k)
		prefix := ""
		now := clk.Sec()
		var before [2]nbrObs
		before, _, _, _ = observe()
		op := ev.op
		if op == 'B' {
			op = 'H' // for the oracle a hello is a hello, whenever it arrives
		}
		switch ev.op {
		case 'H', 'B':
			var perr error
			var oc string
			var val interface{}
			if ev.op == 'B' {
				// the hello arrives while the LSP updater is building the LSP
				fired := false
				duringMu.Lock()
				duringBuild = func() { fired = true; perr = s.VerifProcessPkt("eth0", nbrMAC[ev.n], helloFrame(ev)) }
				duringMu.Unlock()
				oc, val = isisx.Watchdog(func() { s.VerifRequestLSPUpdate() })
				if q := isisx.Quiesce(); q != "" {
					oc, val = "blocked", q
				}
				if !fired && oc == "ok" {
					fail("build-hook-not-reached", evname+": the LSP updater did not build an LSP on request")
				}
				res.NT = true
			} else {
				oc, val = isisx.Watchdog(func() { perr = s.VerifProcessPkt("eth0", nbrMAC[ev.n], helloFrame(ev)) })
			}
			if oc != "ok" {
				obs = append(obs, oc)
				fail("hello-"+oc, fmt.Sprintf("%s: processing a hello: %s %v", evname, oc, val))
				res.Abnormal = true
			}
			if perr != nil {
				prefix = "e1/"
			} else {
				prefix = "e0/"
			}
			valid := strings.ContainsRune("mscn", rune(ev.kind))
			if valid {
				sp := &spec[ev.n]
				if !before[ev.n].present {
					sp.hellos = 0
				}
				sp.hellos++
				sp.heard, sp.lastLists, sp.expiry, sp.tickAfterExpiry = true, ev.kind == 'm', now+int64(ev.hold), -1
				if ev.kind == 'm' && sp.hellos >= 2 {
					res.NT = true
				}
			}
		case 'T':
			clk.Advance(time.Duration(ev.d) * time.Second)
			now = clk.Sec()
			for _, t := range clk.Tickers() {
				if t.D != time.Second || (live && t.Seq < 4) {
					continue // hello ticker of the interface; the LSDB routines' tickers of a started server
				}
				if t.TryTick(clk.Now()) {
					if q := isisx.Quiesce(); q != "" {
						fail("blocked-after-tick", evname+": adjacency checker stays busy: "+q)
						res.Abnormal = true
					}
				}
			}
		case 'R':
			s.VerifRunPendingLSPUpdate()
		case 'G':
			s.VerifUpdateL2LSP()
		}
		if res.Abnormal {
			break
		}
		if q := isisx.Quiesce(); q != "" {
			obs = append(obs, "blocked")
			fail("blocked", evname+": server goroutine stays busy: "+q)
			res.Abnormal = true
			break
		}
		o, pending, lsp, _ := observe()
		obs = append(obs, prefix+format(o, pending, lsp))

		// ---------------- spec oracle: the property's statement on what was observed
		for i := range o {
			sp := &spec[i]
			x := o[i]
			who := fmt.Sprintf("%s: neighbor %d", evname, i)
			if x.present && x.state == packet.P2PAdjStateUp {
				// Up only after a hello that lists this system and circuit in the three-way TLV
				if !sp.heard || !sp.lastLists {
					fail("up-without-threeway", who+" is Up but its last valid hello did not list us")
				}
				// ... and not past the holding time once the checker looked
				if ev.op == 'T' && sp.heard && sp.expiry < now {
					fail("up-after-holding-time", fmt.Sprintf("%s is Up at %d although its holding time ended at %d", who, now, sp.expiry))
				}
			}
			if op == 'H' && ev.n == i && strings.ContainsRune("scn", rune(ev.kind)) && x.present && x.state == packet.P2PAdjStateUp {
				fail("up-after-mismatch", who+" stays Up after a hello that does not list us")
			}
			if op == 'H' && ev.n == i && ev.kind == 'm' && before[i].present && !(x.present && x.state == packet.P2PAdjStateUp) {
				fail("not-up-after-threeway", who+" exists and received a hello listing us but is not Up")
			}
			if strings.ContainsRune("xapil", rune(ev.kind)) && op == 'H' && ev.n == i && x != before[i] {
				fail("invalid-hello-changed-state", who+" changed on a hello that must be rejected/ignored")
			}
			// a silent neighbor disappears eventually, whatever state it was in
			if ev.op == 'T' && sp.heard {
				if sp.tickAfterExpiry < 0 && sp.expiry < now {
					sp.tickAfterExpiry = now
				} else if sp.tickAfterExpiry >= 0 && now > sp.tickAfterExpiry+removeAfter && x.present {
					fail("silent-neighbor-not-removed-"+stLetter(x.state),
						fmt.Sprintf("%s (state %s) still present at %d: holding time ended at %d, checker ran at %d and again now", who, stLetter(x.state), now, sp.expiry, sp.tickAfterExpiry))
				}
			}
			if !x.present && before[i].present {
				res.NT = true
				sp.heard = false
			}
		}
		// the LSP lists exactly the Up adjacencies once regenerated; a change of the Up set asks for a regeneration
		var ups []int
		for i := range o {
			if o[i].present && o[i].state == packet.P2PAdjStateUp {
				ups = append(ups, i)
			}
		}
		same := len(ups) == len(lsp)
		for i := range ups {
			if same && ups[i] != lsp[i] {
				same = false
			}
		}
		if (ev.op == 'G' || ev.op == 'R') && !pending && !same {
			fail("lsp-differs-from-up-set-after-regeneration", fmt.Sprintf("%s: LSP lists %v, Up adjacencies are %v", evname, lsp, ups))
		}
		if !same && !pending {
			fail("lsp-stale-and-no-regeneration-requested", fmt.Sprintf("%s: LSP lists %v, Up adjacencies are %v and no LSP update is pending", evname, lsp, ups))
		}
	}
	res.Obs = strings.Join(obs, " ")
	if res.Obs == "" {
		res.Obs = "-"
	}
	if !res.Abnormal {
		oc, _ := isisx.Watchdog(func() { s.VerifShutdown() })
		if oc != "ok" || isisx.Quiesce() != "" {
			res.Abnormal = true
		}
	}
	return
}

func gen(r *hx.RNG, tr *hx.Trace) string {
	if r.Chance(25) {
		return genLive(r, tr)
	}
	var toks []string
	nn := 1 + r.Intn(2)
	holds := []int{0, 1, 2, 3, 5, 9}
	n := 4 + r.Intn(14)
	for i := 0; i < n; i++ {
		c := r.Intn(100)
		switch {
		case c < 50:
			kind := "mmmmmmscnscn"[r.Intn(12)]
			if r.Chance(12) {
				kind = "xapil"[r.Intn(5)]
			}
			toks = append(toks, fmt.Sprintf("H%d:%d:%c%d", r.Intn(nn), holds[r.Intn(len(holds))], kind, r.Intn(3)))
			tr.Count("hello_" + string(kind))
		case c < 85:
			d := 1
			switch r.Intn(10) {
			case 0:
				d = 118 + r.Intn(5)
			case 1, 2:
				d = 2 + r.Intn(9)
			case 3:
				d = 100 + r.Intn(40)
			}
			rep := 1
			if d == 1 && r.Chance(40) {
				rep = 2 + r.Intn(4)
			}
			for j := 0; j < rep; j++ {
				toks = append(toks, fmt.Sprintf("T%d", d))
			}
			tr.Count("tick")
		case c < 95:
			toks = append(toks, "R")
			tr.Count("regen_pending")
		default:
			toks = append(toks, "G")
			tr.Count("regen_forced")
		}
	}
	// most cases end with silence long enough for every neighbor to be timed out and removed
	if r.Chance(75) {
		switch r.Intn(3) {
		case 0:
			toks = append(toks, "T10", "T121", "R")
		case 1:
			toks = append(toks, "T4", "T3", "T3", "T119", "T1", "T1", "R")
		default:
			toks = append(toks, "T10", "T60", "T60", "T1", "R")
		}
		tr.Count("drain")
	}
	return strings.Join(toks, " ")
}

func main() {
	isisx.Silence()
	if isisx.IsWorker() {
		isisx.ServeWorker(runCase)
		return
	}
	cfg := hx.Parse()
	tr := hx.NewTrace(cfg.Out)
	var cases [][2]string
	if cfg.Mode == "replay" {
		for _, c := range hx.InputsFrom(cfg.Replay) {
			cases = append(cases, c)
		}
	} else {
		for _, c := range hx.InputsFrom(hx.CorpusFiles(cfg.Corpus)...) {
			cases = append(cases, [2]string{"corpus-" + c[0], c[1]})
			tr.Count("corpus")
		}
		rng := hx.NewRNG(cfg.Seed)
		if cfg.Mode == "search" {
			rng = hx.NewRNG(cfg.Seed ^ 0x5bd1e995)
		}
		for i := 0; i < cfg.N; i++ {
			cases = append(cases, [2]string{fmt.Sprintf("g%d", i), gen(rng.Fork(uint64(i)), tr)})
		}
	}
	nviol := 0
	sigs := map[string]int{}
	isisx.Isolate(cases, os.Args[1:], 500, func(r isisx.Result) bool {
		tr.Case(r.ID, r.NT, r.Input, r.Obs)
		if r.Sig != "" {
			sigs[r.Sig]++
			if sigs[r.Sig] <= 3 {
				hx.Violation(r.ID, r.Sig, r.Detail)
			}
			nviol++
		}
		return true
	})
	tr.Close(cfg.Stats, map[string]interface{}{"spec_violations": nviol, "violation_signatures": sigs})
}

// live cases: the real LSP updater routine runs; B = a hello that arrives while it builds the LSP
func genLive(r *hx.RNG, tr *hx.Trace) string {
	toks := []string{"live"}
	nn := 1 + r.Intn(2)
	holds := []int{1, 3, 9}
	n := 4 + r.Intn(10)
	for i := 0; i < n; i++ {
		kind := "mmmmmscn"[r.Intn(8)]
		c := r.Intn(100)
		switch {
		case c < 40:
			toks = append(toks, fmt.Sprintf("H%d:%d:%c%d", r.Intn(nn), holds[r.Intn(3)], kind, r.Intn(3)))
		case c < 75:
			toks = append(toks, fmt.Sprintf("B%d:%d:%c%d", r.Intn(nn), holds[r.Intn(3)], kind, r.Intn(3)))
			tr.Count("hello_during_build")
		default:
			toks = append(toks, fmt.Sprintf("T%d", 1+r.Intn(4)))
		}
	}
	tr.Count("live")
	return strings.Join(toks, " ")
}
