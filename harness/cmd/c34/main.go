// C34 harness: route.Route.ToProto / route.RouteFromProtoRoute on generated routes.
//
// Input tokens (one route per line, paths separated by the token "|"):
//   dd=<0|1> pfx=<ip>/<len>|-   then per path:
//   | t=<type> rd=<redistributedFrom> h=<hiddenReason> lt=<ltime> st=<ip>|~|-  bgp=+|-
//     and, when bgp=+:  a=+|- [nh=<ip>|- src=<ip>|- lp= med= id= oid= agg=<asn>:<addr>|- ebgp= atom= org= otc=]
//                       asp=<segs>|e|-  cl=<nums>|e|-  co=<nums>|e|-  lc=<a.b.c;...>|e|-  ua=<attrs>|e  pid= apl= pp=
//   ip = <higher hex>:<lower hex>:<4|6>; "-" = nil pointer, "e" = empty, "~" = static path with nil next hop
//   segs = <type>:<asn.asn...>;...   attrs = <o><t><p>:<code>:<value hex>;...
//
// Observation: "API <dump of the API message> BACK <dump of the route that came back>" in the same
// notation (API: type/hidden numbers of the enums; lists of the message: nil = empty = "e"; BACK:
// only the fields the property speaks about, see dumpBack), or PANIC-TO / PANIC-FROM.
//
// Spec oracle (independent of the Coq model), on well-formed routes only: no panic; prefix, number
// and type of paths, static next hop and the sixteen BGP attributes of the property come back equal
// (nil list = empty list); a hidden path is hidden in the API message and after the way back.
package main

import (
	"fmt"
	"os"
	"strconv"
	"strings"

	bnet "github.com/bio-routing/bio-rd/net"
	netapi "github.com/bio-routing/bio-rd/net/api"
	"github.com/bio-routing/bio-rd/protocols/bgp/types"
	"github.com/bio-routing/bio-rd/route"
	routeapi "github.com/bio-routing/bio-rd/route/api"

	"verifharness/hx"
)

// ---- case representation (mirrors the records of coq/Model/APIConv.v)

type ipT struct {
	hi, lo uint64
	v4     bool
}
type segT struct {
	typ  uint8
	asns []uint32
}
type uaT struct {
	o, t, p bool
	code    uint8
	val     []byte
}
type bgpAT struct {
	nh, src                  *ipT
	lp, med, id, oid, otc    uint32
	agg                      *[2]uint32 // asn, addr
	ebgp, atom               bool
	org                      uint8
}
type bgpT struct {
	a          *bgpAT
	asp        *[]segT
	cl, co     *[]uint32
	lc         *[][3]uint32
	ua         []uaT
	pid        uint32
	apl        uint16
	pp         bool
}
type pathT struct {
	typ, rd, hid uint8
	lt           uint32
	st           int // 0 = nil static path, 1 = static path with nil next hop, 2 = with next hop
	snh          ipT
	bgp          *bgpT
}
type routeT struct {
	dedup bool
	pfx   *ipT
	plen  uint8
	paths []pathT
}

// ---- text

func fmtIP(i *ipT) string {
	if i == nil {
		return "-"
	}
	v := "6"
	if i.v4 {
		v = "4"
	}
	return fmt.Sprintf("%x:%x:%s", i.hi, i.lo, v)
}
func parseIP(s string) (*ipT, error) {
	if s == "-" {
		return nil, nil
	}
	p := strings.Split(s, ":")
	if len(p) != 3 {
		return nil, fmt.Errorf("bad ip %q", s)
	}
	hi, e1 := strconv.ParseUint(p[0], 16, 64)
	lo, e2 := strconv.ParseUint(p[1], 16, 64)
	if e1 != nil || e2 != nil || (p[2] != "4" && p[2] != "6") {
		return nil, fmt.Errorf("bad ip %q", s)
	}
	return &ipT{hi, lo, p[2] == "4"}, nil
}
func b01(b bool) string {
	if b {
		return "1"
	}
	return "0"
}
func fmtNums(l *[]uint32) string {
	if l == nil {
		return "-"
	}
	if len(*l) == 0 {
		return "e"
	}
	var s []string
	for _, x := range *l {
		s = append(s, strconv.FormatUint(uint64(x), 10))
	}
	return strings.Join(s, ".")
}
func parseNums(s string) (*[]uint32, error) {
	if s == "-" {
		return nil, nil
	}
	l := []uint32{}
	if s == "e" || s == "" {
		return &l, nil
	}
	for _, x := range strings.Split(s, ".") {
		v, err := strconv.ParseUint(x, 10, 32)
		if err != nil {
			return nil, err
		}
		l = append(l, uint32(v))
	}
	return &l, nil
}
func fmtSegs(l *[]segT) string {
	if l == nil {
		return "-"
	}
	if len(*l) == 0 {
		return "e"
	}
	var s []string
	for _, g := range *l {
		a := g.asns
		x := fmtNums(&a)
		if x == "e" {
			x = ""
		}
		s = append(s, fmt.Sprintf("%d:%s", g.typ, x))
	}
	return strings.Join(s, ";")
}
func parseSegs(s string) (*[]segT, error) {
	if s == "-" {
		return nil, nil
	}
	l := []segT{}
	if s == "e" {
		return &l, nil
	}
	for _, x := range strings.Split(s, ";") {
		p := strings.SplitN(x, ":", 2)
		if len(p) != 2 {
			return nil, fmt.Errorf("bad segment %q", x)
		}
		t, err := strconv.ParseUint(p[0], 10, 8)
		if err != nil {
			return nil, err
		}
		n, err := parseNums(p[1])
		if err != nil {
			return nil, err
		}
		l = append(l, segT{uint8(t), *n})
	}
	return &l, nil
}
func fmtLC(l *[][3]uint32) string {
	if l == nil {
		return "-"
	}
	if len(*l) == 0 {
		return "e"
	}
	var s []string
	for _, c := range *l {
		s = append(s, fmt.Sprintf("%d.%d.%d", c[0], c[1], c[2]))
	}
	return strings.Join(s, ";")
}
func parseLC(s string) (*[][3]uint32, error) {
	if s == "-" {
		return nil, nil
	}
	l := [][3]uint32{}
	if s == "e" {
		return &l, nil
	}
	for _, x := range strings.Split(s, ";") {
		n, err := parseNums(x)
		if err != nil || len(*n) != 3 {
			return nil, fmt.Errorf("bad large community %q", x)
		}
		l = append(l, [3]uint32{(*n)[0], (*n)[1], (*n)[2]})
	}
	return &l, nil
}
func fmtUA(l []uaT) string {
	if len(l) == 0 {
		return "e"
	}
	var s []string
	for _, u := range l {
		s = append(s, fmt.Sprintf("%s%s%s:%d:%x", b01(u.o), b01(u.t), b01(u.p), u.code, u.val))
	}
	return strings.Join(s, ";")
}
func parseUA(s string) ([]uaT, error) {
	if s == "e" {
		return nil, nil
	}
	var l []uaT
	for _, x := range strings.Split(s, ";") {
		p := strings.Split(x, ":")
		if len(p) != 3 || len(p[0]) != 3 || len(p[2])%2 != 0 {
			return nil, fmt.Errorf("bad unknown attribute %q", x)
		}
		c, err := strconv.ParseUint(p[1], 10, 8)
		if err != nil {
			return nil, err
		}
		u := uaT{o: p[0][0] == '1', t: p[0][1] == '1', p: p[0][2] == '1', code: uint8(c)}
		for i := 0; i < len(p[2]); i += 2 {
			b, err := strconv.ParseUint(p[2][i:i+2], 16, 8)
			if err != nil {
				return nil, err
			}
			u.val = append(u.val, byte(b))
		}
		l = append(l, u)
	}
	return l, nil
}

func fmtBGP(b *bgpT) string {
	if b == nil {
		return "bgp=-"
	}
	var s []string
	s = append(s, "bgp=+")
	if b.a == nil {
		s = append(s, "a=-")
	} else {
		a := b.a
		agg := "-"
		if a.agg != nil {
			agg = fmt.Sprintf("%d:%d", a.agg[0], a.agg[1])
		}
		s = append(s, "a=+", "nh="+fmtIP(a.nh), "src="+fmtIP(a.src),
			fmt.Sprintf("lp=%d med=%d id=%d oid=%d agg=%s ebgp=%s atom=%s org=%d otc=%d",
				a.lp, a.med, a.id, a.oid, agg, b01(a.ebgp), b01(a.atom), a.org, a.otc))
	}
	s = append(s, "asp="+fmtSegs(b.asp), "cl="+fmtNums(b.cl), "co="+fmtNums(b.co), "lc="+fmtLC(b.lc), "ua="+fmtUA(b.ua),
		fmt.Sprintf("pid=%d apl=%d pp=%s", b.pid, b.apl, b01(b.pp)))
	return strings.Join(s, " ")
}

func fmtPath(p *pathT) string {
	st := "-"
	switch p.st {
	case 1:
		st = "~"
	case 2:
		st = fmtIP(&p.snh)
	}
	return fmt.Sprintf("t=%d rd=%d h=%d lt=%d st=%s %s", p.typ, p.rd, p.hid, p.lt, st, fmtBGP(p.bgp))
}

func (r *routeT) String() string {
	pf := "-"
	if r.pfx != nil {
		pf = fmt.Sprintf("%s/%d", fmtIP(r.pfx), r.plen)
	}
	s := []string{"dd=" + b01(r.dedup), "pfx=" + pf}
	for i := range r.paths {
		s = append(s, "|", fmtPath(&r.paths[i]))
	}
	return strings.Join(s, " ")
}

func parseRoute(in string) (*routeT, error) {
	r := &routeT{}
	var cur *pathT
	u32 := func(v string) (uint32, error) { x, err := strconv.ParseUint(v, 10, 32); return uint32(x), err }
	u8 := func(v string) (uint8, error) { x, err := strconv.ParseUint(v, 10, 8); return uint8(x), err }
	for _, tok := range strings.Fields(in) {
		if tok == "|" {
			r.paths = append(r.paths, pathT{})
			cur = &r.paths[len(r.paths)-1]
			continue
		}
		kv := strings.SplitN(tok, "=", 2)
		if len(kv) != 2 {
			return nil, fmt.Errorf("bad token %q", tok)
		}
		k, v := kv[0], kv[1]
		var err error
		if cur == nil {
			switch k {
			case "dd":
				r.dedup = v == "1"
			case "pfx":
				if v != "-" {
					p := strings.SplitN(v, "/", 2)
					if len(p) != 2 {
						return nil, fmt.Errorf("bad prefix %q", v)
					}
					if r.pfx, err = parseIP(p[0]); err == nil {
						r.plen, err = u8(p[1])
					}
				}
			default:
				err = fmt.Errorf("bad token %q", tok)
			}
		} else {
			b := cur.bgp
			var a *bgpAT
			if b != nil {
				a = b.a
			}
			need := func(ok bool) error {
				if !ok {
					return fmt.Errorf("token %q out of place", tok)
				}
				return nil
			}
			switch k {
			case "t":
				cur.typ, err = u8(v)
			case "rd":
				cur.rd, err = u8(v)
			case "h":
				cur.hid, err = u8(v)
			case "lt":
				cur.lt, err = u32(v)
			case "st":
				switch v {
				case "-":
					cur.st = 0
				case "~":
					cur.st = 1
				default:
					var i *ipT
					if i, err = parseIP(v); err == nil && i != nil {
						cur.st, cur.snh = 2, *i
					}
				}
			case "bgp":
				if v == "+" {
					cur.bgp = &bgpT{}
				}
			case "a":
				if err = need(b != nil); err == nil && v == "+" {
					b.a = &bgpAT{}
				}
			case "nh":
				if err = need(a != nil); err == nil {
					a.nh, err = parseIP(v)
				}
			case "src":
				if err = need(a != nil); err == nil {
					a.src, err = parseIP(v)
				}
			case "lp":
				if err = need(a != nil); err == nil {
					a.lp, err = u32(v)
				}
			case "med":
				if err = need(a != nil); err == nil {
					a.med, err = u32(v)
				}
			case "id":
				if err = need(a != nil); err == nil {
					a.id, err = u32(v)
				}
			case "oid":
				if err = need(a != nil); err == nil {
					a.oid, err = u32(v)
				}
			case "otc":
				if err = need(a != nil); err == nil {
					a.otc, err = u32(v)
				}
			case "org":
				if err = need(a != nil); err == nil {
					a.org, err = u8(v)
				}
			case "ebgp":
				if err = need(a != nil); err == nil {
					a.ebgp = v == "1"
				}
			case "atom":
				if err = need(a != nil); err == nil {
					a.atom = v == "1"
				}
			case "agg":
				if err = need(a != nil); err == nil && v != "-" {
					p := strings.SplitN(v, ":", 2)
					if len(p) != 2 {
						err = fmt.Errorf("bad aggregator %q", v)
					} else {
						var x, y uint32
						if x, err = u32(p[0]); err == nil {
							if y, err = u32(p[1]); err == nil {
								a.agg = &[2]uint32{x, y}
							}
						}
					}
				}
			case "asp":
				if err = need(b != nil); err == nil {
					b.asp, err = parseSegs(v)
				}
			case "cl":
				if err = need(b != nil); err == nil {
					b.cl, err = parseNums(v)
				}
			case "co":
				if err = need(b != nil); err == nil {
					b.co, err = parseNums(v)
				}
			case "lc":
				if err = need(b != nil); err == nil {
					b.lc, err = parseLC(v)
				}
			case "ua":
				if err = need(b != nil); err == nil {
					b.ua, err = parseUA(v)
				}
			case "pid":
				if err = need(b != nil); err == nil {
					b.pid, err = u32(v)
				}
			case "apl":
				if err = need(b != nil); err == nil {
					var x uint64
					x, err = strconv.ParseUint(v, 10, 16)
					b.apl = uint16(x)
				}
			case "pp":
				if err = need(b != nil); err == nil {
					b.pp = v == "1"
				}
			default:
				err = fmt.Errorf("bad token %q", tok)
			}
		}
		if err != nil {
			return nil, fmt.Errorf("%q: %v", tok, err)
		}
	}
	return r, nil
}

// ---- well-formedness (the domain of the property; Spec.APIConvSpec.wf_route)

func (r *routeT) wellFormed() bool {
	if r.pfx == nil {
		return false
	}
	for i := range r.paths {
		p := &r.paths[i]
		if p.st == 1 {
			return false
		}
		switch p.typ {
		case route.StaticPathType:
			if p.st != 2 {
				return false
			}
		case route.BGPPathType:
			b := p.bgp
			if b == nil || b.a == nil || b.a.nh == nil || b.a.src == nil {
				return false
			}
			if b.asp != nil {
				for _, s := range *b.asp {
					if s.typ != types.ASSet && s.typ != types.ASSequence {
						return false
					}
				}
			}
		default:
			return false
		}
	}
	return true
}

// ---- to bio-rd values and back

func mkIP(i *ipT) *bnet.IP {
	if i == nil {
		return nil
	}
	if i.v4 {
		return bnet.IPv4(uint32(i.lo)).Ptr()
	}
	return bnet.IPv6(i.hi, i.lo).Ptr()
}
func rdIP(i *bnet.IP) *ipT {
	if i == nil {
		return nil
	}
	return &ipT{i.Higher(), i.Lower(), i.IsIPv4()}
}

func build(r *routeT) *route.Route {
	var pfx *bnet.Prefix
	if r.pfx != nil {
		pfx = bnet.NewPfx(*mkIP(r.pfx), r.plen).Ptr()
	}
	paths := make([]*route.Path, 0, len(r.paths))
	for i := range r.paths {
		p := &r.paths[i]
		rp := &route.Path{Type: p.typ, RedistributedFrom: p.rd, HiddenReason: p.hid, LTime: p.lt}
		switch p.st {
		case 1:
			rp.StaticPath = &route.StaticPath{}
		case 2:
			rp.StaticPath = &route.StaticPath{NextHop: mkIP(&p.snh)}
		}
		if b := p.bgp; b != nil {
			rb := &route.BGPPath{PathIdentifier: b.pid, ASPathLen: b.apl, BMPPostPolicy: b.pp}
			if a := b.a; a != nil {
				rb.BGPPathA = &route.BGPPathA{NextHop: mkIP(a.nh), Source: mkIP(a.src), LocalPref: a.lp, MED: a.med,
					BGPIdentifier: a.id, OriginatorID: a.oid, EBGP: a.ebgp, AtomicAggregate: a.atom, Origin: a.org, OnlyToCustomer: a.otc}
				if a.agg != nil {
					rb.BGPPathA.Aggregator = &types.Aggregator{ASN: uint16(a.agg[0]), Address: a.agg[1]}
				}
			}
			if b.asp != nil {
				asp := make(types.ASPath, 0, len(*b.asp))
				for _, s := range *b.asp {
					asp = append(asp, types.ASPathSegment{Type: s.typ, ASNs: append([]uint32(nil), s.asns...)})
				}
				rb.ASPath = &asp
			}
			if b.cl != nil {
				cl := types.ClusterList(append([]uint32{}, (*b.cl)...))
				rb.ClusterList = &cl
			}
			if b.co != nil {
				co := types.Communities(append([]uint32{}, (*b.co)...))
				rb.Communities = &co
			}
			if b.lc != nil {
				lc := make(types.LargeCommunities, 0, len(*b.lc))
				for _, c := range *b.lc {
					lc = append(lc, types.LargeCommunity{GlobalAdministrator: c[0], DataPart1: c[1], DataPart2: c[2]})
				}
				rb.LargeCommunities = &lc
			}
			for _, u := range b.ua {
				rb.UnknownAttributes = append(rb.UnknownAttributes, types.UnknownPathAttribute{
					Optional: u.o, Transitive: u.t, Partial: u.p, TypeCode: u.code, Value: append([]byte(nil), u.val...)})
			}
			rp.BGPPath = rb
		}
		paths = append(paths, rp)
	}
	return route.NewRouteAddPath(pfx, paths)
}

func readBack(rr *route.Route) *routeT {
	r := &routeT{}
	if pf := rr.Prefix(); pf != nil {
		a := pf.Addr()
		r.pfx = rdIP(&a)
		r.plen = pf.Len()
	}
	for _, rp := range rr.Paths() {
		p := pathT{typ: rp.Type, rd: rp.RedistributedFrom, hid: rp.HiddenReason, lt: rp.LTime}
		if s := rp.StaticPath; s != nil {
			p.st = 1
			if s.NextHop != nil {
				p.st, p.snh = 2, *rdIP(s.NextHop)
			}
		}
		if rb := rp.BGPPath; rb != nil {
			b := &bgpT{pid: rb.PathIdentifier, apl: rb.ASPathLen, pp: rb.BMPPostPolicy}
			if ra := rb.BGPPathA; ra != nil {
				b.a = &bgpAT{nh: rdIP(ra.NextHop), src: rdIP(ra.Source), lp: ra.LocalPref, med: ra.MED, id: ra.BGPIdentifier,
					oid: ra.OriginatorID, ebgp: ra.EBGP, atom: ra.AtomicAggregate, org: ra.Origin, otc: ra.OnlyToCustomer}
				if ra.Aggregator != nil {
					b.a.agg = &[2]uint32{uint32(ra.Aggregator.ASN), ra.Aggregator.Address}
				}
			}
			if rb.ASPath != nil {
				l := []segT{}
				for _, s := range *rb.ASPath {
					l = append(l, segT{s.Type, s.ASNs})
				}
				b.asp = &l
			}
			if rb.ClusterList != nil {
				l := []uint32(*rb.ClusterList)
				b.cl = &l
			}
			if rb.Communities != nil {
				l := []uint32(*rb.Communities)
				b.co = &l
			}
			if rb.LargeCommunities != nil {
				l := [][3]uint32{}
				for _, c := range *rb.LargeCommunities {
					l = append(l, [3]uint32{c.GlobalAdministrator, c.DataPart1, c.DataPart2})
				}
				b.lc = &l
			}
			for _, u := range rb.UnknownAttributes {
				b.ua = append(b.ua, uaT{u.Optional, u.Transitive, u.Partial, u.TypeCode, u.Value})
			}
			p.bgp = b
		}
		r.paths = append(r.paths, p)
	}
	return r
}

// ---- dump of the route that came back: the fields the property speaks about (prefix, type, hidden
// reason, the part of the path that belongs to its type, the sixteen BGP attributes); LTime,
// RedistributedFrom, Aggregator, AtomicAggregate and ASPathLen are not part of the observation
func dumpBack(r *routeT) string {
	pf := "-"
	if r.pfx != nil {
		pf = fmt.Sprintf("%s/%d", fmtIP(r.pfx), r.plen)
	}
	s := []string{"pfx=" + pf}
	for i := range r.paths {
		p := &r.paths[i]
		s = append(s, "|", fmt.Sprintf("t=%d h=%d", p.typ, p.hid))
		if p.typ != route.BGPPathType {
			st := "-"
			switch p.st {
			case 1:
				st = "~"
			case 2:
				st = fmtIP(&p.snh)
			}
			s = append(s, "st="+st)
			continue
		}
		b := p.bgp
		if b == nil {
			s = append(s, "bgp=-")
			continue
		}
		s = append(s, "bgp=+")
		if b.a == nil {
			s = append(s, "a=-")
		} else {
			a := b.a
			s = append(s, "a=+", "nh="+fmtIP(a.nh), "src="+fmtIP(a.src),
				fmt.Sprintf("lp=%d med=%d id=%d oid=%d ebgp=%s org=%d otc=%d", a.lp, a.med, a.id, a.oid, b01(a.ebgp), a.org, a.otc))
		}
		s = append(s, "asp="+fmtSegs(b.asp), "cl="+fmtNums(b.cl), "co="+fmtNums(b.co), "lc="+fmtLC(b.lc), "ua="+fmtUA(b.ua),
			fmt.Sprintf("pid=%d pp=%s", b.pid, b01(b.pp)))
	}
	return strings.Join(s, " ")
}

// ---- dump of the API message

func fmtAPIIP(i *netapi.IP) string {
	if i == nil {
		return "-"
	}
	return fmt.Sprintf("%x:%x:%d", i.Higher, i.Lower, int32(i.Version))
}
func dumpAPI(a *routeapi.Route) string {
	pf := "-"
	if a.Pfx != nil {
		pf = fmt.Sprintf("%s/%d", fmtAPIIP(a.Pfx.Address), a.Pfx.Length)
	}
	s := []string{"pfx=" + pf}
	for _, p := range a.Paths {
		if p == nil {
			s = append(s, "|", "nil")
			continue
		}
		st := "-"
		if p.StaticPath != nil {
			st = "~"
			if p.StaticPath.NextHop != nil {
				st = fmtAPIIP(p.StaticPath.NextHop)
			}
		}
		s = append(s, "|", fmt.Sprintf("t=%d h=%d st=%s", int32(p.Type), int32(p.HiddenReason), st))
		b := p.BgpPath
		if b == nil {
			s = append(s, "bgp=-")
			continue
		}
		var segs []string
		for _, g := range b.AsPath {
			x := fmtNums(&g.Asns)
			if x == "e" {
				x = ""
			}
			segs = append(segs, fmt.Sprintf("%s:%s", b01(g.AsSequence), x))
		}
		asp := "e"
		if len(segs) > 0 {
			asp = strings.Join(segs, ";")
		}
		lc := [][3]uint32{}
		for _, c := range b.LargeCommunities {
			lc = append(lc, [3]uint32{c.GlobalAdministrator, c.DataPart1, c.DataPart2})
		}
		var ua []string
		for _, u := range b.UnknownAttributes {
			ua = append(ua, fmt.Sprintf("%s%s%s:%d:%x", b01(u.Optional), b01(u.Transitive), b01(u.Partial), u.TypeCode, u.Value))
		}
		uas := "e"
		if len(ua) > 0 {
			uas = strings.Join(ua, ";")
		}
		nz := func(l []uint32) string { // nil = empty
			if len(l) == 0 {
				return "e"
			}
			return fmtNums(&l)
		}
		s = append(s, fmt.Sprintf("bgp=+ pid=%d nh=%s lp=%d asp=%s org=%d med=%d ebgp=%s id=%d src=%s co=%s lc=%s oid=%d cl=%s ua=%s pp=%s otc=%d",
			b.PathIdentifier, fmtAPIIP(b.NextHop), b.LocalPref, asp, b.Origin, b.Med, b01(b.Ebgp), b.BgpIdentifier, fmtAPIIP(b.Source),
			nz(b.Communities), fmtLC(&lc), b.OriginatorId, nz(b.ClusterList), uas, b01(b.BmpPostPolicy), b.OnlyToCustomer))
	}
	return strings.Join(s, " ")
}

// ---- spec oracle

func sameIP(a, b *ipT) bool {
	if a == nil || b == nil {
		return a == b
	}
	return *a == *b
}
func nums(l *[]uint32) string { // nil = empty
	if l == nil || len(*l) == 0 {
		return "e"
	}
	return fmtNums(l)
}

type viol struct{ sig, detail string }

func judge(in *routeT, api *routeapi.Route, back *routeT) []viol {
	var v []viol
	add := func(sig, f string, a ...interface{}) { v = append(v, viol{sig, fmt.Sprintf(f, a...)}) }
	if !sameIP(in.pfx, back.pfx) || in.plen != back.plen {
		add("prefix", "prefix %s/%d came back as %s/%d", fmtIP(in.pfx), in.plen, fmtIP(back.pfx), back.plen)
	}
	if len(in.paths) != len(back.paths) || len(api.Paths) != len(in.paths) {
		add("path-count", "%d paths, %d in the API message, %d came back", len(in.paths), len(api.Paths), len(back.paths))
		return v
	}
	for i := range in.paths {
		p, q, ap := &in.paths[i], &back.paths[i], api.Paths[i]
		if p.typ != q.typ {
			add("path-type", "path %d type %d came back as %d", i, p.typ, q.typ)
			continue
		}
		// hidden
		apiHidden := ap.HiddenReason != routeapi.Path_HiddenReasonNone
		switch {
		case p.hid != 0 && !apiHidden && p.hid <= 6:
			add("hidden-reported-visible", "path %d hidden (reason %d) but the API message says HiddenReasonNone", i, p.hid)
		case p.hid != 0 && !apiHidden:
			add("hidden-reason-without-api-name-reported-visible", "path %d hidden (reason %d) but the API message says HiddenReasonNone", i, p.hid)
		case p.hid != 0 && q.hid == 0:
			add("hidden-lost-on-return", "path %d hidden (reason %d, API %d) came back visible", i, p.hid, int32(ap.HiddenReason))
		case p.hid == 0 && (apiHidden || q.hid != 0):
			add("visible-reported-hidden", "path %d visible but API reason %d, came back with reason %d", i, int32(ap.HiddenReason), q.hid)
		}
		if p.typ == route.StaticPathType {
			if q.st != 2 || p.snh != q.snh {
				add("static-nexthop", "path %d static next hop %s came back as %s (state %d)", i, fmtIP(&p.snh), fmtIP(&q.snh), q.st)
			}
			continue
		}
		b, c := p.bgp, q.bgp
		if c == nil || c.a == nil {
			add("bgp-missing", "path %d came back without BGP attributes", i)
			continue
		}
		chk := func(sig string, ok bool, x, y interface{}) {
			if !ok {
				add(sig, "path %d: %v came back as %v", i, x, y)
			}
		}
		chk("bgp-nexthop", sameIP(b.a.nh, c.a.nh), fmtIP(b.a.nh), fmtIP(c.a.nh))
		chk("bgp-localpref", b.a.lp == c.a.lp, b.a.lp, c.a.lp)
		chk("bgp-aspath", fmtSegs(orEmptySegs(b.asp)) == fmtSegs(orEmptySegs(c.asp)), fmtSegs(b.asp), fmtSegs(c.asp))
		chk("bgp-origin", b.a.org == c.a.org, b.a.org, c.a.org)
		chk("bgp-med", b.a.med == c.a.med, b.a.med, c.a.med)
		chk("bgp-ebgp", b.a.ebgp == c.a.ebgp, b.a.ebgp, c.a.ebgp)
		chk("bgp-identifier", b.a.id == c.a.id, b.a.id, c.a.id)
		chk("bgp-source", sameIP(b.a.src, c.a.src), fmtIP(b.a.src), fmtIP(c.a.src))
		chk("bgp-communities", nums(b.co) == nums(c.co), nums(b.co), nums(c.co))
		chk("bgp-large-communities", fmtLC(orEmptyLC(b.lc)) == fmtLC(orEmptyLC(c.lc)), fmtLC(b.lc), fmtLC(c.lc))
		chk("bgp-originator-id", b.a.oid == c.a.oid, b.a.oid, c.a.oid)
		if nums(b.cl) != nums(c.cl) {
			if nums(c.cl) == "e" {
				add("cluster-list-lost", "path %d: CLUSTER_LIST %s came back empty (API message: %v)", i, nums(b.cl), ap.BgpPath.GetClusterList())
			} else {
				add("bgp-cluster-list", "path %d: CLUSTER_LIST %s came back as %s", i, nums(b.cl), nums(c.cl))
			}
		}
		chk("bgp-unknown-attributes", fmtUA(b.ua) == fmtUA(c.ua), fmtUA(b.ua), fmtUA(c.ua))
		chk("bgp-path-identifier", b.pid == c.pid, b.pid, c.pid)
		chk("bgp-post-policy", b.pp == c.pp, b.pp, c.pp)
		chk("bgp-otc", b.a.otc == c.a.otc, b.a.otc, c.a.otc)
	}
	return v
}
func orEmptySegs(l *[]segT) *[]segT {
	if l == nil {
		return &[]segT{}
	}
	return l
}
func orEmptyLC(l *[][3]uint32) *[][3]uint32 {
	if l == nil {
		return &[][3]uint32{}
	}
	return l
}

// ---- generator

func genIP(r *hx.RNG) ipT {
	if r.Chance(55) {
		return ipT{0, uint64(uint32(r.U64())) >> uint(r.Intn(3)*8), true}
	}
	hi, lo := r.U64(), r.U64()
	switch r.Intn(4) {
	case 0:
		lo = 0
	case 1:
		hi = 0x20010db800000000 | uint64(r.Intn(4))
		lo = uint64(r.Intn(4))
	}
	return ipT{hi, lo, false}
}
func genU32(r *hx.RNG) uint32 {
	switch r.Intn(5) {
	case 0:
		return 0
	case 1:
		return uint32(r.Intn(4))
	case 2:
		return 0xffffffff - uint32(r.Intn(2))
	default:
		return uint32(r.U64())
	}
}

// genList: nil pointer, pointer to an empty list, or 1..4 elements
func genNums(r *hx.RNG, t *hx.Trace, key string) *[]uint32 {
	switch k := r.Intn(10); {
	case k < 2:
		t.Count(key + "_nil")
		return nil
	case k < 4:
		t.Count(key + "_empty")
		return &[]uint32{}
	}
	t.Count(key + "_some")
	l := []uint32{}
	for i, n := 0, 1+r.Intn(4); i < n; i++ {
		l = append(l, genU32(r))
	}
	return &l
}

func genBGP(r *hx.RNG, t *hx.Trace, malformed bool) *bgpT {
	b := &bgpT{pid: genU32(r), apl: uint16(r.Intn(5)), pp: r.Bool()}
	nh, src := genIP(r), genIP(r)
	b.a = &bgpAT{nh: &nh, src: &src, lp: genU32(r), med: genU32(r), id: genU32(r), oid: genU32(r), otc: genU32(r),
		ebgp: r.Bool(), atom: r.Bool(), org: uint8([]int{0, 1, 2, 2, 3, 255}[r.Intn(6)])}
	if r.Chance(20) {
		b.a.agg = &[2]uint32{uint32(r.Intn(65536)), genU32(r)}
	}
	switch k := r.Intn(10); {
	case k < 1:
		t.Count("aspath_nil")
	case k < 2:
		t.Count("aspath_empty")
		b.asp = &[]segT{}
	default:
		t.Count("aspath_some")
		l := []segT{}
		for i, n := 0, 1+r.Intn(3); i < n; i++ {
			s := segT{typ: uint8(1 + r.Intn(2))}
			for j, m := 0, r.Intn(4); j < m; j++ {
				s.asns = append(s.asns, genU32(r))
			}
			l = append(l, s)
		}
		b.asp = &l
	}
	b.cl = genNums(r, t, "clusterlist")
	b.co = genNums(r, t, "communities")
	switch k := r.Intn(10); {
	case k < 2:
	case k < 4:
		b.lc = &[][3]uint32{}
	default:
		l := [][3]uint32{}
		for i, n := 0, 1+r.Intn(3); i < n; i++ {
			l = append(l, [3]uint32{genU32(r), genU32(r), genU32(r)})
		}
		b.lc = &l
	}
	for i, n := 0, []int{0, 0, 1, 2, 3}[r.Intn(5)]; i < n; i++ {
		u := uaT{o: r.Bool(), t: r.Bool(), p: r.Bool(), code: uint8([]int{0, 17, 200, 255}[r.Intn(4)] + r.Intn(1))}
		for j, m := 0, r.Intn(4); j < m; j++ {
			u.val = append(u.val, byte(r.Intn(256)))
		}
		b.ua = append(b.ua, u)
	}
	if malformed {
		switch r.Intn(5) {
		case 0:
			b.a = nil
			t.Count("mal_no_attribute_block")
		case 1:
			b.a.nh = nil
			t.Count("mal_no_nexthop")
		case 2:
			b.a.src = nil
			t.Count("mal_no_source")
		case 3:
			if b.asp != nil && len(*b.asp) > 0 {
				(*b.asp)[0].typ = uint8([]int{0, 3, 4}[r.Intn(3)])
				t.Count("mal_segment_type")
			}
		}
	}
	return b
}

func genRoute(r *hx.RNG, t *hx.Trace) *routeT {
	if t == nil {
		t = &hx.Trace{Dist: map[string]int{}}
	}
	rt := &routeT{dedup: r.Bool()}
	pf := genIP(r)
	rt.pfx = &pf
	if pf.v4 {
		rt.plen = uint8(r.Intn(33))
	} else {
		rt.plen = uint8(r.Intn(129))
	}
	if r.Chance(3) {
		rt.plen = uint8(200 + r.Intn(56))
	}
	malformed := r.Chance(8)
	if malformed {
		t.Count("malformed_stream")
	}
	np := []int{0, 1, 1, 1, 2, 2, 3}[r.Intn(7)]
	for i := 0; i < np; i++ {
		p := pathT{rd: uint8(r.Intn(3)), lt: genU32(r)}
		// hidden reason: mostly none; every named reason; the unnamed ones 7, 8, 255
		switch k := r.Intn(10); {
		case k < 5:
		case k < 8:
			p.hid = uint8(1 + r.Intn(6))
		default:
			p.hid = uint8([]int{7, 7, 8, 255}[r.Intn(4)])
		}
		t.Count(fmt.Sprintf("hidden_%03d", p.hid))
		if r.Chance(30) {
			p.typ = route.StaticPathType
			p.st, p.snh = 2, genIP(r)
			if r.Chance(10) {
				p.bgp = genBGP(r, t, false) // unused part, present anyway
			}
			t.Count("path_static")
		} else {
			p.typ = route.BGPPathType
			p.bgp = genBGP(r, t, malformed && r.Chance(60))
			if r.Chance(10) {
				p.st, p.snh = 2, genIP(r)
			}
			t.Count("path_bgp")
		}
		if malformed && r.Chance(25) {
			switch r.Intn(4) {
			case 0:
				p.typ = uint8([]int{0, 3, 4, 5}[r.Intn(4)])
				t.Count("mal_path_type")
			case 1:
				p.st = 1
				t.Count("mal_static_no_nexthop")
			case 2:
				if p.typ == route.BGPPathType {
					p.bgp = nil
				} else {
					p.st = 0
				}
				t.Count("mal_missing_part")
			}
		}
		rt.paths = append(rt.paths, p)
	}
	if malformed && r.Chance(10) {
		rt.pfx = nil
		t.Count("mal_no_prefix")
	}
	return rt
}

// ---- sequences: a base route and variants that differ from it in exactly one attribute

func cloneRoute(r *routeT) *routeT {
	c, err := parseRoute(r.String())
	if err != nil {
		panic("clone: " + err.Error())
	}
	return c
}

// variantNames: every field of the property (and the hidden reason / prefix), one variant each
var variantNames = []string{"med", "localpref", "origin", "nexthop", "source", "communities", "large-communities",
	"cluster-list", "unknown-attributes", "as-path", "bgp-identifier", "originator-id", "ebgp", "otc",
	"path-identifier", "post-policy", "hidden", "prefix", "same"}

func bumpNums(l *[]uint32, r *hx.RNG) *[]uint32 {
	n := []uint32{}
	if l != nil {
		n = append(n, (*l)...)
	}
	if len(n) > 0 && r.Bool() {
		n[r.Intn(len(n))] ^= 1 << uint(r.Intn(32))
	} else {
		n = append(n, genU32(r))
	}
	return &n
}

// variant changes exactly the named attribute of path pi (a well-formed BGP path) of a copy of base
func variant(base *routeT, pi int, what string, r *hx.RNG) *routeT {
	v := cloneRoute(base)
	p := &v.paths[pi]
	b, a := p.bgp, p.bgp.a
	flip := func(x uint32) uint32 {
		switch r.Intn(3) {
		case 0:
			return x + 1
		case 1:
			return x ^ (1 << uint(r.Intn(32)))
		}
		if y := genU32(r); y != x {
			return y
		}
		return x + 7
	}
	otherIP := func(i *ipT) *ipT {
		n := *i
		n.lo ^= 1 << uint(r.Intn(24))
		return &n
	}
	switch what {
	case "med":
		a.med = flip(a.med)
	case "localpref":
		a.lp = flip(a.lp)
	case "origin":
		a.org = uint8((int(a.org) + 1 + r.Intn(2)) % 3)
	case "nexthop":
		a.nh = otherIP(a.nh)
	case "source":
		a.src = otherIP(a.src)
	case "communities":
		b.co = bumpNums(b.co, r)
	case "large-communities":
		l := [][3]uint32{}
		if b.lc != nil {
			l = append(l, (*b.lc)...)
		}
		l = append(l, [3]uint32{genU32(r), genU32(r), genU32(r)})
		b.lc = &l
	case "cluster-list":
		b.cl = bumpNums(b.cl, r)
	case "unknown-attributes":
		b.ua = append(b.ua, uaT{o: true, t: r.Bool(), code: uint8(100 + r.Intn(100)), val: []byte{byte(r.Intn(256))}})
	case "as-path":
		l := []segT{}
		if b.asp != nil {
			l = append(l, (*b.asp)...)
		}
		l = append(l, segT{typ: uint8(1 + r.Intn(2)), asns: []uint32{genU32(r)}})
		b.asp = &l
	case "bgp-identifier":
		a.id = flip(a.id)
	case "originator-id":
		a.oid = flip(a.oid)
	case "ebgp":
		a.ebgp = !a.ebgp
	case "otc":
		a.otc = flip(a.otc)
	case "path-identifier":
		b.pid = flip(b.pid)
	case "post-policy":
		b.pp = !b.pp
	case "hidden":
		p.hid = uint8((int(p.hid) + 1 + r.Intn(5)) % 7)
	case "prefix":
		v.pfx = otherIP(v.pfx)
	case "same":
	}
	return v
}

// genSequence: a well-formed base route with a BGP path, then one variant per attribute (in a random
// order, sometimes with the base converted again in between); dedup mostly on (the mergedlocrib mode)
func genSequence(r *hx.RNG, t *hx.Trace) []*routeT {
	var base *routeT
	pi := -1
	for pi < 0 {
		base = genRoute(r, nil)
		if !base.wellFormed() {
			continue
		}
		for i := range base.paths {
			if base.paths[i].typ == route.BGPPathType {
				pi = i
			}
		}
	}
	mode := r.Intn(10) // 0-6: dedup always on, 7: always off, 8-9: per conversion
	dd := func() bool {
		switch {
		case mode <= 6:
			return true
		case mode == 7:
			return false
		}
		return r.Chance(70)
	}
	base.dedup = dd()
	seq := []*routeT{base}
	order := make([]int, len(variantNames))
	for i := range order {
		order[i] = i
	}
	for i := len(order) - 1; i > 0; i-- {
		j := r.Intn(i + 1)
		order[i], order[j] = order[j], order[i]
	}
	for _, k := range order {
		v := variant(base, pi, variantNames[k], r)
		v.dedup = dd()
		seq = append(seq, v)
		t.Count("variant_" + variantNames[k])
		if r.Chance(10) {
			again := cloneRoute(base)
			again.dedup = dd()
			seq = append(seq, again)
		}
	}
	t.Count(fmt.Sprintf("sequence_mode_%d", map[bool]int{true: 1, false: 0}[mode <= 6]+map[bool]int{true: 2, false: 0}[mode >= 8]))
	return seq
}

func fmtSeq(seq []*routeT) string {
	var s []string
	for _, r := range seq {
		s = append(s, r.String())
	}
	return strings.Join(s, " && ")
}

func parseSeq(in string) ([]*routeT, error) {
	var seq []*routeT
	for _, part := range strings.Split(in, " && ") {
		r, err := parseRoute(part)
		if err != nil {
			return nil, err
		}
		seq = append(seq, r)
	}
	return seq, nil
}

func main() {
	cfg := hx.Parse()
	tr := hx.NewTrace(cfg.Out)
	nviol := 0
	// one conversion: observation, violations, non-triviality
	step := func(in *routeT) (obs string, vs []viol, nt bool) {
		wf := in.wellFormed()
		if wf {
			for i := range in.paths {
				if b := in.paths[i].bgp; in.paths[i].typ == route.BGPPathType && b != nil &&
					((b.cl != nil && len(*b.cl) > 0) || (b.co != nil && len(*b.co) > 0) || len(b.ua) > 0 || in.paths[i].hid != 0) {
					nt = true
				}
			}
			tr.Count("wellformed")
		}
		if in.dedup {
			tr.Count("conversions_dedup")
		} else {
			tr.Count("conversions_nodedup")
		}
		var api *routeapi.Route
		var back *routeT
		if panicked, val := hx.Guard(func() { api = build(in).ToProto() }); panicked {
			obs = "PANIC-TO"
			if wf {
				vs = append(vs, viol{"panic-to-proto", fmt.Sprint(val)})
			}
		} else if panicked, val := hx.Guard(func() { back = readBack(route.RouteFromProtoRoute(api, in.dedup)) }); panicked {
			obs = "PANIC-FROM"
			if wf {
				vs = append(vs, viol{"panic-from-proto", fmt.Sprint(val)})
			}
		} else {
			obs = "API " + dumpAPI(api) + " BACK " + dumpBack(back)
			if wf {
				vs = judge(in, api, back)
			}
		}
		return
	}
	// a case: conversions made one after the other in this process
	do := func(id string, seq []*routeT) {
		var obs []string
		nt := false
		seen := map[string]bool{}
		var out []viol
		for k, in := range seq {
			o, vs, n := step(in)
			obs = append(obs, o)
			nt = nt || n
			for _, v := range vs {
				if !seen[v.sig] {
					seen[v.sig] = true
					out = append(out, viol{v.sig, fmt.Sprintf("conversion %d of %d (dedup=%v): %s", k+1, len(seq), in.dedup, v.detail)})
				}
			}
		}
		tr.Case(id, nt, fmtSeq(seq), strings.Join(obs, " && "))
		for _, v := range out {
			hx.Violation(id, v.sig, v.detail)
			nviol++
		}
	}
	if cfg.Mode == "replay" {
		for _, cl := range hx.InputsFrom(cfg.Replay) {
			seq, err := parseSeq(cl[1])
			if err != nil {
				fmt.Println("HARNESS-ERROR bad replay input:", err)
				os.Exit(2)
			}
			do(cl[0], seq)
		}
	} else {
		for _, cl := range hx.InputsFrom(hx.CorpusFiles(cfg.Corpus)...) {
			if seq, err := parseSeq(cl[1]); err == nil {
				do("corpus-"+cl[0], seq)
				tr.Count("corpus")
			} else {
				fmt.Println("HARNESS-ERROR bad corpus line:", cl[0], err)
			}
		}
		rng := hx.NewRNG(cfg.Seed)
		for i := 0; i < cfg.N; i++ {
			r := rng.Fork(uint64(i))
			var seq []*routeT
			if i%5 == 0 {
				seq = genSequence(r, tr)
				tr.Count("case_sequence")
			} else {
				seq = []*routeT{genRoute(r, tr)}
				tr.Count("case_single")
			}
			// the generator and the parser must agree (the replay depends on it)
			if back, err := parseSeq(fmtSeq(seq)); err != nil || fmtSeq(back) != fmtSeq(seq) {
				fmt.Printf("HARNESS-ERROR case=g%d generated case does not re-parse: %v\n", i, err)
			}
			do(fmt.Sprintf("g%d", i), seq)
		}
	}
	tr.Close(cfg.Stats, map[string]interface{}{"spec_violations": nviol})
}
