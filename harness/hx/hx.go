// Package hx: shared plumbing of the correspondence harnesses (flags, PRNG, trace writer).
package hx

import (
	"bufio"
	"encoding/json"
	"flag"
	"fmt"
	"os"
	"path/filepath"
	"sort"
	"strings"
)

// RNG is splitmix64: every random choice of a run derives from one seed.
type RNG struct{ s uint64 }

func NewRNG(seed uint64) *RNG { return &RNG{s: seed*0x9E3779B97F4A7C15 + 0x1234567} }
func (r *RNG) U64() uint64 {
	r.s += 0x9E3779B97F4A7C15
	z := r.s
	z = (z ^ (z >> 30)) * 0xBF58476D1CE4E5B9
	z = (z ^ (z >> 27)) * 0x94D049BB133111EB
	return z ^ (z >> 31)
}
func (r *RNG) Intn(n int) int {
	if n <= 0 {
		return 0
	}
	return int(r.U64() % uint64(n))
}
func (r *RNG) Bool() bool          { return r.U64()&1 == 1 }
func (r *RNG) Chance(p int) bool   { return r.Intn(100) < p } // p percent
func (r *RNG) Pick(xs []int) int   { return xs[r.Intn(len(xs))] }
func (r *RNG) Fork(k uint64) *RNG  { return NewRNG(r.s ^ (k+1)*0xD6E8FEB86659FD93) }

// Cfg are the flags every harness accepts (lib/vlib.py passes them).
type Cfg struct {
	Seed   uint64
	Tier   string
	Mode   string // check | search | replay
	N      int
	Out    string
	Stats  string
	Corpus string
	Replay string
}

func Parse() *Cfg {
	c := &Cfg{}
	flag.Uint64Var(&c.Seed, "seed", 1, "PRNG seed")
	flag.StringVar(&c.Tier, "tier", "quick", "quick|thorough")
	flag.StringVar(&c.Mode, "mode", "check", "check|search|replay")
	flag.IntVar(&c.N, "n", 100, "number of generated cases")
	flag.StringVar(&c.Out, "out", "trace.txt", "trace file")
	flag.StringVar(&c.Stats, "stats", "", "stats json file")
	flag.StringVar(&c.Corpus, "corpus", "", "corpus directory (cases run first)")
	flag.StringVar(&c.Replay, "replay", "", "file with trace lines whose inputs are re-run")
	flag.Parse()
	return c
}

// Trace writes "<id> <nt> <input> => <obs>" lines.
type Trace struct {
	f    *os.File
	w    *bufio.Writer
	N    int
	Dist map[string]int
}

func NewTrace(path string) *Trace {
	f, err := os.Create(path)
	if err != nil {
		fmt.Println("HARNESS-ERROR cannot create trace:", err)
		os.Exit(2)
	}
	return &Trace{f: f, w: bufio.NewWriterSize(f, 1<<20), Dist: map[string]int{}}
}

func (t *Trace) Case(id string, nontrivial bool, input, obs string) {
	nt := "0"
	if nontrivial {
		nt = "1"
	}
	fmt.Fprintf(t.w, "%s %s %s => %s\n", id, nt, input, obs)
	t.N++
}
func (t *Trace) Count(key string) { t.Dist[key]++ }
func (t *Trace) Close(statsPath string, extra map[string]interface{}) {
	t.w.Flush()
	t.f.Close()
	if statsPath == "" {
		return
	}
	m := map[string]interface{}{"cases": t.N, "distribution": t.Dist}
	for k, v := range extra {
		m[k] = v
	}
	b, _ := json.MarshalIndent(m, "", " ")
	os.WriteFile(statsPath, b, 0o644)
}

// InputsFrom returns the input parts of the trace/corpus lines in the given files
// (a corpus line may be a full trace line or just "<id> <nt> <input>").
func InputsFrom(paths ...string) [][2]string {
	var out [][2]string
	for _, p := range paths {
		b, err := os.ReadFile(p)
		if err != nil {
			continue
		}
		for _, line := range strings.Split(string(b), "\n") {
			line = strings.TrimSpace(line)
			if line == "" || strings.HasPrefix(line, "#") {
				continue
			}
			parts := strings.SplitN(line, " ", 3)
			if len(parts) < 3 {
				continue
			}
			in := strings.SplitN(parts[2], " => ", 2)[0]
			out = append(out, [2]string{parts[0], in})
		}
	}
	return out
}

// CorpusFiles lists *.txt under dir, sorted.
func CorpusFiles(dir string) []string {
	if dir == "" {
		return nil
	}
	m, _ := filepath.Glob(filepath.Join(dir, "*.txt"))
	sort.Strings(m)
	return m
}

// Guard runs f and reports a panic as ("panic", value) instead of crashing.
func Guard(f func()) (panicked bool, val interface{}) {
	defer func() {
		if r := recover(); r != nil {
			panicked, val = true, r
		}
	}()
	f()
	return false, nil
}

// Violation prints a spec-oracle verdict line understood by lib/vlib.py.
func Violation(caseID, sig, detail string) {
	fmt.Printf("SPEC-VIOLATION case=%s sig=%s %s\n", caseID, sig, detail)
}
