// Package usx: shared parts of the C10 / C18 harnesses: session kinds, path shapes, prefix identities,
// a capture writer and a small reference decoder for the UPDATE messages the update sender writes
// (written from RFC 4271 / 4760 / 7911, independent of packet.Decode).
package usx

import (
	"encoding/binary"
	"fmt"
	"io"
	"strconv"
	"strings"

	bnet "github.com/bio-routing/bio-rd/net"
	"github.com/bio-routing/bio-rd/protocols/bgp/server"
	"github.com/bio-routing/bio-rd/protocols/bgp/types"
	"github.com/bio-routing/bio-rd/route"
	biolog "github.com/bio-routing/bio-rd/util/log"
	"github.com/sirupsen/logrus"
)

// Quiet sends bio-rd's log output to nowhere
func Quiet() {
	l := logrus.New()
	l.SetOutput(io.Discard)
	biolog.SetLogger(biolog.NewLogrusWrapper(l))
}

// ---------------------------------------------------------------- session kinds

// Cfg is the session kind; token form f/ap/a4/ib/rr e.g. "v6/1/1/0/0"
type Cfg struct {
	Fam                     string // v4 | v4mp | v6
	AddPath, ASN4, IBGP, RR bool
}

func b2i(b bool) int {
	if b {
		return 1
	}
	return 0
}

func (c Cfg) String() string {
	return fmt.Sprintf("%s/%d/%d/%d/%d", c.Fam, b2i(c.AddPath), b2i(c.ASN4), b2i(c.IBGP), b2i(c.RR))
}

func ParseCfg(s string) (Cfg, error) {
	p := strings.Split(s, "/")
	if len(p) != 5 || (p[0] != "v4" && p[0] != "v4mp" && p[0] != "v6") {
		return Cfg{}, fmt.Errorf("bad cfg %q", s)
	}
	return Cfg{Fam: p[0], AddPath: p[1] == "1", ASN4: p[2] == "1", IBGP: p[3] == "1", RR: p[4] == "1"}, nil
}

func (c Cfg) V6() bool { return c.Fam == "v6" }

func (c Cfg) Options() server.VerifUSOptions {
	return server.VerifUSOptions{
		IPv6:          c.Fam == "v6",
		MultiProtocol: c.Fam != "v4",
		AddPathTX:     c.AddPath,
		IBGP:          c.IBGP,
		RRClient:      c.RR,
		ASN4:          c.ASN4,
	}
}

// ---------------------------------------------------------------- path shapes

// Shape determines every size of a path's encoding; token form
// s=<n1.n2|->,m=0|1,t=0|1,g=0|1,o=0|1,c=0|1,cl=N,co=N,lc=N,u=<l1.l2|->
type Shape struct {
	Segs                         []int
	Med, Atomic, Aggr, Orig, Otc bool
	Clist, Comms, Lcomms         int
	Unk                          []int
}

func ints(xs []int) string {
	if len(xs) == 0 {
		return "-"
	}
	s := make([]string, len(xs))
	for i, x := range xs {
		s[i] = strconv.Itoa(x)
	}
	return strings.Join(s, ".")
}

func parseInts(s string) ([]int, error) {
	if s == "-" || s == "" {
		return nil, nil
	}
	var out []int
	for _, t := range strings.Split(s, ".") {
		v, err := strconv.Atoi(t)
		if err != nil || v < 0 {
			return nil, fmt.Errorf("bad int list %q", s)
		}
		out = append(out, v)
	}
	return out, nil
}

func (sh Shape) String() string {
	return fmt.Sprintf("s=%s,m=%d,t=%d,g=%d,o=%d,c=%d,cl=%d,co=%d,lc=%d,u=%s", ints(sh.Segs), b2i(sh.Med), b2i(sh.Atomic),
		b2i(sh.Aggr), b2i(sh.Orig), b2i(sh.Otc), sh.Clist, sh.Comms, sh.Lcomms, ints(sh.Unk))
}

func ParseShape(s string) (Shape, error) {
	var sh Shape
	for _, kv := range strings.Split(s, ",") {
		p := strings.SplitN(kv, "=", 2)
		if len(p) != 2 {
			return sh, fmt.Errorf("bad shape %q", s)
		}
		var err error
		switch p[0] {
		case "s":
			sh.Segs, err = parseInts(p[1])
		case "u":
			sh.Unk, err = parseInts(p[1])
		case "m":
			sh.Med = p[1] == "1"
		case "t":
			sh.Atomic = p[1] == "1"
		case "g":
			sh.Aggr = p[1] == "1"
		case "o":
			sh.Orig = p[1] == "1"
		case "c":
			sh.Otc = p[1] == "1"
		case "cl":
			sh.Clist, err = strconv.Atoi(p[1])
		case "co":
			sh.Comms, err = strconv.Atoi(p[1])
		case "lc":
			sh.Lcomms, err = strconv.Atoi(p[1])
		default:
			err = fmt.Errorf("bad shape key %q", p[0])
		}
		if err != nil {
			return sh, err
		}
	}
	return sh, nil
}

// BuildPath makes a BGP path of the given shape. tag (1..250) makes the attribute content unique:
// it is the last octet of the next hop, which is hashed, always encoded and easy to decode.
func BuildPath(c Cfg, sh Shape, tag int, pid uint32) *route.Path {
	ap := make(types.ASPath, 0, len(sh.Segs))
	for i, n := range sh.Segs {
		asns := make([]uint32, n)
		for j := range asns {
			if c.ASN4 {
				asns[j] = uint32(100000 + 1000*i + j)
			} else {
				asns[j] = uint32(1000 + 300*i + j)
			}
		}
		t := uint8(types.ASSequence)
		if i%2 == 1 {
			t = types.ASSet
		}
		ap = append(ap, types.ASPathSegment{Type: t, ASNs: asns})
	}
	nh := bnet.IPv4FromOctets(10, 255, 0, byte(tag)).Ptr()
	if c.V6() {
		nh = bnet.IPv6FromBlocks(0x2001, 0xdb8, 0, 0, 0, 0, 0, uint16(tag)).Ptr()
	}
	a := &route.BGPPathA{
		NextHop:         nh,
		Source:          bnet.IPv4FromOctets(192, 0, 2, 1).Ptr(),
		LocalPref:       200,
		Origin:          1,
		EBGP:            true,
		AtomicAggregate: sh.Atomic,
	}
	if sh.Med {
		a.MED = 77
	}
	if sh.Aggr {
		a.Aggregator = &types.Aggregator{ASN: 64999, Address: 0x0a0b0c0d}
	}
	if sh.Orig {
		a.OriginatorID = 0x01020304
	}
	if sh.Otc {
		a.OnlyToCustomer = 65010
	}
	bp := &route.BGPPath{BGPPathA: a, ASPath: &ap, PathIdentifier: pid}
	bp.ASPathLen = bp.ASPath.Length()
	if sh.Comms > 0 {
		cs := make(types.Communities, sh.Comms)
		for i := range cs {
			cs[i] = uint32(65000<<16 + i + 1)
		}
		bp.Communities = &cs
	}
	if sh.Lcomms > 0 {
		ls := make(types.LargeCommunities, sh.Lcomms)
		for i := range ls {
			ls[i] = types.LargeCommunity{GlobalAdministrator: 200000, DataPart1: uint32(i), DataPart2: 9}
		}
		bp.LargeCommunities = &ls
	}
	// the encoder dereferences the cluster list of every path sent to a route reflector client
	if sh.Clist > 0 || c.RR {
		cl := make(types.ClusterList, sh.Clist)
		for i := range cl {
			cl[i] = uint32(0x0a000000 + i)
		}
		bp.ClusterList = &cl
	}
	for i, n := range sh.Unk {
		v := make([]byte, n)
		for j := range v {
			v[j] = byte(i + j)
		}
		bp.UnknownAttributes = append(bp.UnknownAttributes, types.UnknownPathAttribute{
			Optional: true, Transitive: true, TypeCode: uint8(200 + i), Value: v})
	}
	return &route.Path{Type: route.BGPPathType, BGPPath: bp}
}

// ExpectedAttrs gives type code -> value bytes of the attributes an UPDATE for the path must carry
// (next hop and MP_REACH_NLRI excluded), computed by hand from the path.
func ExpectedAttrs(c Cfg, p *route.Path) map[uint8][]byte {
	out := map[uint8][]byte{}
	be32 := func(b []byte, v uint32) []byte { return append(b, byte(v>>24), byte(v>>16), byte(v>>8), byte(v)) }
	bp := p.BGPPath
	var ap []byte
	for _, seg := range *bp.ASPath {
		ap = append(ap, seg.Type, byte(len(seg.ASNs)))
		for _, a := range seg.ASNs {
			if c.ASN4 {
				ap = be32(ap, a)
			} else {
				ap = append(ap, byte(a>>8), byte(a))
			}
		}
	}
	out[2] = ap
	out[1] = []byte{bp.BGPPathA.Origin}
	if bp.BGPPathA.MED != 0 {
		out[4] = be32(nil, bp.BGPPathA.MED)
	}
	if c.IBGP {
		out[5] = be32(nil, bp.BGPPathA.LocalPref)
	}
	if bp.BGPPathA.AtomicAggregate {
		out[6] = []byte{}
	}
	if bp.BGPPathA.Aggregator != nil {
		g := bp.BGPPathA.Aggregator
		out[7] = be32([]byte{byte(g.ASN >> 8), byte(g.ASN)}, g.Address)
	}
	if bp.Communities != nil && len(*bp.Communities) > 0 {
		var b []byte
		for _, x := range *bp.Communities {
			b = be32(b, x)
		}
		out[8] = b
	}
	if c.RR {
		out[9] = be32(nil, bp.BGPPathA.OriginatorID)
		if bp.ClusterList != nil && len(*bp.ClusterList) > 0 {
			var b []byte
			for _, x := range *bp.ClusterList {
				b = be32(b, x)
			}
			out[10] = b
		}
	}
	if bp.LargeCommunities != nil && len(*bp.LargeCommunities) > 0 {
		var b []byte
		for _, x := range *bp.LargeCommunities {
			b = be32(be32(be32(b, x.GlobalAdministrator), x.DataPart1), x.DataPart2)
		}
		out[32] = b
	}
	for _, u := range bp.UnknownAttributes {
		out[u.TypeCode] = u.Value
	}
	return out
}

// ---------------------------------------------------------------- prefixes

// Pfx is a prefix identity: family, length and the index of the prefix among those of its length
type Pfx struct {
	V6  bool
	Len uint8
	Idx uint64
}

// MaxIdx is the number of distinct prefixes of that length the harness can make
func MaxIdx(v6 bool, l uint8) uint64 {
	if l >= 40 {
		return 1 << 40
	}
	return 1 << l
}

func (x Pfx) Net() *bnet.Prefix {
	if !x.V6 {
		var a uint32
		if x.Len > 0 {
			a = uint32(x.Idx << (32 - uint(x.Len)))
		}
		return bnet.NewPfx(bnet.IPv4(a), x.Len).Ptr()
	}
	// the index occupies the low end of the prefix bits: idx << (128 - len) as a 128 bit value
	var hi, lo uint64
	sh := 128 - uint(x.Len)
	if sh >= 64 {
		hi = x.Idx << (sh - 64)
	} else {
		lo = x.Idx << sh
		hi = x.Idx >> (64 - sh)
	}
	return bnet.NewPfx(bnet.IPv6(hi, lo), x.Len).Ptr()
}

// pfxFromWire rebuilds the identity from NLRI bytes
func pfxFromWire(v6 bool, l uint8, b []byte) Pfx {
	full := make([]byte, 16)
	copy(full, b)
	if !v6 {
		a := binary.BigEndian.Uint32(full[:4])
		var idx uint64
		if l > 0 {
			idx = uint64(a >> (32 - uint(l)))
		}
		return Pfx{Len: l, Idx: idx}
	}
	hi := binary.BigEndian.Uint64(full[:8])
	lo := binary.BigEndian.Uint64(full[8:])
	var idx uint64
	sh := 128 - uint(l)
	if sh >= 64 {
		idx = hi >> (sh - 64)
	} else {
		idx = lo>>sh | hi<<(64-sh)
	}
	return Pfx{V6: true, Len: l, Idx: idx}
}

func (x Pfx) String() string { return fmt.Sprintf("%d_%d", x.Len, x.Idx) }

func ParsePfx(v6 bool, s string) (Pfx, error) {
	p := strings.SplitN(s, "_", 2)
	if len(p) != 2 {
		return Pfx{}, fmt.Errorf("bad prefix %q", s)
	}
	l, err := strconv.Atoi(p[0])
	if err != nil {
		return Pfx{}, err
	}
	i, err := strconv.ParseUint(p[1], 10, 64)
	if err != nil {
		return Pfx{}, err
	}
	return Pfx{V6: v6, Len: uint8(l), Idx: i}, nil
}

// ---------------------------------------------------------------- capture + reference decoder

// Capture records every Write as one chunk
type Capture struct{ Chunks [][]byte }

func (c *Capture) Write(b []byte) (int, error) {
	c.Chunks = append(c.Chunks, append([]byte{}, b...))
	return len(b), nil
}

// Take returns and forgets what was written since the last Take
func (c *Capture) Take() [][]byte {
	r := c.Chunks
	c.Chunks = nil
	return r
}

type NLRI struct {
	PID uint32
	P   Pfx
}

// Update is a decoded UPDATE message
type Update struct {
	Len       int
	Withdrawn []NLRI           // withdrawn routes + MP_UNREACH_NLRI
	Announced []NLRI           // NLRI + MP_REACH_NLRI
	Attrs     map[uint8][]byte // without next hop / MP attributes
	AttrOrder []uint8
	NextHop   []byte
	EoR       bool
}

func decodeNLRIs(b []byte, v6, addPath bool) ([]NLRI, error) {
	var out []NLRI
	maxLen := 32
	if v6 {
		maxLen = 128
	}
	for len(b) > 0 {
		var n NLRI
		if addPath {
			if len(b) < 4 {
				return nil, fmt.Errorf("truncated path identifier")
			}
			n.PID = binary.BigEndian.Uint32(b)
			b = b[4:]
		}
		if len(b) < 1 {
			return nil, fmt.Errorf("truncated NLRI")
		}
		l := int(b[0])
		if l > maxLen {
			return nil, fmt.Errorf("prefix length %d", l)
		}
		nb := (l + 7) / 8
		if len(b) < 1+nb {
			return nil, fmt.Errorf("truncated prefix")
		}
		n.P = pfxFromWire(v6, uint8(l), b[1:1+nb])
		out = append(out, n)
		b = b[1+nb:]
	}
	return out, nil
}

// DecodeUpdate decodes one chunk that must be exactly one UPDATE message
func DecodeUpdate(b []byte, c Cfg) (*Update, error) {
	if len(b) < 23 {
		return nil, fmt.Errorf("short message (%d bytes)", len(b))
	}
	for i := 0; i < 16; i++ {
		if b[i] != 0xff {
			return nil, fmt.Errorf("bad marker")
		}
	}
	if int(binary.BigEndian.Uint16(b[16:18])) != len(b) {
		return nil, fmt.Errorf("header length %d, chunk %d", binary.BigEndian.Uint16(b[16:18]), len(b))
	}
	if b[18] != 2 {
		return nil, fmt.Errorf("message type %d", b[18])
	}
	u := &Update{Len: len(b), Attrs: map[uint8][]byte{}}
	body := b[19:]
	wl := int(binary.BigEndian.Uint16(body))
	if len(body) < 2+wl+2 {
		return nil, fmt.Errorf("withdrawn routes length %d", wl)
	}
	var err error
	u.Withdrawn, err = decodeNLRIs(body[2:2+wl], false, c.AddPath)
	if err != nil {
		return nil, err
	}
	al := int(binary.BigEndian.Uint16(body[2+wl:]))
	rest := body[2+wl+2:]
	if len(rest) < al {
		return nil, fmt.Errorf("total path attribute length %d", al)
	}
	attrs, nlri := rest[:al], rest[al:]
	for len(attrs) > 0 {
		if len(attrs) < 3 {
			return nil, fmt.Errorf("truncated attribute header")
		}
		flags, tc := attrs[0], attrs[1]
		var l, h int
		if flags&0x10 != 0 {
			if len(attrs) < 4 {
				return nil, fmt.Errorf("truncated attribute header")
			}
			l, h = int(binary.BigEndian.Uint16(attrs[2:])), 4
		} else {
			l, h = int(attrs[2]), 3
		}
		if len(attrs) < h+l {
			return nil, fmt.Errorf("attribute %d length %d", tc, l)
		}
		v := attrs[h : h+l]
		attrs = attrs[h+l:]
		switch tc {
		case 3:
			u.NextHop = v
		case 14:
			if len(v) < 5 {
				return nil, fmt.Errorf("short MP_REACH_NLRI")
			}
			afi, nhl := binary.BigEndian.Uint16(v), int(v[3])
			if len(v) < 4+nhl+1 {
				return nil, fmt.Errorf("short MP_REACH_NLRI")
			}
			if v[2] != 1 || (afi == 2) != c.V6() {
				return nil, fmt.Errorf("MP_REACH_NLRI afi/safi %d/%d", afi, v[2])
			}
			u.NextHop = v[4 : 4+nhl]
			ns, err := decodeNLRIs(v[4+nhl+1:], afi == 2, c.AddPath)
			if err != nil {
				return nil, err
			}
			u.Announced = append(u.Announced, ns...)
		case 15:
			if len(v) < 3 {
				return nil, fmt.Errorf("short MP_UNREACH_NLRI")
			}
			afi := binary.BigEndian.Uint16(v)
			if v[2] != 1 || (afi == 2) != c.V6() {
				return nil, fmt.Errorf("MP_UNREACH_NLRI afi/safi %d/%d", afi, v[2])
			}
			ns, err := decodeNLRIs(v[3:], afi == 2, c.AddPath)
			if err != nil {
				return nil, err
			}
			u.Withdrawn = append(u.Withdrawn, ns...)
		default:
			if _, dup := u.Attrs[tc]; dup {
				return nil, fmt.Errorf("attribute %d twice", tc)
			}
			u.Attrs[tc] = v
			u.AttrOrder = append(u.AttrOrder, tc)
		}
	}
	ns, err := decodeNLRIs(nlri, false, c.AddPath)
	if err != nil {
		return nil, err
	}
	u.Announced = append(u.Announced, ns...)
	u.EoR = len(b) == 23
	return u, nil
}

// TagOf reads the path tag back from the next hop
func (u *Update) TagOf() int {
	if len(u.NextHop) == 0 {
		return -1
	}
	return int(u.NextHop[len(u.NextHop)-1])
}

// AttrsEqual compares decoded attributes with the expectation; returns "" or a description
func AttrsEqual(got, want map[uint8][]byte) string {
	for tc, w := range want {
		g, ok := got[tc]
		if !ok {
			return fmt.Sprintf("attribute %d missing", tc)
		}
		if string(g) != string(w) {
			return fmt.Sprintf("attribute %d differs", tc)
		}
	}
	for tc := range got {
		if _, ok := want[tc]; !ok {
			return fmt.Sprintf("unexpected attribute %d", tc)
		}
	}
	return ""
}
