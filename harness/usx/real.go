package usx

import (
	"encoding/binary"
	"fmt"
	"sync"
	"time"

	"github.com/bio-routing/bio-rd/protocols/bgp/server"
)

// Gate stands in for the peer connection when the REAL sender goroutine runs: every Write of an
// announcement blocks (a peer with a full TCP window) until the harness releases it, so the harness
// acts at exactly known points of the goroutine's loop. Withdraws and End-of-RIB markers pass
// (RemovePath writes them from the harness' own goroutine).
type Gate struct {
	mu      sync.Mutex
	chunks  [][]byte
	Entered chan []byte
	release chan struct{}
	done    chan struct{}
}

func NewGate() *Gate {
	return &Gate{Entered: make(chan []byte), release: make(chan struct{}), done: make(chan struct{})}
}

// isAnnouncement: an UPDATE without withdrawn routes that has path attributes other than a lone MP_UNREACH_NLRI
func isAnnouncement(b []byte) bool {
	if len(b) < 23 || b[18] != 2 {
		return false
	}
	wl := int(binary.BigEndian.Uint16(b[19:21]))
	if wl != 0 || len(b) < 23+wl {
		return false
	}
	al := int(binary.BigEndian.Uint16(b[21:23]))
	if al == 0 || len(b) < 23+al {
		return false
	}
	return b[24] != 15 // the first attribute of a multiprotocol withdraw is MP_UNREACH_NLRI
}

func (g *Gate) Write(b []byte) (int, error) {
	c := append([]byte{}, b...)
	held := isAnnouncement(b)
	if held {
		g.Entered <- c
		<-g.release
	}
	g.mu.Lock()
	g.chunks = append(g.chunks, c)
	g.mu.Unlock()
	if held {
		g.done <- struct{}{}
	}
	return len(b), nil
}

// Release lets the blocked Write complete and waits until its bytes are recorded
func (g *Gate) Release() {
	g.release <- struct{}{}
	<-g.done
}

func (g *Gate) Take() [][]byte {
	g.mu.Lock()
	defer g.mu.Unlock()
	r := g.chunks
	g.chunks = nil
	return r
}

// Real drives the real sender goroutine in rounds: Start (UpdateSender.Start), then Next() yields each
// announcement the goroutine is blocked in; after the first one a Stop (UpdateSender.Destroy + wait) is
// requested, which the goroutine honours when it is back at its select, i.e. after it has finished its
// iteration over toSend. Between Next() and Release() the goroutine is blocked in con.Write, before
// Start / after the round it does not run: the harness only acts at these points, so the order of all
// steps is known without any sleep.
type Real struct {
	US       *server.VerifUS
	G        *Gate
	Tick     time.Duration
	Watchdog time.Duration
	running  bool
	stopping bool
	stopped  chan struct{}
	Rounds   int
}

func NewReal(us *server.VerifUS, g *Gate) *Real {
	return &Real{US: us, G: g, Tick: 300 * time.Microsecond, Watchdog: 60 * time.Second}
}

func (r *Real) Start() {
	r.stopped = make(chan struct{})
	r.running, r.stopping = true, false
	r.Rounds++
	r.US.Start(r.Tick)
}

// Next returns the announcement the sender goroutine is now blocked in, or nil when the round is over
// (the goroutine has returned). An error means the goroutine did neither within the watchdog time.
func (r *Real) Next() ([]byte, error) {
	if !r.running {
		return nil, nil
	}
	t := time.NewTimer(r.Watchdog)
	defer t.Stop()
	select {
	case m := <-r.G.Entered:
		if !r.stopping {
			r.stopping = true
			st := r.stopped
			go func() {
				r.US.Stop()
				close(st)
			}()
		}
		return m, nil
	case <-r.stopped:
		r.running = false
		return nil, nil
	case <-t.C:
		return nil, fmt.Errorf("the sender goroutine neither wrote nor returned within %v", r.Watchdog)
	}
}

// Abandon is for the error path: let whatever the goroutine still writes pass so that it can terminate
func (r *Real) Abandon() {
	if !r.running {
		return
	}
	st := r.stopped
	if !r.stopping {
		go func() {
			r.US.Stop()
			close(st)
		}()
	}
	go func() {
		for {
			select {
			case <-r.G.Entered:
				r.G.release <- struct{}{}
				<-r.G.done
			case <-st:
				return
			}
		}
	}()
}
