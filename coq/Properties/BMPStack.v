(* BMPStack - the BMP receiver with its BGP layer instantiated by the verified component models
   (registered under C27; the mirror statement is C28's). Only statements here; proofs live in
   Proofs/BMPStackProofs.v.  Model/BMPStack.v: BMPRouter's `open_decode` := BGPCodec.decodeOpen + capability
   conversion, `upd_apply` := BGPCodec.decode, conversion to UpdateApply's input and the per-NLRI reading
   message_ops (C20_per_nlri: exactly what UpdateApply.process_update does), for IPv4 then IPv6 unicast. *)
From Coq Require Import List NArith.
Import ListNotations.
From BioVerif Require Model.BGPCodec Model.UpdateApply.
From BioVerif Require Import Model.BMPCodec Model.BMPRouter Model.BMPStack Spec.BMPMirrorSpec
  Proofs.BMPCodecProofs Proofs.BMPTableLemmas Proofs.BMPMirrorProofs Proofs.BMPStackProofs.
Open Scope N_scope.

(* For ALL byte streams, router states and configurations nothing in the stack panics or loops: not the BMP
   framing, decoders and handlers (C27_no_panic / C27_fuel with the BGP layer instantiated), not the BGP
   decoder on any carried message under any decode options of a pseudo session nor on any OPEN body
   (C16_no_panic / C16_fuel_suffices), not the update application on any UPDATE the decoder can hand over,
   for either address family and any Adj-RIB-In state (C20_no_panic; the converted message is well typed). *)
Theorem BMPStack_no_panic : forall (c : cfg) (st : rstate) (s : bytes), bytes_ok s ->
  (forall k f, stack_serve c st s <> SPanic k f) /\ stack_serve c st s <> SFuel /\
  (forall ap4 ap6 a32 b,
     match fst (BGPCodec.decode (S (length b)) (stack_options ap4 ap6 a32) b) with
     | BGPCodec.Panic _ => False | BGPCodec.OutOfFuel => False | _ => True end) /\
  (forall body,
     match fst (BGPCodec.decodeOpen (S (length body)) body 0) with
     | BGPCodec.Panic _ => False | BGPCodec.OutOfFuel => False | _ => True end) /\
  (forall afi safi u s', exists s'', UpdateApply.process_update afi safi (conv_update u) s' = UpdateApply.Done s'').
Proof. exact stack_no_panic. Qed.
Print Assumptions BMPStack_no_panic.

(* Allocation of the whole stack while serving a stream of L bytes - receive buffers, BMP decoders
   (C27_alloc_proportional: 975 * L + 5800) and every length-driven allocation of the BGP decoder on the carried
   messages that reach it (C16_alloc_bounded: 65535 + 3 * length each; OPEN decoding allocates nothing) - is at
   most 11901 * L + 5800. *)
Theorem BMPStack_alloc_proportional : forall (c : cfg) (st : rstate) (s : bytes), bytes_ok s ->
  stack_alloc c st s <= 11901 * len s + 5800.
Proof. exact stack_alloc_linear. Qed.
Print Assumptions BMPStack_alloc_proportional.

(* C28's mirror statement with "announced" / "withdrawn" DEFINED by decoding the route monitoring payload
   with the codec model and reading it NLRI by NLRI: for every byte-level history that is well formed (wf,
   evaluated with the instantiated layer) under a configuration without IgnorePeerASNs. Guards and known
   findings are inherited unchanged: C28's (ignored peers, paths the pseudo session hides) through wf, C19's
   (an UPDATE whose attributes overrun TotalPathAttrLen is accepted) through the codec model itself, which
   accepts exactly what packet.Decode accepts. *)
Theorem BMPStack_mirror : forall (c : cfg), ignore_asns c = [] ->
  forall acts, wf stack_open_decode stack_upd_apply c acts = true ->
  mirror_holds stack_open_decode stack_upd_apply c acts.
Proof. exact stack_mirror. Qed.
Print Assumptions BMPStack_mirror.

(* ---- computed examples on real BMP byte strings (built by harness/bmpx conventions): monitored router
   10.0.0.1 (AS 65001), peer 10.0.0.2 (AS 65010, global VRF, add-path for IPv4 negotiated in the OPENs) *)
Definition sx_init : bytes :=
  [3; 0; 0; 0; 12; 4; 0; 2; 0; 2; 114; 49].
Definition sx_up : bytes :=
  [3; 0; 0; 0; 142; 3; 0; 32; 0; 0; 0; 0; 0; 0; 0; 0; 0; 0; 0; 0; 0; 0; 0; 0; 0; 0; 0; 0; 10; 0; 0; 2;
   0; 0; 253; 242; 10; 0; 0; 2; 0; 0; 3; 232; 0; 0; 0; 0; 0; 0; 0; 0; 0; 0; 0; 0; 0; 0; 0; 0; 10; 0; 0; 1;
   0; 179; 156; 64; 255; 255; 255; 255; 255; 255; 255; 255; 255; 255; 255; 255; 255; 255; 255; 255; 0; 37; 1; 4; 253; 233; 0; 180; 10; 0; 0; 1;
   8; 2; 6; 69; 4; 0; 1; 1; 3; 255; 255; 255; 255; 255; 255; 255; 255; 255; 255; 255; 255; 255; 255; 255; 255; 0; 37; 1; 4; 253; 242; 0;
   180; 10; 0; 0; 2; 8; 2; 6; 69; 4; 0; 1; 1; 3].
Definition sx_ann12 : bytes :=
  [3; 0; 0; 0; 109; 0; 0; 32; 0; 0; 0; 0; 0; 0; 0; 0; 0; 0; 0; 0; 0; 0; 0; 0; 0; 0; 0; 0; 10; 0; 0; 2;
   0; 0; 253; 242; 10; 0; 0; 2; 0; 0; 3; 232; 0; 0; 0; 0; 255; 255; 255; 255; 255; 255; 255; 255; 255; 255; 255; 255; 255; 255; 255; 255;
   0; 61; 2; 0; 0; 0; 22; 64; 1; 1; 0; 64; 2; 8; 2; 3; 253; 242; 253; 233; 254; 76; 64; 3; 4; 10; 0; 0; 2; 0; 0; 0;
   1; 24; 10; 1; 1; 0; 0; 0; 2; 24; 10; 1; 2].
Definition sx_ann_id2 : bytes :=
  [3; 0; 0; 0; 101; 0; 0; 32; 0; 0; 0; 0; 0; 0; 0; 0; 0; 0; 0; 0; 0; 0; 0; 0; 0; 0; 0; 0; 10; 0; 0; 2;
   0; 0; 253; 242; 10; 0; 0; 2; 0; 0; 3; 232; 0; 0; 0; 0; 255; 255; 255; 255; 255; 255; 255; 255; 255; 255; 255; 255; 255; 255; 255; 255;
   0; 53; 2; 0; 0; 0; 22; 64; 1; 1; 0; 64; 2; 8; 2; 3; 253; 242; 253; 233; 254; 76; 64; 3; 4; 10; 0; 0; 2; 0; 0; 0;
   2; 24; 10; 1; 1].
Definition sx_wd_id1 : bytes :=
  [3; 0; 0; 0; 79; 0; 0; 32; 0; 0; 0; 0; 0; 0; 0; 0; 0; 0; 0; 0; 0; 0; 0; 0; 0; 0; 0; 0; 10; 0; 0; 2;
   0; 0; 253; 242; 10; 0; 0; 2; 0; 0; 3; 232; 0; 0; 0; 0; 255; 255; 255; 255; 255; 255; 255; 255; 255; 255; 255; 255; 255; 255; 255; 255;
   0; 31; 2; 0; 8; 0; 0; 0; 1; 24; 10; 1; 1; 0; 0].
Definition sx_down : bytes :=
  [3; 0; 0; 0; 49; 2; 0; 32; 0; 0; 0; 0; 0; 0; 0; 0; 0; 0; 0; 0; 0; 0; 0; 0; 0; 0; 0; 0; 10; 0; 0; 2;
   0; 0; 253; 242; 10; 0; 0; 2; 0; 0; 3; 232; 0; 0; 0; 0; 4].
Definition sx_rm_open : bytes :=
  [3; 0; 0; 0; 77; 0; 0; 32; 0; 0; 0; 0; 0; 0; 0; 0; 0; 0; 0; 0; 0; 0; 0; 0; 0; 0; 0; 0; 10; 0; 0; 2;
   0; 0; 253; 242; 10; 0; 0; 2; 0; 0; 3; 232; 0; 0; 0; 0; 255; 255; 255; 255; 255; 255; 255; 255; 255; 255; 255; 255; 255; 255; 255; 255;
   0; 29; 1; 4; 253; 242; 0; 180; 10; 0; 0; 2; 0].
Definition sx_rm_cut : bytes :=
  [3; 0; 0; 0; 88; 0; 0; 32; 0; 0; 0; 0; 0; 0; 0; 0; 0; 0; 0; 0; 0; 0; 0; 0; 0; 0; 0; 0; 10; 0; 0; 2;
   0; 0; 253; 242; 10; 0; 0; 2; 0; 0; 3; 232; 0; 0; 0; 0; 255; 255; 255; 255; 255; 255; 255; 255; 255; 255; 255; 255; 255; 255; 255; 255;
   0; 61; 2; 0; 0; 0; 22; 64; 1; 1; 0; 64; 2; 8; 2; 3; 253; 242; 253; 233; 254; 76; 64; 3].
Definition sx_rm_badattr : bytes :=
  [3; 0; 0; 0; 101; 0; 0; 32; 0; 0; 0; 0; 0; 0; 0; 0; 0; 0; 0; 0; 0; 0; 0; 0; 0; 0; 0; 0; 10; 0; 0; 2;
   0; 0; 253; 242; 10; 0; 0; 2; 0; 0; 3; 232; 0; 0; 0; 0; 255; 255; 255; 255; 255; 255; 255; 255; 255; 255; 255; 255; 255; 255; 255; 255;
   0; 53; 2; 0; 0; 0; 22; 64; 2; 200; 0; 64; 2; 8; 2; 3; 253; 242; 253; 233; 254; 76; 64; 3; 4; 10; 0; 0; 2; 0; 0; 0;
   1; 24; 10; 1; 1].
Definition sx_up_badopen : bytes :=
  [3; 0; 0; 0; 142; 3; 0; 32; 0; 0; 0; 0; 0; 0; 0; 0; 0; 0; 0; 0; 0; 0; 0; 0; 0; 0; 0; 0; 10; 0; 0; 2;
   0; 0; 253; 242; 10; 0; 0; 2; 0; 0; 3; 232; 0; 0; 0; 0; 0; 0; 0; 0; 0; 0; 0; 0; 0; 0; 0; 0; 10; 0; 0; 1;
   0; 179; 156; 64; 255; 255; 255; 255; 255; 255; 255; 255; 255; 255; 255; 255; 255; 255; 255; 255; 0; 37; 1; 4; 253; 233; 0; 180; 10; 0; 0; 1;
   8; 2; 6; 69; 4; 0; 1; 1; 9; 255; 255; 255; 255; 255; 255; 255; 255; 255; 255; 255; 255; 255; 255; 255; 255; 0; 37; 1; 4; 253; 242; 0;
   180; 10; 0; 0; 2; 8; 2; 6; 69; 4; 0; 1; 1; 3].

Definition sx_cfg : cfg := mk_cfg [] false false.
Definition sx_peer : src := (false, 167772162).
Definition sx_hist : list action :=
  [AFrame sx_init; AFrame sx_up; AObserve 1 0 false; AFrame sx_ann12; AFrame sx_ann_id2; AFrame sx_wd_id1].

(* the OPENs and the UPDATEs are decoded by the codec model: add-path is on, one UPDATE announces two NLRI
   with their own identifiers (and an AS_PATH containing the router's own AS), a second path of 10.1.1.0/24
   is added, the first withdrawn *)
Example BMPStack_example_mirror :
  wf stack_open_decode stack_upd_apply sx_cfg sx_hist = true /\
  exists st, stack_run sx_cfg init sx_hist = Some st /\
    map (fun n => (n_ap4 n, n_ap6 n, n_localas n, n_rid n)) (r_nbrs st) = [(true, false, 65001, 167772161)] /\
    table st 0 false = [(sx_peer, (167837952, 24), 2); (sx_peer, (167838208, 24), 2)] /\
    live (trace stack_open_decode stack_upd_apply sx_cfg sx_hist) (0, 167772162) false ((167837952, 24), 2) = true /\
    live (trace stack_open_decode stack_upd_apply sx_cfg sx_hist) (0, 167772162) false ((167837952, 24), 1) = false.
Proof. split; [vm_compute; reflexivity|]. eexists. vm_compute. repeat split; reflexivity. Qed.

(* hostile content inside well-framed BMP messages: an OPEN where an UPDATE belongs, a truncated UPDATE, an
   attribute length running past the message, a peer up whose sent OPEN has a wrong parameter length - the
   session goes on, nothing is installed, and the peer down / end of stream clean up *)
Definition sx_hostile : bytes :=
  sx_init ++ sx_up_badopen ++ sx_up ++ sx_rm_open ++ sx_rm_cut ++ sx_rm_badattr ++ sx_ann12 ++ sx_down.
Example BMPStack_example_hostile :
  exists st, stack_serve sx_cfg init sx_hostile = SDone st 37678 8 /\
    r_counters st = [4; 0; 1; 2; 1; 0; 0] /\ r_nbrs st = [] /\ r_vrfs st = [].
Proof. eexists. vm_compute. repeat split; reflexivity. Qed.

(* the whole stack's allocation on that stream, against the bound *)
(* the whole stack's allocation on that stream (BMP layer 37678 + 30 in the BGP decoder), against the bound *)
Example BMPStack_example_alloc :
  stack_alloc sx_cfg init sx_hostile = 37708 /\ len sx_hostile = 720 /\
  37708 <= 11901 * 720 + 5800.
Proof. vm_compute. repeat split; intros H; discriminate H. Qed.
