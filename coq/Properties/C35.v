(* C35 - The shortest-path-tree computation (util/dijkstra Topology.SPT) is correct on every graph.
   Only statements here; proofs live in Proofs/DijkstraProofs.v.

   `run guard o nodes edges src` models NewTopology(nodes, edges).SPT(src); `o` fixes the order in
   which Go's map iteration visits keys, `guard = true` is the code with the nil test that the
   fix commit added before `from = *next`.

   Domain (hypotheses of every theorem): the edges connect listed nodes (in_domain), weights are
   non-negative and at most W with |nodes| * W < 2^63 (no int64 overflow on any candidate path),
   the source is a listed node, and the oracle returns permutations. Duplicate nodes and
   duplicate edges in the input lists are inside the domain (for edges the last entry counts). *)
From Coq Require Import List NArith ZArith Permutation Lia.
Import ListNotations.
From BioVerif Require Import Model.Dijkstra Spec.DijkstraSpec Proofs.DijkstraProofs.
Open Scope Z_scope.

(* For every graph, source and map order: SPT returns (no panic); the result has exactly one entry
   per listed node; each entry is either a shortest path from the source along existing edges
   together with its weight, or (-1, no edges) for a node that no path reaches; and the entries
   form a tree (the path of v = the path of v's predecessor plus one edge). *)
Theorem C35_correct : forall nodes es W src o,
  in_domain nodes es W -> no_overflow nodes W -> In src nodes -> oracle_ok o ->
  exists spt, run true o nodes es src = Ok spt /\
    NoDup (keys spt) /\ (forall v, In v (keys spt) <-> In v nodes) /\
    (forall v r, get v spt = Some r -> node_result_ok (graph_of es) src v r) /\
    tree_ok spt.
Proof. exact spt_correct. Qed.
Print Assumptions C35_correct.

Theorem C35_no_panic : forall nodes es W src o,
  in_domain nodes es W -> no_overflow nodes W -> In src nodes -> oracle_ok o ->
  exists spt, run true o nodes es src = Ok spt.
Proof. exact spt_no_panic. Qed.
Print Assumptions C35_no_panic.

(* Several calls on ONE Topology object: t := NewTopology(nodes, es); t.SPT(s1); t.SPT(s2); ...
   (spt returns the tree AND the topology the call leaves behind; spt_seq hands it to the next call).
   SPT does not modify the topology ... *)
Theorem C35_spt_pure : forall guard o t from, fst (spt guard o t from) = t.
Proof. exact spt_pure. Qed.
Print Assumptions C35_spt_pure.

(* ... so every call of every sequence of calls (any sources, the same one twice, each call with its
   own map order) returns a correct tree for ITS source. *)
Theorem C35_correct_sequence : forall nodes es W calls,
  in_domain nodes es W -> no_overflow nodes W ->
  Forall (fun c => oracle_ok (fst c) /\ In (snd c) nodes) calls ->
  Forall2 (fun c out => exists spt, out = Ok spt /\
             NoDup (keys spt) /\ (forall v, In v (keys spt) <-> In v nodes) /\
             (forall v r, get v spt = Some r -> node_result_ok (graph_of es) (snd c) v r) /\
             tree_ok spt)
          calls (run_seq true nodes es calls).
Proof. exact spt_correct_sequence. Qed.
Print Assumptions C35_correct_sequence.

(* The two halves of node_result_ok spelled out per node. *)
Theorem C35_reachable_minimal_unreachable_marked : forall nodes es W src o spt v,
  in_domain nodes es W -> no_overflow nodes W -> In src nodes -> oracle_ok o ->
  run true o nodes es src = Ok spt -> In v nodes ->
  exists r, get v spt = Some r /\
    (reachable (graph_of es) src v ->
       shortest (graph_of es) src v (pedges r) /\ pdist r = weight (pedges r)) /\
    (~ reachable (graph_of es) src v -> pdist r = -1 /\ pedges r = []).
Proof. exact spt_reachable. Qed.
Print Assumptions C35_reachable_minimal_unreachable_marked.

(* The code as found (guard = false: no nil test) panics exactly when some node is unreachable. *)
Theorem C35_code_as_found_panics_iff_unreachable : forall nodes es W src o,
  in_domain nodes es W -> no_overflow nodes W -> In src nodes -> oracle_ok o ->
  (run false o nodes es src = Panic <->
   exists v, In v nodes /\ ~ reachable (graph_of es) src v).
Proof. exact spt_unguarded_panics_iff. Qed.
Print Assumptions C35_code_as_found_panics_iff_unreachable.

(* The executable path test used by the model driver on the implementation's edge lists. *)
Theorem C35_path_check_sound : forall g s t p, is_path_b g s t p = true <-> is_path g s t p.
Proof. exact is_path_b_spec. Qed.
Print Assumptions C35_path_check_sound.

(* ---- non-vacuity *)
Definition ex_id : oracle := mkO (fun _ l => l) (fun _ l => l).
Definition ex_rev : oracle := mkO (fun _ l => rev l) (fun _ l => rev l).
(* 0 -> 1 (2), 0 -> 2 (0), 2 -> 1 (1), 1 -> 3 (0), 2 -> 3 (2), 3 -> 0 (1), duplicate 0 -> 1 (5 then 2),
   node 4 unreachable, node 2 listed twice *)
Definition ex_nodes : list node := [0; 1; 2; 3; 4; 2]%N.
Definition ex_edges : list edge :=
  [mkE 0 1 5; mkE 0 2 0; mkE 2 1 1; mkE 1 3 0; mkE 2 3 2; mkE 3 0 1; mkE 0 1 2; mkE 4 0 1]%N.

Example C35_example_domain :
  in_domain ex_nodes ex_edges 5 /\ no_overflow ex_nodes 5 /\ In 0%N ex_nodes /\
  oracle_ok ex_id /\ oracle_ok ex_rev.
Proof.
  split; [|split; [|split; [|split]]].
  - intros e0 He. cbn in He.
    repeat (destruct He as [<-|He]; [cbn; repeat split; auto 10; lia|]). destruct He.
  - reflexivity.
  - cbn. auto.
  - split; intros; apply Permutation_refl.
  - split; intros; cbn; apply Permutation_sym, Permutation_rev.
Qed.

Example C35_example_run :
  run true ex_id ex_nodes ex_edges 0%N =
  Ok [(0, mkP [] 0); (1, mkP [mkE 0 2 0; mkE 2 1 1] 1); (2, mkP [mkE 0 2 0] 0);
      (3, mkP [mkE 0 2 0; mkE 2 1 1; mkE 1 3 0] 1); (4, mkP [] (-1))]%N
  /\ run true ex_rev ex_nodes ex_edges 0%N = run true ex_id ex_nodes ex_edges 0%N
  /\ run false ex_id ex_nodes ex_edges 0%N = Panic.
Proof. repeat split; vm_compute; reflexivity. Qed.

Example C35_example_sequence :
  run_seq true ex_nodes ex_edges [(ex_id, 2); (ex_rev, 0); (ex_id, 2)]%N =
  [run true ex_id ex_nodes ex_edges 2%N; run true ex_rev ex_nodes ex_edges 0%N; run true ex_id ex_nodes ex_edges 2%N].
Proof. vm_compute. reflexivity. Qed.
