(* C20 - Received UPDATEs are applied NLRI by NLRI.
   Only statements here; proofs live in Proofs/UpdateApplyProofs.v (and Proofs/AdjRIBInProofs.v).

   process_update afi safi u s   (Model/UpdateApply.v) processUpdate of the address family (afi, safi)
                                 on the Adj-RIB-In model state s; outcome Done s' or Panic
   message_ops afi u             (Spec/UpdateApplySpec.v) the per-NLRI reading of the message: one
                                 Announce per announced NLRI of the family with that NLRI's own path
                                 identifier and the message's attributes, one Withdraw per withdrawn NLRI
                                 with that NLRI's own identifier, MP_REACH / MP_UNREACH and (IPv4) the
                                 classic fields alike
   well_typed u                  every attribute value has the Go type the decoder gives it *)
From Coq Require Import List NArith Bool.
Import ListNotations.
From BioVerif Require Import Model.AdjRIBIn Model.UpdateApply Spec.AdjRIBInSpec Spec.UpdateApplySpec
  Proofs.AdjRIBInProofs Proofs.UpdateApplyProofs.
Open Scope N_scope.

(* For every decoded UPDATE (any number of NLRI per field, any identifiers, any attribute list,
   both encodings, add-path on or off - that is part of the state's session attributes) and every
   Adj-RIB-In state: processing the message is the fold of the per-NLRI operations. *)
Theorem C20_per_nlri : forall (afi : N) (u : update) (s : st),
  well_typed u ->
  process_update afi 1 u s = Done (fold_left step (message_ops afi u) s).
Proof. exact per_nlri. Qed.
Print Assumptions C20_per_nlri.

(* A whole session: after any history pre and any sequence of messages, the Adj-RIB-In (and its
   clients) are in the state reached by the concatenated per-NLRI operations; all C05 / C06
   theorems about [run] therefore apply to what UPDATE processing produces. *)
Theorem C20_per_nlri_session : forall (a : sattrs) (pol : policy) (afi : N) (us : list update) (pre : list op),
  (forall u, In u us -> well_typed u) ->
  process_updates afi 1 us (run a pol pre) = Done (run a pol (pre ++ flat_map (message_ops afi) us)).
Proof. exact per_nlri_session. Qed.
Print Assumptions C20_per_nlri_session.

(* What one announced NLRI does: its slot (the prefix; with add-path the prefix and ITS identifier)
   afterwards holds exactly one path, carrying that identifier; every other slot is untouched. *)
Theorem C20_announce_installs_one : forall (a : sattrs) (pol : policy) (ops : list op) (p : pfx) (q : path),
  let s := run a pol ops in
  let s' := step s (Announce p q) in
  let slot := fun e : pfx * path => (fst e =? p) && (negb (addpath_rx a) || (pid (snd e) =? pid q)) in
  (exists qs, filter slot (tab s') = [(p, qs)] /\ pid qs = pid q) /\
  filter (fun e => negb (slot e)) (tab s') = filter (fun e => negb (slot e)) (tab s).
Proof. exact announce_replaces'. Qed.
Print Assumptions C20_announce_installs_one.

(* What one withdrawn NLRI does: exactly the path with ITS identifier is removed (all paths of the
   prefix without add-path); every other slot is untouched. *)
Theorem C20_withdraw_removes_one : forall (a : sattrs) (pol : policy) (ops : list op) (p : pfx) (i : N),
  let s := run a pol ops in
  let s' := step s (Withdraw p i) in
  let slot := fun e : pfx * path => (fst e =? p) && (negb (addpath_rx a) || (pid (snd e) =? i)) in
  filter slot (tab s') = [] /\
  filter (fun e => negb (slot e)) (tab s') = filter (fun e => negb (slot e)) (tab s).
Proof. exact withdraw_removes. Qed.
Print Assumptions C20_withdraw_removes_one.

(* No message the decoder can produce makes processing panic - MP_REACH_NLRI without NLRI included. *)
Theorem C20_no_panic : forall (afi safi : N) (u : update) (s : st),
  well_typed u -> exists s', process_update afi safi u s = Done s'.
Proof. exact no_panic. Qed.
Print Assumptions C20_no_panic.

(* Non-vacuity: an add-path IPv6 session; one UPDATE announces two NLRI with identifiers 7 and 9 via
   MP_REACH_NLRI, a second one withdraws identifier 9 of the first prefix (which holds 7: nothing
   happens) and identifier 9 of the second; an MP_REACH_NLRI without NLRI is harmless; an ill-typed
   attribute value is a panic in the model as it is in Go. *)
Definition ex20_sa : sattrs := mkSA true true 9 65000 100 false false 0.
Definition ex20_u1 : update :=
  mkUpdate [] [AIgnored true; AASPath true [65002]; ALocalPref true 100;
               AReach true (mkReach 2 1 5 [mkNLRI 1 7; mkNLRI 2 9])] [].
Definition ex20_u2 : update :=
  mkUpdate [] [AUnreach true (mkUnreach 2 1 [mkNLRI 1 9; mkNLRI 2 9])] [].
Definition ex20_u3 : update := mkUpdate [] [AReach true (mkReach 2 1 5 [])] [].

Example C20_example :
  (match process_updates 2 1 [ex20_u1] (init ex20_sa (sample_policy 0 0)) with
   | Done s => map (fun e => (fst e, pid (snd e), nhop (snd e))) (tab s) = [(1, 7, 5); (2, 9, 5)]
   | Panic => False end) /\
  (match process_updates 2 1 [ex20_u1; ex20_u2; ex20_u3] (init ex20_sa (sample_policy 0 0)) with
   | Done s => map (fun e => (fst e, pid (snd e))) (tab s) = [(1, 7)]
   | Panic => False end) /\
  process_update 2 1 (mkUpdate [] [AMed false 0] []) (init ex20_sa (sample_policy 0 0)) = Panic.
Proof. vm_compute. repeat split. Qed.
