(* Wire-level IS-IS speaker (composition of C30 codec, C31 adjacencies, C32 LSDB, C33 link state).
   Only statements here; model: Model/ISISSpeaker.v, proofs: Proofs/ISISSpeakerProofs.v.
   Registered under C32 (props/C32.py: more_properties_files). *)
From Coq Require Import List Bool NArith ZArith Permutation.
Import ListNotations.
From BioVerif Require Import Model.ISISSpeaker Proofs.ISISSpeakerProofs.
(* C = Model.ISISCodec, A = Model.Adj, L = Model.LSDB (aliases from the proofs file) *)
From BioVerif Require Spec.ISISCodecSpec.
Open Scope N_scope.

(* A frame whose bytes packet.Decode does not accept leaves neighbors, database, stored PDUs and
   the clock exactly as they were and nothing is sent; by C30 "does not decode" can only mean the
   decoder's error return (no panic, no endless loop). Frames of a PDU type the decoder has no case
   for are dropped in the same way. For ANY state, interface, source and byte string. *)
Theorem ISISSpeaker_garbage_changes_nothing : forall s i src b,
  (forall p, C.decode b <> C.Ok p) ->
  step s (RecvPDU i src b) = (s, []) /\ C.decode b = C.Err.
Proof.
  intros s i src b H. split; [apply garbage_changes_nothing; exact H | apply undecodable_is_err; exact H].
Qed.
Print Assumptions ISISSpeaker_garbage_changes_nothing.

Theorem ISISSpeaker_other_pdu_types_change_nothing : forall s i src b h,
  C.decode b = C.Ok (C.mkPacket h C.BNone) -> L.pending (sp_db s) = false ->
  step s (RecvPDU i src b) = (s, []).
Proof. exact other_pdu_types_change_nothing. Qed.
Print Assumptions ISISSpeaker_other_pdu_types_change_nothing.

(* Every PSNP and CSNP the speaker puts on the wire decodes back (C30 round trip through
   NewPSNPs / NewCSNPs, any number of entries, several TLVs per PDU, several PDUs) to itself, and
   the entries it carries are exactly: for a PSNP on interface i the database entries whose SSN
   flag is set for i (the flag C32_flag_rules sets/clears), in database order; for a CSNP the whole
   database, sorted by LSP id. [entry_of] = remaining lifetime, id, sequence number of the entry and
   the checksum of the stored PDU. *)
Theorem ISISSpeaker_ack_roundtrips : forall s, cfg_ok s ->
  (forall i, exists ps, psnps_for s i = C.Ok ps /\
     Forall (fun p => C.decode (psnp_bytes p) = C.Ok (C.mkPacket hdr_psnp (C.BPsnp p))) ps /\
     concat (map ISISCodecSpec.psnp_entries ps) =
       map (entry_of s) (filter (fun kv => L.mem i (L.ssn (snd kv))) (L.db (sp_db s)))) /\
  (exists cs, csnps_for s = C.Ok cs /\
     Forall (fun c => C.decode (csnp_bytes c) = C.Ok (C.mkPacket hdr_csnp (C.BCsnp c))) cs /\
     concat (map ISISCodecSpec.csnp_entries cs) = C.sort_entries (map (entry_of s) (L.db (sp_db s))) /\
     Permutation (concat (map ISISCodecSpec.csnp_entries cs)) (map (entry_of s) (L.db (sp_db s)))) /\
  (* ids survive the wire *)
  (forall k, id_ok k -> id_of_bytes (id_bytes k) = k).
Proof.
  intros s Hc. split; [intros i; apply psnp_roundtrips; exact Hc |].
  split; [apply csnp_roundtrips; exact Hc | exact id_roundtrip].
Qed.
Print Assumptions ISISSpeaker_ack_roundtrips.

(* The hello we send decodes (C30) to a level-2 point-to-point hello of this system whose
   three-way adjacency TLV is exactly the neighbor state of C31: "Down" without neighbor fields
   when the interface has no single neighbor or that neighbor is Down; otherwise the neighbor's
   state (Init/Up) with its system id and its extended circuit id. *)
Theorem ISISSpeaker_hello_reflects_adjacency : forall s f, cfg_ok s -> area_ok s -> if_ok s f ->
  (exists h, C.decode (hello_bytes s f) = C.Ok (C.mkPacket hdr_hello (C.BHello h)) /\
     C.hl_ct h = 2 /\ C.hl_sys h = sp_sys s /\ C.hl_hold h = u16 (sp_hold s) /\
     C.hl_tlvs h = [threeway_tlv f; C.new_proto_tlv [204; 142]; C.new_ipif_tlv [if_addr f];
                    C.new_area_tlv [sp_area s]]) /\
  match p2p_neighbor f with
  | Some (k, nb) =>
    match A.state nb, info_lookup k (if_info f) with
    | A.Down, _ | _, None => threeway_tlv f = C.TP2PAdj 240 5 2 (u32 (if_index f)) C.zero6 0
    | A.Init, Some i => threeway_tlv f = C.TP2PAdj 240 15 1 (u32 (if_index f)) (ni_sys i) (ni_ecid i)
    | A.Up, Some i => threeway_tlv f = C.TP2PAdj 240 15 0 (u32 (if_index f)) (ni_sys i) (ni_ecid i)
    end
  | None => threeway_tlv f = C.TP2PAdj 240 5 2 (u32 (if_index f)) C.zero6 0
  end.
Proof.
  intros s f Hc Ha Hf. split; [apply hello_decodes; assumption | apply threeway_reflects_adjacency].
Qed.
Print Assumptions ISISSpeaker_hello_reflects_adjacency.

(* What a speaker S concludes from the hello bytes another speaker T emits on a common link: the
   C31 verdict is "lists us" exactly when T's neighbor table names S (single neighbor, not Down,
   learnt with S's system id and circuit id). The abstract lists_me flag of Model/Adj.v is the
   three-way TLV that went over the wire. (A TLV without neighbor fields reads as system id 0 /
   circuit 0, hence the non-zero system id.) *)
Theorem ISISSpeaker_verdict_of_emitted : forall S f T ft, cfg_ok T -> area_ok T -> if_ok T ft ->
  be_val (sp_sys S) <> 0 ->
  pfx_contains (if_addr f) (if_plen f) (if_addr ft) = true ->
  exists h, C.decode (hello_bytes T ft) = C.Ok (C.mkPacket hdr_hello (C.BHello h)) /\
    C.hl_sys h = sp_sys T /\ C.hl_hold h = u16 (sp_hold T) /\
    hello_verdict S f h = (if names T ft S f then A.Lists else A.NotLists) /\
    info_of_hello h = mkInfo (sp_sys T) (u32 (if_index ft)) [u32 (if_addr ft)].
Proof. exact verdict_of_emitted. Qed.
Print Assumptions ISISSpeaker_verdict_of_emitted.

(* Two-speaker closure, for ALL configurations: two speakers with one interface each on a common
   link (addresses inside each other's subnet, non-zero system ids, links up, no neighbors yet), each
   fed the hello BYTES the other one emits: after the first hello in each direction both neighbor
   tables hold the other side in Init, after the second both adjacencies are Up. *)
Theorem ISISSpeaker_two_speaker_closure : forall SA SB fa fb ma mb,
  cfg_ok SA -> cfg_ok SB -> area_ok SA -> area_ok SB ->
  be_val (sp_sys SA) <> 0 -> be_val (sp_sys SB) <> 0 ->
  sp_ifs SA = [fa] -> sp_ifs SB = [fb] -> if_up fa = true -> if_up fb = true ->
  if_nbrs fa = [] -> if_nbrs fb = [] -> link_compat fa fb ->
  let B1 := recv_pdu SB 0 ma (hello_of_first SA) in
  let A1 := recv_pdu SA 0 mb (hello_of_first B1) in
  let B2 := recv_pdu B1 0 ma (hello_of_first A1) in
  let A2 := recv_pdu A1 0 mb (hello_of_first B2) in
  nbr_state B1 ma = Some A.Init /\ nbr_state A1 mb = Some A.Init /\
  nbr_state B2 ma = Some A.Up /\ nbr_state A2 mb = Some A.Up.
Proof. exact two_speaker_closure. Qed.
Print Assumptions ISISSpeaker_two_speaker_closure.

(* The own LSP as flooded decodes (C30) to itself: its sequence number is the one it was generated
   with, its extended IS reachability TLV (type 22, no decoder: it comes back as the bytes written)
   names exactly the Up adjacencies; and serving an update request installs that LSP with sequence
   number next_seq(counter) = counter + 1 (the number C32_own_seq_dominates puts above every
   received copy). [own_fits]: each TLV's content fits its one-byte length. *)
Theorem ISISSpeaker_lsp_roundtrip_lists_up : forall s sq, own_fits s -> sq < 4294967296 ->
  C.decode (lsp_bytes (own_lsp s sq)) =
    C.Ok (C.mkPacket hdr_lsp (C.BLsp (ISISCodecSpec.norm_lsp (own_lsp s sq)))) /\
  C.ls_seq (ISISCodecSpec.norm_lsp (own_lsp s sq)) = sq /\
  C.ls_id (ISISCodecSpec.norm_lsp (own_lsp s sq)) = id_bytes (L.local_id (sp_db s)) /\
  exists t, nth_error (own_lsp_tlvs s) 4 = Some t /\
    nth_error (C.ls_tlvs (ISISCodecSpec.norm_lsp (own_lsp s sq))) 4 =
      Some (C.TUnknown 22 (C.tlv_len t) (C.tlv_value t)) /\
    map C.xn_id (extis_nbrs t) =
      flat_map (fun f => map (fun ki => ni_sys (snd ki) ++ [0]) (up_nbrs f)) (sp_ifs s).
Proof. exact own_lsp_roundtrip. Qed.
Print Assumptions ISISSpeaker_lsp_roundtrip_lists_up.

Theorem ISISSpeaker_service_installs_own_lsp : forall s,
  L.pending (sp_db s) = true ->
  let sq := L.next_seq (L.counter (sp_db s)) in
  let s' := service s in
  pdu_lookup (L.local_id (sp_db s)) (sp_pdus s') = Some (own_lsp s sq) /\
  (exists e, L.lookup (L.local_id (sp_db s)) (L.db (sp_db s')) = Some e /\ L.seq e = sq /\
             L.life e = L.default_lifetime) /\
  L.counter (sp_db s') = sq /\ L.pending (sp_db s') = false /\ sp_ifs s' = sp_ifs s.
Proof. exact service_installs_own_lsp. Qed.
Print Assumptions ISISSpeaker_service_installs_own_lsp.

(* ------------------------------------------------------------------ computed examples on real byte strings *)

Definition ipA : N := 2852021248.   (* 169.254.100.0 *)
Definition ipB : N := 2852021249.   (* 169.254.100.1 *)
Definition sysA : list N := [12; 12; 12; 13; 13; 13].
Definition sysB : list N := [222; 173; 190; 239; 255; 1].
Definition macA : N := 1.
Definition macB : N := 244837814047284.   (* de:ad:be:ef:12:34 *)

Definition spA0 : spk := fst (step (init sysA [73; 0] [118] 16 4 10 [(7, ipA, 31)]) (LinkUp 0)).
Definition spB0 : spk := fst (step (init sysB [73; 0] [119] 16 4 10 [(100, ipB, 31)]) (LinkUp 0)).

Definition hello_from (s : spk) : list N :=
  match nth_error (sp_ifs s) 0 with Some f => hello_bytes s f | None => [] end.
Definition nbr_states (s : spk) : list (list (N * A.adj_state)) :=
  map (fun f => map (fun kv => (fst kv, A.state (snd kv))) (if_nbrs f)) (sp_ifs s).

(* the hello bytes of a speaker without neighbor: what tests/isis_integration_test.go expects
   (helloToNeighborADown, here with ifindex 7), behind the LLC header *)
Example ISISSpeaker_example_hello_bytes :
  hello_from spA0 =
  [254; 254; 3;  131; 20; 1; 0; 17; 1; 0; 0;
   2;  12; 12; 12; 13; 13; 13;  0; 16;  0; 42;  1;
   240; 5; 2; 0; 0; 0; 7;   129; 2; 204; 142;   132; 4; 169; 254; 100; 0;   1; 3; 2; 73; 0].
Proof. vm_compute. reflexivity. Qed.

(* two-speaker closure: each speaker is fed the other's emitted hello bytes; after two hellos each
   both adjacencies are Up, both own LSPs name the other system, and garbage in between is ignored *)
Example ISISSpeaker_example_two_speakers :
  let garbage := [0; 0; 0; 131; 20; 1; 0; 17; 1; 0; 0; 2; 1; 2; 3] in
  let b1 := fst (step spB0 (RecvPDU 0 macA (hello_from spA0))) in
  let a1 := fst (step spA0 (RecvPDU 0 macB (hello_from b1))) in
  let a1' := fst (step a1 (RecvPDU 0 macB garbage)) in
  let b2 := fst (step b1 (RecvPDU 0 macA (hello_from a1'))) in
  let a2 := fst (step a1' (RecvPDU 0 macB (hello_from b2))) in
  nbr_states b1 = [[(macA, A.Init)]] /\ nbr_states a1 = [[(macB, A.Init)]] /\ a1' = a1 /\
  nbr_states b2 = [[(macA, A.Up)]] /\ nbr_states a2 = [[(macB, A.Up)]] /\
  map C.xn_id (extis_nbrs (nth 4 (own_lsp_tlvs a2) (C.TUnknown 0 0 []))) = [sysB ++ [0]] /\
  map C.xn_id (extis_nbrs (nth 4 (own_lsp_tlvs b2) (C.TUnknown 0 0 []))) = [sysA ++ [0]].
Proof. vm_compute. repeat split; reflexivity. Qed.

(* a real LSP byte string from the neighbor is installed, acknowledged by a PSNP whose bytes decode
   back to that LSP's entry, and the own LSP goes out with sequence number 3 listing the neighbor *)
Definition lsp_from_b : list N :=
  [0; 0; 0;  131; 27; 1; 0; 20; 1; 0; 0;
   0; 27;  4; 176;  222; 173; 190; 239; 255; 1; 0; 0;  0; 0; 0; 9;  18; 52;  0].

Fixpoint ticks (n : nat) (s : spk) : spk * list out :=
  match n with
  | O => (s, [])
  | S k => let r := ticks k s in let r' := step (fst r) Tick in (fst r', snd r ++ snd r')
  end.

Example ISISSpeaker_example_lsp_ack :
  let b1 := fst (step spB0 (RecvPDU 0 macA (hello_from spA0))) in
  let a1 := fst (step spA0 (RecvPDU 0 macB (hello_from b1))) in
  let b2 := fst (step b1 (RecvPDU 0 macA (hello_from a1))) in
  let a2 := fst (step a1 (RecvPDU 0 macB (hello_from b2))) in
  let a3 := fst (step a2 (RecvPDU 0 macB lsp_from_b)) in
  let r := ticks 5 a3 in
  (* the LSP is in the database with SSN set for interface 0 *)
  L.lookup (id_of_bytes [222; 173; 190; 239; 255; 1; 0; 0]) (L.db (sp_db a3)) = Some (L.mkE 9 1200 [] [0%nat]) /\
  (* at second 5: own LSP flooded (type 20), a PSNP (type 27), a hello (at second 4) *)
  map (fun o => nth 7 (snd o) 0) (snd r) = [17; 20; 27] /\
  (* the PSNP decodes to one entry: lifetime 1195, that id, sequence number 9, checksum 0x1234 *)
  (exists h p, C.decode (snd (nth 2 (snd r) (0%nat, []))) = C.Ok (C.mkPacket h (C.BPsnp p)) /\
     ISISCodecSpec.psnp_entries p = [C.mkEntry 1195 [222; 173; 190; 239; 255; 1; 0; 0] 9 4660]) /\
  (* the flooded own LSP decodes with sequence number 3 *)
  (exists h x, C.decode (snd (nth 1 (snd r) (0%nat, []))) = C.Ok (C.mkPacket h (C.BLsp x)) /\
     C.ls_seq x = 3 /\ C.ls_id x = sysA ++ [0; 0]).
Proof.
  vm_compute. repeat split; try reflexivity.
  - eexists. eexists. split; reflexivity.
  - eexists. eexists. repeat split; reflexivity.
Qed.
