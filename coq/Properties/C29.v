(* C29 - The merged RIB holds a route exactly while some source advertises it.
   Only statements here; proofs live in Proofs/MergedProofs.v. *)
From Coq Require Import List NArith.
Import ListNotations.
From BioVerif Require Import Model.Merged Spec.MergedSpec Proofs.MergedProofs.

(* For every history of advertisements (repeated ones included), withdrawals and source drops
   over any sources and routes: the route is installed in the Loc-RIB below the merged table
   iff at least one source currently advertises it ... *)
Theorem C29_present_iff_advertised : forall (ops : list op) (r : rid),
  In r (rib (run ops)) <-> advertised (spec_run ops) r.
Proof. exact present_iff_advertised. Qed.
Print Assumptions C29_present_iff_advertised.

(* ... it is installed exactly once (one AddPath per presence, so one RemovePath clears it) ... *)
Theorem C29_present_once : forall ops : list op, NoDup (rib (run ops)).
Proof. exact present_once. Qed.
Print Assumptions C29_present_once.

(* ... and the per-route source sets are exactly the current advertisers. *)
Theorem C29_sources_exact : forall (ops : list op) (s : src) (r : rid),
  In s (sources_of (run ops) r) <-> In (s, r) (spec_run ops).
Proof. exact sources_exact. Qed.
Print Assumptions C29_sources_exact.

(* Presence is per route identity: whether route r is installed depends only on the advertisements and
   withdrawals of r itself and on the source drops - advertisements and withdrawals of OTHER routes
   (however similar: same prefix, paths that best-path selection treats as equal) never shadow it. *)
Theorem C29_presence_per_route_identity : forall (ops : list op) (r : rid),
  In r (rib (run ops)) <-> In r (rib (run (filter (about r) ops))).
Proof. exact presence_per_route. Qed.
Print Assumptions C29_presence_per_route_identity.

(* The RIS client glue (risclient.go: serviceLoop/processUpdate/processDownEvent) maps the stream
   events of client c to AddRoute/RemoveRoute/DropAllBySrc with ONE source key per client, so the
   merged table holds a route iff some client currently has it from its upstream (an ended stream
   forgets everything that client had learned). *)
Theorem C29_client_events_map_consistently : forall (evs : list event) (r : rid),
  In r (rib (run_events evs)) <-> exists c, In (c, r) (client_run evs).
Proof. exact client_events_consistent. Qed.
Print Assumptions C29_client_events_map_consistently.

(* Non-vacuity: a history with a repeated advertisement followed by one withdrawal. *)
Example C29_example_repeated_add :
  rib (run [Add 1 7; Add 1 7; Remove 1 7])%N = [] /\
  rib (run [Add 1 7; Add 2 7; Remove 1 7])%N = [7%N].
Proof. split; reflexivity. Qed.

Example C29_example_stream_end :
  rib (run_events [Adv 0 1; Adv 0 2; Adv 1 2; StreamEnd 0])%N = [2%N] /\
  rib (run_events [Adv 0 1; Adv 0 2; Adv 1 2; StreamEnd 0; StreamEnd 1; Adv 0 1; Wd 0 1])%N = [].
Proof. split; reflexivity. Qed.
