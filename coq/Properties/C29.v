(* C29 - The merged RIB holds a route exactly while some source advertises it.
   Only statements here; proofs live in Proofs/MergedProofs.v. *)
From Coq Require Import List NArith.
Import ListNotations.
From BioVerif Require Import Model.Merged Spec.MergedSpec Proofs.MergedProofs.

(* For every history of advertisements (repeated ones included), withdrawals and source drops
   over any sources and routes: the route is installed in the Loc-RIB below the merged table
   iff at least one source currently advertises it ... *)
Theorem C29_present_iff_advertised : forall (ops : list op) (r : rid),
  In r (rib (run ops)) <-> advertised (spec_run ops) r.
Proof. exact present_iff_advertised. Qed.
Print Assumptions C29_present_iff_advertised.

(* ... it is installed exactly once (one AddPath per presence, so one RemovePath clears it) ... *)
Theorem C29_present_once : forall ops : list op, NoDup (rib (run ops)).
Proof. exact present_once. Qed.
Print Assumptions C29_present_once.

(* ... and the per-route source sets are exactly the current advertisers. *)
Theorem C29_sources_exact : forall (ops : list op) (s : src) (r : rid),
  In s (sources_of (run ops) r) <-> In (s, r) (spec_run ops).
Proof. exact sources_exact. Qed.
Print Assumptions C29_sources_exact.

(* Non-vacuity: a history with a repeated advertisement followed by one withdrawal. *)
Example C29_example_repeated_add :
  rib (run [Add 1 7; Add 1 7; Remove 1 7])%N = [] /\
  rib (run [Add 1 7; Add 2 7; Remove 1 7])%N = [7%N].
Proof. split; reflexivity. Qed.
