(* C09 - Export eligibility and attribute rewriting follow the BGP RFCs.
   Only statements here; proofs live in Proofs/ExportProofs.v and Proofs/ExportMatrix.v.

   export_with f s pfx p is what AdjRIBOut.AddPath computes for a Loc-RIB path p on session s before it
   stores/announces it: redistribution, ShouldPropagateUpdate, checkPropagateUpdate{IBGP,EBGP} (= rewrite)
   and the export policy f, which is ANY function prefix -> path -> option path.  Every theorem holds for
   all paths (all attribute values), all sessions (every kind, every role code), all prefixes. *)
From Coq Require Import List NArith Bool.
Import ListNotations.
From BioVerif Require Import Model.PathIDs Model.AdjRIBOut Model.ExportWire Spec.ExportSpec
  Proofs.ExportProofs Proofs.ExportMatrix.
Local Open Scope N_scope.

(* ---- never advertised *)

Theorem C09_never_no_advertise : forall f s pfx r b,
  has_comm NO_ADVERTISE b -> export_with f s pfx (PBgp r b) = None.
Proof. exact never_no_advertise. Qed.
Print Assumptions C09_never_no_advertise.

Theorem C09_never_no_export_to_ebgp : forall f s pfx r b,
  s_ibgp s = false -> has_comm NO_EXPORT b -> export_with f s pfx (PBgp r b) = None.
Proof. exact never_no_export_to_ebgp. Qed.
Print Assumptions C09_never_no_export_to_ebgp.

Theorem C09_never_back_to_source : forall f s pfx r b,
  b_src b = s_peerip s -> export_with f s pfx (PBgp r b) = None.
Proof. exact never_back_to_source. Qed.
Print Assumptions C09_never_back_to_source.

Theorem C09_never_ibgp_to_nonclient_ibgp : forall f s pfx r b,
  s_ibgp s = true -> s_rrclient s = false -> b_ebgp b = false ->
  export_with f s pfx (PBgp r b) = None.
Proof. exact never_ibgp_to_nonclient. Qed.
Print Assumptions C09_never_ibgp_to_nonclient_ibgp.

Theorem C09_never_otc_to_provider_peer_rs : forall f s pfx r b,
  peer_is s [role_provider; role_peer; role_rs] -> b_otc b <> 0 ->
  export_with f s pfx (PBgp r b) = None.
Proof. exact never_otc_to_provider_peer_rs. Qed.
Print Assumptions C09_never_otc_to_provider_peer_rs.

(* nothing else is held back: a path none of the five rules excludes is exported *)
Theorem C09_eligible_is_exported : forall s pfx r b,
  ~ has_comm NO_ADVERTISE b ->
  (s_ibgp s = false -> ~ has_comm NO_EXPORT b) ->
  b_src b <> s_peerip s ->
  (s_ibgp s = true -> s_rrclient s = false -> b_ebgp b = true) ->
  (peer_is s [role_provider; role_peer; role_rs] -> b_otc b = 0) ->
  exists q, export_with accept_all s pfx (PBgp r b) = Some q.
Proof. exact eligible_is_exported. Qed.
Print Assumptions C09_eligible_is_exported.

(* ---- rewrites (rewrite s r b = what the export policy is handed; r = RedistributedFrom) *)

Theorem C09_rewrites_ebgp : forall s r b b',
  s_ibgp s = false -> s_rsclient s = false -> rewrite s r b = Some b' ->
  b_nh b' = s_localip s /\ asn_prepended (s_localasn s) b b' /\ b_aslen b' = as_length (b_aspath b').
Proof. exact rewrites_ebgp. Qed.
Print Assumptions C09_rewrites_ebgp.

Theorem C09_rewrites_rs_client_transparent : forall s r b b',
  s_ibgp s = false -> s_rsclient s = true -> rewrite s r b = Some b' ->
  b_nh b' = b_nh b /\ b_aspath b' = b_aspath b /\ b_aslen b' = b_aslen b.
Proof. exact rewrites_rs_client_transparent. Qed.
Print Assumptions C09_rewrites_rs_client_transparent.

(* a reflected route (r = 0: learned via BGP) to an RR client, in the table and on the wire *)
Theorem C09_rewrites_rr_client : forall s b b',
  s_ibgp s = true -> s_rrclient s = true -> rewrite s 0 b = Some b' ->
  b_oid b' = (if N.eqb (b_oid b) 0 then b_src b else b_oid b) /\
  b_cl b' = Some (s_clusterid s :: olist (b_cl b)) /\
  on_wire s b' (WOriginator (b_oid b')) /\
  on_wire s b' (WClusterList (s_clusterid s :: olist (b_cl b))).
Proof. exact rewrites_rr_client. Qed.
Print Assumptions C09_rewrites_rr_client.

Theorem C09_rewrites_otc_added : forall s r b b',
  peer_is s [role_customer; role_peer; role_rs_client] -> b_otc b = 0 ->
  rewrite s r b = Some b' -> b_otc b' = s_localasn s.
Proof. exact rewrites_otc_added. Qed.
Print Assumptions C09_rewrites_otc_added.

Theorem C09_rewrites_otc_kept : forall s r b b',
  s_ibgp s = false -> b_otc b <> 0 -> rewrite s r b = Some b' -> b_otc b' = b_otc b.
Proof. exact rewrites_otc_kept. Qed.
Print Assumptions C09_rewrites_otc_kept.

(* the OTC egress rules as one exhaustive table over the role codes *)
Theorem C09_role_matrix : forall s r b,
  s_ibgp s = false -> s_role_on s = true ->
  match rewrite s r b with
  | None => b_otc b <> 0 /\ In (s_role s) [role_provider; role_peer; role_rs]
  | Some b' =>
    (b_otc b = 0 \/ ~ In (s_role s) [role_provider; role_peer; role_rs]) /\
    b_otc b' = (if N.eqb (b_otc b) 0 && role_in (s_role s) [role_customer; role_peer; role_rs_client]
                then s_localasn s else b_otc b)
  end.
Proof. exact role_matrix. Qed.
Print Assumptions C09_role_matrix.

Theorem C09_localpref_only_ibgp : forall s b,
  (exists l, on_wire s b (WLocalPref l)) <-> s_ibgp s = true.
Proof. exact localpref_only_ibgp. Qed.
Print Assumptions C09_localpref_only_ibgp.

(* ---- known finding: "OTC is added towards customers, peers and RS clients" holds in the Adj-RIB-Out
   (C09_rewrites_otc_added = the partial statement) but not on the wire: PathAttributes has no element for
   BGPPathA.OnlyToCustomer and there is no encoder for attribute 35 *)
Theorem C09_rewrites_otc_on_wire_refuted :
  exists s b b',
    peer_is s [role_customer; role_peer; role_rs_client] /\ rewrite s 0 b = Some b' /\
    b_otc b' = s_localasn s /\ forall a, on_wire s b' a -> wcode a <> 35.
Proof. exact otc_on_wire_refuted. Qed.
Print Assumptions C09_rewrites_otc_on_wire_refuted.

(* Non-vacuity: one eBGP-learned path through the four session kinds *)
Definition ex_p : bgp :=
  mkBgp 50529027 50529027 100 0 50529027 0 None true false 0 0 [(true, [65001])] 1 None None None [] 0.
Definition ex_s (ibgp rs rr : bool) : sess := mkSess ibgp rs rr false 65000 16843009 33686018 9 false 0.

Example C09_example_kinds :
  (exists q, export_with accept_all (ex_s false false false) 0 (PBgp 0 ex_p) = Some (PBgp 0 q) /\
             b_aspath q = [(true, [65000; 65001])] /\ b_nh q = 16843009 /\ b_aslen q = 2) /\
  export_with accept_all (ex_s false true false) 0 (PBgp 0 ex_p) = Some (PBgp 0 ex_p) /\
  export_with accept_all (ex_s true false false) 0 (PBgp 0 ex_p) = Some (PBgp 0 ex_p) /\
  (exists q, export_with accept_all (ex_s true false true) 0 (PBgp 0 ex_p) = Some (PBgp 0 q) /\
             b_oid q = 50529027 /\ b_cl q = Some [9]).
Proof. vm_compute. repeat split; eexists; repeat split. Qed.
