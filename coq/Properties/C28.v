(* C28 - BMP receiver tables mirror the monitored sessions.
   Only statements here; proofs live in Proofs/BMPMirrorProofs.v (and BMPTableLemmas.v).
   Model: Model/BMPRouter.v over Model/BMPCodec.v (the very definitions C27 is about and the
   correspondence check runs). Spec: Spec/BMPMirrorSpec.v - the history is read, frame by frame, into
   a trace of session events (peer up with its add-path modes, peer down, route announced / withdrawn,
   reset = termination message or loss of the connection); `sess` says whether a peer is up, `live`
   whether a route was announced by it and since neither withdrawn (nor replaced) while it stayed up.
   Well-formed histories (wf): every frame is exactly one decodable BMP message, no frame follows a
   termination message on the same connection, a peer up arrives only for a peer that is not up, IPv4
   peer addresses have their 12 leading zero bytes, and the BGP layer yields path identifier 0 on
   sessions without add-path and announces no path the pseudo session's Adj-RIB-In hides (an eBGP path
   without AS_PATH, ORIGINATOR_ID = the monitored router's id; AS loops and cluster loops are not hidden: a BMP VRF
   has no contributing ASNs / cluster ids). The BGP layer (OPEN decoding, decode + application of UPDATEs) is an
   arbitrary pair of functions. Configurations: any IgnorePrePolicy / IgnorePostPolicy, no
   IgnorePeerASNs (C28_mirror_refuted shows what happens with them). *)
From Coq Require Import List NArith.
Import ListNotations.
From BioVerif Require Import Model.BMPCodec Model.BMPRouter Spec.BMPMirrorSpec
  Proofs.BMPTableLemmas Proofs.BMPMirrorProofs.
Open Scope N_scope.

(* The statement (mirror_holds, Proofs/BMPMirrorProofs.v): the router survives the history, and afterwards
   (1) for every peer k that is up (source address s): route y of family v6 is in the table of k's VRF,
       under s, exactly once if it is live and not at all otherwise;
   (2) every entry of every table is a live route of a peer of that VRF that is up.
   It holds for every well-formed history under every configuration without IgnorePeerASNs ... *)
Theorem C28_mirror_partial :
  forall (open_decode : bytes -> option open_info) (upd_apply : bool -> bool -> bool -> bytes -> list uevent)
         (c : cfg),
  ignore_asns c = [] ->
  forall acts, wf open_decode upd_apply c acts = true -> mirror_holds open_decode upd_apply c acts.
Proof. exact mirror_partial. Qed.
Print Assumptions C28_mirror_partial.

(* ... and not for all configurations: with IgnorePeerASNs the router remembers ignored peers by address
   only, so a peer of another VRF with the same address is not mirrored either (known finding
   route-missing:address-shared-with-ignored-peer-of-other-vrf; witness in corpus/C28). *)
Theorem C28_mirror_refuted :
  exists open_decode upd_apply c acts,
    wf open_decode upd_apply c acts = true /\ ~ mirror_holds open_decode upd_apply c acts.
Proof. exact mirror_refuted. Qed.
Print Assumptions C28_mirror_refuted.

(* ... nor for announcements the Adj-RIB-In of the pseudo session hides (wf excludes them): an eBGP path
   without AS_PATH and a path whose ORIGINATOR_ID is the monitored router's own id are stored hidden and
   never reach the table (known findings route-missing:hidden-*; witnesses in corpus/C28). Paths with
   the monitored router's AS or cluster id in AS_PATH / CLUSTER_LIST are NOT hidden and are covered by
   C28_mirror_partial. *)
Theorem C28_mirror_hidden_refuted :
  exists open_decode upd_apply c acts,
    ignore_asns c = [] /\ ~ mirror_holds open_decode upd_apply c acts.
Proof. exact mirror_hidden_refuted. Qed.
Print Assumptions C28_mirror_hidden_refuted.

(* Nothing learned from a peer or session that is gone remains: tables hold routes of up peers only;
   right after a peer down of k its VRF's tables hold only routes of other peers; right after a
   termination message or the loss of the connection there is no neighbor and every table is empty
   (the VRFs themselves are gone). *)
Theorem C28_nothing_remains :
  forall (open_decode : bytes -> option open_info) (upd_apply : bool -> bool -> bool -> bytes -> list uevent)
         (c : cfg),
  ignore_asns c = [] ->
  forall acts st,
  wf open_decode upd_apply c acts = true ->
  run open_decode upd_apply c init acts = Some st ->
  (forall rd v6 e, In e (table st rd v6) ->
     exists addr x, sess (trace open_decode upd_apply c acts) (rd, addr) = Some x /\ fst (fst (fst (fst x))) = fst (fst e)) /\
  (forall k tr', trace open_decode upd_apply c acts = EDown k :: tr' ->
     forall v6 e, In e (table st (fst k) v6) ->
     exists addr x, addr <> snd k /\ sess tr' (fst k, addr) = Some x) /\
  (forall tr', trace open_decode upd_apply c acts = EReset :: tr' ->
     r_nbrs st = [] /\ forall rd v6, table st rd v6 = []).
Proof. exact nothing_remains. Qed.
Print Assumptions C28_nothing_remains.

From BioVerif Require Import Proofs.BMPObserverProofs.

(* Table observers are informed: for every history of arriving bytes (any bytes), observer
   registrations with distinct ids and connection losses that the router survives, every observer
   registered on a VRF table has been told - adds minus removes - exactly the table's content. *)
Theorem C28_observers_follow :
  forall (open_decode : bytes -> option open_info) (upd_apply : bool -> bool -> bool -> bytes -> list uevent)
         (c : cfg) (acts : list action) (st : rstate),
  NoDup (obs_ids acts) ->
  run open_decode upd_apply c init acts = Some st ->
  forall v w o x, In v (r_vrfs st) -> In o (obs w v) -> cnt x (view o (r_log st)) = cnt x (tab w v).
Proof. exact observers_follow. Qed.
Print Assumptions C28_observers_follow.

(* ... and when the connection is lost (Router.cleanup, also run after a termination message) every
   registered observer is told Dispose and the VRFs are dropped. *)
Theorem C28_observers_disposed :
  forall (st : rstate) (o : N) (v : vrf) (w : bool), In v (r_vrfs st) -> In o (obs w v) ->
  disposed o (r_log (cleanup st)) = true /\ r_vrfs (cleanup st) = [].
Proof. exact observers_disposed. Qed.
Print Assumptions C28_observers_disposed.

(* ---- Non-vacuity: a concrete well-formed history on an add-path session. The BGP layer is a toy:
   every OPEN announces add-path send/receive for IPv4 and the AS in its bytes 20-21; a carried BGP
   message [1; p; i] announces p/24 with path id i, [2; p; i] withdraws it. *)
Definition ex_open (b : bytes) : option open_info :=
  Some (mk_open (be (firstn 2 (skipn 20 b))) 1 [] [(1, 1, 3)]).
(* an ordinary path, and one whose AS_PATH contains the monitored router's own AS 65001 (a real session's
   Adj-RIB-In would hide it as an AS loop; the BMP mirror stores what was reported) *)
Definition ex_attrs : pattrs := mk_pa false [65010; 65001; 65100] 0 [65001].
Definition ex_apply (_ _ _ : bool) (b : bytes) : list uevent :=
  match b with
  | [1; p; i] => [UAnn false (p, 24) i ex_attrs]
  | [2; p; i] => [UWdr false (p, 24) i]
  | _ => []
  end.
Definition ex_cfg : cfg := mk_cfg [] false false.
Definition ex_hdr (l t : N) : bytes := [3; 0; 0; 0; l; t].
(* peer 10.0.0.2, AS 65010, global VRF *)
Definition ex_pph : bytes := [0; 0] ++ repeat 0 8 ++ repeat 0 12 ++ [10; 0; 0; 2] ++ [0; 0; 253; 242] ++ repeat 0 12.
Definition ex_openmsg (hi lo : N) : bytes := repeat 255 16 ++ [0; 29; 1; 4; hi; lo; 0; 180; 1; 1; 1; 1; 0].
Definition ex_up : bytes :=
  ex_hdr 126 3 ++ ex_pph ++ repeat 0 16 ++ [0; 179; 156; 64] ++ ex_openmsg 253 233 ++ ex_openmsg 253 242.
Definition ex_rm (k p i : N) : bytes := ex_hdr 51 0 ++ ex_pph ++ [k; p; i].
Definition ex_down : bytes := ex_hdr 49 2 ++ ex_pph ++ [4].
Definition ex_peer : src := (false, 167772162).

Definition ex_hist : list action :=
  [AFrame ex_up; AObserve 7 0 false; AFrame (ex_rm 1 1 1); AFrame (ex_rm 1 1 2); AFrame (ex_rm 2 1 1)].

(* two paths of 1.0.0.0/24 announced, path 1 withdrawn: path 2 is there, the observer saw it all *)
Example C28_example_addpath :
  wf ex_open ex_apply ex_cfg ex_hist = true /\
  exists st, run ex_open ex_apply ex_cfg init ex_hist = Some st /\
    table st 0 false = [(ex_peer, (1, 24), 2)] /\ view 7 (r_log st) = [(ex_peer, (1, 24), 2)] /\
    live (trace ex_open ex_apply ex_cfg ex_hist) (0, 167772162) false ((1, 24), 2) = true /\
    live (trace ex_open ex_apply ex_cfg ex_hist) (0, 167772162) false ((1, 24), 1) = false.
Proof. split; [vm_compute; reflexivity|]. eexists. vm_compute. repeat split; reflexivity. Qed.

(* after the peer down nothing of the peer remains and the observer was told so; after the loss of
   the connection the observer has been disposed and the VRF is gone *)
Example C28_example_peer_down :
  exists st, run ex_open ex_apply ex_cfg init (ex_hist ++ [AFrame ex_down]) = Some st /\
    wf ex_open ex_apply ex_cfg (ex_hist ++ [AFrame ex_down]) = true /\
    table st 0 false = [] /\ view 7 (r_log st) = [] /\ r_nbrs st = [] /\ disposed 7 (r_log st) = false.
Proof. eexists. vm_compute. repeat split; reflexivity. Qed.
Example C28_example_conn_loss :
  exists st, run ex_open ex_apply ex_cfg init (ex_hist ++ [AConnLoss]) = Some st /\
    r_vrfs st = [] /\ r_nbrs st = [] /\ disposed 7 (r_log st) = true.
Proof. eexists. vm_compute. repeat split; reflexivity. Qed.
