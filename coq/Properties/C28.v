(* C28 - BMP receiver tables mirror the monitored sessions.
   Only statements here; proofs live in Proofs/BMPMirrorProofs.v (and BMPTableLemmas.v).
   Model: Model/BMPRouter.v over Model/BMPCodec.v (the very definitions C27 is about and the
   correspondence check runs). Spec: Spec/BMPMirrorSpec.v - the history is read, frame by frame, into
   a trace of session events (peer up with its add-path modes, peer down, route announced / withdrawn,
   reset = termination message or loss of the connection); `sess` says whether a peer is up, `live`
   whether a route was announced by it and since neither withdrawn (nor replaced) while it stayed up.
   Well-formed histories (wf): every frame is exactly one decodable BMP message, no frame follows a
   termination message on the same connection, a peer up arrives only for a peer that is not up, IPv4
   peer addresses have their 12 leading zero bytes, and the BGP layer yields path identifier 0 on
   sessions without add-path. The BGP layer (OPEN decoding, decode + application of UPDATEs) is an
   arbitrary pair of functions. Configurations: any IgnorePrePolicy / IgnorePostPolicy, no
   IgnorePeerASNs (see notes/C28.md for what happens with them). *)
From Coq Require Import List NArith.
Import ListNotations.
From BioVerif Require Import Model.BMPCodec Model.BMPRouter Spec.BMPMirrorSpec
  Proofs.BMPTableLemmas Proofs.BMPMirrorProofs.
Open Scope N_scope.

(* For every well-formed history the router survives it, and afterwards
   (1) for every peer k that is up (source address s): route y of family v6 is in the table of k's VRF,
       under s, exactly once if it is live and not at all otherwise;
   (2) every entry of every table is a live route of a peer of that VRF that is up. *)
Theorem C28_mirror :
  forall (open_decode : bytes -> option open_info) (upd_apply : bool -> bool -> bool -> bytes -> list uevent)
         (c : cfg),
  ignore_asns c = [] ->
  forall acts, wf open_decode upd_apply c acts = true ->
  exists st, run open_decode upd_apply c init acts = Some st /\
    (forall k s a4 a6 v6 y, sess (trace open_decode upd_apply c acts) k = Some (s, a4, a6) ->
       cnt (tag s y) (table st (fst k) v6) = b2n (live (trace open_decode upd_apply c acts) k v6 y)) /\
    (forall rd v6 e, In e (table st rd v6) ->
       exists addr a4 a6,
         sess (trace open_decode upd_apply c acts) (rd, addr) = Some (fst (fst e), a4, a6) /\
         live (trace open_decode upd_apply c acts) (rd, addr) v6 (snd (fst e), snd e) = true).
Proof. exact mirror. Qed.
Print Assumptions C28_mirror.

(* Nothing learned from a peer or session that is gone remains: tables hold routes of up peers only;
   right after a peer down of k its VRF's tables hold only routes of other peers; right after a
   termination message or the loss of the connection there is no neighbor and every table is empty
   (the VRFs themselves are gone). *)
Theorem C28_nothing_remains :
  forall (open_decode : bytes -> option open_info) (upd_apply : bool -> bool -> bool -> bytes -> list uevent)
         (c : cfg),
  ignore_asns c = [] ->
  forall acts st,
  wf open_decode upd_apply c acts = true ->
  run open_decode upd_apply c init acts = Some st ->
  (forall rd v6 e, In e (table st rd v6) ->
     exists addr x, sess (trace open_decode upd_apply c acts) (rd, addr) = Some x /\ fst (fst x) = fst (fst e)) /\
  (forall k tr', trace open_decode upd_apply c acts = EDown k :: tr' ->
     forall v6 e, In e (table st (fst k) v6) ->
     exists addr x, addr <> snd k /\ sess tr' (fst k, addr) = Some x) /\
  (forall tr', trace open_decode upd_apply c acts = EReset :: tr' ->
     r_nbrs st = [] /\ forall rd v6, table st rd v6 = []).
Proof. exact nothing_remains. Qed.
Print Assumptions C28_nothing_remains.
