(* C11 - Add-path identifiers are unique per prefix and never exhausted spuriously.
   Only statements here; proofs live in Proofs/{PathIDsProofs,PathIDsInv,AroIDsProofs,AroIDsCount}.v.

   All theorems quantify over: any type P of export policies with any evaluation function `apply`
   (P -> prefix -> path -> accepted path or reject), any session s with add-path send (eBGP, eBGP
   route-server client, iBGP, iBGP route-reflector client, any peer role), any initial policy c and any
   history `ops` of AddPath / RemovePath / ReplaceFilterChain calls (Model.AdjRIBOut.op) - in particular
   the call streams a Loc-RIB produces for the session as a client. *)
From Coq Require Import List NArith.
Import ListNotations.
From BioVerif Require Import Model.PathIDs Model.AdjRIBOut Spec.AroIDsSpec
  Proofs.AroIDsProofs Proofs.AroIDsCount.

(* Any two paths held by the Adj-RIB-Out (for one prefix or for two) that carry the same path
   identifier are the same announcement: two different paths advertised for a prefix carry different ids. *)
Theorem C11_ids_unique :
  forall (P : Type) (apply : P -> N -> path -> option path) (s : sess),
  s_addpath s = true ->
  forall (c : P) (ops : list (op P)) pfx1 pfx2 r1 b1 r2 b2,
  let a := run P apply s c ops in
  In (pfx1, PBgp r1 b1) (tbl a) -> In (pfx2, PBgp r2 b2) (tbl a) ->
  b_pid b1 = b_pid b2 -> same_announcement b1 b2.
Proof. exact ids_unique. Qed.
Print Assumptions C11_ids_unique.

(* What the table holds is what the clients (the update sender) were told: every stored path is a BGP
   path that was announced for that prefix exactly as stored, identifier included. *)
Theorem C11_table_is_announced :
  forall (P : Type) (apply : P -> N -> path -> option path) (s : sess),
  s_addpath s = true ->
  forall (c : P) (ops : list (op P)) pfx p,
  let a := run P apply s c ops in
  In (pfx, p) (tbl a) -> (exists r b, p = PBgp r b) /\ In (Announce pfx p) (elog a).
Proof. exact table_announced. Qed.
Print Assumptions C11_table_is_announced.

(* A withdrawal carries the identifier its path was announced with: every Withdraw the clients see was
   preceded (elog is newest first) by an Announce of exactly that path - attributes and identifier -
   for the same prefix ... *)
Theorem C11_withdraw_id :
  forall (P : Type) (apply : P -> N -> path -> option path) (s : sess),
  s_addpath s = true ->
  forall (c : P) (ops : list (op P)) l1 l2 pfx w,
  elog (run P apply s c ops) = l1 ++ Withdraw pfx w :: l2 -> In (Announce pfx w) l2.
Proof. exact withdraw_id. Qed.
Print Assumptions C11_withdraw_id.

(* ... and the path withdrawn is the stored announcement of the path whose removal was requested (the
   same path in the sense of Path.Compare, with the identifier the Adj-RIB-Out assigned). *)
Theorem C11_withdraw_is_of_requested_path :
  forall (P : Type) (s : sess),
  s_addpath s = true ->
  forall (a a' : aro P) pfx p,
  remove_exported P s a pfx p = (a', true) -> Inv P a ->
  exists sp, In (pfx, sp) (tbl a) /\ is_announcement_of sp p = true /\
             elog a' = Withdraw pfx sp :: elog a.
Proof. exact withdraw_matches. Qed.
Print Assumptions C11_withdraw_is_of_requested_path.

(* The in-use counter is exactly the number of distinct announcements stored (invariant
   used = |ids in use|), the identifier search always terminates, and whenever fewer than 2^32-1
   identifiers are in use an allocation - for a known or a new announcement k - succeeds. *)
Theorem C11_no_spurious_exhaustion :
  forall (P : Type) (apply : P -> N -> path -> option path) (s : sess),
  s_addpath s = true ->
  forall (c : P) (ops : list (op P)) (k : hkey),
  let a := run P apply s c ops in
  used (pm a) = N.of_nat (ids_in_use (tbl a)) /\
  diverged a = false /\
  (N.lt (N.of_nat (ids_in_use (tbl a))) max32 ->
   exists m' i, pid_add hkey hkey_eq_dec k (pm a) = (m', AddOk i)).
Proof.
  intros P apply s Hap c ops k a.
  split; [exact (proj2 (used_exact P apply s Hap c ops))|].
  exact (no_spurious_exhaustion P apply s Hap c ops k).
Qed.
Print Assumptions C11_no_spurious_exhaustion.

(* Non-vacuity: an iBGP add-path session; the same path for two prefixes shares identifier 1, a path
   differing only in OTC gets identifier 2, and after both prefixes withdrew the shared path a new
   announcement still gets an identifier (the pre-fix code answered "out of path IDs" here). *)
Definition ex_sess : sess := mkSess true false false true 65000 16843009 33686018 9 false 0.
Definition ex_b (otc med : N) : bgp :=
  mkBgp 50529027 50529027 100 med 50529027 0 None true false 0 otc [(true, [65001%N])] 1 None None None [] 0.
Definition ex_ops : list (op chain) :=
  [OAdd 0 (PBgp 0 (ex_b 0 0)); OAdd 1 (PBgp 0 (ex_b 0 0)); OAdd 0 (PBgp 0 (ex_b 5 0));
   ORemove 0 (PBgp 0 (ex_b 0 0)); ORemove 1 (PBgp 0 (ex_b 0 0)); OAdd 1 (PBgp 0 (ex_b 0 7))]%N.

Example C11_example :
  let a := run chain interp ex_sess [] ex_ops in
  map (fun e => (fst e, match snd e with PBgp _ b => b_pid b | _ => 0%N end)) (tbl a) = [(0, 2); (1, 3)]%N /\
  used (pm a) = 2%N /\ errs a = 0%N /\ length (elog a) = 6%nat.
Proof. vm_compute. repeat split. Qed.
