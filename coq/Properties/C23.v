(* C23 - The session state machine refines the RFC 4271 FSM model.
   Only statements here; proofs live in Proofs/FSMProofs.v.
   Model: Model/FSM.v ([step] = one event as fsm.run() processes it); specification:
   Spec/RFC4271FSM.v ([spec_step]: RFC 4271 state diagram + the three coupling requirements). *)
From Coq Require Import List NArith Bool.
Import ListNotations.
From BioVerif Require Import Model.FSM Spec.RFC4271FSM Proofs.FSMProofs Proofs.FSMSysProofs.
Local Open Scope N_scope.

(* For every configuration and EVERY finite sequence of administrative events, connection events,
   received transmissions (well-formed or not) and timer expiries, the sequence of states the session
   goes through is a behaviour of the abstract RFC 4271 machine: each step is an edge of the RFC state
   diagram, attachment changes through Init/Uninit only and holds exactly in Established, UPDATEs are
   processed only in Established, leaving OpenSent/OpenConfirm/Established for Idle (or being
   destroyed) closes the connection, and nothing panics. *)
Theorem C23_refines : forall (c : cfg) (es : list ev),
  spec_trace (abs (init_sess c)) (snd (run c (init_sess c) es)) (abs (final c es)).
Proof. exact refines. Qed.
Print Assumptions C23_refines.

(* The three requirements, stated directly on the model for all event sequences. *)
Theorem C23_attached_iff_established : forall (c : cfg) (es : list ev),
  s_att (final c es) = true <-> s_st (final c es) = Established.
Proof. exact attached_iff_established. Qed.
Print Assumptions C23_attached_iff_established.

Theorem C23_updates_only_in_established : forall (c : cfg) (es : list ev) (e : ev) (ann wd : list N),
  In (ProcessedUpdate ann wd) (snd (step c (final c es) e)) ->
  s_st (final c es) = Established /\ s_st (fst (step c (final c es) e)) = Established.
Proof. exact updates_only_in_established. Qed.
Print Assumptions C23_updates_only_in_established.

Theorem C23_down_closes : forall (c : cfg) (es : list ev) (e : ev),
  in_session (s_st (final c es)) = true ->
  is_down (s_st (fst (step c (final c es) e))) = true ->
  In Closed (snd (step c (final c es) e)) /\ s_conn (fst (step c (final c es) e)) = ConnClosed.
Proof. exact down_closes. Qed.
Print Assumptions C23_down_closes.

Theorem C23_no_crash : forall (c : cfg) (es : list ev) (e : ev),
  ~ In Crash (snd (step c (final c es) e)).
Proof. exact no_crash. Qed.
Print Assumptions C23_no_crash.

(* "Attached" is about what the Loc-RIB holds, whatever import policy was in force when the session came
   up: replacing the import policy of an attached session (bgpServer.ReplaceImportFilterChain) makes the
   Loc-RIB hold exactly what the new policy makes of the eligible paths of its Adj-RIB-In. *)
Theorem C23_policy_replacement_reattaches : forall (y : sys) (i : nat) (c : cfg) (s : sess) (p : import_policy),
  nth_sess (y_sess y) i = Some (c, s) -> s_st s <> Ceased -> s_att s = true -> c_v4 c = true ->
  FSMSysProofs.rib_of (fst (sys_step y i (EReplaceImport p))) (N.of_nat i) =
  flat_map (fun rid => if is_hidden (y_hidden y) (N.of_nat i) rid then [] else imported p (N.of_nat i) rid)
           (FSMSysProofs.adjin_of y (N.of_nat i)).
Proof. exact FSMSysProofs.replacement_reattaches. Qed.
Print Assumptions C23_policy_replacement_reattaches.

(* Non-vacuity: an eBGP session that is established, receives an UPDATE and then a message with a
   damaged marker: it is Established and attached before, Idle, detached and closed afterwards,
   having sent NOTIFICATION 1/1. *)
Definition ex_cfg : cfg :=
  {| c_las := 65001; c_pas := 65002; c_rid := 10; c_hold := 90; c_v4 := true; c_v6 := true;
     c_apr4 := false; c_aps4 := false; c_apr6 := false; c_aps6 := false; c_mp4 := false; c_nx4 := false;
     c_role := 0; c_strict := false; c_rr := false; c_cluster := 0; c_imp := ImpAccept; c_passive := false |}.
Definition ex_open : open_msg :=
  {| o_ver := 4; o_asn := 65002; o_hold := 30; o_id := 7; o_caps := [CapASN4 65002; CapMP 2 1] |}.
Definition ex_up : list ev :=
  [EAdmin 1; ETcpUp false; EMsg (MOpen ex_open); EMsg MKeepalive; EMsg (MUpdate [1; 2] [])].

Example C23_example_established :
  s_st (final ex_cfg ex_up) = Established /\ s_att (final ex_cfg ex_up) = true /\
  n_hold (s_neg (final ex_cfg ex_up)) = 30.
Proof. repeat split; reflexivity. Qed.

Example C23_example_decode_error :
  snd (step ex_cfg (final ex_cfg ex_up) (EMsg (MHeader false 19 4 0))) = [SentNotification 1 1; Uninit; Closed] /\
  s_st (fst (step ex_cfg (final ex_cfg ex_up) (EMsg (MHeader false 19 4 0)))) = Idle /\
  s_att (fst (step ex_cfg (final ex_cfg ex_up) (EMsg (MHeader false 19 4 0)))) = false.
Proof. repeat split; vm_compute; reflexivity. Qed.
