(* C36 - Configuration reload converges to the new configuration.
   Only statements here; proofs live in Proofs/ReconfProofs.v. *)
From Coq Require Import List NArith PArith Bool.
Import ListNotations.
From BioVerif Require Import Model.Reconf Spec.ReconfSpec Proofs.ReconfProofs.
Local Open Scope N_scope.

(* The statement of the property for every daemon life: start with c1, reload cs one after the
   other (files that are rejected, that make the configurator fail half-way, anything), then
   reload c. Whenever a fresh start with c works, the reload works too and leaves the same
   sessions (same keys, same stored configuration, same effective settings and capabilities,
   same policies in the configuration, in the peer and in its FSM).
   As the property is worded (no condition on c) this is false: ... *)
Theorem C36_reload_converges_refuted :
  ~ (forall c1 cs c s f,
        run c1 cs = Some s -> fresh c = Some (Applied f) ->
        exists s', reload s c = Applied s' /\ same_sessions s' f).
Proof. exact reload_converges_any_router_id_refuted. Qed.
Print Assumptions C36_reload_converges_refuted.

(* ... the BGP server keeps the router id of the start configuration (known finding), so the
   guard is: the new file has the router id the daemon was started with. Under that guard the
   statement holds for all configuration sequences. *)
Theorem C36_reload_converges_partial : forall c1 cs c s f,
  run c1 cs = Some s -> c_rid c = c_rid c1 -> fresh c = Some (Applied f) ->
  exists s', reload s c = Applied s' /\ same_sessions s' f.
Proof. exact reload_converges. Qed.
Print Assumptions C36_reload_converges_partial.

(* The same as equality of the sets of (key, session) pairs of the two servers. *)
Theorem C36_reload_same_session_set_partial : forall c1 cs c s f,
  run c1 cs = Some s -> c_rid c = c_rid c1 -> fresh c = Some (Applied f) ->
  exists s', reload s c = Applied s' /\
             forall k p, In (k, p) (s_peers s') <-> In (k, p) (s_peers f).
Proof. exact reload_same_set. Qed.
Print Assumptions C36_reload_same_session_set_partial.

(* Without any guard: after a successful reload the server holds, for every key, exactly the
   session the new file asks for (built from the last neighbor entry with that key, with the
   settings inherited from its group) and nothing for the other keys: removed neighbors are
   removed, added ones are added, every changed setting is in effect. *)
Theorem C36_reload_takes_effect : forall c1 cs c l s s',
  run c1 cs = Some s -> load c = Some l -> reload s c = Applied s' ->
  forall k, lookup k (s_peers s') = wanted (c_rid c1) (s_vrfs s') (l_nbrs l) k.
Proof. exact reload_takes_effect. Qed.
Print Assumptions C36_reload_takes_effect.

(* Non-vacuity: group g (local address, ttl 5, import policy 7 -> content 3) with neighbors .2
   (overrides ttl 9, passive) and .3; then a file that drops .3, changes the ttl of .2, enables
   add-path receive on it and empties the import policy. *)
Definition ex_a (id : N) : addr := {| a_v4 := true; a_id := id |}.
Definition ex_n (id ttl : N) (passive : option bool) (v4 : option afconf) : neighbor :=
  {| n_addr := ex_a id; n_local := None; n_disabled := false; n_ttl := ttl; n_auth := 0;
     n_pas := 65200; n_las := 0; n_hold := 0; n_import := []; n_export := []; n_rsc := None;
     n_rrc := None; n_passive := passive; n_cluster := None; n_v4 := v4; n_v6 := None;
     n_mp4 := false; n_ri := None |}.
Definition ex_g (imp : list pname) (ns : list neighbor) : group :=
  {| g_local := Some (ex_a 1); g_ttl := 5; g_auth := 0; g_pas := 0; g_las := 0; g_hold := 0;
     g_import := imp; g_export := []; g_rsc := None; g_rrc := None; g_passive := None;
     g_cluster := None; g_v4 := None; g_v6 := None; g_ri := None; g_neighbors := ns |}.
Definition ex_c (gs : list group) : config :=
  {| c_as := 65100; c_rid := 1; c_policies := [(7, 3)]; c_ris := []; c_groups := Some gs |}.
Definition ex_c1 := ex_c [ex_g [7] [ex_n 2 9 (Some true) None; ex_n 3 0 None None]].
Definition ex_c2 := ex_c [ex_g [] [ex_n 2 4 (Some true)
   (Some {| af_addpath := Some {| ap_recv := true; ap_send := None |}; af_nhx := false |})]].

Example C36_example_run :
  exists s f s',
    run ex_c1 [] = Some s /\ length (s_peers s) = 2%nat /\
    fresh ex_c2 = Some (Applied f) /\ reload s ex_c2 = Applied s' /\
    s_peers s' = s_peers f /\
    option_map (fun p => (p_ttl p, p_import p, p_caps p)) (lookup (VDefault, ex_a 2) (s_peers s'))
      = Some (4, [0], [CapAddPath 1 1; CapASN4 65100]) /\
    lookup (VDefault, ex_a 3) (s_peers s') = None /\
    option_map (fun p => (p_ttl p, p_import p, p_fsm p)) (lookup (VDefault, ex_a 3) (s_peers s))
      = Some (5, [3], Some ([3], [0])).
Proof. vm_compute. repeat eexists. Qed.
