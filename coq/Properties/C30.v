(* C30 - IS-IS PDU decoding is total and encoding round-trips.
   Only statements here; the model is Model/ISISCodec.v (protocols/isis/packet), the guards [wf_*]
   and the expected contents [norm_*] are Spec/ISISCodecSpec.v, proofs are Proofs/ISISCodecProofs.v. *)
From Coq Require Import List NArith ZArith Permutation.
Import ListNotations.
From BioVerif Require Import Model.ISISCodec Spec.ISISCodecSpec Proofs.ISISCodecProofs.
Open Scope N_scope.

(* The loops of the decoders (readTLVs, area addresses, LSP entries) terminate: any fuel above the
   number of input bytes yields the result of packet.Decode, which is never "out of fuel". *)
Theorem C30_fuel_suffices : forall (b : list N) (f : nat), (length b < f)%nat ->
  decode_fuel f b = decode b /\ decode b <> OutOfFuel.
Proof. exact fuel_suffices. Qed.
Print Assumptions C30_fuel_suffices.

(* packet.Decode returns a PDU or an error for every byte string: no index or slice is out of range. *)
Theorem C30_no_panic : forall b : list N, decode b <> Panic.
Proof. exact no_panic. Qed.
Print Assumptions C30_no_panic.

(* The same for the exported packet.DecodeL2Hello, which packet.Decode does not dispatch to. *)
Theorem C30_no_panic_l2hello : forall b : list N, decode_l2 b <> Panic /\ decode_l2 b <> OutOfFuel.
Proof. exact no_panic_l2_total. Qed.
Print Assumptions C30_no_panic_l2hello.

(* Round trips: LLC ++ ISISHeader.Serialize ++ body.Serialize decodes to the same header and the
   same body content, for every PDU value whose TLV length fields say what is serialized. *)
Theorem C30_roundtrip_hello : forall (llc : list N) (h : header) (x : hello),
  length llc = 3%nat -> h_type h = 17 -> wf_hello x ->
  decode (enc_packet llc (mkPacket h (BHello x))) = Ok (mkPacket h (BHello (norm_hello x))).
Proof. exact roundtrip_hello. Qed.
Print Assumptions C30_roundtrip_hello.

Theorem C30_roundtrip_lsp : forall (llc : list N) (h : header) (x : lsp),
  length llc = 3%nat -> h_type h = 20 -> wf_lsp x ->
  decode (enc_packet llc (mkPacket h (BLsp x))) = Ok (mkPacket h (BLsp (norm_lsp x))).
Proof. exact roundtrip_lsp. Qed.
Print Assumptions C30_roundtrip_lsp.

Theorem C30_roundtrip_csnp : forall (llc : list N) (h : header) (x : csnp),
  length llc = 3%nat -> h_type h = 25 -> wf_csnp x ->
  decode (enc_packet llc (mkPacket h (BCsnp x))) = Ok (mkPacket h (BCsnp (norm_csnp x))).
Proof. exact roundtrip_csnp. Qed.
Print Assumptions C30_roundtrip_csnp.

Theorem C30_roundtrip_psnp : forall (llc : list N) (h : header) (x : psnp),
  length llc = 3%nat -> h_type h = 27 -> wf_psnp x ->
  decode (enc_packet llc (mkPacket h (BPsnp x))) = Ok (mkPacket h (BPsnp (norm_psnp x))).
Proof. exact roundtrip_psnp. Qed.
Print Assumptions C30_roundtrip_psnp.

(* NewCSNPs / NewPSNPs, for any number of LSP entries and any maxPDULen: no panic (no slice or index
   out of range, no bad make), every PDU built decodes back to itself, and - as soon as one entry
   fits into a PDU - the PDUs carry exactly the given entries (CSNPs: sorted by LSP ID: system id,
   pseudonode id, LSP number; PSNPs: in the given order). *)
Theorem C30_new_csnps : forall (src : list N) (es : list lspentry) (maxlen : Z) (llc : list N) (h : header),
  len_is src 7 -> Forall wf_entry es -> length llc = 3%nat -> h_type h = 25 ->
  exists cs, new_csnps src es maxlen = Ok cs /\
    Forall (fun c => decode (enc_packet llc (mkPacket h (BCsnp c))) = Ok (mkPacket h (BCsnp c))) cs /\
    ((1 <= entries_per_pdu (maxlen - 33))%Z ->
       concat (map csnp_entries cs) = sort_entries es /\ Permutation (sort_entries es) es).
Proof. exact new_csnps_roundtrip. Qed.
Print Assumptions C30_new_csnps.

Theorem C30_new_psnps : forall (src : list N) (es : list lspentry) (maxlen : Z) (llc : list N) (h : header),
  len_is src 7 -> Forall wf_entry es -> length llc = 3%nat -> h_type h = 27 ->
  exists ps, new_psnps src es maxlen = Ok ps /\
    Forall (fun p => decode (enc_packet llc (mkPacket h (BPsnp p))) = Ok (mkPacket h (BPsnp p))) ps /\
    ((1 <= entries_per_pdu (maxlen - 17))%Z -> concat (map psnp_entries ps) = es).
Proof. exact new_psnps_roundtrip. Qed.
Print Assumptions C30_new_psnps.

(* The TLV constructors compute TLVLength in uint8: as long as the content needs at most 255 value bytes
   the TLV they return is well-formed, i.e. by the round trip theorems a PDU carrying it decodes back. *)
Theorem C30_constructors_wf :
  (forall areas, N.of_nat (length (concat (map enc_area areas))) < 256 -> wf_tlv (new_area_tlv areas)) /\
  (forall nm, N.of_nat (length nm) < 256 -> wf_tlv (new_dynhost_tlv nm)) /\
  (forall ids, N.of_nat (length ids) < 256 -> wf_tlv (new_proto_tlv ids)) /\
  (forall addrs, Forall u32 addrs -> 4 * N.of_nat (length addrs) < 256 -> wf_tlv (new_ipif_tlv addrs)) /\
  (forall es, Forall wf_entry es -> 16 * N.of_nat (length es) < 256 -> wf_tlv (new_entries_tlv es)) /\
  (forall st ecid, u32 ecid -> wf_tlv (new_p2padj_tlv st ecid)) /\
  (forall len, len < 256 -> wf_tlv (new_padding_tlv len)) /\
  (forall a, wf_tlv (new_terid_tlv a)) /\
  (forall specs : list (list N * N * list subtlv),
     Forall (fun s => match s with (id, _, subs) =>
       len_is id 7 /\ Forall sub_ok subs /\ N.of_nat (length (concat (map enc_sub subs))) < 256 end) specs ->
     let ns := map (fun s => match s with (id, m, subs) => new_extis_nbr id m subs end) specs in
     N.of_nat (length (concat (map enc_extisnbr ns))) < 256 -> wf_tlv (new_extis_tlv ns)) /\
  (forall rs : list (N * N * N),
     N.of_nat (length (concat (map enc_extip (map (fun r => match r with (m, p, a) => mkExtIp m p a [] end) rs)))) < 256 ->
     wf_tlv (new_extip_tlv rs)).
Proof. exact ctors_wf. Qed.
Print Assumptions C30_constructors_wf.

(* the limit is real: 29 /32 prefixes need 261 value bytes, the length byte says 5 *)
Example C30_example_extip_overflow :
  tlv_len (new_extip_tlv (repeat (10, 32, 167772161) 29)) = 5 /\
  length (tlv_value (new_extip_tlv (repeat (10, 32, 167772161) 29))) = 261%nat.
Proof. vm_compute. split; reflexivity. Qed.

(* ---- non-vacuity *)

Definition ex_llc : list N := [254; 254; 3].
Definition ex_entry (k : N) : lspentry := mkEntry 1200 [0; 0; 0; 0; 0; k; 0; 0] 7 4660.

(* a hello as the server builds it plus TLVs without a decoder: the hypotheses of the round trip hold
   and the decoder returns the padding and the extended reachability TLVs as unknown TLVs *)
Definition ex_hello : hello :=
  mkHello 2 [1; 2; 3; 4; 5; 6] 27 0 1
    [TP2PAdj 240 15 0 7 [6; 5; 4; 3; 2; 1] 9; TProto 129 2 [204; 142]; TIPIf 132 4 [167772161];
     TArea 1 4 [[73; 0; 1]]; TPadding 8 3 [0; 0; 0];
     TExtIP 135 8 [mkExtIp 10 24 167772160 []]].

Example C30_example_hello_wf : wf_hello ex_hello.
Proof.
  unfold wf_hello, ex_hello, len_is, u16; cbn. repeat split; try reflexivity.
  repeat (apply Forall_cons;
    [unfold wf_tlv, wf_raw, u8, u16, u32, len_is; cbn; repeat split; try reflexivity;
     try (right; repeat split; reflexivity); repeat constructor|]).
  apply Forall_nil.
Qed.

Example C30_example_hello_roundtrip :
  decode (enc_packet ex_llc (mkPacket (hdr_of 17) (BHello ex_hello))) =
  Ok (mkPacket (hdr_of 17) (BHello (mkHello 2 [1; 2; 3; 4; 5; 6] 27 68 1
    [TP2PAdj 240 15 0 7 [6; 5; 4; 3; 2; 1] 9; TProto 129 2 [204; 142]; TIPIf 132 4 [167772161];
     TArea 1 4 [[73; 0; 1]]; TUnknown 8 3 [0; 0; 0]; TUnknown 135 8 [0; 0; 0; 10; 24; 10; 0; 0]]))).
Proof. vm_compute. reflexivity. Qed.

(* the guard is needed: 16 LSP entries in one TLV (what NewCSNPs produced before the repair, the
   length byte is uint8(16)*16 = 0) cannot be decoded *)
Example C30_example_16_entries_not_representable :
  decode (enc_packet ex_llc (mkPacket (hdr_of 25)
    (BCsnp (mkCsnp 35 [1; 2; 3; 4; 5; 6; 0] zero8 ff8 [new_entries_tlv (map ex_entry
       [1; 2; 3; 4; 5; 6; 7; 8; 9; 10; 11; 12; 13; 14; 15; 16])])))) = Err.
Proof. vm_compute. reflexivity. Qed.

(* 17 entries, room for 16 per PDU (293 = 33 + 242 + 2 + 16): two CSNPs, the first with two LSP entries TLVs *)
Example C30_example_new_csnps :
  match new_csnps [1; 2; 3; 4; 5; 6; 0] (map ex_entry [17; 1; 2; 3; 4; 5; 6; 7; 8; 9; 10; 11; 12; 13; 14; 15; 16]) 293 with
  | Ok [c1; c2] => map tlv_len (cs_tlvs c1) = [240; 16] /\ map tlv_len (cs_tlvs c2) = [16] /\
                   cs_start c1 = zero8 /\ cs_end c1 = [0; 0; 0; 0; 0; 16; 0; 0] /\ cs_end c2 = ff8 /\
                   cs_len c1 = 293 /\ cs_len c2 = 51
  | _ => False
  end.
Proof. vm_compute. repeat split; reflexivity. Qed.
