(* placeholder while the proofs are being written *)
From BioVerif Require Import Model.ISISCodec.
