(* Server-level wiring (shared by C04 C06 C07 C08 C09 C10 C11 C12): statements only.
   Model: Model/ServerWiring.v (peer map, per-peer stored chains / cluster id, FSM lists, VRF reference counters,
   registrations at the Loc-RIB); proofs: Proofs/ServerWiringProofs.v. All statements quantify over every event
   history (AddPeer / Inbound / Establish / Down / Replace{Import,Export} / Dispose in any order, any length). *)
From Coq Require Import List Arith Bool Permutation.
From BioVerif Require Import Model.ServerWiring Proofs.ServerWiringProofs.
Import ListNotations.

(* DisposePeer after any history: the peer is gone from the peer map; no registration (Adj-RIB-In / Adj-RIB-Out at the
   Loc-RIB) of any of its FSMs and families is left; nothing is registered that was not registered before; and the
   contributing-ASN / cluster-id counters of the VRFs are exactly those of the registrations that remain (its own
   contribution is withdrawn, everybody else's is kept). *)
Theorem Wiring_dispose_removes_everything : forall evs id p,
  find_peer id (peers (run evs)) = Some p ->
  let s' := step (run evs) (Dispose id) in
  find_peer id (peers s') = None /\
  (forall m a r, In m (p_fsms p) -> In r (regs s') -> reg_is id (m_id m) a r = false) /\
  (forall r, In r (regs s') -> In r (regs (run evs))) /\
  Permutation (asn_bag s') (map r_asn (regs s')) /\
  Permutation (cl_bag s') (map r_cl (regs s')).
Proof. exact dispose_removes_everything. Qed.
Print Assumptions Wiring_dispose_removes_everything.

(* Whenever an FSM was created (before or after any number of chain replacements), its families run the effective form
   of the chains currently configured for the peer (the empty chain = reject all). *)
Theorem Wiring_later_fsm_uses_current_chains : forall evs id p m,
  find_peer id (peers (run evs)) = Some p -> In m (p_fsms p) ->
  forall f, (m_f4 m = Some f \/ m_f6 m = Some f) ->
  f_imp f = effective (c_imp (p_cfg p)) /\ f_exp f = effective (c_exp (p_cfg p)).
Proof. exact later_fsm_uses_current_chains. Qed.
Print Assumptions Wiring_later_fsm_uses_current_chains.

(* A route reflector client peer without a configured cluster id runs with the router id as cluster id. *)
Theorem Wiring_default_cluster_id_is_router_id : forall evs id p,
  find_peer id (peers (run evs)) = Some p -> c_rrc (p_cfg p) = true ->
  p_cluster p = effective_cluster (p_cfg p).
Proof. exact default_cluster_id_is_router_id. Qed.
Print Assumptions Wiring_default_cluster_id_is_router_id.

(* An FSM that is not Established has NO family attached - IPv4-only, IPv6-only or dual. *)
Theorem Wiring_all_families_disposed : forall evs id p m,
  find_peer id (peers (run evs)) = Some p -> In m (p_fsms p) -> m_est m = false ->
  attached (m_f4 m) = false /\ attached (m_f6 m) = false.
Proof. exact all_families_disposed. Qed.
Print Assumptions Wiring_all_families_disposed.

(* ---- the hypotheses are satisfiable on non-trivial states *)
Definition ex_cfg (id : nat) (has4 has6 rr : bool) : peer_cfg :=
  {| c_id := id; c_vrf := 0; c_las := 650; c_router_id := 11; c_rrc := rr; c_cluster := 0;
     c_has4 := has4; c_has6 := has6; c_imp := CAccept; c_exp := CAccept |}.

(* an IPv6-only route reflector client: export chain emptied BEFORE its FSM exists, established, flapped *)
Definition ex_hist : list event :=
  [AddPeer (ex_cfg 1 false true true); AddPeer (ex_cfg 2 true false false);
   ReplaceExport 1 CEmpty; Inbound 1; Inbound 2; Establish 1 0; Establish 2 0; Down 1 0; Establish 1 0].

Example ex_later_fsm_rejects :
  match find_peer 1 (peers (run ex_hist)) with
  | Some p => map (fun m => option_map f_exp (m_f6 m)) (p_fsms p) = [Some CReject] /\ p_cluster p = 11
  | None => False
  end.
Proof. vm_compute. split; reflexivity. Qed.

Example ex_contributions :
  contributing_asn (run ex_hist) 0 650 = true /\
  contributing_cluster (run ex_hist) 0 11 = true /\
  length (regs (run ex_hist)) = 2.
Proof. vm_compute. repeat split; reflexivity. Qed.

(* disposing peer 1 keeps the ASN contribution of peer 2 (same VRF, same local ASN) and drops the cluster id *)
Example ex_dispose_keeps_the_other :
  let s := step (run ex_hist) (Dispose 1) in
  contributing_asn s 0 650 = true /\ contributing_cluster s 0 11 = false /\
  length (regs s) = 1 /\ length (peers s) = 1.
Proof. vm_compute. repeat split; reflexivity. Qed.

Example ex_flap_detaches_v6_only :
  let s := fold_left step [Down 1 0] (run ex_hist) in
  length (regs s) = 1 /\ contributing_cluster s 0 11 = false.
Proof. vm_compute. split; reflexivity. Qed.
