(* C34 - API route conversion preserves what the API carries.
   Only statements here; proofs live in Proofs/APIConvProofs.v.

   to_proto = Route.ToProto, from_proto = RouteFromProtoRoute, roundtrip = from_proto after to_proto
   (Model/APIConv.v; Panic = nil dereference).  wf_route (Spec/APIConvSpec.v): the prefix is there,
   every path is a static path with its next hop or a BGP path with its attribute block, next hop
   and source; uint8 fields hold uint8 values; AS path segments are sets or sequences. *)
From Coq Require Import List NArith Bool.
Import ListNotations.
From BioVerif Require Import Model.APIConv Spec.APIConvSpec Proofs.APIConvProofs.
Open Scope N_scope.

(* The conversion to the API and back does not panic and preserves the prefix, the type of every
   path (their number and order too), the next hop of a static path, and for a BGP path every
   attribute of bgp_agree: next hop, LOCAL_PREF, AS_PATH, ORIGIN, MED, eBGP flag, BGP identifier,
   source, communities, large communities, ORIGINATOR_ID, CLUSTER_LIST, unknown attributes,
   path identifier, post-policy flag, OTC (a nil list and an empty list are the same value). *)
Theorem C34_roundtrip : forall r, wf_route r ->
  exists r', roundtrip r = Ok r' /\ r_pfx r' = r_pfx r /\ Forall2 path_agree (r_paths r) (r_paths r').
Proof. exact roundtrip_fields. Qed.
Print Assumptions C34_roundtrip.

(* "A hidden path is never reported as visible", full statement: REFUTED on the code as it is.
   Path.ToProto has no case for hidden reasons without an API name (7 = HiddenReasonEmptyASPath);
   the API message says HiddenReasonNone and the path comes back visible (known finding
   hidden-reason-without-api-name-reported-visible). *)
Definition ex_ip : ip := mkIP 0 167772161 true.
Definition ex_hidden7 : route :=
  mkR (Some (mkPfx (mkIP 0 167772160 true) 8))
      [mkPath BGPPathType 0 7 0 None
         (Some (mkB (Some (mkA (Some ex_ip) (Some ex_ip) 100 0 1 0 None true false 0 0))
                    (Some []) None None None [] 0 0 false))].
Theorem C34_hidden_stays_hidden_refuted :
  exists r, wf_route r /\ exists ar r', to_proto r = Ok ar /\ from_proto ar = Ok r' /\
    Forall hidden (r_paths r) /\ Forall (fun ap => ~ api_hidden ap) (ar_paths ar) /\
    Forall (fun p' => ~ hidden p') (r_paths r').
Proof.
  exists ex_hidden7. split.
  - exists (mkPfx (mkIP 0 167772160 true) 8). split; [reflexivity|]. split; [reflexivity|].
    constructor; [|constructor]. split; [reflexivity|]. split; [exact I|]. right. split; [reflexivity|].
    eexists. split; [reflexivity|]. exists (mkA (Some ex_ip) (Some ex_ip) 100 0 1 0 None true false 0 0), ex_ip, ex_ip.
    repeat split; constructor.
  - eexists. eexists. split; [reflexivity|]. split; [reflexivity|].
    repeat split; constructor; try constructor; cbn; unfold hidden, api_hidden; cbn; try discriminate; tauto.
Qed.
Print Assumptions C34_hidden_stays_hidden_refuted.

(* ... and holds with the exact guard: for every path whose hidden reason the API names
   (HiddenReasonNone .. HiddenReasonOTCMismatch) the API message is hidden iff the path is, and the
   path comes back with the same reason. *)
Theorem C34_hidden_stays_hidden_partial : forall r, wf_route r ->
  exists ar r', to_proto r = Ok ar /\ from_proto ar = Ok r' /\
    Forall2 (fun p ap => reason_named p -> (hidden p <-> api_hidden ap)) (r_paths r) (ar_paths ar) /\
    Forall2 (fun p p' => reason_named p -> p_hidden p' = p_hidden p) (r_paths r) (r_paths r').
Proof. exact hidden_stays_hidden_named. Qed.
Print Assumptions C34_hidden_stays_hidden_partial.

(* The defect is exactly that: every path with an unnamed reason is reported and returned visible. *)
Theorem C34_unnamed_reason_reported_visible : forall r, wf_route r ->
  exists ar r', to_proto r = Ok ar /\ from_proto ar = Ok r' /\
    Forall2 (fun p ap => ~ reason_named p -> ~ api_hidden ap) (r_paths r) (ar_paths ar) /\
    Forall2 (fun p p' => ~ reason_named p -> ~ hidden p') (r_paths r) (r_paths r').
Proof. exact hidden_unnamed_reported_visible. Qed.
Print Assumptions C34_unnamed_reason_reported_visible.

(* The way back alone never un-hides: any non-zero hidden_reason in an API message gives a hidden path. *)
Theorem C34_api_hidden_comes_back_hidden : forall h, hidden_from_proto h = 0 <-> h = 0.
Proof. exact hidden_from_proto_zero. Qed.
Print Assumptions C34_api_hidden_comes_back_hidden.

(* A visible path is never reported as hidden. *)
Theorem C34_visible_stays_visible : forall r, wf_route r ->
  exists r', roundtrip r = Ok r' /\
    Forall2 (fun p p' => ~ hidden p -> ~ hidden p') (r_paths r) (r_paths r').
Proof. exact visible_stays_visible. Qed.
Print Assumptions C34_visible_stays_visible.

(* ---- histories.  RouteFromProtoRoute(.., dedup = true) sends every attribute block through the
   process-wide cache of route/bgp_path_cache.go, so a conversion could depend on what was converted
   before.  run_history h l (Model/APIConv.v) converts the routes of l one after the other, each
   with its own dedup flag, starting in the process state h (heap_ok: every address stored in the
   cache has been allocated - the initial state, and any state reached by conversions or by other
   users of the cache). *)

(* In the code as it is the cache cannot hit on this way (its key contains the freshly allocated
   NextHop/Source pointers): every conversion of every history returns exactly what it returns alone. *)
Theorem C34_history_independent : forall l h, heap_ok h ->
  run_history h l = map (fun rd => roundtrip (fst rd)) l.
Proof. exact run_history_stateless. Qed.
Print Assumptions C34_history_independent.

(* The round trip holds for every conversion in any history, with dedup on or off. *)
Theorem C34_roundtrip_history : forall l h, heap_ok h -> Forall (fun rd => wf_route (fst rd)) l ->
  Forall2 (fun rd res => exists r', res = Ok r' /\ r_pfx r' = r_pfx (fst rd) /\
                                    Forall2 path_agree (r_paths (fst rd)) (r_paths r') /\
                                    Forall2 (fun p p' => reason_named p -> p_hidden p' = p_hidden p)
                                            (r_paths (fst rd)) (r_paths r'))
          l (run_history h l).
Proof. exact roundtrip_history. Qed.
Print Assumptions C34_roundtrip_history.

Example C34_example_heap : heap_ok empty_heap.
Proof. exact heap_ok_empty. Qed.

(* ---- non-vacuity: a route with a static path and a BGP path that uses every field *)
Definition ex_bgp : bgp_path :=
  mkB (Some (mkA (Some ex_ip) (Some (mkIP 42540766411282592856903984951653826560 1 false))
                 200 50 3232235777 3232235778 (Some (65000, 1)) true true 2 64512))
      (Some [mkSeg ASSequence [65001; 65002]; mkSeg ASSet [65003; 65004]; mkSeg ASSequence []])
      (Some [1; 2]) (Some [4259840100]) (Some [mkLC 65000 1 2]) 
      [mkUA true true false 200 [1; 2; 3]; mkUA true false true 201 []]
      7 3 true.
Definition ex_route : route :=
  mkR (Some (mkPfx (mkIP 0 167772160 true) 8))
      [mkPath StaticPathType 2 0 11 (Some (mkS (Some ex_ip))) None;
       mkPath BGPPathType 0 3 99 None (Some ex_bgp);
       mkPath BGPPathType 0 0 0 None
         (Some (mkB (Some (mkA (Some ex_ip) (Some ex_ip) 0 0 0 0 None false false 0 0))
                    None (Some []) (Some []) None [] 0 0 false))].

Example C34_example_roundtrip :
  roundtrip ex_route =
  Ok (mkR (Some (mkPfx (mkIP 0 167772160 true) 8))
      [mkPath StaticPathType 0 0 0 (Some (mkS (Some ex_ip))) None;
       mkPath BGPPathType 0 3 0 None
         (Some (mkB (Some (mkA (Some ex_ip) (Some (mkIP 42540766411282592856903984951653826560 1 false))
                               200 50 3232235777 3232235778 None true false 2 64512))
                    (Some [mkSeg ASSequence [65001; 65002]; mkSeg ASSet [65003; 65004]; mkSeg ASSequence []])
                    (Some [1; 2]) (Some [4259840100]) (Some [mkLC 65000 1 2])
                    [mkUA true true false 200 [1; 2; 3]; mkUA true false true 201 []]
                    7 3 true));
       mkPath BGPPathType 0 0 0 None
         (Some (mkB (Some (mkA (Some ex_ip) (Some ex_ip) 0 0 0 0 None false false 0 0))
                    (Some []) None None None [] 0 0 false))]).
Proof. vm_compute. reflexivity. Qed.

Example C34_example_wf : wf_route ex_route.
Proof.
  exists (mkPfx (mkIP 0 167772160 true) 8). split; [reflexivity|]. split; [reflexivity|].
  constructor; [|constructor; [|constructor; [|constructor]]].
  - split; [reflexivity|]. split; [cbn; discriminate|]. left. split; [reflexivity|discriminate].
  - split; [reflexivity|]. split; [exact I|]. right. split; [reflexivity|].
    exists ex_bgp. split; [reflexivity|]. unfold wf_bgp, ex_bgp. cbn.
    do 3 eexists. split; [reflexivity|]. split; [reflexivity|]. split; [reflexivity|].
    split; [reflexivity|]. split.
    + constructor; [right; reflexivity|]. constructor; [left; reflexivity|].
      constructor; [right; reflexivity|constructor].
    + constructor; [reflexivity|]. constructor; [reflexivity|constructor].
  - split; [reflexivity|]. split; [exact I|]. right. split; [reflexivity|].
    eexists. split; [reflexivity|]. unfold wf_bgp. cbn.
    do 3 eexists. split; [reflexivity|]. split; [reflexivity|]. split; [reflexivity|].
    split; [reflexivity|]. split; constructor.
Qed.

(* two routes that differ in the MED only, converted one after the other with dedup = true *)
Definition ex_med (m : N) : route :=
  mkR (Some (mkPfx (mkIP 0 167772160 true) 8))
      [mkPath BGPPathType 0 0 0 None
         (Some (mkB (Some (mkA (Some ex_ip) (Some ex_ip) 100 m 1 0 None true false 0 0))
                    (Some []) None None None [] 0 0 false))].
Example C34_example_history :
  run_history empty_heap [(ex_med 17, true); (ex_med 0, true); (ex_med 4000000000, true)] =
  [Ok (ex_med 17); Ok (ex_med 0); Ok (ex_med 4000000000)].
Proof. vm_compute. reflexivity. Qed.
