(* C12 - Replacing a policy converges to the new policy's result.
   Only statements here; proofs live in Proofs/ReplaceProofs.v, ReplaceCorollary.v, ImportReplaceProofs.v.

   Export side: Model.AdjRIBOut.replace_chain = AdjRIBOut.ReplaceFilterChain with the Loc-RIB's RefreshClient
   (after the fixes 678760d8, a6e11f38, 532f0aba, a95945b3).  Import side: Model.ImportReplace.replace_in =
   AdjRIBIn.ReplaceFilterChain acting on the Loc-RIB through AddPath / RemovePath / ReplacePath.  Policies are
   arbitrary functions; the skip test is filter.Chain.Equal on the policy language (chain_eqb). *)
From Coq Require Import List NArith Permutation.
Import ListNotations.
From BioVerif Require Import Model.PathIDs Model.AdjRIBOut Model.LocView Model.ImportReplace
  Spec.ExportViewSpec Spec.ReplaceSpec
  Proofs.AroIDsProofs Proofs.ReplaceProofs Proofs.ReplaceCorollary Proofs.ImportReplaceProofs Proofs.FamilyProofs.
Local Open Scope N_scope.

(* ---- export side *)

(* Whenever a session's Adj-RIB-Out holds the export view of the Loc-RIB under the old policy c (and, on
   add-path sessions, the C11 invariant - both are what C08/C11 establish for reachable states), replacing the
   policy by n turns it into the export view under n - for every session kind, rewriting ones and
   redistributed static routes included - under the guards rguards (Spec/ReplaceSpec.v: duplicate-free view;
   on add-path sessions old and new exports of different paths are Compare-distinct; Compare-equal old and new
   export of one path are equal). *)
Theorem C12_replace_converges_export :
  forall (P : Type) (apply : P -> N -> path -> option path) (s : sess) (c n : P) (v : view) (a : aro P),
  rguards (apply c) (apply n) s v ->
  cur a = c -> (s_addpath s = true -> Inv P a) ->
  ribout_is_export_view (apply c) s v a ->
  errs (replace_chain P apply s a n v) = errs a ->
  ribout_is_export_view (apply n) s v (replace_chain P apply s a n v) /\
  cur (replace_chain P apply s a n v) = n.
Proof. exact replace_converges. Qed.
Print Assumptions C12_replace_converges_export.

(* ... hence, after any Loc-RIB history meeting the C08 guards for both policies: establish with c, feed h,
   replace by n = establish with n, feed h (tables equal per prefix as multisets, path ids aside) *)
Theorem C12_replace_converges :
  forall (P : Type) (apply : P -> N -> path -> option path) (s : sess) (c n : P) (h : list (N * list path)),
  guards (apply c) s h -> guards (apply n) s h ->
  let stc := feed P apply s c h in
  let stn := feed P apply s n h in
  rguards (apply c) (apply n) s (fst stc) ->
  errs (snd stc) = 0 -> errs (snd stn) = 0 ->
  let a' := replace_chain P apply s (snd stc) n (fst stc) in
  errs a' = 0 ->
  cur a' = n /\
  forall pfx, Permutation (map (norm s) (tbl_get pfx (tbl a'))) (map (norm s) (tbl_get pfx (tbl (snd stn)))).
Proof. exact replace_converges_history. Qed.
Print Assumptions C12_replace_converges.

(* ---- import side *)

(* The Loc-RIB l holds what a session established with the old import policy fc announced for the Adj-RIB-In
   r, next to the paths `other` of other sources.  After ReplaceFilterChain it holds what a session established
   with fn would have announced, next to the same other paths - under iguards: eligible paths of a prefix differ
   in (source, path id), the policies keep both, other sources differ, Compare-equal outputs are equal. *)
Theorem C12_replace_converges_import :
  forall (fc fn : N -> path -> option path) (r : rin) (other : loc),
  iguards fc fn r other ->
  forall l : loc,
  Permutation l (other ++ establish fc r) ->
  Permutation (replace_in fc fn r l) (other ++ establish fn r).
Proof. exact import_replace_converges. Qed.
Print Assumptions C12_replace_converges_import.

(* ---- never skipped *)

(* fsmAddressFamily.replace{Import,Export}FilterChain return without doing anything iff Chain.Equal(new, old).
   Chains that are Equal treat every route alike; so if some route is treated differently the replacement is
   carried out. *)
Theorem C12_never_skipped : forall c d,
  chain_eqb c d = true -> forall pfx p, interp c pfx p = interp d pfx p.
Proof. exact chain_eqb_sound. Qed.
Print Assumptions C12_never_skipped.

Theorem C12_never_skipped_contrapositive : forall c d pfx p,
  interp c pfx p <> interp d pfx p -> chain_eqb c d = false.
Proof.
  intros c d pfx p H. destruct (chain_eqb c d) eqn:E; [|reflexivity].
  exfalso. apply H. now apply chain_eqb_sound.
Qed.
Print Assumptions C12_never_skipped_contrapositive.

(* ---- the fsm's entry points, skip test included (Model.ImportReplace.fam_replace_{export,import} =
   fsmAddressFamily.replace{Export,Import}FilterChain: do nothing iff the new chain Equals the current chain of
   the SAME direction).  With or without the shortcut the tables end up as the new policy demands, and the
   session afterwards filters like the new chain. *)
Theorem C12_family_export_converges :
  forall (s : sess) (f : family) (a : aro chain) (c : chain) (v : view),
  fam_up f = true ->
  rguards (interp (fam_exp f)) (interp c) s v ->
  cur a = fam_exp f -> (s_addpath s = true -> Inv chain a) ->
  ribout_is_export_view (interp (fam_exp f)) s v a ->
  let x' := fam_replace_export s (f, a) c v in
  errs (snd x') = errs a ->
  ribout_is_export_view (interp c) s v (snd x') /\
  (forall pfx p, interp (fam_exp (fst x')) pfx p = interp c pfx p) /\
  (forall pfx p, interp (cur (snd x')) pfx p = interp c pfx p).
Proof. exact family_export_converges. Qed.
Print Assumptions C12_family_export_converges.

Theorem C12_family_import_converges :
  forall (f : family) (r : rin) (other l : loc) (c : chain),
  fam_up f = true ->
  iguards (interp (fam_imp f)) (interp c) r other ->
  Permutation l (other ++ establish (interp (fam_imp f)) r) ->
  let x' := fam_replace_import (f, l) r c in
  Permutation (snd x') (other ++ establish (interp c) r) /\
  (forall pfx p, interp (fam_imp (fst x')) pfx p = interp c pfx p).
Proof. exact family_import_converges. Qed.
Print Assumptions C12_family_import_converges.

(* Established or not, a replacement is stored: afterwards the address family holds chains that filter like
   the new ones (a session that is down has no tables to touch) ... *)
Theorem C12_family_replace_stores :
  forall (s : sess) (f : family) (a : aro chain) (l : loc) (r : rin) (c : chain) (v : view),
  (forall pfx p, interp (fam_exp (fst (fam_replace_export s (f, a) c v))) pfx p = interp c pfx p) /\
  (forall pfx p, interp (fam_imp (fst (fam_replace_import (f, l) r c))) pfx p = interp c pfx p) /\
  fam_up (fst (fam_replace_export s (f, a) c v)) = fam_up f /\
  fam_up (fst (fam_replace_import (f, l) r c)) = fam_up f /\
  (fam_up f = false -> snd (fam_replace_export s (f, a) c v) = a /\ snd (fam_replace_import (f, l) r c) = l).
Proof. exact family_replace_stores. Qed.
Print Assumptions C12_family_replace_stores.

(* ... init() builds the Adj-RIB-Out from the stored chain and the Loc-RIB's initial dump: the export view
   under that chain (C08 guards on the dump) ... *)
Theorem C12_family_init_converges :
  forall (s : sess) (f : family) (v : view),
  guards (interp (fam_exp f)) s v -> NoDup (map fst v) ->
  let x' := fam_init_export s f v in
  errs (snd x') = 0 ->
  ribout_is_export_view (interp (fam_exp f)) s (fst (feed chain interp s (fam_exp f) v)) (snd x') /\
  fam_up (fst x') = true /\ cur (snd x') = fam_exp f.
Proof. exact family_init_converges. Qed.
Print Assumptions C12_family_init_converges.

(* ... so a replacement that arrives while the session is down (before the first establishment, or between
   dispose() and the next init(), any number of times) is not lost: the session that comes up next holds
   the export view under the NEW policy *)
Theorem C12_family_down_replace_then_init :
  forall (s : sess) (f : family) (a : aro chain) (c : chain) (v0 v : view),
  let f' := fst (fam_replace_export s (f, a) c v0) in
  guards (interp (fam_exp f')) s v -> NoDup (map fst v) ->
  let x' := fam_init_export s f' v in
  errs (snd x') = 0 ->
  forall pfx, Permutation (map (norm s) (tbl_get pfx (tbl (snd x'))))
                          (map (norm s) (export_view (interp c) s pfx
                                           (view_get pfx (fst (feed chain interp s (fam_exp f') v))))).
Proof. exact family_down_replace_then_init. Qed.
Print Assumptions C12_family_down_replace_then_init.

(* either nothing happened - which by the two theorems above is right - or the new chain is installed *)
Theorem C12_never_skipped_family : forall s f a c v,
  fam_replace_export s (f, a) c v = (f, a) \/ fam_exp (fst (fam_replace_export s (f, a) c v)) = c.
Proof. exact family_never_skipped_export. Qed.
Print Assumptions C12_never_skipped_family.

(* Non-vacuity: an eBGP session (prepend, next-hop-self); the policy changes the prepended ASN only (the case
   the pre-fix code ignored): the table follows. *)
Definition ex_s : sess := mkSess false false false false 65000 16843009 33686018 9 false 0.
Definition ex_p : path :=
  PBgp 0 (mkBgp 50529027 50529027 100 0 50529027 0 None true false 0 0 [(true, [65001])] 1 None None None [] 0).
Definition ex_old : chain := [[mkTerm [] [APrepend 64999 1; AAccept]]].
Definition ex_new : chain := [[mkTerm [] [APrepend 64998 1; AAccept]]].

Example C12_example :
  chain_eqb ex_old ex_new = false /\
  let a := run chain interp ex_s ex_old [OAdd 0 ex_p] in
  let a' := replace_chain chain interp ex_s a ex_new [(0, [ex_p])] in
  map (fun e => match snd e with PBgp _ b => b_aspath b | _ => [] end) (tbl a) = [[(true, [64999; 65000; 65001])]] /\
  map (fun e => match snd e with PBgp _ b => b_aspath b | _ => [] end) (tbl a') = [[(true, [64998; 65000; 65001])]] /\
  tbl a' = tbl (run chain interp ex_s ex_new [OAdd 0 ex_p]).
Proof. vm_compute. repeat split. Qed.
