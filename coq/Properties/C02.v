(* C02 - Best-path and ECMP selection do not depend on arrival order; the preference relation is a
   total preorder. Only statements here; proofs live in Proofs/PathSelProofs.v.
   [embed w] is the Go *Path of a well-formed static or BGP path w; [sort_admits l o] says that o is a
   result sort.Slice may return for l (a permutation in which no element is `less` than its
   predecessor - nothing more is assumed; the sort is not stable). *)
From Coq Require Import List NArith ZArith Sorting.Permutation Sorting.Sorted.
Import ListNotations.
From BioVerif Require Import Model.PathSel Spec.PathSelSpec Proofs.PathSelProofs Gen.SelectGen Proofs.SelectGenEquiv.
Open Scope N_scope.

(* ---- the preference relation is a total preorder *)
Theorem C02_antisym : forall a b z,
  path_select (embed a) (embed b) = Ok z -> path_select (embed b) (embed a) = Ok (- z)%Z.
Proof. exact select_antisym. Qed.
Print Assumptions C02_antisym.

Theorem C02_trans : forall a b c, strictly_prefers a b -> strictly_prefers b c -> strictly_prefers a c.
Proof. exact select_trans. Qed.
Print Assumptions C02_trans.

Theorem C02_total_preorder :
  (forall a b, prefers a b \/ prefers b a) /\
  (forall a b c, prefers a b -> prefers b c -> prefers a c).
Proof. split; [exact prefers_total | exact prefers_trans]. Qed.
Print Assumptions C02_total_preorder.

(* ---- the same on the per-protocol functions regenerated from the Go source on this run
   (Gen/SelectGen.v; path_select_gen = the hand-modelled dispatcher over the generated BGPPath.Select /
   StaticPath.Select, Proofs/SelectGenEquiv.v) *)
Theorem C02_total_preorder_gen :
  (forall a b, prefers_gen a b \/ prefers_gen b a) /\
  (forall a b c, prefers_gen a b -> prefers_gen b c -> prefers_gen a c).
Proof. exact total_preorder_gen. Qed.
Print Assumptions C02_total_preorder_gen.

(* ties are reported exactly between paths the decision process cannot distinguish *)
Theorem C02_tie_iff_key_eq : forall a b, tied a b <-> key_of a = key_of b.
Proof. exact tie_iff_key_eq. Qed.
Print Assumptions C02_tie_iff_key_eq.

(* hence the `less` handed to sort.Slice is a strict weak order (irreflexive, transitive,
   incomparability transitive), which is what sort.Slice requires *)
Theorem C02_less_strict_weak_order :
  (forall a, less (embed a) (embed a) = Ok false) /\
  (forall a b c, less (embed a) (embed b) = Ok true -> less (embed b) (embed c) = Ok true ->
                 less (embed a) (embed c) = Ok true) /\
  (forall a b c, less (embed a) (embed b) = Ok false -> less (embed b) (embed a) = Ok false ->
                 less (embed b) (embed c) = Ok false -> less (embed c) (embed b) = Ok false ->
                 less (embed a) (embed c) = Ok false /\ less (embed c) (embed a) = Ok false).
Proof. exact less_strict_weak_order. Qed.
Print Assumptions C02_less_strict_weak_order.

(* ---- order independence: whatever order the candidates are in when PathSelection runs and
   whichever admissible result the sort returns: same key list, same best path, same ECMP count
   (no panic), same ECMP set - up to paths the decision process cannot distinguish *)
Theorem C02_order_independent : forall (c1 c2 : list wpath) (o1 o2 : list path),
  Permutation c1 c2 ->
  sort_admits (map embed c1) o1 -> sort_admits (map embed c2) o2 ->
  map pkey o1 = map pkey o2 /\
  option_map pkey (best o1) = option_map pkey (best o2) /\
  (exists n, ecmp_count o1 = Ok n /\ ecmp_count o2 = Ok n) /\
  map pkey (ecmp_set o1) = map pkey (ecmp_set o2).
Proof. exact order_independent. Qed.
Print Assumptions C02_order_independent.

(* ---- the same for whole histories of LocRIB.AddPath / RemovePath on a prefix (a sort after every
   operation, any admissible result each time): two histories that leave the same multiset of
   candidates end in the same selection *)
Theorem C02_history_independent : forall (h1 h2 : list wop) (s1 s2 : list path),
  runs [] (map embed_op h1) s1 -> runs [] (map embed_op h2) s2 ->
  Permutation (bag h1) (bag h2) ->
  map pkey s1 = map pkey s2 /\
  option_map pkey (best s1) = option_map pkey (best s2) /\
  (exists n, ecmp_count s1 = Ok n /\ ecmp_count s2 = Ok n) /\
  map pkey (ecmp_set s1) = map pkey (ecmp_set s2).
Proof. exact history_independent. Qed.
Print Assumptions C02_history_independent.

(* the path list after a history is a sorted arrangement of exactly the remaining candidates *)
Theorem C02_history_state : forall (h : list wop) (s : list path),
  runs [] (map embed_op h) s ->
  exists ws, s = map embed ws /\ Permutation (bag h) ws /\ Sorted not_less_than_pred s.
Proof. exact history_state. Qed.
Print Assumptions C02_history_state.

(* ---- ECMP: a function of the keys, and never a panic on static/BGP paths, mixed or not *)
Theorem C02_ecmp_is_key : forall a b,
  path_ecmp (embed a) (embed b) = Ok (ecmp_key (key_of a) (key_of b)).
Proof. exact ecmp_is_key. Qed.
Print Assumptions C02_ecmp_is_key.

Theorem C02_ecmp_total : forall ws : list wpath, exists n, ecmp_count (map embed ws) = Ok n.
Proof. exact ecmp_total. Qed.
Print Assumptions C02_ecmp_total.

(* the ECMP set is exactly the candidates that are equal-cost with the best path (same protocol and,
   for BGP, same LOCAL_PREF, AS_PATH length, ORIGIN, MED) - a function of the candidate multiset *)
Theorem C02_ecmp_set_exact : forall (c : list wpath) (o : list path) (b : wpath),
  sort_admits (map embed c) o -> best o = Some (embed b) ->
  ecmp_count o = Ok (N.of_nat (length (filter (equal_cost b) c))).
Proof. exact ecmp_set_exact. Qed.
Print Assumptions C02_ecmp_set_exact.

(* ---- the hypotheses are satisfiable: the executable insertion sort of the model is admissible, and
   every history has a run *)
Theorem C02_sort_hypothesis_satisfiable : forall c, sort_admits (map embed c) (isort (map embed c)).
Proof. exact isort_admits. Qed.
Print Assumptions C02_sort_hypothesis_satisfiable.

Theorem C02_every_history_runs : forall (h : list wop) (c : list wpath),
  exists s, run_exec (map embed c) (map embed_op h) = Ok s /\ runs (map embed c) (map embed_op h) s.
Proof. exact run_exec_runs. Qed.
Print Assumptions C02_every_history_runs.

(* Non-vacuity: three iBGP paths, one without CLUSTER_LIST (the shape that was cyclic before the
   repair), a static path next to them; both insertion orders end in the same selection. *)
Definition ex_bgp (bid : N) (cl : option (list N)) (peer : N) : wpath :=
  WBGP (mkbgp 100 2 0 0 false bid 0 cl (mkip 0 peer) (mkip 0 9) 0 0).
Definition ex_static : wpath := WStatic (mkstatic (mkip 0 1)).

Example C02_example_mixed :
  let a := ex_bgp 1 (Some [7; 8]) 3 in let b := ex_bgp 1 None 2 in let c := ex_bgp 1 (Some [7]) 1 in
  run_exec [] (map embed_op [WAdd a; WAdd b; WAdd c; WAdd ex_static]) = Ok (map embed [b; c; a; ex_static]) /\
  run_exec [] (map embed_op [WAdd ex_static; WAdd c; WAdd a; WAdd b]) = Ok (map embed [b; c; a; ex_static]) /\
  ecmp_count (map embed [b; c; a; ex_static]) = Ok 3.
Proof. repeat split. Qed.
