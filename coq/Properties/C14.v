(* C14 - Policy evaluation agrees with a reference interpreter; chains that compare equal behave
   identically.  Only statements here; proofs live in Proofs/Policy{Bits,Proofs,Sim,Equal}.v.

   Model.Policy.process is Chain.Process on a store of path cells (Path.Copy allocates,
   as-path-prepend mutates in place), Model.Policy.chain_equal is Chain.Equal,
   Spec.PolicyRef.chain_ref is the reference interpreter on path values with bit-level matchers. *)
From Coq Require Import List NArith Bool.
Import ListNotations.
From BioVerif Require Import Model.Policy Spec.PolicyRef Proofs.PolicySim Proofs.PolicyEqual.
Local Open Scope N_scope.

(* For every chain, every pattern environment, every prefix (IPv4 or IPv6, any length up to the
   family's width), every store and every pointer to a path: Chain.Process does not panic, returns
   the reference interpreter's verdict and rewritten path, in a cell that did not exist before, and
   leaves every cell of the caller (in particular the input path) unchanged.
   Well-formedness = representation invariants: address words in range, lengths within the
   family's width and no host bits (net.Prefix.Valid) for the patterns and the prefix; a BGP path
   has its BGPPathA block. *)
Theorem C14_process_ref : forall (env : penv) (c : chain) (p : prefix) (st : store) (r : nat) (v : path),
  chain_wfb env c = true -> prefix_wfb p = true -> path_wfb v = true ->
  nth_error st r = Some v ->
  exists st' r',
    process env c p st r = Ok (st', r', snd (chain_ref env c p v)) /\
    nth_error st' r' = Some (fst (chain_ref env c p v)) /\
    (length st <= r')%nat /\
    (forall k, (k < length st)%nat -> nth_error st' k = nth_error st k).
Proof. exact process_ref. Qed.
Print Assumptions C14_process_ref.

(* No chain, prefix (well-formed or not) or pattern makes Chain.Process dereference nil on a path
   whose BGP part (if any) has its BGPPathA block. *)
Theorem C14_no_panic : forall (env : penv) (c : chain) (p : prefix) (st : store) (r : nat) (v : path),
  path_wfb v = true -> nth_error st r = Some v -> process env c p st r <> Panic.
Proof. exact no_panic. Qed.
Print Assumptions C14_no_panic.

(* Two chains that compare Equal produce identical outcomes (verdict, rewritten path, store
   effects, panics) on every input, for every pattern environment. *)
Theorem C14_equal_sound : forall c d : chain,
  chain_equal c d = true ->
  forall (env : penv) (p : prefix) (st : store) (r : nat), process env c p st r = process env d p st r.
Proof. exact equal_sound. Qed.
Print Assumptions C14_equal_sound.

(* Chain.Equal is exactly structural equality of the chains (route filter patterns by pointer). *)
Theorem C14_equal_exact : forall c d : chain, chain_equal c d = true <-> c = d.
Proof. exact chain_equal_eq. Qed.
Print Assumptions C14_equal_exact.

(* The word-level matchers are the bit-level ones on well-formed prefixes. *)
Theorem C14_matchers_on_bits : forall (m : matcher) (pat p : prefix),
  prefix_wfb pat = true -> prefix_wfb p = true -> matcher_match m pat p = m_ref m pat p.
Proof. exact PolicyBits.matcher_ok. Qed.
Print Assumptions C14_matchers_on_bits.

(* ---- non-vacuity *)

Definition ex_env : penv := fun i =>
  match i with
  | 0 => mkPfx (mkIP false 2306139568115548160 0) 48                (* 2001:db8:0::/48 *)
  | 1 => mkPfx (mkIP false 2306139568115548160 9223372036854775808) 65   (* 2001:db8::8000:0:0:0/65 *)
  | _ => mkPfx (mkIP true 0 167772160) 8                            (* 10.0.0.0/8 *)
  end.

Definition ex_chain : chain :=
  [ [ mkTerm [mkCond [] [mkRF 0 (MRange 56 64); mkRF 1 MOrLonger] [] [] [BGPPathType]]
             [ASetLocalPref 200; APrepend 65000 2] ;
      mkTerm [mkCond [mkPL [mkPfx (mkIP true 0 167772160) 8] MLonger] [] [65001] [] []] [AReject] ] ;
    [ mkTerm [] [ASetMED 7; AAccept] ] ].

Definition ex_path : path :=
  mkP BGPPathType (Some (mkB (Some (mkA 100 0 None)) (Some [(ASSet, [1; 2])]) 1 (Some [65001]) None)) None.

Example C14_example_wf :
  chain_wfb ex_env ex_chain = true /\ path_wfb ex_path = true /\
  prefix_wfb (mkPfx (mkIP false 2306139568115548160 9223372036854775808) 72) = true.
Proof. vm_compute. auto. Qed.

(* 2001:db8:0:0:8000::/72 is matched by the /65 or-longer filter (bits 33..65 matter): local-pref
   200, two prepends in a new AS_SEQUENCE in front of the AS_SET, then MED 7 and accept; the input
   cell is untouched *)
Example C14_example_v6 :
  process ex_env ex_chain (mkPfx (mkIP false 2306139568115548160 9223372036854775808) 72) [ex_path] 0 =
  Ok ([ex_path;
       mkP 2 (Some (mkB (Some (mkA 100 0 None)) (Some [(1, [1; 2])]) 1 (Some [65001]) None)) None;
       mkP 2 (Some (mkB (Some (mkA 200 0 None)) (Some [(2, [65000; 65000]); (1, [1; 2])]) 3 (Some [65001]) None)) None;
       mkP 2 (Some (mkB (Some (mkA 200 7 None)) (Some [(2, [65000; 65000]); (1, [1; 2])]) 3 (Some [65001]) None)) None],
      3%nat, false).
Proof. vm_compute. reflexivity. Qed.

(* 10.1.0.0/16 with community 65001 is rejected by the second term (prefix list 10/8 longer) *)
Example C14_example_v4_reject :
  exists st' r', process ex_env ex_chain (mkPfx (mkIP true 0 167837696) 16) [ex_path] 0 = Ok (st', r', true).
Proof. vm_compute. eauto. Qed.

Example C14_example_equal :
  chain_equal ex_chain ex_chain = true /\
  chain_equal ex_chain [ [ mkTerm [] [ASetMED 8; AAccept] ] ] = false.
Proof. vm_compute. auto. Qed.
