(* C14 - Policy evaluation agrees with a reference interpreter; chains that compare equal behave
   identically.  Only statements here; proofs live in Proofs/Policy{Bits,Proofs,Sim,Equal}.v.

   Model.Policy.process is Chain.Process on a store of path cells (Path.Copy allocates,
   as-path-prepend mutates in place), Model.Policy.chain_equal is Chain.Equal,
   Spec.PolicyRef.chain_ref is the reference interpreter on path values with bit-level matchers. *)
From Coq Require Import List NArith Bool.
Import ListNotations.
From BioVerif Require Import Model.Policy Model.PolicyNet Model.PolicyConfig Spec.PolicyRef Spec.PolicyConfigSpec.
From BioVerif Require Import Proofs.PolicySim Proofs.PolicyEqual Proofs.PolicyNetLink Proofs.PolicyConfigProofs.
From BioVerif Require Model.NetArith Gen.NetGen.
Local Open Scope N_scope.

(* For every chain, every pattern environment, every prefix (IPv4 or IPv6, any length up to the
   family's width), every store and every pointer to a path: Chain.Process does not panic, returns
   the reference interpreter's verdict and rewritten path, in a cell that did not exist before, and
   leaves every cell of the caller (in particular the input path) unchanged.
   Well-formedness = representation invariants: address words in range, lengths within the
   family's width and no host bits (net.Prefix.Valid) for the patterns and the prefix; a BGP path
   has its BGPPathA block. *)
Theorem C14_process_ref : forall (env : penv) (c : chain) (p : prefix) (st : store) (r : nat) (v : path),
  chain_wfb env c = true -> prefix_wfb p = true -> path_wfb v = true ->
  nth_error st r = Some v ->
  exists st' r',
    process env c p st r = Ok (st', r', snd (chain_ref env c p v)) /\
    nth_error st' r' = Some (fst (chain_ref env c p v)) /\
    (length st <= r')%nat /\
    (forall k, (k < length st)%nat -> nth_error st' k = nth_error st k).
Proof. exact process_ref. Qed.
Print Assumptions C14_process_ref.

(* No chain, prefix (well-formed or not) or pattern makes Chain.Process dereference nil on a path
   whose BGP part (if any) has its BGPPathA block. *)
Theorem C14_no_panic : forall (env : penv) (c : chain) (p : prefix) (st : store) (r : nat) (v : path),
  path_wfb v = true -> nth_error st r = Some v -> process env c p st r <> Panic.
Proof. exact no_panic. Qed.
Print Assumptions C14_no_panic.

(* Two chains that compare Equal produce identical outcomes (verdict, rewritten path, store
   effects, panics) on every input, for every pattern environment. *)
Theorem C14_equal_sound : forall c d : chain,
  chain_equal c d = true ->
  forall (env : penv) (p : prefix) (st : store) (r : nat), process env c p st r = process env d p st r.
Proof. exact equal_sound. Qed.
Print Assumptions C14_equal_sound.

(* Chain.Equal is exactly structural equality of the chains (route filter patterns by pointer). *)
Theorem C14_equal_exact : forall c d : chain, chain_equal c d = true <-> c = d.
Proof. exact chain_equal_eq. Qed.
Print Assumptions C14_equal_exact.

(* The word-level matchers are the bit-level ones on well-formed prefixes. *)
Theorem C14_matchers_on_bits : forall (m : matcher) (pat p : prefix),
  prefix_wfb pat = true -> prefix_wfb p = true -> matcher_match m pat p = m_ref m pat p.
Proof. exact PolicyBits.matcher_ok. Qed.
Print Assumptions C14_matchers_on_bits.

(* ---- link to the net package as REGENERATED from the Go source (Gen/NetGen.v, C15's translator) *)

(* Policy.v's own transcription of Prefix.Equal / Prefix.Contains is, for all words and lengths,
   C15's hand-written model and the functions generated from net/prefix.go, net/ip.go; the engine
   instantiated with the generated functions is the engine that is extracted and run. *)
Theorem C14_net_link :
  (forall p x, pfx_equal p x = NetArith.pfx_equal (to_net_pfx p) (to_net_pfx x)) /\
  (forall p x, pfx_contains p x = NetArith.Contains (to_net_pfx p) (to_net_pfx x)) /\
  (forall p x, pfx_equal p x = NetGen.g_Prefix_Equal (to_net_pfx p) (to_net_pfx x)) /\
  (forall p x, pfx_contains p x = NetGen.g_Prefix_Contains (to_net_pfx p) (to_net_pfx x)) /\
  (forall env c p st r, process_gen env c p st r = process env c p st r).
Proof.
  repeat split.
  - exact equal_link.
  - exact contains_link.
  - intros p x. symmetry. exact (gen_equal_link p x).
  - intros p x. symmetry. exact (gen_contains_link p x).
  - exact process_gen_is_process.
Qed.
Print Assumptions C14_net_link.

(* C14_process_ref restated for Chain.Process with the route-filter / prefix-list matchers computed
   by the regenerated net.Prefix.Equal / Contains: a source change of those functions changes
   Gen/NetGen.v and breaks this obligation. *)
Theorem C14_process_ref_on_generated_net :
  forall (env : penv) (c : chain) (p : prefix) (st : store) (r : nat) (v : path),
  chain_wfb env c = true -> prefix_wfb p = true -> path_wfb v = true ->
  nth_error st r = Some v ->
  exists st' r',
    process_gen env c p st r = Ok (st', r', snd (chain_ref env c p v)) /\
    nth_error st' r' = Some (fst (chain_ref env c p v)) /\
    (length st <= r')%nat /\
    (forall k, (k < length st)%nat -> nth_error st' k = nth_error st k).
Proof. exact process_ref_gen. Qed.
Print Assumptions C14_process_ref_on_generated_net.

(* ---- configuration front end (cmd/bio-rd/config/policy.go, bgp.go) *)

(* Whenever the loader accepts a configuration, the import (imp = true) and export chain it attaches
   to the neighbor evaluate, under Chain.Process, to the documented meaning of the policy
   statements named by the neighbor (or inherited from its group): statements in the order listed,
   terms in order, a term applies when it has no route filter or any matches, reject first, then
   local-pref / MED / prepend / next hop, then accept. *)
Theorem C14_config_chain_semantics : forall (cf : cfg) (ci ce : chain),
  load_cfg cf = Some (ci, ce) ->
  forall (imp : bool) (env : penv) (p : prefix) (st : store) (r : nat) (v : path),
    let c := if imp then ci else ce in
    let names := if imp then import_names cf else export_names cf in
    chain_wfb env c = true -> prefix_wfb p = true -> path_wfb v = true -> nth_error st r = Some v ->
    exists st' r',
      process env c p st r = Ok (st', r', snd (policy_ref env (cfg_stmts cf) names p v)) /\
      nth_error st' r' = Some (fst (policy_ref env (cfg_stmts cf) names p v)) /\
      (length st <= r')%nat /\
      (forall k, (k < length st)%nat -> nth_error st' k = nth_error st k).
Proof. exact config_chain_semantics. Qed.
Print Assumptions C14_config_chain_semantics.

(* value level, without well-formedness: the chains mean what the configuration says *)
Theorem C14_config_chain_ref : forall (cf : cfg) (ci ce : chain),
  load_cfg cf = Some (ci, ce) ->
  forall env p a,
    chain_ref env ci p a = policy_ref env (cfg_stmts cf) (import_names cf) p a /\
    chain_ref env ce p a = policy_ref env (cfg_stmts cf) (export_names cf) p a.
Proof. exact load_cfg_ok. Qed.
Print Assumptions C14_config_chain_ref.

(* ---- non-vacuity *)

Definition ex_env : penv := fun i =>
  match i with
  | 0 => mkPfx (mkIP false 2306139568115548160 0) 48                (* 2001:db8:0::/48 *)
  | 1 => mkPfx (mkIP false 2306139568115548160 9223372036854775808) 65   (* 2001:db8::8000:0:0:0/65 *)
  | _ => mkPfx (mkIP true 0 167772160) 8                            (* 10.0.0.0/8 *)
  end.

Definition ex_chain : chain :=
  [ [ mkTerm [mkCond [] [mkRF 0 (MRange 56 64); mkRF 1 MOrLonger] [] [] [BGPPathType]]
             [ASetLocalPref 200; APrepend 65000 2] ;
      mkTerm [mkCond [mkPL [mkPfx (mkIP true 0 167772160) 8] MLonger] [] [65001] [] []] [AReject] ] ;
    [ mkTerm [] [ASetMED 7; AAccept] ] ].

Definition ex_path : path :=
  mkP BGPPathType (Some (mkB (Some (mkA 100 0 None)) (Some [(ASSet, [1; 2])]) 1 (Some [65001]) None)) None.

Example C14_example_wf :
  chain_wfb ex_env ex_chain = true /\ path_wfb ex_path = true /\
  prefix_wfb (mkPfx (mkIP false 2306139568115548160 9223372036854775808) 72) = true.
Proof. vm_compute. auto. Qed.

(* 2001:db8:0:0:8000::/72 is matched by the /65 or-longer filter (bits 33..65 matter): local-pref
   200, two prepends in a new AS_SEQUENCE in front of the AS_SET, then MED 7 and accept; the input
   cell is untouched *)
Example C14_example_v6 :
  process ex_env ex_chain (mkPfx (mkIP false 2306139568115548160 9223372036854775808) 72) [ex_path] 0 =
  Ok ([ex_path;
       mkP 2 (Some (mkB (Some (mkA 100 0 None)) (Some [(1, [1; 2])]) 1 (Some [65001]) None)) None;
       mkP 2 (Some (mkB (Some (mkA 200 0 None)) (Some [(2, [65000; 65000]); (1, [1; 2])]) 3 (Some [65001]) None)) None;
       mkP 2 (Some (mkB (Some (mkA 200 7 None)) (Some [(2, [65000; 65000]); (1, [1; 2])]) 3 (Some [65001]) None)) None],
      3%nat, false).
Proof. vm_compute. reflexivity. Qed.

(* 10.1.0.0/16 with community 65001 is rejected by the second term (prefix list 10/8 longer) *)
Example C14_example_v4_reject :
  exists st' r', process ex_env ex_chain (mkPfx (mkIP true 0 167837696) 16) [ex_path] 0 = Ok (st', r', true).
Proof. vm_compute. eauto. Qed.

Example C14_example_equal :
  chain_equal ex_chain ex_chain = true /\
  chain_equal ex_chain [ [ mkTerm [] [ASetMED 8; AAccept] ] ] = false.
Proof. vm_compute. auto. Qed.

(* a configuration: statement 7 = { term (10.0.0.0/8 orlonger | 2001:db8::/48 range 56-64): local-pref
   200, prepend 65000 x2, accept }, statement 9 = { reject }; the neighbor imports [7; 9], exports
   the group's [9] *)
Definition ex_cfg : cfg :=
  mkCfg [ mkCS 7 [ mkCT [mkCRF 2 true (Some MOrLonger); mkCRF 0 true (Some (MRange 56 64))]
                         (mkThen false (Some 200) None (Some (65000, 2)) None true) ];
          mkCS 9 [ mkCT [] (mkThen true (Some 1) None None None true) ] ]
        [] [9] [7; 9] [].

Example C14_example_config :
  match load_cfg ex_cfg with
  | Some (ci, ce) => chain_wfb ex_env ci && negb (is_nil ce)
  | None => false
  end = true /\
  snd (policy_ref ex_env (cfg_stmts ex_cfg) (import_names ex_cfg) (mkPfx (mkIP true 0 167837696) 16) ex_path) = false /\
  snd (policy_ref ex_env (cfg_stmts ex_cfg) (import_names ex_cfg) (mkPfx (mkIP true 0 3232235520) 16) ex_path) = true /\
  snd (policy_ref ex_env (cfg_stmts ex_cfg) (export_names ex_cfg) (mkPfx (mkIP true 0 167837696) 16) ex_path) = true /\
  load_cfg (mkCfg (cfg_stmts ex_cfg) [8] [] [] []) = None.
Proof. vm_compute. repeat split. Qed.
