(* C03 - Best-path tie-breaking follows RFC 4271 9.1.2.2 and RFC 4456 section 9.
   Only statements here; proofs live in Proofs/PathSelProofs.v. [bgp_select] / [path_select] are the
   model of route.BGPPath.Select / route.Path.Select (Model/PathSel.v), result 1 = the left path is
   preferred; [rfc_cmp] is the lexicographic comparison of the key of Spec/PathSelSpec.v. *)
From Coq Require Import List NArith ZArith.
Import ListNotations.
From BioVerif Require Import Model.PathSel Spec.PathSelSpec Proofs.PathSelProofs Gen.SelectGen Proofs.SelectGenEquiv.
Open Scope N_scope.

(* Select IS the RFC comparison: every decision step, its direction and its position. *)
Theorem C03_bgp_select_is_rfc : forall b c : bgp_path,
  bgp_select b c = rfc_cmp_bgp (bgp_key_of b) (bgp_key_of c).
Proof. exact bgp_select_is_rfc. Qed.
Print Assumptions C03_bgp_select_is_rfc.

(* ... through the dispatching Path.Select, for any two well-formed static/BGP paths (no panic) *)
Theorem C03_select_is_rfc : forall p q ka kb,
  pkey p = Some ka -> pkey q = Some kb -> path_select p q = Ok (rfc_cmp ka kb).
Proof. exact select_is_rfc_paths. Qed.
Print Assumptions C03_select_is_rfc.

(* The steps as the property lists them. Earlier steps: *)
Theorem C03_higher_local_pref : forall a b, lp b < lp a -> bgp_select a b = 1%Z.
Proof. exact step_local_pref. Qed.
Print Assumptions C03_higher_local_pref.

Theorem C03_shorter_as_path : forall a b, lp a = lp b -> aslen a < aslen b -> bgp_select a b = 1%Z.
Proof. exact step_as_path. Qed.
Print Assumptions C03_shorter_as_path.

Theorem C03_lower_origin : forall a b,
  lp a = lp b -> aslen a = aslen b -> origin a < origin b -> bgp_select a b = 1%Z.
Proof. exact step_origin. Qed.
Print Assumptions C03_lower_origin.

(* MED is compared whatever the neighbour AS is *)
Theorem C03_lower_med : forall a b,
  lp a = lp b -> aslen a = aslen b -> origin a = origin b -> med a < med b -> bgp_select a b = 1%Z.
Proof. exact step_med. Qed.
Print Assumptions C03_lower_med.

Theorem C03_ebgp_over_ibgp : forall a b,
  lp a = lp b -> aslen a = aslen b -> origin a = origin b -> med a = med b ->
  ebgp a = true -> ebgp b = false -> bgp_select a b = 1%Z.
Proof. exact step_ebgp. Qed.
Print Assumptions C03_ebgp_over_ibgp.

(* Equal up to and including the eBGP step: lowest BGP identifier, ORIGINATOR_ID in its place when present *)
Theorem C03_lowest_identifier : forall a b,
  same_upto_ebgp a b -> id' a < id' b -> bgp_select a b = 1%Z.
Proof. exact step_identifier. Qed.
Print Assumptions C03_lowest_identifier.

(* then the shorter CLUSTER_LIST (absent = length 0) *)
Theorem C03_shorter_cluster_list : forall a b,
  same_upto_ebgp a b -> id' a = id' b -> cluster_len a < cluster_len b -> bgp_select a b = 1%Z.
Proof. exact step_cluster_list. Qed.
Print Assumptions C03_shorter_cluster_list.

(* then the lowest peer address *)
Theorem C03_lowest_peer_address : forall a b,
  same_upto_ebgp a b -> id' a = id' b -> cluster_len a = cluster_len b ->
  ip_lt (src a) (src b) -> bgp_select a b = 1%Z.
Proof. exact step_peer_address. Qed.
Print Assumptions C03_lowest_peer_address.

(* both orderings: swapping the arguments flips the sign *)
Theorem C03_other_ordering : forall a b, bgp_select b a = (- bgp_select a b)%Z.
Proof. exact bgp_select_antisym. Qed.
Print Assumptions C03_other_ordering.

(* ---- the functions regenerated from the Go source on this run (Gen/SelectGen.v, tools/gosub2coq) ---- *)
Theorem C03_generated_select_agrees :
  (forall b c, g_BGPPath_Select b c = bgp_select b c) /\
  (forall b c, g_BGPPath_ECMP b c = bgp_ecmp b c) /\
  (forall b, g_BGPPath_clusterListLen b = cl_len b) /\
  (forall s t, g_StaticPath_Select s t = static_select s t) /\
  (forall s t, g_StaticPath_ECMP s t = static_ecmp s t) /\
  (forall a b, g_IP_Compare a b = ip_compare a b).
Proof. exact generated_select_agrees. Qed.
Print Assumptions C03_generated_select_agrees.

(* what route/bgp_path.go says NOW is the RFC comparison *)
Theorem C03_select_is_rfc_gen : forall b c : bgp_path,
  g_BGPPath_Select b c = rfc_cmp_bgp (bgp_key_of b) (bgp_key_of c).
Proof. exact bgp_select_gen_is_rfc. Qed.
Print Assumptions C03_select_is_rfc_gen.

(* Non-vacuity / readability: two iBGP paths reflected by route reflectors. *)
Definition ex_path (bid oid : N) (cl : option (list N)) (peer : N) : bgp_path :=
  mkbgp 100 2 0 0 false bid oid cl (mkip 0 peer) (mkip 0 9) 0 0.

Example C03_example_originator_replaces_identifier :
  bgp_select (ex_path 9 1 None 5) (ex_path 2 0 None 5) = 1%Z /\      (* ORIGINATOR_ID 1 beats identifier 2 *)
  bgp_select (ex_path 2 0 None 5) (ex_path 3 0 None 5) = 1%Z /\      (* lower identifier *)
  bgp_select (ex_path 2 0 None 5) (ex_path 2 0 (Some [7]) 4) = 1%Z /\ (* absent CLUSTER_LIST is the shortest *)
  bgp_select (ex_path 2 0 (Some [7]) 4) (ex_path 2 0 (Some [7]) 5) = 1%Z. (* lower peer address *)
Proof. repeat split. Qed.
