(* C21 - Peer input cannot crash the speaker; errors are reported with NOTIFICATION.
   Only statements here; proofs live in Proofs/FSMErrProofs.v (and FSMProofs.v / FSMSysProofs.v).
   Model: Model/FSM.v ([recv_msg] = fsm.go:recvMsg with its slice arithmetic, [decode] = the part of
   packet.Decode that decides which NOTIFICATION is owed, [step]); specification of the owed
   NOTIFICATION: Spec/RFC4271Errors.v, written from RFC 4271 section 6. *)
From Coq Require Import List NArith Bool.
Import ListNotations.
From BioVerif Require Import Model.FSM Spec.RFC4271FSM Spec.RFC4271Errors
  Proofs.FSMProofs Proofs.FSMSysProofs Proofs.FSMErrProofs.
Local Open Scope N_scope.

(* Framing: for EVERY 16-bit header length (below 19 and above 4096 included) and however many octets
   follow, recvMsg does not slice out of range ... *)
Theorem C21_no_panic : forall len avail : N, len < 65536 -> recv_msg len avail <> FrPanic.
Proof. exact recv_msg_total. Qed.
Print Assumptions C21_no_panic.

(* ... whereas the function as it was (without the length guard) panicked exactly for the lengths the
   property names. *)
Theorem C21_unguarded_panicked : forall len avail : N,
  recv_msg_unguarded len avail = FrPanic <-> (len < 19 \/ 4096 < len).
Proof. exact recv_msg_unguarded_panics. Qed.
Print Assumptions C21_unguarded_panicked.

(* No sequence of events - transmissions of any kind included - makes any handler crash. *)
Theorem C21_no_crash : forall (c : cfg) (es : list ev) (e : ev), ~ In Crash (snd (step c (final c es) e)).
Proof. exact no_crash. Qed.
Print Assumptions C21_no_crash.

(* Whatever one session receives, the other sessions of the speaker keep their state, their routes
   and their Adj-RIB-Ins. *)
Theorem C21_other_sessions_untouched : forall (y : sys) (i : nat) (e : ev) (j : nat),
  i <> j ->
  nth_sess (y_sess (fst (sys_step y i e))) j = nth_sess (y_sess y) j /\
  rib_of (fst (sys_step y i e)) (N.of_nat j) = rib_of y (N.of_nat j) /\
  adjin_of (fst (sys_step y i e)) (N.of_nat j) = adjin_of y (N.of_nat j).
Proof. exact other_sessions_untouched. Qed.
Print Assumptions C21_other_sessions_untouched.

(* The decoder's classified errors are sound w.r.t. RFC 4271 section 6 ... *)
Theorem C21_error_codes_sound : forall (m : msg) (e : N * N), decode m = DErr (Some e) -> owes m e.
Proof. exact decode_owes. Qed.
Print Assumptions C21_error_codes_sound.

(* ... and, per error class, the NOTIFICATION with exactly that code and subcode is the first thing
   written, the connection is closed afterwards and the session is Idle and detached - in OpenSent,
   OpenConfirm and Established alike. *)
Theorem C21_notification : forall (c : cfg) (s : sess) (m : msg) (code sub : N),
  inv s -> listens s = true -> wr_ok s = true ->
  frame_of m = FrFrame ->
  decode m = DErr (Some (code, sub)) ->
  exists post,
    snd (step c s (EMsg m)) = SentNotification code sub :: post /\
    In Closed post /\
    s_st (fst (step c s (EMsg m))) = Idle /\ s_conn (fst (step c s (EMsg m))) = ConnClosed /\
    s_att (fst (step c s (EMsg m))) = false.
Proof. exact classified_error_notified. Qed.
Print Assumptions C21_notification.

(* Partial form of "every malformed message is answered with the RFC's NOTIFICATION": it holds for
   every malformed transmission of a classified kind (header errors of all three subcodes incl. the
   per-type length rules, OPEN with a wrong version, a zero identifier or hold time 1-2) ... *)
Theorem C21_malformed_notified_partial : forall (c : cfg) (s : sess) (m : msg),
  inv s -> listens s = true -> wr_ok s = true ->
  frame_of m = FrFrame -> classified m = true -> malformed m ->
  exists code sub post,
    owes m (code, sub) /\
    snd (step c s (EMsg m)) = SentNotification code sub :: post /\
    In Closed post /\
    s_st (fst (step c s (EMsg m))) = Idle /\ s_conn (fst (step c s (EMsg m))) = ConnClosed.
Proof. exact malformed_notified. Qed.
Print Assumptions C21_malformed_notified_partial.

(* ... and the unguarded statement is refuted: a body that packet.Decode rejects with a plain error
   (OPEN optional parameters / capabilities, UPDATE attributes) closes the session without any
   NOTIFICATION (known finding, re-confirmed on the implementation by corpus/C21 on every run). *)
Theorem C21_malformed_notified_refuted :
  exists c s m,
    inv s /\ listens s = true /\ wr_ok s = true /\ frame_of m = FrFrame /\ malformed m /\
    forall code sub, ~ In (SentNotification code sub) (snd (step c s (EMsg m))).
Proof. exact undecodable_body_not_notified. Qed.
Print Assumptions C21_malformed_notified_refuted.

(* Non-vacuity: an established session and three malformed transmissions. *)
Example C21_example_len_18 :
  snd (step wit_cfg wit_sess (EMsg (MHeader true 18 4 0))) = [SentNotification 1 2; Uninit; Closed].
Proof. reflexivity. Qed.
Example C21_example_len_4097 :
  snd (step wit_cfg wit_sess (EMsg (MHeader true 4097 2 100))) = [SentNotification 1 2; Uninit; Closed].
Proof. reflexivity. Qed.
Example C21_example_keepalive_len_20 :
  snd (step wit_cfg wit_sess (EMsg (MHeader true 20 4 1))) = [SentNotification 1 2; Uninit; Closed].
Proof. reflexivity. Qed.
