(* C01 - Routing table lookups agree with a prefix-map model (IPv4 and IPv6).
   Only statements here; proofs live in Proofs/TrieProofs.v (and Proofs/BitPfxFacts.v).

   Model: Model/Trie.v = routingtable/trie.go + table.go (+ what LocRIB does to the table),
   with prefixes as bit strings of any length (Lib/BitPfx.v), so one statement covers IPv4,
   IPv6 and every prefix length, /0 and host routes included.
   Spec: Spec/TrieSpec.v = association list prefix -> non-empty list of paths.
   The statements hold for every path type P and every path test peq that is reflexive
   (Go: a path Compare()s/Equal()s to itself); paths are never nil.

   t := b_run ops   is the table after the history ops  (Add / Remove / Replace / RemovePfx / Subst),
   m := spec_run ops is the prefix map after the same history. *)
From Coq Require Import List Bool ZArith Permutation NArith.
Import ListNotations.
From BioVerif Require Import Model.NetArith Spec.NetSpec Gen.NetGen Model.TrieNet Proofs.TrieNetInstance.
From BioVerif Require Import Lib.BitPfx Model.Trie Model.TrieRaw Spec.TrieSpec Proofs.TrieProofs
  Proofs.TrieRawFacts.

Section C01.
  Variable P : Type.
  Variable peq : P -> P -> bool.
  Hypothesis peq_refl : forall a, peq a a = true.

  (* exact lookup returns exactly the paths currently stored for that prefix (or nothing) *)
  Theorem C01_get : forall (ops : list (bop P)) (q : bits),
    bt_get P (b_run P peq ops) q = spec_get P (spec_run P peq ops) q.
  Proof. exact (refines_get P peq peq_refl). Qed.

  (* the covering lookup lists exactly the stored prefixes that contain or equal the query *)
  Theorem C01_lpm : forall (ops : list (bop P)) (q : bits),
    Permutation (bt_lpm P (b_run P peq ops) q)
                (filter (fun e => beq (fst e) q || bcontains (fst e) q) (spec_run P peq ops)).
  Proof. exact (refines_lpm P peq peq_refl). Qed.

  (* the more-specifics lookup lists the query (if stored) and every stored prefix inside it,
     whether or not the query itself is stored *)
  Theorem C01_getLonger : forall (ops : list (bop P)) (q : bits),
    Permutation (bt_getLonger P (b_run P peq ops) q)
                (filter (fun e => beq (fst e) q || bcontains q (fst e)) (spec_run P peq ops)).
  Proof. exact (refines_longer P peq peq_refl). Qed.

  (* the dump lists each stored prefix, with its paths, exactly once *)
  Theorem C01_dump : forall ops : list (bop P),
    Permutation (bt_dump P (b_run P peq ops)) (spec_run P peq ops) /\
    NoDup (map fst (bt_dump P (b_run P peq ops))).
  Proof. exact (refines_dump P peq peq_refl). Qed.

  (* the route count is the number of stored prefixes *)
  Theorem C01_count : forall ops : list (bop P),
    bt_count P (b_run P peq ops) = Z.of_nat (length (spec_run P peq ops)).
  Proof. exact (refines_count P peq peq_refl). Qed.

  (* the map is a map: no prefix twice, no prefix without paths *)
  Theorem C01_spec_is_a_map : forall ops : list (bop P),
    NoDup (map fst (spec_run P peq ops)) /\
    forall q ps, lookup P (spec_run P peq ops) q = Some ps -> ps <> [].
  Proof. exact (spec_wellformed P peq peq_refl). Qed.

  (* all clauses together *)
  Theorem C01_refines : forall (ops : list (bop P)) (q : bits),
    let t := b_run P peq ops in
    let m := spec_run P peq ops in
    bt_get P t q = spec_get P m q /\
    Permutation (bt_lpm P t q) (spec_lpm P m q) /\
    Permutation (bt_getLonger P t q) (spec_longer P m q) /\
    Permutation (bt_dump P t) m /\ NoDup (map fst (bt_dump P t)) /\
    bt_count P t = Z.of_nat (length m).
  Proof.
    exact (fun ops q =>
      conj (refines_get P peq peq_refl ops q)
     (conj (refines_lpm P peq peq_refl ops q)
     (conj (refines_longer P peq peq_refl ops q)
     (conj (proj1 (refines_dump P peq peq_refl ops))
     (conj (proj2 (refines_dump P peq peq_refl ops))
           (refines_count P peq peq_refl ops)))))).
  Qed.

  (* ---- the same statement for the trie whose prefix operations are the MACHINE-WORD functions of
     package net (Model/NetArith.v = the transcription of net/prefix.go, net/ip.go that C15 proves
     correct; Model/TrieNet.v = the trie instantiated with them): for every history over canonical
     prefixes (canon fam p := wf_pfx p /\ legacy (addr p) = fam /\ Valid p = true: 64-bit words, the
     family's flag, len <= 32 resp. 128, no host bit set) and every canonical query.  bits_of p = the
     first len bits of the address; bits_route / bits_op apply it to a route / an operation.
     Proof: Proofs/TrieSim.v (generic simulation) + Proofs/TrieNetInstance.v (interface obligations
     from the C15 theorems) + the bit-string theorems above. *)
  Theorem C01_refines_ipv4 : forall (ops : list (nop P)) (q : pfx),
    Forall (canon_op P true) ops -> canon true q ->
    let t := n_run P peq ops in
    let m := spec_run P peq (map (bits_op P) ops) in
    option_map (bits_route P) (nt_get P t q) = spec_get P m (bits_of q) /\
    Permutation (map (bits_route P) (nt_lpm P t q)) (spec_lpm P m (bits_of q)) /\
    Permutation (map (bits_route P) (nt_getLonger P t q)) (spec_longer P m (bits_of q)) /\
    Permutation (map (bits_route P) (nt_dump P t)) m /\
    NoDup (map fst (nt_dump P t)) /\
    nt_count P t = Z.of_nat (length m).
  Proof. exact (net_refines P peq peq_refl true). Qed.

  Theorem C01_refines_ipv6 : forall (ops : list (nop P)) (q : pfx),
    Forall (canon_op P false) ops -> canon false q ->
    let t := n_run P peq ops in
    let m := spec_run P peq (map (bits_op P) ops) in
    option_map (bits_route P) (nt_get P t q) = spec_get P m (bits_of q) /\
    Permutation (map (bits_route P) (nt_lpm P t q)) (spec_lpm P m (bits_of q)) /\
    Permutation (map (bits_route P) (nt_getLonger P t q)) (spec_longer P m (bits_of q)) /\
    Permutation (map (bits_route P) (nt_dump P t)) m /\
    NoDup (map fst (nt_dump P t)) /\
    nt_count P t = Z.of_nat (length m).
  Proof. exact (net_refines P peq peq_refl false). Qed.

  (* ... and for the trie whose prefix operations are the definitions REGENERATED from the Go source
     on this run (Gen/NetGen.v by tools/gosub2coq; Proofs/TrieNetGen.v shows Equal, Contains,
     GetSupernet, BitAtPosition equal to the transcription and stops compiling when one of them
     changes its meaning) *)
  Theorem C01_refines_ipv4_gen : forall (ops : list (nop P)) (q : pfx),
    Forall (canon_op P true) ops -> canon true q ->
    let t := g_run P peq ops in
    let m := spec_run P peq (map (bits_op P) ops) in
    option_map (bits_route P) (gt_get P t q) = spec_get P m (bits_of q) /\
    Permutation (map (bits_route P) (gt_lpm P t q)) (spec_lpm P m (bits_of q)) /\
    Permutation (map (bits_route P) (gt_getLonger P t q)) (spec_longer P m (bits_of q)) /\
    Permutation (map (bits_route P) (nt_dump P t)) m /\
    NoDup (map fst (nt_dump P t)) /\
    nt_count P t = Z.of_nat (length m).
  Proof. exact (gen_refines P peq peq_refl true). Qed.

  Theorem C01_refines_ipv6_gen : forall (ops : list (nop P)) (q : pfx),
    Forall (canon_op P false) ops -> canon false q ->
    let t := g_run P peq ops in
    let m := spec_run P peq (map (bits_op P) ops) in
    option_map (bits_route P) (gt_get P t q) = spec_get P m (bits_of q) /\
    Permutation (map (bits_route P) (gt_lpm P t q)) (spec_lpm P m (bits_of q)) /\
    Permutation (map (bits_route P) (gt_getLonger P t q)) (spec_longer P m (bits_of q)) /\
    Permutation (map (bits_route P) (nt_dump P t)) m /\
    NoDup (map fst (nt_dump P t)) /\
    nt_count P t = Z.of_nat (length m).
  Proof. exact (gen_refines P peq peq_refl false). Qed.
End C01.

Print Assumptions C01_get.
Print Assumptions C01_lpm.
Print Assumptions C01_getLonger.
Print Assumptions C01_dump.
Print Assumptions C01_count.
Print Assumptions C01_spec_is_a_map.
Print Assumptions C01_refines.
Print Assumptions C01_refines_ipv4.
Print Assumptions C01_refines_ipv6.
Print Assumptions C01_refines_ipv4_gen.
Print Assumptions C01_refines_ipv6_gen.

(* Why "canonical prefixes" is an assumption and not a convenience: the same trie code fed with
   Go prefixes whose host bits are set (Model/TrieRaw.v, IPv4; tied to the code by the "rn" stream
   of the correspondence check) is NOT a prefix map.  After AddPath(10.0.0.0/8), AddPath(10.0.0.1/8)
   the first route cannot be found any more, the dump lists one route and the count says two. *)
Theorem C01_noncanonical_refuted :
  exists p1 p2 : rpfx, p1 <> p2 /\
    let t := r_run N N.eqb [Add _ _ p1 1%N; Add _ _ p2 2%N] in
    rt_get N t p1 = None /\ rt_dump N t = [(p2, [2%N])] /\ rt_count N t = 2%Z.
Proof. exact (ex_intro _ ten_slash8 (ex_intro _ ten_one_slash8 noncanonical_breaks_trie)). Qed.
Print Assumptions C01_noncanonical_refuted.

(* ... the same on the machine-word model of package net (10.0.0.0/8 = 0x0a000000, 10.0.0.1/8) *)
Theorem C01_noncanonical_refuted_words :
  exists p1 p2 : pfx, p1 <> p2 /\ wf_pfx p1 /\ wf_pfx p2 /\ Valid p1 = true /\ Valid p2 = false /\
    let t := n_run N N.eqb [Add _ _ p1 1%N; Add _ _ p2 2%N] in
    nt_get N t p1 = None /\ nt_dump N t = [(p2, [2%N])] /\ nt_count N t = 2%Z.
Proof. exact noncanonical_breaks_word_trie. Qed.
Print Assumptions C01_noncanonical_refuted_words.

(* the hypotheses of C01_refines_ipv4/6 are satisfiable on a non-trivial history: 10.0.0.0/9 and
   10.128.0.0/9 (dummy supernet 10.0.0.0/8), GetLonger of the absent 10.0.0.0/8; 2001:db8::/32 and ::/0 *)
Example C01_example_words : net_example_statement.
Proof. exact net_example. Qed.

(* Non-vacuity, on the instance the correspondence check runs (paths = N):
   10/2 stored, 1011/4 and 1000/4 stored below it (the trie creates a dummy 10/2.. supernet),
   100/3 is NOT stored. *)
Example C01_example_history :
  let ops := [Add bits N [true;false;true;true] 1%N; Add _ _ [true;false;false;false] 2%N;
              Add _ _ [true;false] 3%N; Add _ _ [true;false] 4%N;
              Remove _ _ [true;false] 3%N; Remove _ _ [true;false;true;true] 1%N;
              Add _ _ [true;false;true;true] 5%N; Replace _ _ [false] 6%N;
              RemovePfx _ _ [false]; Subst _ _ [true;false] 4%N 7%N] in
  let t := b_run N N.eqb ops in
  bt_get N t [true;false] = Some ([true;false], [7%N]) /\
  bt_get N t [true;false;false] = None /\
  bt_lpm N t [true;false;false;false] = [([true;false], [7%N]); ([true;false;false;false], [2%N])] /\
  (* more specifics of a prefix that is not stored *)
  bt_getLonger N t [true;false;false] = [([true;false;false;false], [2%N])] /\
  bt_getLonger N t [true] =
    [([true;false], [7%N]); ([true;false;false;false], [2%N]); ([true;false;true;true], [5%N])] /\
  bt_count N t = 3%Z /\ length (spec_run N N.eqb ops) = 3%nat.
Proof. vm_compute. repeat split. Qed.
