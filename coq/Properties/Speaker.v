(* Wire-to-wire theorems about the composed speaker (Model/Speaker.v; notes/Pipeline.md, section "Speaker"): what a set
   of Established sessions does with the BYTES it receives and which BYTES it sends.  Registered with C08 as additional
   theorems (props/C08.py: more_properties_files).  The speaker is the RIB pipeline of Model/Pipeline.v between the
   decoder (Model/BGPCodec.v, C16/C19) + per-NLRI application (Spec/UpdateApplySpec.v, C20) on the way in and the update
   sender's packing (C10/C18) + encoder (Model/BGPEncode.v, C17) on the way out; every statement below is obtained
   from the component theorems (C16: no_panic / fuel_suffices, C19: update_wellformed, C20: per_nlri, C17:
   update_roundtrip, and the Pipeline theorems, i.e. C05/C06, C04, C08, C10) and carries exactly their guards.
   `srun` folds `sstep` over events SUp / SDown / SRecv k bytes / SDequeue / SEmit; its RIB part is a run of the
   pipeline (Proofs/SpeakerProofs.v: srun_is_run), so all Pipeline theorems apply to every speaker state. *)
From Coq Require Import List NArith ZArith Bool Permutation.
Import ListNotations.
From BioVerif Require Import Model.Pipeline Model.Speaker Spec.PipelineSpec Spec.SpeakerSpec Proofs.PipelineExamples
  Proofs.SpeakerProofs Proofs.SpeakerExamples.
From BioVerif Require Model.AdjRIBIn Model.LocRIBClients Model.AdjRIBOut Model.UpdateSender Model.BGPCodec Model.BGPEncode
  Model.UpdateApply Spec.UpdateApplySpec Spec.BGPUpdateSpec Spec.BGPRoundtripSpec Spec.LocRIBClientsSpec
  Spec.ExportViewSpec Spec.UpdateSenderSpec.

(* 1. One frame received on a session that is in Established, from ANY reachable state (recvMsg hands the frame over in
   a zero-padded 4096-byte buffer: recv_decode):
   - it decodes to an UPDATE u: the consumed bytes are well-formed for u (C19, up to its known finding), the decoded
     values have the Go types processAttributes asserts, and the session's Adj-RIB-In afterwards is processUpdate of
     the decoded message (C20's model) = the fold of the per-NLRI operations, which are appended to the session's
     history; it stays up; no other session's receiving half changes;
   - KEEPALIVE: nothing changes;  NOTIFICATION, OPEN, decoding error: the session has left Established;
   - the decoder neither panics nor runs out of fuel (C16).
   What the Loc-RIB, the Adj-RIB-Outs and the peers then hold follows from the Pipeline theorems (3. below). *)
Theorem Speaker_installs_what_was_decoded :
  forall (P : Type) (apply : P -> N -> AdjRIBOut.path -> option AdjRIBOut.path)
         (sel : nat -> list (LocRIBClients.entry AdjRIBOut.path) -> list (LocRIBClients.entry AdjRIBOut.path) * nat)
         (tagf : AdjRIBOut.bgp -> N) (cs : list (spcfg P)),
  LocRIBClientsSpec.sel_ok AdjRIBOut.path sel ->
  forall (evs : list sevent) (k : nat) (c : spcfg P) (s : sst P) (b : list N),
  distinct_peers P (cfgs_of P cs) ->
  nth_error cs k = Some c ->
  nth_error (ps_sess P (sp_pipe P (srun P apply sel tagf cs evs))) k = Some s -> ss_up P s = true -> frame_ok b = true ->
  let st := srun P apply sel tagf cs evs in
  let st' := sstep P apply sel tagf cs st (SRecv k b) in
  match recv_decode (sp_dec P c) b with
  | BGPCodec.Ok m rest =>
    match BGPCodec.m_body m with
    | BGPCodec.BUpdate u =>
      let ops := UpdateApplySpec.message_ops 1 (conv_update u) in
      (exists consumed, padded b = consumed ++ rest /\ BGPUpdateSpec.wellformed false (BGPCodec.m_len m) u consumed) /\
      UpdateApplySpec.well_typed (conv_update u) /\
      exists s', nth_error (ps_sess P (sp_pipe P st')) k = Some s' /\ ss_up P s' = true /\
        UpdateApply.process_update 1 1 (conv_update u) (ss_in P s) = UpdateApply.Done (ss_in P s') /\
        ss_ops P s' = ss_ops P s ++ ops /\
        (forall j, j <> k ->
           option_map (recv_state P) (nth_error (ps_sess P (sp_pipe P st')) j) =
           option_map (recv_state P) (nth_error (ps_sess P (sp_pipe P st)) j))
    | BGPCodec.BKeepalive => st' = st
    | _ => is_up P (sp_pipe P st') k = false
    end
  | BGPCodec.Err => is_up P (sp_pipe P st') k = false
  | _ => False
  end.
Proof. exact installs_what_was_decoded. Qed.
Print Assumptions Speaker_installs_what_was_decoded.

(* 2. What is written to a session's connection (output: the sender's wire log, message by message, through
   msg_update = the packet.BGPUpdate built from the exported path's attributes (C09: ExportWire) and the encoder).
   Under C17's guard on these messages (sendable: representable under the session's options and accepted by the
   serializer): every UPDATE written is at most 4096 bytes and decodes - with the options the peer negotiated - to the
   UPDATE it was made from (same withdrawn routes, NLRI, attribute types and values), and the table the peer builds from
   the decoded UPDATEs (dview) is, at every (prefix, path id), the sender's view (C10's peer_view) with the attribute
   values of the exported path standing behind the tag. *)
Theorem Speaker_output_decodes_to_export_view :
  forall (P : Type) (apply : P -> N -> AdjRIBOut.path -> option AdjRIBOut.path)
         (sel : nat -> list (LocRIBClients.entry AdjRIBOut.path) -> list (LocRIBClients.entry AdjRIBOut.path) * nat)
         (tagf : AdjRIBOut.bgp -> N) (cs : list (spcfg P))
         (evs : list sevent) (j : nat) (c : spcfg P) (s : sst P),
  nth_error cs j = Some c -> nth_error (ps_sess P (sp_pipe P (srun P apply sel tagf cs evs))) j = Some s ->
  sendable P tagf c s ->
  Forall2 (written P tagf c s) (rev (UpdateSender.wire (ss_us P s))) (output P tagf c s) /\
  exists us, decoded_output P tagf c s = map Some us /\
    forall p pid, dview (rev us) (upfx p) pid =
                  option_map (tag_attrs P tagf c (ss_out P s)) (peer_view P s p pid).
Proof. exact output_decodes_to_view. Qed.
Print Assumptions Speaker_output_decodes_to_export_view.

(* 3. Wire to wire.  For a session j that is up and whose sender is drained, inside the guards of the component
   theorems (C08's three known findings: ExportViewSpec.guards; no path-id allocation failure; C10's four hypotheses
   including its known finding no_withdraw_in_flight; the interface condition log_tracks_table, false exactly for the
   known finding addpath-duplicate-export-withdrawn-while-copy-remains; C17's sendable), after ANY history of bytes
   received on any sessions, session ups and downs and sender steps:
   IN       the candidates of the Loc-RIB are the union over the sessions that are up of their contributions - each the
            C05/C06 reading of the operations that session's received bytes decoded to (1.: ss_ops grows by message_ops
            of every decoded UPDATE);
   THROUGH  j's Adj-RIB-Out is the export view of the first 1/N selected candidates;
   OUT      the bytes written to j decode, and the table peer j builds from them holds at (prefix, path id) the
            attribute values of exactly the Adj-RIB-Out entry with that key (keyed_table).
   So peer j's view is a function of the byte histories of the other sessions: decode, contribute, select, export,
   encode. *)
Theorem Speaker_wire_to_wire :
  forall (P : Type) (apply : P -> N -> AdjRIBOut.path -> option AdjRIBOut.path)
         (sel : nat -> list (LocRIBClients.entry AdjRIBOut.path) -> list (LocRIBClients.entry AdjRIBOut.path) * nat)
         (tagf : AdjRIBOut.bgp -> N) (cs : list (spcfg P)),
  LocRIBClientsSpec.sel_ok AdjRIBOut.path sel ->
  forall (evs : list sevent) (j : nat) (c : spcfg P) (s : sst P),
  let st := sp_pipe P (srun P apply sel tagf cs evs) in
  let pc := sp_c P c in
  let ls := rev (ss_lab P s) in
  distinct_peers P (cfgs_of P cs) -> locrib_paths_distinct P st ->
  nth_error cs j = Some c -> nth_error (ps_sess P st) j = Some s -> ss_up P s = true ->
  ExportViewSpec.guards (apply (sc_exp P pc)) (sc_sess P pc) (ss_hist P s) -> AdjRIBOut.errs (ss_out P s) = 0%N ->
  UpdateSenderSpec.client_protocol (sc_us P pc) ls -> UpdateSenderSpec.hash_faithful (sc_us P pc) ls ->
  UpdateSenderSpec.all_fit (sc_us P pc) ls -> UpdateSenderSpec.no_withdraw_in_flight (sc_us P pc) ls ->
  log_tracks_table P tagf (sc_us P pc) (ss_out P s) ->
  drained P s = true ->
  sendable P tagf c s ->
  (forall p, Permutation (map ckey (candidates P st p)) (map ckey (union_of_contributions P (cfgs_of P cs) st p))) /\
  (forall p, Permutation (map (ExportViewSpec.norm (sc_sess P pc)) (AdjRIBOut.tbl_get p (AdjRIBOut.tbl (ss_out P s))))
                         (map (ExportViewSpec.norm (sc_sess P pc))
                              (ExportViewSpec.export_view (apply (sc_exp P pc)) (sc_sess P pc) p
                                 (visible (sc_opts P pc) (ps_loc P st) (lpfx p))))) /\
  exists us, decoded_output P tagf c s = map Some us /\
    forall p pid, dview (rev us) (upfx p) pid =
                  option_map (tag_attrs P tagf c (ss_out P s)) (keyed_table P tagf (sc_us P pc) (ss_out P s) p pid).
Proof. exact wire_to_wire. Qed.
Print Assumptions Speaker_wire_to_wire.

(* every speaker state's RIB part is a state of the pipeline: the Pipeline theorems apply to it *)
Theorem Speaker_run_is_pipeline_run :
  forall (P : Type) (apply : P -> N -> AdjRIBOut.path -> option AdjRIBOut.path)
         (sel : nat -> list (LocRIBClients.entry AdjRIBOut.path) -> list (LocRIBClients.entry AdjRIBOut.path) * nat)
         (tagf : AdjRIBOut.bgp -> N) (cs : list (spcfg P)) (evs : list sevent),
  exists pevs, sp_pipe P (srun P apply sel tagf cs evs) = run P apply sel tagf (cfgs_of P cs) pevs.
Proof. exact srun_is_run. Qed.
Print Assumptions Speaker_run_is_pipeline_run.

(* ---- Examples on real byte strings (Spec/SpeakerSpec.v: the three sessions of the Pipeline examples; the two
   route-server clients send 45-byte UPDATEs for 0.0.0.0/1, the iBGP listener's sender writes). *)

(* 1: the first client's bytes are read as the announcement of prefix id 1 with next hop 12.0.0.1, AS_PATH [65101];
   a Total Path Attribute Length past the message is a decoding error; the frames are frames.  Fed the bytes, the
   speaker is exactly where the RIB pipeline is when fed the announcements (Pipeline examples).  A KEEPALIVE changes
   nothing; the damaged UPDATE takes session 1 down and leaves only the first client's route. *)
Example Speaker_example_installs :
  (option_map (fun u => UpdateApplySpec.message_ops 1 (conv_update u)) (recv_update ex_opts (ex_update_bytes 65101 1)) =
     Some [AdjRIBIn.Announce 1%N (ex_path 201326593 65101)] /\
   recv_decode ex_opts ex_bad_bytes = BGPCodec.Err /\
   frame_ok (ex_update_bytes 65101 1) = true /\ frame_ok ex_bad_bytes = true /\ frame_ok ex_keepalive = true) /\
  sp_pipe _ (ex_srun ex_sevs2) = ex_run (ex_evs1 ++ ex_drain2a) /\
  (ex_sstep (ex_srun ex_sevs1) (SRecv 0 ex_keepalive) = ex_srun ex_sevs1 /\
   let st := sp_pipe _ (ex_sstep (ex_srun ex_sevs1) (SRecv 1 ex_bad_bytes)) in
   is_up _ st 1 = false /\ is_up _ st 0 = true /\
   map src_of (candidates _ st 1%N) = [Some 167772161%N] /\
   map src_of (candidates _ (sp_pipe _ (ex_srun ex_sevs1)) 1%N) = [Some 167772162%N; Some 167772161%N]).
Proof. exact (conj ex_bytes_decode (conj ex_same_state ex_other_frames)). Qed.

(* 2: the bytes written to the listener - End-of-RIB (23 bytes), the withdrawal of 0.0.0.0/1 (the first client's route
   was replaced while its announcement was still queued), the 52-byte announcement of the second client's route
   (AS_PATH [65102], ORIGIN IGP, NEXT_HOP 12.0.0.2, LOCAL_PREF 300) - and the table the peer decodes from them. *)
Example Speaker_example_output :
  output _ ex_tagf ex_sc2 ex_ss2 =
    [Some (repeat 255%N 16 ++ [0; 23; 2;  0; 0;  0; 0]%N);
     Some (repeat 255%N 16 ++ [0; 25; 2;  0; 2; 1; 0;  0; 0]%N);
     Some (repeat 255%N 16 ++ [0; 52; 2;  0; 0;  0; 27;  64; 2; 6; 2; 1; 0; 0; 254; 78;  64; 1; 1; 0;  64; 3; 4; 12; 0; 0; 2;
                               64; 5; 4; 0; 0; 1; 44;  1; 0]%N)] /\
  exists us, decoded_output _ ex_tagf ex_sc2 ex_ss2 = map Some us /\
    dview (rev us) (upfx 1) 0%N =
      Some [(2%N, BGPCodec.AVASPath [(2%N, [65102%N])]); (1%N, BGPCodec.AVOrigin 0); (3%N, BGPCodec.AVNextHop (BGPCodec.IP4 201326594));
            (5%N, BGPCodec.AVU32 300)] /\
    dview (rev us) (upfx 2) 0%N = None.
Proof. exact ex_output_bytes. Qed.

(* 3: every hypothesis of Speaker_wire_to_wire holds for the listener of the example, and the theorem gives the three
   conclusions for it *)
Example Speaker_example_wire_to_wire :
  let st := sp_pipe _ (ex_srun ex_sevs2) in
  let pc := sp_c _ ex_sc2 in
  (forall p, Permutation (map ckey (candidates _ st p)) (map ckey (union_of_contributions _ (cfgs_of _ ex_spcfgs) st p))) /\
  (forall p, Permutation (map (ExportViewSpec.norm (sc_sess _ pc)) (AdjRIBOut.tbl_get p (AdjRIBOut.tbl (ss_out _ ex_ss2))))
                         (map (ExportViewSpec.norm (sc_sess _ pc))
                              (ExportViewSpec.export_view (AdjRIBOut.interp (sc_exp _ pc)) (sc_sess _ pc) p
                                 (visible (sc_opts _ pc) (ps_loc _ st) (lpfx p))))) /\
  exists us, decoded_output _ ex_tagf ex_sc2 ex_ss2 = map Some us /\
    forall p pid, dview (rev us) (upfx p) pid =
                  option_map (tag_attrs _ ex_tagf ex_sc2 (ss_out _ ex_ss2))
                             (keyed_table _ ex_tagf (sc_us _ pc) (ss_out _ ex_ss2) p pid).
Proof.
  destruct ex_w2w_hyps as [H1 [H2 [H3 [H4 [H5 [H6 [H7 [H8 [H9 [H10 [H11 [H12 [H13 H14]]]]]]]]]]]]].
  exact (Speaker_wire_to_wire _ AdjRIBOut.interp ex_sel ex_tagf ex_spcfgs ex_sel_ok ex_sevs2 2 ex_sc2 ex_ss2
           H1 H2 H3 H4 H5 H6 H7 H8 H9 H10 H11 H12 H13 H14).
Qed.
