(* C16 - BGP message decoding is total and bounded.
   Only statements here; proofs live in Proofs/BGPCodecProofs.v.
   `decode fuel opts b` is the model of packet.Decode(bytes.NewBuffer(b), opts) (Model/BGPCodec.v);
   `opts : options` ranges over all 16 combinations of the four decode options. *)
From Coq Require Import List NArith.
Import ListNotations.
From BioVerif Require Import Model.BGPCodec Spec.BGPCodecSpec Proofs.BGPCodecProofs.
Local Open Scope N_scope.

(* Bounded time: every loop of the decoder consumes at least one byte per iteration, so fuel
   length+1 is never exhausted, for every byte string and every option combination. *)
Theorem C16_fuel_suffices : forall (opts : options) (b : list N),
  fst (decode (S (length b)) opts b) <> OutOfFuel.
Proof. exact fuel_suffices. Qed.
Print Assumptions C16_fuel_suffices.

(* No panic: no slice expression of the decoder is ever out of range, no make() gets a negative size. *)
Theorem C16_no_panic : forall (opts : options) (b : list N),
  ~ is_panic (fst (decode (S (length b)) opts b)).
Proof. exact no_panic. Qed.
Print Assumptions C16_no_panic.

(* Bounded memory: the bytes requested by length-driven allocations are at most 65535 + 3 * length b,
   on successful and on failing runs alike. *)
Theorem C16_alloc_bounded : forall (opts : options) (b : list N),
  snd (decode (S (length b)) opts b) <= alloc_bound b.
Proof. exact alloc_bounded. Qed.
Print Assumptions C16_alloc_bounded.

(* Total: the result is a message (with the unread rest) or an error, with the sharper allocation
   bound 3 * length b on success. *)
Theorem C16_total_bounded : forall (opts : options) (b : list N),
  (exists m rest al, decode (S (length b)) opts b = (Ok m rest, al) /\ al <= 3 * len b /\ (length rest <= length b)%nat)
  \/ (exists al, decode (S (length b)) opts b = (Err, al) /\ al <= 65535 + 3 * len b).
Proof. exact total_bounded. Qed.
Print Assumptions C16_total_bounded.

(* Non-vacuity: an UPDATE with ORIGIN, AS_PATH (one sequence, AS 65001), NEXT_HOP 10.0.0.1 and the
   NLRI 10.1.2.0/24 decodes to exactly that, with 3 + 4 bytes allocated (prefix bytes, ASN slice);
   the same bytes cut after 30 bytes are an error. *)
Definition c16_example : list N :=
  repeat 255 16 ++ [0; 45; 2;  0; 0;  0; 18;  64; 1; 1; 0;  64; 2; 4; 2; 1; 253; 233;  64; 3; 4; 10; 0; 0; 1;
                    24; 10; 1; 2].
Example C16_example_update :
  decode (S (length c16_example)) (optionsOf 0) c16_example =
  (Ok (mkMsg 45 2 (BUpdate (mkUpdate 0 [] 18
         [ mkAttr false true false false 1 1 (AVOrigin 0);
           mkAttr false true false false 2 4 (AVASPath [(2, [65001])]);
           mkAttr false true false false 3 4 (AVNextHop (IP4 167772161)) ]
         [ mkNLRI 0 [] (mkPfx (IP4 167838208) 24) ]))) [], 7).
Proof. vm_compute. reflexivity. Qed.
Example C16_example_truncated :
  fst (decode 31 (optionsOf 0) (firstn 30 c16_example)) = Err.
Proof. vm_compute. reflexivity. Qed.
