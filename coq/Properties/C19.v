(* C19 - Malformed UPDATEs never install routes.
   Only statements here; proofs live in Proofs/BGPUpdateProofs.v.
   decode = model of packet.Decode (Model/BGPCodec.v), installed = model of what the established session
   puts into the Adj-RIB-In of an address family (Model/BGPInstall.v); the server itself validates nothing
   beyond AFI/SAFI, so the property rests on what the decoder accepts. Spec/BGPUpdateSpec.v:
     wellformed exact l u c = sections exact l u c /\ prefix_lengths_ok u /\ mandatory_ok u
   - sections: the consumed bytes c are header, WithdrawnRoutesLen bytes of withdrawn routes, one chunk of
     exactly (3|4)+Length bytes per attribute [attribute contents match their declared lengths], NLRI ending
     exactly at the header length; with exact = true the attribute chunks also end exactly at TotalPathAttrLen;
   - prefix_lengths_ok: every NLRI (withdrawn, NLRI, MP_REACH, MP_UNREACH) has length <= 32 / 128 for its family;
   - mandatory_ok: NLRI present => ORIGIN, AS_PATH, NEXT_HOP; MP_REACH_NLRI present => ORIGIN, AS_PATH. *)
From Coq Require Import List NArith.
Import ListNotations.
From BioVerif Require Import Model.BGPCodec Model.BGPInstall Spec.BGPUpdateSpec Proofs.BGPUpdateProofs.
Local Open Scope N_scope.

(* Every UPDATE the decoder accepts, for every byte string and option combination, is well-formed - up to the
   one known defect: the attributes may run past TotalPathAttrLen (exact = false). *)
Theorem C19_accepted_update_wellformed : forall (o : options) (b : list N) l ty u rest al,
  decode (S (length b)) o b = (Ok (mkMsg l ty (BUpdate u)) rest, al) ->
  exists c, b = c ++ rest /\ wellformed false l u c.
Proof. exact update_wellformed. Qed.
Print Assumptions C19_accepted_update_wellformed.

(* The full "lengths add up" clause (the decoder consumes exactly the header length) is FALSE for the current
   code: decodePathAttrs does not notice that the last attribute ran past TotalPathAttrLen. Witness: header
   length 44 for 45 bytes, TotalPathAttrLen 17 for 18 bytes of attributes (corpus/C19). *)
Definition c19_witness : list N :=
  repeat 255 16 ++ [0; 44; 2;  0; 0;  0; 17;  64; 1; 1; 0;  64; 2; 4; 2; 1; 253; 233;  64; 3; 4; 10; 0; 0; 1;
                    24; 10; 1; 2].
Theorem C19_lengths_add_up_refuted :
  exists o b l ty u rest al,
    decode (S (length b)) o b = (Ok (mkMsg l ty (BUpdate u)) rest, al) /\ len b <> l + len rest.
Proof.
  exists (optionsOf 0), c19_witness. do 5 eexists. split; [vm_compute; reflexivity|]. vm_compute. discriminate.
Qed.
Print Assumptions C19_lengths_add_up_refuted.

(* ... and it holds whenever the declared attribute sizes sum up to TotalPathAttrLen (the exact guard that
   excludes the defect): then the consumed bytes are exactly the header length and all sections are exact. *)
Theorem C19_lengths_add_up_partial : forall (o : options) (b : list N) l ty u rest al,
  decode (S (length b)) o b = (Ok (mkMsg l ty (BUpdate u)) rest, al) ->
  attrs_fill_tpal u ->
  len b = l + len rest /\ exists c, b = c ++ rest /\ wellformed true l u c.
Proof. exact update_lengths_partial. Qed.
Print Assumptions C19_lengths_add_up_partial.

(* Nothing reaches an Adj-RIB-In unless the bytes decode to a well-formed UPDATE, and every installed entry
   has a prefix length within its family's width, a next hop, and comes with ORIGIN and AS_PATH. *)
Theorem C19_installed_wellformed : forall (afi : N) (o : options) (b : list N) (e : entry),
  In e (installed afi o (decode (S (length b)) o b)) ->
  exists l ty u rest al c,
    decode (S (length b)) o b = (Ok (mkMsg l ty (BUpdate u)) rest, al) /\
    b = c ++ rest /\ wellformed false l u c /\ entry_ok afi u e.
Proof. exact installed_wellformed. Qed.
Print Assumptions C19_installed_wellformed.

(* Non-vacuity: the well-formed UPDATE of C16's example installs 10.1.2.0/24 with a next hop in the IPv4
   family and nothing in the IPv6 family; with the prefix length byte changed to 33, or without the NEXT_HOP
   attribute, nothing is installed. *)
Definition c19_good : list N :=
  repeat 255 16 ++ [0; 45; 2;  0; 0;  0; 18;  64; 1; 1; 0;  64; 2; 4; 2; 1; 253; 233;  64; 3; 4; 10; 0; 0; 1;
                    24; 10; 1; 2].
Example C19_example_installs :
  installed 1 (optionsOf 0) (decode (S (length c19_good)) (optionsOf 0) c19_good)
    = [mkEntry (mkPfx (IP4 167838208) 24) 0 true] /\
  installed 2 (optionsOf 0) (decode (S (length c19_good)) (optionsOf 0) c19_good) = [].
Proof. split; vm_compute; reflexivity. Qed.
Definition c19_len33 : list N :=
  repeat 255 16 ++ [0; 47; 2;  0; 0;  0; 18;  64; 1; 1; 0;  64; 2; 4; 2; 1; 253; 233;  64; 3; 4; 10; 0; 0; 1;
                    33; 10; 1; 2; 3; 128].
Definition c19_no_nexthop : list N :=
  repeat 255 16 ++ [0; 38; 2;  0; 0;  0; 11;  64; 1; 1; 0;  64; 2; 4; 2; 1; 253; 233;  24; 10; 1; 2].
Example C19_example_malformed_install_nothing :
  installed 1 (optionsOf 0) (decode (S (length c19_len33)) (optionsOf 0) c19_len33) = [] /\
  installed 1 (optionsOf 0) (decode (S (length c19_no_nexthop)) (optionsOf 0) c19_no_nexthop) = [].
Proof. split; vm_compute; reflexivity. Qed.
