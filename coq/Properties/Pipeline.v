(* Pipeline - end-to-end theorems about the composed model of the RIB pipeline (Model/Pipeline.v), attached to
   C08 (and reused by C05 / C10).  Only statements here; the proofs live in Proofs/Pipeline{In,Loc,Proofs,Out,Send,Order}.v.

   The composed model threads the component models exactly as fsm_address_family.go wires the Go objects:
     Adj-RIB-In (Model.AdjRIBIn.step, any import policy)  ->  Loc-RIB (Model.LocRIBClients.step, any admissible
     Route.PathSelection sel)  ->  Adj-RIB-Out of every registered session (Model.AdjRIBOut.step, any export policy
     apply)  ->  update sender (Model.UpdateSender.step; tagf = the aggregation hash)  ->  peer (replay of the wire).
   run cfgs evs = the state after the events evs (EUp / EDown / EAnnounce / EWithdraw / EDequeue / EEmit, any session,
   any order).  The component theorems are used as black boxes:
     C05 mirror_fixed, C06 (eligibility is part of C05's contribution), C07's statement that a session that went down
     contributes nothing (here from C05 mirror), C04's model + invariant (RInv), C08 ribout_is_export_view_partial,
     C10 converges_partial, C02 order_independent.
   Guards: exactly those of the component theorems (C08's guards on what the Loc-RIB let the session see; C10's four
   hypotheses on the labels its sender took), the assumption C08 records (the Loc-RIB never held two
   indistinguishable paths for a prefix) and - for the last link, which no component theorem supplies - the interface
   condition log_tracks_table (false exactly in the known findings' situations; refuted below). *)
From Coq Require Import List NArith ZArith Bool Arith Permutation.
Import ListNotations.
From BioVerif Require Import Model.Pipeline Spec.PipelineSpec
  Proofs.PipelineProofs Proofs.PipelineOut Proofs.PipelineSend Proofs.PipelineOrder Proofs.PipelineExamples.
From BioVerif Require Model.AdjRIBIn Model.LocRIBClients Model.AdjRIBOut Model.UpdateSender
  Spec.LocRIBClientsSpec Spec.ExportViewSpec Spec.UpdateSenderSpec Spec.PathSelSpec.

(* 1. After ANY history of the composed model, for any import policies, any admissible selection, any export
   policies: the candidates the Loc-RIB holds for a prefix are - as a multiset, up to what Path.Compare ignores
   (ckey: OTC, ASPathLen, RedistributedFrom) - the union over the sessions that are UP of their current, eligible
   (C06), import-policy-rewritten announcements (C05's contribution).  Sessions are told apart by their peer
   address (distinct_peers). *)
Theorem Pipeline_locrib_is_union_of_contributions :
  forall (P : Type) (apply : P -> N -> AdjRIBOut.path -> option AdjRIBOut.path)
         (sel : nat -> list (LocRIBClients.entry AdjRIBOut.path) -> list (LocRIBClients.entry AdjRIBOut.path) * nat)
         (tagf : AdjRIBOut.bgp -> N),
  LocRIBClientsSpec.sel_ok AdjRIBOut.path sel ->
  forall (cfgs : list (scfg P)) (evs : list event) (p : N),
  distinct_peers P cfgs ->
  Permutation (map ckey (candidates P (run P apply sel tagf cfgs evs) p))
              (map ckey (union_of_contributions P cfgs (run P apply sel tagf cfgs evs) p)).
Proof. exact locrib_is_union_of_contributions. Qed.
Print Assumptions Pipeline_locrib_is_union_of_contributions.

(* 2. C04 + C08 (+ the selection of C02/C03 through sel), composed: for a session that is up, inside C08's guards
   on the views the Loc-RIB let it see (ss_hist - K1: no rewriting, K2: no unexportable arrival on add-path, K3: the
   export policy keeps candidates apart) and with no path-id allocation failure: the session is registered at the
   Loc-RIB with its options and its Adj-RIB-Out holds, per prefix, exactly the export view of the first 1/N selected
   candidates (visible = C04's want) - whatever the arrival order across sessions was (see 6). *)
Theorem Pipeline_ribout_is_export_of_selection :
  forall (P : Type) (apply : P -> N -> AdjRIBOut.path -> option AdjRIBOut.path)
         (sel : nat -> list (LocRIBClients.entry AdjRIBOut.path) -> list (LocRIBClients.entry AdjRIBOut.path) * nat)
         (tagf : AdjRIBOut.bgp -> N),
  LocRIBClientsSpec.sel_ok AdjRIBOut.path sel ->
  forall (cfgs : list (scfg P)) (evs : list event) (j : nat) (c : scfg P) (s : sst P),
  let st := run P apply sel tagf cfgs evs in
  locrib_paths_distinct P st ->
  nth_error cfgs j = Some c -> nth_error (ps_sess P st) j = Some s -> ss_up P s = true ->
  ExportViewSpec.guards (apply (sc_exp P c)) (sc_sess P c) (ss_hist P s) ->
  AdjRIBOut.errs (ss_out P s) = 0%N ->
  LocRIBClients.lookup j (LocRIBClients.clients (ps_loc P st)) = Some (sc_opts P c) /\
  forall p : N,
    Permutation (map (ExportViewSpec.norm (sc_sess P c)) (AdjRIBOut.tbl_get p (AdjRIBOut.tbl (ss_out P s))))
                (map (ExportViewSpec.norm (sc_sess P c))
                     (ExportViewSpec.export_view (apply (sc_exp P c)) (sc_sess P c) p
                        (visible (sc_opts P c) (ps_loc P st) (lpfx p)))).
Proof. exact ribout_is_export_of_selection. Qed.
Print Assumptions Pipeline_ribout_is_export_of_selection.

(* 3a. C10, composed: for every session, after any history (all interleavings of route changes on ANY session with
   this sender's Dequeue / EmitOne steps, End-of-RIB flushes of late registrations included): its sender is a run of
   the component model on the recorded labels, whose Add / Remove labels are exactly the calls its Adj-RIB-Out made on
   its client; under C10's four hypotheses on these labels, once the sender is drained the peer's view is what those
   calls amount to. *)
Theorem Pipeline_peer_view_is_announced :
  forall (P : Type) (apply : P -> N -> AdjRIBOut.path -> option AdjRIBOut.path)
         (sel : nat -> list (LocRIBClients.entry AdjRIBOut.path) -> list (LocRIBClients.entry AdjRIBOut.path) * nat)
         (tagf : AdjRIBOut.bgp -> N) (cfgs : list (scfg P)) (evs : list event) (j : nat) (c : scfg P) (s : sst P),
  nth_error cfgs j = Some c -> nth_error (ps_sess P (run P apply sel tagf cfgs evs)) j = Some s ->
  let ls := rev (ss_lab P s) in
  UpdateSender.run (sc_us P c) ls = Some (ss_us P s) /\
  filter route_label ls = client_calls P tagf (ss_out P s) /\
  (UpdateSenderSpec.client_protocol (sc_us P c) ls -> UpdateSenderSpec.hash_faithful (sc_us P c) ls ->
   UpdateSenderSpec.all_fit (sc_us P c) ls -> UpdateSenderSpec.no_withdraw_in_flight (sc_us P c) ls ->
   drained P s = true ->
   forall p pid, peer_view P s p pid =
                 UpdateSenderSpec.adj_rib_out (sc_us P c) (client_calls P tagf (ss_out P s)) (upfx p) pid).
Proof. exact peer_view_is_announced. Qed.
Print Assumptions Pipeline_peer_view_is_announced.

(* 3b. End to end: under the guards of 2 and 3a and the interface condition log_tracks_table, once the sender of a
   session that is up is drained, the peer's view is the session's Adj-RIB-Out entry by entry (keyed_table), and that
   table is the export view of the first 1/N selected candidates - i.e. (with 1) the export of the selection over the
   union of the current announcements. *)
Theorem Pipeline_peer_view_converges :
  forall (P : Type) (apply : P -> N -> AdjRIBOut.path -> option AdjRIBOut.path)
         (sel : nat -> list (LocRIBClients.entry AdjRIBOut.path) -> list (LocRIBClients.entry AdjRIBOut.path) * nat)
         (tagf : AdjRIBOut.bgp -> N),
  LocRIBClientsSpec.sel_ok AdjRIBOut.path sel ->
  forall (cfgs : list (scfg P)) (evs : list event) (j : nat) (c : scfg P) (s : sst P),
  let st := run P apply sel tagf cfgs evs in
  let ls := rev (ss_lab P s) in
  locrib_paths_distinct P st ->
  nth_error cfgs j = Some c -> nth_error (ps_sess P st) j = Some s -> ss_up P s = true ->
  ExportViewSpec.guards (apply (sc_exp P c)) (sc_sess P c) (ss_hist P s) -> AdjRIBOut.errs (ss_out P s) = 0%N ->
  UpdateSenderSpec.client_protocol (sc_us P c) ls -> UpdateSenderSpec.hash_faithful (sc_us P c) ls ->
  UpdateSenderSpec.all_fit (sc_us P c) ls -> UpdateSenderSpec.no_withdraw_in_flight (sc_us P c) ls ->
  log_tracks_table P tagf (sc_us P c) (ss_out P s) ->
  drained P s = true ->
  (forall p pid, peer_view P s p pid = keyed_table P tagf (sc_us P c) (ss_out P s) p pid) /\
  (forall p : N,
     Permutation (map (ExportViewSpec.norm (sc_sess P c)) (AdjRIBOut.tbl_get p (AdjRIBOut.tbl (ss_out P s))))
                 (map (ExportViewSpec.norm (sc_sess P c))
                      (ExportViewSpec.export_view (apply (sc_exp P c)) (sc_sess P c) p
                         (visible (sc_opts P c) (ps_loc P st) (lpfx p))))).
Proof. exact peer_view_converges. Qed.
Print Assumptions Pipeline_peer_view_converges.

(* 4. After SessionDown i - and as long as i stays down - nothing learned from i is a candidate of any prefix, hence
   (visible is a prefix of the candidates) nothing learned from i is shown to any session: by 2 and 3 its Adj-RIB-Out
   and, once drained, its peer's view are the export of paths learned from other sessions only. *)
Theorem Pipeline_session_down_removes_contribution :
  forall (P : Type) (apply : P -> N -> AdjRIBOut.path -> option AdjRIBOut.path)
         (sel : nat -> list (LocRIBClients.entry AdjRIBOut.path) -> list (LocRIBClients.entry AdjRIBOut.path) * nat)
         (tagf : AdjRIBOut.bgp -> N),
  LocRIBClientsSpec.sel_ok AdjRIBOut.path sel ->
  forall (cfgs : list (scfg P)) (evs : list event) (i : nat) (c : scfg P) (s : sst P),
  let st := run P apply sel tagf cfgs evs in
  distinct_peers P cfgs ->
  nth_error cfgs i = Some c -> nth_error (ps_sess P st) i = Some s -> ss_up P s = false ->
  forall (p : N) (x : AdjRIBOut.path),
    (In x (candidates P st p) -> src_of x <> Some (sc_ip P c)) /\
    (forall o, In x (visible o (ps_loc P st) (lpfx p)) -> src_of x <> Some (sc_ip P c)).
Proof. exact session_down_removes_contribution. Qed.
Print Assumptions Pipeline_session_down_removes_contribution.

(* 5. Non-interference: an event of session k never changes what another session's Adj-RIB-In holds, whom it serves,
   what it told its clients, its policy or its attributes (icore); announcements, withdrawals and sender steps of k
   leave every other session's receiving half untouched altogether; only a session coming up or going down is seen
   by the others, through the VRF's contributing ASN / cluster-id refcounters. *)
Theorem Pipeline_noninterference :
  forall (P : Type) (apply : P -> N -> AdjRIBOut.path -> option AdjRIBOut.path)
         (sel : nat -> list (LocRIBClients.entry AdjRIBOut.path) -> list (LocRIBClients.entry AdjRIBOut.path) * nat)
         (tagf : AdjRIBOut.bgp -> N) (cfgs : list (scfg P)) (st : pst P) (ev : event) (j : nat),
  ev_session ev <> j ->
  nth_error (map icore (map (inpart P) (ps_sess P (step P apply sel tagf cfgs st ev)))) j =
  nth_error (map icore (map (inpart P) (ps_sess P st))) j /\
  match ev with
  | EUp _ | EDown _ => True
  | _ => nth_error (map (inpart P) (ps_sess P (step P apply sel tagf cfgs st ev))) j = nth_error (map (inpart P) (ps_sess P st)) j
  end.
Proof. exact noninterference. Qed.
Print Assumptions Pipeline_noninterference.

(* 6. C02, composed: two pipelines - configurations, histories, arrival orders across sessions and the (admissible)
   selections may all differ - whose candidates of a prefix are the same multiset for the decision process hold them
   with the same key list and ECMP count; if no two candidates tie, both Loc-RIBs show every client the same paths
   (hence, by 2, the Adj-RIB-Outs of equally configured sessions agree). *)
Theorem Pipeline_selection_order_independent :
  forall (P1 P2 : Type) apply1 apply2 sel1 sel2 tagf1 tagf2 (cfgs1 : list (scfg P1)) (cfgs2 : list (scfg P2)) evs1 evs2 p,
  sel_decides sel1 -> sel_decides sel2 ->
  let st1 := run P1 apply1 sel1 tagf1 cfgs1 evs1 in
  let st2 := run P2 apply2 sel2 tagf2 cfgs2 evs2 in
  Permutation (map wp_of (candidates P1 st1 p)) (map wp_of (candidates P2 st2 p)) ->
  map PathSelSpec.pkey (map ps_of (candidates P1 st1 p)) = map PathSelSpec.pkey (map ps_of (candidates P2 st2 p)) /\
  LocRIBClients.ecmp (LocRIBClients.route_at (ps_loc P1 st1) (lpfx p)) =
  LocRIBClients.ecmp (LocRIBClients.route_at (ps_loc P2 st2) (lpfx p)) /\
  (NoDup (map PathSelSpec.pkey (map ps_of (candidates P1 st1 p))) ->
   Permutation (candidates P1 st1 p) (candidates P2 st2 p) ->
   forall o, visible o (ps_loc P1 st1) (lpfx p) = visible o (ps_loc P2 st2) (lpfx p)).
Proof. exact selection_order_independent. Qed.
Print Assumptions Pipeline_selection_order_independent.

(* ---- the end-to-end statement without log_tracks_table is false on the current code (known finding
   addpath-duplicate-export-withdrawn-while-copy-remains): a drained add-path session whose Adj-RIB-Out holds a route
   for prefix 0 under path id 1 while the peer was told to withdraw it. *)
Theorem Pipeline_peer_view_converges_refuted_duplicate :
  let s := ex_sess_at dup_state 1 in
  let c := nth 1 dup_cfgs (ex_scfg true false 0 0 (fun _ _ => None)) in
  ss_up AdjRIBOut.chain s = true /\ drained AdjRIBOut.chain s = true /\
  AdjRIBOut.errs (ss_out AdjRIBOut.chain s) = 0%N /\
  keyed_table AdjRIBOut.chain ex_tagf (sc_us AdjRIBOut.chain c) (ss_out AdjRIBOut.chain s) 0%N 1%N = Some 167772379303809%N /\
  peer_view AdjRIBOut.chain s 0%N 1%N = None /\
  ~ log_tracks_table AdjRIBOut.chain ex_tagf (sc_us AdjRIBOut.chain c) (ss_out AdjRIBOut.chain s).
Proof. exact refuted_duplicate. Qed.
Print Assumptions Pipeline_peer_view_converges_refuted_duplicate.

(* ---- Examples (Spec/PipelineSpec.v: ex_cfgs = two route-server clients that announce prefix 1, the second one's
   import policy sets LOCAL_PREF 300, and an iBGP listener; selection: highest LOCAL_PREF). *)

(* the selection of the examples meets the hypothesis of 1-4 *)
Example Pipeline_example_sel_ok : LocRIBClientsSpec.sel_ok AdjRIBOut.path ex_sel.
Proof. exact ex_sel_ok. Qed.

(* 1: both announcements are candidates, the rewritten one (LOCAL_PREF 300) first; the union of contributions is the
   same two paths; after the second client went down only the first client's path is left *)
Example Pipeline_example_locrib :
  map lp_of (candidates _ (ex_run (ex_evs1 ++ ex_drain2a)) 1%N) = [300%N; 100%N] /\
  Permutation (candidates _ (ex_run (ex_evs1 ++ ex_drain2a)) 1%N)
              (union_of_contributions _ ex_cfgs (ex_run (ex_evs1 ++ ex_drain2a)) 1%N) /\
  map src_of (candidates _ (ex_run (ex_evs1 ++ ex_drain2a ++ [EDown 1])) 1%N) = [Some 167772161%N] /\
  distinct_peers _ ex_cfgs.
Proof.
  split; [vm_compute; reflexivity|]. split; [vm_compute; apply perm_swap|]. split; [vm_compute; reflexivity|].
  vm_compute. repeat constructor; cbn; intuition discriminate.
Qed.

(* 2/3: the listener's Adj-RIB-Out holds the export of the best candidate; once its sender is drained its peer has
   exactly that route (the tag of the LOCAL_PREF-300 path); after the second client went down and the sender was
   drained again, the peer has the first client's path instead, and no candidate is learned from the second client *)
Example Pipeline_example_end_to_end :
  let st1 := ex_run (ex_evs1 ++ ex_drain2a) in
  let st2 := ex_run (ex_evs1 ++ ex_drain2a ++ [EDown 1] ++ ex_drain2b) in
  map (fun e => (fst e, lp_of (snd e))) (AdjRIBOut.tbl (ss_out _ (ex_sess_at st1 2))) = [(1%N, 300%N)] /\
  drained _ (ex_sess_at st1 2) = true /\
  peer_view _ (ex_sess_at st1 2) 1%N 0%N = Some (ex_tagf_of 201326594 300 167772162) /\
  drained _ (ex_sess_at st2 2) = true /\
  peer_view _ (ex_sess_at st2 2) 1%N 0%N = Some (ex_tagf_of 201326593 100 167772161) /\
  ss_up _ (ex_sess_at st2 1) = false /\
  locrib_paths_distinct _ st2.
Proof.
  cbv zeta. repeat split; try (vm_compute; reflexivity).
  vm_compute. repeat constructor; cbn; intuition discriminate.
Qed.

(* 5: the announcement of client 1 leaves client 0's receiving half untouched *)
Example Pipeline_example_noninterference :
  let st := ex_run ex_evs1 in
  AdjRIBIn.tab (ss_in _ (ex_sess_at (step _ AdjRIBOut.interp ex_sel ex_tagf ex_cfgs st (EAnnounce 1 2%N (ex_path 201326595 65102))) 0)) =
  AdjRIBIn.tab (ss_in _ (ex_sess_at st 0)) /\
  length (AdjRIBIn.tab (ss_in _ (ex_sess_at st 0))) = 1.
Proof. cbv zeta. split; vm_compute; reflexivity. Qed.

(* 3b is not vacuous: on the example (the listener after both clients announced and its sender was drained) every
   hypothesis of Pipeline_peer_view_converges holds - C08's guards on the recorded views, C10's four hypotheses on the
   recorded labels, the interface condition - and the theorem gives the peer's view and the table *)
Example Pipeline_example_applies :
  (forall p pid, peer_view _ ex_s2 p pid = keyed_table _ ex_tagf (sc_us _ ex_c2) (ss_out _ ex_s2) p pid) /\
  peer_view _ ex_s2 1%N 0%N = Some (ex_tagf_of 201326594 300 167772162).
Proof.
  destruct ex_state_facts as [HD [Hc [Hs [Hu [HE Hdr]]]]].
  destruct ex_c10_guards as [G1 [G2 [G3 G4]]].
  split; [|vm_compute; reflexivity].
  exact (proj1 (Pipeline_peer_view_converges _ AdjRIBOut.interp ex_sel ex_tagf ex_sel_ok ex_cfgs (ex_evs1 ++ ex_drain2a) 2 ex_c2 ex_s2
                  HD Hc Hs Hu ex_guards_hold HE G1 G2 G3 G4 ex_log_tracks Hdr)).
Qed.
