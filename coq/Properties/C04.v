(* C04 - Loc-RIB clients hold exactly the selected paths they asked for.
   Only statements here; the proofs live in Proofs/LocRIBClientsProofs.v.

   Reading guide.  [run val cmp eqv sel init [] ops] executes a history of LocRIB operations
   (AddPath / RemovePath / ReplacePath / RegisterWithOptions / Unregister / RefreshClient) on the
   model of routingtable/locRIB and returns the final state and, per operation, the callbacks
   delivered to clients; None would be a Go panic.  [sel] stands for Route.PathSelection and is
   arbitrary up to [sel_ok] (it permutes the stored paths and reports an ECMP count not above
   their number); [cmp]/[eqv] stand for Path.Compare/Path.Equal and are arbitrary.
   [held c p tr] is client c's own account for prefix p: initial dump plus additions minus
   removals since its latest registration (None if it was ever told to remove a path it did not
   hold).  [want o r] = the first [limit o (ecmp r)] paths of the selection of route r. *)
From Coq Require Import List Arith Permutation.
Import ListNotations.
From BioVerif Require Import Model.LocRIBClients Spec.LocRIBClientsSpec Proofs.LocRIBClientsProofs.

(* For every history (clients registered before, during or after route changes, any options, any
   re-registrations): the history runs without panic, and every currently registered client holds,
   for every prefix, exactly the path objects (with their attributes) that its option admits from
   the current selection - as a multiset; removals never miss. *)
Theorem C04_clients_hold_selection :
  forall (val : Type) (cmp eqv : val -> val -> bool)
         (sel : nat -> list (entry val) -> list (entry val) * nat),
  sel_ok val sel ->
  forall ops : list (op val),
  exists (st : state val) (tr : trace val),
    run val cmp eqv sel init [] ops = Some (st, tr) /\
    forall (c : cid) (o : opts) (p : pfx),
      lookup c (clients st) = Some o ->
      exists h, held val c p tr = Some h /\ Permutation h (want val o (route_at st p)).
Proof. exact clients_hold_selection. Qed.
Print Assumptions C04_clients_hold_selection.

(* The same as a multiset of path VALUES (what a client that identifies paths by their attributes
   sees; the initial dump hands out copies). *)
Theorem C04_clients_hold_selection_values :
  forall (val : Type) (cmp eqv : val -> val -> bool)
         (sel : nat -> list (entry val) -> list (entry val) * nat),
  sel_ok val sel ->
  forall (ops : list (op val)) (st : state val) (tr : trace val),
  run val cmp eqv sel init [] ops = Some (st, tr) ->
  forall (c : cid) (o : opts) (p : pfx),
    lookup c (clients st) = Some o ->
    exists h, held val c p tr = Some h /\
              Permutation (map snd h) (map snd (want val o (route_at st p))).
Proof. exact clients_hold_selection_values. Qed.
Print Assumptions C04_clients_hold_selection_values.

(* After Unregister(c), as long as c is not registered again, no operation delivers anything to c;
   the only callbacks c can still see are the empty RefreshRoute lists answering its own explicit
   RefreshClient(c) request.  (No hypothesis on sel is needed.) *)
Theorem C04_silent_after_unregister :
  forall (val : Type) (cmp eqv : val -> val -> bool)
         (sel : nat -> list (entry val) -> list (entry val) * nat)
         (ops1 : list (op val)) (c : cid) (ops2 : list (op val))
         (st : state val) (tr : trace val),
  (forall oc : opts, ~ In (ORegister c oc) ops2) ->
  run val cmp eqv sel init [] (ops1 ++ OUnregister c :: ops2) = Some (st, tr) ->
  exists tr1 tr2,
    tr = tr1 ++ (OUnregister c, []) :: tr2 /\
    map fst tr1 = ops1 /\ map fst tr2 = ops2 /\
    Forall (quiet_for val c) tr2.
Proof. exact silent_after_unregister. Qed.
Print Assumptions C04_silent_after_unregister.

(* RefreshClient(c) of a registered client re-sends, for every route (one per prefix), exactly
   the paths the client is entitled to, and changes nothing. *)
Theorem C04_refresh_resends_selection :
  forall (val : Type) (cmp eqv : val -> val -> bool)
         (sel : nat -> list (entry val) -> list (entry val) * nat),
  sel_ok val sel ->
  forall (ops : list (op val)) (st : state val) (tr : trace val) (c : cid) (o : opts),
  run val cmp eqv sel init [] ops = Some (st, tr) ->
  lookup c (clients st) = Some o ->
  NoDup (map fst (routes st)) /\
  step val cmp eqv sel st (ORefresh c) =
  Ok (tick val st) (map (fun pr => CbRefresh c (fst pr) (want val o (snd pr))) (routes st)).
Proof. exact refresh_resends_selection. Qed.
Print Assumptions C04_refresh_resends_selection.

(* Non-vacuity: the hypothesis on sel is satisfiable (highest LOCAL_PREF first, ECMP = the paths
   sharing it) ... *)
Example C04_example_sel_ok : sel_ok (nat * nat) ref_sel.
Proof. exact ref_sel_ok. Qed.

(* ... and on a history with an ECMP client (0), a MaxPaths-1 client (1) registered while routes
   exist and a best-only client (2) that comes and goes, with a best-path change, duplicates of
   the value (2,1), ECMP growth/shrink and a replacement, the accounts are non-trivial. *)
Example C04_example_history :
  match run (nat * nat) pair_eqb pair_eqb ref_sel init []
    [ORegister 0 (mkOpts false true 0); OAdd 7 (2, 1); OAdd 7 (2, 2);
      ORegister 1 (mkOpts false false 1); ORegister 2 (mkOpts true false 0);
      OAdd 7 (3, 1); OAdd 7 (2, 1); ORemove 7 (3, 1)] with
  | Some (st, tr) =>
    route_at st 7 = mkRoute [(1, (2, 1)); (2, (2, 2)); (6, (2, 1))] 3 /\
    held _ 0 7 tr = Some [(6, (2, 1)); (2, (2, 2)); (1, (2, 1))] /\
    held _ 1 7 tr = Some [(1, (2, 1))] /\
    held _ 2 7 tr = Some [(1, (2, 1))] /\
    nth_error tr 5 =
      Some (OAdd 7 (3, 1),
            [CbRemove 0 7 (2, (2, 2)); CbRemove 0 7 (1, (2, 1)); CbRemove 1 7 (2, (2, 2));
             CbRemove 2 7 (2, (2, 2)); CbAdd 0 7 (5, (3, 1)); CbAdd 1 7 (5, (3, 1));
             CbAdd 2 7 (5, (3, 1))])
  | None => False
  end.
Proof. vm_compute. repeat split. Qed.
