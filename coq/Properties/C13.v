(* C13 - Tables are isolated: exporting a route never alters stored routes.
   Only statements here; proofs live in Proofs/HeapProofs.v and Proofs/HeapWorld.v.

   Model.Heap: routes are objects in a store (path object -> BGPPathA block, blocks shared through the
   deduplication cache); tables - the Loc-RIB, Adj-RIB-Ins, every session's Adj-RIB-Out - hold object ids.
   hstep is one export-side operation of a session: AddPath (advertise), RemovePath, ReplaceFilterChain
   (refresh: filter and rewrite again under a new policy), written as the code performs it: which object is
   copied, which object is assigned to in place.  An object id below nxt h is an object that exists in h. *)
From Coq Require Import List NArith.
Import ListNotations.
From BioVerif Require Import Model.PathIDs Model.AdjRIBOut Model.Heap Spec.HeapSpec
  Proofs.HeapProofs Proofs.HeapWorld.
Local Open Scope N_scope.

(* For every policy type and function, every session kind, every store, every state of the session's
   Adj-RIB-Out and every export-side operation with ANY arguments (any object of the store, any view):
   every path object that existed before - wherever it is stored: in the Loc-RIB, in an Adj-RIB-In, in
   another session's Adj-RIB-Out or in this session's own table - reads the same afterwards; every
   BGPPathA block that existed is untouched (so neither does anything change that shares one); hence
   every table (any list of existing objects) holds the same routes. *)
Theorem C13_isolation :
  forall (P : Type) (apply : P -> N -> path -> option path) (s : sess) (x : heap * haro P) (o : hop P),
  wfh (fst x) ->
  let x' := hstep P apply s x o in
  wfh (fst x') /\
  (forall oid, oid < nxt (fst x) -> read (fst x') oid = read (fst x) oid) /\
  (forall k, k < nxt (fst x) -> blk_get k (blks (fst x')) = blk_get k (blks (fst x))) /\
  (forall tb : list N, Forall (fun oid => oid < nxt (fst x)) tb -> map (read (fst x')) tb = map (read (fst x)) tb).
Proof. exact isolation_step. Qed.
Print Assumptions C13_isolation.

(* ... and over whole histories of a world with two sessions on one store, in which the import side keeps
   storing new (deduplicated or private) path objects and both sessions keep advertising, withdrawing and
   replacing their export policy: a route, once stored, reads the same ever after. *)
Theorem C13_isolation_history :
  forall (P : Type) (apply : P -> N -> path -> option path) (sa sb : sess)
         (ops : list (wop P)) (w : world P) oid,
  wfh (w_heap w) -> oid < nxt (w_heap w) ->
  read (w_heap (wrun P apply sa sb w ops)) oid = read (w_heap w) oid.
Proof. exact isolation_history. Qed.
Print Assumptions C13_isolation_history.

(* the initial store is well-formed and stays so *)
Theorem C13_store_wellformed :
  forall (P : Type) (apply : P -> N -> path -> option path) (sa sb : sess) (ops : list (wop P)) (w : world P),
  wfh (w_heap w) -> wfh (w_heap (wrun P apply sa sb w ops)).
Proof. intros. now apply wrun_ok. Qed.
Print Assumptions C13_store_wellformed.

(* Non-vacuity / expressiveness: the model distinguishes "rewrite a copy" from "rewrite in place". Applying
   checkPropagateUpdate to the Loc-RIB's own object, as RefreshRoute did before fix 678760d8, changes the
   Loc-RIB's route AND the Adj-RIB-In's route that shares the deduplicated block. *)
Example C13_example_in_place_breaks :
  let h1 := fst (hnew heap_empty (PBgp 0 bad_path) true) in
  let h2 := fst (hnew h1 (PBgp 0 bad_path) true) in
  let h3 := refresh_in_place bad_sess h2 0 in
  wfh h2 /\ read h3 0 <> read h2 0 /\ read h3 2 <> read h2 2.
Proof. exact in_place_breaks. Qed.
