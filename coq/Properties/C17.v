(* C17 - Every BGP message bio-rd emits is well-formed and round-trips.
   Only statements here; proofs live in Proofs/BGPRoundtripProofs.v.
   encode* = model of the serializers (Model/BGPEncode.v), decode = model of packet.Decode (Model/BGPCodec.v),
   doptsOf o = the decode options of the session that negotiated the encode options o.
   Spec/BGPRoundtripSpec.v: wf_update / wf_attr / wf_nlri / wf_open say exactly which values the serializers can
   represent under the session options; same_update / same_attr / canon_open say what "the same content" is. *)
From Coq Require Import List NArith.
Import ListNotations.
From BioVerif Require Import Model.BGPCodec Model.BGPEncode Spec.BGPRoundtripSpec Proofs.BGPRoundtripProofs.
Local Open Scope N_scope.

(* Size: whatever structure SerializeUpdate is given, a message it emits is at most 4096 bytes long and carries
   its own length in the header. *)
Theorem C17_update_size : forall o safi u bs, encodeUpdate o safi u = EOk bs ->
  len bs <= 4096 /\ exists rest, bs = header (len bs) 2 ++ rest.
Proof. exact update_size. Qed.
Print Assumptions C17_update_size.

(* UPDATE: every representable UPDATE that is emitted decodes, with the session's options, to an UPDATE with the
   same withdrawn routes, the same NLRI and, attribute by attribute, the same type and value (unknown
   attributes: also Optional/Partial) - AS paths with any number of segments of up to 255 ASNs, communities,
   large communities and cluster lists of any length (extended length), unknown attributes of any length,
   add-path identifiers, MP_REACH_NLRI / MP_UNREACH_NLRI with IPv4 or IPv6 NLRI. *)
Theorem C17_update_roundtrip : forall o u bs,
  wf_update o u -> encodeUpdate o 1 u = EOk bs ->
  len bs <= 4096 /\
  exists u' al, decode (S (length bs)) (doptsOf o) bs = (Ok (mkMsg (len bs) 2 (BUpdate u')) [], al) /\
                same_update o u u'.
Proof. exact update_roundtrip. Qed.
Print Assumptions C17_update_roundtrip.

(* the per-attribute statement behind it: an attribute either puts nothing on the wire (empty communities /
   cluster list) or decodes back, consuming exactly its bytes, to an attribute with the same content *)
Theorem C17_attr_roundtrip : forall o a bs k,
  wf_attr o a -> encodeAttr o a = Some (bs, k) -> len bs <= 4096 ->
  bs = [] \/ exists a', forall fuel, (length bs < fuel)%nat -> emitted o a a' bs fuel.
Proof. exact attr_roundtrip. Qed.
Print Assumptions C17_attr_roundtrip.

Theorem C17_open_roundtrip : forall o m, wf_open m ->
  exists bs al, encodeOpen m = EOk bs /\ len bs <= 4096 /\
                decode (S (length bs)) o bs = (Ok (mkMsg (len bs) 1 (BOpen (canon_open m))) [], al).
Proof. exact open_roundtrip. Qed.
Print Assumptions C17_open_roundtrip.

Theorem C17_notification_roundtrip : forall o code sub, code < 256 -> sub < 256 -> notificationOK code sub = true ->
  exists bs al, encodeNotification code sub = EOk bs /\ len bs = 21 /\
                decode (S (length bs)) o bs = (Ok (mkMsg 21 3 (BNotification code sub)) [], al).
Proof. exact notification_roundtrip. Qed.
Print Assumptions C17_notification_roundtrip.

Theorem C17_keepalive_roundtrip : forall o,
  exists bs al, encodeKeepalive = EOk bs /\ len bs = 19 /\
                decode (S (length bs)) o bs = (Ok (mkMsg 19 4 BKeepalive) [], al).
Proof. exact keepalive_roundtrip. Qed.
Print Assumptions C17_keepalive_roundtrip.

(* The two representability limits in wf_attr that the current code really has (known findings):
   (1) on a session without the 4-octet AS capability, ASNs above 65535 are truncated to 16 bits (no AS_TRANS /
       AS4_PATH): the message round-trips to a DIFFERENT AS path;
   (2) an AS_PATH segment of more than 255 ASNs is written with the count modulo 256: the message does not decode. *)
Definition c17_mk_update (segs : list (N * list N)) : update_msg :=
  mkUpdate 0 [] 0
    [ mkAttr false false false false 2 0 (AVASPath segs);
      mkAttr false false false false 1 0 (AVOrigin 0);
      mkAttr false false false false 3 0 (AVNextHop (IP4 167772161)) ]
    [ mkNLRI 0 [] (mkPfx (IP4 167772160) 8) ].

Theorem C17_roundtrip_refuted_asn_truncated :
  exists o u bs u' al,
    encodeUpdate o 1 u = EOk bs /\
    decode (S (length bs)) (doptsOf o) bs = (Ok (mkMsg (len bs) 2 (BUpdate u')) [], al) /\
    nth 0 (u_attrs u) (mkAttr false false false false 0 0 AVNone) = mkAttr false false false false 2 0 (AVASPath [(2, [65536])]) /\
    a_val (nth 0 (u_attrs u') (mkAttr false false false false 0 0 AVNone)) = AVASPath [(2, [0])].
Proof.
  exists (mkEOpts false false), (c17_mk_update [(2, [65536])]). do 3 eexists.
  split; [vm_compute; reflexivity|]. split; [vm_compute; reflexivity|]. split; reflexivity.
Qed.
Print Assumptions C17_roundtrip_refuted_asn_truncated.

Theorem C17_roundtrip_refuted_long_segment :
  exists o u bs,
    encodeUpdate o 1 u = EOk bs /\ fst (decode (S (length bs)) (doptsOf o) bs) = Err.
Proof.
  exists (mkEOpts false true), (c17_mk_update [(2, repeat 7 256)]). eexists.
  split; [vm_compute; reflexivity|]. vm_compute. reflexivity.
Qed.
Print Assumptions C17_roundtrip_refuted_long_segment.

(* Non-vacuity: a representable UPDATE with a 300-ASN path in two segments, 70 cluster IDs (extended length), a
   300-byte unknown attribute with the Partial flag and an add-path NLRI is emitted and round-trips. *)
Definition c17_example : update_msg :=
  mkUpdate 0 [] 0
    [ mkAttr false false false false 2 0 (AVASPath [(2, repeat 4200000000 255); (2, repeat 65001 45)]);
      mkAttr false false false false 1 0 (AVOrigin 2);
      mkAttr false false false false 3 0 (AVNextHop (IP4 167772161));
      mkAttr false false false false 10 0 (AVCluster (repeat 1 70));
      mkAttr true true true false 99 0 (AVUnknown (repeat 171 300)) ]
    [ mkNLRI 7 [] (mkPfx (IP4 167772160) 8) ].
Example C17_example_roundtrip :
  exists bs, encodeUpdate (mkEOpts true true) 1 c17_example = EOk bs /\ len bs = 1836 /\
  exists u' al, decode (S (length bs)) (doptsOf (mkEOpts true true)) bs = (Ok (mkMsg 1836 2 (BUpdate u')) [], al) /\
    u_nlri u' = u_nlri c17_example /\ map a_val (u_attrs u') = map a_val (u_attrs c17_example).
Proof.
  eexists. split; [vm_compute; reflexivity|]. split; [vm_compute; reflexivity|].
  do 2 eexists. split; [vm_compute; reflexivity|]. split; vm_compute; reflexivity.
Qed.

(* the hypothesis wf_update is satisfiable: a plain announcement as the update sender builds it *)
Definition c17_small : update_msg :=
  mkUpdate 0 [] 0
    [ mkAttr false false false false 2 0 (AVASPath [(2, [65001; 4200000000])]);
      mkAttr false false false false 1 0 (AVOrigin 0);
      mkAttr false false false false 3 0 (AVNextHop (IP4 167772161));
      mkAttr false false false false 8 0 (AVComms [4259840100]) ]
    [ mkNLRI 0 [] (mkPfx (IP4 167772160) 8) ].
Example C17_example_wf : wf_update (mkEOpts false true) c17_small.
Proof.
  unfold wf_update, c17_small. cbn [u_withdrawn u_attrs u_nlri useAddPath].
  split; [constructor|]. split.
  { repeat constructor; unfold wf_attr; cbn [a_type a_val N.eqb Pos.eqb orb use32].
    - eexists. split; [reflexivity|]. cbn. constructor; [|constructor]. unfold seg_ok. cbn [fst snd].
      split; [right; reflexivity|]. split; [vm_compute; split; congruence|].
      repeat constructor; vm_compute; reflexivity.
    - eexists. split; [reflexivity|]. vm_compute. reflexivity.
    - eexists. split; [reflexivity|]. vm_compute. reflexivity.
    - eexists. split; [reflexivity|]. repeat constructor. }
  split.
  { repeat constructor; cbn; try reflexivity; try (vm_compute; congruence). }
  split; [vm_compute; reflexivity|]. intros _. vm_compute. reflexivity.
Qed.
