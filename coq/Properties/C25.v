(* C25 - Table operations and session control never deadlock.
   PARTIAL (DESIGN.md 3.3, 6, 8): the theorems are about the lock / channel tables that
   tools/locktab regenerates from the Go source on every run (Gen/LockModel.v) and about an
   abstract semantics of mutexes and rendezvous (Model/LockSem.v).  That the tables
   over-approximate the program is an assumption; real interleavings are only searched by the
   stress harness.  Only statements here; proofs in Proofs/LockProofs.v, Proofs/LockInstance.v. *)
From Coq Require Import List NArith String.
Import ListNotations.
From BioVerif Require Import Model.LockSem Gen.LockModel Spec.LockSpec Proofs.LockProofs Proofs.LockInstance.

(* ---- meta-theorems, proved once for every set of threads, every schedule, unbounded length *)

(* Ranked lock order (= acyclic lock-order graph), no lock leak, no rendezvous under a lock: in every
   reachable state in which no thread can move, every thread has finished or waits at a channel
   operation holding no lock -- no thread is ever blocked on a mutex for ever. *)
Theorem C25_ranked_lock_order_no_deadlock : forall (rank : lock -> N) (ps : list (list ev)) (s : state),
  Forall (wf rank []) ps -> reachable ps s -> ~ can_step s -> forall t, In t s -> parked t.
Proof. exact ranked_lock_order_no_deadlock. Qed.
Print Assumptions C25_ranked_lock_order_no_deadlock.

(* ... and without channel operations the only such states are the final ones *)
Theorem C25_ranked_lock_order_progress : forall rank ps s,
  Forall (wf rank []) ps -> Forall chan_free ps -> reachable ps s -> ~ can_step s -> finished s.
Proof. exact ranked_lock_order_progress. Qed.
Print Assumptions C25_ranked_lock_order_progress.

(* No return with a lock held: finished threads hold nothing, a mutex somebody waits for is held by
   a thread that still has work to do, and when all threads are done every mutex is free (the table
   stays usable). *)
Theorem C25_no_return_holding_lock_progress : forall rank ps s,
  Forall (wf rank []) ps -> reachable ps s ->
  (forall t, In t s -> prog t = [] -> held t = []) /\
  (forall t l p, In t s -> prog t = Acq l :: p -> ~ free s l ->
     exists h, In h s /\ In l (held h) /\ prog h <> []) /\
  (finished s -> forall l, free s l).
Proof. exact no_return_holding_lock_progress. Qed.
Print Assumptions C25_no_return_holding_lock_progress.

(* ---- instance theorems: the generated tables, by computation; exceptions are explicit sites
        (Spec/LockSpec.v: edge_exceptions, leak_exceptions, rendezvous_exceptions) *)

(* the lock-order graph of bio-rd's RIB pipeline and BGP session layer, without the excepted sites, is ranked *)
Theorem C25_lock_order_ranked :
  exists rank : lock -> N, forall e, In e lock_edges -> edge_exc e = None ->
    (rank (fst (fst e)) < rank (snd (fst e)))%N.
Proof. exact lock_order_ranked. Qed.
Print Assumptions C25_lock_order_ranked.

(* with them it is not: Loc-RIB lock -> Adj-RIB-Out lock (route changes) and back (ReplaceFilterChain) *)
Theorem C25_lock_order_refuted :
  ~ exists rank : lock -> N, forall a b, In (a, b) all_edges -> (rank a < rank b)%N.
Proof. exact lock_order_refuted. Qed.
Print Assumptions C25_lock_order_refuted.

(* no function returns with a lock it took still held, except the listed sites *)
Theorem C25_no_lock_leak : forall r, In r lock_leaks -> leak_exc r <> None.
Proof. exact no_lock_leak. Qed.
Print Assumptions C25_no_lock_leak.

(* no blocking operation on an unbuffered channel happens while a lock is held, except the listed sites *)
Theorem C25_no_rendezvous_under_lock : forall r, In r rendezvous_under_lock -> rdv_exc r <> None.
Proof. exact no_rendezvous_under_lock. Qed.
Print Assumptions C25_no_rendezvous_under_lock.

(* the analysis follows every call made under a lock (no call through a function value there) *)
Theorem C25_no_dynamic_call_under_lock : forall d, In d dynamic_calls -> snd d = [].
Proof. exact no_dynamic_call_under_lock. Qed.
Print Assumptions C25_no_dynamic_call_under_lock.

(* lifting: operations that take locks only along the non-excepted edges of the generated graph,
   release what they take and do not rendezvous under a lock complete, under every schedule, or
   wait lock-free at a channel *)
Theorem C25_no_lock_deadlock_partial : forall (ps : list (list ev)) (s : state),
  Forall (conforms good_edges []) ps -> reachable ps s -> ~ can_step s ->
  forall t, In t s -> parked t.
Proof. exact no_lock_deadlock. Qed.
Print Assumptions C25_no_lock_deadlock_partial.

(* ---- non-vacuity, and why each hypothesis is needed *)
Example C25_example_ranked_threads :
  Forall (wf (fun l => l) []) [[Acq 0%N; Acq 1%N; Rel 1%N; Rel 0%N]; [Acq 0%N; Acc 7%N true; Rel 0%N]].
Proof. exact ranked_example. Qed.

Example C25_example_inversion_deadlocks :
  let ps := [[Acq 0%N; Acq 1%N; Rel 1%N; Rel 0%N]; [Acq 1%N; Acq 0%N; Rel 0%N; Rel 1%N]] in
  exists s, reachable ps s /\ ~ can_step s /\ exists t l p, In t s /\ prog t = Acq l :: p.
Proof. exact inversion_deadlocks. Qed.

Example C25_example_leak_deadlocks :
  let ps := [[Acq 0%N]; [Acq 0%N; Rel 0%N]] in
  exists s, reachable ps s /\ ~ can_step s /\ ~ finished s.
Proof. exact leak_deadlocks. Qed.

Example C25_example_rendezvous_under_lock_deadlocks :
  let ps := [[Acq 0%N; Send 5%N; Rel 0%N]; [Acq 0%N; Rel 0%N; Recv 5%N]] in
  exists s, reachable ps s /\ ~ can_step s /\ exists t, In t s /\ held t <> [] /\ exists c p, prog t = Send c :: p.
Proof. exact rendezvous_under_lock_deadlocks. Qed.
