(* C15 - Prefix and address arithmetic matches the bit-level definitions.
   Only statements here; proofs live in Proofs/Net*.v and Proofs/IPText*.v.
   Model: Model/NetArith.v, Model/IPText.v (transcriptions of /repo/net/prefix.go, ip.go);
   spec: Spec/NetSpec.v (everything defined on the list of address bits, MSB first).
   wf_ip / wf_pfx: an IPv4 address lives in the low 32 bits, words are 64-bit, len <= 32 / 128. *)
From Coq Require Import ZArith Bool List.
Import ListNotations.
From BioVerif Require Import Lib.Word Model.NetArith Model.IPText Spec.NetSpec
  Proofs.NetProofs Proofs.NetSupernet Proofs.IPTextRoundTrip Proofs.IPTextPrefix
  Gen.NetGen Proofs.NetGenTransfer.
Open Scope Z_scope.

(* ---- containment (strict), equality ---- *)
Theorem C15_contains : forall p x, wf_pfx p -> wf_pfx x ->
  (Contains p x = true <-> contains_spec p x).
Proof. exact Contains_correct. Qed.
Print Assumptions C15_contains.

Theorem C15_equal : forall p x, wf_pfx p -> wf_pfx x ->
  (pfx_equal p x = true <-> equal_spec p x).
Proof. exact Equal_correct. Qed.
Print Assumptions C15_equal.

(* ---- host-bit validity, base address ---- *)
Theorem C15_valid : forall p, wf_pfx p -> (Valid p = true <-> valid_spec p).
Proof. exact Valid_correct. Qed.
Print Assumptions C15_valid.

Theorem C15_baseaddr : forall p, wf_pfx p ->
  wf_ip (BaseAddr p) /\ legacy (BaseAddr p) = legacy (addr p) /\ ip_bits (BaseAddr p) = base_spec p.
Proof. exact BaseAddr_correct. Qed.
Print Assumptions C15_baseaddr.

Theorem C15_valid_iff_base : forall p, wf_pfx p -> (Valid p = true <-> BaseAddr p = addr p).
Proof. exact Valid_iff_base. Qed.
Print Assumptions C15_valid_iff_base.

(* ---- bit at position (every uint8 position, 0 and > width included) ---- *)
Theorem C15_bitat : forall a pos, wf_ip a -> 0 <= pos < 256 -> BitAtPosition a pos = bit_spec a pos.
Proof. exact BitAtPosition_correct. Qed.
Print Assumptions C15_bitat.

(* ---- address ordering = lexicographic order of the bits (one family) ---- *)
Theorem C15_compare : forall a b, wf_ip a -> wf_ip b -> legacy a = legacy b ->
  ip_compare a b = compare_spec a b.
Proof. exact Compare_correct. Qed.
Print Assumptions C15_compare.

(* ---- MaskLastNBits, BytesInAddr ---- *)
Theorem C15_masklast : forall a n, wf_ip a -> 0 <= n <= width a ->
  wf_ip (MaskLastNBits a n) /\ legacy (MaskLastNBits a n) = legacy a /\
  ip_bits (MaskLastNBits a n) = mask_last_spec a (Z.to_nat n).
Proof. exact MaskLastNBits_correct. Qed.
Print Assumptions C15_masklast.

Theorem C15_bytesinaddr : forall l, 0 <= l < 256 -> bytes_spec l (BytesInAddr l).
Proof. exact BytesInAddr_correct. Qed.
Print Assumptions C15_bytesinaddr.

(* ---- common supernet ---- *)
(* The trie (routingtable/trie.go: addPath -> newSuperNode) calls GetSupernet only when the two
   prefixes are not Equal and neither Contains the other.  For canonical prefixes of one family: *)
Theorem C15_trie_precondition : forall p x,
  wf_pfx p -> wf_pfx x -> same_family (addr p) (addr x) -> Valid p = true -> Valid x = true ->
  ((pfx_equal p x = false /\ Contains p x = false /\ Contains x p = false) <->
   (lcp (pbits p) (pbits x) < Z.to_nat (Z.min (plen p) (plen x)))%nat).
Proof. exact trie_precondition_iff. Qed.
Print Assumptions C15_trie_precondition.

(* ... and then the result is the longest common prefix of the two, it is canonical, it strictly
   contains both, and the two prefixes differ in the bit right after it (which is the bit the
   trie uses to place them on different sides) *)
Theorem C15_supernet_trie : forall p x,
  wf_pfx p -> wf_pfx x -> same_family (addr p) (addr x) ->
  Valid p = true -> Valid x = true ->
  pfx_equal p x = false -> Contains p x = false -> Contains x p = false ->
  exists s, GetSupernet p x = Some s /\
    let k := lcp (pbits p) (pbits x) in
    plen s = Z.of_nat k /\ pbits s = supernet_bits k p /\
    wf_pfx s /\ same_family (addr s) (addr p) /\
    Contains s p = true /\ Contains s x = true /\ Valid s = true /\
    BitAtPosition (addr p) (plen s + 1) <> BitAtPosition (addr x) (plen s + 1).
Proof. exact GetSupernet_trie. Qed.
Print Assumptions C15_supernet_trie.

(* what the two functions compute for ALL addresses (no validity assumption): the first k bits
   of pfx, k = min(common bits, min(len)-1) for IPv4 but min(common bits, min(len)) for IPv6 *)
Theorem C15_supernet4 : forall p x,
  wf_pfx p -> wf_pfx x -> legacy (addr p) = true -> legacy (addr x) = true ->
  1 <= Z.min (plen p) (plen x) ->
  exists s, supernetIPv4 p x = Some s /\
    let k := Nat.min (lcp (pbits p) (pbits x)) (Z.to_nat (Z.min (plen p) (plen x)) - 1) in
    plen s = Z.of_nat k /\ wf_pfx s /\ legacy (addr s) = true /\ pbits s = supernet_bits k p.
Proof. exact supernetIPv4_correct. Qed.
Print Assumptions C15_supernet4.

Theorem C15_supernet6 : forall p x,
  wf_pfx p -> wf_pfx x -> legacy (addr p) = false -> legacy (addr x) = false ->
  let k := Nat.min (lcp (pbits p) (pbits x)) (Z.to_nat (Z.min (plen p) (plen x))) in
  (k < 128)%nat ->
  exists s, supernetIPv6 p x = Some s /\
    plen s = Z.of_nat k /\ wf_pfx s /\ legacy (addr s) = false /\ pbits s = supernet_bits k p.
Proof. exact supernetIPv6_correct. Qed.
Print Assumptions C15_supernet6.

(* outside the callers' precondition: uint8 wrap of min(len)-1 at length 0 gives a /255 ... *)
Theorem C15_supernet4_len0_wraps : forall p x,
  0 <= lo (addr p) < 2 ^ 32 -> 0 <= lo (addr x) < 2 ^ 32 ->
  0 <= plen p < 256 -> 0 <= plen x < 256 -> Z.min (plen p) (plen x) = 0 ->
  supernetIPv4 p x = Some (mkpfx (IPv4 0) 255).
Proof. exact supernetIPv4_len0_wraps. Qed.
Print Assumptions C15_supernet4_len0_wraps.

(* ... and two identical /128 lose their last address bit *)
Theorem C15_supernet6_at128 : forall p,
  wf_pfx p -> legacy (addr p) = false -> plen p = 128 ->
  supernetIPv6 p p = Some (mkpfx (mkip (hi (addr p)) (lo (addr p) / 2 * 2) false) 128).
Proof. exact supernetIPv6_at128. Qed.
Print Assumptions C15_supernet6_at128.

(* both loops terminate within the model's fuel for every uint8 length *)
Theorem C15_supernet_total4 : forall p x,
  0 <= lo (addr p) -> 0 <= lo (addr x) -> supernetIPv4 p x <> None.
Proof. exact supernetIPv4_total. Qed.
Print Assumptions C15_supernet_total4.

Theorem C15_supernet_total6 : forall p x,
  0 <= plen p < 256 -> 0 <= plen x < 256 -> supernetIPv6 p x <> None.
Proof. exact supernetIPv6_total. Qed.
Print Assumptions C15_supernet_total6.

(* ---- printing then parsing (ParseIP modelled, see Model/IPText.v) ---- *)
Theorem C15_string_total : forall a, wf_ip a -> exists s, ip_string a = Some s.
Proof. exact ip_string_total. Qed.
Print Assumptions C15_string_total.

Theorem C15_parse_format4 : forall a, wf_ip a -> legacy a = true ->
  ip_string a = Some (stringIPv4 a) /\ IPFromString (stringIPv4 a) = Some a.
Proof. exact parse_format4. Qed.
Print Assumptions C15_parse_format4.

(* KNOWN FINDING roundtrip6-v4mapped: an IPv6 value inside ::ffff:0:0/96 is printed as
   "::ffff:xxxx:xxxx" and parsed back as the IPv4 address (net.IP.To4 in IPFromString) *)
Theorem C15_parse_format6_refuted :
  exists a, wf_ip a /\ legacy a = false /\
            exists s, ip_string a = Some s /\ IPFromString s <> Some a.
Proof. exact parse_format6_refuted. Qed.
Print Assumptions C15_parse_format6_refuted.

Theorem C15_parse_format6_partial : forall a, wf_ip a -> legacy a = false -> ~ v4mapped a ->
  exists s, ip_string a = Some s /\ IPFromString s = Some a.
Proof. exact parse_format6_partial. Qed.
Print Assumptions C15_parse_format6_partial.

Theorem C15_parse_format6_v4mapped : forall a, wf_ip a -> legacy a = false -> v4mapped a ->
  exists s, ip_string a = Some s /\ IPFromString s = Some (mkip 0 (lo a mod 2 ^ 32) true).
Proof. exact parse_format6_v4mapped. Qed.
Print Assumptions C15_parse_format6_v4mapped.

(* a prefix: the address part as above, the length always comes back *)
Theorem C15_parse_format_pfx : forall p s a',
  wf_ip (addr p) -> 0 <= plen p < 256 ->
  ip_string (addr p) = Some s -> IPFromString s = Some a' ->
  pfx_string p = Some (s ++ [c_slash] ++ fmt_dec (plen p)) /\
  PrefixFromString (s ++ [c_slash] ++ fmt_dec (plen p)) = Some (mkpfx a' (plen p)).
Proof. exact parse_format_pfx. Qed.
Print Assumptions C15_parse_format_pfx.

(* ---- the model regenerated from the Go source on this run (Gen/NetGen.v, tools/gosub2coq) ---- *)
(* every translated function equals its hand-written transcription, so every theorem above holds
   for what net/prefix.go and net/ip.go say NOW; two of them restated directly *)
Theorem C15_generated_model_agrees :
  (forall p x, g_Prefix_Contains p x = Contains p x) /\
  (forall p x, g_Prefix_containsIPv4 p x = containsIPv4 p x) /\
  (forall p x, g_Prefix_containsIPv6 p x = containsIPv6 p x) /\
  (forall p x, g_Prefix_Equal p x = pfx_equal p x) /\
  (forall a b, g_IP_Equal a b = ip_equal a b) /\
  (forall a b, g_IP_Compare a b = ip_compare a b) /\
  (forall p x, g_Prefix_supernetIPv4 p x = supernetIPv4 p x) /\
  (forall p x, g_Prefix_supernetIPv6 p x = supernetIPv6 p x) /\
  (forall p x, g_Prefix_GetSupernet p x = GetSupernet p x) /\
  (forall p, g_Prefix_Valid p = Valid p) /\
  (forall x n, g_checkLastNBitsUint32 x n = checkLastNBitsUint32 x n) /\
  (forall x n, g_checkLastNBitsUint64 x n = checkLastNBitsUint64 x n) /\
  (forall p, g_Prefix_baseAddr4 p = baseAddr4 p) /\
  (forall p, g_Prefix_baseAddr6 p = baseAddr6 p) /\
  (forall p, g_Prefix_BaseAddr p = BaseAddr p) /\
  (forall a pos, g_IP_BitAtPosition a pos = BitAtPosition a pos) /\
  (forall a pos, g_IP_bitAtPositionIPv4 a pos = bitAtPositionIPv4 a pos) /\
  (forall a pos, g_IP_bitAtPositionIPv6 a pos = bitAtPositionIPv6 a pos) /\
  (forall a n, g_IP_MaskLastNBits a n = MaskLastNBits a n) /\
  (forall a n, g_IP_maskLastNBitsIPv4 a n = maskLastNBitsIPv4 a n) /\
  (forall a n, g_IP_maskLastNBitsIPv6 a n = maskLastNBitsIPv6 a n) /\
  (forall a, g_IP_ToUint32 a = ToUint32 a) /\
  (forall a b, g_min a b = wminu a b) /\
  (forall v, g_IPv4 v = IPv4 v) /\ (forall h l, g_IPv6 h l = IPv6 h l) /\ (forall a l, g_NewPfx a l = NewPfx a l).
Proof. exact generated_model_agrees. Qed.
Print Assumptions C15_generated_model_agrees.

Theorem C15_contains_gen : forall p x, wf_pfx p -> wf_pfx x ->
  (g_Prefix_Contains p x = true <-> contains_spec p x).
Proof. exact Contains_gen_correct. Qed.
Print Assumptions C15_contains_gen.

Theorem C15_supernet_trie_gen : forall p x,
  wf_pfx p -> wf_pfx x -> same_family (addr p) (addr x) ->
  g_Prefix_Valid p = true -> g_Prefix_Valid x = true ->
  g_Prefix_Equal p x = false -> g_Prefix_Contains p x = false -> g_Prefix_Contains x p = false ->
  exists s, g_Prefix_GetSupernet p x = Some s /\
    let k := lcp (pbits p) (pbits x) in
    plen s = Z.of_nat k /\ pbits s = supernet_bits k p /\
    wf_pfx s /\ same_family (addr s) (addr p) /\
    g_Prefix_Contains s p = true /\ g_Prefix_Contains s x = true /\ g_Prefix_Valid s = true /\
    g_IP_BitAtPosition (addr p) (plen s + 1) <> g_IP_BitAtPosition (addr x) (plen s + 1).
Proof. exact GetSupernet_gen_trie. Qed.
Print Assumptions C15_supernet_trie_gen.

(* ---- non-vacuity ---- *)
(* 2001:db8::/48 does not contain 2001:db8:ffff::/64 (it did before the fix of the masks) *)
Example C15_example_contains6 :
  Contains (mkpfx (IPv6 0x20010db800000000 0) 48) (mkpfx (IPv6 0x20010db8ffff0000 0) 64) = false /\
  Contains (mkpfx (IPv6 0x20010db800000000 0) 32) (mkpfx (IPv6 0x20010db8ffff0000 0) 64) = true /\
  Contains (mkpfx (IPv4 0) 0) (mkpfx (IPv6 0x20010db800000000 0) 32) = false.
Proof. repeat split; vm_compute; reflexivity. Qed.

(* common length exactly 64: 2001:db8:0:1::/128 and 2001:db8:0:1:8000::/128 *)
Example C15_example_supernet_at64 :
  GetSupernet (mkpfx (IPv6 0x20010db800000001 0) 128) (mkpfx (IPv6 0x20010db800000001 0x8000000000000000) 128)
  = Some (mkpfx (IPv6 0x20010db800000001 0) 64).
Proof. vm_compute. reflexivity. Qed.

(* the hypotheses of C15_supernet_trie are satisfiable: 10.0.0.0/9 and 10.128.0.0/9 *)
Example C15_example_trie_precondition :
  let p := mkpfx (IPv4 0x0a000000) 9 in let x := mkpfx (IPv4 0x0a800000) 9 in
  Valid p = true /\ Valid x = true /\ pfx_equal p x = false /\ Contains p x = false /\
  Contains x p = false /\ GetSupernet p x = Some (mkpfx (IPv4 0x0a000000) 8).
Proof. repeat split; vm_compute; reflexivity. Qed.
