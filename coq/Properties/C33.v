(* C33 - IS-IS survives any sequence of interface state changes.
   Only statements here; proofs live in Proofs/IfaProofs.v. Model: Model/Ifa.v (the repaired
   net_ifa.go: done channel re-armed and initialized cleared by _stop, nil-guarded handle Close,
   hello ticker per start; PSNP sender / LSP generation skip interfaces without handle / status). *)
From Coq Require Import List Bool Arith.
Import ListNotations.
From BioVerif Require Import Model.Ifa Spec.IfaSpec Proofs.IfaProofs.

(* For every set of configured interfaces (any mix of active and passive) and EVERY finite sequence
   of device updates (up / not up, addressed to any interface, also to unknown ones): no step
   panics (close of a closed channel, Close/GetMTU/SendPacket on a nil handle, nil device status)
   and none blocks (WaitGroup.Wait on a routine that cannot leave); each event is followed by one
   hello interval of the periodic routines (LSP generation, PSNP sender, hello senders). *)
Theorem C33_no_panic : forall (kinds : list bool) (evs : list event),
  exists s, run (init kinds) evs = Ok s.
Proof. exact no_panic. Qed.
Print Assumptions C33_no_panic.

(* Whenever the last update of an active interface said "up" - in particular after the link went
   down and came back any number of times - the interface sends a hello in the next hello interval
   and frames of a neighbor reach the adjacency code. *)
Theorem C33_hellos_after_up : forall (kinds : list bool) (evs : list event) s i f,
  run (init kinds) evs = Ok s ->
  nth_error s i = Some f ->
  passive f = false ->
  last_up evs i false = true ->
  sends_hellos f = true /\ can_form_adjacency f = true.
Proof. exact hellos_after_up_all. Qed.
Print Assumptions C33_hellos_after_up.

(* Conversely a passive interface, or one whose link is not up, neither sends nor listens. *)
Theorem C33_quiet_otherwise : forall (kinds : list bool) (evs : list event) s i f,
  run (init kinds) evs = Ok s ->
  nth_error s i = Some f ->
  passive f = true \/ last_up evs i false = false ->
  sends_hellos f = false /\ can_form_adjacency f = false.
Proof. exact quiet_otherwise_all. Qed.
Print Assumptions C33_quiet_otherwise.

(* The hello counts a step outputs (what the harness observes on the wire) are exactly what
   sends_hellos says about the state after the step. *)
Theorem C33_hello_output : forall (kinds : list bool) (evs : list event) s e,
  run (init kinds) evs = Ok s ->
  exists s', step s e = Ok (s', map (fun f => if sends_hellos f then 1 else 0) s').
Proof. exact step_output. Qed.
Print Assumptions C33_hello_output.

(* Non-vacuity: an active and a passive interface, the active link flaps twice and is up again. *)
Example C33_example_flaps :
  let evs := [Dev 0 true; Dev 1 true; Dev 0 false; Dev 1 false; Dev 0 true; Dev 0 false; Dev 0 true] in
  match run (init [false; true]) evs with
  | Ok [a; p] => sends_hellos a = true /\ handles a = 3 /\ eth p = NoHandle /\ last_up evs 0 false = true
  | _ => False
  end.
Proof. vm_compute. repeat split; reflexivity. Qed.

(* The primitives do fail where the unrepaired code failed: a second close of the done channel
   and Close on a passive interface's nil handle. *)
Example C33_example_primitives :
  close_chan true = @Panic bool CloseOfClosedChannel /\ handle_close NoHandle = Panic NilHandle /\
  handle_mtu NoHandle = Panic NilHandle /\ dev_deref false = Panic NilDevStatus.
Proof. repeat split; reflexivity. Qed.
