(* C33 - IS-IS survives any sequence of interface state changes.
   Only statements here; proofs live in Proofs/IfaProofs.v. Model: Model/Ifa.v (the repaired
   net_ifa.go: done channel re-armed and initialized cleared by _stop, nil-guarded handle Close,
   hello ticker per start; PSNP sender / LSP generation skip interfaces without handle / status). *)
From Coq Require Import List Bool Arith.
Import ListNotations.
From BioVerif Require Import Model.Ifa Spec.IfaSpec Proofs.IfaProofs.

(* Lock discipline the theorems rely on (a parameter of the model, [head_discipline] = what HEAD does):
   neither the hello sender nor the receiver takes nifa.mu - the lock DeviceUpdate holds from entry to
   return, i.e. also while _stop waits for those two routines. Events: device updates [Dev i up] and
   [DevDuring i up w]: the update with the hello ticker firing (TickDuring) or a frame arriving
   (FrameDuring) WHILE DeviceUpdate holds the lock.

   For every set of configured interfaces (any mix of active and passive) and EVERY finite sequence
   of such events (up / not up, addressed to any interface, also to unknown ones): no step
   panics (close of a closed channel, Close/GetMTU/SendPacket on a nil handle, nil device status)
   and none blocks (WaitGroup.Wait on a routine that cannot leave); each event is followed by one
   hello interval of the periodic routines (LSP generation, PSNP sender, hello senders). *)
Theorem C33_no_panic : forall (kinds : list bool) (evs : list event),
  exists s, run head_discipline (init kinds) evs = Ok s.
Proof. exact no_panic. Qed.
Print Assumptions C33_no_panic.

(* Whenever the last update of an active interface said "up" - in particular after the link went
   down and came back any number of times - the interface sends a hello in the next hello interval
   and frames of a neighbor reach the adjacency code. *)
Theorem C33_hellos_after_up : forall (kinds : list bool) (evs : list event) s i f,
  run head_discipline (init kinds) evs = Ok s ->
  nth_error s i = Some f ->
  passive f = false ->
  last_up evs i false = true ->
  sends_hellos f = true /\ can_form_adjacency f = true.
Proof. exact hellos_after_up_all. Qed.
Print Assumptions C33_hellos_after_up.

(* Conversely a passive interface, or one whose link is not up, neither sends nor listens. *)
Theorem C33_quiet_otherwise : forall (kinds : list bool) (evs : list event) s i f,
  run head_discipline (init kinds) evs = Ok s ->
  nth_error s i = Some f ->
  passive f = true \/ last_up evs i false = false ->
  sends_hellos f = false /\ can_form_adjacency f = false.
Proof. exact quiet_otherwise_all. Qed.
Print Assumptions C33_quiet_otherwise.

(* The hello counts a step outputs (what the harness observes on the wire) are exactly what
   sends_hellos says: the hello a tick during the update produces is sent iff the interface was
   sending before the update; the counts of the following interval are those of the new state. *)
Theorem C33_hello_output : forall (kinds : list bool) (evs : list event) s e,
  run head_discipline (init kinds) evs = Ok s ->
  exists s', step head_discipline s e =
    Ok (s', (match e with
             | Dev _ _ => 0%nat
             | DevDuring i _ TickDuring =>
               match nth_error s i with Some f => if sends_hellos f then 1%nat else 0%nat | None => 0%nat end
             | DevDuring _ _ FrameDuring => 0%nat
             end,
             map (fun f => if sends_hellos f then 1 else 0) s')).
Proof.
  intros kinds evs s e H. destruct (step_output kinds evs s e H) as (s' & Hs). exists s'. rewrite Hs.
  destruct e as [i up | i up [|]]; try reflexivity.
  unfold ev_during. destruct (nth_error s i); reflexivity.
Qed.
Print Assumptions C33_hello_output.

(* The discipline is necessary: flip the parameter (the hello sender takes nifa.mu between tick and
   send - the "data-race fix" of seeded change C33-2r2) and, in ANY state between events in which
   an active interface's link is up, a link-down update during which the hello ticker fires blocks
   for good: _stop waits for the sender, the sender waits for the lock DeviceUpdate holds.
   Same for a receiver that takes the lock. *)
Theorem C33_sender_lock_under_update_blocks :
  (forall f rl us, inv f -> passive f = false -> link_up f = true ->
     device_update_during (mkDisc true rl us) f false TickDuring = Blocked WaitHelloSender) /\
  (forall f sl us, inv f -> passive f = false -> link_up f = true ->
     device_update_during (mkDisc sl true us) f false FrameDuring = Blocked WaitReceiver) /\
  run (mkDisc true false false) (init [false]) [Dev 0 true; DevDuring 0 false TickDuring] = Blocked WaitHelloSender /\
  (exists s, run head_discipline (init [false]) [Dev 0 true; DevDuring 0 false TickDuring; Dev 0 true] = Ok s).
Proof.
  split; [exact sender_lock_blocks |]. split; [exact receiver_lock_blocks |].
  split; [vm_compute; reflexivity |]. eexists. vm_compute. reflexivity.
Qed.
Print Assumptions C33_sender_lock_under_update_blocks.

(* The up event has to be DELIVERED: the device server (protocols/device.Server.notify) calls only its
   current subscribers. On HEAD the subscription made in newNetIfa survives every history - _stop does
   not give it up - so [last_up] in C33_hellos_after_up is what the interface actually saw. *)
Theorem C33_stays_subscribed : forall (kinds : list bool) (evs : list event) s i f,
  run head_discipline (init kinds) evs = Ok s -> nth_error s i = Some f -> subscribed f = true.
Proof. exact stays_subscribed. Qed.
Print Assumptions C33_stays_subscribed.

(* ... and that is necessary: with a _stop that unsubscribes (seeded change C33-2r3) up, down, up
   leaves an active interface whose link is up unsubscribed and silent. (With the real device server
   the Unsubscribe call from inside notify() additionally deadlocks on the server's own lock.) *)
Theorem C33_unsubscribe_in_stop_loses_link_up :
  match run (mkDisc false false true) (init [false]) [Dev 0 true; Dev 0 false; Dev 0 true] with
  | Ok [f] => subscribed f = false /\ sends_hellos f = false /\
              last_up [Dev 0 true; Dev 0 false; Dev 0 true] 0 false = true
  | _ => False
  end.
Proof. exact unsubscribe_in_stop_loses_link_up. Qed.
Print Assumptions C33_unsubscribe_in_stop_loses_link_up.

(* Non-vacuity: an active and a passive interface, the active link flaps twice and is up again. *)
Example C33_example_flaps :
  let evs := [Dev 0 true; Dev 1 true; DevDuring 0 false TickDuring; Dev 1 false; Dev 0 true;
              DevDuring 0 false FrameDuring; DevDuring 0 true TickDuring] in
  match run head_discipline (init [false; true]) evs with
  | Ok [a; p] => sends_hellos a = true /\ handles a = 3 /\ eth p = NoHandle /\ last_up evs 0 false = true
  | _ => False
  end.
Proof. vm_compute. repeat split; reflexivity. Qed.

(* The primitives do fail where the unrepaired code failed: a second close of the done channel
   and Close on a passive interface's nil handle. *)
Example C33_example_primitives :
  close_chan true = @Panic bool CloseOfClosedChannel /\ handle_close NoHandle = Panic NilHandle /\
  handle_mtu NoHandle = Panic NilHandle /\ dev_deref false = Panic NilDevStatus.
Proof. repeat split; reflexivity. Qed.
