(* C22 - OPEN negotiation admits only valid sessions and negotiates correctly.
   Only statements here; proofs live in Proofs/OpenProofs.v and Proofs/OpenAdmission.v.
   Model: Model/FSM.v ([open_received], [process_caps], [sent_open]); specification Spec/OpenSpec.v:
   [valid_open] (version, peer AS resolved through AS_TRANS and the 4-octet capability, identifier,
   hold time 0 or >= 3, RFC 9234 role pairs) and [negotiated_ok] (hold time = the smaller offer; every
   option on exactly when both OPENs advertised it). *)
From Coq Require Import List NArith Bool.
Import ListNotations.
From BioVerif Require Import Model.FSM Spec.RFC4271FSM Spec.OpenSpec
  Proofs.FSMProofs Proofs.OpenProofs Proofs.OpenAdmission.
Local Open Scope N_scope.

(* For ALL configurations and ALL OPENs (any version, AS, identifier, hold time, any list of
   capabilities in any order, repeated or unknown ones included), received in OpenSent over a working
   connection: a valid OPEN is answered with KEEPALIVE only, the session goes to OpenConfirm with
   exactly the negotiated parameters of the specification; an invalid one is answered with an OPEN
   Message Error NOTIFICATION (subcode 1, 2, 3, 6 or 11), the connection is closed and the session is
   Idle. *)
Theorem C22_admits_only_valid : forall (c : cfg) (s : sess) (o : open_msg),
  inv s -> s_st s = OpenSent -> wr_ok s = true ->
  (valid_open c o ->
     s_st (fst (step c s (EMsg (MOpen o)))) = OpenConfirm /\
     snd (step c s (EMsg (MOpen o))) = [SentKeepalive] /\
     negotiated_ok c o (s_neg (fst (step c s (EMsg (MOpen o))))) /\
     s_conn (fst (step c s (EMsg (MOpen o)))) = s_conn s) /\
  (~ valid_open c o ->
     exists sub pre,
       snd (step c s (EMsg (MOpen o))) = pre ++ [SentNotification 2 sub; Closed] /\
       (pre = [] \/ pre = [SentKeepalive]) /\ In sub [1; 2; 3; 6; 11] /\
       s_st (fst (step c s (EMsg (MOpen o)))) = Idle /\
       s_conn (fst (step c s (EMsg (MOpen o)))) = ConnClosed).
Proof. exact open_admission. Qed.
Print Assumptions C22_admits_only_valid.

(* There is no other way up: from any reachable state, whatever the event, OpenConfirm is entered only
   by a valid OPEN received in OpenSent, and Established only from OpenConfirm (by C23 through a
   KEEPALIVE). Hence a session reaches Established only if the peer's OPEN was valid. *)
Theorem C22_only_valid_opens_reach_openconfirm : forall (c : cfg) (es : list ev) (e : ev),
  s_st (final c es) <> OpenConfirm -> s_st (fst (step c (final c es) e)) = OpenConfirm ->
  exists o, e = EMsg (MOpen o) /\ s_st (final c es) = OpenSent /\ valid_open c o /\
            negotiated_ok c o (s_neg (fst (step c (final c es) e))).
Proof. intros c es e. apply enters_openconfirm. apply final_inv. Qed.
Print Assumptions C22_only_valid_opens_reach_openconfirm.

Theorem C22_established_only_from_openconfirm : forall (c : cfg) (es : list ev) (e : ev),
  s_st (final c es) <> Established -> s_st (fst (step c (final c es) e)) = Established ->
  s_st (final c es) = OpenConfirm.
Proof. intros c es e. apply enters_established. apply final_inv. Qed.
Print Assumptions C22_established_only_from_openconfirm.

(* The capability loop computes the specification's negotiated parameters for every OPEN, whatever the
   state the previous connection left behind (it is reset first). *)
Theorem C22_negotiates : forall (c : cfg) (o : open_msg), negotiated_ok c o (k_neg (process_caps c o)).
Proof. exact caps_negotiated. Qed.
Print Assumptions C22_negotiates.

(* The 25 role pairs, exhaustively: the code's three predicates are the RFC 9234 table. *)
Theorem C22_role_matrix : forall l r : N, roles_compatible l r = rfc9234_pair l r.
Proof. exact pair_table. Qed.
Print Assumptions C22_role_matrix.

(* The role we announce is the RFC 9234 value of the configured role. *)
Example C22_example_sent_role :
  forall c, ebgp c = true -> c_role c = 1 -> In (CapRole 0) (o_caps (sent_open c)).
Proof.
  intros c He Hr. unfold sent_open. cbn [o_caps].
  repeat (apply in_or_app; right).
  unfold role_enabled. rewrite He, Hr. cbn. left. reflexivity.
Qed.

(* Our own capability list is a function of the configuration ([sent_open], transcribed from newPeer):
   with IPv4.NextHopExtended the multiprotocol capability for IPv4 is on the wire even if
   AdvertiseIPv4MultiProtocol is off - which is what entitles the session to enable it ([C22_negotiates]
   speaks about this list, not about configuration flags). *)
Example C22_example_nexthop_extended :
  forall c, c_v4 c = true -> c_nx4 c = true ->
  In (CapMP 1 1) (o_caps (sent_open c)) /\ In (CapExtNH 1 1 2) (o_caps (sent_open c)).
Proof.
  intros c H4 Hn. unfold sent_open. cbn [o_caps]. rewrite H4, Hn. cbn [andb].
  split; apply in_or_app; right; apply in_or_app; right; apply in_or_app; right; apply in_or_app; left; cbn; tauto.
Qed.

(* Non-vacuity. *)
Definition exc : cfg :=
  {| c_las := 65001; c_pas := 300000; c_rid := 10; c_hold := 90; c_v4 := true; c_v6 := true;
     c_apr4 := true; c_aps4 := false; c_apr6 := false; c_aps6 := true; c_mp4 := false; c_nx4 := false;
     c_role := 1; c_strict := true; c_rr := false; c_cluster := 0; c_imp := ImpAccept; c_passive := false |}.
Definition exo : open_msg :=
  {| o_ver := 4; o_asn := 23456; o_hold := 30; o_id := 7;
     o_caps := [CapMP 2 1; CapAddPath 1 1 3; CapAddPath 2 1 2; CapRole 3; CapASN4 300000; CapUnknown 70] |}.
Example C22_example_valid : valid_open exc exo.
Proof. apply valid_open_iff. reflexivity. Qed.
Example C22_example_negotiated :
  let n := k_neg (process_caps exc exo) in
  n_hold n = 30 /\ n_asn4 n = true /\ n_rx4 n = true /\ n_tx4 n = false /\ n_rx6 n = false /\ n_tx6 n = false /\
  n_mp4 n = false /\ n_mp6 n = true.
Proof. cbn. repeat split; reflexivity. Qed.
Example C22_example_invalid_hold : ~ valid_open exc {| o_ver := 4; o_asn := 23456; o_hold := 2; o_id := 7; o_caps := o_caps exo |}.
Proof. intro H. apply valid_open_iff in H. discriminate. Qed.
