(* C05 - The Loc-RIB mirrors the accepted paths of each Adj-RIB-In.
   Only statements here; proofs live in Proofs/AdjRIBInProofs.v.

   Reading guide (Model/AdjRIBIn.v, Spec/AdjRIBInSpec.v):
     run a pol ops            the Adj-RIB-In model after the history ops, session attributes a,
                              initial import policy pol (ANY function pfx -> path -> option path)
     ct_get c (ctabs s)       what client c (a Loc-RIB) holds
     spec_run a ops           the announcements currently in force (latest per prefix / per prefix and
                              path id, not withdrawn, not flushed) with their eligibility when received
     contribution pol anns    the eligible ones, each rewritten by pol
     ekey                     a (prefix, path) pair up to the two fields Path.Compare ignores
                              (OnlyToCustomer, HiddenReason)
     reg_once                 Register is only called for a client that is not registered
     replace_ok               when the policy is replaced, old and new policy keep path identifiers
                              (no filter action can change them); vacuous for a fixed policy *)
From Coq Require Import List NArith Bool Permutation.
Import ListNotations.
From BioVerif Require Import Model.AdjRIBIn Spec.AdjRIBInSpec Proofs.AdjRIBInProofs.
Open Scope N_scope.

(* The property as stated: fixed import policy, all histories of announce / withdraw / flush /
   register / unregister / VRF changes, any session kind, any policy.  At every point a registered
   client holds exactly the contribution; a client that is not registered holds nothing of it. *)
Theorem C05_mirror : forall (a : sattrs) (pol : policy) (ops : list op),
  fixed_policy ops -> reg_once [] ops = true ->
  forall c,
    (In c (spec_regs ops) ->
       Permutation (map ekey (ct_get c (ctabs (run a pol ops))))
                   (map ekey (contribution pol (s_anns (spec_run a ops))))) /\
    (~ In c (spec_regs ops) -> ct_get c (ctabs (run a pol ops)) = []).
Proof. exact mirror_fixed. Qed.
Print Assumptions C05_mirror.

(* The same with policy replacements in the history (ReplaceFilterChain): the clients mirror the
   contribution under the policy now in force. *)
Theorem C05_mirror_replace : forall (a : sattrs) (pol : policy) (ops : list op),
  reg_once [] ops = true -> replace_ok pol ops ->
  forall c,
    (In c (spec_regs ops) ->
       Permutation (map ekey (ct_get c (ctabs (run a pol ops))))
                   (map ekey (contribution (final_policy pol ops) (s_anns (spec_run a ops))))) /\
    (~ In c (spec_regs ops) -> ct_get c (ctabs (run a pol ops)) = []).
Proof. exact mirror. Qed.
Print Assumptions C05_mirror_replace.

(* A new announcement replaces the previous one of the same prefix (and path id with add-path RX):
   afterwards the slot holds exactly one path, carrying the announced identifier; all other slots
   are untouched. *)
Theorem C05_announce_replaces : forall (a : sattrs) (pol : policy) (ops : list op) (p : pfx) (q : path),
  let s := run a pol ops in
  let s' := step s (Announce p q) in
  let slot := fun e : pfx * path => (fst e =? p) && (negb (addpath_rx a) || (pid (snd e) =? pid q)) in
  (exists qs, filter slot (tab s') = [(p, qs)] /\ pid qs = pid q) /\
  filter (fun e => negb (slot e)) (tab s') = filter (fun e => negb (slot e)) (tab s).
Proof. exact announce_replaces'. Qed.
Print Assumptions C05_announce_replaces.

(* Unregistering removes exactly what the session contributed, rewritten paths included: the client
   is left with nothing of it, the RemovePath calls are exactly the contribution, nobody else is
   touched. *)
Theorem C05_unregister_exact : forall (a : sattrs) (pol : policy) (ops : list op) (c : N),
  reg_once [] ops = true -> replace_ok pol ops -> In c (spec_regs ops) ->
  let s := run a pol ops in
  let s' := step s (Unregister c) in
  let contributed := contribution (final_policy pol ops) (s_anns (spec_run a ops)) in
  ct_get c (ctabs s') = [] /\
  log s' = rev (map (fun x => EvRemove c (fst x) (snd x)) contributed) ++ log s /\
  tab s' = tab s /\
  (forall c', c' <> c -> ct_get c' (ctabs s') = ct_get c' (ctabs s)).
Proof. exact unregister_exact. Qed.
Print Assumptions C05_unregister_exact.

(* Flushing empties the Adj-RIB-In and removes the whole contribution from every client. *)
Theorem C05_flush_exact : forall (a : sattrs) (pol : policy) (ops : list op),
  reg_once [] ops = true -> replace_ok pol ops ->
  let s' := run a pol (ops ++ [Flush]) in
  tab s' = [] /\ forall c, ct_get c (ctabs s') = [].
Proof. exact flush_exact. Qed.
Print Assumptions C05_flush_exact.

(* Non-vacuity: eBGP session with add-path RX and an import policy that sets LOCAL_PREF 200.
   Two announcements for prefix 1 (ids 7 and 9, the second one with our own ASN 65000 in the
   AS_PATH), then a replacement of id 7.  The Loc-RIB (client 0) holds the rewritten, eligible one;
   after Unregister it holds nothing. *)
Definition ex_sa : sattrs := mkSA false true 9 65001 100 false false 0.
Definition ex_ops : list op :=
  [AddASN 65000; Register 0;
   Announce 1 (mkPath 7 0 0 1 [65001] 0 [] 0 0);
   Announce 1 (mkPath 9 0 0 1 [65001; 65000] 0 [] 0 0);
   Announce 1 (mkPath 7 0 5 2 [65001; 65002] 0 [] 0 0)].

Example C05_example_mirror :
  ct_get 0 (ctabs (run ex_sa (sample_policy 3 200) ex_ops)) = [(1, mkPath 7 200 5 2 [65001; 65002] 0 [] 0 0)] /\
  contribution (sample_policy 3 200) (s_anns (spec_run ex_sa ex_ops)) = [(1, mkPath 7 200 5 2 [65001; 65002] 0 [] 0 0)] /\
  map (fun e => hid (snd e)) (tab (run ex_sa (sample_policy 3 200) ex_ops)) = [3; 0] /\
  reg_once [] ex_ops = true /\ spec_regs ex_ops = [0] /\
  ct_get 0 (ctabs (run ex_sa (sample_policy 3 200) (ex_ops ++ [Unregister 0]))) = [].
Proof. vm_compute. repeat split. Qed.
