(* C26 - The RIB pipeline and session layer are free of data races.
   PARTIAL (DESIGN.md 3.3, 6, 8): lock-set discipline over the access table that tools/locktab
   regenerates from the Go source on every run, for the mutex-protected shared fields listed in
   Spec/LockSpec.v (guarded_fields); the goroutine-confined session fields (confined_fields) are
   not claimed.  The Go memory model enters as "a mutex release happens before the next acquire".
   Only statements here; proofs in Proofs/LockProofs.v, Proofs/LockInstance.v. *)
From Coq Require Import List NArith String.
Import ListNotations.
From BioVerif Require Import Model.LockSem Gen.LockModel Spec.LockSpec Proofs.LockProofs Proofs.LockInstance.

(* ---- meta-theorem, for every set of threads, schedule and trace length: two accesses to the same
        location by different threads, each made while holding the mutex m, are separated in the
        trace by a release of m by the first thread followed by an acquisition of m by the second *)
Theorem C26_lockset_discipline_orders_conflicts :
  forall ps tr1 s1 s1' tr2 s2 s2' i j x w1 w2 m,
    exec (init ps) tr1 s1 -> step s1 (i, Acc x w1) s1' ->
    exec s1' tr2 s2 -> step s2 (j, Acc x w2) s2' ->
    i <> j -> holds_at s1 i m -> holds_at s2 j m ->
    exists a b c, tr2 = a ++ (i, Rel m) :: b ++ (j, Acq m) :: c.
Proof. exact lockset_discipline_orders_conflicts. Qed.
Print Assumptions C26_lockset_discipline_orders_conflicts.

(* ---- instance theorems on the generated access table *)

(* every access (outside constructors) to a guarded field holds the field's guard -- in write mode
   for a write --, except the listed sites (Spec/LockSpec.v: access_exceptions) *)
Theorem C26_lockset_consistent : forall a, In a accesses -> acc_ok a = true \/ acc_exc a <> None.
Proof. exact lockset_consistent. Qed.
Print Assumptions C26_lockset_consistent.

(* every field of RoutingTable, Route, LocRIB, AdjRIBIn, AdjRIBOut, ClientManager, UpdateSender, FSM,
   peer and fsmAddressFamily is guarded, or never written after publication, or one of the listed
   goroutine-confined session fields (which are outside the claim) *)
Theorem C26_fields_classified : forall f, In f field_names -> field_classified (fst f) = true.
Proof. exact fields_classified. Qed.
Print Assumptions C26_fields_classified.

(* the guard table refers to locks and fields that exist in the generated model *)
Theorem C26_guards_resolve : forall g, In g guarded_fields ->
  id_of lock_names (snd g) <> None /\ id_of field_names (fst g) <> None.
Proof. exact guards_resolve. Qed.
Print Assumptions C26_guards_resolve.

(* a table row that passes the check holds the guard *)
Theorem C26_row_holds_guard : forall a m, acc_ok a = true -> guard_map (fst (fst (fst a))) = Some m -> In m (snd a).
Proof. exact acc_ok_guard. Qed.
Print Assumptions C26_row_holds_guard.

(* ownership of inserted paths (locktab rule P): no call site hands the same *route.Path object to
   LocRIB.AddPath / AdjRIBIn.AddPath more than once (loop, twice) or writes it after the insertion,
   except the listed sites (none) *)
Theorem C26_no_shared_path_insertions : forall r, In r shared_path_sites -> shared_exc r <> None.
Proof. exact no_shared_path_insertions. Qed.
Print Assumptions C26_no_shared_path_insertions.

(* goroutine lifecycle (locktab rule J): every function that addresses a goroutine of its type through a channel
   or WaitGroup field waits for it (blocking rendezvous or WaitGroup.Wait) -- a teardown that only closes
   the channel is a violation row --, except the listed sites (none) *)
Theorem C26_goroutines_joined_on_teardown : forall r, In r goroutine_joins -> join_waits r = true \/ join_exc r <> None.
Proof. exact goroutines_joined_on_teardown. Qed.
Print Assumptions C26_goroutines_joined_on_teardown.

(* lifting: threads whose accesses to guarded fields all hold the guard (what the table says of every
   non-excepted site) never perform two accesses to a guarded field from different threads that are
   not ordered by release / acquire of its guard *)
Theorem C26_guarded_accesses_ordered_partial :
  forall ps tr1 s1 s1' tr2 s2 s2' i j x w1 w2 m,
    Forall (disciplined guard_map []) ps -> guard_map x = Some m ->
    exec (init ps) tr1 s1 -> step s1 (i, Acc x w1) s1' ->
    exec s1' tr2 s2 -> step s2 (j, Acc x w2) s2' -> i <> j ->
    exists a b c, tr2 = a ++ (i, Rel m) :: b ++ (j, Acq m) :: c.
Proof. exact guarded_accesses_ordered. Qed.
Print Assumptions C26_guarded_accesses_ordered_partial.

(* non-vacuity: without a guard two conflicting accesses can be adjacent in a trace *)
Example C26_example_unguarded_unordered :
  let ps := [[Acc 0%N true]; [Acc 0%N false]] in
  exists s, exec (init ps) [(0%nat, Acc 0%N true); (1%nat, Acc 0%N false)] s.
Proof. exact unguarded_accesses_unordered. Qed.
