(* C18 - UPDATE packing is lossless and respects the message size limit.
   Only statements here; proofs live in Proofs/UpdateSenderPackProofs.v.

   pack c p xs        the split of the prefixes xs queued with path p into UPDATE messages
                      (_getUpdateInformation with getBudget / pathAttributesLen / updateOverhead)
   batch_wire c p xs  what sendUpdates writes for them: a message SerializeUpdate refuses
                      (longer than 4096 bytes) is dropped
   msg_total c p l    length of the UPDATE carrying the attributes of p and the NLRI l, as the
                      serializers produce it (IPv4, IPv4 multiprotocol, IPv6 multiprotocol; add-path on/off)
   all_fit_list       every single prefix fits into an UPDATE next to the attributes *)
From Coq Require Import List NArith ZArith Permutation.
Import ListNotations.
From BioVerif Require Import Model.UpdateSender Spec.UpdateSenderSpec Proofs.UpdateSenderPackProofs.
Open Scope Z_scope.

(* The split itself never loses, duplicates or reorders a prefix - for every prefix list of any
   length, every path and every session kind. *)
Theorem C18_pack_partition : forall (c : cfg) (p : path) (xs : list pfx),
  concat (pack c p xs) = xs.
Proof. exact pack_concat. Qed.
Print Assumptions C18_pack_partition.

(* Every packed message is non-empty and at most 4096 bytes long, so SerializeUpdate accepts it ... *)
Theorem C18_size : forall (c : cfg) (p : path) (xs : list pfx),
  all_fit_list c p xs ->
  forall l, In l (pack c p xs) -> l <> [] /\ msg_total c p l <= 4096.
Proof. exact pack_size. Qed.
Print Assumptions C18_size.

(* ... hence every message is written, carries the queued attributes and path identifier, and the
   announced prefixes are exactly the queued ones, each once. *)
Theorem C18_lossless : forall (c : cfg) (p : path) (xs : list pfx),
  all_fit_list c p xs ->
  batch_wire c p xs = map (ann_of c p) (pack c p xs) /\
  Permutation (announced (batch_wire c p xs)) xs.
Proof. exact lossless. Qed.
Print Assumptions C18_lossless.

(* Unconditionally (also when a prefix does not fit): whatever is written carries the attributes
   and path identifier of the queued path and is at most 4096 bytes long. *)
Theorem C18_wire_bounded : forall (c : cfg) (p : path) (xs : list pfx) (m : msg),
  In m (batch_wire c p xs) -> carries c p m.
Proof. exact wire_bounded. Qed.
Print Assumptions C18_wire_bounded.

(* The side condition "encoded attributes <= reserved bytes": BGPPath.Length() alone does not
   satisfy it (witness: iBGP, MED, ATOMIC_AGGREGATE, AGGREGATOR: 44 < 50) ... *)
Theorem C18_length_underestimates : exists (c : cfg) (p : path), length_est p < enc_attrs c p.
Proof. exact length_underestimates. Qed.
Print Assumptions C18_length_underestimates.

(* ... the reservation of the repaired getBudget (pathAttributesLen) does. *)
Theorem C18_reserved_covers : forall (c : cfg) (p : path), enc_attrs c p <= reserved c p.
Proof. exact reserved_covers. Qed.
Print Assumptions C18_reserved_covers.

(* Non-vacuity: 1200 /24 prefixes on an iBGP IPv4 add-path session with MED, ATOMIC_AGGREGATE and
   AGGREGATOR fit individually and are split into three messages of 502, 502 and 196 prefixes. *)
Definition ex_cfg : cfg := mkcfg V4 true true true false.
Definition ex_path : path := mkpath 1 7 [2%N] true true true false false 0 0 0 [].
Definition ex_pfxs : list pfx := map (fun i => mkpfx (N.of_nat i) 24) (seq 0 1200).

Example C18_example_split :
  forallb (fun x => nlri_len ex_cfg x <=? budget ex_cfg ex_path) ex_pfxs = true /\
  map (@length pfx) (pack ex_cfg ex_path ex_pfxs) = [502%nat; 502%nat; 196%nat] /\
  map (msg_total ex_cfg ex_path) (pack ex_cfg ex_path ex_pfxs) = [4089; 4089; 1641].
Proof. vm_compute. repeat split; reflexivity. Qed.
