(* C06 - Ineligible paths never reach the Loc-RIB nor any other client.
   Only statements here; proofs live in Proofs/AdjRIBInProofs.v.

   ineligible a las lcs q   (Spec/AdjRIBInSpec.v) the five clauses: a local ASN (multiset las) in the AS_PATH,
                            local router id as ORIGINATOR_ID, a local cluster id (lcs) in the CLUSTER_LIST,
                            RFC 9234 OTC check failure, empty AS_PATH on eBGP
   eligible_src / justified where a delivered path may come from: the image, under a policy that was in
                            force at some time, of an announcement that was eligible WHEN RECEIVED
   delivered e              the path handed over by AddPath / AddPathInitialDump / ReplacePath(new) *)
From Coq Require Import List NArith Bool.
Import ListNotations.
From BioVerif Require Import Model.AdjRIBIn Spec.AdjRIBInSpec Proofs.AdjRIBInProofs.
Open Scope N_scope.

(* For ALL histories - announcements, withdrawals, flushes, registrations at any time (late ones
   included, repeated ones included), any number of policy replacements by arbitrary policies,
   VRF ASN / cluster-id changes - and all session configurations: whatever any client holds and
   whatever was ever handed to any client stems from an announcement that was eligible when it
   was received.  No hypothesis on the history. *)
Theorem C06_never_installed : forall (a : sattrs) (pol : policy) (ops : list op),
  let s := run a pol ops in
  (forall c p q', In (p, q') (ct_get c (ctabs s)) -> justified a pol ops p q') /\
  (forall e c p q', In e (log s) -> delivered e = Some (c, p, q') -> justified a pol ops p q').
Proof. exact never_installed. Qed.
Print Assumptions C06_never_installed.

(* Contrapositive reading: if every announcement for a prefix was ineligible, no client ever holds
   or is handed anything for that prefix, whatever the policies do and whenever clients register. *)
Theorem C06_ineligible_never : forall (a : sattrs) (pol : policy) (ops : list op) (p : pfx),
  (forall pre q post, ops = pre ++ Announce p q :: post ->
     ineligible a (s_las (spec_run a pre)) (s_lcs (spec_run a pre)) q = true) ->
  let s := run a pol ops in
  (forall c q', ~ In (p, q') (ct_get c (ctabs s))) /\
  (forall e c q', In e (log s) -> delivered e <> Some (c, p, q')).
Proof. exact ineligible_never. Qed.
Print Assumptions C06_ineligible_never.

(* The mark the Adj-RIB-In puts on a received path (HiddenReason) is exactly the five clauses,
   evaluated against the VRF's local ASNs / cluster ids at that moment. *)
Theorem C06_hidden_iff_ineligible : forall (a : sattrs) (pol : policy) (ops : list op) (p : pfx) (q : path),
  let s' := run a pol (ops ++ [Announce p q]) in
  exists qs, In (p, qs) (tab s') /\ pid qs = pid q /\
    (hid qs =? 0) = negb (ineligible a (s_las (spec_run a ops)) (s_lcs (spec_run a ops)) q).
Proof. exact hidden_iff_ineligible. Qed.
Print Assumptions C06_hidden_iff_ineligible.

(* The OTC clause is the RFC 9234 ingress table, for every role value of the neighbour. *)
Theorem C06_otc_matrix : forall (a : sattrs) (q : path),
  otc_check_fails a q =
  roles_negotiated a && otc_table (role_remote a) (negb (otc q =? 0)) (otc q =? peer_asn a).
Proof. exact otc_matrix. Qed.
Print Assumptions C06_otc_matrix.

(* Non-vacuity: iBGP route-reflector client session, policy reject-all; three ineligible paths
   (own originator id 9, own cluster id 1, own ASN 65000) and one eligible path are received, then
   the policy is replaced by accept-all and a second client registers late.  Only the eligible
   path is ever delivered. *)
Definition ex6_sa : sattrs := mkSA true true 9 65000 100 false false 0.
Definition ex6_ops : list op :=
  [AddASN 65000; AddCID 1; Register 0;
   Announce 0 (mkPath 1 100 0 1 [65002] 9 [] 0 0);
   Announce 0 (mkPath 2 100 0 1 [65002] 0 [2; 1] 0 0);
   Announce 1 (mkPath 1 100 0 1 [65002; 65000] 0 [] 0 0);
   Announce 2 (mkPath 1 100 0 1 [65002] 5 [3] 0 0);
   ReplaceChain (sample_policy 0 0); Register 1].

Example C06_example :
  let s := run ex6_sa (sample_policy 1 0) ex6_ops in
  map (fun e => hid (snd e)) (tab s) = [4; 5; 3; 0] /\
  ct_get 0 (ctabs s) = [(2, mkPath 1 100 0 1 [65002] 5 [3] 0 0)] /\
  ct_get 1 (ctabs s) = [(2, mkPath 1 100 0 1 [65002] 5 [3] 0 0)] /\
  map delivered (log s) =
    [None; Some (1, 2, mkPath 1 100 0 1 [65002] 5 [3] 0 0); Some (0, 2, mkPath 1 100 0 1 [65002] 5 [3] 0 0); None].
Proof. vm_compute. repeat split. Qed.
