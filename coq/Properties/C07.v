(* C07 - Leaving Established withdraws everything the session contributed.
   Only statements here; proofs live in Proofs/FSMSysProofs.v.
   Model: Model/FSM.v, [sys_step]: any number of sessions (each an FSM as in C23) sharing one VRF:
   the IPv4 Loc-RIB as a list of (session, route, rewritten-by-import-policy), one Adj-RIB-In per
   session, the VRF's contributing-ASN and cluster-id refcounters (multisets, as util/refcounter),
   and the number of Adj-RIB-Outs registered with each Loc-RIB.  [reach cs es] is the speaker after
   the history es of (session, event) pairs; events are those of C23: NOTIFICATION received, hold
   timer expiry, keepalive send failure, malformed or unexpected messages, stop, cease, ... *)
From Coq Require Import List NArith Bool.
Import ListNotations.
From BioVerif Require Import Model.FSM Spec.RFC4271FSM Proofs.FSMProofs Proofs.FSMSysProofs.
Local Open Scope N_scope.

(* After EVERY history, for every session that is not Established (it never was, or it left by
   whatever event): it is detached, no route of it is in the Loc-RIB - with accepting, rejecting and
   rewriting import policies alike - and its Adj-RIB-In is empty. *)
Theorem C07_withdraws_everything : forall (cs : list cfg) (es : list (nat * ev)) (i : nat) (c : cfg) (s : sess),
  nth_sess (y_sess (reach cs es)) i = Some (c, s) ->
  s_st s <> Established ->
  s_att s = false /\ rib_of (reach cs es) (N.of_nat i) = [] /\ adjin_of (reach cs es) (N.of_nat i) = [].
Proof. exact withdraws_everything. Qed.
Print Assumptions C07_withdraws_everything.

(* After every history the loop-detection refcounts (contributing ASNs, cluster ids) and the
   Adj-RIB-Outs registered with the Loc-RIBs are exactly the sum of what the currently attached
   (= Established, C23) sessions contribute: a session that left contributes 0, nothing is released
   twice, other sessions' shares are untouched. *)
Theorem C07_refcounts_exact : forall (cs : list cfg) (es : list (nat * ev)),
  let y := reach cs es in
  (forall a, rc_count (y_asn y) a = total (asn_c a) (y_sess y)) /\
  (forall a, rc_count (y_cid y) a = total (cid_c a) (y_sess y)) /\
  y_cl4 y = total cl4_c (y_sess y) /\ y_cl6 y = total cl6_c (y_sess y).
Proof. exact refcounts_exact. Qed.
Print Assumptions C07_refcounts_exact.

(* Every step that takes an Established session out of Established - for every event - runs uninit. *)
Theorem C07_every_exit_uninits : forall (cs : list cfg) (es : list (nat * ev)) (i : nat) (c : cfg) (s : sess) (e : ev),
  nth_sess (y_sess (reach cs es)) i = Some (c, s) ->
  s_st s = Established ->
  s_st (fst (step c s e)) <> Established ->
  In Uninit (snd (step c s e)) /\ s_att (fst (step c s e)) = false.
Proof. exact every_exit_uninits. Qed.
Print Assumptions C07_every_exit_uninits.

(* A later (re-)establishment starts from empty Adj-RIBs. *)
Theorem C07_reestablish_starts_empty : forall (cs : list cfg) (es : list (nat * ev)) (i : nat) (e : ev),
  let y := reach cs es in
  In Init (snd (sys_step y i e)) ->
  rib_of (fst (sys_step y i e)) (N.of_nat i) = [] /\ adjin_of (fst (sys_step y i e)) (N.of_nat i) = [].
Proof. exact reestablish_starts_empty. Qed.
Print Assumptions C07_reestablish_starts_empty.

(* Exactly its own contribution, nothing else's: whatever the other sessions did (flaps of sessions sharing the
   local AS or the cluster id included), an Established session's local AS - and its cluster id if it is a route
   reflector client - is still a contributing one, so that paths carrying them are still hidden ([apply_poison]). *)
Theorem C07_loop_detection_intact : forall (cs : list cfg) (es : list (nat * ev)) (i : nat) (c : cfg) (s : sess),
  nth_sess (y_sess (reach cs es)) i = Some (c, s) ->
  s_st s = Established -> c_v4 c || c_v6 c = true ->
  0 < rc_count (y_asn (reach cs es)) (c_las c) /\
  (c_rr c = true -> 0 < rc_count (y_cid (reach cs es)) (cluster_of c)).
Proof. exact loop_detection_intact. Qed.
Print Assumptions C07_loop_detection_intact.

(* Non-vacuity: two sessions; session 0 (rewriting import policy) installs two routes and is then torn
   down by an undecodable UPDATE; session 1's route and refcount share stay. *)
Definition ex_c0 : cfg :=
  {| c_las := 65001; c_pas := 65002; c_rid := 10; c_hold := 90; c_v4 := true; c_v6 := false;
     c_apr4 := false; c_aps4 := false; c_apr6 := false; c_aps6 := false; c_mp4 := false; c_nx4 := false;
     c_role := 0; c_strict := false; c_rr := false; c_cluster := 0; c_imp := ImpRewrite; c_passive := false |}.
Definition ex_c1 : cfg :=
  {| c_las := 65001; c_pas := 65003; c_rid := 10; c_hold := 90; c_v4 := true; c_v6 := false;
     c_apr4 := false; c_aps4 := false; c_apr6 := false; c_aps6 := false; c_mp4 := false; c_nx4 := false;
     c_role := 0; c_strict := false; c_rr := false; c_cluster := 0; c_imp := ImpAccept; c_passive := false |}.
Definition ex_o (a : N) : open_msg := {| o_ver := 4; o_asn := a; o_hold := 90; o_id := 7; o_caps := [CapASN4 a] |}.
Definition ex_hist : list (nat * ev) :=
  [(1%nat, EAdmin 1); (1%nat, ETcpUp false); (1%nat, EMsg (MOpen (ex_o 65003))); (1%nat, EMsg MKeepalive);
   (1%nat, EMsg (MUpdate [4] []));
   (0%nat, EAdmin 1); (0%nat, ETcpUp false); (0%nat, EMsg (MOpen (ex_o 65002))); (0%nat, EMsg MKeepalive);
   (0%nat, EMsg (MUpdate [1; 2] []))].

Example C07_example_before :
  y_rib (reach [ex_c0; ex_c1] ex_hist) = [(1, 4, false); (0, 1, true); (0, 2, true)] /\
  rc_count (y_asn (reach [ex_c0; ex_c1] ex_hist)) 65001 = 2.
Proof. split; reflexivity. Qed.

Example C07_example_after :
  y_rib (reach [ex_c0; ex_c1] (ex_hist ++ [(0%nat, EMsg MBadBody)])) = [(1, 4, false)] /\
  rc_count (y_asn (reach [ex_c0; ex_c1] (ex_hist ++ [(0%nat, EMsg MBadBody)]))) 65001 = 1 /\
  y_cl4 (reach [ex_c0; ex_c1] (ex_hist ++ [(0%nat, EMsg MBadBody)])) = 1.
Proof. repeat split; reflexivity. Qed.
