(* C32 - The IS-IS LSDB follows the ISO 10589 update process.
   Only statements here; proofs live in Proofs/LSDBProofs.v. Model: Model/LSDB.v (the repaired
   lsdb.go: PSNP entries handled like CSNP entries; a newer copy of the own LSP raises the sequence
   counter and requests a regeneration instead of being installed). Histories: any list of LSP /
   CSNP / PSNP receptions on any interface with any ids (full system id / pseudonode id /
   LSP number triples), sequence numbers and lifetimes, aging
   ticks, runs of the LSP updater, forced regenerations and transmission runs; any set of
   interfaces (active with / without neighbor, passive). *)
From Coq Require Import List Bool NArith Arith.
Import ListNotations.
From BioVerif Require Import Model.LSDB Spec.LSDBSpec Proofs.LSDBProofs.
Open Scope N_scope.

(* ---- per LSP ID the copy with the highest sequence number is kept until it ages out *)

(* Reception of an LSP (in ANY state): afterwards the database copy of that id carries the higher of
   the two sequence numbers, with the lifetime of the copy that won; no other id is touched; a
   newer copy of the own LSP is not installed but raises the counter and requests a regeneration. *)
Theorem C32_highest_seq_kept : forall s i k sq lt,
  let s' := recv_lsp s i k sq lt in
  (forall k', k' <> k -> lookup k' (db s') = lookup k' (db s)) /\
  (local_newer s k sq = true ->
     db s' = db s /\ counter s' = N.max (counter s) sq /\ pending s' = true) /\
  (local_newer s k sq = false ->
     counter s' = counter s /\ pending s' = pending s /\
     exists e', lookup k (db s') = Some e' /\
       match lookup k (db s) with
       | None => seq e' = sq /\ life e' = lt
       | Some e => seq e' = N.max (seq e) sq /\ life e' = (if seq e <? sq then lt else life e)
       end).
Proof. exact recv_lsp_highest. Qed.
Print Assumptions C32_highest_seq_kept.

(* No other event replaces or drops a copy: SNPs, transmissions and LSPs for other ids leave
   (sequence number, lifetime) alone; an aging tick decrements the lifetime and removes the copy
   exactly when its lifetime was <= 1; a regeneration only touches the own LSP. *)
Theorem C32_kept_until_aged_out : forall s ev k e,
  NoDup (map fst (db s)) -> lookup k (db s) = Some e ->
  match ev with
  | Tick =>
    lookup k (db (step s ev)) =
      if life e <=? 1 then None else Some (mkE (seq e) (life e - 1) (srm e) (ssn e))
  | Service | Regen => k <> local_id s -> lookup k (db (step s ev)) = Some e
  | RecvLSP _ _ _ _ => exists e', lookup k (db (step s ev)) = Some e' /\ seq e <= seq e'
  | _ => exists e', lookup k (db (step s ev)) = Some e' /\ seq e' = seq e /\ life e' = life e
  end.
Proof. exact kept_until_aged_out. Qed.
Print Assumptions C32_kept_until_aged_out.

(* History form: over any history without aging ticks and regenerations, starting in any reachable
   state, the database copy of a foreign LSP carries the highest sequence number received for it. *)
Theorem C32_highest_seq_history : forall ifaces o evs0 evs k e,
  let s := run (init ifaces o) evs0 in
  quiet evs = true -> k <> mkId o 0 0 -> lookup k (db s) = Some e ->
  exists e', lookup k (db (run s evs)) = Some e' /\ seq e' = max_recv k evs (seq e).
Proof.
  intros ifaces o evs0 evs k e s Hq Hne Hl.
  apply highest_seq_history; auto.
  - apply run_wf. apply init_wf.
  - assert (Ho : forall evs s, own (run s evs) = own s).
    { induction evs1 as [| ev r IH]; intros s0; simpl; auto. rewrite IH. apply step_own. }
    unfold local_id, s. rewrite Ho. exact Hne.
Qed.
Print Assumptions C32_highest_seq_history.

(* ---- SRM / SSN flag rules, ISO 10589 7.3.15.2 and 7.3.16.4, as postconditions of each case *)
Theorem C32_flag_rules :
  (* LSP newer than the database (or unknown): flood to all other circuits, acknowledge on this one *)
  (forall s i k sq lt, local_newer s k sq = false ->
     (lookup k (db s) = None \/ exists e, lookup k (db s) = Some e /\ seq e < sq) ->
     exists e', lookup k (db (recv_lsp s i k sq lt)) = Some e' /\ ssn e' = [i] /\
       forall j, In j (srm e') <-> (j <> i /\ if_ok s j = true /\ sq <> 0)) /\
  (* LSP equal to the database copy: treat as acknowledgement, acknowledge *)
  (forall s i k sq lt e, lookup k (db s) = Some e -> sq = seq e ->
     exists e', lookup k (db (recv_lsp s i k sq lt)) = Some e' /\
       (forall j, In j (srm e') <-> In j (srm e) /\ j <> i) /\
       (forall j, In j (ssn e') <-> In j (ssn e) \/ j = i)) /\
  (* LSP older than the database copy: send ours, do not acknowledge *)
  (forall s i k sq lt e, lookup k (db s) = Some e -> sq < seq e ->
     exists e', lookup k (db (recv_lsp s i k sq lt)) = Some e' /\
       (forall j, In j (srm e') <-> In j (srm e) \/ (j = i /\ if_ok s i = true /\ seq e <> 0)) /\
       (forall j, In j (ssn e') <-> In j (ssn e) /\ j <> i)) /\
  (* one entry of a CSNP or PSNP *)
  (forall s i k sq lt,
     exists e', lookup k (db (snp_entry s i (k, sq, lt))) = Some e' /\
     match lookup k (db s) with
     | None => e' = mkE 0 lt [] [i]
     | Some e =>
       (seq e' = seq e /\ life e' = life e) /\
       if sq =? seq e then
         (forall j, In j (srm e') <-> In j (srm e) /\ j <> i) /\ ssn e' = ssn e
       else if sq <? seq e then
         (forall j, In j (srm e') <-> In j (srm e) \/ (j = i /\ if_ok s i = true /\ seq e <> 0)) /\
         (forall j, In j (ssn e') <-> In j (ssn e) /\ j <> i)
       else
         (forall j, In j (srm e') <-> In j (srm e) /\ j <> i) /\
         (forall j, In j (ssn e') <-> In j (ssn e) \/ j = i)
     end) /\
  (* completeness pass of a CSNP *)
  (forall s i lo hi l k e,
     let e' := snd (csnp_missing s i lo hi l (k, e)) in
     (seq e' = seq e /\ life e' = life e) /\ ssn e' = ssn e /\
     (life e <> 0 -> seq e <> 0 -> id_leb lo k = true -> id_leb k hi = true -> mentioned k l = false ->
        forall j, In j (srm e') <-> In j (srm e) \/ (j = i /\ if_ok s i = true)) /\
     (life e = 0 \/ seq e = 0 \/ id_leb lo k = false \/ id_leb k hi = false \/ mentioned k l = true ->
        e' = e)).
Proof.
  split; [exact flags_lsp_newer |]. split; [exact flags_lsp_same |]. split; [exact flags_lsp_older |].
  split; [exact flags_snp_entry | exact flags_csnp_missing].
Qed.
Print Assumptions C32_flag_rules.

(* In every reachable database SRM is never set on a sequence number 0 entry and only on active
   interfaces that have a neighbor. *)
Theorem C32_flags_invariant : forall ifaces o evs k e,
  lookup k (db (run (init ifaces o) evs)) = Some e ->
  (seq e = 0 -> srm e = []) /\
  (forall j, In j (srm e) -> if_ok (run (init ifaces o) evs) j = true).
Proof. exact flags_invariant. Qed.
Print Assumptions C32_flags_invariant.

(* ---- the local LSP is refreshed before it expires: in every history in which the LSP updater
   gets to run after each aging tick (anything else may happen in between, including copies of the
   own LSP arriving), the own LSP is in the database with at least 299 s of remaining lifetime *)
Theorem C32_refresh_before_expiry : forall ifaces o evs,
  serviced evs = true ->
  exists e, lookup (mkId o 0 0) (db (run (init ifaces o) evs)) = Some e /\ 299 <= life e.
Proof. exact refresh_before_expiry. Qed.
Print Assumptions C32_refresh_before_expiry.

(* ---- the own LSP is originated with a sequence number higher than any copy of it received: the
   counter dominates every received copy, and every origination (forced, or the updater serving a
   request) installs counter + 1 - as long as the 32 bit number space is not exhausted *)
Theorem C32_own_seq_dominates : forall ifaces o evs,
  nowrap_from (init ifaces o) evs ->
  let s := run (init ifaces o) evs in
  let m := max_recv (mkId o 0 0) evs 0 in
  m <= counter s /\
  (exists e, lookup (mkId o 0 0) (db (step s Regen)) = Some e /\ seq e = counter s + 1 /\ m < seq e) /\
  (pending s = true ->
   exists e, lookup (mkId o 0 0) (db (step s Service)) = Some e /\ seq e = counter s + 1 /\ m < seq e).
Proof. exact own_seq_dominates. Qed.
Print Assumptions C32_own_seq_dominates.

(* ---- LSP ids are the FULL (system id, pseudonode id, LSP number) triples everywhere: the lookups
   and the "mentioned in the CSNP" test use equality on all three components, the CSNP range test a
   total order on all three. All theorems above therefore distinguish ids that differ only in the
   LSP number (fragments of one LSP) or only in the pseudonode id. *)
Theorem C32_ids_are_full : forall a b,
  (id_eqb a b = true <-> a = b) /\
  (id_leb a b = true -> id_leb b a = true -> a = b) /\
  (id_leb a b = true \/ id_leb b a = true).
Proof.
  intros a b. split; [apply id_eqb_eq |]. split; [apply id_leb_antisym | apply id_leb_total].
Qed.
Print Assumptions C32_ids_are_full.

(* Non-vacuity. Three interfaces (two with a neighbor, one passive), own system 2. *)
Definition ex_ifs := [mkIf false true; mkIf false true; mkIf true false].
Example C32_example_history :
  let a := mkId 1 0 0 in
  let evs := [RecvLSP 0 a 3 5; RecvLSP 1 a 2 9; RecvCSNP 1 (mkId 0 0 0) (mkId 9 9 9) [(a, 4, 7)];
              RecvLSP 0 (mkId 2 0 0) 7 100] in
  let s := run (init ex_ifs 2) evs in
  lookup a (db s) = Some (mkE 3 5 [] [1%nat; 0%nat]) /\ counter s = 7 /\ pending s = true /\
  (exists e, lookup (mkId 2 0 0) (db (step s Service)) = Some e /\ seq e = 8) /\
  quiet evs = true /\ max_recv a evs 0 = 3.
Proof. vm_compute. repeat split; try reflexivity. eexists. split; reflexivity. Qed.

(* Fragments: R.00-00 and R.00-01 arrive on interface 0 and are acknowledged by interface 1 (so
   their SRM on 1 is clear). A CSNP on interface 1 over the whole range that lists only R.00-00
   flags the missing fragment R.00-01 for interface 1 and leaves R.00-00 alone; a CSNP whose range
   ends at R.00-00 does not touch R.00-01 (it lies outside the range). *)
Example C32_example_fragments :
  let r0 := mkId 1 0 0 in let r1 := mkId 1 0 1 in
  let learn := [RecvLSP 0 r0 3 9; RecvLSP 0 r1 5 9; RecvPSNP 1 [(r0, 3, 9); (r1, 5, 9)]] in
  let s := run (init ex_ifs 2) learn in
  let full := step s (RecvCSNP 1 (mkId 0 0 0) (mkId 9 9 9) [(r0, 3, 9)]) in
  let part := step s (RecvCSNP 1 (mkId 0 0 0) r0 [(r0, 3, 9)]) in
  (exists e, lookup r1 (db s) = Some e /\ srm e = []) /\
  (exists e, lookup r1 (db full) = Some e /\ srm e = [1%nat]) /\
  (exists e, lookup r0 (db full) = Some e /\ srm e = []) /\
  (exists e, lookup r1 (db part) = Some e /\ srm e = []) /\
  id_eqb r0 r1 = false /\ id_leb r0 r1 = true /\ id_leb r1 r0 = false.
Proof. vm_compute. repeat split; try reflexivity; eexists; split; reflexivity. Qed.

Example C32_example_serviced :
  serviced [Tick; Service; RecvLSP 0 (mkId 2 0 0) 9 3; Tick; Service] = true /\
  serviced [Tick; Tick] = false.
Proof. split; reflexivity. Qed.
