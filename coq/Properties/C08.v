(* C08 - Adj-RIB-Out equals the export view of the Loc-RIB.
   Only statements here; proofs live in Proofs/ExportView{A,B,C,D}.v.

   The Loc-RIB is what the session is entitled to see of it: per prefix the first 1 / N selected paths
   (Model.LocView); a Loc-RIB history h is a list of changes of that view, whatever caused them.
   feed runs the Adj-RIB-Out model (Model.AdjRIBOut.step, the definitions that are extracted and compared
   with the implementation) on the client calls LocRIB.propagateChanges derives from each change.
   export_view f s pfx l = the paths of l the export rules and the policy f admit, rewritten.

   The implementation violates the full statement in three recorded ways (known findings K1-K3 below);
   the partial theorem holds under guards that exclude exactly these. *)
From Coq Require Import List NArith Permutation.
Import ListNotations.
From BioVerif Require Import Model.PathIDs Model.AdjRIBOut Model.LocView Spec.ExportViewSpec
  Proofs.ExportViewC Proofs.ExportViewD.
Local Open Scope N_scope.

(* For every policy type and evaluation function, every session (kind, add-path or best only, roles),
   every initial policy c and every Loc-RIB history h meeting `guards` (Spec/ExportViewSpec.v: the
   session does not rewrite and nothing is redistributed - K1; on add-path sessions no non-exportable
   path enters the view - K2 - and the policy keeps different paths of a prefix Compare-distinct - K3;
   views are duplicate free, best-only sessions see one path), provided no path-id allocation failed
   (C11: impossible below 2^32-1 ids): at the end of the history - hence at every quiescent point, as
   every prefix of a guarded history is guarded - the table holds per prefix exactly the export view of
   the Loc-RIB's current paths: nothing missing, nothing stale. *)
Theorem C08_ribout_is_export_view_partial :
  forall (P : Type) (apply : P -> N -> path -> option path) (s : sess) (c : P) (h : list (N * list path)),
  guards (apply c) s h ->
  errs (snd (feed P apply s c h)) = 0 ->
  ribout_is_export_view (apply c) s (fst (feed P apply s c h)) (snd (feed P apply s c h)).
Proof. exact ribout_is_export_view_partial. Qed.
Print Assumptions C08_ribout_is_export_view_partial.

(* the guards are met by the sessions that do not rewrite, and by every chain of the policy language *)
Theorem C08_guard_transparent_ibgp : forall s,
  s_ibgp s = true -> s_rrclient s = false -> forall r b b', rewrite s r b = Some b' -> b' = b.
Proof. exact transparent_ibgp_nonclient. Qed.
Print Assumptions C08_guard_transparent_ibgp.

Theorem C08_guard_transparent_rs_client : forall s,
  s_ibgp s = false -> s_rsclient s = true -> s_role_on s = false ->
  forall r b b', rewrite s r b = Some b' -> b' = b.
Proof. exact transparent_rs_client_no_roles. Qed.
Print Assumptions C08_guard_transparent_rs_client.

Theorem C08_guard_policy_language : forall c pfx r b q,
  interp c pfx (PBgp r b) = Some q -> exists r' b', q = PBgp r' b'.
Proof. exact interp_bgp. Qed.
Print Assumptions C08_guard_policy_language.

(* ---- the full statement (all well-formed histories, all sessions) is false: one witness per finding *)

(* K1 stale-after-withdraw-on-rewriting-session: removePath looks the UNREWRITTEN Loc-RIB path up *)
Theorem C08_ribout_is_export_view_refuted_rewriting :
  exists s c h, wf_history s h /\ ~ full_statement s c h.
Proof. exact refuted_stale_rewriting. Qed.
Print Assumptions C08_ribout_is_export_view_refuted_rewriting.

Theorem C08_ribout_is_export_view_refuted_redistributed :
  exists s c h, wf_history s h /\ ~ full_statement s c h.
Proof. exact refuted_stale_redistributed. Qed.
Print Assumptions C08_ribout_is_export_view_refuted_redistributed.

(* K2 addpath-prefix-wiped-by-unexportable-arrival *)
Theorem C08_ribout_is_export_view_refuted_wipe :
  exists s c h, wf_history s h /\ ~ full_statement s c h.
Proof. exact refuted_addpath_wipe. Qed.
Print Assumptions C08_ribout_is_export_view_refuted_wipe.

(* K3 addpath-withdraw-hits-compare-equal-sibling *)
Theorem C08_ribout_is_export_view_refuted_sibling :
  exists s c h, wf_history s h /\ ~ full_statement s c h.
Proof. exact refuted_addpath_sibling. Qed.
Print Assumptions C08_ribout_is_export_view_refuted_sibling.

(* Non-vacuity: an iBGP add-path session, a history with a second path arriving, a prefix change and a
   withdrawal meets the guards; the theorem applies to it. *)
Example C08_example_guards : guards (interp []) (mk_sess true false false true) ex_h.
Proof. exact ex_guards. Qed.

Example C08_example_applies :
  let st := feed chain interp (mk_sess true false false true) [] ex_h in
  ribout_is_export_view (interp []) (mk_sess true false false true) (fst st) (snd st) /\
  length (tbl (snd st)) = 2%nat.
Proof.
  split; [apply C08_ribout_is_export_view_partial; [exact ex_guards|reflexivity]|reflexivity].
Qed.
