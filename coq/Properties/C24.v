(* C24 - Connection collisions leave at most one established session.
   Only statements here; proofs live in Proofs/CollisionProofs.v.

   run (init c) ls       the peer (router id / local AS / peer AS in c) with its outgoing FSM and the FSM of an
                         accepted connection after the steps ls (Up, Accept, Open received, Publish, Keepalive
                         received, Take Cease, Handle Cease - the atomic steps of the code, in any order);
                         None if a step is not enabled where it occurs
   est f                 FSM f is Established (alive and published as such) or attached to the RIBs
   spec_run c spec_init ls   the reference machine of RFC 4271 6.8 + RFC 6286 (every message processed atomically)
   serialised (init c) ls    along ls (1) each OPEN is processed when the other FSM has stored the states it
                         computed and (2) an FSM asked to cease takes that event before any KEEPALIVE *)
From Coq Require Import List NArith Bool.
Import ListNotations.
From BioVerif Require Import Model.Collision Spec.CollisionSpec Proofs.CollisionProofs.

(* peer.shouldCeaseOnCollision is the comparison of RFC 4271 6.8 extended by RFC 6286: local BGP identifier
   less than the remote one, AS numbers when the identifiers are equal. *)
Theorem C24_should_cease_is_rfc_comparison : forall (c : cfg) (id : N),
  should_cease_on_collision c id = local_less c id.
Proof. exact should_cease_is_local_less. Qed.
Print Assumptions C24_should_cease_is_rfc_comparison.

(* The reference machine itself never has two connections in OpenConfirm/Established, for EVERY sequence of
   events and all identifiers. *)
Theorem C24_rfc_at_most_one : forall (c : cfg) (ls : list label),
  ~ (up (s0 (spec_run c spec_init ls)) = true /\ up (s1 (spec_run c spec_init ls)) = true).
Proof. exact rfc_at_most_one. Qed.
Print Assumptions C24_rfc_at_most_one.

(* For ALL identifiers and AS numbers and EVERY serialised schedule (any length, any interleaving of the two
   connections): the implementation state, read through [abs], is the state of the reference machine. *)
Theorem C24_refines_rfc_partial : forall (c : cfg) (ls : list label) (p : peer),
  run (init c) ls = Some p -> serialised (init c) ls = true ->
  abs p = spec_run c spec_init ls.
Proof. exact refines_rfc. Qed.
Print Assumptions C24_refines_rfc_partial.

(* ... hence never two FSMs Established/attached at once ... *)
Theorem C24_at_most_one_partial : forall (c : cfg) (ls : list label) (p : peer),
  run (init c) ls = Some p -> serialised (init c) ls = true ->
  ~ (est (f0 p) = true /\ est (f1 p) = true).
Proof. exact at_most_one_partial. Qed.
Print Assumptions C24_at_most_one_partial.

(* ... an Established/attached FSM is the connection RFC 4271 6.8 / RFC 6286 keep ... *)
Theorem C24_survivor_is_rfc_choice_partial : forall (c : cfg) (ls : list label) (p : peer) (i : idx),
  run (init c) ls = Some p -> serialised (init c) ls = true ->
  est (get p i) = true -> sget (spec_run c spec_init ls) i = SEstablished.
Proof. exact survivor_is_rfc_choice_partial. Qed.
Print Assumptions C24_survivor_is_rfc_choice_partial.

(* ... and the connection they close has sent a Cease NOTIFICATION as its last message, is closed, its FSM has
   ended and contributes nothing - or the Cease event is still on its way, and then the step that delivers /
   handles it is enabled. *)
Theorem C24_loser_sent_cease_partial : forall (c : cfg) (ls : list label) (p : peer) (i : idx),
  run (init c) ls = Some p -> serialised (init c) ls = true ->
  sget (spec_run c spec_init ls) i = SClosedCease ->
  (held p i = false -> ceasing (get p i) = false ->
   alive (get p i) = false /\ closed (get p i) = true /\
   hd_error (wire (get p i)) = Some cease_notification /\ est (get p i) = false) /\
  (held p i = true -> step p (LTake i) <> None) /\
  (ceasing (get p i) = true -> step p (LHandle i) <> None).
Proof. exact loser_sent_cease_partial. Qed.
Print Assumptions C24_loser_sent_cease_partial.

(* "... at most one of them is EVER Established": along a serialised schedule, if connection i is Established /
   attached at some point and connection j at a later one, they are the same connection. *)
Theorem C24_only_one_ever_partial : forall (c : cfg) (l1 l2 : list label) (p1 p2 : peer) (i j : idx),
  run (init c) l1 = Some p1 -> run p1 l2 = Some p2 -> serialised (init c) (l1 ++ l2) = true ->
  est (get p1 i) = true -> est (get p2 j) = true -> i = j.
Proof. exact only_one_ever_partial. Qed.
Print Assumptions C24_only_one_ever_partial.

(* Without guard (1) the statement is false on the current code: FSM.run() stores the state run() returned only
   after run() has returned, so two OPENs can both be checked against the old states; both pass, both sessions
   establish and attach (the schedule even satisfies guard (2)). *)
Theorem C24_at_most_one_refuted : exists (c : cfg) (ls : list label) (p : peer),
  run (init c) ls = Some p /\ along cease_first_ok (init c) ls = true /\
  est (f0 p) = true /\ est (f1 p) = true.
Proof. exact at_most_one_refuted. Qed.
Print Assumptions C24_at_most_one_refuted.

(* Without guard (2) it is false as well, even when every check sees stored states: the FSM that is asked to
   cease may take the peer's KEEPALIVE first, becomes Established and attaches; once its select has taken the
   Cease event the winner goes on to Established while the loser's handler has not withdrawn anything yet. *)
Theorem C24_cease_race_refuted : exists (c : cfg) (ls : list label) (p : peer),
  run (init c) ls = Some p /\ checks_after_publication (init c) ls = true /\
  est (f0 p) = true /\ est (f1 p) = true.
Proof. exact cease_race_refuted. Qed.
Print Assumptions C24_cease_race_refuted.

(* Non-vacuity of the partial theorems: serialised schedules in which a collision is resolved, for the four
   identifier orderings. Router id 5 / remote 9: the existing (OpenConfirm) connection is ceased, the new one
   survives and establishes. *)
Definition ex_lt : list label :=
  [LUp; LAccept; LOpen false 9; LPublish false; LOpen true 9; LTake false; LHandle false;
   LPublish true; LKeep true; LPublish true].
Example C24_example_local_less : exists p,
  run (init (mkcfg 5 100 200)) ex_lt = Some p /\ serialised (init (mkcfg 5 100 200)) ex_lt = true /\
  est (f1 p) = true /\ est (f0 p) = false /\ alive (f0 p) = false /\ closed (f0 p) = true /\
  wire (f0 p) = [cease_notification; MKeepalive; MOpen] /\
  spec_run (mkcfg 5 100 200) spec_init ex_lt = mkspec SClosedCease SEstablished.
Proof. eexists. split; [vm_compute; reflexivity|]. vm_compute. auto 10. Qed.

(* Router id 9 / remote 5: the new connection ceases itself, the existing one establishes. *)
Definition ex_gt : list label :=
  [LUp; LAccept; LOpen false 5; LPublish false; LOpen true 5; LKeep false; LPublish false].
Example C24_example_local_greater : exists p,
  run (init (mkcfg 9 100 200)) ex_gt = Some p /\ serialised (init (mkcfg 9 100 200)) ex_gt = true /\
  est (f0 p) = true /\ est (f1 p) = false /\ alive (f1 p) = false /\ closed (f1 p) = true /\
  wire (f1 p) = [cease_notification; MOpen].
Proof. eexists. split; [vm_compute; reflexivity|]. vm_compute. auto 10. Qed.

(* Equal identifiers (RFC 6286): the AS numbers decide, in both directions. *)
Example C24_example_equal_ids : exists p q,
  run (init (mkcfg 7 100 200)) (map (fun l => match l with LOpen i _ => LOpen i 7 | _ => l end) ex_lt) = Some p /\
  est (f1 p) = true /\ alive (f0 p) = false /\
  run (init (mkcfg 7 200 100)) (map (fun l => match l with LOpen i _ => LOpen i 7 | _ => l end) ex_gt) = Some q /\
  est (f0 q) = true /\ alive (f1 q) = false.
Proof. eexists. eexists. split; [vm_compute; reflexivity|]. split; [reflexivity|]. split; [reflexivity|].
  split; [vm_compute; reflexivity|]. split; reflexivity. Qed.

(* What the code (and the step-by-step text of RFC 4271 6.8) does NOT look at is which side opened a connection:
   with the smaller local identifier the connection that reached OpenConfirm first is closed even when it is the
   one the peer (the speaker with the higher identifier) initiated. *)
Example C24_example_rule_ignores_direction : exists p,
  run (init (mkcfg 5 100 200))
      [LUp; LAccept; LOpen true 9; LPublish true; LOpen false 9; LTake true; LHandle true;
       LPublish false; LKeep false; LPublish false] = Some p /\
  est (f0 p) = true /\ alive (f1 p) = false.
Proof. eexists. split; [vm_compute; reflexivity|]. split; reflexivity. Qed.
