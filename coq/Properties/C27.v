(* C27 - A monitored router cannot crash or exhaust the BMP receiver.
   Only statements here; proofs live in Proofs/BMPCodecProofs.v and Proofs/BMPServeProofs.v.
   The model (Model/BMPCodec.v, Model/BMPRouter.v) is Router.serve on a connection that delivers the
   byte stream s and then ends: recvBMPMsg framing, packet.Decode, processMsg and its handlers,
   cleanup. Byte strings are lists of numbers below 256 (bytes_ok). The BGP layer below BMP
   (decoding of the OPENs of a peer up, decode + application of the BGP message of a route
   monitoring message) is a pair of arbitrary total functions: the theorems hold for every choice. *)
From Coq Require Import List NArith.
Import ListNotations.
From BioVerif Require Import Model.BMPCodec Model.BMPRouter Proofs.BMPCodecProofs Proofs.BMPServeProofs.
Open Scope N_scope.

(* No byte stream makes the session panic: neither the framing (slice bounds on short or huge length
   fields), nor a decoder, nor a handler (empty reason TLV, OPENs that disagree with the per-peer
   header, route monitoring carrying anything) - from any router state, under any configuration. *)
Theorem C27_no_panic :
  forall (open_decode : bytes -> option open_info) (upd_apply : bool -> bool -> bool -> bytes -> list uevent)
         (c : cfg) (st : rstate) (s : bytes),
  bytes_ok s ->
  forall k f, serve open_decode upd_apply c st s <> SPanic k f.
Proof. exact serve_never_panics. Qed.
Print Assumptions C27_no_panic.

(* The session is never wedged: serve returns (after cleanup) on every stream, having handed
   `frames` messages to processMsg, each of which consumed at least its 6 byte header. *)
Theorem C27_serve_returns :
  forall (open_decode : bytes -> option open_info) (upd_apply : bool -> bool -> bool -> bytes -> list uevent)
         (c : cfg) (st : rstate) (s : bytes),
  bytes_ok s ->
  exists st' cost frames,
    serve open_decode upd_apply c st s = SDone st' cost frames /\ 6 * frames <= len s /\
    cost <= 8 * len s + 5800 * (frames + 1).
Proof. exact serve_total. Qed.
Print Assumptions C27_serve_returns.

(* Every loop consumes input: the loops of the model run on fuel (the length of what is left to
   read, plus one) and never exhaust it; a framed message takes at least 6 bytes off the stream. *)
Theorem C27_fuel :
  (forall (open_decode : bytes -> option open_info) (upd_apply : bool -> bool -> bool -> bytes -> list uevent)
          (c : cfg) (st : rstate) (s : bytes),
     bytes_ok s -> serve open_decode upd_apply c st s <> SFuel) /\
  (forall s, recv s <> RFuel) /\
  (forall s m rest k, recv s = RMsg m rest k -> len rest + 6 <= len s) /\
  (forall msg, framed msg -> fst (decode msg) <> Fuel).
Proof. exact fuel_suffices. Qed.
Print Assumptions C27_fuel.

(* Allocation of the BMP layer (receive buffers, every make/append whose size comes from the
   input, binary.Read's scratch slices) is proportional to the bytes received:
   at most 8 bytes per byte received plus 5800 per message (4096 of which is the receive buffer),
   hence at most 975 * length + 5800 whatever the length fields, counts and TLV lengths say. *)
Theorem C27_alloc_proportional :
  forall (open_decode : bytes -> option open_info) (upd_apply : bool -> bool -> bool -> bytes -> list uevent)
         (c : cfg) (st : rstate) (s : bytes) (st' : rstate) (cost frames : N),
  bytes_ok s ->
  serve open_decode upd_apply c st s = SDone st' cost frames ->
  cost <= 975 * len s + 5800.
Proof. exact serve_alloc_linear. Qed.
Print Assumptions C27_alloc_proportional.

(* Non-vacuity: streams that made the code before the fixes panic or allocate 4 GiB are served. *)
Definition no_open (_ : bytes) : option open_info := None.
Definition no_events (_ _ _ : bool) (_ : bytes) : list uevent := [].
Definition dflt : cfg := mk_cfg [] false false.

(* message length 3 < 6; message length 2^32-1 on a 6 byte stream; termination message with an empty
   reason TLV: all end the session without a panic, with a small allocation *)
Example C27_example_short_length :
  serve no_open no_events dflt init [3; 0; 0; 0; 3; 4] = SDone init 4096 0.
Proof. vm_compute. reflexivity. Qed.
Example C27_example_huge_length :
  serve no_open no_events dflt init [3; 255; 255; 255; 255; 4] = SDone init 4096 0.
Proof. vm_compute. reflexivity. Qed.
Example C27_example_empty_reason :
  exists st, serve no_open no_events dflt init [3; 0; 0; 0; 10; 5; 0; 1; 0; 0] = SDone st 8192 1
             /\ r_counters st = [0; 0; 0; 0; 0; 1; 0].
Proof. eexists. vm_compute. split; reflexivity. Qed.
(* a statistics report announcing 2^32-1 counters in 4 bytes is rejected before anything is sized by it *)
Example C27_example_stats_count :
  snd (decode ([3; 0; 0; 0; 52; 1] ++ repeat 0 42 ++ [255; 255; 255; 255])) = 0.
Proof. vm_compute. reflexivity. Qed.
(* ... and so is a count of 2^30, whose 4-fold is 0 modulo 2^32: the check multiplies in 64 bits *)
Example C27_example_stats_count_wrap :
  snd (decode ([3; 0; 0; 0; 52; 1] ++ repeat 0 42 ++ [64; 0; 0; 0])) = 0 /\
  snd (decode ([3; 0; 0; 0; 56; 1] ++ repeat 0 42 ++ [64; 0; 0; 1; 0; 1; 0; 0])) = 0.
Proof. vm_compute. split; reflexivity. Qed.
