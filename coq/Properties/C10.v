(* C10 - The peer's view equals the Adj-RIB-Out under any timing.
   Only statements here; proofs live in Proofs/UpdateSenderProofs.v.

   run c ls            the update sender after the labels ls (Add / Remove / Dequeue / EmitOne /
                       EoRBegin / EoRStep: the atomic steps of update_sender.go, any order, any
                       map iteration order); None if a label is not enabled where it occurs
   view (wire s)       replay of everything written to the peer, keyed by prefix and path id
   adj_rib_out c ls    the Adj-RIB-Out as the AddPath/RemovePath calls define it
   quiescent s         nothing queued, nothing in flight, no EndOfRIB in progress *)
From Coq Require Import List NArith ZArith.
Import ListNotations.
From BioVerif Require Import Model.UpdateSender Spec.UpdateSenderSpec Proofs.UpdateSenderProofs.
Open Scope Z_scope.

(* For EVERY finite sequence of labels (all interleavings of route changes with the sender's steps,
   all iteration orders) in which no route is withdrawn while its announcement is between Dequeue
   and EmitOne: once changes stop and everything is flushed, the peer's view is the Adj-RIB-Out.
   Hypotheses: the Adj-RIB-Out's client protocol (a path is added to a vacant key or re-added),
   sha256 = identity on the hashed tuple, every prefix fits next to its attributes (C18). *)
Theorem C10_converges_partial : forall (c : cfg) (ls : list label) (s : st),
  run c ls = Some s ->
  client_protocol c ls ->
  hash_faithful c ls ->
  all_fit c ls ->
  no_withdraw_in_flight c ls ->
  quiescent s = true ->
  forall x pid, view (wire s) x pid = adj_rib_out c ls x pid.
Proof. exact converges_partial. Qed.
Print Assumptions C10_converges_partial.

(* Without that guard the statement is false on the current code: RemovePath cannot cancel what the
   sender goroutine has already dequeued (it sends without holding toSendMu), the withdraw
   overtakes the announcement and the peer keeps a route the Adj-RIB-Out no longer has. *)
Theorem C10_converges_refuted :
  exists (c : cfg) (ls : list label) (s : st),
    run c ls = Some s /\
    client_protocol c ls /\ hash_faithful c ls /\ all_fit c ls /\
    quiescent s = true /\
    exists x pid, view (wire s) x pid <> adj_rib_out c ls x pid.
Proof.
  destruct witness_overtakes as [s [H1 [H2 [H3 [H4 [H5 [H6 H7]]]]]]].
  exists w_cfg, w_hist, s.
  split; [exact H1|]. split; [exact H2|]. split; [exact H3|]. split; [exact H4|]. split; [exact H5|].
  exists w_pfx, 0%N. rewrite H6, H7. discriminate.
Qed.
Print Assumptions C10_converges_refuted.

(* Non-vacuity of the partial theorem, on the situation the property singles out: a route is
   withdrawn while its announcement is still queued, then replaced; two more entries are pending
   and flushed in an arbitrary order. *)
Definition ex_cfg : cfg := mkcfg V4 false true true false.
Definition ex_x : pfx := mkpfx 167837696 16.
Definition ex_y : pfx := mkpfx 167903232 16.
Definition ex_p1 : path := mkpath 1 0 [1%N] true false false false false 0 0 0 [].
Definition ex_p2 : path := mkpath 2 0 [2%N] false false false false false 0 0 0 [].
Definition ex_hist : list label :=
  [Add ex_x ex_p1; Add ex_y ex_p1; Remove ex_x ex_p1; Add ex_x ex_p2;
   Dequeue (pkey ex_p2); Remove ex_y ex_p1; EmitOne; EoRBegin []; EoRStep].

Example C10_example_withdrawn_while_queued :
  exists s, run ex_cfg ex_hist = Some s /\ quiescent s = true /\
    client_protocol ex_cfg ex_hist /\ hash_faithful ex_cfg ex_hist /\ all_fit ex_cfg ex_hist /\
    no_withdraw_in_flight ex_cfg ex_hist /\
    view (wire s) ex_x 0%N = Some 2%N /\ view (wire s) ex_y 0%N = None.
Proof.
  eexists. split; [vm_compute; reflexivity|]. split; [reflexivity|].
  split; [cbn; auto 10|].
  split.
  { cbn. repeat split; try tauto;
      intros e He Hk;
      repeat (destruct He as [He|He]; [subst e; cbn in Hk |- *; first [reflexivity | discriminate]|]);
      try contradiction. }
  split.
  { cbn. repeat split; unfold fits; vm_compute; discriminate. }
  split.
  { cbn. repeat split; try tauto. unfold in_flight. cbn. intros [_ [H|[]]]. discriminate. }
  split; reflexivity.
Qed.
