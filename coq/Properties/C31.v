(* C31 - IS-IS point-to-point adjacencies follow the three-way handshake and the hold timer.
   Only statements here; proofs live in Proofs/AdjProofs.v. Model: Model/Adj.v (neighbor table of
   one interface keyed by sender, the adjacency checker, the LSP's neighbor list and the LSP update
   request flag) after the two repairs in neighbor.go (Init neighbors time out; a time-out of an Up
   adjacency requests an LSP update). Histories: any list of hellos (any sender, holding time,
   accepted listing us / accepted not listing us / rejected / ignored), clock advances with a
   checker run, and LSP regenerations. *)
From Coq Require Import List Bool NArith.
Import ListNotations.
From BioVerif Require Import Model.Adj Spec.AdjSpec Proofs.AdjProofs.
Open Scope N_scope.

(* An adjacency is Up only if the most recent accepted hello of that neighbor listed this system
   and circuit in its three-way TLV (so: not before such a hello, and not after a later hello
   that no longer does) ... *)
Theorem C31_up_only_after_threeway : forall (evs : list event) k nb,
  lookup k (nbrs (run init evs)) = Some nb -> state nb = Up -> last_valid evs k = Some true.
Proof. exact up_only_after_threeway. Qed.
Print Assumptions C31_up_only_after_threeway.

(* ... the first hello only creates the neighbor (Init); a known neighbor whose hello lists us is Up. *)
Theorem C31_handshake : forall s k hold,
  (forall lists, lookup k (nbrs s) = None ->
     lookup k (nbrs (on_hello s k hold lists)) = Some (mkNbr Init (now s + hold) (now s))) /\
  (forall nb0, lookup k (nbrs s) = Some nb0 ->
     exists nb, lookup k (nbrs (step s (Hello k hold Lists))) = Some nb /\ state nb = Up /\
                timeout nb = now s + hold).
Proof.
  intros s k hold. split.
  - intros lists. exact (first_hello_creates_init s k hold lists).
  - exact (up_on_threeway s k hold).
Qed.
Print Assumptions C31_handshake.

(* It goes Down when a later hello no longer lists us (in any state s, reachable or not: after such
   a hello the neighbor is not Up; if it was Up it is Down since now and an LSP update is requested) ... *)
Theorem C31_down_on_mismatch : forall s k hold,
  (forall nb, lookup k (nbrs (step s (Hello k hold NotLists))) = Some nb -> state nb <> Up) /\
  (forall nb0, lookup k (nbrs s) = Some nb0 -> state nb0 = Up ->
     lookup k (nbrs (step s (Hello k hold NotLists))) = Some (mkNbr Down (now s + hold) (now s)) /\
     pending (step s (Hello k hold NotLists)) = true).
Proof. exact down_on_mismatch. Qed.
Print Assumptions C31_down_on_mismatch.

(* ... or when the holding time passes: after every checker run no neighbor that is Up or Init is
   past its holding time, and an Up neighbor that is past it is Down since this run, with an LSP
   update requested. *)
Theorem C31_down_on_timeout : forall evs d k,
  let s := run init evs in
  (forall nb, lookup k (nbrs (step s (Tick d))) = Some nb -> state nb <> Down ->
     now (step s (Tick d)) <= timeout nb) /\
  (forall nb0, lookup k (nbrs s) = Some nb0 -> state nb0 = Up -> timeout nb0 < now s + d ->
     lookup k (nbrs (step s (Tick d))) = Some (mkNbr Down (timeout nb0) (now s + d)) /\
     pending (step s (Tick d)) = true).
Proof. intros evs d k. apply down_on_timeout. apply run_wf. apply init_wf. Qed.
Print Assumptions C31_down_on_timeout.

(* A neighbor that stopped sending (accepted) hellos disappears, whatever state it is in - Init
   included: in any continuation in which it stays silent and every clock advance is >= 1 s, it is
   gone once the checker ran more often than rank = remaining holding time + 123 (ranking
   function: every run strictly decreases it or removes the neighbor) ... *)
Theorem C31_eventually_removed : forall (evs0 evs : list event) k nb,
  lookup k (nbrs (run init evs0)) = Some nb ->
  silent k evs = true -> ticks_pos evs = true ->
  rank (now (run init evs0)) nb < count_ticks evs ->
  lookup k (nbrs (run (run init evs0) evs)) = None.
Proof. exact eventually_removed. Qed.
Print Assumptions C31_eventually_removed.

(* ... in particular at most hold + 124 checker runs after its last accepted hello. *)
Theorem C31_removed_after_last_hello : forall (evs0 : list event) k hold v (evs : list event),
  (v = Lists \/ v = NotLists) ->
  silent k evs = true -> ticks_pos evs = true ->
  hold + 124 <= count_ticks evs ->
  lookup k (nbrs (run init (evs0 ++ Hello k hold v :: evs))) = None.
Proof. exact removed_after_last_hello. Qed.
Print Assumptions C31_removed_after_last_hello.

(* The local LSP lists exactly the Up adjacencies once regenerated: at every point of every
   history either an LSP update is pending or the LSP's neighbor list equals the Up adjacencies;
   a regeneration makes them equal and clears the request. *)
Theorem C31_lsp_lists_up : forall (evs : list event),
  (pending (run init evs) = true \/ lsp (run init evs) = up_ids (nbrs (run init evs))) /\
  lsp (step (run init evs) ForceRegen) = up_ids (nbrs (run init evs)) /\
  (pending (run init evs) = true ->
     lsp (step (run init evs) Regen) = up_ids (nbrs (run init evs)) /\
     pending (step (run init evs) Regen) = false).
Proof. exact lsp_lists_up. Qed.
Print Assumptions C31_lsp_lists_up.

Theorem C31_lsp_lists_exactly_up : forall (evs : list event) k,
  In k (lsp (step (run init evs) ForceRegen)) <->
  exists nb, lookup k (nbrs (run init evs)) = Some nb /\ state nb = Up.
Proof. exact lsp_lists_exactly_up. Qed.
Print Assumptions C31_lsp_lists_exactly_up.

(* An adjacency change that lands WHILE the LSP updater builds the LSP is not lost: the updater takes the
   request (clears the flag) before it builds - [ForceRegen] is that build, the hello arrives during it and
   sets the flag again if it changes the Up set, the updater then looks at the flag again ([Regen]): after
   any history followed by such a build the LSP lists exactly the Up adjacencies and nothing is pending. *)
Theorem C31_lsp_lists_exactly_up_change_during_build : forall (evs : list event) k hold v,
  let s := run init (evs ++ [ForceRegen; Hello k hold v; Regen]) in
  lsp s = up_ids (nbrs s) /\ pending s = false.
Proof. exact change_during_build. Qed.
Print Assumptions C31_lsp_lists_exactly_up_change_during_build.

(* ... whereas an updater that clears the flag again after building (seeded change C31-2r3) leaves the LSP
   stale with nothing pending *)
Theorem C31_drain_after_build_loses_change :
  let s0 := run init [Hello 0 9 NotLists; Regen] in
  let s := step (drained (run s0 [ForceRegen; Hello 0 9 Lists])) Regen in
  up_ids (nbrs s) = [0] /\ lsp s = [] /\ pending s = false.
Proof. exact drain_after_build_loses_change. Qed.
Print Assumptions C31_drain_after_build_loses_change.

(* Non-vacuity. Neighbor 0 completes the handshake, is listed, falls silent, times out (the LSP is
   updated), and is removed; neighbor 1 never gets beyond Init and is removed as well. *)
Example C31_example_history :
  let h := [Hello 0 9 NotLists; Hello 1 3 NotLists; Hello 0 9 Lists; Regen] in
  let s1 := run init h in
  let s2 := run s1 [Tick 10; Regen] in
  let s3 := run s2 [Tick 120; Tick 1] in
  up_ids (nbrs s1) = [0] /\ lsp s1 = [0] /\ last_valid h 0 = Some true /\
  lookup 0 (nbrs s2) = Some (mkNbr Down 9 10) /\ lookup 1 (nbrs s2) = Some (mkNbr Down 3 10) /\
  lsp s2 = [] /\ nbrs s3 = [].
Proof. vm_compute. repeat split; reflexivity. Qed.

Example C31_example_rank :
  silent 1 [Tick 1; Hello 0 5 Lists; Tick 200] = true /\ ticks_pos [Tick 1; Tick 200] = true /\
  rank 0 (mkNbr Init 3 0) = 126.
Proof. vm_compute. repeat split; reflexivity. Qed.
