(* Pipeline, part 2: the Loc-RIB model as a bag of route.Path values per prefix, and the conversions.
   - Path.Compare on BGP paths is equality of ckey (Spec/PipelineSpec.v);
   - lift commutes with the comparisons of the Adj-RIB-In model (pcmp / pkey);
   - LocRIB.AddPath / RemovePath on the model of C04, for any admissible Route.PathSelection: the candidates
     of the prefix become a permutation of "one more" / "the first Compare-equal one less". *)
From Coq Require Import List NArith Bool Arith Lia Permutation.
Import ListNotations.
From BioVerif Require Import Model.Pipeline Spec.PipelineSpec.
From BioVerif Require Model.AdjRIBIn Model.LocRIBClients Model.AdjRIBOut Model.UpdateSender Spec.AdjRIBInSpec Spec.LocRIBClientsSpec
  Proofs.AdjRIBInProofs Proofs.LocRIBClientsProofs.

(* ------------------------------------------------------------------ removing one occurrence *)
Section Rm1.
  Variable K : Type.
  Variable K_dec : forall a b : K, {a = b} + {a <> b}.

  Fixpoint rm1 (x : K) (l : list K) : list K :=
    match l with
    | [] => []
    | y :: r => if K_dec y x then r else y :: rm1 x r
    end.

  Lemma rm1_notin : forall x l, ~ In x l -> rm1 x l = l.
  Proof.
    induction l as [|y r IH]; intros H; cbn; [reflexivity|].
    destruct (K_dec y x) as [->|NE]; [exfalso; apply H; now left|].
    rewrite IH; [reflexivity|]. intros HI. apply H. now right.
  Qed.

  Lemma rm1_in_perm : forall x l, In x l -> Permutation l (x :: rm1 x l).
  Proof.
    induction l as [|y r IH]; intros H; [destruct H|]. cbn.
    destruct (K_dec y x) as [->|NE]; [reflexivity|].
    destruct H as [H|H]; [congruence|].
    eapply Permutation_trans; [apply perm_skip, IH, H|apply perm_swap].
  Qed.

  Lemma rm1_perm : forall x l l', Permutation l l' -> Permutation (rm1 x l) (rm1 x l').
  Proof.
    intros x l l' HP. destruct (in_dec K_dec x l) as [HI|HN].
    - assert (HI' : In x l') by (eapply Permutation_in; eassumption).
      apply Permutation_cons_inv with x.
      eapply Permutation_trans; [apply Permutation_sym, rm1_in_perm, HI|].
      eapply Permutation_trans; [exact HP|]. now apply rm1_in_perm.
    - assert (HN' : ~ In x l') by (intros H; apply HN; eapply Permutation_in; [apply Permutation_sym; eassumption|exact H]).
      now rewrite !rm1_notin.
  Qed.

  Lemma rm1_app_l : forall x a b, In x a -> rm1 x (a ++ b) = rm1 x a ++ b.
  Proof.
    induction a as [|y a IH]; intros b H; [destruct H|]. cbn.
    destruct (K_dec y x) as [->|NE]; [reflexivity|].
    destruct H as [H|H]; [congruence|]. now rewrite IH.
  Qed.

  Lemma rm1_app_r : forall x a b, ~ In x a -> rm1 x (a ++ b) = a ++ rm1 x b.
  Proof.
    induction a as [|y a IH]; intros b H; [reflexivity|]. cbn.
    destruct (K_dec y x) as [->|NE]; [exfalso; apply H; now left|].
    rewrite IH; [reflexivity|]. intros HI. apply H. now right.
  Qed.

  (* removing the first element whose key is x, seen on the keys *)
  Lemma rm1_map_first : forall (A : Type) (key : A -> K) (f : A -> bool) (x : K) (l : list A),
    (forall a, In a l -> (f a = true <-> key a = x)) ->
    map key ((fix go (l : list A) := match l with [] => [] | a :: r => if f a then r else a :: go r end) l) = rm1 x (map key l).
  Proof.
    intros A key f x. induction l as [|a r IH]; intros H; [reflexivity|]. cbn [map rm1].
    destruct (f a) eqn:E.
    - destruct (K_dec (key a) x) as [_|NE]; [reflexivity|]. exfalso. apply NE. apply H; [now left|exact E].
    - destruct (K_dec (key a) x) as [EQ|_].
      + apply H in EQ; [congruence|now left].
      + cbn [map]. f_equal. apply IH. intros b Hb. apply H. now right.
  Qed.
End Rm1.
Arguments rm1 {K} K_dec x l.

(* ------------------------------------------------------------------ Path.Compare = equality of ckey *)

Import AdjRIBOut.

Lemma gen_list_eqb_eq : forall (A : Type) (eqb : A -> A -> bool),
  (forall x y, eqb x y = true <-> x = y) -> forall l m, list_eqb eqb l m = true <-> l = m.
Proof.
  intros A eqb H. induction l as [|x l IH]; intros [|y m]; cbn; split; intros E; try reflexivity; try discriminate.
  - apply andb_true_iff in E. destruct E as [E1 E2]. apply H in E1. apply IH in E2. congruence.
  - inversion E; subst. apply andb_true_iff. split; [now apply H|now apply IH].
Qed.

Lemma gen_opt_eqb_eq : forall (A : Type) (eqb : A -> A -> bool),
  (forall x y, eqb x y = true <-> x = y) -> forall a b, opt_eqb eqb a b = true <-> a = b.
Proof.
  intros A eqb H [x|] [y|]; cbn; split; intros E; try reflexivity; try discriminate.
  - apply H in E. congruence.
  - inversion E. now apply H.
Qed.

Lemma pair_eqb_eq : forall a b, pair_eqb a b = true <-> a = b.
Proof.
  intros [a1 a2] [b1 b2]. unfold pair_eqb. cbn. rewrite andb_true_iff, !N.eqb_eq. split; [intros [-> ->]; reflexivity|].
  intros E. inversion E. auto.
Qed.

Lemma lc_eqb_eq : forall a b, lc_eqb a b = true <-> a = b.
Proof.
  intros [a1 a2] [b1 b2]. unfold lc_eqb. cbn. rewrite andb_true_iff, pair_eqb_eq, N.eqb_eq. split; [intros [-> ->]; reflexivity|].
  intros E. inversion E. auto.
Qed.

Lemma seg_eqb_eq : forall a b, seg_eqb a b = true <-> a = b.
Proof.
  intros [a1 a2] [b1 b2]. unfold seg_eqb. cbn.
  rewrite andb_true_iff, Bool.eqb_true_iff, (gen_list_eqb_eq N N.eqb N.eqb_eq).
  split; [intros [-> ->]; reflexivity|]. intros E. inversion E. auto.
Qed.

Lemma unk_eqb_eq : forall a b, unk_eqb a b = true <-> a = b.
Proof.
  intros [a1 a2 a3] [b1 b2 b3]. unfold unk_eqb. cbn.
  rewrite !andb_true_iff, !N.eqb_eq, (gen_list_eqb_eq N N.eqb N.eqb_eq).
  split; [intros [[-> ->] ->]; reflexivity|]. intros E. inversion E. auto.
Qed.

Lemma bgp_compare_ckey : forall r a r' b,
  bgp_compare a b = true <-> ckey (PBgp r a) = ckey (PBgp r' b).
Proof.
  intros r a r' b. destruct a, b. unfold bgp_compare, ckey, set_otc, set_aspath. cbn.
  rewrite !andb_true_iff, !N.eqb_eq, !Bool.eqb_true_iff.
  rewrite (gen_opt_eqb_eq _ pair_eqb pair_eqb_eq).
  rewrite (gen_list_eqb_eq _ seg_eqb seg_eqb_eq).
  rewrite !(gen_opt_eqb_eq _ _ (gen_list_eqb_eq N N.eqb N.eqb_eq)).
  rewrite (gen_opt_eqb_eq _ _ (gen_list_eqb_eq _ lc_eqb lc_eqb_eq)).
  rewrite (gen_list_eqb_eq _ unk_eqb unk_eqb_eq).
  split.
  - intros H. decompose [and] H. subst. reflexivity.
  - intros E. inversion E. subst. repeat split; reflexivity.
Qed.

(* the argument of a Loc-RIB removal is a BGP path; the stored one may be anything *)
Lemma compare_ckey : forall x r b, path_compare x (PBgp r b) = true <-> ckey x = ckey (PBgp r b).
Proof.
  intros [snh|r' a] r b.
  - cbn. destruct snh; split; discriminate.
  - cbn [path_compare]. apply bgp_compare_ckey.
Qed.

(* ------------------------------------------------------------------ lift *)

Lemma segs_inj : forall a b, segs a = segs b -> a = b.
Proof. intros [|x a] [|y b]; cbn; intros E; try reflexivity; try discriminate. now inversion E. Qed.

Lemma opt_nonempty_inj : forall a b, opt_nonempty a = opt_nonempty b -> a = b.
Proof. intros [|x a] [|y b]; cbn; intros E; try reflexivity; try discriminate. now inversion E. Qed.

(* on the paths of one session, Path.Compare is the Adj-RIB-In model's pcmp *)
Lemma ckey_lift_iff : forall ip bid ib q q',
  ckey (lift ip bid ib q) = ckey (lift ip bid ib q') <-> AdjRIBInSpec.pkey q = AdjRIBInSpec.pkey q'.
Proof.
  intros ip bid ib q q'. destruct q, q'. unfold lift, ckey, AdjRIBInSpec.pkey, set_otc, set_aspath,
    AdjRIBIn.set_hid, AdjRIBIn.set_otc. cbn. split; intros E.
  - inversion E. f_equal; auto using segs_inj, opt_nonempty_inj.
  - inversion E. subst. reflexivity.
Qed.

(* ckey (lift q) only depends on pkey q *)
Lemma ckey_lift_pkey : forall ip bid ib q, ckey (lift ip bid ib q) = ckey (lift ip bid ib (AdjRIBInSpec.pkey q)).
Proof. intros. apply ckey_lift_iff. destruct q. reflexivity. Qed.

Lemma src_ckey : forall x, src_of (ckey x) = src_of x.
Proof. intros [s|r b]; reflexivity. Qed.

Lemma src_lift : forall ip bid ib q, src_of (lift ip bid ib q) = Some ip.
Proof. reflexivity. Qed.

Lemma ckey_lift_src : forall ip bid ib q ip' bid' ib' q',
  ckey (lift ip bid ib q) = ckey (lift ip' bid' ib' q') -> ip = ip'.
Proof.
  intros. assert (E : src_of (ckey (lift ip bid ib q)) = src_of (ckey (lift ip' bid' ib' q'))) by congruence.
  rewrite !src_ckey, !src_lift in E. now inversion E.
Qed.

Lemma upfx_eqb : forall p q, UpdateSender.pfx_eqb (upfx p) (upfx q) = N.eqb p q.
Proof.
  intros p q. unfold UpdateSender.pfx_eqb, upfx. cbn [UpdateSender.x_addr UpdateSender.x_len].
  destruct (N.eqb_spec p q) as [->|NE]; [now rewrite !N.eqb_refl|].
  destruct (N.eqb_spec (p / 64) (q / 64)) as [E1|]; [|reflexivity].
  destruct (N.eqb_spec (p mod 64) (q mod 64)) as [E2|]; [|reflexivity].
  exfalso. apply NE. rewrite (N.div_mod p 64), (N.div_mod q 64) by discriminate. now rewrite E1, E2.
Qed.

(* ------------------------------------------------------------------ the Loc-RIB as a bag *)

Import LocRIBClients.

Section Loc.
  Variable sel : nat -> list (entry path) -> list (entry path) * nat.
  Hypothesis Hsel : LocRIBClientsSpec.sel_ok path sel.

  Notation lstep := (step path path_compare path_equal sel).

  Definition vals (st : state path) (p : pfx) : list path := map snd (paths (route_at st p)).

  Lemma route_at_store : forall (st : state path) p newr p' cl t,
    route_at (mkState (store path p newr (routes st)) cl t) p' =
    if p =? p' then (match paths newr with [] => nil_route | _ :: _ => newr end) else route_at st p'.
  Proof.
    intros. unfold route_at. cbn [routes]. rewrite LocRIBClientsProofs.lookup_store.
    destruct (p =? p'); [|reflexivity]. now destruct (paths newr).
  Qed.

  Lemma vals_store : forall (st : state path) p newr p' cl t,
    vals (mkState (store path p newr (routes st)) cl t) p' =
    if p =? p' then map snd (paths newr) else vals st p'.
  Proof.
    intros. unfold vals. rewrite route_at_store. destruct (p =? p'); [|reflexivity].
    destruct (paths newr) eqn:E; [reflexivity|now rewrite E].
  Qed.

  Lemma selected_perm : forall t pre, Permutation (paths (selected path sel t pre)) pre.
  Proof. intros t pre. unfold selected. destruct (Hsel t pre) as [HP _]. destruct (sel t pre). exact HP. Qed.

  (* LocRIB.AddPath *)
  Lemma loc_add : forall st p v,
    exists st' cbs, lstep st (OAdd p v) = Ok st' cbs /\
      Permutation (vals st' p) (vals st p ++ [v]) /\
      (forall p', p' <> p -> vals st' p' = vals st p') /\ clients st' = clients st.
  Proof.
    intros st p v. cbn [step]. eexists. eexists. split; [reflexivity|]. split; [|split].
    - rewrite vals_store, Nat.eqb_refl.
      eapply Permutation_trans; [apply Permutation_map, selected_perm|].
      rewrite map_app. reflexivity.
    - intros p' NE. rewrite vals_store. destruct (p =? p') eqn:E; [apply Nat.eqb_eq in E; congruence|reflexivity].
    - reflexivity.
  Qed.

  Definition rm_first (v : path) (l : list path) : list path :=
    (fix go (l : list path) := match l with [] => [] | a :: r => if path_compare a v then r else a :: go r end) l.

  Lemma remove_first_vals : forall v (l : list (entry path)),
    map snd (remove_first path (fun e => path_compare (snd e) v) l) = rm_first v (map snd l).
  Proof.
    intros v. induction l as [|e l IH]; [reflexivity|]. cbn.
    destruct (path_compare (snd e) v); [reflexivity|]. cbn. now rewrite IH.
  Qed.

  (* LocRIB.RemovePath *)
  Lemma loc_remove : forall st p v,
    exists st' cbs, lstep st (ORemove p v) = Ok st' cbs /\
      Permutation (vals st' p) (rm_first v (vals st p)) /\
      (forall p', p' <> p -> vals st' p' = vals st p') /\ clients st' = clients st.
  Proof.
    intros st p v. cbn [step]. destruct (lookup p (routes st)) as [oldr|] eqn:EL.
    - eexists. eexists. split; [reflexivity|]. split; [|split].
      + rewrite vals_store, Nat.eqb_refl.
        assert (HV : vals st p = map snd (paths oldr)) by (unfold vals, route_at; now rewrite EL).
        rewrite HV, <- remove_first_vals.
        destruct (remove_first path (fun e => path_compare (snd e) v) (paths oldr)) as [|x pre] eqn:ER; [reflexivity|].
        apply Permutation_map, selected_perm.
      + intros p' NE. rewrite vals_store. destruct (p =? p') eqn:E; [apply Nat.eqb_eq in E; congruence|reflexivity].
      + reflexivity.
    - eexists. eexists. split; [reflexivity|]. split; [|split].
      + unfold vals, tick, route_at. cbn [routes]. rewrite EL. reflexivity.
      + intros. reflexivity.
      + reflexivity.
  Qed.

  (* on the keys: one occurrence of ckey v less *)
  Lemma rm_first_ckey : forall r b l,
    map ckey (rm_first (PBgp r b) l) = rm1 LocView.path_eq_dec (ckey (PBgp r b)) (map ckey l).
  Proof.
    intros r b l. unfold rm_first.
    apply (rm1_map_first path LocView.path_eq_dec path ckey (fun a => path_compare a (PBgp r b)) (ckey (PBgp r b)) l).
    intros a _. apply compare_ckey.
  Qed.
End Loc.
